package c06

import (
	"fmt"
	"strings"

	"pgregory.net/rapid"

	ms "verif/internal/model/script"
)

// G3: standard spends signed with the MODEL signer, then mutated.

// plan is the recipe for one input: the output it spends is fixed first (all
// prevouts must be known before anything is signed), the scriptSig/witness
// are produced by sign.
type plan struct {
	label   string
	notes   []string
	prevout ms.TxOut
	sign    func(t *rapid.T, tx *ms.Tx, idx int, prevouts []ms.TxOut)
}

func (p *plan) note(format string, a ...any) {
	p.notes = append(p.notes, fmt.Sprintf(format, a...))
}

// signFn signs the inner script from byte offset codeStart.
type signFn func(k *ms.Key, o sigOpts, codeStart int) []byte

type innerScript struct {
	name    string
	script  []byte
	satisfy func(t *rapid.T, p *plan, sign signFn) [][]byte
}

func mut(t *rapid.T, percent int, label string) bool {
	return rapid.IntRange(0, 99).Draw(t, label) < percent
}

// ---------------------------------------------------------------------------
// lock-time operands relative to the transaction context

func genCLTVOperand(t *rapid.T, tx *ms.Tx) int64 {
	l := int64(tx.LockTime)
	switch rapid.IntRange(0, 13).Draw(t, "cltvKind") {
	case 0, 1, 10, 11, 12, 13:
		return l
	case 2:
		return l + 1
	case 3:
		if l > 0 {
			return l - 1
		}
		return 0
	case 4:
		return 0
	case 5:
		return -1
	case 6:
		return 499999999
	case 7:
		return 500000000
	case 8:
		return rapid.SampledFrom([]int64{0x7fffffff, 0x80000000, 0xffffffff, 0x100000000, 0x7fffffffff, 0x8000000000}).Draw(t, "cltvBig")
	}
	return rapid.Int64Range(0, l+2).Draw(t, "cltvAny")
}

func genCSVOperand(t *rapid.T, seq uint32) int64 {
	s := int64(seq)
	m := s & (ms.SequenceTypeFlag | ms.SequenceMask)
	switch rapid.IntRange(0, 13).Draw(t, "csvKind") {
	case 0, 1, 10, 11, 12, 13:
		return m
	case 2:
		return m + 1
	case 3:
		if m&ms.SequenceMask > 0 {
			return m - 1
		}
		return m
	case 4:
		return m ^ ms.SequenceTypeFlag
	case 5:
		return -1
	case 6:
		return m | 1<<31 // disable flag: behaves as NOP
	case 7:
		return m | 1<<23 | 1<<30 // unrelated bits are masked off
	case 8:
		return rapid.SampledFrom([]int64{0, 1, 0xffff, 0x10000, 1 << 22, 1<<22 | 0xffff, 0x7fffffffff, 0x8000000000}).Draw(t, "csvBig")
	}
	return s
}

// ---------------------------------------------------------------------------
// ECDSA inner scripts

func genKeyFmt(t *rapid.T) (*ms.Key, []byte, int) {
	k := key(genKeyIdx().Draw(t, "key"))
	f := genPubFormat().Draw(t, "pubFormat")
	return k, encodePub(k, f), f
}

func fmtNote(p *plan, f int) {
	switch f {
	case pkUncompressed:
		p.note("uncompressed-key")
	case pkHybrid:
		p.note("hybrid-key")
	case pkOffCurve:
		p.note("off-curve-key")
	}
}

func genInnerECDSA(t *rapid.T, p *plan, sk *skeleton, idx int, pMut int) *innerScript {
	kinds := []string{"p2pk", "p2pkh", "multisig", "multisig", "multisig-not", "checksig-not", "either", "ifelse", "codesep", "cltv", "csv", "hashlock"}
	kind := rapid.SampledFrom(kinds).Draw(t, "inner")
	b := &ms.Builder{}
	in := &innerScript{name: kind}
	sigOpt := func(t *rapid.T) sigOpts {
		o := genSigOpts(t, pMut)
		if o.note != "" {
			p.note("%s", o.note)
		}
		return o
	}
	switch kind {
	case "p2pk":
		k, pub, f := genKeyFmt(t)
		fmtNote(p, f)
		in.script = b.Push(pub).Op(ms.OP_CHECKSIG).B
		in.satisfy = func(t *rapid.T, p *plan, sign signFn) [][]byte {
			return [][]byte{sign(k, sigOpt(t), 0)}
		}
	case "p2pkh":
		k, pub, f := genKeyFmt(t)
		fmtNote(p, f)
		in.script = ms.P2PKHScript(pub)
		in.satisfy = func(t *rapid.T, p *plan, sign signFn) [][]byte {
			pk := pub
			if mut(t, pMut/4, "wrongPub") {
				pk = key(9).Compressed()
				p.note("pubkey-does-not-match-hash")
			}
			return [][]byte{sign(k, sigOpt(t), 0), pk}
		}
	case "multisig", "multisig-not":
		n := rapid.SampledFrom([]int{1, 2, 2, 3, 3, 3, 5, 15, 16, 19, 20}).Draw(t, "n")
		m := rapid.IntRange(0, n).Draw(t, "m")
		if m == 0 && rapid.Bool().Draw(t, "avoidZero") {
			m = 1
		}
		f := genPubFormat().Draw(t, "pubFormat")
		fmtNote(p, f)
		b.Num(int64(m))
		keys := make([]*ms.Key, n)
		for i := range keys {
			keys[i] = key(i % nKeys)
			b.Push(encodePub(keys[i], f))
		}
		b.Num(int64(n)).Op(ms.OP_CHECKMULTISIG)
		if kind == "multisig-not" {
			b.Op(ms.OP_NOT)
		}
		in.script = b.B
		in.satisfy = func(t *rapid.T, p *plan, sign signFn) [][]byte {
			items := [][]byte{{}}
			if mut(t, pMut/3, "dummy") {
				items[0] = rapid.SampledFrom([][]byte{{0}, {1}, {0x80}, {0, 0}}).Draw(t, "dummyVal")
				p.note("non-empty-dummy")
			}
			if kind == "multisig-not" {
				// the check is meant to fail: empty signatures comply with
				// NULLFAIL, any other failing signature does not
				for i := 0; i < m; i++ {
					switch rapid.IntRange(0, 3).Draw(t, "failSig") {
					case 0, 1:
						items = append(items, []byte{})
					case 2:
						o := cleanSig(1)
						o.wrongKey = true
						items = append(items, sign(keys[0], o, 0))
						p.note("failing-non-empty-sig")
					default:
						items = append(items, sign(keys[rapid.IntRange(0, n-1).Draw(t, "okKey")], cleanSig(1), 0))
						p.note("one-valid-sig-in-failing-multisig")
					}
				}
				return items
			}
			// choose m of the n keys, in order
			chosen := pickSubset(t, n, m)
			if m >= 2 && mut(t, pMut/3, "swapSigs") {
				chosen[0], chosen[1] = chosen[1], chosen[0]
				p.note("sigs-out-of-key-order")
			}
			for _, ki := range chosen {
				items = append(items, sign(keys[ki], sigOpt(t), 0))
			}
			if m >= 1 && mut(t, pMut/4, "dropSig") {
				items = items[:len(items)-1]
				p.note("missing-sig")
			}
			return items
		}
	case "checksig-not":
		k, pub, f := genKeyFmt(t)
		fmtNote(p, f)
		in.script = b.Push(pub).Op(ms.OP_CHECKSIG, ms.OP_NOT).B
		in.satisfy = func(t *rapid.T, p *plan, sign signFn) [][]byte {
			switch rapid.IntRange(0, 3).Draw(t, "notKind") {
			case 0, 1:
				return [][]byte{{}}
			case 2:
				o := cleanSig(1)
				o.wrongKey = true
				p.note("failing-non-empty-sig")
				return [][]byte{sign(k, o, 0)}
			}
			p.note("valid-sig-under-NOT")
			return [][]byte{sign(k, cleanSig(1), 0)}
		}
	case "either":
		ka, kb := key(genKeyIdx().Draw(t, "keyA")), key(genKeyIdx().Draw(t, "keyB"))
		in.script = b.Push(ka.Compressed()).Op(ms.OP_CHECKSIG, ms.OP_SWAP).Push(kb.Compressed()).Op(ms.OP_CHECKSIG, ms.OP_BOOLOR).B
		in.satisfy = func(t *rapid.T, p *plan, sign signFn) [][]byte {
			one := func(k *ms.Key, l string) []byte {
				switch rapid.IntRange(0, 3).Draw(t, l) {
				case 0:
					return []byte{}
				case 1:
					o := cleanSig(1)
					o.wrongKey = true
					p.note("failing-non-empty-sig")
					return sign(k, o, 0)
				}
				return sign(k, sigOpt(t), 0)
			}
			sa, sb := one(ka, "sigA"), one(kb, "sigB")
			return [][]byte{sb, sa}
		}
	case "ifelse":
		ka, kb := key(genKeyIdx().Draw(t, "keyA")), key(genKeyIdx().Draw(t, "keyB"))
		op := rapid.SampledFrom([]byte{ms.OP_IF, ms.OP_NOTIF}).Draw(t, "ifOp")
		in.script = b.Op(op).Push(ka.Compressed()).Op(ms.OP_ELSE).Push(kb.Compressed()).Op(ms.OP_ENDIF, ms.OP_CHECKSIG).B
		in.satisfy = func(t *rapid.T, p *plan, sign signFn) [][]byte {
			sel := rapid.SampledFrom([][]byte{{}, {1}, {1}, {}, {2}, {0}, {1, 0}, {0, 0}, {0x80}, {0x81}, {1, 1}}).Draw(t, "selector")
			if !(len(sel) == 0 || (len(sel) == 1 && sel[0] == 1)) {
				p.note("non-minimal-if-argument")
			}
			truth := ms.CastToBool(sel)
			if op == ms.OP_NOTIF {
				truth = !truth
			}
			k := kb
			if truth {
				k = ka
			}
			return [][]byte{sign(k, sigOpt(t), 0), sel}
		}
	case "codesep":
		ka, kb := key(genKeyIdx().Draw(t, "keyA")), key(genKeyIdx().Draw(t, "keyB"))
		b.Push(ka.Compressed()).Op(ms.OP_CHECKSIGVERIFY, ms.OP_CODESEPARATOR)
		sepEnd := len(b.B)
		// a second separator in a dead branch must not move the position
		dead := rapid.Bool().Draw(t, "deadSep")
		if dead {
			b.Op(ms.OP_0, ms.OP_IF, ms.OP_CODESEPARATOR, ms.OP_ENDIF)
		}
		in.script = b.Push(kb.Compressed()).Op(ms.OP_CHECKSIG).B
		in.satisfy = func(t *rapid.T, p *plan, sign signFn) [][]byte {
			startB := sepEnd
			if mut(t, pMut/2, "wrongSep") {
				startB = rapid.SampledFrom([]int{0, sepEnd - 1, len(in.script) - 35}).Draw(t, "sepAt")
				if dead && rapid.Bool().Draw(t, "deadSepAt") {
					startB = sepEnd + 3
				}
				p.note("signed-from-wrong-codeseparator-position")
			}
			return [][]byte{sign(kb, sigOpt(t), startB), sign(ka, sigOpt(t), 0)}
		}
	case "cltv", "csv":
		k, pub, _ := genKeyFmt(t)
		pub = k.Compressed()
		var n int64
		if kind == "cltv" {
			n = genCLTVOperand(t, sk.tx)
			b.Num(n).Op(ms.OP_CHECKLOCKTIMEVERIFY)
		} else {
			n = genCSVOperand(t, sk.tx.In[idx].Sequence)
			b.Num(n).Op(ms.OP_CHECKSEQUENCEVERIFY)
		}
		p.note("%s-operand=%d", kind, n)
		in.script = b.Op(ms.OP_DROP).Push(pub).Op(ms.OP_CHECKSIG).B
		in.satisfy = func(t *rapid.T, p *plan, sign signFn) [][]byte {
			return [][]byte{sign(k, sigOpt(t), 0)}
		}
	case "hashlock":
		k, pub, f := genKeyFmt(t)
		fmtNote(p, f)
		l := rapid.SampledFrom([]int{0, 1, 32, 33, 75, 76, 255, 256, 519, 520, 521}).Draw(t, "preimageLen")
		pre := fill(l, 0x5a)
		hop := rapid.SampledFrom([]byte{ms.OP_SHA256, ms.OP_HASH160, ms.OP_RIPEMD160, ms.OP_SHA1, ms.OP_HASH256}).Draw(t, "hashOp")
		h := hashWith(hop, pre)
		in.script = b.Op(hop).Push(h).Op(ms.OP_EQUALVERIFY).Push(pub).Op(ms.OP_CHECKSIG).B
		p.note("preimage-len=%d", l)
		in.satisfy = func(t *rapid.T, p *plan, sign signFn) [][]byte {
			pr := pre
			if mut(t, pMut/4, "wrongPre") && l > 0 {
				pr = append([]byte{}, pre...)
				pr[0] ^= 1
				p.note("wrong-preimage")
			}
			return [][]byte{sign(k, sigOpt(t), 0), pr}
		}
	}
	return in
}

func hashWith(op byte, data []byte) []byte {
	// computed by running the model on "<data> OP" would be circular for the
	// generator's purposes only; use the model's exported helpers instead.
	switch op {
	case ms.OP_SHA256:
		return ms.Sha256(data)
	case ms.OP_HASH160:
		return ms.Hash160(data)
	case ms.OP_HASH256:
		return ms.Sha256(ms.Sha256(data))
	case ms.OP_RIPEMD160:
		return ms.Ripemd160(data)
	default:
		return ms.Sha1(data)
	}
}

func pickSubset(t *rapid.T, n, m int) []int {
	// m increasing indices out of n
	var out []int
	need := m
	for i := 0; i < n && need > 0; i++ {
		remaining := n - i
		if remaining == need || rapid.IntRange(0, remaining-1).Draw(t, "pick") < need {
			out = append(out, i)
			need--
		}
	}
	return out
}

// ---------------------------------------------------------------------------
// ECDSA plans: inner script + wrapper

func genECDSAPlan(t *rapid.T, sk *skeleton, idx int, pMut int, only ...string) *plan {
	p := &plan{}
	amount := sk.prevouts[idx].Value
	in := genInnerECDSA(t, p, sk, idx, pMut)
	wrappers := []string{"bare", "p2sh", "p2sh", "p2wsh", "p2wsh", "p2sh-p2wsh"}
	if in.name == "p2pkh" {
		wrappers = []string{"bare", "p2sh", "p2sh", "p2wpkh", "p2wpkh", "p2sh-p2wpkh", "p2wsh"}
	}
	if len(only) > 0 {
		var w2 []string
		for _, w := range wrappers {
			for _, o := range only {
				if w == o {
					w2 = append(w2, w)
				}
			}
		}
		wrappers = w2
	}
	w := rapid.SampledFrom(wrappers).Draw(t, "wrapper")
	p.label = "g3:" + in.name + "/" + w
	segwit := strings.Contains(w, "p2w")

	var pk, prog []byte
	switch w {
	case "bare":
		pk = in.script
	case "p2sh":
		pk = ms.P2SHScript(in.script)
	case "p2wsh":
		pk = ms.P2WSHScript(in.script)
	case "p2sh-p2wsh":
		prog = ms.P2WSHScript(in.script)
		pk = ms.P2SHScript(prog)
	case "p2wpkh":
		pk = append([]byte{ms.OP_0, 20}, in.script[3:23]...)
	case "p2sh-p2wpkh":
		prog = append([]byte{ms.OP_0, 20}, in.script[3:23]...)
		pk = ms.P2SHScript(prog)
	}
	// the P2SH output commits to ANOTHER script than the witness program the spender reveals
	// (the witness itself stays valid for the revealed program)
	if (w == "p2sh-p2wsh" || w == "p2sh-p2wpkh") && mut(t, pMut/5, "foreignP2SH") {
		other := rapid.SampledFrom([][]byte{{ms.OP_1}, {ms.OP_0}, append([]byte{ms.OP_0, 20}, fill(20, 7)...), append([]byte{ms.OP_0, 32}, fill(32, 9)...),
			{0x52, 33, 2, 1, 1, 1, 1, 1, 1, 1, 1, 1, 1, 1, 1, 1, 1, 1, 1, 1, 1, 1, 1, 1, 1, 1, 1, 1, 1, 1, 1, 1, 1, 1, 1, 1, ms.OP_1, ms.OP_CHECKMULTISIG}}).Draw(t, "otherScript")
		pk = ms.P2SHScript(other)
		p.note("p2sh-output-commits-to-another-script")
	}
	// output-side mutations of the witness program
	if (w == "p2wsh" || w == "p2wpkh") && mut(t, pMut/6, "progLen") {
		cut := rapid.SampledFrom([]int{-1, 1}).Draw(t, "progDelta")
		body := pk[2:]
		if cut < 0 {
			body = body[:len(body)-1]
		} else {
			body = append(append([]byte{}, body...), 0)
		}
		pk = append([]byte{ms.OP_0, byte(len(body))}, body...)
		p.note("v0-program-length-%d", len(body))
	}
	p.prevout = ms.TxOut{Value: amount, PkScript: pk}

	p.sign = func(t *rapid.T, tx *ms.Tx, idx int, prevouts []ms.TxOut) {
		signAmount := prevouts[idx].Value
		if segwit && mut(t, pMut/6, "wrongAmount") {
			signAmount++
			p.note("signed-for-wrong-amount")
		}
		sign := func(k *ms.Key, o sigOpts, codeStart int) []byte {
			if codeStart < 0 {
				codeStart = 0
			}
			code := in.script[codeStart:]
			return makeECDSASig(k, func(ht byte) []byte {
				if segwit {
					return ms.WitnessV0SigHash(tx, idx, code, uint32(ht), signAmount)
				}
				return ms.LegacySigHash(tx, idx, code, uint32(ht))
			}, o)
		}
		items := in.satisfy(t, p, sign)
		if mut(t, pMut/5, "extraItem") {
			extra := rapid.SampledFrom([][]byte{{}, {1}, {0x51}}).Draw(t, "extraVal")
			if rapid.Bool().Draw(t, "extraBottom") {
				items = append([][]byte{extra}, items...)
			} else {
				items = append(items, extra)
			}
			p.note("extra-stack-item")
		}
		txin := &tx.In[idx]
		pushForm := 0
		if mut(t, pMut/4, "pushForm") {
			pushForm = rapid.SampledFrom([]int{1, 2, 3, 4}).Draw(t, "form")
			p.note("scriptSig-push-form-%d", pushForm)
		}
		pushItems := func(items [][]byte) []byte {
			var out []byte
			for _, it := range items {
				out = append(out, pushWith(it, pushForm)...)
			}
			return out
		}
		inner := in.script
		if w != "bare" && w != "p2wpkh" && w != "p2sh-p2wpkh" && mut(t, pMut/8, "wrongScript") {
			inner = append(append([]byte{}, inner...), ms.OP_NOP)
			p.note("revealed-script-does-not-match-hash")
		}
		switch w {
		case "bare":
			txin.ScriptSig = pushItems(items)
		case "p2sh":
			txin.ScriptSig = append(pushItems(items), pushWith(inner, pushForm)...)
			if mut(t, pMut/8, "nonPushSig") {
				txin.ScriptSig = append([]byte{ms.OP_NOP}, txin.ScriptSig...)
				p.note("non-push-opcode-in-p2sh-scriptSig")
			}
		case "p2wsh":
			txin.Witness = append(cloneItems(items), inner)
		case "p2sh-p2wsh":
			txin.Witness = append(cloneItems(items), inner)
			txin.ScriptSig = ms.PushData(prog)
		case "p2wpkh":
			txin.Witness = cloneItems(items)
		case "p2sh-p2wpkh":
			txin.Witness = cloneItems(items)
			txin.ScriptSig = ms.PushData(prog)
		}
		// spend-side structural mutations
		switch {
		case (w == "p2sh-p2wsh" || w == "p2sh-p2wpkh") && mut(t, pMut/4, "nestedSig"):
			switch rapid.IntRange(0, 3).Draw(t, "nestedKind") {
			case 0:
				txin.ScriptSig = pushWith(prog, 2)
				p.note("nested-scriptSig-PUSHDATA1")
			case 1:
				txin.ScriptSig = append([]byte{ms.OP_0}, ms.PushData(prog)...)
				p.note("nested-scriptSig-extra-push")
			case 2:
				txin.ScriptSig = append(ms.PushData(prog), ms.OP_NOP)
				p.note("nested-scriptSig-trailing-NOP")
			default:
				txin.ScriptSig = nil
				p.note("nested-scriptSig-empty")
			}
		case (w == "p2wsh" || w == "p2wpkh") && mut(t, pMut/5, "nativeSig"):
			txin.ScriptSig = rapid.SampledFrom([][]byte{{ms.OP_0}, {ms.OP_1}, {ms.OP_NOP}, {1, 1}}).Draw(t, "nativeSigVal")
			p.note("scriptSig-on-native-witness-spend")
		case !segwit && mut(t, pMut/5, "strayWitness"):
			txin.Witness = [][]byte{rapid.SampledFrom([][]byte{{}, {1}, {0x30}}).Draw(t, "strayWitVal")}
			p.note("witness-on-non-witness-spend")
		case segwit && mut(t, pMut/8, "noWitness"):
			txin.Witness = nil
			p.note("witness-removed")
		}
	}
	return p
}

// genSigInScriptPlan: the signature sits in the scriptPubKey itself, which
// only FindAndDelete makes spendable (legacy), and which CONST_SCRIPTCODE
// forbids; with an empty signature FindAndDelete removes OP_0 pushes.
func genSigInScriptPlan(t *rapid.T, sk *skeleton, idx int) *plan {
	p := &plan{label: "g3:sig-in-script/bare"}
	k := key(genKeyIdx().Draw(t, "key"))
	kind := rapid.SampledFrom([]string{"sig", "sig", "empty-sig-not", "sig-p2sh", "multisig"}).Draw(t, "sisKind")
	p.label = "g3:sig-in-script-" + kind
	ht := rapid.SampledFrom(definedHashTypes).Draw(t, "hashType")
	// The prevout script contains the signature, the signature commits to
	// this input's outpoint, and the outpoint (funding txid) would commit to
	// the prevout script: the cycle is broken by building the prevout script
	// at signing time, after the outpoints are fixed. Such plans are only
	// used by the single-input checks, which do not need the funding
	// transaction to exist.
	p.prevout = ms.TxOut{Value: sk.prevouts[idx].Value}
	build := func(tx *ms.Tx, idx int) (pkScript, scriptSig []byte) {
		pub := k.Compressed()
		switch kind {
		case "empty-sig-not":
			// 0 <pk> CHECKSIG NOT: the empty signature's push (OP_0) is
			// found in the script code
			b := &ms.Builder{}
			return b.Op(ms.OP_0).Push(pub).Op(ms.OP_CHECKSIG, ms.OP_NOT).B, nil
		case "multisig":
			rest := (&ms.Builder{}).Op(ms.OP_1).Push(pub).Op(ms.OP_1, ms.OP_CHECKMULTISIG).B
			// script = 0 <sig> 1 <pk> 1 CHECKMULTISIG ; FindAndDelete removes <sig>
			stripped := append([]byte{ms.OP_0}, rest...)
			sig := makeECDSASig(k, func(h byte) []byte { return ms.LegacySigHash(tx, idx, stripped, uint32(h)) }, cleanSig(ht))
			return append(append([]byte{ms.OP_0}, ms.PushData(sig)...), rest...), nil
		default:
			rest := (&ms.Builder{}).Push(pub).Op(ms.OP_CHECKSIG).B
			sig := makeECDSASig(k, func(h byte) []byte { return ms.LegacySigHash(tx, idx, rest, uint32(h)) }, cleanSig(ht))
			full := append(ms.PushData(sig), rest...)
			if kind == "sig-p2sh" {
				return ms.P2SHScript(full), ms.PushData(full)
			}
			return full, nil
		}
	}
	p.signWithFixedOutpoint(build)
	return p
}

func (p *plan) signWithFixedOutpoint(build func(tx *ms.Tx, idx int) (pkScript, scriptSig []byte)) {
	p.sign = func(t *rapid.T, tx *ms.Tx, idx int, prevouts []ms.TxOut) {
		pk, sig := build(tx, idx)
		prevouts[idx].PkScript = pk
		tx.In[idx].ScriptSig = sig
	}
}

// ---------------------------------------------------------------------------
// witness programs that are not v0/P2TR spends: unknown versions, odd
// lengths, pay-to-anchor

func genProgramPlan(t *rapid.T, sk *skeleton, idx int) *plan {
	p := &plan{}
	kind := rapid.SampledFrom([]string{"unknown-version", "unknown-version", "v1-other-length", "anchor", "anchor", "v0-bad-length", "p2sh-wrapped", "not-quite-program"}).Draw(t, "progKind")
	p.label = "g3:program-" + kind
	var pk, scriptSig []byte
	mk := func(ver int, n int) []byte {
		op := byte(ms.OP_0)
		if ver > 0 {
			op = byte(ms.OP_1 - 1 + ver)
		}
		return append([]byte{op, byte(n)}, fill(n, byte(0x40+n))...)
	}
	anchor := []byte{ms.OP_1, 2, 0x4e, 0x73}
	switch kind {
	case "unknown-version":
		pk = mk(rapid.IntRange(2, 16).Draw(t, "ver"), rapid.SampledFrom([]int{2, 3, 20, 32, 33, 40}).Draw(t, "len"))
	case "v1-other-length":
		pk = mk(1, rapid.SampledFrom([]int{2, 3, 20, 31, 33, 40}).Draw(t, "len"))
	case "anchor":
		pk = anchor
	case "v0-bad-length":
		pk = mk(0, rapid.SampledFrom([]int{2, 19, 21, 31, 33, 40}).Draw(t, "len"))
	case "p2sh-wrapped":
		inner := rapid.SampledFrom([][]byte{anchor, mk(1, 32), mk(2, 32), mk(16, 2), mk(0, 21)}).Draw(t, "wrapped")
		pk = ms.P2SHScript(inner)
		scriptSig = ms.PushData(inner)
	case "not-quite-program":
		// shapes just outside IsWitnessProgram: 41-byte push, 1-byte push,
		// OP_1NEGATE / OP_RESERVED as version, PUSHDATA1 form
		pk = rapid.SampledFrom([][]byte{
			append([]byte{ms.OP_1, 41}, fill(41, 7)...),
			{ms.OP_1, 1, 7},
			append([]byte{ms.OP_1NEGATE, 32}, fill(32, 7)...),
			append([]byte{ms.OP_RESERVED, 32}, fill(32, 7)...),
			append([]byte{ms.OP_1, ms.OP_PUSHDATA1, 32}, fill(32, 7)...),
			append(append([]byte{ms.OP_1, 32}, fill(32, 7)...), ms.OP_NOP),
		}).Draw(t, "shape")
	}
	p.prevout = ms.TxOut{Value: sk.prevouts[idx].Value, PkScript: pk}
	p.sign = func(t *rapid.T, tx *ms.Tx, idx int, prevouts []ms.TxOut) {
		txin := &tx.In[idx]
		txin.ScriptSig = scriptSig
		switch rapid.IntRange(0, 4).Draw(t, "progWitness") {
		case 0:
		case 1:
			txin.Witness = [][]byte{{}}
			p.note("witness=[empty]")
		case 2:
			txin.Witness = [][]byte{{1}, fill(600, 1)}
			p.note("witness-with-600-byte-item")
		case 3:
			txin.Witness = [][]byte{fill(64, 3)}
			p.note("witness=[64 bytes]")
		default:
			if len(scriptSig) == 0 {
				txin.ScriptSig = []byte{ms.OP_1}
				p.note("scriptSig-on-native-witness-spend")
			}
		}
	}
	return p
}

// ---------------------------------------------------------------------------
// taproot

type tapSigOpts struct {
	grind50  bool // valid signature whose first byte is 0x50 (the annex tag)
	hashType byte
	flip     int // -1 none
	empty    bool
	wrongKey bool
	resize   int // 0 none; otherwise final length
	zeroByte bool
	note     string
}

func genTapSigOpts(t *rapid.T, pMut int) tapSigOpts {
	o := tapSigOpts{hashType: rapid.SampledFrom(tapHashTypes).Draw(t, "tapHashType"), flip: -1}
	if rapid.IntRange(0, 99).Draw(t, "tapSigMut?") >= pMut {
		return o
	}
	switch rapid.IntRange(0, 6).Draw(t, "tapSigMut") {
	case 0:
		o.flip = rapid.IntRange(0, 64).Draw(t, "flipAt")
		o.note = "schnorr-sig-byte-flip"
	case 1:
		o.hashType = rapid.SampledFrom(tapBadHashTypes).Draw(t, "badTapHashType")
		o.note = "undefined-taproot-hashtype"
	case 2:
		o.empty = true
		o.note = "empty-sig"
	case 3:
		o.wrongKey = true
		o.note = "wrong-key"
	case 4:
		o.resize = rapid.SampledFrom([]int{1, 63, 66, 32}).Draw(t, "sigLen")
		o.note = "bad-schnorr-sig-length"
	case 5:
		o.zeroByte = true
		o.hashType = 0
		o.note = "explicit-zero-hashtype-byte"
	default:
		o.hashType = 3
		o.note = "sighash-single"
	}
	return o
}

// makeTapSig signs with BIP341/342 under the options. For hash types that
// have no digest the signature is made over a fixed dummy message.
func makeTapSig(k *ms.Key, tx *ms.Tx, idx int, prevouts []ms.TxOut, tapscript bool, ctx *ms.TapCtx, o tapSigOpts) []byte {
	if o.empty {
		return []byte{}
	}
	signer := k
	if o.wrongKey {
		signer = key(23)
	}
	h, ok := ms.TaprootSigHash(tx, idx, prevouts, o.hashType, tapscript, ctx)
	if !ok {
		h = ms.Sha256([]byte("no digest for this hash type"))
	}
	sig := signer.SignSchnorrHash(h)
	if o.grind50 {
		if g, ok := signer.SignSchnorrHashGrind(h, 0x50); ok {
			sig = g
		}
	}
	if o.hashType != 0 || o.zeroByte {
		sig = append(sig, o.hashType)
	}
	if o.flip >= 0 {
		sig[o.flip%len(sig)] ^= 1
	}
	if o.resize > 0 {
		for len(sig) < o.resize {
			sig = append(sig, 1)
		}
		sig = sig[:o.resize]
	}
	return sig
}

// tapLeafScript is a leaf with its satisfaction recipe; sign receives the
// opcode position of the last executed OP_CODESEPARATOR (0xffffffff: none).
type tapSignFn func(k *ms.Key, o tapSigOpts, codeSepPos uint32) []byte

type tapLeafScript struct {
	name    string
	script  []byte
	version byte
	satisfy func(t *rapid.T, p *plan, sign tapSignFn) [][]byte
}

var opSuccessSamples = []byte{80, 98, 126, 127, 128, 129, 131, 134, 137, 138, 141, 142, 149, 153, 187, 188, 200, 253, 254}

// controlLen and annexLen describe the rest of the witness (needed by the
// sigops-budget template to land on the boundary).
func genTapLeaf(t *rapid.T, p *plan, sk *skeleton, idx int, pMut int, controlLen, annexLen int) *tapLeafScript {
	kinds := []string{"checksig", "checksig", "csv-checksig", "two-sigs", "checksigadd", "checksigadd", "codesep", "ifelse", "unknown-pubkey",
		"op-success", "op-success", "checkmultisig", "checksig-not", "cltv", "budget", "stack-limit"}
	kind := rapid.SampledFrom(kinds).Draw(t, "leafKind")
	l := &tapLeafScript{name: kind, version: 0xc0}
	b := &ms.Builder{}
	const noSep = 0xffffffff
	sigOpt := func(t *rapid.T) tapSigOpts {
		o := genTapSigOpts(t, pMut)
		if o.note != "" {
			p.note("%s", o.note)
		}
		return o
	}
	switch kind {
	case "checksig":
		k := key(genKeyIdx().Draw(t, "key"))
		l.script = b.Push(k.XOnly()).Op(ms.OP_CHECKSIG).B
		l.satisfy = func(t *rapid.T, p *plan, sign tapSignFn) [][]byte {
			return [][]byte{sign(k, sigOpt(t), noSep)}
		}
	case "cltv", "csv-checksig":
		k := key(genKeyIdx().Draw(t, "key"))
		if kind == "cltv" {
			n := genCLTVOperand(t, sk.tx)
			p.note("cltv-operand=%d", n)
			b.Num(n).Op(ms.OP_CHECKLOCKTIMEVERIFY, ms.OP_DROP)
		} else {
			n := genCSVOperand(t, sk.tx.In[idx].Sequence)
			p.note("csv-operand=%d", n)
			b.Num(n).Op(ms.OP_CHECKSEQUENCEVERIFY, ms.OP_DROP)
		}
		l.script = b.Push(k.XOnly()).Op(ms.OP_CHECKSIG).B
		l.satisfy = func(t *rapid.T, p *plan, sign tapSignFn) [][]byte {
			return [][]byte{sign(k, sigOpt(t), noSep)}
		}
	case "two-sigs":
		ka, kb := key(genKeyIdx().Draw(t, "keyA")), key(genKeyIdx().Draw(t, "keyB"))
		l.script = b.Push(ka.XOnly()).Op(ms.OP_CHECKSIGVERIFY).Push(kb.XOnly()).Op(ms.OP_CHECKSIG).B
		l.satisfy = func(t *rapid.T, p *plan, sign tapSignFn) [][]byte {
			return [][]byte{sign(kb, sigOpt(t), noSep), sign(ka, sigOpt(t), noSep)}
		}
	case "checksigadd":
		n := rapid.IntRange(1, 5).Draw(t, "n")
		kk := rapid.IntRange(0, n).Draw(t, "k")
		keys := make([]*ms.Key, n)
		for i := range keys {
			keys[i] = key(i)
			b.Push(keys[i].XOnly())
			if i == 0 {
				b.Op(ms.OP_CHECKSIG)
			} else {
				b.Op(ms.OP_CHECKSIGADD)
			}
		}
		cmp := rapid.SampledFrom([]byte{ms.OP_NUMEQUAL, ms.OP_NUMEQUAL, ms.OP_GREATERTHANOREQUAL}).Draw(t, "cmp")
		if cmp == ms.OP_GREATERTHANOREQUAL {
			l.script = b.Num(int64(kk)).Op(ms.OP_GREATERTHANOREQUAL).B
		} else {
			l.script = b.Num(int64(kk)).Op(ms.OP_NUMEQUAL).B
		}
		l.satisfy = func(t *rapid.T, p *plan, sign tapSignFn) [][]byte {
			chosen := map[int]bool{}
			for _, i := range pickSubset(t, n, kk) {
				chosen[i] = true
			}
			if mut(t, pMut/3, "oneMoreSig") {
				chosen[rapid.IntRange(0, n-1).Draw(t, "extraSigner")] = true
				p.note("possibly-one-more-signer")
			}
			// witness order: the signature for key i is consumed i-th, so
			// it sits deepest last
			items := make([][]byte, n)
			for i := 0; i < n; i++ {
				var s []byte
				if chosen[i] {
					s = sign(keys[i], sigOpt(t), noSep)
				} else {
					s = []byte{}
				}
				items[n-1-i] = s
			}
			return items
		}
	case "codesep":
		ka, kb := key(genKeyIdx().Draw(t, "keyA")), key(genKeyIdx().Draw(t, "keyB"))
		// opcode positions: 0 push, 1 CHECKSIGVERIFY, 2 CODESEPARATOR, ...
		b.Push(ka.XOnly()).Op(ms.OP_CHECKSIGVERIFY, ms.OP_CODESEPARATOR)
		sepPos := uint32(2)
		lastPos := sepPos
		dead := rapid.Bool().Draw(t, "deadSep")
		if dead {
			b.Op(ms.OP_0, ms.OP_IF, ms.OP_CODESEPARATOR, ms.OP_ENDIF) // positions 3,4,5,6
		}
		live2 := rapid.Bool().Draw(t, "secondSep")
		if live2 {
			b.Op(ms.OP_NOP, ms.OP_CODESEPARATOR)
			if dead {
				lastPos = 8
			} else {
				lastPos = 4
			}
		}
		l.script = b.Push(kb.XOnly()).Op(ms.OP_CHECKSIG).B
		l.satisfy = func(t *rapid.T, p *plan, sign tapSignFn) [][]byte {
			pos := lastPos
			if mut(t, pMut/2, "wrongSep") {
				pos = rapid.SampledFrom([]uint32{noSep, 0, sepPos, 5, lastPos + 1, lastPos - 1}).Draw(t, "sepPos")
				if pos != lastPos {
					p.note("signed-with-wrong-codeseparator-position")
				}
			}
			return [][]byte{sign(kb, sigOpt(t), pos), sign(ka, sigOpt(t), noSep)}
		}
	case "ifelse":
		ka, kb := key(genKeyIdx().Draw(t, "keyA")), key(genKeyIdx().Draw(t, "keyB"))
		op := rapid.SampledFrom([]byte{ms.OP_IF, ms.OP_NOTIF}).Draw(t, "ifOp")
		l.script = b.Op(op).Push(ka.XOnly()).Op(ms.OP_ELSE).Push(kb.XOnly()).Op(ms.OP_ENDIF, ms.OP_CHECKSIG).B
		l.satisfy = func(t *rapid.T, p *plan, sign tapSignFn) [][]byte {
			sel := rapid.SampledFrom([][]byte{{}, {1}, {1}, {}, {2}, {0}, {1, 0}, {0x80}, {1, 1}}).Draw(t, "selector")
			if !(len(sel) == 0 || (len(sel) == 1 && sel[0] == 1)) {
				p.note("non-minimal-if-argument")
			}
			truth := ms.CastToBool(sel)
			if op == ms.OP_NOTIF {
				truth = !truth
			}
			k := kb
			if truth {
				k = ka
			}
			return [][]byte{sign(k, sigOpt(t), noSep), sel}
		}
	case "unknown-pubkey":
		k := key(genKeyIdx().Draw(t, "key"))
		pkLen := rapid.SampledFrom([]int{0, 1, 31, 33, 33, 64, 65}).Draw(t, "pkLen")
		pk := fill(pkLen, 2)
		if pkLen == 33 {
			pk = k.Compressed()
		}
		p.note("pubkey-of-%d-bytes", pkLen)
		op := rapid.SampledFrom([]byte{ms.OP_CHECKSIG, ms.OP_CHECKSIGVERIFY, ms.OP_NOT, ms.OP_CHECKSIGADD}).Draw(t, "csOp")
		switch op {
		case ms.OP_CHECKSIGVERIFY:
			b.Push(pk).Op(op, ms.OP_1)
		case ms.OP_NOT:
			// a failing check is tolerated: CHECKSIG NOT
			b.Push(pk).Op(ms.OP_CHECKSIG, ms.OP_NOT)
		case ms.OP_CHECKSIGADD:
			// sig 1 pk CHECKSIGADD leaves 1 or 2
			b.Op(ms.OP_1).Push(pk).Op(ms.OP_CHECKSIGADD)
		default:
			b.Push(pk).Op(op)
		}
		l.script = b.B
		l.satisfy = func(t *rapid.T, p *plan, sign tapSignFn) [][]byte {
			switch rapid.IntRange(0, 2).Draw(t, "upkSig") {
			case 0:
				p.note("empty-sig")
				return [][]byte{{}}
			case 1:
				return [][]byte{{1}}
			}
			return [][]byte{sign(k, cleanTapSig(), noSep)}
		}
	case "op-success":
		k := key(genKeyIdx().Draw(t, "key"))
		ops := rapid.SampledFrom(opSuccessSamples).Draw(t, "opSuccess")
		shape := rapid.SampledFrom([]string{"first", "last", "dead-branch", "after-parse-error", "before-parse-error", "inside-push", "after-return", "with-disabled"}).Draw(t, "osShape")
		p.note("op-success-%d-%s", ops, shape)
		base := (&ms.Builder{}).Push(k.XOnly()).Op(ms.OP_CHECKSIG).B
		switch shape {
		case "first":
			l.script = append([]byte{ops}, base...)
		case "last":
			l.script = append(append([]byte{}, base...), ops)
		case "dead-branch":
			l.script = append(append([]byte{}, base...), ms.OP_0, ms.OP_IF, ops, ms.OP_ENDIF)
		case "after-parse-error":
			// a truncated push swallows the rest of the script: the
			// OP_SUCCESSx byte is never decoded as an opcode
			l.script = append(append([]byte{}, base...), 0x4b, ops)
		case "before-parse-error":
			l.script = append(append([]byte{}, base...), ops, ms.OP_PUSHDATA2, 0xff)
		case "inside-push":
			l.script = append(append([]byte{}, base...), 0x01, ops, ms.OP_DROP)
		case "after-return":
			l.script = append([]byte{ms.OP_RETURN, ms.OP_VERIF}, ops)
		case "with-disabled":
			l.script = append([]byte{ms.OP_2MUL, ms.OP_VERIF, ms.OP_CHECKMULTISIG}, ops)
		}
		l.satisfy = func(t *rapid.T, p *plan, sign tapSignFn) [][]byte {
			items := [][]byte{sign(k, cleanTapSig(), noSep)}
			if mut(t, 30, "bigItems") {
				items = append([][]byte{fill(521, 9)}, items...)
				p.note("521-byte-witness-item")
			}
			return items
		}
	case "checkmultisig":
		k := key(genKeyIdx().Draw(t, "key"))
		l.script = b.Op(ms.OP_1).Push(k.XOnly()).Op(ms.OP_1, rapid.SampledFrom([]byte{ms.OP_CHECKMULTISIG, ms.OP_CHECKMULTISIGVERIFY}).Draw(t, "cmsOp")).B
		if rapid.Bool().Draw(t, "deadCMS") {
			l.script = (&ms.Builder{}).Op(ms.OP_0, ms.OP_IF, ms.OP_CHECKMULTISIG, ms.OP_ENDIF).Push(k.XOnly()).Op(ms.OP_CHECKSIG).B
			p.note("checkmultisig-in-dead-branch")
			l.satisfy = func(t *rapid.T, p *plan, sign tapSignFn) [][]byte {
				return [][]byte{sign(k, cleanTapSig(), noSep)}
			}
		} else {
			l.satisfy = func(t *rapid.T, p *plan, sign tapSignFn) [][]byte {
				return [][]byte{{}, sign(k, cleanTapSig(), noSep)}
			}
		}
	case "checksig-not":
		k := key(genKeyIdx().Draw(t, "key"))
		l.script = b.Push(k.XOnly()).Op(ms.OP_CHECKSIG, ms.OP_NOT).B
		l.satisfy = func(t *rapid.T, p *plan, sign tapSignFn) [][]byte {
			switch rapid.IntRange(0, 2).Draw(t, "notKind") {
			case 0:
				return [][]byte{{}}
			case 1:
				o := cleanTapSig()
				o.wrongKey = true
				p.note("failing-non-empty-sig")
				return [][]byte{sign(k, o, noSep)}
			}
			p.note("valid-sig-under-NOT")
			return [][]byte{sign(k, cleanTapSig(), noSep)}
		}
	case "budget":
		// k signature checks against one (duplicated) signature; the budget
		// is 50 + serialized witness size, padded with a data push that is
		// dropped so that the budget lands around the k*50 boundary
		k := key(genKeyIdx().Draw(t, "key"))
		checks := rapid.IntRange(2, 12).Draw(t, "checks")
		delta := rapid.SampledFrom([]int{-1, 0, 0, 1, -50, 50}).Draw(t, "budgetDelta")
		mk := func(pad int) []byte {
			bb := &ms.Builder{}
			if pad >= 0 {
				bb.Raw(pushWith(fill(pad, 0xaa), 3)).Op(ms.OP_DROP)
			}
			bb.Push(k.XOnly())
			for i := 0; i < checks-1; i++ {
				bb.Op(ms.OP_2DUP, ms.OP_CHECKSIGVERIFY)
			}
			return bb.Op(ms.OP_CHECKSIG).B
		}
		// witness: [sig(64)] [script] [control(33)] ; size = 1 + 65 + cs(len)+len + 34
		// budget = 50 + size must equal 50*checks + delta
		size := func(scr []byte) int {
			w := [][]byte{fill(64, 0), scr, fill(controlLen, 0)}
			if annexLen > 0 {
				w = append(w, fill(annexLen, 0))
			}
			return int(ms.SerializedWitnessSize(w))
		}
		target := 50*checks + delta - 50
		l.script = mk(-1)
		for pad := 0; pad <= 520; pad++ {
			s := mk(pad)
			if size(s) == target {
				l.script = s
				break
			}
			if size(s) > target {
				break
			}
		}
		got := 50 + size(l.script) - 50*checks
		p.note("budget: %d checks, weight left after all checks = %d", checks, got)
		l.satisfy = func(t *rapid.T, p *plan, sign tapSignFn) [][]byte {
			o := cleanTapSig()
			return [][]byte{sign(k, o, noSep)}
		}
	case "stack-limit":
		// initial stack of n items (limit 1000) that the script consumes
		k := key(genKeyIdx().Draw(t, "key"))
		n := rapid.SampledFrom([]int{998, 999, 1000, 1001}).Draw(t, "initialItems")
		// every 2DROP removes two; CHECKSIG consumes sig+key and leaves one
		extra := n - 1
		for i := 0; i < extra/2; i++ {
			b.Op(ms.OP_2DROP)
		}
		if extra%2 == 1 {
			b.Op(ms.OP_DROP)
		}
		l.script = b.Push(k.XOnly()).Op(ms.OP_CHECKSIG).B
		p.note("initial-tapscript-stack-%d", n)
		l.satisfy = func(t *rapid.T, p *plan, sign tapSignFn) [][]byte {
			items := [][]byte{sign(k, cleanTapSig(), noSep)}
			for i := 0; i < extra; i++ {
				items = append(items, []byte{})
			}
			return items
		}
	}
	if mut(t, pMut/5, "leafVersion") {
		l.version = rapid.SampledFrom([]byte{0xc2, 0xc4, 0xfe, 0x02, 0x66, 0x7e, 0x80, 0xbe, 0x50}).Draw(t, "leafVer")
		p.note("leaf-version-%#x", l.version)
	}
	return l
}

func cleanTapSig() tapSigOpts { return tapSigOpts{flip: -1} }

func genTaprootPlan(t *rapid.T, sk *skeleton, idx int, pMut int) *plan {
	p := &plan{}
	internal := key(8 + rapid.IntRange(0, 3).Draw(t, "internalKey"))
	nLeaves := rapid.SampledFrom([]int{1, 2, 0, 3, 1, 4, 5, 8}).Draw(t, "nLeaves")
	keyPath := nLeaves == 0 || rapid.IntRange(0, 3).Draw(t, "keyPath") == 3
	var leaves []ms.TapLeaf
	var target *tapLeafScript
	targetIdx := 0
	if !keyPath {
		targetIdx = rapid.IntRange(0, nLeaves-1).Draw(t, "leafIdx")
	}
	var merge []int
	for i := 0; i+1 < nLeaves; i++ {
		merge = append(merge, rapid.IntRange(0, 7).Draw(t, "merge"))
	}
	withAnnex := rapid.IntRange(0, 4).Draw(t, "annex") == 0
	var annex []byte
	if withAnnex {
		annex = append([]byte{0x50}, rapid.SliceOfN(rapid.Byte(), 0, 8).Draw(t, "annexBody")...)
	}
	for i := 0; i < nLeaves; i++ {
		leaves = append(leaves, ms.TapLeaf{Version: 0xc0, Script: (&ms.Builder{}).Num(int64(i+100)).Op(ms.OP_DROP, ms.OP_1).B})
	}
	if !keyPath {
		// the tree shape does not depend on leaf contents: learn the depth
		// of the target leaf first
		depth := len(ms.TapTreePaths(len(leaves), merge)[targetIdx])
		target = genTapLeaf(t, p, sk, idx, pMut, 33+32*depth, len(annex))
		leaves[targetIdx] = ms.TapLeaf{Version: target.version, Script: target.script}
	}
	tree := ms.BuildTapTree(internal, leaves, merge)
	p.prevout = ms.TxOut{Value: sk.prevouts[idx].Value, PkScript: tree.PkScript()}
	if keyPath {
		p.label = "g3:p2tr-keypath"
		p.sign = func(t *rapid.T, tx *ms.Tx, idx int, prevouts []ms.TxOut) {
			ctx := &ms.TapCtx{}
			if withAnnex {
				ctx.AnnexPresent, ctx.AnnexHash = true, ms.AnnexHash(annex)
				p.note("annex")
			}
			o := genTapSigOpts(t, pMut)
			if o.note != "" {
				p.note("%s", o.note)
			}
			if !withAnnex && rapid.IntRange(0, 24).Draw(t, "grind50") == 0 {
				// a lone witness element that starts with the annex tag is a
				// signature, not an annex
				o.grind50 = true
				p.note("signature-starts-with-0x50")
			}
			signer := tree.Tweaked
			if mut(t, pMut/6, "untweaked") {
				signer = internal
				p.note("signed-with-untweaked-internal-key")
			}
			sig := makeTapSig(signer, tx, idx, prevouts, false, ctx, o)
			wit := [][]byte{sig}
			if withAnnex {
				wit = append(wit, annex)
			}
			switch {
			case mut(t, pMut/6, "lateAnnex") && !withAnnex:
				wit = append(wit, []byte{0x50, 1})
				p.note("annex-added-after-signing")
			case mut(t, pMut/8, "dropAnnex") && withAnnex:
				wit = wit[:1]
				p.note("annex-removed-after-signing")
			case mut(t, pMut/8, "extraWit"):
				wit = append([][]byte{{1}}, wit...)
				p.note("extra-witness-item (becomes a script path spend)")
			case mut(t, pMut/10, "emptyWit"):
				wit = nil
				p.note("empty-witness")
			}
			tx.In[idx].Witness = wit
			if mut(t, pMut/8, "tapScriptSig") {
				tx.In[idx].ScriptSig = []byte{ms.OP_1}
				p.note("scriptSig-on-native-witness-spend")
			}
		}
		return p
	}
	p.label = fmt.Sprintf("g3:p2tr-script-%s", target.name)
	p.note("leaves=%d depth=%d", nLeaves, len(tree.Paths[targetIdx])/32)
	p.sign = func(t *rapid.T, tx *ms.Tx, idx int, prevouts []ms.TxOut) {
		ctx := &ms.TapCtx{TapLeafHash: ms.TapLeafHash(target.version&0xfe, target.script)}
		if withAnnex {
			ctx.AnnexPresent, ctx.AnnexHash = true, ms.AnnexHash(annex)
			p.note("annex")
		}
		sign := func(k *ms.Key, o tapSigOpts, pos uint32) []byte {
			c := *ctx
			c.CodeSepPos = pos
			return makeTapSig(k, tx, idx, prevouts, true, &c, o)
		}
		items := target.satisfy(t, p, sign)
		control := tree.ControlBlock(targetIdx)
		script := target.script
		if mut(t, pMut/3, "controlMut") {
			control = append([]byte{}, control...)
			switch rapid.IntRange(0, 8).Draw(t, "controlKind") {
			case 0:
				control[0] ^= 1
				p.note("control-parity-flipped")
			case 1:
				control[0] ^= rapid.SampledFrom([]byte{0x02, 0x04, 0x40, 0x80}).Draw(t, "verBit")
				p.note("control-leaf-version-edited")
			case 2:
				if len(control) > 33 {
					control[33+rapid.IntRange(0, len(control)-34).Draw(t, "pathByte")] ^= 1
					p.note("control-path-byte-flipped")
				} else {
					control[1] ^= 1
					p.note("control-internal-key-flipped")
				}
			case 3:
				control = control[:len(control)-1]
				p.note("control-truncated-by-1")
			case 4:
				if len(control) > 33 {
					control = control[:len(control)-32]
					p.note("control-path-node-dropped")
				} else {
					control = control[:32]
					p.note("control-32-bytes")
				}
			case 5:
				control = append(control, fill(32, 0x77)...)
				p.note("control-path-node-added")
			case 6:
				control = append(control[:33:33], fill(32*129, 0x11)...)
				p.note("control-129-nodes")
			case 7:
				control[1+rapid.IntRange(0, 31).Draw(t, "keyByte")] ^= 1
				p.note("control-internal-key-flipped")
			default:
				control = append(control, 0)
				p.note("control-extended-by-1")
			}
		}
		if mut(t, pMut/8, "scriptMut") {
			script = append(append([]byte{}, script...), ms.OP_NOP)
			p.note("revealed-leaf-does-not-match-commitment")
		}
		if mut(t, pMut/6, "extraItem") {
			items = append([][]byte{{}}, items...)
			p.note("extra-witness-item")
		}
		wit := append(cloneItems(items), script, control)
		if withAnnex {
			wit = append(wit, annex)
		} else if mut(t, pMut/8, "lateAnnex") {
			wit = append(wit, []byte{0x50})
			p.note("annex-added-after-signing")
		}
		tx.In[idx].Witness = wit
		if mut(t, pMut/10, "tapScriptSig") {
			tx.In[idx].ScriptSig = []byte{ms.OP_0}
			p.note("scriptSig-on-native-witness-spend")
		}
	}
	return p
}

// ---------------------------------------------------------------------------

// genPlan draws one plan. pMut is the per-opportunity mutation percentage.
func genPlan(t *rapid.T, sk *skeleton, idx int, allowLate bool, pMuts []int) *plan {
	pMut := rapid.SampledFrom(pMuts).Draw(t, "pMut")
	fam := rapid.SampledFrom([]string{"taproot", "ecdsa", "taproot", "ecdsa", "ecdsa", "taproot", "ecdsa", "program", "sig-in-script", "taproot", "ecdsa"}).Draw(t, "family")
	switch {
	case fam == "ecdsa":
		return genECDSAPlan(t, sk, idx, pMut)
	case fam == "taproot":
		return genTaprootPlan(t, sk, idx, pMut)
	case fam == "program" || !allowLate:
		return genProgramPlan(t, sk, idx)
	default:
		return genSigInScriptPlan(t, sk, idx)
	}
}

// genG3Spend builds a transaction whose input idx follows a plan. A share of
// the cases aims at one verification stage that ordinary mutations reach
// rarely: mode "final" (an otherwise valid legacy spend that only CLEANSTACK
// or the unexpected-witness rule can reject), "redeem" (P2SH with heavy
// signature mutation) and "witprog" (a valid witness spend with one edit at
// the witness-program level).
func genG3Spend(t *rapid.T, fs flagSet) *spend {
	sk := genSkeleton(t, 1)
	idx := rapid.IntRange(0, len(sk.tx.In)-1).Draw(t, "idx")
	mode := rapid.SampledFrom([]string{"normal", "final", "normal", "witprog", "normal", "final", "redeem", "normal", "witprog", "final", "normal"}).Draw(t, "mode")
	var p *plan
	switch mode {
	case "final":
		p = genECDSAPlan(t, sk, idx, 0, "bare", "p2sh")
	case "redeem":
		p = genECDSAPlan(t, sk, idx, 60, "p2sh")
	case "witprog":
		if rapid.Bool().Draw(t, "witprogTaproot") {
			p = genTaprootPlan(t, sk, idx, 0)
		} else {
			p = genECDSAPlan(t, sk, idx, 0, "p2wsh", "p2wpkh", "p2sh-p2wsh", "p2sh-p2wpkh")
		}
	default:
		p = genPlan(t, sk, idx, true, []int{0, 0, 20, 40, 60})
	}
	sk.prevouts[idx] = p.prevout
	sk.finalizeOutpoints()
	p.sign(t, sk.tx, idx, sk.prevouts)
	in := &sk.tx.In[idx]
	switch mode {
	case "normal":
		stageMutation(t, p, in)
	case "final":
		if fs.model&ms.Witness != 0 && (fs.model&ms.CleanStack == 0 || rapid.Bool().Draw(t, "finalKind")) {
			in.Witness = [][]byte{rapid.SampledFrom([][]byte{{}, {1}, {0x30, 0x01}}).Draw(t, "strayWitness3")}
			p.note("witness-on-non-witness-spend")
		} else {
			in.ScriptSig = append([]byte{rapid.SampledFrom([]byte{ms.OP_1, ms.OP_0, ms.OP_16}).Draw(t, "bottomItem2")}, in.ScriptSig...)
			p.note("extra-item-at-stack-bottom")
		}
	case "witprog":
		pk := append([]byte{}, sk.prevouts[idx].PkScript...)
		switch rapid.IntRange(0, 5).Draw(t, "witprogEdit") {
		case 0:
			pk[len(pk)-1] ^= 1
			sk.prevouts[idx].PkScript = pk
			p.note("program-byte-flipped-in-the-output")
		case 1:
			in.Witness = nil
			p.note("witness-removed")
		case 2:
			if len(in.ScriptSig) == 0 {
				in.ScriptSig = []byte{ms.OP_0}
				p.note("scriptSig-on-native-witness-spend")
			} else {
				in.ScriptSig = append([]byte{ms.OP_0}, in.ScriptSig...)
				p.note("nested-scriptSig-extra-push")
			}
		case 3:
			if n := len(in.Witness); n > 0 && len(in.Witness[n-1]) > 0 {
				w := cloneItems(in.Witness)
				w[n-1] = w[n-1][:len(w[n-1])-1]
				in.Witness = w
				p.note("last-witness-item-truncated")
			}
		case 4:
			if n := len(in.Witness); n > 0 {
				w := cloneItems(in.Witness)
				w[n-1] = append(w[n-1], 0x61)
				in.Witness = w
				p.note("last-witness-item-extended")
			}
		default:
			// untouched: the valid baseline
		}
	}
	return &spend{tx: sk.tx, idx: idx, prevouts: sk.prevouts, gen: p.label + "[" + mode + "]", note: strings.Join(p.notes, "; ")}
}

// stageMutation aims a failure at one verification stage that the
// template-specific mutations reach rarely: the evaluation of the scriptSig
// itself, and the final CLEANSTACK / unexpected-witness checks.
func stageMutation(t *rapid.T, p *plan, in *ms.TxIn) {
	// (rapid draws small values more often: "no mutation" comes first)
	switch rapid.IntRange(0, 11).Draw(t, "stageMut") {
	case 5:
		bad := rapid.SampledFrom([][]byte{{ms.OP_VERIFY}, {ms.OP_IF}, {ms.OP_RETURN}, {ms.OP_PUSHDATA1}, {ms.OP_DUP},
			{ms.OP_1, ms.OP_IF}, {ms.OP_0, ms.OP_VERIFY}, {ms.OP_RESERVED}, {ms.OP_CAT}}).Draw(t, "badScriptSig")
		if rapid.Bool().Draw(t, "badFirst") {
			in.ScriptSig = append(append([]byte{}, bad...), in.ScriptSig...)
		} else {
			in.ScriptSig = append(append([]byte{}, in.ScriptSig...), bad...)
		}
		p.note("scriptSig-fails-by-itself(%x)", bad)
	case 6:
		in.ScriptSig = append(ms.PushData(fill(521, 1)), in.ScriptSig...)
		p.note("521-byte-push-in-scriptSig")
	case 7, 8, 9:
		if len(in.Witness) == 0 {
			// an extra element at the bottom of the stack: only CLEANSTACK minds
			in.ScriptSig = append([]byte{rapid.SampledFrom([]byte{ms.OP_0, ms.OP_1, ms.OP_16}).Draw(t, "bottomItem")}, in.ScriptSig...)
			p.note("extra-item-at-stack-bottom")
		}
	case 10, 11:
		if len(in.Witness) == 0 {
			in.Witness = [][]byte{rapid.SampledFrom([][]byte{{}, {1}, {0x30, 0x01}}).Draw(t, "strayWitness2")}
			p.note("witness-on-non-witness-spend")
		}
	}
}
