package c16

import (
	"encoding/hex"
	"fmt"
	"reflect"
	"strings"
	"testing"

	"github.com/btcsuite/btcd/address/v2"
	"pgregory.net/rapid"

	"verif/internal/ev"
	"verif/internal/model/addrfmt"
	"verif/internal/model/secp"
)

// ---------------------------------------------------------------------------
// generated addresses

// addrCase is one generated destination: the reference meaning d on network
// net, its reference string str and the btcd constructor call that must
// produce it.
type addrCase struct {
	net   tnet
	kind  string
	d     addrfmt.Decoded
	str   string // reference encoding (EncodeAddress)
	build func() (address.Address, error)
}

var addrKinds = []string{"p2pkh", "p2sh", "p2sh-script", "p2wpkh", "p2wsh", "p2tr", "p2a", "pk-compressed", "pk-uncompressed", "pk-hybrid"}

// prefixTexts lists, per base58 version byte, the texts "<HRP>1" (in every
// letter case that stays inside the base58 alphabet) of known networks with
// which a 25-byte base58 string of that version can begin (boundary class:
// base58 text that looks like a segwit prefix).
var prefixTexts = map[byte][]string{}

func prefixTextsFor(version byte) []string {
	if l, ok := prefixTexts[version]; ok {
		return l
	}
	var hrps []string
	for _, n := range nets {
		if len(n.m.HRP) >= 2 && len(n.m.HRP) <= 6 {
			hrps = append(hrps, n.m.HRP)
		}
	}
	out := []string{}
	seen := map[string]bool{}
	for _, h := range hrps {
		for mask := 0; mask < 1<<uint(len(h)); mask++ {
			b := []byte(h)
			ok := true
			for i := range b {
				if mask>>uint(i)&1 == 1 {
					if b[i] < 'a' || b[i] > 'z' {
						ok = false
						break
					}
					b[i] -= 32
				}
				if strings.IndexByte(addrfmt.B58Alphabet, b[i]) < 0 {
					ok = false
					break
				}
			}
			txt := string(b) + "1"
			if !ok || seen[txt] {
				continue
			}
			for _, total := range []int{33, 34, 35} {
				lo, ok1 := addrfmt.Base58Decode(txt + strings.Repeat("2", total-len(txt)))
				hi, ok2 := addrfmt.Base58Decode(txt + strings.Repeat("z", total-len(txt)))
				if ok1 && ok2 && len(lo) == 25 && len(hi) == 25 && lo[0] <= version && version <= hi[0] {
					seen[txt] = true
					out = append(out, txt)
					break
				}
			}
		}
	}
	prefixTexts[version] = out
	return out
}

// craftPrefixed tries to find a 20-byte hash whose base58 address text under
// the given version byte begins with one of prefixTextsFor(version) and has no
// later '1'.
func craftPrefixed(t *rapid.T, version byte) ([]byte, bool) {
	cands := prefixTextsFor(version)
	if len(cands) == 0 {
		return nil, false
	}
	pre := rapid.SampledFrom(cands).Draw(t, "prefix-text")
	tailIdx := rapid.SliceOfN(rapid.IntRange(1, 57), 35, 35).Draw(t, "prefix-tail") // never '1'
	for _, total := range []int{34, 33, 35} {
		txt := pre
		for i := 0; len(txt) < total; i++ {
			txt += string(addrfmt.B58Alphabet[tailIdx[i]])
		}
		b, ok := addrfmt.Base58Decode(txt)
		if ok && len(b) == 25 && b[0] == version {
			if s := addrfmt.Base58CheckEncode(version, b[1:21]); beginsWithSegwitPrefix(s) {
				return b[1:21], true
			}
		}
	}
	return nil, false
}

func genAddrKind(t *rapid.T, net tnet, kind string) addrCase {
	c := addrCase{net: net, kind: kind}
	m := net.m
	switch kind {
	case "p2pkh", "p2sh":
		ver := m.P2PKH
		if kind == "p2sh" {
			ver = m.P2SH
		}
		var h []byte
		if len(prefixTextsFor(ver)) > 0 && rapid.IntRange(0, 2).Draw(t, "try-prefixed") == 0 {
			if hh, ok := craftPrefixed(t, ver); ok {
				h = hh
				c.kind += "/segwit-prefixed-text"
			}
		}
		if h == nil {
			h = genBytes(t, 20, "hash160")
		}
		if kind == "p2pkh" {
			c.d = addrfmt.Decoded{Kind: addrfmt.KindP2PKH, Payload: h, Version: ver}
			c.build = func() (address.Address, error) { return address.NewAddressPubKeyHash(h, net.p) }
		} else {
			c.d = addrfmt.Decoded{Kind: addrfmt.KindP2SH, Payload: h, Version: ver}
			c.build = func() (address.Address, error) { return address.NewAddressScriptHashFromHash(h, net.p) }
		}
	case "p2sh-script":
		script := rapid.SliceOfN(rapid.Byte(), 0, 80).Draw(t, "redeem-script")
		c.d = addrfmt.Decoded{Kind: addrfmt.KindP2SH, Payload: addrfmt.Hash160(script), Version: m.P2SH}
		c.build = func() (address.Address, error) { return address.NewAddressScriptHash(script, net.p) }
	case "p2wpkh":
		h := genBytes(t, 20, "program")
		c.d = addrfmt.Decoded{Kind: addrfmt.KindSegwit, Payload: h, Version: 0, HRP: m.HRP}
		c.build = func() (address.Address, error) { return address.NewAddressWitnessPubKeyHash(h, net.p) }
	case "p2wsh":
		h := genBytes(t, 32, "program")
		c.d = addrfmt.Decoded{Kind: addrfmt.KindSegwit, Payload: h, Version: 0, HRP: m.HRP}
		c.build = func() (address.Address, error) { return address.NewAddressWitnessScriptHash(h, net.p) }
	case "p2tr":
		h := genBytes(t, 32, "program")
		c.d = addrfmt.Decoded{Kind: addrfmt.KindSegwit, Payload: h, Version: 1, HRP: m.HRP}
		c.build = func() (address.Address, error) { return address.NewAddressTaproot(h, net.p) }
	case "p2a":
		c.d = addrfmt.Decoded{Kind: addrfmt.KindSegwit, Payload: []byte{0x4e, 0x73}, Version: 1, HRP: m.HRP}
		c.build = func() (address.Address, error) { return address.NewAddressPayToAnchor(net.p) }
	default: // public keys
		f := map[string]int{"pk-compressed": 0, "pk-uncompressed": 1, "pk-hybrid": 2}[kind]
		pt := addrfmt.BaseMul(genScalar(t, "seckey"))
		raw := serializePub(pt, f)
		c.d = addrfmt.Decoded{Kind: addrfmt.KindPubKey, Payload: raw, Version: m.P2PKH, Point: pt, PubFmt: raw[0]}
		c.build = func() (address.Address, error) { return address.NewAddressPubKey(raw, net.p) }
	}
	c.str = canonical(c.d)
	return c
}

func genAddr(t *rapid.T) addrCase {
	net := genNet(t, "net")
	kind := rapid.SampledFrom(addrKinds).Draw(t, "kind")
	return genAddrKind(t, net, kind)
}

// ---------------------------------------------------------------------------
// differential decode (shared by the round-trip, matrix, edit and fuzz checks)

type decodeVerdict struct {
	class string          // accept | reject | unsupported
	ref   addrfmt.Decoded // valid when class == accept
	got   address.Address
	known string // signature of a listed finding met by this input ("" = none)
	obs   string
}

// compareDecode runs btcd's DecodeAddress and the reference on s with default
// network def. err != nil is a violation, unless v.known names the listed
// finding whose input class s belongs to.
func compareDecode(s string, def tnet) (v decodeVerdict, err error) {
	ref, rerr := addrfmt.DecodeAddress(s, def.m, knownHRPs)
	got, gerr := address.DecodeAddress(s, def.p)
	v.got = got
	if rerr == nil && ref.Kind == addrfmt.KindSegwit && !supportedSegwit(ref.Version, ref.Payload) {
		// a valid segwit address of a kind btcd's Address types cannot
		// represent: it must be refused, never turned into something else
		v.class = "unsupported"
		if gerr == nil {
			v.obs = fmt.Sprintf("DecodeAddress(%q) = %T %s; it is a valid witness v%d address with a %d-byte program", s, got, got.EncodeAddress(), ref.Version, len(ref.Payload))
			if _, isWPKH := got.(*address.AddressWitnessPubKeyHash); isWPKH && ref.Version == 1 && len(ref.Payload) == 20 {
				v.known = kfV1Len20
			}
			return v, fmt.Errorf("%s", v.obs)
		}
		return v, nil
	}
	switch {
	case rerr == nil && gerr != nil:
		v.class = "accept"
		v.obs = fmt.Sprintf("DecodeAddress(%q, %s) fails with %q; reference: valid %s address (version/hrp %#x/%q payload %x)", s, def.m.Name, gerr, ref.Kind, ref.Version, ref.HRP, ref.Payload)
		switch {
		case (ref.Kind == addrfmt.KindP2PKH || ref.Kind == addrfmt.KindP2SH) && beginsWithSegwitPrefix(s):
			v.known = kfB58Prefix
		case ref.Kind == addrfmt.KindSegwit && len(ref.HRP) == 1:
			v.known = kfOneCharHRP
		}
		return v, fmt.Errorf("%s", v.obs)
	case rerr != nil && gerr == nil:
		v.class = "reject"
		v.obs = fmt.Sprintf("DecodeAddress(%q, %s) = %T %s; reference rejects the string: %v", s, def.m.Name, got, got.EncodeAddress(), rerr)
		return v, fmt.Errorf("%s", v.obs)
	case rerr != nil:
		v.class = "reject"
		return v, nil
	}
	v.class, v.ref = "accept", ref
	if e := sameAddress(got, ref); e != nil {
		return v, fmt.Errorf("DecodeAddress(%q, %s): %v", s, def.m.Name, e)
	}
	if e := checkForNet(got, ref); e != nil {
		return v, fmt.Errorf("DecodeAddress(%q, %s): %v", s, def.m.Name, e)
	}
	// decode -> encode returns the input (lower-cased for bech32 forms); the
	// reference side of this is a self-check of the reference
	switch ref.Kind {
	case addrfmt.KindSegwit:
		if canonical(ref) != strings.ToLower(s) {
			panic(fmt.Sprintf("VERIF-INFRA: reference re-encodes %q as %q", s, canonical(ref)))
		}
	case addrfmt.KindP2PKH, addrfmt.KindP2SH:
		if canonical(ref) != s {
			panic(fmt.Sprintf("VERIF-INFRA: reference re-encodes %q as %q", s, canonical(ref)))
		}
	}
	return v, nil
}

// ---------------------------------------------------------------------------
// (1)+(2) encode -> decode -> same address; decode -> encode -> same string

var recRT = ev.New("C16", "address-round-trip",
	"address kind x network (6 real + 4 synthetic: non-colliding prefixes with a 30-char HRP, cross-colliding prefixes with a '1' inside the HRP, "+
		"P2PKH==P2SH byte, 1-char HRP) x payload (random / all-zero / all-ff / leading zeros / base58 text crafted to begin with a segwit prefix) x "+
		"pubkey format (compressed, uncompressed, hybrid); oracle = addrfmt reference encoder/decoder: constructor result, EncodeAddress, String, "+
		"ScriptAddress, IsForNet for all 10 networks, DecodeAddress on own and on a foreign default network, upper-case form; "+
		"non-trivial = witness version >= 1 or a network other than mainnet; distinct by reference string + network",
	"p2pkh", "p2sh", "p2sh-script", "p2wpkh", "p2wsh", "p2tr", "p2a", "pk-compressed", "pk-uncompressed", "pk-hybrid",
	"p2pkh/segwit-prefixed-text", "net:synthA", "net:synthB", "net:synthC", "net:synthD", "net:simnet", "foreign-default-net:accept", "foreign-default-net:reject")

func TestAddressRoundTrip(t *testing.T) {
	rapid.Check(t, func(t *rapid.T) {
		c := genAddr(t)
		other := genNet(t, "other-net")
		nt := c.net.m.Name != "mainnet" || (c.d.Kind == addrfmt.KindSegwit && c.d.Version >= 1)
		recRT.Case(nt, c.kind, ev.Hash([]byte(c.str), []byte(c.net.m.Name), c.d.Payload), func() any {
			return fmt.Sprintf("%s on %s: %s payload %x", c.kind, c.net.m.Name, c.str, c.d.Payload)
		})
		recRT.Count("net:"+c.net.m.Name, 1)

		a, err := c.build()
		if err != nil {
			t.Fatalf("%s on %s: constructor failed for payload %x: %v", c.kind, c.net.m.Name, c.d.Payload, err)
		}
		if e := sameAddress(a, c.d); e != nil {
			t.Fatalf("%s on %s payload %x: constructed address: %v", c.kind, c.net.m.Name, c.d.Payload, e)
		}
		if e := checkForNet(a, c.d); e != nil {
			t.Fatalf("%s on %s (%s): %v", c.kind, c.net.m.Name, c.str, e)
		}

		// decode the encoding on the address's own network
		ownCollision := c.net.m.P2PKH == c.net.m.P2SH && (c.d.Kind == addrfmt.KindP2PKH || c.d.Kind == addrfmt.KindP2SH || c.d.Kind == addrfmt.KindPubKey)
		v, err := compareDecode(c.str, c.net)
		switch {
		case err != nil && v.known != "":
			if recRT.Known(v.known, v.obs) {
				recRT.Excluded()
				return
			}
			t.Fatal(err)
		case err != nil:
			t.Fatal(err)
		case ownCollision:
			// P2PKH and P2SH share the byte: the string is ambiguous and
			// must be refused (documented ErrAddressCollision)
			if v.class != "reject" {
				t.Fatalf("%s decodes on %s although the version byte is ambiguous", c.str, c.net.m.Name)
			}
			recRT.Count("ambiguous-version-byte:rejected", 1)
		case v.class != "accept":
			t.Fatalf("VERIF-INFRA: reference does not accept its own encoding %q on %s", c.str, c.net.m.Name)
		default:
			// the decoded address is the constructed one
			want := c.d
			if c.d.Kind == addrfmt.KindPubKey { // EncodeAddress of a pubkey is the P2PKH of its hash
				want = addrfmt.Decoded{Kind: addrfmt.KindP2PKH, Payload: addrfmt.Hash160(normalisedPub(c.d.Point, c.d.PubFmt)), Version: c.d.Version}
			}
			if e := sameAddress(v.got, want); e != nil {
				t.Fatalf("encode->decode of %s on %s: %v", c.str, c.net.m.Name, e)
			}
			if c.d.Kind != addrfmt.KindPubKey && !reflect.DeepEqual(a, v.got) {
				t.Fatalf("encode->decode of %s on %s: %#v != %#v", c.str, c.net.m.Name, v.got, a)
			}
		}

		switch c.d.Kind {
		case addrfmt.KindPubKey:
			// the hex form decodes to the same key (hybrid keys are kept as
			// uncompressed ones, see normalisedPub)
			hx := hex.EncodeToString(c.d.Payload)
			if rapid.Bool().Draw(t, "hex-upper") {
				hx = strings.ToUpper(hx)
			}
			v, err := compareDecode(hx, c.net)
			if err != nil {
				t.Fatal(err)
			}
			if v.class != "accept" || v.ref.Kind != addrfmt.KindPubKey {
				t.Fatalf("VERIF-INFRA: reference does not accept pubkey hex %s", hx)
			}
			if c.d.PubFmt == 2 || c.d.PubFmt == 3 || c.d.PubFmt == 4 {
				if v.got.String() != strings.ToLower(hx) {
					t.Fatalf("DecodeAddress(%s).String() = %s", hx, v.got.String())
				}
			}
		case addrfmt.KindSegwit:
			// all-upper-case input is the same address; output is lower case
			up := strings.ToUpper(c.str)
			v, err := compareDecode(up, c.net)
			if err != nil {
				if v.known != "" && recRT.Known(v.known, v.obs) {
					return
				}
				t.Fatal(err)
			}
			if v.class != "accept" {
				t.Fatalf("VERIF-INFRA: reference rejects upper-case %s", up)
			}
			if got := v.got.EncodeAddress(); got != c.str {
				t.Fatalf("DecodeAddress(%s).EncodeAddress() = %s, want %s", up, got, c.str)
			}
		}

		// the same string with a foreign default network: accepted exactly when
		// the reference says that network reads the prefix (and as what)
		v, err = compareDecode(c.str, other)
		if err != nil {
			if v.known != "" && recRT.Known(v.known, v.obs) {
				return
			}
			t.Fatal(err)
		}
		recRT.Count("foreign-default-net:"+v.class, 1)
	})
}

// ---------------------------------------------------------------------------
// every witness version x every program length x both checksum constants

var recMatrix = ev.New("C16", "segwit-matrix",
	"enumeration: 10 networks x witness version value 0..17,31 x program length 0..42 x {bech32, bech32m} constant x {lower, upper} case, strings built by the "+
		"reference encoder without validity checks; plus every constructor with every program length 0..42; oracle = BIP350 reference decoder "+
		"(btcd accepts <=> reference accepts and btcd can represent it; same version, program, HRP); every cell is distinct; "+
		"non-trivial = all cells except (v0, bech32, 20/32 bytes, lower case)",
	"accept", "reject", "unsupported")

func matrixProgram(ver byte, n int, netIdx int) []byte {
	p := make([]byte, n)
	for i := range p {
		p[i] = byte(7*i + 31*int(ver) + 13*netIdx + n)
	}
	if n == 2 && ver == 1 {
		p[0], p[1] = 0x4e, 0x73
	}
	return p
}

func TestSegwitMatrix(t *testing.T) {
	cells := 0
	for ni, n := range nets {
		for _, ver := range []byte{0, 1, 2, 3, 4, 5, 6, 7, 8, 9, 10, 11, 12, 13, 14, 15, 16, 17, 31} {
			for plen := 0; plen <= 42; plen++ {
				for _, constant := range []uint32{addrfmt.Bech32Const, addrfmt.Bech32mConst} {
					for _, upper := range []bool{false, true} {
						progs := [][]byte{matrixProgram(ver, plen, ni)}
						if plen == 2 && ver == 1 {
							progs = append(progs, []byte{0x4e, 0x74}) // not the anchor program
						}
						for _, prog := range progs {
							s := addrfmt.SegwitEncodeUnchecked(n.m.HRP, ver, prog, constant)
							if upper {
								s = strings.ToUpper(s)
							}
							legal := addrfmt.SegwitProgramLegal(ver, plen) && constant == addrfmt.SegwitConst(ver) && len(s) <= 90
							v, err := compareDecode(s, n)
							cells++
							recMatrix.Case(!(ver == 0 && !upper && legal), v.class, ev.Hash([]byte(s)), func() any {
								return fmt.Sprintf("%s: v%d len %d const %#x -> %s", s, ver, plen, constant, v.class)
							})
							if err != nil {
								if v.known != "" && recMatrix.Known(v.known, v.obs) {
									recMatrix.Excluded()
									continue
								}
								t.Errorf("%v", err)
								continue
							}
							// three-way: the by-construction label must agree with the reference
							if legal != (v.class != "reject") {
								t.Fatalf("VERIF-INFRA: generator label legal=%v but reference verdict %s for %q", legal, v.class, s)
							}
							if v.class == "accept" && v.got.EncodeAddress() != strings.ToLower(s) {
								t.Errorf("decode->encode of %q gives %q", s, v.got.EncodeAddress())
							}
						}
					}
				}
			}
		}
		// constructors: only the documented lengths are accepted
		for plen := 0; plen <= 42; plen++ {
			b := matrixProgram(0, plen, ni)
			type ctor struct {
				name string
				want int
				f    func() (address.Address, error)
			}
			for _, c := range []ctor{
				{"NewAddressPubKeyHash", 20, func() (address.Address, error) { return address.NewAddressPubKeyHash(b, n.p) }},
				{"NewAddressScriptHashFromHash", 20, func() (address.Address, error) { return address.NewAddressScriptHashFromHash(b, n.p) }},
				{"NewAddressWitnessPubKeyHash", 20, func() (address.Address, error) { return address.NewAddressWitnessPubKeyHash(b, n.p) }},
				{"NewAddressWitnessScriptHash", 32, func() (address.Address, error) { return address.NewAddressWitnessScriptHash(b, n.p) }},
				{"NewAddressTaproot", 32, func() (address.Address, error) { return address.NewAddressTaproot(b, n.p) }},
			} {
				a, err := c.f()
				cells++
				if (err == nil) != (plen == c.want) {
					t.Errorf("%s(%d bytes) on %s: err=%v", c.name, plen, n.m.Name, err)
				}
				if err == nil && (a == nil || reflect.ValueOf(a).IsNil()) {
					t.Errorf("%s(%d bytes): nil address without error", c.name, plen)
				}
			}
		}
	}
	recMatrix.Count("constructor-length-cells", int64(len(nets)*43*5))
	recMatrix.Exhaustive()
	if cells < 30000 {
		t.Fatalf("VERIF-INFRA: matrix has only %d cells", cells)
	}
}

// ---------------------------------------------------------------------------
// (3) strings at edit distance 1..4 of valid addresses

var recEdit = ev.New("C16", "address-edits",
	"a valid address string (any kind / network, incl. hex pubkeys) changed by 1..4 edits: substitute / insert / delete / transpose a character "+
		"(from the bech32 charset, the base58 alphabet, hex digits, printable ASCII, any byte), flip the case of one letter, upper/lower-case the whole string, "+
		"replace the HRP by another network's, re-encode with the other checksum constant, set the witness-version character, toggle padding bits, "+
		"replace the base58 version byte, lengthen/shorten the base58 payload, recompute the checksum (bech32 with either constant, base58) so that the "+
		"rules behind the checksum are reached; default network = the original's (70%) or any; oracle = reference decoder: btcd accepts <=> reference "+
		"accepts, with the same kind, payload, HRP/version, IsForNet on all networks, and the decoded address re-encodes to the (lower-cased) input, "+
		"which differs from the original address unless the edit was a pure case change; non-trivial = >= 2 edits or a structure-aware edit; distinct by string + network",
	"accept", "reject", "unsupported", "op:sub", "op:ins", "op:del", "op:swap", "op:flip", "op:upper", "op:hrp-swap", "op:const-swap", "op:ver-set",
	"op:pad", "op:b58-version", "op:b58-len", "op:fix-bech32", "op:fix-base58", "accept:changed", "edits:1", "edits:2", "edits:3", "edits:4")

func genEditChar(t *rapid.T) byte {
	switch rapid.IntRange(0, 19).Draw(t, "char-src") {
	case 0, 1, 2, 3, 4, 5, 6, 7:
		return addrfmt.Bech32Charset[rapid.IntRange(0, 31).Draw(t, "c")]
	case 8, 9, 10, 11, 12, 13:
		return addrfmt.B58Alphabet[rapid.IntRange(0, 57).Draw(t, "c")]
	case 14, 15:
		return "0123456789abcdefABCDEF"[rapid.IntRange(0, 21).Draw(t, "c")]
	case 16, 17, 18:
		return byte(rapid.IntRange(33, 126).Draw(t, "c"))
	}
	return rapid.Byte().Draw(t, "c")
}

func isMixed(s string) bool {
	return strings.ToLower(s) != s && strings.ToUpper(s) != s
}

// bechParts splits a not-mixed-case string at the last '1' when the data part
// has at least 6 charset characters.
func bechParts(s string) (hrp string, vals []byte, upper bool, ok bool) {
	if isMixed(s) {
		return
	}
	upper = strings.ToUpper(s) == s && strings.ToLower(s) != s
	l := strings.ToLower(s)
	pos := strings.LastIndexByte(l, '1')
	if pos < 1 || len(l)-pos-1 < 6 {
		return
	}
	for i := pos + 1; i < len(l); i++ {
		d := strings.IndexByte(addrfmt.Bech32Charset, l[i])
		if d < 0 {
			return "", nil, false, false
		}
		vals = append(vals, byte(d))
	}
	for i := 0; i < pos; i++ {
		if l[i] < 33 || l[i] > 126 {
			return "", nil, false, false
		}
	}
	return l[:pos], vals[:len(vals)-6], upper, true
}

func reBech(hrp string, vals []byte, constant uint32, upper bool) string {
	s := addrfmt.Bech32EncodeRaw(hrp, vals, constant)
	if upper {
		s = strings.ToUpper(s)
	}
	return s
}

var versionPool = func() []byte {
	return []byte{0x00, 0x05, 0x6f, 0xc4, 0x3f, 0x7b, 0x80, 0xef, 0x64, 0x2a, 0x99, 0x30, 0x55, 0x7f, 0x01, 0xff}
}()

// applyEdit performs one edit; it returns the new string, the operation name
// and whether the operation is structure-aware.
func applyEdit(t *rapid.T, cur string) (string, string, bool) {
	op := rapid.SampledFrom([]string{"sub", "sub", "ins", "del", "swap", "flip", "upper", "hrp-swap", "const-swap", "ver-set", "pad",
		"b58-version", "b58-len", "fix", "fix", "fix"}).Draw(t, "op")
	switch op {
	case "hrp-swap":
		if pos := strings.LastIndexByte(cur, '1'); pos >= 1 {
			h := nets[rapid.IntRange(0, len(nets)).Draw(t, "to-net")%len(nets)].m.HRP
			if rapid.IntRange(0, 9).Draw(t, "unknown-hrp") == 0 {
				h = rapid.SampledFrom([]string{"tc", "ltc", "bc2", "b", "bcr", "t", "lnbc"}).Draw(t, "hrp")
			}
			if strings.ToUpper(cur) == cur && strings.ToLower(cur) != cur {
				h = strings.ToUpper(h)
			}
			if h+cur[pos:] != cur {
				return h + cur[pos:], "hrp-swap", true
			}
		}
	case "const-swap":
		if hrp, vals, up, ok := bechParts(cur); ok {
			if _, _, c, err := addrfmt.Bech32Decode(cur, false); err == nil {
				return reBech(hrp, vals, c^addrfmt.Bech32Const^addrfmt.Bech32mConst, up), "const-swap", true
			}
		}
	case "ver-set":
		if pos := strings.LastIndexByte(cur, '1'); pos >= 1 && pos+1 < len(cur) {
			v := rapid.OneOf(rapid.IntRange(0, 17), rapid.IntRange(0, 31)).Draw(t, "ver")
			ch := addrfmt.Bech32Charset[v]
			if strings.ToUpper(cur) == cur && strings.ToLower(cur) != cur {
				ch = strings.ToUpper(string(ch))[0]
			}
			if cur[pos+1] != ch {
				return cur[:pos+1] + string(ch) + cur[pos+2:], "ver-set", true
			}
		}
	case "pad":
		if hrp, vals, up, ok := bechParts(cur); ok && len(vals) >= 2 {
			v2 := append([]byte{}, vals...)
			v2[len(v2)-1] ^= byte(1 << uint(rapid.IntRange(0, 4).Draw(t, "bit")))
			c := addrfmt.Bech32mConst
			if v2[0] == 0 {
				c = addrfmt.Bech32Const
			}
			return reBech(hrp, v2, c, up), "pad", true
		}
	case "b58-version", "b58-len":
		if b, ok := addrfmt.Base58Decode(cur); ok && len(b) >= 6 && strings.IndexByte(cur, '0') < 0 {
			body := append([]byte{}, b[:len(b)-4]...)
			if op == "b58-version" {
				nv := rapid.OneOf(rapid.SampledFrom(versionPool), rapid.Byte()).Draw(t, "version")
				if nv != body[0] {
					body[0] = nv
					return addrfmt.Base58CheckEncodeRaw(body), op, true
				}
			} else {
				if rapid.Bool().Draw(t, "grow") {
					body = append(body, rapid.Byte().Draw(t, "extra"))
				} else {
					body = body[:len(body)-1]
				}
				return addrfmt.Base58CheckEncodeRaw(body), op, true
			}
		}
	case "fix":
		if hrp, vals, up, ok := bechParts(cur); ok {
			c := addrfmt.Bech32mConst
			if len(vals) > 0 && vals[0] == 0 {
				c = addrfmt.Bech32Const
			}
			if rapid.IntRange(0, 3).Draw(t, "wrong-const") == 0 {
				c ^= addrfmt.Bech32Const ^ addrfmt.Bech32mConst
			}
			if n := reBech(hrp, vals, c, up); n != cur {
				return n, "fix-bech32", true
			}
		}
		if b, ok := addrfmt.Base58Decode(cur); ok && len(b) >= 5 {
			if n := addrfmt.Base58CheckEncodeRaw(b[:len(b)-4]); n != cur {
				return n, "fix-base58", true
			}
		}
	case "upper":
		if n := strings.ToUpper(cur); n != cur {
			return n, "upper", true
		}
		if n := strings.ToLower(cur); n != cur {
			return n, "upper", true
		}
	case "flip":
		var letters []int
		for i := 0; i < len(cur); i++ {
			if c := cur[i] | 0x20; c >= 'a' && c <= 'z' {
				letters = append(letters, i)
			}
		}
		if len(letters) > 0 {
			i := letters[rapid.IntRange(0, len(letters)-1).Draw(t, "pos")]
			return cur[:i] + string(cur[i]^0x20) + cur[i+1:], "flip", false
		}
	case "swap":
		if len(cur) >= 2 {
			i := rapid.IntRange(0, len(cur)-2).Draw(t, "pos")
			if cur[i] != cur[i+1] {
				return cur[:i] + string(cur[i+1]) + string(cur[i]) + cur[i+2:], "swap", false
			}
		}
	case "ins":
		i := rapid.IntRange(0, len(cur)).Draw(t, "pos")
		return cur[:i] + string(genEditChar(t)) + cur[i:], "ins", false
	case "del":
		if len(cur) > 0 {
			i := rapid.IntRange(0, len(cur)-1).Draw(t, "pos")
			return cur[:i] + cur[i+1:], "del", false
		}
	}
	// substitution (also the fallback of inapplicable operations)
	if len(cur) == 0 {
		return string(genEditChar(t)), "ins", false
	}
	i := rapid.IntRange(0, len(cur)-1).Draw(t, "pos")
	ch := genEditChar(t)
	if ch == cur[i] {
		ch = addrfmt.Bech32Charset[(strings.IndexByte(addrfmt.Bech32Charset, ch|0x20)+1+32)%32]
		if ch == cur[i] {
			ch = '2'
		}
	}
	return cur[:i] + string(ch) + cur[i+1:], "sub", false
}

func TestAddressEdits(t *testing.T) {
	rapid.Check(t, func(t *rapid.T) {
		c := genAddr(t)
		orig := c.str
		if c.d.Kind == addrfmt.KindPubKey {
			orig = hex.EncodeToString(c.d.Payload)
		}
		nEdits := rapid.SampledFrom([]int{1, 1, 1, 2, 2, 2, 3, 3, 4, 4}).Draw(t, "edits")
		cur := orig
		smart := false
		var ops []string
		for i := 0; i < nEdits; i++ {
			var op string
			var sm bool
			cur, op, sm = applyEdit(t, cur)
			smart = smart || sm
			ops = append(ops, op)
		}
		def := c.net
		if rapid.IntRange(0, 9).Draw(t, "foreign-default") < 3 {
			def = genNet(t, "default-net")
		}
		if cur == orig {
			return // edits cancelled out (e.g. swap twice): the round-trip check owns this case
		}
		v, err := compareDecode(cur, def)
		recEdit.Case(nEdits >= 2 || smart, v.class, ev.Hash([]byte(cur), []byte(def.m.Name)), func() any {
			return fmt.Sprintf("%s (%s on %s) --%v--> %q on %s: %s", orig, c.kind, c.net.m.Name, ops, cur, def.m.Name, v.class)
		})
		for _, op := range ops {
			recEdit.Count("op:"+op, 1)
		}
		recEdit.Count(fmt.Sprintf("edits:%d", nEdits), 1)
		if err != nil {
			if v.known != "" && recEdit.Known(v.known, v.obs) {
				recEdit.Excluded()
				return
			}
			t.Fatalf("original %s (%s on %s), edits %v: %v", orig, c.kind, c.net.m.Name, ops, err)
		}
		if v.class != "accept" {
			return
		}
		// an accepted edited string is a different address with its own round trip
		pureCase := strings.EqualFold(cur, orig) && !isMixed(cur)
		enc := v.got.EncodeAddress()
		if v.ref.Kind == addrfmt.KindPubKey {
			enc = v.got.String()
		}
		if !pureCase {
			recEdit.Count("accept:changed", 1)
			cmp := orig
			if c.d.Kind == addrfmt.KindPubKey {
				cmp = hex.EncodeToString(normalisedPub(c.d.Point, c.d.PubFmt))
			}
			if enc == cmp && !(v.ref.Kind == addrfmt.KindPubKey && secp.Equal(v.ref.Point, c.d.Point)) {
				t.Fatalf("edited string %q (edits %v of %s) decodes to the original address %s", cur, ops, orig, enc)
			}
		}
		v2, err := compareDecode(enc, def)
		if err != nil || v2.class != "accept" {
			t.Fatalf("address decoded from %q re-encodes to %q which does not decode: %v", cur, enc, err)
		}
		if e := sameAddress(v2.got, v.ref); e != nil {
			t.Fatalf("round trip of the address decoded from %q: %v", cur, e)
		}
	})
}
