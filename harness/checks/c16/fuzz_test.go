package c16

import (
	"testing"

	"github.com/btcsuite/btcd/btcutil/v2"
	"github.com/btcsuite/btcd/btcutil/v2/hdkeychain"

	"verif/internal/ev"
	"verif/internal/model/addrfmt"
)

// FuzzDecodeAddress (thorough tier, native fuzzing, not pinned by the seed):
// arbitrary bytes as an address / WIF / extended-key string. btcd must not
// panic and must accept exactly what the reference accepts, with the same
// meaning.
func FuzzDecodeAddress(f *testing.F) {
	seeds := []string{
		"", "1", "bc1", "BC1QW508D6QEJXTDG4Y5R3ZARVARY0C5XW7KV8F3T4", "bc1pfeessrawgf", "tb1pfees9rn5nz", "bcrt1pfeesnyr2tx",
		"bc1p0xlxvlhemja6c4dqv22uapctqupfhlxm9h8z3k2e72q4k9hcz7vqzk5jj0", "bc1zw508d6qejxtdg4y5r3zarvaryvaxxpcs", "BC1SW50QGDZ25J",
		"bc1pqypqxpq9qcrsszg2pvxq6rs0zqg3yyc5h64j2c", "x1qqypqxpq9qcrsszg2pvxq6rs0zqg3yyc5dp45rh", "Sb1ABCDEFGHJKLMNPQRSTUVWXYZaepKBKv",
		"16UwLL9Risc3QfPqBUvKofHmBQ7wMtjvM", "3J98t1WpEZ73CNmQviecrnyiWrnqRhWNLy", "mipcBbFg9gMiCh81Kj8tqqdgoZub1ZJRfn", "2NBFNJTktNa7GZusGbDbGKRZTxdK9VVez3n",
		"0279be667ef9dcbbac55a06295ce870b07029bfcdb2dce28d959f2815b16f81798",
		"0479be667ef9dcbbac55a06295ce870b07029bfcdb2dce28d959f2815b16f81798483ada7726a3c4655da4fbfc0e1108a8fd17b448a68554199c47d08ffb10d4b8",
		"5HueCGU8rMjxEXxiPuD5BDku4MkFqeZyd4dZ1jvhTVqvbTLvyTJ", "KwdMAjGmerYanjeui5SHS7JkmpZvVipYvB2LJGU1ZxJwYvP98617",
		"xprv9s21ZrQH143K3QTDL4LXw2F7HEK3wJUD2nW2nRk4stbPy6cq3jPPqjiChkVvvNKmPGJxWUtg6LnF5kejMRNNU3TGtRBeJgk33yuGBxrMPHi",
		"xpub661MyMwAqRbcFtXgS5sYJABqqG9YLmC4Q1Rdap9gSE8NqtwybGhePY2gZ29ESFjqJoCu1Rupje8YtGqsefD265TMg7usUDFdp6W1EGMcet8",
		"\xff\xfe1qqqqqq", "b1c1qqqqqqqqqqqqqqqqqqqqqqqqqqqqqqqqqqqqqqqq",
	}
	for i, s := range seeds {
		f.Add(s, byte(i))
	}
	f.Fuzz(func(t *testing.T, s string, netIdx byte) {
		if len(s) > 300 {
			return
		}
		def := nets[int(netIdx)%len(nets)]
		v, err := compareDecode(s, def)
		if err != nil && !(v.known != "" && ev.IsKnown("C16", v.known)) {
			t.Fatal(err)
		}
		// WIF
		_, _, _, merr := addrfmt.WIFDecode(s)
		w, err := btcutil.DecodeWIF(s)
		if (err == nil) != (merr == nil) {
			t.Fatalf("DecodeWIF(%q) err=%v, reference err=%v", s, err, merr)
		}
		if err == nil && w.String() != s {
			t.Fatalf("DecodeWIF(%q).String() = %q", s, w.String())
		}
		// extended keys
		_, merr = addrfmt.ParseXKey(s)
		k, err := hdkeychain.NewKeyFromString(s)
		if (err == nil) != (merr == nil) {
			t.Fatalf("NewKeyFromString(%q) err=%v, reference err=%v", s, err, merr)
		}
		if err == nil && k.String() != s {
			t.Fatalf("NewKeyFromString(%q).String() = %q", s, k.String())
		}
	})
}
