package c16

import (
	"bytes"
	"crypto/sha256"
	"fmt"
	"testing"

	"github.com/btcsuite/btcd/address/v2"
	"github.com/btcsuite/btcd/txscript/v2"
	"github.com/btcsuite/btcd/wire/v2"
	"pgregory.net/rapid"

	"verif/internal/ev"
	"verif/internal/model/addrfmt"
)

// templateOf writes out the standard output script of a reference address and
// names its class.
func templateOf(d addrfmt.Decoded) ([]byte, txscript.ScriptClass, int) {
	switch d.Kind {
	case addrfmt.KindP2PKH:
		return addrfmt.ScriptP2PKH(d.Payload), txscript.PubKeyHashTy, 1
	case addrfmt.KindP2SH:
		return addrfmt.ScriptP2SH(d.Payload), txscript.ScriptHashTy, 1
	case addrfmt.KindPubKey:
		return addrfmt.ScriptP2PK(normalisedPub(d.Point, d.PubFmt)), txscript.PubKeyTy, 1
	case addrfmt.KindSegwit:
		s := addrfmt.ScriptWitness(d.Version, d.Payload)
		switch {
		case d.Version == 0 && len(d.Payload) == 20:
			return s, txscript.WitnessV0PubKeyHashTy, 1
		case d.Version == 0:
			return s, txscript.WitnessV0ScriptHashTy, 1
		case len(d.Payload) == 2:
			return s, txscript.PayToAnchorTy, 0
		}
		return s, txscript.WitnessV1TaprootTy, 1
	}
	return nil, txscript.NonStandardTy, 0
}

var recScript = ev.New("C16", "script-templates",
	"an address of every kind / network / pubkey format -> PayToAddrScript must equal the standard template written out by the reference; "+
		"GetScriptClass, ExtractPkScriptAddrs (class, exactly that one address, required sigs), ParsePkScript (class, bytes, Address) map it back; "+
		"a sibling address sharing the payload under another kind / network gives another script exactly when the reference templates differ; "+
		"a 1-byte mutation / truncation / extension of the template that btcd still resolves to an address must be the script of that address; "+
		"non-trivial = segwit or non-mainnet; distinct by script + network",
	"p2pkh", "p2sh", "p2wpkh", "p2wsh", "p2tr", "p2a", "pk-compressed", "pk-uncompressed", "pk-hybrid", "mutant:resolved", "mutant:nonstandard")

func classKey(kind string) string {
	if i := bytes.IndexByte([]byte(kind), '/'); i >= 0 {
		kind = kind[:i]
	}
	if kind == "p2sh-script" {
		return "p2sh"
	}
	return kind
}

func TestScriptTemplates(t *testing.T) {
	rapid.Check(t, func(t *rapid.T) {
		c := genAddr(t)
		want, class, nsigs := templateOf(c.d)
		nt := c.d.Kind == addrfmt.KindSegwit || c.net.m.Name != "mainnet"
		recScript.Case(nt, classKey(c.kind), ev.Hash(want, []byte(c.net.m.Name)), func() any {
			return fmt.Sprintf("%s on %s: %s -> %x (%s)", c.kind, c.net.m.Name, c.str, want, class)
		})
		a, err := c.build()
		if err != nil {
			t.Fatalf("constructor: %v", err)
		}
		script, err := txscript.PayToAddrScript(a)
		if err != nil {
			t.Fatalf("PayToAddrScript(%s): %v", c.str, err)
		}
		if !bytes.Equal(script, want) {
			t.Fatalf("PayToAddrScript(%s %s) = %x, standard template %x", c.kind, c.str, script, want)
		}
		again, _ := txscript.PayToAddrScript(a)
		if !bytes.Equal(again, script) {
			t.Fatalf("PayToAddrScript(%s) is not a function of the address: %x then %x", c.str, script, again)
		}
		if got := txscript.GetScriptClass(script); got != class {
			t.Fatalf("GetScriptClass(%x) = %s, want %s", script, got, class)
		}
		gotClass, addrs, req, err := txscript.ExtractPkScriptAddrs(script, c.net.p)
		if err != nil || gotClass != class || req != nsigs || len(addrs) != 1 {
			t.Fatalf("ExtractPkScriptAddrs(%x, %s) = (%s, %d addrs, %d sigs, %v), want (%s, 1 addr, %d sigs)", script, c.net.m.Name, gotClass, len(addrs), req, err, class, nsigs)
		}
		back := c.d
		if c.d.Kind == addrfmt.KindPubKey { // the script carries the normalised encoding
			raw := normalisedPub(c.d.Point, c.d.PubFmt)
			back.Payload, back.PubFmt = raw, raw[0]
		}
		if e := sameAddress(addrs[0], back); e != nil {
			t.Fatalf("ExtractPkScriptAddrs(PayToAddrScript(%s)) on %s: %v", c.str, c.net.m.Name, e)
		}
		if e := checkForNet(addrs[0], back); e != nil {
			t.Fatalf("ExtractPkScriptAddrs(PayToAddrScript(%s)) on %s: %v", c.str, c.net.m.Name, e)
		}
		// ParsePkScript supports every class above except bare pubkeys
		pk, err := txscript.ParsePkScript(script)
		if class == txscript.PubKeyTy {
			if err == nil && (pk.Class() != class || !bytes.Equal(pk.Script(), script)) {
				t.Fatalf("ParsePkScript(%x) = (%s, %x)", script, pk.Class(), pk.Script())
			}
		} else {
			if err != nil || pk.Class() != class || !bytes.Equal(pk.Script(), script) {
				t.Fatalf("ParsePkScript(%x) = (%s, %x, %v), want (%s, same bytes)", script, pk.Class(), pk.Script(), err, class)
			}
			pa, err := pk.Address(c.net.p)
			if err != nil {
				t.Fatalf("ParsePkScript(%x).Address(%s): %v", script, c.net.m.Name, err)
			}
			if e := sameAddress(pa, back); e != nil {
				t.Fatalf("ParsePkScript(%x).Address(%s): %v", script, c.net.m.Name, e)
			}
		}

		// injectivity: a sibling address gives the same script iff the
		// reference templates are equal (the script does not depend on the network)
		sib := genAddrKind(t, genNet(t, "sibling-net"), rapid.SampledFrom(addrKinds).Draw(t, "sibling-kind"))
		if rapid.Bool().Draw(t, "share-payload") && len(sib.d.Payload) == len(c.d.Payload) && sib.d.Kind != addrfmt.KindPubKey && c.d.Kind != addrfmt.KindPubKey && len(c.d.Payload) != 2 {
			p := append([]byte{}, c.d.Payload...)
			sib = sibWithPayload(sib, p)
		}
		sa, err := sib.build()
		if err != nil {
			t.Fatalf("sibling constructor: %v", err)
		}
		sscript, err := txscript.PayToAddrScript(sa)
		if err != nil {
			t.Fatalf("PayToAddrScript(sibling %s): %v", sib.str, err)
		}
		swant, _, _ := templateOf(sib.d)
		if bytes.Equal(sscript, script) != bytes.Equal(swant, want) {
			t.Fatalf("addresses %s (%s) and %s (%s): scripts %x / %x, reference templates %x / %x", c.str, c.kind, sib.str, sib.kind, script, sscript, want, swant)
		}

		// scripts next to the template: whatever btcd resolves to an address
		// must be exactly that address's script
		mut := append([]byte{}, script...)
		switch rapid.IntRange(0, 3).Draw(t, "mutation") {
		case 0:
			i := rapid.IntRange(0, len(mut)-1).Draw(t, "mut-pos")
			mut[i] ^= byte(1 << uint(rapid.IntRange(0, 7).Draw(t, "mut-bit")))
		case 1:
			i := rapid.IntRange(0, len(mut)-1).Draw(t, "mut-pos")
			mut[i] = rapid.Byte().Draw(t, "mut-byte")
		case 2:
			mut = mut[:len(mut)-1]
		case 3:
			mut = append(mut, rapid.Byte().Draw(t, "mut-extra"))
		}
		if bytes.Equal(mut, script) {
			return
		}
		mclass, maddrs, _, err := txscript.ExtractPkScriptAddrs(mut, c.net.p)
		if err != nil {
			t.Fatalf("ExtractPkScriptAddrs(%x): %v", mut, err)
		}
		single := mclass == txscript.PubKeyHashTy || mclass == txscript.ScriptHashTy || mclass == txscript.PubKeyTy ||
			mclass == txscript.WitnessV0PubKeyHashTy || mclass == txscript.WitnessV0ScriptHashTy || mclass == txscript.WitnessV1TaprootTy || mclass == txscript.PayToAnchorTy
		if !single || len(maddrs) == 0 {
			recScript.Count("mutant:nonstandard", 1)
			return
		}
		recScript.Count("mutant:resolved", 1)
		if len(maddrs) != 1 {
			t.Fatalf("ExtractPkScriptAddrs(%x) returns %d addresses for class %s", mut, len(maddrs), mclass)
		}
		if got := txscript.GetScriptClass(mut); got != mclass {
			t.Fatalf("GetScriptClass(%x) = %s but ExtractPkScriptAddrs says %s", mut, got, mclass)
		}
		if mclass == txscript.PubKeyTy && (mut[1] == 6 || mut[1] == 7) {
			return // hybrid key: the address keeps the point, not the encoding
		}
		ms, err := txscript.PayToAddrScript(maddrs[0])
		if err != nil || !bytes.Equal(ms, mut) {
			t.Fatalf("script %x resolves to %s (%s) whose script is %x (%v)", mut, maddrs[0].EncodeAddress(), mclass, ms, err)
		}
	})
}

// sibWithPayload rebuilds a generated address of the same kind / network with
// another payload of the right length.
func sibWithPayload(s addrCase, p []byte) addrCase {
	net := s.net
	s.d.Payload = p
	switch {
	case s.d.Kind == addrfmt.KindP2PKH:
		s.build = func() (address.Address, error) { return address.NewAddressPubKeyHash(p, net.p) }
	case s.d.Kind == addrfmt.KindP2SH:
		s.build = func() (address.Address, error) { return address.NewAddressScriptHashFromHash(p, net.p) }
	case s.d.Version == 0 && len(p) == 20:
		s.build = func() (address.Address, error) { return address.NewAddressWitnessPubKeyHash(p, net.p) }
	case s.d.Version == 0:
		s.build = func() (address.Address, error) { return address.NewAddressWitnessScriptHash(p, net.p) }
	default:
		s.build = func() (address.Address, error) { return address.NewAddressTaproot(p, net.p) }
	}
	s.str = canonical(s.d)
	return s
}

// ---------------------------------------------------------------------------
// ComputePkScript

var recCompute = ev.New("C16", "compute-pkscript",
	"well-formed spends: P2PKH (DER-sized signature push + compressed key), P2SH (0..3 data pushes + redeem script push, direct/PUSHDATA1/PUSHDATA2), "+
		"P2SH-P2WPKH and P2SH-P2WSH (redeem script = witness program, witness present), P2WPKH (sig, compressed key), P2WSH (0..4 items + witness script); "+
		"oracle = reference template over HASH160 / SHA256 of the revealed key or script; excluded as inherently ambiguous without the previous output: "+
		"a two-push scriptSig / two-item witness whose last item is 33 bytes (P2PKH vs P2SH, P2WPKH vs P2WSH), uncompressed-key P2PKH (documented unsupported); "+
		"non-trivial = every case; distinct by spend bytes",
	"p2pkh", "p2sh", "p2sh-p2wpkh", "p2sh-p2wsh", "p2wpkh", "p2wsh", "p2sh:tail-looks-like-key")

func genSigBlob(t *rapid.T) []byte {
	// DER signature sizes are 8..72 bytes, plus the hash type byte
	n := rapid.OneOf(rapid.IntRange(70, 72), rapid.IntRange(8, 72), rapid.SampledFrom([]int{8, 9, 69, 70, 71, 72})).Draw(t, "siglen")
	b := rapid.SliceOfN(rapid.Byte(), n+1, n+1).Draw(t, "sig")
	b[0] = 0x30
	return b
}

func genCompressedKey(t *rapid.T) []byte {
	return serializePub(addrfmt.BaseMul(genScalar(t, "spend-key")), 0)
}

func TestComputePkScript(t *testing.T) {
	rapid.Check(t, func(t *rapid.T) {
		kind := rapid.SampledFrom([]string{"p2pkh", "p2sh", "p2sh", "p2sh-p2wpkh", "p2sh-p2wsh", "p2wpkh", "p2wsh", "p2wsh"}).Draw(t, "spend")
		var sigScript []byte
		var witness wire.TxWitness
		var want []byte
		var wantClass txscript.ScriptClass
		tailLooksLikeKey := false
		switch kind {
		case "p2pkh":
			key := genCompressedKey(t)
			sigScript = append(addrfmt.PushData(genSigBlob(t)), addrfmt.PushData(key)...)
			want, wantClass = addrfmt.ScriptP2PKH(addrfmt.Hash160(key)), txscript.PubKeyHashTy
		case "p2sh":
			var redeem []byte
			switch rapid.IntRange(0, 6).Draw(t, "redeem-kind") {
			case 3: // the byte 33 from the end is 0x02 / 0x03 (e.g. a small push opcode)
				n := rapid.IntRange(33, 60).Draw(t, "redeem-len")
				redeem = rapid.SliceOfN(rapid.Byte(), n, n).Draw(t, "redeem")
				redeem[n-33] = byte(2 + rapid.IntRange(0, 1).Draw(t, "tail-byte"))
			case 0: // <key> CHECKSIG
				redeem = addrfmt.ScriptP2PK(genCompressedKey(t))
			case 1: // 1-of-1 multisig
				redeem = append([]byte{0x51}, addrfmt.PushData(genCompressedKey(t))...)
				redeem = append(redeem, 0x51, 0xae)
			case 2: // sizes around the push-opcode boundaries
				n := rapid.SampledFrom([]int{1, 2, 32, 33, 34, 35, 74, 75, 76, 77, 254, 255, 256, 257, 519, 520}).Draw(t, "redeem-len")
				redeem = rapid.SliceOfN(rapid.Byte(), n, n).Draw(t, "redeem")
			default:
				redeem = rapid.SliceOfN(rapid.Byte(), 1, 120).Draw(t, "redeem")
			}
			nPush := rapid.IntRange(0, 3).Draw(t, "pushes")
			for i := 0; i < nPush; i++ {
				if rapid.Bool().Draw(t, "push-is-sig") {
					sigScript = append(sigScript, addrfmt.PushData(genSigBlob(t))...)
				} else {
					sigScript = append(sigScript, addrfmt.PushData(rapid.SliceOfN(rapid.Byte(), 0, 40).Draw(t, "push"))...)
				}
			}
			sigScript = append(sigScript, addrfmt.PushData(redeem)...)
			want, wantClass = addrfmt.ScriptP2SH(addrfmt.Hash160(redeem)), txscript.ScriptHashTy
			if nPush == 1 && len(redeem) == 33 {
				// [x, 33 bytes]: the same bytes are a well-formed P2PKH spend when
				// the 33 bytes start with 02/03 - undecidable from the spend alone
				recCompute.Excluded()
				return
			}
			tail := sigScript
			if len(tail) > 33 {
				tail = tail[len(tail)-33:]
			}
			tailLooksLikeKey = len(sigScript) >= 44 && len(sigScript) <= 108 && (tail[0] == 2 || tail[0] == 3)
		case "p2sh-p2wpkh":
			key := genCompressedKey(t)
			redeem := addrfmt.ScriptWitness(0, addrfmt.Hash160(key))
			sigScript = addrfmt.PushData(redeem)
			witness = wire.TxWitness{genSigBlob(t), key}
			want, wantClass = addrfmt.ScriptP2SH(addrfmt.Hash160(redeem)), txscript.ScriptHashTy
		case "p2sh-p2wsh":
			ws := rapid.SliceOfN(rapid.Byte(), 1, 100).Draw(t, "witness-script")
			h := sha256.Sum256(ws)
			redeem := addrfmt.ScriptWitness(0, h[:])
			sigScript = addrfmt.PushData(redeem)
			witness = wire.TxWitness{genSigBlob(t), ws}
			want, wantClass = addrfmt.ScriptP2SH(addrfmt.Hash160(redeem)), txscript.ScriptHashTy
		case "p2wpkh":
			key := genCompressedKey(t)
			witness = wire.TxWitness{genSigBlob(t), key}
			want, wantClass = addrfmt.ScriptWitness(0, addrfmt.Hash160(key)), txscript.WitnessV0PubKeyHashTy
		case "p2wsh":
			n := rapid.OneOf(rapid.IntRange(1, 120), rapid.SampledFrom([]int{1, 32, 33, 34, 35, 520, 3600})).Draw(t, "ws-len")
			ws := rapid.SliceOfN(rapid.Byte(), n, n).Draw(t, "witness-script")
			items := rapid.IntRange(0, 4).Draw(t, "items")
			for i := 0; i < items; i++ {
				if rapid.Bool().Draw(t, "item-is-sig") {
					witness = append(witness, genSigBlob(t))
				} else {
					witness = append(witness, rapid.SliceOfN(rapid.Byte(), 0, 40).Draw(t, "item"))
				}
			}
			witness = append(witness, ws)
			if len(witness) == 2 && len(ws) == 33 {
				recCompute.Excluded() // same shape as a P2WPKH witness
				return
			}
			h := sha256.Sum256(ws)
			want, wantClass = addrfmt.ScriptWitness(0, h[:]), txscript.WitnessV0ScriptHashTy
		}
		cl := kind
		if tailLooksLikeKey {
			cl = "p2sh:tail-looks-like-key"
		}
		var wbytes []byte
		for _, w := range witness {
			wbytes = append(wbytes, addrfmt.CompactSize(uint64(len(w)))...)
			wbytes = append(wbytes, w...)
		}
		recCompute.Case(true, cl, ev.Hash(sigScript, wbytes), func() any {
			return fmt.Sprintf("%s spend: sigScript %x witness %x -> %x", kind, sigScript, witness, want)
		})
		pk, err := txscript.ComputePkScript(sigScript, witness)
		if err == nil && pk.Class() == wantClass && bytes.Equal(pk.Script(), want) {
			// the result must also round-trip through ParsePkScript
			p2, err := txscript.ParsePkScript(pk.Script())
			if err != nil || p2 != pk {
				t.Fatalf("ParsePkScript(ComputePkScript(...).Script()) = %v %v, want %v", p2, err, pk)
			}
			return
		}
		obs := fmt.Sprintf("ComputePkScript(sigScript=%x, witness=%x) = (%s, %x, %v); the %s spend reveals the output script %x", sigScript, witness, pk.Class(), pk.Script(), err, kind, want)
		if tailLooksLikeKey && err == nil && pk.Class() == txscript.PubKeyHashTy {
			// ComputePkScript is a heuristic that is not named by the property
			// (only address <-> script mappings are): a P2SH scriptSig whose
			// last 33 bytes look like a compressed key is inherently ambiguous
			// for it. Counted and excluded from the domain, not asserted.
			recCompute.Count("excluded:p2sh-tail-looks-like-key", 1)
			recCompute.Excluded()
			return
		}
		t.Fatal(obs)
	})
}
