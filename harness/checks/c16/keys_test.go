package c16

import (
	"bytes"
	"encoding/binary"
	"errors"
	"fmt"
	"math/big"
	"testing"

	"github.com/btcsuite/btcd/btcec/v2"
	"github.com/btcsuite/btcd/btcutil/v2"
	"github.com/btcsuite/btcd/btcutil/v2/hdkeychain"
	"pgregory.net/rapid"

	"verif/internal/ev"
	"verif/internal/model/addrfmt"
	"verif/internal/model/secp"
)

// ---------------------------------------------------------------------------
// (5) WIF

var recWIF = ev.New("C16", "wif",
	"secret key in [1, n-1] (small, near n, leading zero bytes, random) x network x compressed flag: NewWIF/String equals the reference Base58Check bytes, "+
		"DecodeWIF returns key, flag, IsForNet on all 10 networks by private-key prefix, SerializePubKey equals the reference point encoding; then 0..3 edits of "+
		"the string (character edits, version byte, payload length, compression marker, key := 0 / n / n+1, checksum recomputed): DecodeWIF accepts <=> the "+
		"reference accepts, same fields, String() returns the input; non-trivial = non-mainnet, compressed, or edited; distinct by string",
	"plain", "edited:accept", "edited:reject", "compressed", "uncompressed")

// wifEdit applies a WIF-specific structural edit (ok=false: not applicable).
func wifEdit(t *rapid.T, cur string) (string, bool) {
	b, ok := addrfmt.Base58Decode(cur)
	if !ok || len(b) < 37 {
		return "", false
	}
	body := append([]byte{}, b[:len(b)-4]...)
	switch rapid.IntRange(0, 4).Draw(t, "wif-edit") {
	case 0: // compression marker
		if len(body) == 34 {
			body[33] = rapid.SampledFrom([]byte{0x00, 0x02, 0x81, 0xff}).Draw(t, "marker")
		} else {
			body = append(body, rapid.SampledFrom([]byte{0x01, 0x01, 0x00, 0x02}).Draw(t, "marker"))
		}
	case 1: // key out of range
		k := rapid.SampledFrom([]*big.Int{big.NewInt(0), secp.N, new(big.Int).Add(secp.N, big.NewInt(1)),
			new(big.Int).Sub(new(big.Int).Lsh(big.NewInt(1), 256), big.NewInt(1)), new(big.Int).Sub(secp.N, big.NewInt(1)), big.NewInt(1)}).Draw(t, "key")
		copy(body[1:33], secp.Bytes32(k))
	case 2: // version byte
		body[0] = rapid.OneOf(rapid.SampledFrom(versionPool), rapid.Byte()).Draw(t, "version")
	case 3: // drop the marker
		if len(body) == 34 {
			body = body[:33]
		} else {
			body = body[:32]
		}
	case 4: // one more byte after the marker
		body = append(body, 0x01)
	}
	return addrfmt.Base58CheckEncodeRaw(body), true
}

func TestWIF(t *testing.T) {
	rapid.Check(t, func(t *rapid.T) {
		key := genScalar(t, "key")
		net := genNet(t, "net")
		compress := rapid.Bool().Draw(t, "compress")
		key32 := secp.Bytes32(key)
		want := addrfmt.WIFEncode(net.m.WIF, key32, compress)

		nEdits := rapid.SampledFrom([]int{0, 0, 1, 1, 2, 3}).Draw(t, "edits")
		cur := want
		var ops []string
		for i := 0; i < nEdits; i++ {
			if rapid.Bool().Draw(t, "structural") {
				if n, ok := wifEdit(t, cur); ok {
					cur = n
					ops = append(ops, "wif")
					continue
				}
			}
			var op string
			cur, op, _ = applyEdit(t, cur)
			ops = append(ops, op)
		}
		mNet, mKey, mComp, merr := addrfmt.WIFDecode(cur)
		cl := "plain"
		if cur != want {
			cl = "edited:reject"
			if merr == nil {
				cl = "edited:accept"
			}
		}
		recWIF.Case(net.m.Name != "mainnet" || compress || cur != want, cl, ev.HashS(cur), func() any {
			return fmt.Sprintf("key %x on %s compressed=%v -> %s --%v--> %q (%s)", key32, net.m.Name, compress, want, ops, cur, cl)
		})
		if compress {
			recWIF.Count("compressed", 1)
		} else {
			recWIF.Count("uncompressed", 1)
		}

		priv, _ := btcec.PrivKeyFromBytes(key32)
		w, err := btcutil.NewWIF(priv, net.p, compress)
		if err != nil {
			t.Fatalf("NewWIF: %v", err)
		}
		if got := w.String(); got != want {
			t.Fatalf("NewWIF(%x, %s, %v).String() = %s, reference %s", key32, net.m.Name, compress, got, want)
		}
		for _, n := range nets {
			if got, wantNet := w.IsForNet(n.p), n.m.WIF == net.m.WIF; got != wantNet {
				t.Fatalf("WIF %s of %s: IsForNet(%s) = %v", want, net.m.Name, n.m.Name, got)
			}
		}

		d, err := btcutil.DecodeWIF(cur)
		if (err == nil) != (merr == nil) {
			t.Fatalf("DecodeWIF(%q) err=%v; reference err=%v (original %s, edits %v)", cur, err, merr, want, ops)
		}
		if err != nil {
			return
		}
		if !bytes.Equal(d.PrivKey.Serialize(), mKey) || d.CompressPubKey != mComp {
			t.Fatalf("DecodeWIF(%q) = key %x compressed %v, reference key %x compressed %v", cur, d.PrivKey.Serialize(), d.CompressPubKey, mKey, mComp)
		}
		for _, n := range nets {
			if got, wantNet := d.IsForNet(n.p), n.m.WIF == mNet; got != wantNet {
				t.Fatalf("DecodeWIF(%q).IsForNet(%s) = %v, version byte %#x vs %#x", cur, n.m.Name, got, mNet, n.m.WIF)
			}
		}
		if got := d.String(); got != cur {
			t.Fatalf("DecodeWIF(%q).String() = %q", cur, got)
		}
		pt := addrfmt.BaseMul(new(big.Int).SetBytes(mKey))
		wantPub := secp.SerializeUncompressed(pt)
		if mComp {
			wantPub = secp.SerializeCompressed(pt)
		}
		if got := d.SerializePubKey(); !bytes.Equal(got, wantPub) {
			t.Fatalf("DecodeWIF(%q).SerializePubKey() = %x, reference %x", cur, got, wantPub)
		}
	})
}

// ---------------------------------------------------------------------------
// (6) BIP32

var recBIP32 = ev.New("C16", "bip32-derive",
	"start = NewMaster(seed of 16..64 bytes, lengths biased to 16/17/31/32/33/63/64; lengths outside must be refused) or NewKeyFromString of a reference-made "+
		"xprv / xpub with arbitrary depth (0, 1, 254, 255 biased), fingerprint, child number, chain code and key (small keys with leading zero bytes); "+
		"network = any of 10; path depth 0..8 over indices {0,1,2,2^31-1,2^31,2^31+1,2^32-1, random normal, random hardened}; at every node: "+
		"String (xprv and neutered xpub), Depth, ChildIndex, ParentFingerprint, ChainCode, IsPrivate, IsForNet, EC keys, Address, NewKeyFromString round trip "+
		"equal the independent BIP32 reference; Derive from the neutered parent equals CKDpub and Neuter(Derive) for normal indices and errors for hardened ones; "+
		"DeriveNonStandard equals Derive where the documentation says so (not: hardened child of a parent key with leading zero byte); depth 255 refuses to derive; "+
		"BIP32 invalid children (IL >= n, key 0) cannot be generated (2^-127); non-trivial = depth >= 3 with both hardened and normal steps; distinct by start + path",
	"from-seed", "from-xprv-string", "from-xpub-string", "bad-seed-length", "depth:0", "depth:1-2", "depth:3-8", "mixed-hardening",
	"index:2^31-1", "index:2^31", "index:2^32-1", "hardened-from-public:error", "depth-255:error", "parent-key-leading-zero")

func genIndex(t *rapid.T, hardenedAllowed bool) uint32 {
	k := rapid.IntRange(0, 11).Draw(t, "index-kind")
	var i uint32
	switch k {
	case 0:
		i = 0
	case 1:
		i = uint32(rapid.IntRange(1, 3).Draw(t, "i"))
	case 2:
		i = 0x7fffffff
	case 3:
		i = 0x80000000
	case 4:
		i = 0x80000001
	case 5:
		i = 0xffffffff
	case 6, 7, 8:
		i = rapid.Uint32Range(0, 0x7fffffff).Draw(t, "i")
	default:
		i = rapid.Uint32Range(0x80000000, 0xffffffff).Draw(t, "i")
	}
	if !hardenedAllowed {
		i &= 0x7fffffff
	}
	return i
}

// compareNode checks every observable of btcd's key k against the reference m.
func compareNode(k *hdkeychain.ExtendedKey, m *addrfmt.XKey, net tnet, where string) error {
	if got, want := k.String(), m.String(); got != want {
		return fmt.Errorf("%s: String() = %s\n reference %s\n (reference fields: depth %d parentFP %x child %#x chain %x)", where, got, want, m.Depth, m.ParentFP, m.ChildNum, m.ChainCode)
	}
	if k.IsPrivate() != (m.Priv != nil) || k.Depth() != m.Depth || k.ChildIndex() != m.ChildNum ||
		k.ParentFingerprint() != binary.BigEndian.Uint32(m.ParentFP[:]) || !bytes.Equal(k.ChainCode(), m.ChainCode[:]) || !bytes.Equal(k.Version(), m.Version[:]) {
		return fmt.Errorf("%s: accessors (private %v depth %d child %#x parentFP %#x chain %x version %x) differ from reference %+v", where,
			k.IsPrivate(), k.Depth(), k.ChildIndex(), k.ParentFingerprint(), k.ChainCode(), k.Version(), m)
	}
	for _, n := range nets {
		want := m.Version == n.m.HDPriv || m.Version == n.m.HDPub
		if k.IsForNet(n.p) != want {
			return fmt.Errorf("%s: IsForNet(%s) = %v", where, n.m.Name, !want)
		}
	}
	pub, err := k.ECPubKey()
	if err != nil || !bytes.Equal(pub.SerializeCompressed(), m.SerP()) {
		return fmt.Errorf("%s: ECPubKey() = %v %v, reference %x", where, pub, err, m.SerP())
	}
	if m.Priv != nil {
		priv, err := k.ECPrivKey()
		if err != nil || !bytes.Equal(priv.Serialize(), secp.Bytes32(m.Priv)) {
			return fmt.Errorf("%s: ECPrivKey() = %v %v, reference %x", where, priv, err, m.Priv)
		}
		n, err := k.Neuter()
		if err != nil {
			return fmt.Errorf("%s: Neuter(): %v", where, err)
		}
		if got, want := n.String(), m.Neuter(net.m.HDPub).String(); got != want || n.IsPrivate() {
			return fmt.Errorf("%s: Neuter().String() = %s, reference %s", where, got, want)
		}
	} else {
		if _, err := k.ECPrivKey(); err == nil {
			return fmt.Errorf("%s: ECPrivKey() of a public key succeeds", where)
		}
		if n, err := k.Neuter(); err != nil || n.String() != m.String() {
			return fmt.Errorf("%s: Neuter() of a public key changes it", where)
		}
	}
	a, err := k.Address(net.p)
	if err != nil || a.EncodeAddress() != addrfmt.Base58CheckEncode(net.m.P2PKH, addrfmt.Hash160(m.SerP())) {
		return fmt.Errorf("%s: Address(%s) = %v %v", where, net.m.Name, a, err)
	}
	back, err := hdkeychain.NewKeyFromString(m.String())
	if err != nil {
		return fmt.Errorf("%s: NewKeyFromString(%s): %v", where, m.String(), err)
	}
	if back.String() != m.String() || back.IsPrivate() != k.IsPrivate() || back.Depth() != k.Depth() || back.ChildIndex() != k.ChildIndex() ||
		back.ParentFingerprint() != k.ParentFingerprint() || !bytes.Equal(back.ChainCode(), k.ChainCode()) {
		return fmt.Errorf("%s: NewKeyFromString(String()) is a different key: %s", where, back.String())
	}
	return nil
}

func TestBIP32(t *testing.T) {
	rapid.Check(t, func(t *rapid.T) {
		net := genNet(t, "net")
		start := rapid.SampledFrom([]string{"seed", "seed", "seed", "seed", "seed", "seed", "xprv", "xprv", "xpub", "badseed"}).Draw(t, "start")
		var k *hdkeychain.ExtendedKey
		var m *addrfmt.XKey
		var startBytes []byte
		switch start {
		case "badseed":
			n := rapid.SampledFrom([]int{0, 1, 8, 15, 65, 66, 128}).Draw(t, "seed-len")
			seed := rapid.SliceOfN(rapid.Byte(), n, n).Draw(t, "seed")
			recBIP32.Case(true, "bad-seed-length", ev.Hash(seed), func() any { return fmt.Sprintf("seed of %d bytes", n) })
			if _, err := hdkeychain.NewMaster(seed, net.p); !errors.Is(err, hdkeychain.ErrInvalidSeedLen) {
				t.Fatalf("NewMaster(seed of %d bytes) err = %v, want ErrInvalidSeedLen", n, err)
			}
			if _, err := addrfmt.Master(seed, net.m.HDPriv); err == nil {
				t.Fatalf("VERIF-INFRA: reference accepts a %d-byte seed", n)
			}
			return
		case "seed":
			n := rapid.OneOf(rapid.SampledFrom([]int{16, 17, 31, 32, 33, 63, 64}), rapid.IntRange(16, 64)).Draw(t, "seed-len")
			startBytes = rapid.SliceOfN(rapid.Byte(), n, n).Draw(t, "seed")
			var merr error
			m, merr = addrfmt.Master(startBytes, net.m.HDPriv)
			if merr != nil {
				return // unusable seed (2^-127)
			}
		default:
			m = &addrfmt.XKey{Version: net.m.HDPriv}
			m.Depth = byte(rapid.OneOf(rapid.SampledFrom([]int{0, 1, 253, 254, 255}), rapid.IntRange(0, 255)).Draw(t, "depth"))
			copy(m.ParentFP[:], rapid.SliceOfN(rapid.Byte(), 4, 4).Draw(t, "fp"))
			m.ChildNum = genIndex(t, true)
			copy(m.ChainCode[:], genBytes(t, 32, "chain"))
			m.Priv = genScalar(t, "xkey")
			m.Pub = addrfmt.BaseMul(m.Priv)
			if start == "xpub" {
				m = m.Neuter(net.m.HDPub)
			}
			startBytes = m.Bytes()
		}
		depth := rapid.SampledFrom([]int{0, 1, 1, 2, 2, 3, 3, 4, 5, 6, 7, 8}).Draw(t, "path-depth")
		path := make([]uint32, depth)
		for i := range path {
			path[i] = genIndex(t, true)
		}
		nHard, nNorm := 0, 0
		var pb []byte
		for _, i := range path {
			if i >= addrfmt.HardenedStart {
				nHard++
			} else {
				nNorm++
			}
			pb = binary.BigEndian.AppendUint32(pb, i)
		}
		cl := map[string]string{"seed": "from-seed", "xprv": "from-xprv-string", "xpub": "from-xpub-string"}[start]
		recBIP32.Case(depth >= 3 && nHard > 0 && nNorm > 0, cl, ev.Hash(startBytes, pb, []byte(net.m.Name)), func() any {
			return fmt.Sprintf("%s %x on %s path %v -> %s", start, startBytes, net.m.Name, path, m.String())
		})
		switch {
		case depth == 0:
			recBIP32.Count("depth:0", 1)
		case depth <= 2:
			recBIP32.Count("depth:1-2", 1)
		default:
			recBIP32.Count("depth:3-8", 1)
		}
		if nHard > 0 && nNorm > 0 {
			recBIP32.Count("mixed-hardening", 1)
		}

		var err error
		if start == "seed" {
			k, err = hdkeychain.NewMaster(startBytes, net.p)
			if err != nil {
				t.Fatalf("NewMaster(%x, %s): %v", startBytes, net.m.Name, err)
			}
		} else {
			k, err = hdkeychain.NewKeyFromString(m.String())
			if err != nil {
				t.Fatalf("NewKeyFromString(%s): %v", m.String(), err)
			}
		}
		where := fmt.Sprintf("%s %x on %s, path []", start, startBytes, net.m.Name)
		if e := compareNode(k, m, net, where); e != nil {
			t.Fatal(e)
		}
		for step, i := range path {
			where = fmt.Sprintf("%s %x on %s, path %v", start, startBytes, net.m.Name, path[:step+1])
			switch i {
			case 0x7fffffff:
				recBIP32.Count("index:2^31-1", 1)
			case 0x80000000:
				recBIP32.Count("index:2^31", 1)
			case 0xffffffff:
				recBIP32.Count("index:2^32-1", 1)
			}
			hardened := i >= addrfmt.HardenedStart
			// the neutered parent
			mpub := m
			if m.Priv != nil {
				mpub = m.Neuter(net.m.HDPub)
			}
			kpub, err := k.Neuter()
			if err != nil {
				t.Fatalf("%s: Neuter of the parent: %v", where, err)
			}
			if m.Depth == 255 {
				recBIP32.Count("depth-255:error", 1)
				if _, err := k.Derive(i); !errors.Is(err, hdkeychain.ErrDeriveBeyondMaxDepth) {
					t.Fatalf("%s: Derive at depth 255 err = %v, want ErrDeriveBeyondMaxDepth", where, err)
				}
				if _, err := kpub.Derive(i & 0x7fffffff); !errors.Is(err, hdkeychain.ErrDeriveBeyondMaxDepth) {
					t.Fatalf("%s: public Derive at depth 255 err = %v", where, err)
				}
				return
			}
			if hardened {
				recBIP32.Count("hardened-from-public:error", 1)
				if c, err := kpub.Derive(i); !errors.Is(err, hdkeychain.ErrDeriveHardFromPublic) {
					t.Fatalf("%s: hardened derivation from the public key gives %v, err %v", where, c, err)
				}
				if _, err := kpub.DeriveNonStandard(i); !errors.Is(err, hdkeychain.ErrDeriveHardFromPublic) {
					t.Fatalf("%s: DeriveNonStandard: hardened derivation from the public key err %v", where, err)
				}
				if m.Priv == nil {
					return // public start: the path ends here
				}
			}
			var mchild *addrfmt.XKey
			var merr error
			if m.Priv != nil {
				mchild, merr = m.CKDpriv(i)
			} else {
				mchild, merr = m.CKDpub(i)
			}
			child, err := k.Derive(i)
			if merr != nil {
				if err == nil {
					t.Fatalf("%s: Derive succeeds where BIP32 declares the child invalid (%v)", where, merr)
				}
				return
			}
			if err != nil {
				t.Fatalf("%s: Derive: %v", where, err)
			}
			if e := compareNode(child, mchild, net, where); e != nil {
				t.Fatal(e)
			}
			if !hardened {
				// public derivation commutes with neutering
				mpc, merr := mpub.CKDpub(i)
				pc, err := kpub.Derive(i)
				if merr != nil || err != nil {
					t.Fatalf("%s: public derivation: btcd err %v, reference err %v", where, err, merr)
				}
				if pc.String() != mpc.String() {
					t.Fatalf("%s: Neuter().Derive() = %s, CKDpub reference %s", where, pc.String(), mpc.String())
				}
				cn, err := child.Neuter()
				if err != nil || cn.String() != pc.String() {
					t.Fatalf("%s: Derive().Neuter() = %v (%v), Neuter().Derive() = %s", where, cn, err, pc.String())
				}
				if pc.IsPrivate() {
					t.Fatalf("%s: child of a public key is private", where)
				}
			}
			// DeriveNonStandard agrees with Derive unless the parent private key
			// has a leading zero byte and the child is hardened (issue #172)
			if k.IsAffectedByIssue172() {
				recBIP32.Count("parent-key-leading-zero", 1)
			}
			if !(hardened && k.IsAffectedByIssue172()) {
				ns, err := k.DeriveNonStandard(i)
				if err != nil || ns.String() != mchild.String() {
					t.Fatalf("%s: DeriveNonStandard = %v (%v), reference %s", where, ns, err, mchild.String())
				}
			}
			k, m = child, mchild
		}
	})
}

// ---------------------------------------------------------------------------
// extended key strings under edits

var recXStr = ev.New("C16", "extkey-strings",
	"a reference-made xprv/xpub (any network, arbitrary fields) changed by 0..3 edits (character edits, recomputed checksum, payload length, key := 0 / n, "+
		"key prefix byte 00..04, point off the curve): NewKeyFromString accepts <=> the reference parser accepts (78 bytes, checksum, key in [1,n-1] or a "+
		"compressed point on the curve) and String() returns the input with the same fields; the BIP32 rules on version bytes and on depth-0 fingerprints / "+
		"child numbers are not claimed; non-trivial = edited; distinct by string",
	"plain", "edited:accept", "edited:reject")

func xkeyEdit(t *rapid.T, cur string) (string, bool) {
	b, ok := addrfmt.Base58Decode(cur)
	if !ok || len(b) != 82 {
		return "", false
	}
	body := append([]byte{}, b[:78]...)
	switch rapid.IntRange(0, 5).Draw(t, "xkey-edit") {
	case 0:
		body[45] = rapid.SampledFrom([]byte{0, 1, 2, 3, 4, 5, 6, 7}).Draw(t, "key-prefix")
	case 1:
		k := rapid.SampledFrom([]*big.Int{big.NewInt(0), secp.N, new(big.Int).Sub(secp.N, big.NewInt(1)), big.NewInt(1),
			new(big.Int).Sub(new(big.Int).Lsh(big.NewInt(1), 256), big.NewInt(1)), secp.P}).Draw(t, "key")
		copy(body[46:78], secp.Bytes32(k))
	case 2:
		i := rapid.IntRange(0, 77).Draw(t, "pos")
		body[i] ^= byte(1 << uint(rapid.IntRange(0, 7).Draw(t, "bit")))
	case 3:
		body = append(body, rapid.Byte().Draw(t, "extra"))
	case 4:
		body = body[:77]
	case 5:
		body[4] = rapid.SampledFrom([]byte{0, 1, 255}).Draw(t, "depth")
	}
	return addrfmt.Base58CheckEncodeRaw(body), true
}

func TestExtKeyStrings(t *testing.T) {
	rapid.Check(t, func(t *rapid.T) {
		net := genNet(t, "net")
		m := &addrfmt.XKey{Version: net.m.HDPriv}
		m.Depth = byte(rapid.IntRange(0, 255).Draw(t, "depth"))
		copy(m.ParentFP[:], rapid.SliceOfN(rapid.Byte(), 4, 4).Draw(t, "fp"))
		m.ChildNum = genIndex(t, true)
		copy(m.ChainCode[:], genBytes(t, 32, "chain"))
		m.Priv = genScalar(t, "xkey")
		m.Pub = addrfmt.BaseMul(m.Priv)
		if rapid.Bool().Draw(t, "public") {
			m = m.Neuter(net.m.HDPub)
		}
		orig := m.String()
		cur := orig
		nEdits := rapid.SampledFrom([]int{0, 1, 1, 2, 2, 3}).Draw(t, "edits")
		var ops []string
		for i := 0; i < nEdits; i++ {
			if rapid.IntRange(0, 2).Draw(t, "structural") > 0 {
				if n, ok := xkeyEdit(t, cur); ok {
					cur = n
					ops = append(ops, "xkey")
					continue
				}
			}
			var op string
			cur, op, _ = applyEdit(t, cur)
			ops = append(ops, op)
		}
		mk, merr := addrfmt.ParseXKey(cur)
		cl := "plain"
		if cur != orig {
			cl = "edited:reject"
			if merr == nil {
				cl = "edited:accept"
			}
		}
		recXStr.Case(cur != orig, cl, ev.HashS(cur), func() any { return fmt.Sprintf("%s --%v--> %q (%s)", orig, ops, cur, cl) })
		k, err := hdkeychain.NewKeyFromString(cur)
		if (err == nil) != (merr == nil) {
			t.Fatalf("NewKeyFromString(%q) err=%v; reference err=%v (original %s, edits %v)", cur, err, merr, orig, ops)
		}
		if err != nil {
			return
		}
		if k.String() != cur {
			t.Fatalf("NewKeyFromString(%q).String() = %q", cur, k.String())
		}
		if k.IsPrivate() != (mk.Priv != nil) || k.Depth() != mk.Depth || k.ChildIndex() != mk.ChildNum ||
			k.ParentFingerprint() != binary.BigEndian.Uint32(mk.ParentFP[:]) || !bytes.Equal(k.ChainCode(), mk.ChainCode[:]) || !bytes.Equal(k.Version(), mk.Version[:]) {
			t.Fatalf("NewKeyFromString(%q): fields differ from the reference %+v", cur, mk)
		}
		pub, err := k.ECPubKey()
		if err != nil || !bytes.Equal(pub.SerializeCompressed(), mk.SerP()) {
			t.Fatalf("NewKeyFromString(%q).ECPubKey() = %v %v, reference %x", cur, pub, err, mk.SerP())
		}
	})
}
