package c16

import (
	"bytes"
	"fmt"
	"math/big"
	"testing"

	"github.com/btcsuite/btcd/btcec/v2"
	"github.com/btcsuite/btcd/btcec/v2/schnorr"
	"github.com/btcsuite/btcd/txscript/v2"
	"pgregory.net/rapid"

	"verif/internal/ev"
	"verif/internal/model/addrfmt"
	"verif/internal/model/secp"
)

const kfDupLeaves = "assemble-taproot-tree-with-duplicate-leaves"

// dupLeavesMet: the duplicate-leaf finding was observed in this process.
var dupLeavesMet bool

// genLeaf draws a tap leaf: version 0xc0 mostly, otherwise another even value
// (0x50 excluded: it would read as an annex); script lengths around the
// compact-size boundaries.
func genLeaf(t *rapid.T) addrfmt.TapLeaf {
	ver := byte(0xc0)
	if rapid.IntRange(0, 4).Draw(t, "other-version") == 0 {
		ver = rapid.SampledFrom([]byte{0xc2, 0xc4, 0x00, 0x02, 0x66, 0x7e, 0x80, 0xbe, 0xfe, 0x52, 0x4e}).Draw(t, "leaf-version")
	}
	n := rapid.OneOf(rapid.IntRange(0, 40), rapid.IntRange(0, 40), rapid.IntRange(0, 40), rapid.IntRange(0, 40), rapid.IntRange(0, 40), rapid.SampledFrom([]int{0, 1, 75, 76, 252, 253, 254, 255, 256, 520, 1000})).Draw(t, "script-len")
	if rapid.IntRange(0, 999).Draw(t, "huge") == 0 {
		n = rapid.SampledFrom([]int{65535, 65536}).Draw(t, "huge-len")
	}
	var script []byte
	if n <= 80 {
		script = rapid.SliceOfN(rapid.Byte(), n, n).Draw(t, "script")
	} else {
		// long scripts: a drawn 16-byte pattern repeated (drawing 64 KiB byte by
		// byte costs more than everything else in the case)
		pat := rapid.SliceOfN(rapid.Byte(), 16, 16).Draw(t, "script-pattern")
		script = make([]byte, n)
		for i := range script {
			script[i] = pat[i%16] + byte(i>>4)
		}
	}
	return addrfmt.TapLeaf{Version: ver, Script: script}
}

// genInternalKey draws an internal key; btcd receives it as a full public key
// with even or odd y (the x-only key is what is committed to).
func genInternalKey(t *rapid.T) (*big.Int, secp.Point, *btcec.PublicKey) {
	d := genScalar(t, "internal")
	pt := addrfmt.BaseMul(d)
	pk, err := btcec.ParsePubKey(secp.SerializeCompressed(pt))
	if err != nil {
		t.Fatalf("VERIF-INFRA: btcec rejects a valid point: %v", err)
	}
	return d, pt, pk
}

func btcdLeaf(l addrfmt.TapLeaf) txscript.TapLeaf {
	return txscript.NewTapLeaf(txscript.TapscriptLeafVersion(l.Version), l.Script)
}

// treeFromBtcd reads the shape of a btcd tree through the TapNode interface and
// rebuilds it as a reference tree (hashes are recomputed by the reference).
func treeFromBtcd(n txscript.TapNode, depth int) (*addrfmt.TapTree, error) {
	if n == nil || depth > 200 {
		return nil, fmt.Errorf("nil node or runaway depth")
	}
	if n.Left() == nil && n.Right() == nil {
		l, ok := n.(txscript.TapLeaf)
		if !ok {
			return nil, fmt.Errorf("childless node of type %T", n)
		}
		return &addrfmt.TapTree{Leaf: &addrfmt.TapLeaf{Version: byte(l.LeafVersion), Script: l.Script}}, nil
	}
	if n.Left() == nil || n.Right() == nil {
		return nil, fmt.Errorf("branch with one child")
	}
	l, err := treeFromBtcd(n.Left(), depth+1)
	if err != nil {
		return nil, err
	}
	r, err := treeFromBtcd(n.Right(), depth+1)
	if err != nil {
		return nil, err
	}
	return &addrfmt.TapTree{L: l, R: r}, nil
}

// leafKey identifies a leaf by its reference leaf hash.
func leafKey(l addrfmt.TapLeaf) string {
	h := addrfmt.TapLeafHash(l.Version, l.Script)
	return string(h[:])
}

func sameLeaf(a, b addrfmt.TapLeaf) bool { return a.Version == b.Version && bytes.Equal(a.Script, b.Script) }

func concatPath(p [][32]byte) []byte {
	var b []byte
	for _, h := range p {
		b = append(b, h[:]...)
	}
	return b
}

// checkLeafProof verifies one leaf's btcd control block against the reference
// and runs the negative cases. others = other leaves of the tree.
func checkLeafProof(t *rapid.T, where string, internalKey *btcec.PublicKey, internalX []byte, root [32]byte, q32 []byte, parity byte,
	leaf addrfmt.TapLeaf, path [][32]byte, cb txscript.ControlBlock, foreign *addrfmt.TapLeaf, full bool) {

	// merkleOf folds a leaf and a path the BIP341 way (hashes only; the output
	// key (q32, parity) of the true root was computed once by the caller)
	merkleOf := func(version byte, script []byte, proof []byte) [32]byte {
		k := addrfmt.TapLeafHash(version, script)
		for off := 0; off+32 <= len(proof); off += 32 {
			var e [32]byte
			copy(e[:], proof[off:off+32])
			k = addrfmt.TapBranchHash(k, e)
		}
		return k
	}
	wantCB := addrfmt.ControlBlock(leaf.Version, parity, internalX, path)
	if merkleOf(leaf.Version, leaf.Script, concatPath(path)) != root {
		t.Fatalf("VERIF-INFRA: %s: reference path does not lead to the reference root", where)
	}
	gotCB, err := cb.ToBytes()
	if err != nil {
		t.Fatalf("%s: ControlBlock.ToBytes: %v", where, err)
	}
	if !bytes.Equal(gotCB, wantCB) {
		t.Fatalf("%s: control block\n got  %x\n want %x (leaf version %#x | parity %d, internal key, merkle path of %d nodes)", where, gotCB, wantCB, leaf.Version, parity, len(path))
	}
	if err := txscript.VerifyTaprootLeafCommitment(&cb, q32, leaf.Script); err != nil {
		t.Fatalf("%s: VerifyTaprootLeafCommitment rejects the leaf's own control block: %v", where, err)
	}
	if !full {
		return // the parse round trip and the negative cases run on a sample of the leaves of a tree
	}
	parsed, err := txscript.ParseControlBlock(wantCB)
	if err != nil {
		t.Fatalf("%s: ParseControlBlock(%x): %v", where, wantCB, err)
	}
	if byte(parsed.LeafVersion) != leaf.Version || parsed.OutputKeyYIsOdd != (parity == 1) || !bytes.Equal(parsed.InclusionProof, concatPath(path)) ||
		!bytes.Equal(schnorr.SerializePubKey(parsed.InternalKey), internalX) {
		t.Fatalf("%s: ParseControlBlock(%x) = %+v", where, wantCB, parsed)
	}
	if err := txscript.VerifyTaprootLeafCommitment(parsed, q32, leaf.Script); err != nil {
		t.Fatalf("%s: parsed control block does not verify: %v", where, err)
	}
	// negative cases: each must be refused
	neg := func(name string, c txscript.ControlBlock, script []byte) {
		raw, _ := c.ToBytes()
		if merkleOf(byte(c.LeafVersion), script, c.InclusionProof) == root && c.OutputKeyYIsOdd == (parity == 1) &&
			bytes.Equal(schnorr.SerializePubKey(c.InternalKey), internalX) {
			return // the changed proof still commits to the same root (only possible for identical leaves)
		}
		if err := txscript.VerifyTaprootLeafCommitment(&c, q32, script); err == nil {
			t.Fatalf("%s: VerifyTaprootLeafCommitment accepts %s (control block %x, script %x, output key %x)", where, name, raw, script, q32)
		}
	}
	flipped := cb
	flipped.OutputKeyYIsOdd = !cb.OutputKeyYIsOdd
	neg("a flipped parity bit", flipped, leaf.Script)
	wrongVer := cb
	wrongVer.LeafVersion = txscript.TapscriptLeafVersion(leaf.Version ^ byte(2<<uint(rapid.IntRange(0, 6).Draw(t, "ver-bit"))))
	neg("a wrong leaf version", wrongVer, leaf.Script)
	mutScript := append([]byte{}, leaf.Script...)
	if len(mutScript) == 0 || rapid.Bool().Draw(t, "grow-script") {
		mutScript = append(mutScript, rapid.Byte().Draw(t, "extra"))
	} else {
		i := rapid.IntRange(0, len(mutScript)-1).Draw(t, "script-pos")
		mutScript[i] ^= byte(1 << uint(rapid.IntRange(0, 7).Draw(t, "script-bit")))
	}
	neg("a foreign (mutated) leaf script", cb, mutScript)
	if foreign != nil && !sameLeaf(*foreign, leaf) {
		fc := cb
		fc.LeafVersion = txscript.TapscriptLeafVersion(foreign.Version)
		neg("another leaf's script with this leaf's path", fc, foreign.Script)
	}
	if len(path) > 0 {
		short := cb
		short.InclusionProof = cb.InclusionProof[:len(cb.InclusionProof)-32]
		neg("a truncated merkle path", short, leaf.Script)
		bad := cb
		bad.InclusionProof = append([]byte{}, cb.InclusionProof...)
		bad.InclusionProof[rapid.IntRange(0, len(bad.InclusionProof)-1).Draw(t, "path-pos")] ^= 0x01
		neg("a corrupted merkle path", bad, leaf.Script)
	}
	otherKey := cb
	otherKey.InternalKey = otherInternalKeys()[rapid.IntRange(0, 7).Draw(t, "other-key")]
	if !bytes.Equal(schnorr.SerializePubKey(otherKey.InternalKey), internalX) {
		neg("another internal key", otherKey, leaf.Script)
	}
}

// sampleLeaves marks three leaves of a tree for the full set of negative
// cases (every leaf gets the positive comparison and verification).
func sampleLeaves(t *rapid.T, n int) map[int]bool {
	m := map[int]bool{}
	for k := 0; k < 3 && n > 0; k++ {
		m[rapid.IntRange(0, n-1).Draw(t, "sampled-leaf")] = true
	}
	return m
}

var otherKeys []*btcec.PublicKey

// otherInternalKeys: 2G..9G, built once from the reference.
func otherInternalKeys() []*btcec.PublicKey {
	if otherKeys == nil {
		for i := int64(2); i < 10; i++ {
			pk, err := btcec.ParsePubKey(secp.SerializeCompressed(addrfmt.BaseMul(big.NewInt(i))))
			if err != nil {
				panic("VERIF-INFRA: " + err.Error())
			}
			otherKeys = append(otherKeys, pk)
		}
	}
	return otherKeys
}

// checkOutputKey compares ComputeTaprootOutputKey with the reference and
// returns the reference (x(Q), parity).
func checkOutputKey(t *rapid.T, where string, d *big.Int, internalKey *btcec.PublicKey, internalX, root []byte) ([]byte, byte) {
	q32, parity, ok := addrfmt.OutputKey(internalX, root)
	if !ok {
		t.Skip("tweak >= n (2^-128)")
	}
	out := txscript.ComputeTaprootOutputKey(internalKey, root)
	ser := out.SerializeCompressed()
	if !bytes.Equal(schnorr.SerializePubKey(out), q32) || !bytes.Equal(ser[1:], q32) || ser[0] != 2+parity {
		t.Fatalf("%s: ComputeTaprootOutputKey(%x, root %x) = %x, reference x %x parity %d", where, internalX, root, ser, q32, parity)
	}
	// the tweaked secret key opens the output key
	priv, _ := btcec.PrivKeyFromBytes(secp.Bytes32(d))
	tw := txscript.TweakTaprootPrivKey(*priv, root)
	wantD, _ := addrfmt.TweakPrivKey(d, root)
	if got := tw.Serialize(); !bytes.Equal(got, secp.Bytes32(wantD)) {
		t.Fatalf("%s: TweakTaprootPrivKey = %x, reference %x", where, got, secp.Bytes32(wantD))
	}
	if !bytes.Equal(schnorr.SerializePubKey(tw.PubKey()), q32) {
		t.Fatalf("%s: tweaked secret key does not open the output key", where)
	}
	script, err := txscript.PayToTaprootScript(out)
	if err != nil || !bytes.Equal(script, addrfmt.ScriptWitness(1, q32)) {
		t.Fatalf("%s: PayToTaprootScript = %x %v", where, script, err)
	}
	return q32, parity
}

var recTapAsm = ev.New("C16", "taproot-assemble",
	"1..16 leaves (distinct, one tree in 25 with a repeated leaf; leaf version 0xc0 or another even value; script lengths incl. 0, 252/253, 65535/65536) given to "+
		"AssembleTaprootScriptTree, internal key with even or odd y; the tree shape is read back through TapNode.Left/Right and re-hashed by the BIP341 reference: "+
		"same leaves, root hash, output key and parity (ComputeTaprootOutputKey, TweakTaprootPrivKey, ComputeTaprootKeyNoScript), for EVERY leaf i: "+
		"LeafMerkleProofs[i] is leaf i with the reference merkle path, LeafProofIndex, ToControlBlock bytes = reference control block, "+
		"VerifyTaprootLeafCommitment accepts it and (for all leaves of trees up to 3 leaves, 3 sampled leaves otherwise) refuses a flipped parity bit, wrong leaf version, mutated / other leaf's script, truncated or corrupted path, other internal key; "+
		"non-trivial = >= 3 leaves; distinct by leaves + key",
	"leaves:1", "leaves:2", "leaves:3", "leaves:4", "leaves:5", "leaves:6", "leaves:7", "leaves:8", "leaves:9", "leaves:10", "leaves:11", "leaves:12",
	"leaves:13", "leaves:14", "leaves:15", "leaves:16", "parity:0", "parity:1", "internal-odd-y", "non-base-leaf-version")

func TestTaprootAssemble(t *testing.T) {
	rapid.Check(t, func(t *rapid.T) {
		n := rapid.IntRange(1, 16).Draw(t, "leaves")
		leaves := make([]addrfmt.TapLeaf, n)
		bl := make([]txscript.TapLeaf, n)
		seen := map[string]int{}
		var hb [][]byte
		for i := range leaves {
			leaves[i] = genLeaf(t)
			for j := 0; j < i; j++ { // distinct by construction
				if sameLeaf(leaves[j], leaves[i]) {
					leaves[i].Script = append(append([]byte{}, leaves[i].Script...), byte(i))
					j = -1
				}
			}
		}
		// one tree in 25 repeats a leaf (legal in BIP341, if pointless)
		dup := n >= 2 && rapid.IntRange(0, 24).Draw(t, "with-duplicate") == 0
		if dup {
			j := rapid.IntRange(1, n-1).Draw(t, "dup-at")
			leaves[j] = leaves[rapid.IntRange(0, j-1).Draw(t, "dup-of")]
		}
		for i := range leaves {
			seen[leafKey(leaves[i])]++
			bl[i] = btcdLeaf(leaves[i])
			hb = append(hb, []byte{leaves[i].Version}, leaves[i].Script)
			if leaves[i].Version != 0xc0 {
				recTapAsm.Count("non-base-leaf-version", 1)
			}
		}
		d, pt, internalKey := genInternalKey(t)
		internalX := secp.Bytes32(pt.X)
		hb = append(hb, internalX)
		if dup && dupLeavesMet && ev.IsKnown("C16", kfDupLeaves) {
			// the listed finding has been re-confirmed (and printed) in this
			// process: further repeated-leaf trees are excluded by construction
			recTapAsm.Excluded()
			return
		}
		recTapAsm.Case(n >= 3, fmt.Sprintf("leaves:%d", n), ev.Hash(hb...), func() any {
			return fmt.Sprintf("%d leaves, first %#x/%x, internal key %x", n, leaves[0].Version, leaves[0].Script, secp.SerializeCompressed(pt))
		})
		if pt.Y.Bit(0) == 1 {
			recTapAsm.Count("internal-odd-y", 1)
		}
		where := fmt.Sprintf("%d leaves (versions/scripts %v), internal key %x", n, describeLeaves(leaves), secp.SerializeCompressed(pt))

		tree := txscript.AssembleTaprootScriptTree(bl...)
		mt, err := treeFromBtcd(tree.RootNode, 0)
		if err != nil {
			t.Fatalf("%s: malformed tree: %v", where, err)
		}
		paths := mt.Paths()
		if len(paths) != n {
			t.Fatalf("%s: tree has %d leaves", where, len(paths))
		}
		inTree := map[string]int{}
		for _, p := range paths {
			inTree[leafKey(p.Leaf)]++
		}
		for k, c := range seen {
			if inTree[k] != c {
				t.Fatalf("%s: leaf %x occurs %d times in the tree, %d times in the input", where, k, inTree[k], c)
			}
		}
		root := mt.Hash()
		if got := tree.RootNode.TapHash(); !bytes.Equal(got[:], root[:]) {
			t.Fatalf("%s: RootNode.TapHash() = %x, reference merkle root %x", where, got, root)
		}
		q32, parity := checkOutputKey(t, where, d, internalKey, internalX, root[:])
		recTapAsm.Count(fmt.Sprintf("parity:%d", parity), 1)
		if len(tree.LeafMerkleProofs) != n {
			t.Fatalf("%s: %d proofs", where, len(tree.LeafMerkleProofs))
		}
		sample := sampleLeaves(t, n)
		for i, leaf := range leaves {
			w := fmt.Sprintf("%s, leaf %d", where, i)
			proof := tree.LeafMerkleProofs[i]
			if byte(proof.TapLeaf.LeafVersion) != leaf.Version || !bytes.Equal(proof.TapLeaf.Script, leaf.Script) {
				t.Fatalf("%s: LeafMerkleProofs[%d] is for leaf %#x/%x", w, i, proof.TapLeaf.LeafVersion, proof.TapLeaf.Script)
			}
			lh := addrfmt.TapLeafHash(leaf.Version, leaf.Script)
			if idx, ok := tree.LeafProofIndex[lh]; !ok || (idx != i && !dup) {
				t.Fatalf("%s: LeafProofIndex = %d %v", w, idx, ok)
			}
			// the reference path of this leaf (with duplicates: of any occurrence)
			var path [][32]byte
			found := false
			for _, p := range paths {
				if sameLeaf(p.Leaf, leaf) {
					if !found || bytes.Equal(concatPath(p.Path), proof.InclusionProof) {
						path = p.Path
					}
					found = true
				}
			}
			if !bytes.Equal(proof.InclusionProof, concatPath(path)) {
				obs := fmt.Sprintf("%s: InclusionProof = %x, reference merkle path %x", w, proof.InclusionProof, concatPath(path))
				if dup && recTapAsm.Known(kfDupLeaves, obs) {
					dupLeavesMet = true
					recTapAsm.Excluded()
					return
				}
				t.Fatal(obs)
			}
			cb := proof.ToControlBlock(internalKey)
			var foreign *addrfmt.TapLeaf
			if n > 1 {
				foreign = &leaves[(i+1+rapid.IntRange(0, n-2).Draw(t, "foreign"))%n]
			}
			checkLeafProof(t, w, internalKey, internalX, root, q32, parity, leaf, path, cb, foreign, n <= 3 || sample[i])
		}
	})
}

func describeLeaves(l []addrfmt.TapLeaf) string {
	s := ""
	for i, x := range l {
		if i > 0 {
			s += " "
		}
		if len(x.Script) > 40 {
			s += fmt.Sprintf("%#x/%x..(%d bytes)", x.Version, x.Script[:8], len(x.Script))
		} else {
			s += fmt.Sprintf("%#x/%x", x.Version, x.Script)
		}
	}
	return s
}

// ---------------------------------------------------------------------------
// hand-built trees of arbitrary shape and paths at the depth limit

var recTapShape = ev.New("C16", "taproot-shapes",
	"script trees of 1..16 leaves of random shape (recursive uniform split: from caterpillars to balanced trees) built by hand with NewTapBranch/NewTapLeaf, "+
		"plus single leaves under a random merkle path of 0, 1, 2, 127, 128 nodes (128 = the BIP341 maximum; 129 must not parse): TapHash of every node = reference, "+
		"TapscriptProof{leaf, root, reference path}.ToControlBlock verifies under ComputeTaprootOutputKey for EVERY leaf, equals the reference control block, "+
		"ControlBlock.RootHash = reference root, and the negative cases of [taproot-assemble] are refused; non-trivial = >= 3 leaves or path >= 127; distinct by shape + leaves + key",
	"shape:single", "shape:caterpillar", "shape:balanced", "shape:other", "path:127", "path:128", "path:129-rejected", "key-path-only")

// genShape draws a tree shape over n leaves; it returns the reference tree,
// the btcd tree and a shape string.
func genShape(t *rapid.T, n int, next *int, leaves []addrfmt.TapLeaf) (*addrfmt.TapTree, txscript.TapNode, string, int) {
	if n == 1 {
		l := leaves[*next]
		*next++
		return &addrfmt.TapTree{Leaf: &l}, btcdLeaf(l), "L", 0
	}
	a := rapid.IntRange(1, n-1).Draw(t, "split")
	lt, lb, ls, ld := genShape(t, a, next, leaves)
	rt, rb, rs, rd := genShape(t, n-a, next, leaves)
	d := ld
	if rd > d {
		d = rd
	}
	return &addrfmt.TapTree{L: lt, R: rt}, txscript.NewTapBranch(lb, rb), "(" + ls + rs + ")", d + 1
}

func TestTaprootShapes(t *testing.T) {
	rapid.Check(t, func(t *rapid.T) {
		d, pt, internalKey := genInternalKey(t)
		internalX := secp.Bytes32(pt.X)
		mode := rapid.IntRange(0, 9).Draw(t, "mode")
		switch {
		case mode == 0: // key-path-only output
			recTapShape.Case(false, "key-path-only", ev.Hash(internalX), func() any { return fmt.Sprintf("internal key %x, no script tree", internalX) })
			q32, parity, ok := addrfmt.OutputKey(internalX, nil)
			if !ok {
				return
			}
			out := txscript.ComputeTaprootKeyNoScript(internalKey).SerializeCompressed()
			if !bytes.Equal(out[1:], q32) || out[0] != 2+parity {
				t.Fatalf("ComputeTaprootKeyNoScript(%x) = %x, reference %x parity %d", internalX, out, q32, parity)
			}
			checkOutputKey(t, "key-path-only", d, internalKey, internalX, nil)
			return
		case mode == 1: // one leaf under a long random path
			plen := rapid.SampledFrom([]int{0, 1, 2, 126, 127, 128, 128, 129}).Draw(t, "path-len")
			leaf := genLeaf(t)
			path := make([][32]byte, plen)
			var hb [][]byte
			sibSeed := rapid.SliceOfN(rapid.Byte(), 32, 32).Draw(t, "sibling-seed")
			for i := range path {
				// sibling hashes are arbitrary 32-byte strings: expand a drawn seed
				copy(path[i][:], addrfmt.DSHA256(append(append([]byte{}, sibSeed...), byte(i))))
				hb = append(hb, path[i][:])
			}
			cl := "shape:single"
			switch plen {
			case 127:
				cl = "path:127"
			case 128:
				cl = "path:128"
			case 129:
				cl = "path:129-rejected"
			}
			recTapShape.Case(plen >= 127, cl, ev.Hash(append(hb, internalX, []byte{leaf.Version}, leaf.Script)...), func() any {
				return fmt.Sprintf("leaf %#x/%x under a path of %d nodes, internal key %x", leaf.Version, leaf.Script, plen, internalX)
			})
			k := addrfmt.TapLeafHash(leaf.Version, leaf.Script)
			for _, e := range path {
				k = addrfmt.TapBranchHash(k, e)
			}
			where := fmt.Sprintf("leaf %#x/%x under a path of %d nodes, internal key %x", leaf.Version, leaf.Script, plen, internalX)
			q32, parity := checkOutputKey(t, where, d, internalKey, internalX, k[:])
			raw := addrfmt.ControlBlock(leaf.Version, parity, internalX, path)
			if plen > 128 {
				if cb, err := txscript.ParseControlBlock(raw); err == nil {
					t.Fatalf("%s: ParseControlBlock accepts a control block of %d bytes (%d path nodes): %+v", where, len(raw), plen, cb.LeafVersion)
				}
				return
			}
			cb, err := txscript.ParseControlBlock(raw)
			if err != nil {
				t.Fatalf("%s: ParseControlBlock: %v", where, err)
			}
			if got := cb.RootHash(leaf.Script); !bytes.Equal(got, k[:]) {
				t.Fatalf("%s: ControlBlock.RootHash = %x, reference %x", where, got, k)
			}
			checkLeafProof(t, where, internalKey, internalX, k, q32, parity, leaf, path, *cb, nil, true)
			return
		}
		n := rapid.IntRange(1, 16).Draw(t, "leaves")
		leaves := make([]addrfmt.TapLeaf, n)
		var hb [][]byte
		for i := range leaves {
			leaves[i] = genLeaf(t)
			hb = append(hb, []byte{leaves[i].Version}, leaves[i].Script)
		}
		next := 0
		mt, bt, shape, depth := genShape(t, n, &next, leaves)
		cl := "shape:other"
		switch {
		case n == 1:
			cl = "shape:single"
		case depth == n-1 && n >= 3:
			cl = "shape:caterpillar"
		case n >= 4 && 1<<uint(depth) < 2*n:
			cl = "shape:balanced"
		}
		recTapShape.Case(n >= 3, cl, ev.Hash(append(hb, internalX, []byte(shape))...), func() any {
			return fmt.Sprintf("shape %s, leaves %s, internal key %x", shape, describeLeaves(leaves), internalX)
		})
		where := fmt.Sprintf("shape %s, leaves %s, internal key %x", shape, describeLeaves(leaves), secp.SerializeCompressed(pt))
		root := mt.Hash()
		if got := bt.TapHash(); !bytes.Equal(got[:], root[:]) {
			t.Fatalf("%s: TapHash of the root = %x, reference %x", where, got, root)
		}
		q32, parity := checkOutputKey(t, where, d, internalKey, internalX, root[:])
		paths := mt.Paths()
		sample := sampleLeaves(t, n)
		for i, p := range paths {
			w := fmt.Sprintf("%s, leaf %d", where, i)
			proof := txscript.TapscriptProof{TapLeaf: btcdLeaf(p.Leaf), RootNode: bt, InclusionProof: concatPath(p.Path)}
			cb := proof.ToControlBlock(internalKey)
			if got := cb.RootHash(p.Leaf.Script); !bytes.Equal(got, root[:]) {
				t.Fatalf("%s: ControlBlock.RootHash = %x, reference %x", w, got, root)
			}
			var foreign *addrfmt.TapLeaf
			if n > 1 {
				foreign = &paths[(i+1+rapid.IntRange(0, n-2).Draw(t, "foreign"))%n].Leaf
			}
			checkLeafProof(t, w, internalKey, internalX, root, q32, parity, p.Leaf, p.Path, cb, foreign, n <= 3 || sample[i])
		}
	})
}
