package c16

import (
	"encoding/hex"
	"fmt"
	"strings"
	"testing"

	"github.com/btcsuite/btcd/address/v2"
	"github.com/btcsuite/btcd/btcutil/v2/hdkeychain"
	"pgregory.net/rapid"

	"verif/internal/ev"
	"verif/internal/model/addrfmt"
	"verif/internal/model/secp"
)

// ---------------------------------------------------------------------------
// objects with setters: a pay-to-pubkey address whose serialisation format can
// be switched (SetFormat), and extended keys whose network can be switched
// (SetNet). The encodings must follow the CURRENT setting after any history of
// reads and switches, and a switch on one object must not leak into other
// objects or into the registered network parameters.

var recMut = ev.New("C16", "setter-histories",
	"(a) AddressPubKey of a generated key and network: a generated sequence of 3-10 operations from {String, EncodeAddress, ScriptAddress, AddressPubKeyHash, Format, SetFormat(compressed/uncompressed)}; "+
		"oracle after every read: the reference serialisation of the key in the format set last (hex for String/ScriptAddress, Base58Check P2PKH of its hash160 for EncodeAddress/AddressPubKeyHash). "+
		"(b) extended keys: master from a generated seed on network A, 1-3 derived children and a neutered copy; a generated sequence of SetNet(B) calls on some of them and String reads on all; "+
		"oracle: every key serialises with the version bytes of the network set on IT last (reference BIP32 serialisation), a fresh NewMaster of the same seed on A still equals the reference, and the HD version bytes of every registered network are unchanged; "+
		"non-trivial = a read happened before a switch (a stale cache would show) or SetNet was applied to a derived/neutered key; distinct by history",
	"pubkey:read-switch-read", "pubkey:switch-only", "xkey:setnet-on-master-or-child", "xkey:setnet-on-neutered")

func TestSetterHistories(t *testing.T) {
	rapid.Check(t, func(t *rapid.T) {
		if rapid.Bool().Draw(t, "which") {
			pubKeyHistory(t)
		} else {
			xkeyHistory(t)
		}
	})
}

func pubKeyHistory(t *rapid.T) {
	net := genNet(t, "net")
	d := genScalar(t, "key")
	pt := addrfmt.BaseMul(d)
	ser := func(f address.PubKeyFormat) []byte {
		switch f {
		case address.PKFCompressed:
			return secp.SerializeCompressed(pt)
		}
		return secp.SerializeUncompressed(pt)
	}
	start := rapid.SampledFrom([]address.PubKeyFormat{address.PKFCompressed, address.PKFUncompressed}).Draw(t, "startFormat")
	a, err := address.NewAddressPubKey(ser(start), net.p)
	if err != nil {
		t.Fatalf("NewAddressPubKey(%x): %v", ser(start), err)
	}
	cur := start
	nops := rapid.IntRange(3, 10).Draw(t, "nops")
	var hist []string
	readBefore, switched, readAfterSwitch := false, false, false
	for i := 0; i < nops; i++ {
		op := rapid.SampledFrom([]string{"String", "EncodeAddress", "ScriptAddress", "AddressPubKeyHash", "Format", "SetFormat", "SetFormat"}).Draw(t, "op")
		want := ser(cur)
		wantAddr := addrfmt.Base58CheckEncode(net.m.P2PKH, addrfmt.Hash160(want))
		fail := func(got string, wantS string) {
			t.Fatalf("AddressPubKey history [%s] then %s: got %s, want %s (format set last: %d, network %s)", strings.Join(hist, " "), op, got, wantS, cur, net.m.Name)
		}
		switch op {
		case "String":
			if got := a.String(); got != hex.EncodeToString(want) {
				fail(got, hex.EncodeToString(want))
			}
		case "EncodeAddress":
			if got := a.EncodeAddress(); got != wantAddr {
				fail(got, wantAddr)
			}
		case "ScriptAddress":
			if got := hex.EncodeToString(a.ScriptAddress()); got != hex.EncodeToString(want) {
				fail(got, hex.EncodeToString(want))
			}
		case "AddressPubKeyHash":
			if got := a.AddressPubKeyHash().EncodeAddress(); got != wantAddr {
				fail(got, wantAddr)
			}
		case "Format":
			if got := a.Format(); got != cur {
				fail(fmt.Sprint(got), fmt.Sprint(cur))
			}
		case "SetFormat":
			cur = rapid.SampledFrom([]address.PubKeyFormat{address.PKFCompressed, address.PKFUncompressed}).Draw(t, "format")
			a.SetFormat(cur)
			op = fmt.Sprintf("SetFormat(%d)", cur)
		}
		if strings.HasPrefix(op, "SetFormat") {
			switched = switched || readBefore
		} else if op != "Format" {
			if switched {
				readAfterSwitch = true
			}
			readBefore = true
		}
		hist = append(hist, op)
	}
	cl := "pubkey:switch-only"
	if readAfterSwitch {
		cl = "pubkey:read-switch-read"
	}
	recMut.Case(readAfterSwitch, cl, ev.HashS(net.m.Name+d.String()+strings.Join(hist, ",")), func() any {
		return fmt.Sprintf("AddressPubKey on %s: %s", net.m.Name, strings.Join(hist, " "))
	})
}

func xkeyHistory(t *rapid.T) {
	a := genNet(t, "netA")
	seed := rapid.SliceOfN(rapid.Byte(), 16, 64).Draw(t, "seed")
	mm, merr := addrfmt.Master(seed, a.m.HDPriv)
	if merr != nil {
		return
	}
	master, err := hdkeychain.NewMaster(seed, a.p)
	if err != nil {
		t.Fatalf("NewMaster(%x, %s): %v", seed, a.m.Name, err)
	}
	type obj struct {
		name string
		k    *hdkeychain.ExtendedKey
		m    *addrfmt.XKey // reference key; Version is replaced by the version of the network set last
		net  tnet
		kind string
	}
	objs := []*obj{{"master", master, mm, a, "master"}}
	// children
	curK, curM := master, mm
	for i := 0; i < rapid.IntRange(1, 3).Draw(t, "children"); i++ {
		idx := genIndex(t, true)
		ck, err := curK.Derive(idx)
		cm, cerr := curM.CKDpriv(idx)
		if err != nil || cerr != nil {
			break
		}
		objs = append(objs, &obj{fmt.Sprintf("child%d", i), ck, cm, a, "child"})
		if rapid.Bool().Draw(t, "deeper") {
			curK, curM = ck, cm
		}
	}
	// a neutered copy of one of them
	src := objs[rapid.IntRange(0, len(objs)-1).Draw(t, "neuterOf")]
	nk, err := src.k.Neuter()
	if err != nil {
		t.Fatalf("Neuter(%s): %v", src.name, err)
	}
	objs = append(objs, &obj{"neutered-" + src.name, nk, src.m.Neuter(a.m.HDPub), a, "neutered"})

	want := func(o *obj) string {
		c := *o.m
		if c.Priv != nil {
			c.Version = o.net.m.HDPriv
		} else {
			c.Version = o.net.m.HDPub
		}
		return c.String()
	}
	var hist []string
	onDerived, onNeutered := false, false
	checkAll := func(after string) {
		for _, o := range objs {
			if got := o.k.String(); got != want(o) {
				t.Fatalf("extended key %s (network set on it last: %s) serialises as %s, reference %s\nafter: %s\nhistory: seed %x on %s; %s", o.name, o.net.m.Name, got, want(o), after, seed, a.m.Name, strings.Join(hist, " "))
			}
			if !o.k.IsForNet(o.net.p) {
				t.Fatalf("extended key %s: IsForNet(%s) = false although that network was set on it last\nhistory: %s", o.name, o.net.m.Name, strings.Join(hist, " "))
			}
		}
		fresh, err := hdkeychain.NewMaster(seed, a.p)
		if err != nil || fresh.String() != mm.String() {
			t.Fatalf("a fresh NewMaster(seed, %s) serialises as %v (err %v), reference %s\nafter: %s\nhistory: %s", a.m.Name, fresh, err, mm.String(), after, strings.Join(hist, " "))
		}
		for _, n := range nets {
			if n.p.HDPrivateKeyID != n.m.HDPriv || n.p.HDPublicKeyID != n.m.HDPub {
				t.Fatalf("registered parameters of %s changed: HD versions %x/%x, were %x/%x\nafter: %s\nhistory: %s", n.m.Name, n.p.HDPrivateKeyID, n.p.HDPublicKeyID, n.m.HDPriv, n.m.HDPub, after, strings.Join(hist, " "))
			}
		}
	}
	checkAll("construction")
	for i := 0; i < rapid.IntRange(1, 5).Draw(t, "nops"); i++ {
		o := objs[rapid.IntRange(0, len(objs)-1).Draw(t, "target")]
		b := genNet(t, "netB")
		o.k.SetNet(b.p)
		o.net = b
		step := fmt.Sprintf("%s.SetNet(%s)", o.name, b.m.Name)
		hist = append(hist, step)
		if o.kind == "neutered" {
			onNeutered = true
		} else {
			onDerived = true
		}
		checkAll(step)
	}
	cl := "xkey:setnet-on-master-or-child"
	if onNeutered && !onDerived {
		cl = "xkey:setnet-on-neutered"
	}
	if onNeutered {
		recMut.Count("xkey:setnet-on-neutered", 1)
	}
	recMut.Case(true, cl, ev.HashS(fmt.Sprintf("%x/%s/%s", seed, a.m.Name, strings.Join(hist, ","))), func() any {
		return fmt.Sprintf("seed %x on %s: %s", seed, a.m.Name, strings.Join(hist, " "))
	})
}
