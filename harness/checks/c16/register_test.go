package c16

import (
	"bytes"
	"fmt"
	"testing"

	"github.com/btcsuite/btcd/btcutil/v2/hdkeychain"
	"github.com/btcsuite/btcd/chaincfg/v2"
	"github.com/btcsuite/btcd/wire/v2"
	"pgregory.net/rapid"

	"verif/internal/ev"
)

// ---------------------------------------------------------------------------
// "every registered network": a registration that is REFUSED (the network magic
// is taken) must leave the registered networks as they were; extended keys of
// every registered network still neuter to the public version of that network,
// and the prefixes of the refused parameter set stay unknown.

var recRegister = ev.New("C16", "refused-registration",
	"histories of 1-4 chaincfg.Register calls with a parameter set whose network magic is already registered (copy of one of the ten networks) and whose other fields are generated: "+
		"HD private version of ANOTHER registered network paired with a foreign public version, brand-new HD versions, new address ids and a new bech32 prefix; each must return ErrDuplicateNet; "+
		"after every call, for all ten registered networks: HDPrivateKeyToPublicKeyID(private version) = public version, a fresh master key neuters to a key of the same network whose string decodes for that network, "+
		"and the brand-new HD version / address ids / prefix of the refused set are still unknown; "+
		"non-trivial = the refused set reuses a registered HD private version or brings new HD versions; distinct by generated parameter set",
	"reuses-registered-hd-private-version", "new-hd-versions", "new-address-ids")

func TestRefusedRegistration(t *testing.T) {
	rapid.Check(t, func(t *rapid.T) {
		usedHD := map[[4]byte]bool{}
		for _, n := range nets {
			usedHD[n.p.HDPrivateKeyID] = true
			usedHD[n.p.HDPublicKeyID] = true
		}
		fresh4 := func(label string) [4]byte {
			for {
				var v [4]byte
				copy(v[:], rapid.SliceOfN(rapid.Byte(), 4, 4).Draw(t, label))
				if !usedHD[v] {
					return v
				}
			}
		}
		for step := 0; step < rapid.IntRange(1, 4).Draw(t, "calls"); step++ {
			base := genNet(t, "magicOf")
			p := *base.p
			p.Name = fmt.Sprintf("verif-refused-%d", step)
			cl := "new-address-ids"
			var newPriv [4]byte
			haveNewPriv := false
			switch rapid.IntRange(0, 2).Draw(t, "hdKind") {
			case 0:
				other := genNet(t, "hdPrivOf")
				p.HDPrivateKeyID = other.p.HDPrivateKeyID
				p.HDPublicKeyID = fresh4("foreignPub")
				cl = "reuses-registered-hd-private-version"
			case 1:
				newPriv = fresh4("newPriv")
				haveNewPriv = true
				p.HDPrivateKeyID = newPriv
				p.HDPublicKeyID = fresh4("newPub")
				cl = "new-hd-versions"
			}
			newHRP := ""
			if rapid.Bool().Draw(t, "newHRP") {
				newHRP = "vr" + rapid.StringMatching("[a-z]{3,6}").Draw(t, "hrp")
				if knownHRPs[newHRP] {
					newHRP = ""
				} else {
					p.Bech32HRPSegwit = newHRP
				}
			}
			var newPKH byte
			havePKH := false
			if rapid.Bool().Draw(t, "newAddrID") {
				newPKH = rapid.Byte().Draw(t, "pkhID")
				if !chaincfg.IsPubKeyHashAddrID(newPKH) && !chaincfg.IsScriptHashAddrID(newPKH) {
					havePKH = true
					p.PubKeyHashAddrID = newPKH
				}
			}
			recRegister.Case(cl != "new-address-ids", cl, ev.HashS(fmt.Sprintf("%x %x %x %s %d %v", uint32(p.Net), p.HDPrivateKeyID, p.HDPublicKeyID, newHRP, newPKH, havePKH)), func() any {
				return fmt.Sprintf("magic of %s, HD %x/%x, hrp %q, pkh id %d (new: %v)", base.p.Name, p.HDPrivateKeyID, p.HDPublicKeyID, newHRP, newPKH, havePKH)
			})
			err := chaincfg.Register(&p)
			if err != chaincfg.ErrDuplicateNet {
				t.Fatalf("Register of a parameter set with the registered magic %v returned %v, want ErrDuplicateNet", wire.BitcoinNet(p.Net), err)
			}
			for _, n := range nets {
				priv, pub := n.p.HDPrivateKeyID, n.p.HDPublicKeyID
				got, err := chaincfg.HDPrivateKeyToPublicKeyID(priv[:])
				if err != nil || !bytes.Equal(got, pub[:]) {
					t.Fatalf("after a REFUSED Register (HD %x/%x with the magic of %s): the private version %x of registered network %s maps to public version %x (%v), want %x",
						p.HDPrivateKeyID, p.HDPublicKeyID, base.p.Name, priv, n.p.Name, got, err, pub)
				}
				seed := rapid.SliceOfN(rapid.Byte(), 16, 64).Draw(t, "seed")
				master, err := hdkeychain.NewMaster(seed, n.p)
				if err != nil {
					continue // unusable seed (documented)
				}
				neutered, err := master.Neuter()
				if err != nil {
					t.Fatalf("Neuter of a %s master key after a refused Register: %v", n.p.Name, err)
				}
				if !neutered.IsForNet(n.p) {
					t.Fatalf("after a REFUSED Register (HD %x/%x): the master key of %s neuters to %s, which is not a key of that network", p.HDPrivateKeyID, p.HDPublicKeyID, n.p.Name, neutered.String())
				}
				back, err := hdkeychain.NewKeyFromString(neutered.String())
				if err != nil || !back.IsForNet(n.p) || back.IsPrivate() {
					t.Fatalf("neutered key string %s of %s does not decode as a public key of that network (%v)", neutered.String(), n.p.Name, err)
				}
			}
			if haveNewPriv {
				if got, err := chaincfg.HDPrivateKeyToPublicKeyID(newPriv[:]); err != chaincfg.ErrUnknownHDKeyID {
					t.Fatalf("the HD version %x of a network whose registration was REFUSED resolves to %x (%v), want ErrUnknownHDKeyID", newPriv, got, err)
				}
			}
			if newHRP != "" && chaincfg.IsBech32SegwitPrefix(newHRP+"1") {
				t.Fatalf("the bech32 prefix %q of a network whose registration was REFUSED is known", newHRP)
			}
			if havePKH && chaincfg.IsPubKeyHashAddrID(newPKH) {
				t.Fatalf("the address id %d of a network whose registration was REFUSED is known", newPKH)
			}
		}
	})
}
