package c16

import (
	"bytes"
	"fmt"
	"strings"
	"testing"

	"github.com/btcsuite/btcd/address/v2/base58"
	"github.com/btcsuite/btcd/address/v2/bech32"
	"pgregory.net/rapid"

	"verif/internal/ev"
	"verif/internal/model/addrfmt"
)

// The codec layer under the address types: base58 / base58check and bech32 /
// bech32m with arbitrary HRPs, where the address-level generators only reach
// the HRPs of registered networks.

var recCodec = ev.New("C16", "codecs",
	"base58: byte strings of 0..80 bytes with runs of leading zero bytes -> Encode/Decode/CheckEncode/CheckDecode against the Bitcoin-wiki reference, and edited "+
		"strings (accept <=> reference, same bytes); bech32: HRP of 1..83 characters from 33..126 (upper-case letters, digits, symbols, '1' inside) x 0..80 data values "+
		"x both constants -> Encode/EncodeM equal the reference (lower-cased HRP), Decode/DecodeGeneric/DecodeNoLimit of the string, its upper-case form and 0..3 "+
		"edits agree with the BIP173/BIP350 reference (HRP, data, checksum version, 90-character limit); ConvertBits 8<->5 with and without padding against the "+
		"BIP173 convertbits; non-trivial = edited, HRP of 1 character, HRP containing '1', or total length >= 89; distinct by string",
	"base58", "base58:edited", "bech32:accept", "bech32:reject", "bech32:hrp-1-char", "bech32:hrp-has-separator", "bech32:len-90", "bech32:len-91", "convertbits")

func TestCodecs(t *testing.T) {
	rapid.Check(t, func(t *rapid.T) {
		switch rapid.IntRange(0, 9).Draw(t, "codec") {
		case 0, 1, 2:
			checkBase58(t)
		case 3:
			checkConvertBits(t)
		default:
			checkBech32(t)
		}
	})
}

func checkBase58(t *rapid.T) {
	n := rapid.IntRange(0, 80).Draw(t, "len")
	b := rapid.SliceOfN(rapid.Byte(), n, n).Draw(t, "bytes")
	z := rapid.IntRange(0, 6).Draw(t, "zeros")
	for i := 0; i < z && i < n; i++ {
		b[i] = 0
	}
	want := addrfmt.Base58Encode(b)
	nEdits := rapid.SampledFrom([]int{0, 0, 1, 2}).Draw(t, "edits")
	cur := want
	for i := 0; i < nEdits; i++ {
		cur, _, _ = applyEdit(t, cur)
	}
	cl := "base58"
	if cur != want {
		cl = "base58:edited"
	}
	recCodec.Case(cur != want || z > 0, cl, ev.HashS("b58"+cur), func() any { return fmt.Sprintf("base58 %x -> %s ; decoding %q", b, want, cur) })
	if got := base58.Encode(b); got != want {
		t.Fatalf("base58.Encode(%x) = %q, reference %q", b, got, want)
	}
	ver := rapid.Byte().Draw(t, "version")
	if got, w := base58.CheckEncode(b, ver), addrfmt.Base58CheckEncode(ver, b); got != w {
		t.Fatalf("base58.CheckEncode(%x, %#x) = %q, reference %q", b, ver, got, w)
	}
	// Decode: the documented result for an invalid character is the empty slice
	ref, ok := addrfmt.Base58Decode(cur)
	got := base58.Decode(cur)
	if ok && !bytes.Equal(got, ref) {
		t.Fatalf("base58.Decode(%q) = %x, reference %x", cur, got, ref)
	}
	if !ok && len(got) != 0 {
		t.Fatalf("base58.Decode(%q) = %x although the string has a character outside the alphabet", cur, got)
	}
	if ok && base58.Encode(got) != cur {
		t.Fatalf("base58.Encode(Decode(%q)) = %q", cur, base58.Encode(got))
	}
	// CheckDecode of the (possibly edited, possibly re-summed) check string
	cs := addrfmt.Base58CheckEncode(ver, b)
	for i := 0; i < nEdits; i++ {
		cs, _, _ = applyEdit(t, cs)
	}
	rd, rerr := addrfmt.Base58CheckDecodeRaw(cs)
	if rerr == nil && len(rd) < 1 {
		rerr = addrfmt.ErrB58Short // no version byte
	}
	payload, v, err := base58.CheckDecode(cs)
	if (err == nil) != (rerr == nil) {
		t.Fatalf("base58.CheckDecode(%q) err=%v, reference err=%v", cs, err, rerr)
	}
	if err == nil && (v != rd[0] || !bytes.Equal(payload, rd[1:])) {
		t.Fatalf("base58.CheckDecode(%q) = (%x, %#x), reference (%x, %#x)", cs, payload, v, rd[1:], rd[0])
	}
}

func checkConvertBits(t *rapid.T) {
	n := rapid.IntRange(0, 70).Draw(t, "len")
	b := rapid.SliceOfN(rapid.Byte(), n, n).Draw(t, "bytes")
	recCodec.Case(true, "convertbits", ev.Hash([]byte("cb"), b), func() any { return fmt.Sprintf("convertbits %x", b) })
	want5, _ := addrfmt.ConvertBits(b, 8, 5, true)
	got5, err := bech32.ConvertBits(b, 8, 5, true)
	if err != nil || !bytes.Equal(got5, want5) {
		t.Fatalf("ConvertBits(%x, 8, 5, pad) = %x %v, reference %x", b, got5, err, want5)
	}
	// back without padding: exact inverse
	back, err := bech32.ConvertBits(got5, 5, 8, false)
	if err != nil || !bytes.Equal(back, b) {
		t.Fatalf("ConvertBits(ConvertBits(%x)) = %x %v", b, back, err)
	}
	// arbitrary 5-bit groups: padding rules
	m := rapid.IntRange(0, 70).Draw(t, "groups")
	g := rapid.SliceOfN(rapid.ByteRange(0, 31), m, m).Draw(t, "values")
	if m > 0 && rapid.Bool().Draw(t, "zero-tail") {
		g[m-1] &= byte(0x1f << uint(rapid.IntRange(0, 5).Draw(t, "tail-zeros")))
	}
	want8, ok := addrfmt.ConvertBits(g, 5, 8, false)
	got8, err := bech32.ConvertBits(g, 5, 8, false)
	if (err == nil) != ok || (ok && !bytes.Equal(got8, want8)) {
		t.Fatalf("ConvertBits(%v, 5, 8, no pad) = %x %v, reference %x ok=%v", g, got8, err, want8, ok)
	}
}

func genHRP(t *rapid.T) string {
	n := rapid.OneOf(rapid.IntRange(1, 6), rapid.IntRange(1, 6), rapid.IntRange(1, 83), rapid.SampledFrom([]int{1, 82, 83})).Draw(t, "hrp-len")
	b := make([]byte, n)
	for i := range b {
		switch rapid.IntRange(0, 9).Draw(t, "hrp-char") {
		case 0:
			b[i] = '1'
		case 1:
			b[i] = byte(rapid.IntRange(33, 126).Draw(t, "c"))
		case 2:
			b[i] = byte(rapid.IntRange('0', '9').Draw(t, "c"))
		default:
			b[i] = byte(rapid.IntRange('a', 'z').Draw(t, "c"))
		}
	}
	return string(b)
}

func checkBech32(t *rapid.T) {
	hrp := genHRP(t)
	upperHRP := rapid.IntRange(0, 5).Draw(t, "upper-hrp") == 0
	// total length = len(hrp) + 1 + nData + 6; aim at the 90-character limit often
	maxData := 80
	nData := rapid.IntRange(0, maxData).Draw(t, "data-len")
	if rapid.IntRange(0, 2).Draw(t, "at-limit") == 0 && len(hrp) <= 82 {
		nData = 90 - len(hrp) - 7 + rapid.IntRange(-1, 1).Draw(t, "limit-delta")
		if nData < 0 {
			nData = 0
		}
	}
	data := rapid.SliceOfN(rapid.ByteRange(0, 31), nData, nData).Draw(t, "data")
	m := rapid.Bool().Draw(t, "bech32m")
	constant := addrfmt.Bech32Const
	if m {
		constant = addrfmt.Bech32mConst
	}
	lower := strings.ToLower(hrp)
	want := addrfmt.Bech32EncodeRaw(lower, data, constant)
	in := hrp
	if upperHRP {
		in = strings.ToUpper(hrp)
	}
	nEdits := rapid.SampledFrom([]int{0, 0, 0, 1, 1, 2, 3}).Draw(t, "edits")
	cur := want
	if rapid.IntRange(0, 4).Draw(t, "decode-upper") == 0 {
		cur = strings.ToUpper(cur)
	}
	for i := 0; i < nEdits; i++ {
		cur, _, _ = applyEdit(t, cur)
	}
	rh, rd, rc, rerr := addrfmt.Bech32Decode(cur, true)
	cl := "bech32:reject"
	if rerr == nil {
		cl = "bech32:accept"
	}
	recCodec.Case(cur != want || len(hrp) == 1 || strings.Contains(hrp, "1") || len(want) >= 89, cl, ev.HashS("bech"+cur), func() any {
		return fmt.Sprintf("hrp %q data %v const %#x -> %s ; decoding %q: %s", hrp, data, constant, want, cur, cl)
	})
	if len(hrp) == 1 {
		recCodec.Count("bech32:hrp-1-char", 1)
	}
	if strings.Contains(hrp, "1") {
		recCodec.Count("bech32:hrp-has-separator", 1)
	}
	switch len(cur) {
	case 90:
		recCodec.Count("bech32:len-90", 1)
	case 91:
		recCodec.Count("bech32:len-91", 1)
	}

	var got string
	var err error
	if m {
		got, err = bech32.EncodeM(in, data)
	} else {
		got, err = bech32.Encode(in, data)
	}
	if err != nil || got != want {
		t.Fatalf("bech32 encode(hrp %q, data %v, bech32m=%v) = %q %v, reference %q", in, data, m, got, err, want)
	}

	gh, gd, gv, gerr := bech32.DecodeGeneric(cur)
	if (gerr == nil) != (rerr == nil) {
		t.Fatalf("bech32.DecodeGeneric(%q) err=%v, reference err=%v", cur, gerr, rerr)
	}
	if gerr == nil {
		wantV := bech32.Version0
		if rc == addrfmt.Bech32mConst {
			wantV = bech32.VersionM
		}
		if gh != rh || !bytes.Equal(gd, rd) || gv != wantV {
			t.Fatalf("bech32.DecodeGeneric(%q) = (%q, %v, version %d), reference (%q, %v, const %#x)", cur, gh, gd, gv, rh, rd, rc)
		}
	}
	// Decode is the same without the version
	dh, dd, derr := bech32.Decode(cur)
	if (derr == nil) != (rerr == nil) || (derr == nil && (dh != rh || !bytes.Equal(dd, rd))) {
		t.Fatalf("bech32.Decode(%q) = (%q, %v, %v), reference (%q, %v, %v)", cur, dh, dd, derr, rh, rd, rerr)
	}
	// DecodeNoLimit differs only in the 90-character rule
	nh, nd, _, nlErr := addrfmt.Bech32Decode(cur, false)
	lh, ld, lerr := bech32.DecodeNoLimit(cur)
	if (lerr == nil) != (nlErr == nil) || (lerr == nil && (lh != nh || !bytes.Equal(ld, nd))) {
		t.Fatalf("bech32.DecodeNoLimit(%q) = (%q, %v, %v), reference (%q, %v, %v)", cur, lh, ld, lerr, nh, nd, nlErr)
	}
}
