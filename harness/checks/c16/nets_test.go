// Package c16 decides property C16: address / key / script-template encodings
// are bijective and network-separated. The oracle is the independent reference
// verif/internal/model/addrfmt (Base58Check, Bech32/Bech32m + segwit address
// rules, script templates, WIF, BIP32, BIP341), calibrated on specification
// vectors in /verif/corpus/c16.
package c16

import (
	"bytes"
	"encoding/hex"
	"fmt"
	"math/big"
	"os"
	"strings"
	"testing"

	"github.com/btcsuite/btcd/address/v2"
	"github.com/btcsuite/btcd/chaincfg/v2"
	"github.com/btcsuite/btcd/wire/v2"
	"pgregory.net/rapid"

	"verif/internal/ev"
	"verif/internal/model/addrfmt"
	"verif/internal/model/secp"
	"verif/internal/scratch"
)

func TestMain(m *testing.M) {
	if err := addrfmt.SelfCheck(); err != nil {
		fmt.Printf("VERIF-INFRA: addrfmt reference model disagrees with a specification vector: %v\n", err)
		os.Exit(3)
	}
	if err := registerSynthetic(); err != nil {
		fmt.Printf("VERIF-INFRA: cannot register synthetic networks: %v\n", err)
		os.Exit(3)
	}
	code := m.Run()
	scratch.Sweep()
	ev.Flush()
	os.Exit(code)
}

// tnet couples the reference view of a network with btcd's parameters.
type tnet struct {
	m         addrfmt.Net
	p         *chaincfg.Params
	synthetic bool
}

// The 30-character HRP of synthA makes 32-byte-program addresses exactly 90
// characters long (the BIP173 maximum); it mixes letters, digits and symbols.
const synthAHRP = "vrf-alpha_net.0234567890.abcde"

var (
	// synthA: prefixes that collide with no other network.
	synthA = addrfmt.Net{Name: "synthA", P2PKH: 0x2a, P2SH: 0x99, WIF: 0xd5, HRP: synthAHRP,
		HDPriv: [4]byte{0x04, 0xa1, 0xb2, 0xc3}, HDPub: [4]byte{0x04, 0xa1, 0xd4, 0xe5}}
	// synthB: every prefix collides with another network's prefix of a
	// different role (P2PKH = mainnet P2SH, P2SH = testnet P2PKH, WIF = mainnet
	// WIF, mainnet HD versions); its HRP contains the separator character.
	synthB = addrfmt.Net{Name: "synthB", P2PKH: 0x05, P2SH: 0x6f, WIF: 0x80, HRP: "b1c",
		HDPriv: addrfmt.MainNet.HDPriv, HDPub: addrfmt.MainNet.HDPub}
	// synthC: the same byte for P2PKH and P2SH (btcd documents
	// ErrAddressCollision for this configuration).
	synthC = addrfmt.Net{Name: "synthC", P2PKH: 0x30, P2SH: 0x30, WIF: 0xb0, HRP: "sc",
		HDPriv: addrfmt.TestNet3.HDPriv, HDPub: addrfmt.TestNet3.HDPub}
	// synthD: a one-character HRP (legal by BIP173: 1..83 characters); its base58
	// addresses begin with 'b' (P2PKH) and 't' (P2SH) so that their text can begin
	// with "bc1", "bcrt1", "tb1".
	synthD = addrfmt.Net{Name: "synthD", P2PKH: 0x55, P2SH: 0x7f, WIF: 0xcc, HRP: "x",
		HDPriv: addrfmt.TestNet3.HDPriv, HDPub: addrfmt.TestNet3.HDPub}

	nets      []tnet
	knownHRPs = map[string]bool{}
)

func synthParams(m addrfmt.Net, magic uint32) *chaincfg.Params {
	p := chaincfg.RegressionNetParams // copy
	p.Name = m.Name
	p.Net = wire.BitcoinNet(magic)
	p.PubKeyHashAddrID = m.P2PKH
	p.ScriptHashAddrID = m.P2SH
	p.PrivateKeyID = m.WIF
	p.Bech32HRPSegwit = m.HRP
	p.HDPrivateKeyID = m.HDPriv
	p.HDPublicKeyID = m.HDPub
	return &p
}

// registerSynthetic builds the network list and registers the synthetic
// networks (chaincfg.Register is process-global: once per process).
func registerSynthetic() error {
	if len(synthAHRP) != 30 {
		return fmt.Errorf("synthA HRP must be 30 characters")
	}
	nets = []tnet{
		{m: addrfmt.MainNet, p: &chaincfg.MainNetParams},
		{m: addrfmt.TestNet3, p: &chaincfg.TestNet3Params},
		{m: addrfmt.TestNet4, p: &chaincfg.TestNet4Params},
		{m: addrfmt.RegTest, p: &chaincfg.RegressionNetParams},
		{m: addrfmt.SimNet, p: &chaincfg.SimNetParams},
		{m: addrfmt.SigNet, p: &chaincfg.SigNetParams},
	}
	// signet is not registered by chaincfg's init; it shares all prefixes with
	// testnet, registering it changes nothing observable but keeps "every
	// registered network" literal.
	if err := chaincfg.Register(&chaincfg.SigNetParams); err != nil {
		return err
	}
	for i, m := range []addrfmt.Net{synthA, synthB, synthC, synthD} {
		p := synthParams(m, 0xc1600001+uint32(i))
		if err := chaincfg.Register(p); err != nil {
			return err
		}
		nets = append(nets, tnet{m: m, p: p, synthetic: true})
	}
	for _, n := range nets {
		knownHRPs[n.m.HRP] = true
	}
	return nil
}

// genNet draws one of the ten networks.
func genNet(t *rapid.T, label string) tnet {
	return nets[rapid.IntRange(0, len(nets)-1).Draw(t, label)]
}

// TestNetworkTables compares btcd's parameter tables of the real networks with
// the constants of Bitcoin Core's chainparams (a swapped or mistyped prefix is
// a network-separation defect that no round trip can see).
var recTables = ev.New("C16", "network-tables",
	"enumeration of the 6 real networks x 7 prefix fields against the constants of Bitcoin Core chainparams.cpp / btcd simnet docs; every entry is distinct and non-trivial")

func TestNetworkTables(t *testing.T) {
	n := int64(0)
	for _, tn := range nets {
		if tn.synthetic {
			continue
		}
		p, m := tn.p, tn.m
		chk := func(field string, got, want any) {
			n++
			if fmt.Sprint(got) != fmt.Sprint(want) {
				t.Errorf("%s.%s = %v, Bitcoin's value is %v", m.Name, field, got, want)
			}
		}
		chk("PubKeyHashAddrID", p.PubKeyHashAddrID, m.P2PKH)
		chk("ScriptHashAddrID", p.ScriptHashAddrID, m.P2SH)
		chk("PrivateKeyID", p.PrivateKeyID, m.WIF)
		chk("Bech32HRPSegwit", p.Bech32HRPSegwit, m.HRP)
		chk("HDPrivateKeyID", p.HDPrivateKeyID, m.HDPriv)
		chk("HDPublicKeyID", p.HDPublicKeyID, m.HDPub)
		pub, err := chaincfg.HDPrivateKeyToPublicKeyID(m.HDPriv[:])
		chk("HDPrivateKeyToPublicKeyID", fmt.Sprintf("%x %v", pub, err), fmt.Sprintf("%x <nil>", m.HDPub[:]))
		if !chaincfg.IsPubKeyHashAddrID(m.P2PKH) || !chaincfg.IsScriptHashAddrID(m.P2SH) || !chaincfg.IsBech32SegwitPrefix(m.HRP+"1") ||
			!chaincfg.IsBech32SegwitPrefix(strings.ToUpper(m.HRP)+"1") {
			t.Errorf("%s: prefix registry does not know the network's prefixes", m.Name)
		}
	}
	recTables.Bulk(n, n)
	recTables.Exhaustive()
}

// ---------------------------------------------------------------------------
// shared generators

// genBytes draws n bytes with a bias to all-zero / all-ff / leading zeros.
func genBytes(t *rapid.T, n int, label string) []byte {
	b := rapid.SliceOfN(rapid.Byte(), n, n).Draw(t, label)
	switch rapid.IntRange(0, 11).Draw(t, label+"-shape") {
	case 0:
		for i := range b {
			b[i] = 0
		}
	case 1:
		for i := range b {
			b[i] = 0xff
		}
	case 2: // leading zero bytes (base58 '1' run, bech32 'q' run)
		z := rapid.IntRange(1, n).Draw(t, label+"-zeros")
		for i := 0; i < z && i < n; i++ {
			b[i] = 0
		}
	}
	return b
}

// genScalar draws a secret key in [1, n-1] with boundary bias.
func genScalar(t *rapid.T, label string) *big.Int {
	var k *big.Int
	switch rapid.IntRange(0, 9).Draw(t, label+"-kind") {
	case 0:
		k = big.NewInt(int64(rapid.IntRange(1, 300).Draw(t, label+"-small")))
	case 1:
		k = new(big.Int).Sub(secp.N, big.NewInt(int64(rapid.IntRange(1, 300).Draw(t, label+"-top"))))
	case 2: // leading zero bytes
		z := rapid.IntRange(1, 20).Draw(t, label+"-lz")
		b := rapid.SliceOfN(rapid.Byte(), 32-z, 32-z).Draw(t, label+"-low")
		k = new(big.Int).SetBytes(b)
	default:
		k = new(big.Int).SetBytes(rapid.SliceOfN(rapid.Byte(), 32, 32).Draw(t, label))
	}
	k.Mod(k, secp.N)
	if k.Sign() == 0 {
		k.SetInt64(1)
	}
	return k
}

// pubFormats: SEC1 encodings of a point.
func serializePub(pt secp.Point, format int) []byte {
	switch format {
	case 0:
		return secp.SerializeCompressed(pt)
	case 1:
		return secp.SerializeUncompressed(pt)
	default: // hybrid
		b := secp.SerializeUncompressed(pt)
		b[0] = 6 + byte(pt.Y.Bit(0))
		return b
	}
}

// normalisedPub is what btcd's AddressPubKey keeps of an encoding: hybrid keys
// are stored as uncompressed ones (PKFUncompressed), the point is unchanged.
func normalisedPub(pt secp.Point, first byte) []byte {
	if first == 2 || first == 3 {
		return secp.SerializeCompressed(pt)
	}
	return secp.SerializeUncompressed(pt)
}

// ---------------------------------------------------------------------------
// comparing a btcd address with the reference meaning

// supportedSegwit lists what btcd's Address types can represent.
func supportedSegwit(ver byte, prog []byte) bool {
	switch {
	case ver == 0 && (len(prog) == 20 || len(prog) == 32):
		return true
	case ver == 1 && len(prog) == 32:
		return true
	case ver == 1 && len(prog) == 2 && prog[0] == 0x4e && prog[1] == 0x73:
		return true
	}
	return false
}

// canonical returns the canonical string of a reference meaning (what
// EncodeAddress must return) for default network def.
func canonical(d addrfmt.Decoded) string {
	switch d.Kind {
	case addrfmt.KindP2PKH, addrfmt.KindP2SH:
		return addrfmt.Base58CheckEncode(d.Version, d.Payload)
	case addrfmt.KindSegwit:
		s, _ := addrfmt.SegwitEncode(d.HRP, d.Version, d.Payload)
		return s
	case addrfmt.KindPubKey:
		return addrfmt.Base58CheckEncode(d.Version, addrfmt.Hash160(normalisedPub(d.Point, d.PubFmt)))
	}
	return ""
}

// sameAddress checks that btcd's address a has exactly the reference meaning d.
func sameAddress(a address.Address, d addrfmt.Decoded) error {
	if a == nil {
		return fmt.Errorf("nil address")
	}
	want := canonical(d)
	switch d.Kind {
	case addrfmt.KindP2PKH:
		x, ok := a.(*address.AddressPubKeyHash)
		if !ok {
			return fmt.Errorf("type %T, want *AddressPubKeyHash", a)
		}
		if !bytes.Equal(x.Hash160()[:], d.Payload) || !bytes.Equal(x.ScriptAddress(), d.Payload) {
			return fmt.Errorf("hash %x, want %x", x.ScriptAddress(), d.Payload)
		}
	case addrfmt.KindP2SH:
		x, ok := a.(*address.AddressScriptHash)
		if !ok {
			return fmt.Errorf("type %T, want *AddressScriptHash", a)
		}
		if !bytes.Equal(x.Hash160()[:], d.Payload) || !bytes.Equal(x.ScriptAddress(), d.Payload) {
			return fmt.Errorf("hash %x, want %x", x.ScriptAddress(), d.Payload)
		}
	case addrfmt.KindPubKey:
		x, ok := a.(*address.AddressPubKey)
		if !ok {
			return fmt.Errorf("type %T, want *AddressPubKey", a)
		}
		ser := normalisedPub(d.Point, d.PubFmt)
		if !bytes.Equal(x.ScriptAddress(), ser) {
			return fmt.Errorf("pubkey %x, want %x", x.ScriptAddress(), ser)
		}
		if x.String() != hex.EncodeToString(ser) {
			return fmt.Errorf("String() %s, want %x", x.String(), ser)
		}
		if !bytes.Equal(x.PubKey().SerializeUncompressed(), secp.SerializeUncompressed(d.Point)) {
			return fmt.Errorf("point differs")
		}
		if got := x.AddressPubKeyHash().EncodeAddress(); got != want {
			return fmt.Errorf("AddressPubKeyHash() %s, want %s", got, want)
		}
	case addrfmt.KindSegwit:
		var sw *address.AddressSegWit
		switch x := a.(type) {
		case *address.AddressWitnessPubKeyHash:
			if d.Version != 0 || len(d.Payload) != 20 {
				return fmt.Errorf("type %T for witness v%d/%d bytes", a, d.Version, len(d.Payload))
			}
			sw = &x.AddressSegWit
			if !bytes.Equal(x.Hash160()[:], d.Payload) {
				return fmt.Errorf("Hash160 %x", x.Hash160())
			}
		case *address.AddressWitnessScriptHash:
			if d.Version != 0 || len(d.Payload) != 32 {
				return fmt.Errorf("type %T for witness v%d/%d bytes", a, d.Version, len(d.Payload))
			}
			sw = &x.AddressSegWit
		case *address.AddressTaproot:
			if d.Version != 1 || len(d.Payload) != 32 {
				return fmt.Errorf("type %T for witness v%d/%d bytes", a, d.Version, len(d.Payload))
			}
			sw = &x.AddressSegWit
		case *address.AddressPayToAnchor:
			if d.Version != 1 || !bytes.Equal(d.Payload, []byte{0x4e, 0x73}) {
				return fmt.Errorf("type %T for witness v%d program %x", a, d.Version, d.Payload)
			}
		default:
			return fmt.Errorf("type %T for a segwit address", a)
		}
		if sw != nil && (sw.WitnessVersion() != d.Version || !bytes.Equal(sw.WitnessProgram(), d.Payload) || sw.Hrp() != d.HRP) {
			return fmt.Errorf("segwit (%s, v%d, %x), want (%s, v%d, %x)", sw.Hrp(), sw.WitnessVersion(), sw.WitnessProgram(), d.HRP, d.Version, d.Payload)
		}
		if !bytes.Equal(a.ScriptAddress(), d.Payload) {
			return fmt.Errorf("ScriptAddress %x, want %x", a.ScriptAddress(), d.Payload)
		}
	default:
		return fmt.Errorf("reference has no meaning")
	}
	if got := a.EncodeAddress(); got != want {
		return fmt.Errorf("EncodeAddress() = %q, reference encoding %q", got, want)
	}
	if d.Kind != addrfmt.KindPubKey && a.String() != want {
		return fmt.Errorf("String() = %q, reference encoding %q", a.String(), want)
	}
	return nil
}

// wantForNet is the reference IsForNet: an address belongs to every network
// that uses the same prefix for its kind (testnet3/4, signet share all).
func wantForNet(d addrfmt.Decoded, m addrfmt.Net) bool {
	switch d.Kind {
	case addrfmt.KindP2PKH, addrfmt.KindPubKey:
		return d.Version == m.P2PKH
	case addrfmt.KindP2SH:
		return d.Version == m.P2SH
	case addrfmt.KindSegwit:
		return d.HRP == m.HRP
	}
	return false
}

func checkForNet(a address.Address, d addrfmt.Decoded) error {
	for _, n := range nets {
		if got, want := a.IsForNet(n.p), wantForNet(d, n.m); got != want {
			return fmt.Errorf("IsForNet(%s) = %v, want %v", n.m.Name, got, want)
		}
	}
	return nil
}

// ---------------------------------------------------------------------------
// known-finding input classes (each predicate describes the failing inputs of
// one listed finding and nothing else)

const (
	kfV1Len20     = "segwit-v1-20-byte-program-decoded-as-p2wpkh"
	kfB58Prefix   = "base58-address-text-begins-with-segwit-prefix"
	kfOneCharHRP  = "segwit-hrp-of-one-character-not-decodable"
	kfComputeTail = "computepkscript-p2sh-sigscript-tail-looks-like-compressed-key"
)

// beginsWithSegwitPrefix: the text up to and including the last '1' is, case
// folded, "<hrp>1" of a known network with a HRP of at least two characters.
func beginsWithSegwitPrefix(s string) bool {
	i := strings.LastIndexByte(s, '1')
	return i > 1 && knownHRPs[strings.ToLower(s[:i])]
}
