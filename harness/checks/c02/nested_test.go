package c02

import (
	"fmt"
	"strings"
	"testing"

	"pgregory.net/rapid"

	ce "verif/internal/chainenv"
	"verif/internal/ev"
)

// ---------------------------------------------------------------------------
// nested manual invalidations. While two blocks of one path are invalidated at
// the same time Bitcoin Core and btcd differ on what ONE reconsider call
// restores (Core also clears the marks of ancestors), so nothing is asserted
// in between. Once every invalidated block has been reconsidered no block is
// excluded any more, in either reading: the tip must be the most-work valid
// chain again, and it must stay that way when the branches grow afterwards.

var recNested = ev.New("C02", "nested-invalidation",
	"a main chain and a side branch (all blocks valid, main strictly ahead in work, no ties); 2-4 blocks on ONE of the two paths are invalidated in a generated order (nested: ancestors and descendants at the same time) "+
		"and then all reconsidered in a generated order (nothing is asserted while some are still invalidated: the property does not fix what one reconsider call restores then); "+
		"oracle afterwards = the chain-selection model without any invalidation: active tip and all views; then the side branch and the main chain are extended alternately past each other, with the model's tip after every delivery; "+
		"non-trivial = every case (at least two nested invalidations); distinct by (tree, orders)",
	"on-side-branch", "on-main-chain")

func TestNestedInvalidation(t *testing.T) {
	rapid.Check(t, func(t *rapid.T) {
		tr := ce.NewTree(ce.FamFlat, ce.NewParams(ce.FamFlat, 1))
		ext := func(p *ce.Node, n int) []*ce.Node {
			var out []*ce.Node
			for i := 0; i < n; i++ {
				p = tr.Extend(p, ce.BlockOpt{})
				out = append(out, p)
			}
			return out
		}
		base := tr.Genesis
		if b := ext(base, rapid.IntRange(0, 2).Draw(t, "base")); len(b) > 0 {
			base = b[len(b)-1]
		}
		sideLen := rapid.IntRange(3, 6).Draw(t, "sideLen")
		mainLen := sideLen + rapid.IntRange(1, 3).Draw(t, "mainAhead")
		main := ext(base, mainLen)
		side := ext(base, sideLen)
		env, err := ce.NewEnv(tr.Params, ce.EnvOpt{UtxoCacheMaxSize: 1 << 20})
		if err != nil {
			t.Fatalf("VERIF-INFRA: %v", err)
		}
		defer env.Close()
		sel := ce.NewSel(tr)
		var hist []string
		deliver := func(n *ce.Node) {
			out := sel.DeliverBlock(n)
			_, _, err := env.Deliver(n)
			hist = append(hist, fmt.Sprintf("block(node%d)", n.Idx))
			if out.MustSucceed && err != nil {
				t.Fatalf("valid block node%d rejected: %v\nhistory: %s\ntree: %s", n.Idx, err, strings.Join(hist, " "), tr.Describe())
			}
			if err := ce.CheckTip(env, sel); err != nil {
				t.Fatalf("%v\nhistory: %s\ntree: %s", err, strings.Join(hist, " "), tr.Describe())
			}
		}
		for _, n := range tr.Nodes[1:] {
			deliver(n)
		}
		// nested invalidations on one path
		path := side
		cl := "on-side-branch"
		if rapid.Bool().Draw(t, "onMain") {
			path, cl = main, "on-main-chain"
		}
		k := rapid.IntRange(2, min(4, len(path))).Draw(t, "howMany")
		picks := rapid.Permutation(path).Draw(t, "picks")[:k]
		for _, n := range picks {
			h := n.Hash
			if err := env.Chain.InvalidateBlock(&h); err != nil {
				t.Fatalf("InvalidateBlock(node%d): %v\nhistory: %s", n.Idx, err, strings.Join(hist, " "))
			}
			hist = append(hist, fmt.Sprintf("invalidate(node%d)", n.Idx))
		}
		for _, n := range rapid.Permutation(picks).Draw(t, "reconsiderOrder") {
			h := n.Hash
			if err := env.Chain.ReconsiderBlock(&h); err != nil {
				t.Fatalf("ReconsiderBlock(node%d): %v\nhistory: %s", n.Idx, err, strings.Join(hist, " "))
			}
			hist = append(hist, fmt.Sprintf("reconsider(node%d)", n.Idx))
		}
		recNested.Case(true, cl, ev.HashS(tr.Describe()+strings.Join(hist, " ")), func() any {
			return map[string]any{"history": strings.Join(hist, " "), "tree": tr.Describe()}
		})
		// nothing is invalidated any more: the model never saw the manual calls
		if err := ce.CheckTip(env, sel); err != nil {
			t.Fatalf("after every invalidated block was reconsidered: %v\nhistory: %s\ntree: %s", err, strings.Join(hist, " "), tr.Describe())
		}
		if err := ce.CheckViews(env, sel); err != nil {
			t.Fatalf("after every invalidated block was reconsidered: %v\nhistory: %s\ntree: %s", err, strings.Join(hist, " "), tr.Describe())
		}
		// the branches grow past each other
		sTip, mTip := side[len(side)-1], main[len(main)-1]
		for round := 0; round < rapid.IntRange(1, 3).Draw(t, "rounds"); round++ {
			for sTip.WorkSum.Cmp(mTip.WorkSum) <= 0 {
				sTip = tr.Extend(sTip, ce.BlockOpt{})
				deliver(sTip)
			}
			if rapid.Bool().Draw(t, "mainAgain") {
				for mTip.WorkSum.Cmp(sTip.WorkSum) <= 0 {
					mTip = tr.Extend(mTip, ce.BlockOpt{})
					deliver(mTip)
				}
			}
		}
		if err := ce.CheckViews(env, sel); err != nil {
			t.Fatalf("%v\nhistory: %s\ntree: %s", err, strings.Join(hist, " "), tr.Describe())
		}
	})
}
