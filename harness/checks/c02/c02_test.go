// Package c02 decides property C02: the active chain is the most-work
// fully-valid chain whatever the delivery order, and all views agree.
package c02

import (
	"fmt"
	"os"
	"strings"
	"testing"
	"time"

	"pgregory.net/rapid"

	ce "verif/internal/chainenv"
	"verif/internal/ev"
	"verif/internal/scratch"
)

func TestMain(m *testing.M) {
	code := m.Run()
	scratch.Sweep()
	ev.Flush()
	os.Exit(code)
}

var recSel = ev.New("C02", "chain-selection",
	"block trees of 3-40 blocks on synthetic parameter families (flat / no-BIP34 / variable-work) with up to 3 invalid blocks (context-free, context, connect-invalid) at any depth and spending transactions; "+
		"delivery histories: tree order with out-of-order picks (orphans), duplicates, header-only and header-first deliveries, InvalidateBlock/ReconsiderBlock; in a third of the cases the node's network-adjusted clock runs 61-70 minutes ahead of its own; "+
		"oracle: sequential reference model of chain selection (most cumulative work among fully delivered valid chains, first-active wins ties) checked after every step, "+
		"all views (snapshot, height<->hash, membership, block bytes, chain tips) against the model and the notification stream folded from genesis; "+
		"non-trivial = the history caused a reorganisation, an orphan drain, a failed connect or a tip move by invalidate/reconsider; distinct by (tree, history) hash",
	"reorg", "orphan-drain", "invalid-block", "manual", "headers", "plain")

type caseStats struct {
	orphanDrains, invalid, manual, headers, nestedSkipped int
}

func runHistory(t *rapid.T, tr *ce.Tree, steps []ce.Step, opt ce.EnvOpt) (*ce.Sel, caseStats) {
	var st caseStats
	env, err := ce.NewEnv(tr.Params, opt)
	if err != nil {
		t.Fatalf("VERIF-INFRA: %v", err)
	}
	defer env.Close()
	// the node's network-adjusted clock may run ahead of its own clock (up to 70 minutes are accepted
	// from peers): nothing a delivery history does depends on which of the two clocks is read
	if rapid.IntRange(0, 2).Draw(t, "adjustedClockAhead") == 0 {
		env.Clock.Now = time.Now().Add(time.Duration(rapid.IntRange(61, 70).Draw(t, "minutesAhead")) * time.Minute)
	}
	sel := ce.NewSel(tr)
	hist := func(i int) string {
		var sb strings.Builder
		for j := 0; j <= i && j < len(steps); j++ {
			fmt.Fprintf(&sb, "%s ", steps[j])
		}
		sb.WriteString("\ntree: " + tr.Describe())
		return sb.String()
	}
	for i, s := range steps {
		n := s.Node
		switch s.Kind {
		case "block":
			out := sel.DeliverBlock(n)
			_, orphan, err := env.Deliver(n)
			if out.MustError && err == nil {
				t.Fatalf("step %d %s: accepted although %s\nhistory: %s", i, s, out.Why, hist(i))
			}
			if out.MustSucceed && err != nil {
				t.Fatalf("step %d %s: rejected with %v although %s\nhistory: %s", i, s, err, out.Why, hist(i))
			}
			if out.MustSucceed && orphan != out.IsOrphan {
				t.Fatalf("step %d %s: orphan=%v, model %v (%s)\nhistory: %s", i, s, orphan, out.IsOrphan, out.Why, hist(i))
			}
			if len(out.Drained) > 0 {
				st.orphanDrains++
			}
			if n.Self != ce.Valid {
				st.invalid++
			}
			// resolve storage status the property leaves open
			// (also when n itself is not open: the orphans it releases may be)
			resolveMurky(env, sel, tr)
			// no orphan may stay behind once its parent's data is stored
			for o := range sel.Orphan {
				if sel.Arrived[o.Parent] {
					t.Fatalf("VERIF-INFRA: step %d %s: model self-check: orphan node%d with arrived parent", i, s, o.Idx)
				}
			}
			for _, d := range out.Drained {
				h := d.Hash
				if env.Chain.IsKnownOrphan(&h) {
					t.Fatalf("step %d %s: node%d is still in the orphan pool although its parent node%d has been accepted\nhistory: %s", i, s, d.Idx, d.Parent.Idx, hist(i))
				}
			}
		case "header":
			st.headers++
			want := sel.DeliverHeader(n)
			_, err := env.DeliverHeader(n)
			if want != nil && *want && err != nil {
				t.Fatalf("step %d %s: header refused: %v\nhistory: %s", i, s, err, hist(i))
			}
			if want != nil && !*want && err == nil {
				t.Fatalf("step %d %s: header accepted although the model refuses it (orphan header, invalid header or invalidated branch)\nhistory: %s", i, s, hist(i))
			}
		case "invalidate", "reconsider":
			if !sel.InIndex(n) || sel.Murky[n] {
				continue
			}
			if s.Kind == "invalidate" && sel.ManualRelated(n) {
				st.nestedSkipped++
				continue
			}
			st.manual++
			h := n.Hash
			if s.Kind == "invalidate" {
				sel.Invalidate(n)
				_ = env.Chain.InvalidateBlock(&h)
			} else {
				sel.Reconsider(n)
				_ = env.Chain.ReconsiderBlock(&h)
			}
			resolveMurky(env, sel, tr)
		}
		if err := ce.CheckTip(env, sel); err != nil {
			t.Fatalf("step %d %s: %v\nhistory: %s", i, s, err, hist(i))
		}
		if err := ce.CheckViews(env, sel); err != nil {
			t.Fatalf("step %d %s: %v\nhistory: %s", i, s, err, hist(i))
		}
		got, err := ce.NotifFold(env, tr, tr.Genesis)
		if err != nil {
			t.Fatalf("step %d %s: %v\nhistory: %s", i, s, err, hist(i))
		}
		if got != sel.Tip {
			t.Fatalf("step %d %s: notification stream folds to node%d, active tip is node%d\nhistory: %s", i, s, got.Idx, sel.Tip.Idx, hist(i))
		}
	}
	return sel, st
}

// resolveMurky settles, from what the implementation reports, the storage
// status of nodes that the property leaves open (descendants of invalid or
// manually invalidated blocks): stored ones with a valid label chain count as
// arrived so that a later ReconsiderBlock is modelled correctly.
func resolveMurky(env *ce.Env, sel *ce.Sel, tr *ce.Tree) {
	for _, n := range tr.Nodes {
		if !sel.Murky[n] || !n.ChainValid {
			continue
		}
		h := n.Hash
		if env.Chain.IsKnownOrphan(&h) {
			continue
		}
		if have, _ := env.Chain.HaveBlock(&h); have && (sel.Arrived[n.Parent]) {
			sel.ResolvedArrived(n)
		}
	}
}

func treeHash(tr *ce.Tree, steps []ce.Step) uint64 {
	var parts [][]byte
	for _, n := range tr.Nodes {
		parts = append(parts, n.Hash[:])
	}
	var sb strings.Builder
	for _, s := range steps {
		sb.WriteString(s.String())
	}
	parts = append(parts, []byte(sb.String()))
	return ev.Hash(parts...)
}

func TestChainSelection(t *testing.T) {
	rapid.Check(t, func(t *rapid.T) {
		tr := ce.GenTree(t, ce.TreeCfg{
			Families:  []ce.Family{ce.FamFlat, ce.FamWork, ce.FamNoBIP34, ce.FamWork},
			MinBlocks: 3, MaxBlocks: ev.Scale(24, 40), MaxInvalid: 3, Txs: true, ForkProb: 30,
		})
		steps := ce.GenSequence(t, tr, ce.SeqCfg{
			Headers: rapid.Bool().Draw(t, "useHeaders"), Manual: rapid.IntRange(0, 2).Draw(t, "useManual") == 0,
			OutOfOrder: rapid.SampledFrom([]int{0, 10, 40}).Draw(t, "ooo%"), Duplicates: 10, ExtraSteps: 4,
		})
		cache := rapid.SampledFrom([]uint64{0, 1 << 10, 100 << 20}).Draw(t, "utxoCache")
		sel, st := runHistory(t, tr, steps, ce.EnvOpt{UtxoCacheMaxSize: cache})
		cl := "plain"
		switch {
		case sel.Reorgs > 0:
			cl = "reorg"
		case st.orphanDrains > 0:
			cl = "orphan-drain"
		case st.invalid > 0:
			cl = "invalid-block"
		case st.manual > 0:
			cl = "manual"
		case st.headers > 0:
			cl = "headers"
		}
		if st.orphanDrains > 0 {
			recSel.Count("with-orphan-drain", 1)
		}
		if st.manual > 0 {
			recSel.Count("with-manual", 1)
		}
		if st.headers > 0 {
			recSel.Count("with-headers", 1)
		}
		for i := 0; i < st.nestedSkipped; i++ {
			recSel.Excluded()
		}
		if sel.Ties > 0 {
			recSel.Count("with-tie", 1)
		}
		if st.invalid > 0 {
			recSel.Count("with-invalid-block", 1)
		}
		recSel.Case(cl != "plain" && cl != "headers", cl, treeHash(tr, steps), func() any {
			var ss []string
			for _, s := range steps {
				ss = append(ss, s.String())
			}
			return map[string]any{"family": tr.Family, "blocks": len(tr.Nodes) - 1, "history": strings.Join(ss, " "), "reorgs": sel.Reorgs, "final_tip": sel.Tip.Idx}
		})
	})
}

var recRecon = ev.New("C02", "reconsider-branches",
	"a block X with 2-4 descendant branches of different lengths/work next to an independent main branch M: everything is delivered, X is invalidated (tip must move to the best chain without X), M or another branch grows, X is reconsidered (tip must move to the most-work chain again including X); header-only tips and a connect-invalid block on one branch are mixed in; "+
		"oracle: chain-selection model + all view checks after every step; non-trivial = the reconsidered block has >= 2 descendant tips with different work; distinct by tree hash",
	"two-tips", "three-plus-tips", "with-header-tip", "with-invalid-branch")

func TestReconsiderBranches(t *testing.T) {
	rapid.Check(t, func(t *rapid.T) {
		fam := rapid.SampledFrom([]ce.Family{ce.FamFlat, ce.FamWork}).Draw(t, "family")
		tr := ce.NewTree(fam, ce.NewParams(fam, 1))
		ext := func(p *ce.Node, n int) *ce.Node {
			for i := 0; i < n; i++ {
				p = tr.Extend(p, ce.BlockOpt{Hard: fam == ce.FamWork && rapid.IntRange(0, 2).Draw(t, "hard") == 0, TimeDelta: 0})
			}
			return p
		}
		base := ext(tr.Genesis, rapid.IntRange(0, 2).Draw(t, "base"))
		m := ext(base, rapid.IntRange(1, 4).Draw(t, "mainLen"))
		x := ext(base, 1)
		stem := ext(x, rapid.IntRange(0, 2).Draw(t, "stem"))
		nb := rapid.IntRange(2, 4).Draw(t, "branches")
		var tips []*ce.Node
		invalidBranch := -1
		if rapid.IntRange(0, 3).Draw(t, "withInvalid") == 0 {
			invalidBranch = rapid.IntRange(0, nb-1).Draw(t, "invalidBranch")
		}
		for b := 0; b < nb; b++ {
			p := stem
			l := rapid.IntRange(1, 6).Draw(t, "branchLen")
			for i := 0; i < l; i++ {
				opt := ce.BlockOpt{Hard: fam == ce.FamWork && rapid.IntRange(0, 2).Draw(t, "hard") == 0}
				if b == invalidBranch && i == l/2 {
					opt.Break = "coinbase-overpay"
				}
				p = tr.Extend(p, opt)
			}
			tips = append(tips, p)
		}
		headerTip := rapid.IntRange(0, 2).Draw(t, "headerTip") == 0
		var hdrNodes []*ce.Node
		if headerTip {
			p := tips[rapid.IntRange(0, len(tips)-1).Draw(t, "hdrOn")]
			for i := 0; i < rapid.IntRange(1, 8).Draw(t, "hdrLen"); i++ {
				p = tr.Extend(p, ce.BlockOpt{})
				hdrNodes = append(hdrNodes, p)
			}
		}
		var steps []ce.Step
		isHdr := map[*ce.Node]bool{}
		for _, n := range hdrNodes {
			isHdr[n] = true
		}
		for _, n := range tr.Nodes[1:] {
			if isHdr[n] {
				steps = append(steps, ce.Step{Kind: "header", Node: n})
			} else {
				steps = append(steps, ce.Step{Kind: "block", Node: n})
			}
		}
		steps = append(steps, ce.Step{Kind: "invalidate", Node: x})
		// grow the main branch (or not) while X is out
		grow := rapid.IntRange(0, 3).Draw(t, "grow")
		p := m
		for i := 0; i < grow; i++ {
			p = tr.Extend(p, ce.BlockOpt{Hard: fam == ce.FamWork && rapid.Bool().Draw(t, "hardGrow")})
			steps = append(steps, ce.Step{Kind: "block", Node: p})
		}
		steps = append(steps, ce.Step{Kind: "reconsider", Node: x})
		if rapid.Bool().Draw(t, "again") {
			steps = append(steps, ce.Step{Kind: "invalidate", Node: tips[0]}, ce.Step{Kind: "reconsider", Node: tips[0]})
		}
		runHistory(t, tr, steps, ce.EnvOpt{UtxoCacheMaxSize: 1 << 20})
		cl := "two-tips"
		switch {
		case invalidBranch >= 0:
			cl = "with-invalid-branch"
		case headerTip:
			cl = "with-header-tip"
		case nb >= 3:
			cl = "three-plus-tips"
		}
		recRecon.Case(true, cl, treeHash(tr, steps), func() any { return map[string]any{"tree": tr.Describe(), "class": cl} })
	})
}
