package c04

import (
	"fmt"
	"runtime"
	"sync"
	"sync/atomic"
	"testing"

	"github.com/btcsuite/btcd/blockchain"
	"github.com/btcsuite/btcd/wire/v2"
	"pgregory.net/rapid"

	ce "verif/internal/chainenv"
	"verif/internal/ev"
)

// ---------------------------------------------------------------------------
// a utxo flush requested from another goroutine (the RPC server, a shutdown
// path, a timer) while blocks are being processed, then a stop without a final
// flush: whatever the interleaving, the flush marker must name the state that
// the flushed set reflects, so that the restart finds the set of the tip.

var recFlushRace = ev.New("C04", "flush-from-another-goroutine",
	"a generated valid tree (6-30 blocks, forks, transactions) is delivered with a utxo cache far larger than the set while 1-2 further goroutines call FlushUtxoCache(FlushRequired / FlushIfNeeded / FlushPeriodic) in a loop; "+
		"delivery stops after a generated prefix, the database is closed WITHOUT a final utxo flush and re-opened (optionally with a small cache); oracle: blockchain.New succeeds, the tip is the model's tip at the stop, "+
		"the utxo set equals the model fold of that chain for every outpoint of the workload, and the rest of the workload can be delivered afterwards ending on the model's final tip with the right set; "+
		"one-sided on timing: every interleaving must give this result; non-trivial = at least one concurrent flush completed while blocks were still being delivered; distinct by (tree, stop point, modes)",
	"flushes-overlapped-delivery", "no-overlap")

func TestFlushFromAnotherGoroutine(t *testing.T) {
	rapid.Check(t, func(t *rapid.T) {
		tr := ce.GenTree(t, ce.TreeCfg{Families: []ce.Family{ce.FamFlat, ce.FamNoBIP34}, MinBlocks: 6, MaxBlocks: ev.Scale(24, 40), MaxInvalid: 0, ForkProb: 15, Txs: true})
		universe := tr.Universe()
		env, err := ce.NewEnv(tr.Params, ce.EnvOpt{UtxoCacheMaxSize: 100 << 20})
		if err != nil {
			t.Fatalf("VERIF-INFRA: %v", err)
		}
		defer func() { env.Close() }()
		sel := ce.NewSel(tr)
		nodes := tr.Nodes[1:]
		stopAt := rapid.IntRange(2, len(nodes)).Draw(t, "stopAfter")
		flushers := rapid.IntRange(1, 2).Draw(t, "flushers")
		modes := make([]blockchain.FlushMode, flushers)
		for i := range modes {
			modes[i] = rapid.SampledFrom([]blockchain.FlushMode{blockchain.FlushRequired, blockchain.FlushRequired, blockchain.FlushIfNeeded, blockchain.FlushPeriodic}).Draw(t, "mode")
		}
		var stop int32
		var flushes, overlapped int64
		var delivering int32
		var wg sync.WaitGroup
		var flushErr atomic.Value
		for i := 0; i < flushers; i++ {
			wg.Add(1)
			go func(mode blockchain.FlushMode) {
				defer wg.Done()
				for atomic.LoadInt32(&stop) == 0 {
					during := atomic.LoadInt32(&delivering) != 0
					if err := env.Chain.FlushUtxoCache(mode); err != nil {
						flushErr.Store(err)
						return
					}
					atomic.AddInt64(&flushes, 1)
					if during {
						atomic.AddInt64(&overlapped, 1)
					}
					runtime.Gosched()
				}
			}(modes[i])
		}
		atomic.StoreInt32(&delivering, 1)
		for _, n := range nodes[:stopAt] {
			out := sel.DeliverBlock(n)
			if _, _, err := env.Deliver(n); err != nil && out.MustSucceed {
				atomic.StoreInt32(&stop, 1)
				wg.Wait()
				t.Fatalf("valid block node%d rejected while flushes run concurrently: %v\ntree: %s", n.Idx, err, tr.Describe())
			}
		}
		atomic.StoreInt32(&delivering, 0)
		atomic.StoreInt32(&stop, 1)
		wg.Wait()
		if e := flushErr.Load(); e != nil {
			t.Fatalf("FlushUtxoCache from another goroutine failed: %v\ntree: %s", e, tr.Describe())
		}
		cl := "no-overlap"
		if overlapped > 0 {
			cl = "flushes-overlapped-delivery"
		}
		desc := fmt.Sprintf("stop after %d of %d blocks, flush modes %v, %d flushes (%d started while delivering)", stopAt, len(nodes), modes, flushes, overlapped)
		recFlushRace.Case(overlapped > 0, cl, ev.HashS(tr.Describe()+fmt.Sprint(stopAt, modes)), func() any { return desc })
		if err := ce.CheckTip(env, sel); err != nil {
			t.Fatalf("before the stop: %v\n%s\ntree: %s", err, desc, tr.Describe())
		}
		// stop without a final flush, come back (sometimes with a small cache)
		if rapid.Bool().Draw(t, "smallCacheAfterRestart") {
			env.Opt.UtxoCacheMaxSize = rapid.SampledFrom([]uint64{0, 1 << 10, 4 << 10}).Draw(t, "restartCache")
		}
		if err := env.Reopen(false); err != nil {
			t.Fatalf("the node does not come up again after a stop without a final flush: %v\n%s\ntree: %s", err, desc, tr.Describe())
		}
		if err := ce.CheckTip(env, sel); err != nil {
			t.Fatalf("after the restart: %v\n%s\ntree: %s", err, desc, tr.Describe())
		}
		if err := ce.CheckUtxo(env, sel.Tip, universe); err != nil {
			t.Fatalf("after the restart (tip node%d): %v\n%s\ntree: %s", sel.Tip.Idx, err, desc, tr.Describe())
		}
		for _, n := range nodes[stopAt:] {
			out := sel.DeliverBlock(n)
			if _, _, err := env.Deliver(n); err != nil && out.MustSucceed {
				t.Fatalf("after the restart: valid block node%d rejected: %v\n%s\ntree: %s", n.Idx, err, desc, tr.Describe())
			}
		}
		if err := ce.CheckTip(env, sel); err != nil {
			t.Fatalf("after the rest of the workload: %v\n%s\ntree: %s", err, desc, tr.Describe())
		}
		if err := ce.CheckUtxo(env, sel.Tip, universe); err != nil {
			t.Fatalf("after the rest of the workload (tip node%d): %v\n%s\ntree: %s", sel.Tip.Idx, err, desc, tr.Describe())
		}
	})
}

// ---------------------------------------------------------------------------
// chains longer than anything the small trees reach: the block index is rebuilt
// from the database in key order on every start, and keys carry the height.

var recLongChain = ev.New("C04", "long-chain-restart",
	"a chain of 250-300 blocks (lengths drawn around 256: 254..258, and uniformly), a short side branch near the top, occasional transactions; stops with and without a final utxo flush at a generated height and at the end, "+
		"restart, the remaining blocks; oracle: blockchain.New succeeds, tip / height / utxo set (every outpoint of the workload) equal the model, every block of the active chain can be loaded, the side branch is still known; "+
		"non-trivial = the chain is at least 256 blocks long at a restart; distinct by (length, stop height, flush)",
	"restart-at-256+", "restart-below-256")

func TestLongChainRestart(t *testing.T) {
	rapid.Check(t, func(t *rapid.T) {
		params := ce.NewParams(ce.FamFlat, 1)
		tr := ce.NewTree(ce.FamFlat, params)
		length := rapid.OneOf(rapid.SampledFrom([]int{254, 255, 256, 257, 258}), rapid.IntRange(250, 300)).Draw(t, "length")
		stopAt := rapid.OneOf(rapid.SampledFrom([]int{255, 256, 257}), rapid.IntRange(200, length)).Draw(t, "stopAt")
		if stopAt > length {
			stopAt = length
		}
		flush := rapid.Bool().Draw(t, "flushAtStop")
		cache := rapid.SampledFrom([]uint64{100 << 20, 100 << 20, 4 << 10}).Draw(t, "utxoCache")
		tip := tr.Genesis
		var main []*ce.Node
		for i := 0; i < length; i++ {
			opt := ce.BlockOpt{TimeDelta: 2}
			if i%37 == 5 {
				if sp := ce.Spendable(tip.Utxo, tip.Height+1, 1); len(sp) > 0 {
					op := sp[rapid.IntRange(0, len(sp)-1).Draw(t, "spend")]
					v := tip.Utxo[op].Value
					opt.Txs = []*wire.MsgTx{ce.SpendTx(1, []wire.OutPoint{op}, []*wire.TxOut{{Value: v / 2, PkScript: ce.OpTrue}, {Value: v / 2, PkScript: ce.OpTrue}}, 0, 0xffffffff)}
				}
			}
			tip = tr.Extend(tip, opt)
			main = append(main, tip)
		}
		side := tr.Extend(main[length-3], ce.BlockOpt{TimeDelta: 3})
		universe := tr.Universe()
		env, err := ce.NewEnv(params, ce.EnvOpt{UtxoCacheMaxSize: cache})
		if err != nil {
			t.Fatalf("VERIF-INFRA: %v", err)
		}
		defer func() { env.Close() }()
		sel := ce.NewSel(tr)
		deliver := func(ns []*ce.Node) {
			for _, n := range ns {
				out := sel.DeliverBlock(n)
				if _, _, err := env.Deliver(n); err != nil && out.MustSucceed {
					t.Fatalf("VERIF-INFRA: valid block node%d (height %d) rejected: %v", n.Idx, n.Height, err)
				}
			}
		}
		check := func(when string) {
			if err := ce.CheckTip(env, sel); err != nil {
				t.Fatalf("%s: %v (chain length %d, stop at %d, flush %v, cache %d)", when, err, length, stopAt, flush, cache)
			}
			if err := ce.CheckUtxo(env, sel.Tip, universe); err != nil {
				t.Fatalf("%s (tip at height %d): %v (chain length %d, stop at %d, flush %v, cache %d)", when, sel.Tip.Height, err, length, stopAt, flush, cache)
			}
			for _, h := range []int32{0, 1, 127, 128, 255, 256, 257, sel.Tip.Height} {
				if h > sel.Tip.Height {
					continue
				}
				n := sel.Tip.Ancestor(h)
				hash := n.Hash
				if _, err := env.Chain.BlockByHash(&hash); err != nil {
					t.Fatalf("%s: active-chain block at height %d cannot be loaded: %v", when, h, err)
				}
				if got, err := env.Chain.BlockHashByHeight(h); err != nil || *got != n.Hash {
					t.Fatalf("%s: BlockHashByHeight(%d) = %v (%v), model node%d", when, h, got, err, n.Idx)
				}
			}
		}
		cl := "restart-below-256"
		if stopAt >= 256 {
			cl = "restart-at-256+"
		}
		recLongChain.Case(length >= 256, cl, ev.HashS(fmt.Sprint(length, stopAt, flush, cache)), func() any {
			return fmt.Sprintf("length %d, restart at height %d (final flush %v) and at the end, utxo cache %d", length, stopAt, flush, cache)
		})
		deliver(main[:stopAt])
		if err := env.Reopen(flush); err != nil {
			t.Fatalf("the node does not come up again with its tip at height %d (final flush %v): %v", stopAt, flush, err)
		}
		check(fmt.Sprintf("after the restart at height %d", stopAt))
		deliver(main[stopAt:])
		deliver([]*ce.Node{side})
		if err := env.Reopen(!flush); err != nil {
			t.Fatalf("the node does not come up again with its tip at height %d (final flush %v): %v", length, !flush, err)
		}
		check(fmt.Sprintf("after the restart at height %d", length))
		sh := side.Hash
		if have, err := env.Chain.HaveBlock(&sh); err != nil || !have {
			t.Fatalf("the side-branch block at height %d is unknown after the restart (%v)", side.Height, err)
		}
	})
}
