// Package c04 decides property C04: chain state recovers to a consistent,
// previously-active state after any crash.
//
// Crash model (process death, see DESIGN.md): the workload is re-executed
// from scratch for every crash point. A database wrapper counts durable
// commit boundaries (successful db.Update calls made by the chain); at
// boundary k the run is aborted by a panic that unwinds through btcd (all
// in-memory chain state - utxo cache, dirty index entries - is lost) and the
// database is closed in one of two ways:
//   - "prefix": ffldb's metadata cache is flushed (db.Close): exactly the
//     commits <= k are durable;
//   - "kill": ffldb is abandoned without flushing its cache (hook): leveldb
//     holds the metadata as of the last cache flush while the block files
//     hold everything written - what kill -9 leaves.
// The image is then opened with database.Open + blockchain.New. Recovery
// itself runs under the same wrapper, so crashes during recovery are
// enumerated too (second level).
package c04

import (
	"fmt"
	"os"
	"path/filepath"
	"strings"
	"testing"

	"github.com/btcsuite/btcd/blockchain"
	"github.com/btcsuite/btcd/chainhash/v2"
	"github.com/btcsuite/btcd/database"
	"github.com/btcsuite/btcd/database/ffldb"
	"github.com/btcsuite/btcd/wire/v2"
	"pgregory.net/rapid"

	ce "verif/internal/chainenv"
	"verif/internal/ev"
	"verif/internal/scratch"
)

func TestMain(m *testing.M) {
	code := m.Run()
	scratch.Sweep()
	ev.Flush()
	os.Exit(code)
}

type abortSentinel struct{ k int }

// countingDB counts successful Update calls (durable commit boundaries).
type countingDB struct {
	database.DB
	n       int
	abortAt int
	onCount func(k int) // called after commit k (reference run)
}

func (c *countingDB) Update(fn func(tx database.Tx) error) error {
	err := c.DB.Update(fn)
	if err == nil {
		c.n++
		if c.onCount != nil {
			c.onCount(c.n)
		}
		if c.n == c.abortAt {
			panic(abortSentinel{c.n})
		}
	}
	return err
}

type step struct {
	kind string // block, flush, dbflush, invalidate, reconsider
	node *ce.Node
	mode blockchain.FlushMode
}

func (s step) String() string {
	switch s.kind {
	case "flush":
		return fmt.Sprintf("flush(%d)", s.mode)
	case "dbflush":
		return "dbflush"
	}
	return fmt.Sprintf("%s(node%d)", s.kind, s.node.Idx)
}

type workload struct {
	extra    *ce.Node // one more valid block on top of the reference run's final tip
	tr       *ce.Tree
	steps    []step
	cache    uint64
	recCache uint64 // utxo cache size of the restarts after a crash
	prune    bool
	fileSize uint32
}

func (w *workload) String() string {
	var sb strings.Builder
	for _, s := range w.steps {
		sb.WriteString(s.String() + " ")
	}
	return fmt.Sprintf("cache=%d cacheAfterRestart=%d prune=%v fileSize=%d steps: %s\ntree: %s", w.cache, w.recCache, w.prune, w.fileSize, sb.String(), w.tr.Describe())
}

func (w *workload) envOpt(dir string, wrap func(database.DB) database.DB) ce.EnvOpt {
	o := ce.EnvOpt{UtxoCacheMaxSize: w.cache, Dir: dir, WrapDB: wrap, BlockFileSize: w.fileSize}
	if w.prune {
		o.Prune = uint64(w.fileSize) * 2
	}
	return o
}

// recOpt is envOpt for the restarts after a crash: the node may come back with
// another utxo cache size than it crashed with (a large cache lags far behind
// the tip, a small one makes the replay flush block by block).
func (w *workload) recOpt(dir string, wrap func(database.DB) database.DB) ce.EnvOpt {
	o := w.envOpt(dir, wrap)
	o.UtxoCacheMaxSize = w.recCache
	return o
}

// withFileSize runs fn with the block-file size limit of the workload.
func (w *workload) withFileSize(env *ce.Env, fn func()) { fn() } // the limit is set on the handle (EnvOpt.BlockFileSize)

func genWorkload(t *rapid.T) *workload {
	w := &workload{}
	w.prune = rapid.IntRange(0, 3).Draw(t, "prune") == 0
	if w.prune || rapid.Bool().Draw(t, "smallFiles") {
		w.fileSize = rapid.SampledFrom([]uint32{1024, 2048, 4096}).Draw(t, "fileSize")
	}
	forkProb, maxInvalid := 30, 1
	if w.prune {
		// reorganisations across pruned blocks cannot work by design: pruned
		// workloads are linear chains
		forkProb, maxInvalid = -1, 0
	}
	minB, maxB := 3, ev.Scale(10, 30)
	if w.prune {
		// enough blocks for several block files so that pruning really happens
		w.fileSize = 1024
		minB, maxB = 12, ev.Scale(20, 40)
	}
	w.tr = ce.GenTree(t, ce.TreeCfg{
		Families:  []ce.Family{ce.FamFlat, ce.FamNoBIP34, ce.FamWork},
		MinBlocks: minB, MaxBlocks: maxB, MaxInvalid: maxInvalid, Txs: true, ForkProb: forkProb, Maturity: []uint16{1, 2, 3},
	})
	w.cache = rapid.SampledFrom([]uint64{0, 1 << 10, 100 << 20}).Draw(t, "utxoCache")
	// the restarts use the same size, or the opposite extreme (a lagging large cache replayed
	// block by block with a tiny one, and the reverse)
	w.recCache = w.cache
	if rapid.IntRange(0, 2).Draw(t, "otherCacheAfterRestart") > 0 {
		w.recCache = rapid.SampledFrom([]uint64{0, 200, 400, 700, 1 << 10, 1500, 2 << 10, 4 << 10, 8 << 10, 100 << 20}).Draw(t, "utxoCacheAfterRestart")
		if w.cache == 100<<20 && rapid.Bool().Draw(t, "tinyAfterBig") {
			w.recCache = 1
		}
	}
	var delivered []*ce.Node
	for _, n := range w.tr.Nodes[1:] {
		if !stored(n) {
			continue
		}
		switch rapid.IntRange(0, 9).Draw(t, "between") {
		case 0:
			w.steps = append(w.steps, step{kind: "flush", mode: rapid.SampledFrom([]blockchain.FlushMode{blockchain.FlushRequired, blockchain.FlushPeriodic, blockchain.FlushIfNeeded}).Draw(t, "mode")})
		case 1, 2:
			w.steps = append(w.steps, step{kind: "dbflush"})
		}
		w.steps = append(w.steps, step{kind: "block", node: n})
		delivered = append(delivered, n)
	}
	return w
}

func stored(n *ce.Node) bool {
	for it := n; it != nil; it = it.Parent {
		if it.Self == ce.InvalidSanity || it.Self == ce.InvalidContext {
			return false
		}
	}
	return true
}

// exec applies one step to the chain and the model.
func (w *workload) exec(env *ce.Env, sel *ce.Sel, s step) {
	switch s.kind {
	case "block":
		sel.DeliverBlock(s.node)
		env.Deliver(s.node)
	case "flush":
		env.Chain.FlushUtxoCache(s.mode)
	case "dbflush":
		ffldb.VerifFlushCache(env.RawDB)
	case "invalidate", "reconsider":
		if !sel.InIndex(s.node) || sel.Murky[s.node] {
			return
		}
		h := s.node.Hash
		if s.kind == "invalidate" {
			if sel.ManualRelated(s.node) {
				return
			}
			sel.Invalidate(s.node)
			env.Chain.InvalidateBlock(&h)
		} else {
			sel.Reconsider(s.node)
			env.Chain.ReconsiderBlock(&h)
		}
	}
	for _, n := range w.tr.Nodes {
		if sel.Murky[n] && n.ChainValid && sel.Arrived[n.Parent] {
			h := n.Hash
			if have, _ := env.Chain.HaveBlock(&h); have && !env.Chain.IsKnownOrphan(&h) {
				sel.ResolvedArrived(n)
			}
		}
	}
}

// reference is what the uninterrupted run recorded.
type reference struct {
	boundaries   int
	stepOf       []int            // boundary k (1-based) -> step index
	bestAt       []chainhash.Hash // boundary k -> best-state hash persisted by commit <= k
	tipAfter     []*ce.Node       // step -> model tip after the step
	ackedAfter   []map[*ce.Node]bool
	dbflushAfter []int // step -> index of the last step (<= it) that was a dbflush, -1 if none
	final        *ce.Node
}

func readBestHash(db database.DB) (chainhash.Hash, bool) {
	var h chainhash.Hash
	ok := false
	db.View(func(tx database.Tx) error {
		v := tx.Metadata().Get([]byte("chainstate"))
		if len(v) >= 32 {
			copy(h[:], v[:32])
			ok = true
		}
		return nil
	})
	return h, ok
}

func runReference(t *rapid.T, w *workload) *reference {
	ref := &reference{stepOf: []int{-1}, bestAt: []chainhash.Hash{{}}}
	cur := -1
	var cdb *countingDB
	env, err := ce.NewEnv(w.tr.Params, w.envOpt("", func(db database.DB) database.DB {
		cdb = &countingDB{DB: db}
		cdb.onCount = func(k int) {
			ref.stepOf = append(ref.stepOf, cur)
			h, _ := readBestHash(db)
			ref.bestAt = append(ref.bestAt, h)
		}
		return cdb
	}))
	if err != nil {
		t.Fatalf("VERIF-INFRA: %v", err)
	}
	defer env.Close()
	// commits made while creating the chain belong to "step -1"
	sel := ce.NewSel(w.tr)
	acked := map[*ce.Node]bool{}
	lastDBFlush := -1
	w.withFileSize(env, func() {
		for i, s := range w.steps {
			cur = i
			w.exec(env, sel, s)
			if err := ce.CheckTip(env, sel); err != nil {
				t.Fatalf("reference run step %d %s: %v\n%s", i, s, err, w)
			}
			if s.kind == "block" {
				h := s.node.Hash
				if have, _ := env.Chain.HaveBlock(&h); have && !env.Chain.IsKnownOrphan(&h) {
					acked[s.node] = true
				}
			}
			if s.kind == "dbflush" {
				lastDBFlush = i
			}
			ref.tipAfter = append(ref.tipAfter, sel.Tip)
			cp := make(map[*ce.Node]bool, len(acked))
			for k := range acked {
				cp[k] = true
			}
			ref.ackedAfter = append(ref.ackedAfter, cp)
			ref.dbflushAfter = append(ref.dbflushAfter, lastDBFlush)
		}
	})
	ref.boundaries = cdb.n
	ref.final = sel.Tip
	return ref
}

// crashRun executes the workload until commit boundary k, aborts, closes the
// database in the given mode and returns the directory and the index of the
// step that was running.
func crashRun(t *rapid.T, w *workload, k int, kill bool) (dir string, atStep int) {
	atStep = -1
	env, err := ce.NewEnv(w.tr.Params, w.envOpt("", func(db database.DB) database.DB {
		return &countingDB{DB: db, abortAt: k}
	}))
	if err != nil {
		// the abort may hit while the chain is being created (k small)
		t.Fatalf("VERIF-INFRA: %v", err)
	}
	sel := ce.NewSel(w.tr)
	func() {
		defer func() {
			if r := recover(); r != nil {
				if _, ok := r.(abortSentinel); !ok {
					panic(r)
				}
			}
		}()
		w.withFileSize(env, func() {
			for i, s := range w.steps {
				atStep = i
				w.exec(env, sel, s)
			}
			atStep = len(w.steps)
		})
	}()
	if kill {
		if err := ffldb.VerifAbandon(env.RawDB); err != nil {
			t.Fatalf("VERIF-INFRA: abandon: %v", err)
		}
	} else {
		if err := env.RawDB.Close(); err != nil {
			t.Fatalf("closing the database after the abort failed: %v\n%s", err, w)
		}
	}
	env.RawDB, env.DB = nil, nil
	return env.Dir, atStep
}

func copyDir(src string) string {
	dst := scratch.Dir("img")
	err := filepath.Walk(src, func(p string, info os.FileInfo, err error) error {
		if err != nil {
			return err
		}
		rel, _ := filepath.Rel(src, p)
		target := filepath.Join(dst, rel)
		if info.IsDir() {
			return os.MkdirAll(target, 0o755)
		}
		data, err := os.ReadFile(p)
		if err != nil {
			return err
		}
		return os.WriteFile(target, data, 0o644)
	})
	if err != nil {
		panic(fmt.Sprintf("copyDir: %v", err))
	}
	return dst
}

// recover opens the image and checks every clause of the property that can
// be checked on it. abortAt > 0 aborts the recovery itself at its abortAt-th
// commit (second-level crash) and returns commits=-1.
func recoverAndCheck(t *rapid.T, w *workload, ref *reference, dir string, k, atStep int, kill bool, universe universeT, ctx string) (commits int) {
	var cdb *countingDB
	env, err := ce.NewEnv(w.tr.Params, w.recOpt(dir, func(db database.DB) database.DB {
		cdb = &countingDB{DB: db}
		return cdb
	}))
	if err != nil {
		// Known finding (DESIGN F9): pruning deletes block files as soon as the
		// pruning transaction commits, while the metadata of that commit (block
		// locations removed, write cursor) only reaches ffldb's in-memory cache;
		// a kill before the next cache flush leaves durable metadata that
		// points into deleted files.
		msg := err.Error()
		if w.prune && kill && (strings.Contains(msg, "checksum does not match") || strings.Contains(msg, "no such file or directory")) {
			if recCrash.Known("prune-kill-image-unopenable", ctx+": "+msg) {
				recCrash.Excluded()
				return -1
			}
		}
		t.Fatalf("%s: re-opening after the crash failed: %v\n%s", ctx, err, w)
	}
	defer env.CloseKeep()
	commits = cdb.n
	checkRecovered(t, w, ref, env, k, atStep, kill, universe, ctx)
	return commits
}

type universeT = []wire.OutPoint

func checkRecovered(t *rapid.T, w *workload, ref *reference, env *ce.Env, k, atStep int, kill bool, universe universeT, ctx string) {
	snap := env.Chain.BestSnapshot()
	tip := w.tr.ByHash[snap.Hash]
	if tip == nil {
		t.Fatalf("%s: recovered tip %v is not a block of the workload\n%s", ctx, snap.Hash, w)
	}
	// (1) the recovered chain was active before: ancestor-or-equal of a tip
	// made active no later than the end of the interrupted operation
	okTip := tip == w.tr.Genesis
	last := atStep
	if last >= len(ref.tipAfter) {
		last = len(ref.tipAfter) - 1
	}
	for j := 0; j <= last && !okTip; j++ {
		if tip.IsAncestorOf(ref.tipAfter[j]) {
			okTip = true
		}
	}
	if !okTip {
		t.Fatalf("%s: recovered tip node%d (height %d) was never part of an active chain up to step %d\n%s", ctx, tip.Idx, tip.Height, atStep, w)
	}
	// (1b) with everything durable the tip is exactly the best state of commit k
	if !kill && k < len(ref.bestAt) && ref.bestAt[k] != (chainhash.Hash{}) && snap.Hash != ref.bestAt[k] {
		t.Fatalf("%s: recovered tip node%d, but commit %d had persisted best state %v\n%s", ctx, tip.Idx, k, ref.bestAt[k], w)
	}
	if !tip.ChainValid {
		t.Fatalf("%s: recovered tip node%d is on an invalid chain\n%s", ctx, tip.Idx, w)
	}
	// (2) the utxo set is the fold of that chain
	if err := ce.CheckUtxo(env, tip, universe); err != nil {
		t.Fatalf("%s: after recovery to node%d: %v\n%s", ctx, tip.Idx, err, w)
	}
	if !w.prune {
		if err := ce.CheckSpendJournals(env, tip); err != nil {
			t.Fatalf("%s: after recovery to node%d: %v\n%s", ctx, tip.Idx, err, w)
		}
	}
	if snap.TotalTxns != tip.TotalTxns {
		t.Fatalf("%s: recovered TotalTxns %d, fold %d\n%s", ctx, snap.TotalTxns, tip.TotalTxns, w)
	}
	// (3) acknowledged blocks are known
	ackStep := atStep - 1
	if kill && ackStep >= 0 {
		// only what was acknowledged before the last metadata flush is durable
		ackStep = ref.dbflushAfter[min(ackStep, len(ref.dbflushAfter)-1)] - 1
	}
	if ackStep >= 0 && ackStep < len(ref.ackedAfter) && !w.prune {
		for n := range ref.ackedAfter[ackStep] {
			h := n.Hash
			if have, _ := env.Chain.HaveBlock(&h); !have {
				t.Fatalf("%s: block node%d was acknowledged at step <= %d (before the last durable commit) but is unknown after recovery\n%s", ctx, n.Idx, ackStep, w)
			}
			if n.IsAncestorOf(tip) {
				if _, err := env.Chain.BlockByHash(&h); err != nil {
					t.Fatalf("%s: active-chain block node%d cannot be loaded after recovery: %v\n%s", ctx, n.Idx, err, w)
				}
			}
		}
	}
}

var recCrash = ev.New("C04", "crash-recovery",
	"workloads of 3-30 block deliveries over generated trees (forks => reorganisations, one invalid block, re-created txids, variable work) with utxo flushes, ffldb metadata flushes, invalidate/reconsider, utxo cache in {0,1KiB,100MiB} while running and an independently drawn size (also 1 byte) for the restarts after a crash, block files of 1-4 KiB, pruning on/off; "+
		"for every durable commit boundary k of the workload (all of them: exhaustive per workload unless capped) the workload is re-executed, aborted at k, and the database closed as a prefix image (all commits <= k durable) and as a kill image (ffldb cache unflushed); "+
		"recovery (database.Open + blockchain.New) runs under the same commit counter and is itself aborted at each of its commits (second level); "+
		"oracle per image: opens; tip is ancestor-or-equal of a tip active no later than the interrupted operation (prefix image: exactly the best state of commit k); utxo set == fold(tip) incl. spend journals; blocks acknowledged before the last durable commit are known; "+
		"re-delivering the workload converges to the uninterrupted run's final work and utxo set; "+
		"non-trivial = image taken strictly inside a multi-commit operation, after an unflushed utxo change, during pruning, or during recovery; distinct by (workload, k, mode, level) hash",
	"inside-operation", "between-operations", "recovery-level2", "kill-image", "prune")

func TestCrashRecovery(t *testing.T) {
	rapid.Check(t, func(t *rapid.T) {
		w := genWorkload(t)
		if w.recCache != w.cache {
			recCrash.Count("restart-with-other-cache-size", 1)
			if w.cache == 100<<20 && w.recCache <= 1<<10 {
				recCrash.Count("restart-big-to-small-cache", 1)
			}
		}
		ref := runReference(t, w)
		hardExtra := false
		w.extra = w.tr.Extend(ref.final, ce.BlockOpt{Hard: hardExtra})
		universe := w.tr.Universe()
		// boundaries of chain creation are not interesting: start after them
		first := 1
		for first <= ref.boundaries && ref.stepOf[first] < 0 {
			first++
		}
		ks := []int{}
		for k := first; k <= ref.boundaries; k++ {
			ks = append(ks, k)
		}
		cap_ := ev.Scale(14, 200)
		exhaustive := len(ks) <= cap_
		if !exhaustive {
			// always keep the boundaries inside reorganisation steps (the tip
			// after the step is not a child of the tip before it) and those of
			// the last two steps; sample the rest
			var must, rest []int
			for _, k := range ks {
				st := ref.stepOf[k]
				reorgStep := false
				if st >= 0 && st < len(ref.tipAfter) {
					before := w.tr.Genesis
					if st > 0 {
						before = ref.tipAfter[st-1]
					}
					after := ref.tipAfter[st]
					reorgStep = after != before && after.Parent != before
				}
				if reorgStep || st >= len(w.steps)-2 {
					must = append(must, k)
				} else {
					rest = append(rest, k)
				}
			}
			if len(must) > cap_-2 {
				perm := rapid.Permutation(must).Draw(t, "sampledMust")
				must = perm[:cap_-2]
			}
			perm := rapid.Permutation(rest).Draw(t, "sampledBoundaries")
			ks = append(must, perm[:min(len(perm), cap_-len(must))]...)
		}
		level2 := ev.Scale(2, 8)
		wh := ev.HashS(w.String())
		for _, k := range ks {
			for _, kill := range []bool{false, true} {
				// every crash point restarts with a utxo cache size of its own (half of them keep the
				// workload's): sizes of a few entries make the replay flush in the middle only
				if rapid.IntRange(0, 3).Draw(t, "restartCachePerPoint") > 0 {
					w.recCache = rapid.SampledFrom([]uint64{0, 1, 200, 300, 400, 550, 700, 850, 1 << 10, 1300, 1500, 2 << 10, 3 << 10, 4 << 10, 8 << 10, 100 << 20}).Draw(t, "restartCache")
				} else {
					w.recCache = w.cache
				}
				dir, atStep := crashRun(t, w, k, kill)
				mode := "prefix"
				if kill {
					mode = "kill"
				}
				ctx := fmt.Sprintf("crash at commit %d/%d (step %d %s) %s image, restarts with utxo cache %d", k, ref.boundaries, atStep, stepName(w, atStep), mode, w.recCache)
				inside := k > first && ref.stepOf[k-1] == ref.stepOf[k] || k < ref.boundaries && ref.stepOf[k+1] == ref.stepOf[k]
				cl := "between-operations"
				switch {
				case w.prune:
					cl = "prune"
				case kill:
					cl = "kill-image"
				case inside:
					cl = "inside-operation"
				}
				recCrash.Case(true, cl, ev.Hash([]byte(fmt.Sprint(wh, k, kill))), func() any {
					return map[string]any{"workload": w.String(), "crash": ctx}
				})
				// second level first (needs pristine copies of the image)
				pristine := copyDir(dir)
				commits := recoverAndCheck(t, w, ref, dir, k, atStep, kill, universe, ctx)
				if commits < 0 {
					os.RemoveAll(pristine)
					os.RemoveAll(dir)
					continue
				}
				for _, j := range level2Points(commits, level2) {
					img := copyDir(pristine)
					abortRecovery(t, w, img, j, j%2 == 0, ctx)
					ctx2 := fmt.Sprintf("%s; recovery crashed at its commit %d/%d", ctx, j, commits)
					recCrash.Case(true, "recovery-level2", ev.Hash([]byte(fmt.Sprint(wh, k, kill, j))), func() any { return ctx2 })
					recoverAndCheck(t, w, ref, img, k, atStep, true, universe, ctx2)
					os.RemoveAll(img)
				}
				os.RemoveAll(pristine)
				// convergence: feed everything again on the recovered database
				converge(t, w, ref, dir, universe, ctx)
				os.RemoveAll(dir)
			}
		}
		if exhaustive {
			recCrash.Count("workloads-all-boundaries", 1)
		} else {
			recCrash.Count("workloads-capped", 1)
		}
	})
}

// level2Points picks which commits of a recovery are used as second-level
// crash points: first, last and evenly spread ones up to max.
func level2Points(commits, max int) []int {
	if commits <= 0 {
		return nil
	}
	if commits <= max {
		out := make([]int, commits)
		for i := range out {
			out[i] = i + 1
		}
		return out
	}
	out := []int{1}
	for i := 1; i < max-1; i++ {
		out = append(out, 1+i*(commits-1)/(max-1))
	}
	return append(out, commits)
}

// abortRecovery runs the recovery of an image and aborts it at its j-th
// commit, then closes the database (flushing or abandoning the ffldb cache).
func abortRecovery(t *rapid.T, w *workload, img string, j int, kill bool, ctx string) {
	var raw database.DB
	var env2 *ce.Env
	func() {
		defer func() {
			if r := recover(); r != nil {
				if _, ok := r.(abortSentinel); !ok {
					panic(r)
				}
			}
		}()
		var err error
		env2, err = ce.NewEnv(w.tr.Params, w.recOpt(img, func(db database.DB) database.DB {
			raw = db
			return &countingDB{DB: db, abortAt: j}
		}))
		if err != nil {
			t.Fatalf("%s, recovery to be aborted at its commit %d could not start: %v\n%s", ctx, j, err, w)
		}
	}()
	if raw == nil {
		return
	}
	if kill {
		ffldb.VerifAbandon(raw)
	} else {
		raw.Close()
	}
	if env2 != nil {
		env2.RawDB, env2.DB = nil, nil
	}
}

func stepName(w *workload, i int) string {
	if i < 0 || i >= len(w.steps) {
		return "-"
	}
	return w.steps[i].String()
}

func converge(t *rapid.T, w *workload, ref *reference, dir string, universe universeT, ctx string) {
	env, err := ce.NewEnv(w.tr.Params, w.envOpt(dir, nil))
	if err != nil {
		t.Fatalf("%s: re-opening for convergence failed: %v\n%s", ctx, err, w)
	}
	defer env.CloseKeep()
	w.withFileSize(env, func() {
		for _, s := range w.steps {
			switch s.kind {
			case "block":
				env.Deliver(s.node)
			case "invalidate":
				h := s.node.Hash
				env.Chain.InvalidateBlock(&h)
			case "reconsider":
				h := s.node.Hash
				env.Chain.ReconsiderBlock(&h)
			}
		}
	})
	snap := env.Chain.BestSnapshot()
	tip := w.tr.ByHash[snap.Hash]
	if tip == nil || !tip.ChainValid {
		t.Fatalf("%s: after re-delivering the workload the tip %v is not a valid workload block\n%s", ctx, snap.Hash, w)
	}
	want := ref.final
	if tip.WorkSum.Cmp(want.WorkSum) < 0 {
		// Known finding: a crash between the commit that stores a block and
		// the commit(s) that connect it leaves the block stored but not
		// connected; re-delivery is refused as a duplicate and nothing
		// activates the stored chain until a further block extends it.
		allStored := true
		for _, n := range want.Path() {
			h := n.Hash
			if have, _ := env.Chain.HaveBlock(&h); !have {
				allStored = false
			}
		}
		if allStored && tip.IsAncestorOf(want) || allStored && storedNotActive(env, tip, want) {
			if !recCrash.Known("stored-block-not-activated-after-crash", fmt.Sprintf("%s: tip node%d, uninterrupted run ends on node%d; every block of that chain is stored", ctx, tip.Idx, want.Idx)) {
				t.Fatalf("%s: after re-delivering the workload the tip is node%d (work %s); the uninterrupted run ends on node%d (work %s) although every block of that chain is stored\n%s",
					ctx, tip.Idx, tip.WorkSum, want.Idx, want.WorkSum, w)
			}
			recCrash.Excluded()
			// continue the search behind the finding: one further block on top
			// of the final chain must bring the node there
			if w.extra == nil {
				t.Fatalf("VERIF-INFRA: no extra block prepared")
			}
			env.Deliver(w.extra)
			snap = env.Chain.BestSnapshot()
			tip = w.tr.ByHash[snap.Hash]
			want = w.extra
			if tip == nil {
				t.Fatalf("%s: unknown tip after the extra block\n%s", ctx, w)
			}
		}
	}
	if tip.WorkSum.Cmp(want.WorkSum) != 0 {
		t.Fatalf("%s: after re-delivering the workload the tip is node%d (work %s); the uninterrupted run ends on node%d (work %s)\n%s",
			ctx, tip.Idx, tip.WorkSum, want.Idx, want.WorkSum, w)
	}
	if err := ce.CheckUtxo(env, tip, universe); err != nil {
		t.Fatalf("%s: after convergence: %v\n%s", ctx, err, w)
	}
}

// storedNotActive: the wanted chain forks off the recovered tip's chain and
// all of its blocks are stored (the interrupted operation was a reorganisation).
func storedNotActive(env *ce.Env, tip, want *ce.Node) bool {
	h := want.Hash
	return !env.Chain.MainChainHasBlock(&h)
}
