package c12

import (
	"fmt"
	"testing"
	"time"

	"github.com/btcsuite/btcd/btcutil/v2"
	"github.com/btcsuite/btcd/mempool"
	"github.com/btcsuite/btcd/mining"
	"pgregory.net/rapid"

	ce "verif/internal/chainenv"
	"verif/internal/ev"
	pe "verif/internal/poolenv"
)

// ---------------------------------------------------------------------------
// updating the template time on a network whose required difficulty depends
// on the block timestamp (testnet-style minimum-difficulty rule)

var recTime = ev.New("C12", "template-time-update",
	"parameter family 'work' (ReduceMinDifficulty: a block more than 20 s after its parent may use the minimum difficulty, otherwise the last non-minimum difficulty applies; "+
		"genesis 16x harder than the limit); a generated chain of 2-7 blocks of mixed difficulty; the clock is set d1 seconds after the tip (d1 around the 20 s threshold) and a template is generated, "+
		"then the clock advances by d2 and UpdateBlockTime is called; "+
		"oracle: after each step header time = max(clock, median time past + 1) and header bits = the difficulty the rule prescribes for THAT time (reference rule written from the parameter documentation), "+
		"CheckConnectBlockTemplate accepts, and the solved block becomes the tip; "+
		"non-trivial = the update crosses the threshold (difficulty changes between template and update); distinct by (chain shape, d1, d2)",
	"crosses-threshold", "stays-hard", "stays-easy")

const (
	workThreshold = 20 // MinDiffReductionTime of the family, seconds
)

func TestTemplateTimeUpdate(t *testing.T) {
	rapid.Check(t, func(t *rapid.T) {
		e, err := pe.New(pe.Config{Family: ce.FamWork, Maturity: 1,
			Policy: mempool.Policy{MaxTxVersion: 2, MaxOrphanTxs: 5, MaxOrphanTxSize: 100000, MaxSigOpCostPerTx: 20000},
			MPol:   mining.Policy{BlockMinWeight: 0, BlockMaxWeight: 4000000, BlockMinSize: 0, BlockMaxSize: 1000000, BlockPrioritySize: 0}, Blocks: 0})
		if err != nil {
			t.Fatalf("VERIF-INFRA: %v", err)
		}
		defer e.Close()
		nb := rapid.IntRange(2, 7).Draw(t, "blocks")
		shape := ""
		for i := 0; i < nb; i++ {
			hard := rapid.Bool().Draw(t, "hard")
			n := e.Tree.Extend(e.Sel.Tip, ce.BlockOpt{Hard: hard, PayScript: pe.P2PKH(0)})
			if err := e.Deliver(n); err != nil {
				t.Fatalf("VERIF-INFRA: base chain: %v", err)
			}
			shape += map[bool]string{true: "H", false: "e"}[hard]
		}
		tip := e.Tip()
		prevTime, mtp := tip.Time(), tip.MTP()
		// reference rule: minimum difficulty when the block is more than the threshold after its
		// parent, otherwise the difficulty of the most recent block that did not use the exception
		// (no retarget height within reach)
		wantBits := func(ts int64) uint32 {
			if ts > prevTime+workThreshold {
				return ce.WorkEasyBits
			}
			for n := tip; n != nil; n = n.Parent {
				if n.Msg.Header.Bits != ce.WorkEasyBits || n.Parent == nil {
					return n.Msg.Header.Bits
				}
			}
			return ce.WorkHardBits
		}
		effective := func(clock int64) int64 {
			if clock < mtp+1 {
				return mtp + 1
			}
			return clock
		}
		d1 := rapid.OneOf(rapid.Int64Range(15, 22), rapid.Int64Range(-30, 60)).Draw(t, "d1")
		d2 := rapid.OneOf(rapid.Int64Range(0, 8), rapid.Int64Range(0, 60)).Draw(t, "d2")
		t1, t2 := effective(prevTime+d1), effective(prevTime+d1+d2)
		b1, b2 := wantBits(t1), wantBits(t2)
		cl := "stays-hard"
		switch {
		case b1 != b2:
			cl = "crosses-threshold"
		case b2 == ce.WorkEasyBits:
			cl = "stays-easy"
		}
		recTime.Case(b1 != b2, cl, ev.HashS(fmt.Sprintf("%s/%d/%d", shape, d1, d2)), func() any {
			return map[string]any{"chain": shape, "d1": d1, "d2": d2, "bits_at_template": fmt.Sprintf("%#x", b1), "bits_after_update": fmt.Sprintf("%#x", b2)}
		})

		e.Clock.Now = time.Unix(prevTime+d1, 0)
		tmpl, err := e.Gen.NewBlockTemplate(nil)
		if err != nil {
			t.Fatalf("NewBlockTemplate on an empty pool failed: %v", err)
		}
		blk := tmpl.Block
		if got := blk.Header.Timestamp.Unix(); got != t1 {
			t.Fatalf("template time %d, want max(clock %d, median time past %d + 1) = %d (chain %s)", got, prevTime+d1, mtp, t1, shape)
		}
		if blk.Header.Bits != b1 {
			t.Fatalf("template bits %#x, the difficulty rule prescribes %#x for a block %d s after its parent (chain %s)", blk.Header.Bits, b1, t1-prevTime, shape)
		}
		if err := e.Chain.CheckConnectBlockTemplate(btcutil.NewBlock(blk)); err != nil {
			t.Fatalf("template rejected by CheckConnectBlockTemplate: %v", err)
		}
		e.Clock.Now = time.Unix(prevTime+d1+d2, 0)
		if err := e.Gen.UpdateBlockTime(blk); err != nil {
			t.Fatalf("UpdateBlockTime: %v", err)
		}
		if got := blk.Header.Timestamp.Unix(); got != t2 {
			t.Fatalf("time after UpdateBlockTime %d, want %d (clock %d, median time past %d)", got, t2, prevTime+d1+d2, mtp)
		}
		if blk.Header.Bits != b2 {
			t.Fatalf("bits after UpdateBlockTime %#x, the difficulty rule prescribes %#x for a block %d s after its parent (template was generated at %d s with bits %#x; chain %s)",
				blk.Header.Bits, b2, t2-prevTime, t1-prevTime, b1, shape)
		}
		if err := e.Chain.CheckConnectBlockTemplate(btcutil.NewBlock(blk)); err != nil {
			t.Fatalf("template invalid after UpdateBlockTime (time %d s after the parent, bits %#x): %v", t2-prevTime, blk.Header.Bits, err)
		}
		ce.Solve(&blk.Header, false)
		if _, orphan, err := e.Chain.ProcessBlock(btcutil.NewBlock(blk), 0); err != nil || orphan {
			t.Fatalf("solved template rejected by ProcessBlock after UpdateBlockTime: %v (orphan=%v)", err, orphan)
		}
		if snap := e.Chain.BestSnapshot(); snap.Hash != blk.Header.BlockHash() {
			t.Fatalf("solved template did not become the tip")
		}
	})
}
