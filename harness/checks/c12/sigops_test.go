package c12

import (
	"bytes"
	"fmt"
	"testing"

	"github.com/btcsuite/btcd/address/v2"
	"github.com/btcsuite/btcd/btcutil/v2"
	"github.com/btcsuite/btcd/mempool"
	"github.com/btcsuite/btcd/mining"
	"github.com/btcsuite/btcd/wire/v2"
	"pgregory.net/rapid"

	ce "verif/internal/chainenv"
	"verif/internal/ev"
	pe "verif/internal/poolenv"
)

// ---------------------------------------------------------------------------
// pools whose total signature-operation cost sits at the block limit

var recSigops = ev.New("C12", "template-sigop-boundary",
	"pool of 'heavy' legacy transactions (one P2PKH input, m P2PKH outputs: cost 4m) plus w spends of confirmed P2WPKH coins (cost 1 each) whose total cost T is drawn from 79980..80012; "+
		"pay-to address nil / P2PKH (the coinbase then costs 4) / P2WPKH; oracle: NewBlockTemplate succeeds (every pooled transaction was admitted on the current chain), the template's cost recomputed by an own counter "+
		"(legacy x4 + P2WPKH inputs) is <= 80000 and SigOpCosts agree, CheckConnectBlockTemplate accepts it, the solved block becomes the tip; "+
		"non-trivial = T + coinbase cost within 4 of the limit; distinct by (T, w, pay-to)",
	"fits-exactly", "one-over", "well-below", "well-above")

func TestTemplateSigopBoundary(t *testing.T) {
	rapid.Check(t, func(t *rapid.T) {
		pol := mempool.Policy{MaxTxVersion: 2, AcceptNonStd: rapid.Bool().Draw(t, "acceptNonStd"), FreeTxRelayLimit: 15, MaxOrphanTxs: 10, MaxOrphanTxSize: 100000, MaxSigOpCostPerTx: 20000, MinRelayTxFee: 1000}
		mpol := mining.Policy{BlockMinWeight: 0, BlockMaxWeight: 4000000, BlockMinSize: 0, BlockMaxSize: 1000000, BlockPrioritySize: 0, TxMinFreeFee: 1000}
		e, err := pe.New(pe.Config{Family: ce.FamFlat, Maturity: 1, Policy: pol, MPol: mpol, Blocks: 30})
		if err != nil {
			t.Fatalf("VERIF-INFRA: %v", err)
		}
		defer e.Close()
		coins := e.ConfirmedCoins(true)
		if len(coins) < 26 {
			t.Fatalf("VERIF-INFRA: %d confirmed coins", len(coins))
		}
		// confirmed P2WPKH coins for the witness spends
		w := rapid.IntRange(0, 7).Draw(t, "witnessSpends")
		var wcoins []pe.Coin
		if w > 0 {
			outs := make([]*wire.TxOut, w)
			for i := range outs {
				outs[i] = &wire.TxOut{Value: (coins[0].Value - 50000) / int64(w), PkScript: pe.P2WPKH(i % 3)}
			}
			fund := pe.BuildTx(2, []pe.Coin{coins[0]}, []uint32{0xffffffff}, outs, 0)
			if _, err := e.Mine([]*wire.MsgTx{fund}, 0); err != nil {
				t.Fatalf("VERIF-INFRA: mining the funding transaction: %v", err)
			}
			wcoins = pe.OutputsOf(fund)
		}
		target := rapid.IntRange(79980, 80012).Draw(t, "poolCost")
		legacy := target - w // must be a multiple of 4: round down
		legacy -= legacy % 4
		total := legacy + w
		submit := func(tx *wire.MsgTx, what string) {
			if acc, err := e.Pool.ProcessTransaction(btcutil.NewTx(tx), false, false, 0); err != nil || len(acc) != 1 {
				t.Fatalf("VERIF-INFRA: %s not admitted: %v", what, err)
			}
		}
		// heavy transactions: 1000 outputs (cost 4000) each, the last one takes the rest
		left := legacy / 4
		ci := 1
		poolCost := int64(0)
		for left > 0 {
			m := 1000
			if left < m {
				m = left
			}
			left -= m
			c := coins[ci]
			ci++
			outs := make([]*wire.TxOut, m)
			per := (c.Value - 200000) / int64(m)
			for i := range outs {
				outs[i] = &wire.TxOut{Value: per, PkScript: pe.P2PKH(i % 3)}
			}
			tx := pe.BuildTx(2, []pe.Coin{c}, []uint32{0xffffffff}, outs, 0)
			submit(tx, fmt.Sprintf("heavy transaction with %d outputs", m))
			poolCost += int64(4 * m)
		}
		for i, c := range wcoins {
			tx := pe.BuildTx(2, []pe.Coin{c}, []uint32{0xffffffff}, []*wire.TxOut{{Value: c.Value - 20000, PkScript: pe.P2WPKH((i + 1) % 3)}}, 0)
			submit(tx, "P2WPKH spend")
			poolCost++
		}
		if poolCost != int64(total) {
			t.Fatalf("VERIF-INFRA: pool cost %d, planned %d", poolCost, total)
		}
		var payTo address.Address
		cbCost := 0
		payKind := rapid.SampledFrom([]string{"nil", "p2pkh", "p2pkh", "p2wpkh"}).Draw(t, "payTo")
		switch payKind {
		case "p2pkh":
			payTo, _ = address.NewAddressPubKeyHash(address.Hash160(pe.Keys[0].PubKey().SerializeCompressed()), e.Params)
			cbCost = 4
		case "p2wpkh":
			payTo, _ = address.NewAddressWitnessPubKeyHash(address.Hash160(pe.Keys[1].PubKey().SerializeCompressed()), e.Params)
		}
		cl := "well-below"
		switch d := total + cbCost - 80000; {
		case d == 0:
			cl = "fits-exactly"
		case d > 0 && d <= 4:
			cl = "one-over"
		case d > 4:
			cl = "well-above"
		case d >= -4:
			cl = "fits-exactly"
		}
		recSigops.Case(total+cbCost >= 79996 && total+cbCost <= 80004, cl, ev.HashS(fmt.Sprintf("%d/%d/%s", total, w, payKind)), func() any {
			return map[string]any{"pool_cost": total, "witness_spends": w, "pay_to": payKind, "coinbase_cost": cbCost}
		})
		tmpl, err := e.Gen.NewBlockTemplate(payTo)
		if err != nil {
			t.Fatalf("NewBlockTemplate failed although every pooled transaction was admitted on the current chain (pool sigop cost %d = %d legacy + %d witness, pay-to %s costing %d): %v", total, legacy, w, payKind, cbCost, err)
		}
		blk := tmpl.Block
		// recompute the cost: legacy sigops of all scripts x4, plus one per P2WPKH input
		isW := map[wire.OutPoint]bool{}
		for _, c := range wcoins {
			isW[c.Op] = true
		}
		var cost int64
		for i, tx := range blk.Transactions {
			var c int64
			for _, in := range tx.TxIn {
				c += 4 * int64(legacySigOps(in.SignatureScript))
				if isW[in.PreviousOutPoint] {
					c++
				}
			}
			for _, o := range tx.TxOut {
				c += 4 * int64(legacySigOps(o.PkScript))
			}
			if i == 0 {
				c = 0
				for _, o := range tx.TxOut {
					c += 4 * int64(legacySigOps(o.PkScript))
				}
				c += 4 * int64(legacySigOps(tx.TxIn[0].SignatureScript))
			}
			if tmpl.SigOpCosts[i] != c {
				t.Fatalf("SigOpCosts[%d] = %d, recomputed %d", i, tmpl.SigOpCosts[i], c)
			}
			cost += c
		}
		if cost > 80000 {
			t.Fatalf("template sigop cost %d exceeds 80000 (pool %d, pay-to %s)", cost, total, payKind)
		}
		if err := e.Chain.CheckConnectBlockTemplate(btcutil.NewBlock(blk)); err != nil {
			t.Fatalf("template rejected by CheckConnectBlockTemplate (cost %d, pool %d, pay-to %s): %v", cost, total, payKind, err)
		}
		ce.Solve(&blk.Header, false)
		if _, orphan, err := e.Chain.ProcessBlock(btcutil.NewBlock(blk), 0); err != nil || orphan {
			t.Fatalf("solved template rejected by ProcessBlock: %v (orphan=%v)", err, orphan)
		}
		_ = bytes.Equal
	})
}
