// Package c12 decides property C12: generated block templates are always
// valid and correctly accounted.
package c12

import (
	"bytes"
	"fmt"
	"os"
	"strings"
	"testing"

	"github.com/btcsuite/btcd/address/v2"
	"github.com/btcsuite/btcd/btcutil/v2"
	"github.com/btcsuite/btcd/chainhash/v2"
	"github.com/btcsuite/btcd/mempool"
	"github.com/btcsuite/btcd/mining"
	"github.com/btcsuite/btcd/wire/v2"
	"pgregory.net/rapid"

	ce "verif/internal/chainenv"
	"verif/internal/ev"
	pe "verif/internal/poolenv"
	"verif/internal/scratch"
)

func TestMain(m *testing.M) {
	code := m.Run()
	scratch.Sweep()
	ev.Flush()
	os.Exit(code)
}

var recTmpl = ev.New("C12", "block-template",
	"the C10 environment (real chain, TxPool, netsync notification handler, BlkTmplGenerator) after a generated history of submissions (chains, fans, conflicts/replacements, witness and non-witness spends, zero-fee and high-fee transactions), mined blocks and reorganisations, so that the pool is a reachable state; "+
		"mining policies: BlockMaxWeight from a few transactions' worth to 4,000,000, BlockMinWeight/BlockMinSize, BlockMaxSize, BlockPrioritySize 0/small/large, TxMinFreeFee; pay-to address nil / P2PKH / P2WPKH; "+
		"oracle: NewBlockTemplate succeeds whenever every pooled tx was admitted on the current chain and the tip has not moved backwards; every tx comes after its in-template parents; weight <= min(policy, 4,000,000) and sigop cost <= 80,000 recomputed independently; "+
		"Fees[i]/SigOpCosts[i] equal values recomputed from the generator's coin bookkeeping and an own sigop counter; coinbase pays exactly model subsidy + sum of fees; witness commitment present iff a witness tx is included and equal to the model commitment; "+
		"UpdateBlockTime and UpdateExtraNonce keep CheckConnectBlockTemplate happy; the solved template is accepted by ProcessBlock as the new tip; "+
		"non-trivial = template contains a dependent pair, skipped a pooled tx for a limit, or carries a witness commitment; distinct by (pool, policy, tip) hash",
	"dependent-pair", "skipped-for-limit", "witness-commitment", "after-reorg", "plain")

// sigOpCost is an independent static counter for the script forms the
// generator produces (P2PKH, P2WPKH, anyone-can-spend, OP_RETURN data).
func legacySigOps(script []byte) int {
	n := 0
	for i := 0; i < len(script); {
		op := script[i]
		i++
		switch {
		case op >= 1 && op <= 75:
			i += int(op)
		case op == 76:
			if i < len(script) {
				i += 1 + int(script[i])
			}
		case op == 77:
			if i+1 < len(script) {
				i += 2 + int(script[i]) + int(script[i+1])<<8
			}
		case op == 0xac || op == 0xad:
			n++
		case op == 0xae || op == 0xaf:
			n += 20
		}
	}
	return n
}

func txSigOpCost(tx *wire.MsgTx, coins map[wire.OutPoint]pe.Coin, coinbase bool) int64 {
	legacy := 0
	for _, ti := range tx.TxIn {
		legacy += legacySigOps(ti.SignatureScript)
	}
	for _, o := range tx.TxOut {
		legacy += legacySigOps(o.PkScript)
	}
	cost := int64(legacy) * 4
	if coinbase {
		return cost
	}
	for _, ti := range tx.TxIn {
		c := coins[ti.PreviousOutPoint]
		if len(c.PkScript) == 22 && c.PkScript[0] == 0 && c.PkScript[1] == 20 {
			cost++ // P2WPKH spend
		}
	}
	return cost
}

type state struct {
	t       *rapid.T
	e       *pe.Env
	coins   map[wire.OutPoint]pe.Coin
	admitOK bool // every pooled tx admitted on the current chain, tip never moved backwards since
	hist    []string
	reorged bool
}

func (s *state) registerChainCoins() {
	for _, c := range s.e.ConfirmedCoins(false) {
		s.coins[c.Op] = c
	}
}

func (s *state) addKnown(tx *wire.MsgTx) {
	h := tx.TxHash()
	if _, ok := s.e.Known[h]; ok {
		return
	}
	s.e.Known[h] = tx
	s.e.Order = append(s.e.Order, tx)
	for _, c := range pe.OutputsOf(tx) {
		s.coins[c.Op] = c
	}
}

// submitSome submits k generated transactions: spends of confirmed coins,
// children of pooled transactions, replacements.
func (s *state) submitSome(k int) {
	t, e := s.t, s.e
	for i := 0; i < k; i++ {
		pooled := e.PoolTxs()
		spent := map[wire.OutPoint]bool{}
		for _, d := range pooled {
			for _, ti := range d.Tx.MsgTx().TxIn {
				spent[ti.PreviousOutPoint] = true
			}
		}
		var cands []pe.Coin
		kind := rapid.IntRange(0, 9).Draw(t, "txKind")
		switch {
		case kind <= 3: // confirmed, unspent by the pool
			for _, c := range e.ConfirmedCoins(true) {
				if !spent[c.Op] {
					cands = append(cands, c)
				}
			}
		case kind <= 7: // output of a pooled tx (dependency chains and fans)
			for _, d := range pooled {
				for _, c := range pe.OutputsOf(d.Tx.MsgTx()) {
					if !spent[c.Op] {
						cands = append(cands, c)
					}
				}
			}
		default: // conflict with a pooled tx (replacement attempt)
			for _, c := range e.ConfirmedCoins(true) {
				if spent[c.Op] {
					cands = append(cands, c)
				}
			}
		}
		if len(cands) == 0 {
			continue
		}
		nin := rapid.IntRange(1, min(2, len(cands))).Draw(t, "nin")
		var ins []pe.Coin
		used := map[wire.OutPoint]bool{}
		var total int64
		for len(ins) < nin {
			c := cands[pe.Uniform(t, len(cands), "coin")]
			if used[c.Op] {
				break
			}
			used[c.Op] = true
			ins = append(ins, c)
			total += c.Value
		}
		fee := rapid.SampledFrom([]int64{0, 0, 200, 1000, 5000, 50000, 2000000}).Draw(t, "fee")
		if fee > total {
			fee = 0
		}
		nout := rapid.IntRange(1, 3).Draw(t, "nout")
		rest := total - fee
		var outs []*wire.TxOut
		for j := 0; j < nout; j++ {
			v := rest / int64(nout-j)
			rest -= v
			script := pe.P2PKH((i + j) % 3)
			switch rapid.IntRange(0, 5).Draw(t, "outKind") {
			case 0:
				script = pe.P2WPKH(j % 3)
			case 1:
				script = pe.P2WPKH((i + 1) % 3)
			}
			outs = append(outs, &wire.TxOut{Value: v, PkScript: script})
		}
		seqs := make([]uint32, len(ins))
		for j := range seqs {
			seqs[j] = rapid.SampledFrom([]uint32{0xffffffff, 0xfffffffd, 0xffffffff, 0xfffffffd, 0xfffffffe, 0, 1, 3, 1<<22 | 1, 1<<31 | 7}).Draw(t, "seq")
		}
		// versions: consensus reads the version as unsigned when deciding whether relative locks
		// apply (negative versions are >= 2); a pool that accepts non-standard transactions lets them in.
		// lock times around the tip height and the median time past
		version := rapid.SampledFrom([]int32{1, 1, 2, 2, 1, 2, -1, -2147483648, 2147483647}).Draw(t, "version")
		tip := e.Tip()
		lockTime := rapid.SampledFrom([]uint32{0, 0, 0, 0, uint32(tip.Height), uint32(tip.Height + 1), uint32(tip.MTP()), uint32(tip.MTP() + 1), uint32(tip.MTP() + 1000)}).Draw(t, "lockTime")
		tx := pe.BuildTx(version, ins, seqs, outs, lockTime)
		s.addKnown(tx)
		acc, err := e.Pool.ProcessTransaction(btcutil.NewTx(tx), false, false, 0)
		s.hist = append(s.hist, fmt.Sprintf("submit %s kind=%d fee=%d -> accepted=%d err=%v", tx.TxHash().String()[:8], kind, fee, len(acc), err))
	}
}

func genMiningPolicy(t *rapid.T) mining.Policy {
	p := mining.Policy{
		BlockMaxWeight:    rapid.SampledFrom([]uint32{4000000, 4000000, 3000000, 6000, 3000, 1600}).Draw(t, "blockMaxWeight"),
		BlockMaxSize:      rapid.SampledFrom([]uint32{1000000, 750000, 2000}).Draw(t, "blockMaxSize"),
		BlockPrioritySize: rapid.SampledFrom([]uint32{0, 50000, 300, 1000000}).Draw(t, "blockPrioritySize"),
		TxMinFreeFee:      btcutil.Amount(rapid.SampledFrom([]int64{1000, 0, 10000}).Draw(t, "txMinFreeFee")),
	}
	p.BlockMinWeight = rapid.SampledFrom([]uint32{0, 0, 2000, p.BlockMaxWeight}).Draw(t, "blockMinWeight")
	p.BlockMinSize = rapid.SampledFrom([]uint32{0, 0, 500, p.BlockMaxSize}).Draw(t, "blockMinSize")
	return p
}

func TestBlockTemplate(t *testing.T) {
	rapid.Check(t, func(t *rapid.T) {
		mpol := genMiningPolicy(t)
		pol := mempool.Policy{MaxTxVersion: 2, AcceptNonStd: rapid.Bool().Draw(t, "acceptNonStd"), FreeTxRelayLimit: 15, MaxOrphanTxs: 100, MaxOrphanTxSize: 100000,
			MaxSigOpCostPerTx: 20000, MinRelayTxFee: btcutil.Amount(rapid.SampledFrom([]int64{1000, 0}).Draw(t, "minRelayTxFee")), DisableRelayPriority: rapid.Bool().Draw(t, "disableRelayPriority")}
		mat := rapid.SampledFrom([]uint16{1, 2}).Draw(t, "maturity")
		// "gates": the subsidy halves every 5 blocks (and the version gates switch on at heights 4/6/8), so that
		// templates are built for the first and the last block of a subsidy interval
		fam := rapid.SampledFrom([]ce.Family{ce.FamFlat, ce.FamGates}).Draw(t, "family")
		// now and then a chain whose next heights need a two-byte script number with a leading zero byte (128..)
		initial := int(mat) + rapid.IntRange(4, 8).Draw(t, "initialBlocks")
		if rapid.IntRange(0, 9).Draw(t, "tallChain") == 0 {
			initial = rapid.IntRange(122, 130).Draw(t, "tallBlocks")
			fam = ce.FamFlat // 25 halvings would leave no coins worth spending
		}
		e, err := pe.New(pe.Config{Family: fam, Maturity: mat, Policy: pol, MPol: mpol, Blocks: initial})
		if err != nil {
			t.Fatalf("VERIF-INFRA: %v", err)
		}
		defer e.Close()
		s := &state{t: t, e: e, coins: map[wire.OutPoint]pe.Coin{}, admitOK: true}
		s.registerChainCoins()
		rounds := rapid.IntRange(1, 3).Draw(t, "rounds")
		for r := 0; r < rounds; r++ {
			s.submitSome(rapid.IntRange(2, ev.Scale(10, 16)).Draw(t, "submissions"))
			switch rapid.IntRange(0, 5).Draw(t, "between") {
			case 5: // the tip is invalidated by hand: the chain shrinks by one block and nothing replaces it
				tip := e.Tip()
				if int(tip.Height) > int(mat)+3 && !e.Sel.ManualRelated(tip) {
					// the success clause speaks about transactions admitted on the current chain with the
					// tip not moving backwards since: start from an empty pool (the handler re-admits the
					// transactions of the disconnected block on the shorter chain)
					for _, d := range e.PoolTxs() {
						e.Pool.RemoveTransaction(d.Tx, true)
					}
					e.Sel.Invalidate(tip)
					h := tip.Hash
					if err := e.Chain.InvalidateBlock(&h); err != nil {
						t.Fatalf("InvalidateBlock(tip): %v", err)
					}
					if err := ce.CheckTip(e.Env, e.Sel); err != nil {
						t.Fatalf("after InvalidateBlock(tip): %v", err)
					}
					s.registerChainCoins()
					s.hist = append(s.hist, "tip invalidated by hand")
					recTmpl.Count("with-tip-invalidated", 1)
					// a few submissions right on the shortened chain
					s.submitSome(rapid.IntRange(1, 6).Draw(t, "afterInvalidate"))
				}
			case 0: // mine part of the pool
				all := pe.TopoOrder(e.PoolTxs())
				k := rapid.IntRange(0, len(all)).Draw(t, "minePrefix")
				n := e.Tree.Extend(e.Tip(), ce.BlockOpt{Txs: all[:k], PayScript: pe.P2PKH(r % 3)})
				if n.ChainValid && e.Chain.CheckConnectBlockTemplate(n.Block()) == nil {
					if err := e.Deliver(n); err != nil {
						t.Fatalf("%v", err)
					}
					s.registerChainCoins()
					s.hist = append(s.hist, fmt.Sprintf("mined %d pooled txs", k))
				}
			case 1: // reorganise one block deep onto a longer empty branch (equal height => tip does not move backwards)
				tip := e.Tip()
				if int(tip.Height) > int(mat)+3 {
					cur := tip.Parent
					var nodes []*ce.Node
					for i := 0; i < 2; i++ {
						cur = e.Tree.Extend(cur, ce.BlockOpt{PayScript: pe.P2PKH(i), TimeDelta: 2})
						nodes = append(nodes, cur)
					}
					for _, n := range nodes {
						if err := e.Deliver(n); err != nil {
							t.Fatalf("%v", err)
						}
					}
					// the success clause is about transactions admitted on the CURRENT chain: a pooled
					// transaction whose relative lock counted from a coin that the reorganisation
					// un-confirmed was admitted on another chain (that btcd keeps it pooled is C10's
					// listed finding) - it is taken out so that the precondition holds
					for _, d := range e.PoolTxs() {
						if pe.RelLockLostItsCoin(d.Tx.MsgTx(), tip.Utxo, e.Tip().Utxo) {
							e.Pool.RemoveTransaction(d.Tx, true)
							recTmpl.Count("precondition:removed-after-reorg", 1)
						}
					}
					s.registerChainCoins()
					s.reorged = true
					s.hist = append(s.hist, "reorganised 1 deep")
				}
			}
		}
		s.checkTemplate(mpol)
	})
}

func (s *state) fail(format string, a ...any) {
	s.t.Fatalf(format+"\nmining policy: %+v\nhistory:\n  %s", append(a, s.e.MPol, strings.Join(s.hist, "\n  "))...)
}

func (s *state) checkTemplate(mpol mining.Policy) {
	t, e := s.t, s.e
	var payTo address.Address
	switch rapid.IntRange(0, 2).Draw(t, "payTo") {
	case 1:
		payTo, _ = address.NewAddressPubKeyHash(address.Hash160(pe.Keys[0].PubKey().SerializeCompressed()), e.Params)
	case 2:
		payTo, _ = address.NewAddressWitnessPubKeyHash(address.Hash160(pe.Keys[1].PubKey().SerializeCompressed()), e.Params)
	}
	pool := map[chainhash.Hash]*mempool.TxDesc{}
	for _, d := range e.PoolTxs() {
		pool[*d.Tx.Hash()] = d
	}
	tip := e.Tip()
	tmpl, err := e.Gen.NewBlockTemplate(payTo)
	if err != nil {
		// every pooled tx was admitted on this chain or an ancestor state with
		// lower-or-equal height and median time (the generator never moves the
		// tip backwards), so generation must succeed
		s.fail("NewBlockTemplate failed although every pooled transaction was admitted on the current chain: %v", err)
	}
	blk := tmpl.Block
	if tmpl.Height != tip.Height+1 || blk.Header.PrevBlock != tip.Hash {
		s.fail("template height %d / prev %v, tip is node%d at height %d", tmpl.Height, blk.Header.PrevBlock, tip.Idx, tip.Height)
	}
	n := len(blk.Transactions)
	if len(tmpl.Fees) != n || len(tmpl.SigOpCosts) != n {
		s.fail("template has %d transactions, %d fee entries, %d sigop entries", n, len(tmpl.Fees), len(tmpl.SigOpCosts))
	}
	// ordering, membership, accounting
	pos := map[chainhash.Hash]int{}
	var totalFees, totalSigOps int64
	hasWitness, dependent := false, false
	for i, tx := range blk.Transactions {
		h := tx.TxHash()
		if _, dup := pos[h]; dup {
			s.fail("template lists transaction %s twice", h)
		}
		pos[h] = i
		cost := txSigOpCost(tx, s.coins, i == 0)
		if tmpl.SigOpCosts[i] != cost {
			s.fail("SigOpCosts[%d] = %d, independently counted %d (tx %s)", i, tmpl.SigOpCosts[i], cost, h)
		}
		totalSigOps += cost
		if i == 0 {
			continue
		}
		if _, ok := pool[h]; !ok {
			s.fail("template transaction %s is not in the pool", h)
		}
		if tx.HasWitness() {
			hasWitness = true
		}
		var in, out int64
		for _, ti := range tx.TxIn {
			if p, ok := pos[ti.PreviousOutPoint.Hash]; ok {
				if p >= i {
					s.fail("template lists %s before its parent", h)
				}
				dependent = true
			} else if _, pooledParent := pool[ti.PreviousOutPoint.Hash]; pooledParent {
				s.fail("template transaction %s (position %d) depends on pooled transaction %s which is not listed before it", h, i, ti.PreviousOutPoint.Hash)
			}
			c, ok := s.coins[ti.PreviousOutPoint]
			if !ok {
				s.fail("VERIF-INFRA: unknown coin %v", ti.PreviousOutPoint)
			}
			in += c.Value
		}
		for _, o := range tx.TxOut {
			out += o.Value
		}
		if tmpl.Fees[i] != in-out {
			s.fail("Fees[%d] = %d, recomputed %d (tx %s)", i, tmpl.Fees[i], in-out, h)
		}
		totalFees += in - out
	}
	if tmpl.Fees[0] != -totalFees {
		s.fail("Fees[0] = %d, want minus the sum of the included fees %d", tmpl.Fees[0], -totalFees)
	}
	var cbOut int64
	for _, o := range blk.Transactions[0].TxOut {
		cbOut += o.Value
	}
	if want := ce.Subsidy(tmpl.Height, e.Params) + totalFees; cbOut != want {
		s.fail("coinbase pays %d, subsidy + included fees = %d", cbOut, want)
	}
	// limits
	weight := int64(blk.SerializeSizeStripped()*3 + blk.SerializeSize())
	maxW := int64(mpol.BlockMaxWeight)
	if maxW > 4000000 {
		maxW = 4000000
	}
	if weight > 4000000 {
		s.fail("template weight %d exceeds the consensus limit", weight)
	}
	if n > 1 && weight > maxW {
		var ws []string
		for _, tx := range blk.Transactions {
			ws = append(ws, fmt.Sprint(tx.SerializeSizeStripped()*3+tx.SerializeSize()))
		}
		s.fail("template weight %d exceeds the configured BlockMaxWeight %d (tx weights %v, header+count %d)", weight, mpol.BlockMaxWeight, ws, 80*4+4)
	}
	if totalSigOps > 80000 {
		s.fail("template sigop cost %d exceeds 80000", totalSigOps)
	}
	// witness commitment
	// a template with witness transactions needs the commitment; a commitment
	// without witness transactions is allowed (and must still be correct)
	if hasWitness && len(tmpl.WitnessCommitment) == 0 {
		s.fail("witness transactions included but the template has no WitnessCommitment")
	}
	if len(tmpl.WitnessCommitment) > 0 {
		cb := blk.Transactions[0]
		if len(cb.TxIn[0].Witness) != 1 || len(cb.TxIn[0].Witness[0]) != 32 {
			s.fail("coinbase witness of a template with witness transactions is %x", cb.TxIn[0].Witness)
		}
		want := ce.WitnessCommitmentScript(blk.Transactions, cb.TxIn[0].Witness[0])
		found := false
		for i := len(cb.TxOut) - 1; i >= 0; i-- {
			if len(cb.TxOut[i].PkScript) >= 38 && bytes.HasPrefix(cb.TxOut[i].PkScript, want[:6]) {
				found = bytes.Equal(cb.TxOut[i].PkScript[:38], want)
				break
			}
		}
		if !found || !bytes.Equal(tmpl.WitnessCommitment, want[6:]) {
			s.fail("witness commitment of the template differs from the model commitment %x", want[6:])
		}
	}
	if ce.MerkleRoot(blk.Transactions) != blk.Header.MerkleRoot {
		s.fail("template merkle root differs from the model root")
	}
	// full validation (everything but the proof of work)
	if err := e.Chain.CheckConnectBlockTemplate(btcutil.NewBlock(blk)); err != nil {
		s.fail("template rejected by CheckConnectBlockTemplate: %v", err)
	}
	// updates keep it valid
	if err := e.Gen.UpdateBlockTime(blk); err != nil {
		s.fail("UpdateBlockTime: %v", err)
	}
	if err := e.Chain.CheckConnectBlockTemplate(btcutil.NewBlock(blk)); err != nil {
		s.fail("template invalid after UpdateBlockTime: %v", err)
	}
	en := rapid.Uint64().Draw(t, "extraNonce")
	if err := e.Gen.UpdateExtraNonce(blk, tmpl.Height, en); err != nil {
		s.fail("UpdateExtraNonce(%d): %v", en, err)
	}
	if err := e.Chain.CheckConnectBlockTemplate(btcutil.NewBlock(blk)); err != nil {
		s.fail("template invalid after UpdateExtraNonce(%d): %v", en, err)
	}
	// a miner keeps working on this template while the node hands out the next one (other
	// submissions in between): generating the second template must not disturb the first
	{
		var before, after bytes.Buffer
		if err := blk.Serialize(&before); err != nil {
			s.fail("VERIF-INFRA: serialize: %v", err)
		}
		s.submitSome(rapid.IntRange(0, 4).Draw(t, "betweenTemplates"))
		tmpl2, err := e.Gen.NewBlockTemplate(payTo)
		if err != nil {
			s.fail("second NewBlockTemplate failed although every pooled transaction was admitted on the current chain: %v", err)
		}
		if err := e.Chain.CheckConnectBlockTemplate(btcutil.NewBlock(tmpl2.Block)); err != nil {
			s.fail("second template rejected by CheckConnectBlockTemplate: %v", err)
		}
		if err := blk.Serialize(&after); err != nil {
			s.fail("VERIF-INFRA: serialize: %v", err)
		}
		if !bytes.Equal(before.Bytes(), after.Bytes()) {
			s.fail("generating a second template changed the first one (%d transactions in the first, %d in the second): its serialization differs", len(blk.Transactions), len(tmpl2.Block.Transactions))
		}
		if err := e.Chain.CheckConnectBlockTemplate(btcutil.NewBlock(blk)); err != nil {
			s.fail("the first template is no longer valid after a second one was generated: %v", err)
		}
		if len(tmpl2.Block.Transactions) != len(blk.Transactions) {
			recTmpl.Count("second-template-differs", 1)
		}
	}
	// solve and submit: the block must become the new tip
	ce.Solve(&blk.Header, false)
	_, orphan, err := e.Chain.ProcessBlock(btcutil.NewBlock(blk), 0)
	if err != nil || orphan {
		s.fail("solved template rejected by ProcessBlock: %v (orphan=%v)", err, orphan)
	}
	if snap := e.Chain.BestSnapshot(); snap.Hash != blk.Header.BlockHash() {
		s.fail("solved template did not become the tip")
	}
	skipped := len(pool) - (n - 1)
	cl := "plain"
	switch {
	case s.reorged:
		cl = "after-reorg"
	case skipped > 0 && n > 1:
		cl = "skipped-for-limit"
	case dependent:
		cl = "dependent-pair"
	case hasWitness:
		cl = "witness-commitment"
	}
	if dependent {
		recTmpl.Count("with-dependent-pair", 1)
	}
	if hasWitness {
		recTmpl.Count("with-witness-commitment", 1)
	}
	if skipped > 0 {
		recTmpl.Count("with-skipped", 1)
	}
	recTmpl.Case(cl != "plain", cl, ev.Hash(blk.Header.MerkleRoot[:], []byte(fmt.Sprint(mpol))), func() any {
		return map[string]any{"pool": len(pool), "in_template": n - 1, "weight": weight, "sigops": totalSigOps, "fees": totalFees, "policy": fmt.Sprintf("%+v", mpol), "class": cl}
	})
}
