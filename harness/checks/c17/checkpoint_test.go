package c17

import (
	"fmt"
	"testing"

	"github.com/btcsuite/btcd/chaincfg/v2"
	"github.com/btcsuite/btcd/chainhash/v2"
	"pgregory.net/rapid"

	ce "verif/internal/chainenv"
	"verif/internal/ev"
)

// ---------------------------------------------------------------------------
// "delivering headers before blocks leads to the same final chain as delivering
// the blocks alone" on a node that runs with caller-defined checkpoints: a pure
// differential between two deliveries of the same tree (no model of the
// checkpoint rules is needed).

var recCkpt = ev.New("C17", "delivery-equivalence-with-checkpoints",
	"main chain of 3-9 blocks with a caller-defined checkpoint on one of them; a competing branch that forks below, at or above the checkpoint height and would have more work; two fresh chains: blocks only, and "+
		"headers first (each through ProcessBlockHeader with skipCheckpoint drawn true/false) followed by the same blocks in the same order; the order interleaves the two branches in a generated way; "+
		"oracle: both runs end on the same tip, and the checkpointed block is on it once the chain is that high; non-trivial = the competing branch contains a block at the checkpoint height; distinct by the shape",
	"fork-crosses-checkpoint", "fork-above-checkpoint")

func TestDeliveryEquivalenceWithCheckpoints(t *testing.T) {
	rapid.Check(t, func(t *rapid.T) {
		params := ce.NewParams(ce.FamFlat, 1)
		tr := ce.NewTree(ce.FamFlat, params)
		tr.NoUtxo = true
		k := rapid.IntRange(3, 9).Draw(t, "mainLen")
		var main []*ce.Node
		n := tr.Genesis
		for i := 0; i < k; i++ {
			n = tr.Extend(n, ce.BlockOpt{TimeDelta: 2})
			main = append(main, n)
		}
		c := rapid.IntRange(1, k).Draw(t, "checkpointHeight")
		forkParent := tr.Genesis
		if fh := rapid.IntRange(0, k-1).Draw(t, "forkBelowHeight"); fh > 0 {
			forkParent = main[fh-1]
		}
		var side []*ce.Node
		s := forkParent
		for s.Height <= int32(k)+int32(rapid.IntRange(0, 2).Draw(t, "sideBeyond")) {
			s = tr.Extend(s, ce.BlockOpt{TimeDelta: 3})
			side = append(side, s)
		}
		crosses := forkParent.Height < int32(c)
		// one interleaved order for both runs
		var order []*ce.Node
		mi, si := 0, 0
		for mi < len(main) || si < len(side) {
			if si >= len(side) || (mi < len(main) && rapid.Bool().Draw(t, "nextFromMain")) {
				order = append(order, main[mi])
				mi++
			} else {
				order = append(order, side[si])
				si++
			}
		}
		skips := make([]bool, len(order))
		for i := range skips {
			skips[i] = rapid.Bool().Draw(t, "skipCheckpoint")
		}
		ckpt := []chaincfg.Checkpoint{{Height: int32(c), Hash: &main[c-1].Hash}}
		run := func(headersFirst bool) (chainhash.Hash, int32) {
			env, err := ce.NewEnv(params, ce.EnvOpt{UtxoCacheMaxSize: 1 << 20, Checkpoints: ckpt})
			if err != nil {
				t.Fatalf("VERIF-INFRA: %v", err)
			}
			defer env.Close()
			if headersFirst {
				for i, n := range order {
					_, _ = env.DeliverHeaderOpt(n, skips[i])
				}
			}
			for _, n := range order {
				_, _, _ = env.Deliver(n)
			}
			snap := env.Chain.BestSnapshot()
			if snap.Height >= int32(c) {
				if h, err := env.Chain.BlockHashByHeight(int32(c)); err != nil || *h != main[c-1].Hash {
					t.Fatalf("headersFirst=%v: the active chain (height %d) does not contain the checkpointed block at height %d\ntree: %s", headersFirst, snap.Height, c, tr.Describe())
				}
			}
			return snap.Hash, snap.Height
		}
		desc := fmt.Sprintf("main %d, checkpoint at %d, side branch of %d from height %d", k, c, len(side), forkParent.Height)
		cl := "fork-above-checkpoint"
		if crosses {
			cl = "fork-crosses-checkpoint"
		}
		recCkpt.Case(crosses, cl, ev.HashS(tr.Describe()+fmt.Sprint(c, skips)), func() any { return desc })
		h1, ht1 := run(false)
		h2, ht2 := run(true)
		if h1 != h2 {
			t.Fatalf("blocks-only delivery ends on %s (height %d), headers-first delivery of the same tree on %s (height %d)\n%s; order %v, skipCheckpoint %v\ntree: %s",
				nodeName(tr, &h1), ht1, nodeName(tr, &h2), ht2, desc, idxs(order), skips, tr.Describe())
		}
	})
}

func idxs(ns []*ce.Node) []int {
	out := make([]int, len(ns))
	for i, n := range ns {
		out[i] = n.Idx
	}
	return out
}
