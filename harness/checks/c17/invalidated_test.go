package c17

import (
	"fmt"
	"strings"
	"testing"

	"pgregory.net/rapid"

	ce "verif/internal/chainenv"
	"verif/internal/ev"
)

// ---------------------------------------------------------------------------
// headers on top of a branch that contains blocks invalidated by hand

var recInvHdr = ev.New("C17", "headers-below-invalidated",
	"a main chain and a side branch of 4-8 blocks, delivered as blocks or (side branch) partly as headers only; 1-3 blocks of the side branch are invalidated by hand in a generated order "+
		"(ancestors after descendants included); then, for every node of the side branch, a NEW header extending it is delivered; "+
		"oracle: the header is refused iff the node is the topmost invalidated block or one of its descendants (every one of them is a block known to be invalid), "+
		"headers extending the blocks above it are accepted; "+
		"non-trivial = at least two invalidations with the later one above (an ancestor of) an earlier one; distinct by (tree, order)",
	"single", "ancestor-after-descendant", "descendant-after-ancestor")

func TestInvalidatedBranchHeaders(t *testing.T) {
	rapid.Check(t, func(t *rapid.T) {
		tr := ce.NewTree(ce.FamFlat, ce.NewParams(ce.FamFlat, 1))
		ext := func(p *ce.Node, n int) []*ce.Node {
			var out []*ce.Node
			for i := 0; i < n; i++ {
				p = tr.Extend(p, ce.BlockOpt{})
				out = append(out, p)
			}
			return out
		}
		sideLen := rapid.IntRange(4, 8).Draw(t, "sideLen")
		main := ext(tr.Genesis, sideLen+rapid.IntRange(1, 3).Draw(t, "mainAhead"))
		side := ext(tr.Genesis, sideLen)
		env, err := ce.NewEnv(tr.Params, ce.EnvOpt{UtxoCacheMaxSize: 1 << 20})
		if err != nil {
			t.Fatalf("VERIF-INFRA: %v", err)
		}
		defer env.Close()
		var hist []string
		for _, n := range main {
			if _, _, err := env.Deliver(n); err != nil {
				t.Fatalf("VERIF-INFRA: main chain block rejected: %v", err)
			}
		}
		// the side branch: blocks up to a point, headers only above it
		blocksUpTo := rapid.IntRange(0, sideLen).Draw(t, "sideBlocks")
		for i, n := range side {
			if i < blocksUpTo {
				if _, _, err := env.Deliver(n); err != nil {
					t.Fatalf("VERIF-INFRA: side block rejected: %v", err)
				}
				hist = append(hist, fmt.Sprintf("block(side%d)", i))
			} else {
				if _, err := env.DeliverHeader(n); err != nil {
					t.Fatalf("valid side-branch header refused: %v", err)
				}
				hist = append(hist, fmt.Sprintf("header(side%d)", i))
			}
		}
		k := rapid.IntRange(1, 3).Draw(t, "invalidations")
		order := rapid.Permutation(side).Draw(t, "picks")[:k]
		top := order[0]
		cl := "single"
		for i, n := range order {
			h := n.Hash
			if err := env.Chain.InvalidateBlock(&h); err != nil {
				t.Fatalf("InvalidateBlock(side block at height %d): %v", n.Height, err)
			}
			hist = append(hist, fmt.Sprintf("invalidate(side h%d)", n.Height))
			if n.Height < top.Height {
				top = n
			}
			if i > 0 {
				if n.Height < order[i-1].Height {
					cl = "ancestor-after-descendant"
				} else if cl == "single" {
					cl = "descendant-after-ancestor"
				}
			}
		}
		recInvHdr.Case(cl == "ancestor-after-descendant", cl, ev.HashS(fmt.Sprint(sideLen, blocksUpTo, strings.Join(hist, " "))), func() any {
			return map[string]any{"history": strings.Join(hist, " "), "topmost_invalidated_height": top.Height}
		})
		for _, n := range side {
			c := tr.Extend(n, ce.BlockOpt{TimeDelta: 7})
			_, err := env.DeliverHeader(c)
			below := top.IsAncestorOf(n)
			if below && err == nil {
				t.Fatalf("a new header extending the side-branch block at height %d was accepted although that block descends from (or is) the block at height %d that was invalidated by hand\nhistory: %s", n.Height, top.Height, strings.Join(hist, " "))
			}
			if !below && err != nil {
				t.Fatalf("a new header extending the side-branch block at height %d (above every invalidated block, topmost at height %d) was refused: %v\nhistory: %s", n.Height, top.Height, err, strings.Join(hist, " "))
			}
		}
		// (observation, not asserted: InvalidateBlock leaves the best-header view where it was, also
		// when it sits on the invalidated part - the property does not say what a manual
		// invalidation does to that view)
	})
}
