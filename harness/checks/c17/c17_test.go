// Package c17 decides property C17: block-index queries and headers-first
// tracking are exact on any block tree.
package c17

import (
	"fmt"
	"math/big"
	"os"
	"strings"
	"testing"

	"github.com/btcsuite/btcd/blockchain"
	"github.com/btcsuite/btcd/chainhash/v2"
	"pgregory.net/rapid"

	ce "verif/internal/chainenv"
	"verif/internal/ev"
	"verif/internal/scratch"
)

func TestMain(m *testing.M) {
	code := m.Run()
	scratch.Sweep()
	ev.Flush()
	os.Exit(code)
}

// ---------------------------------------------------------------------------
// naive model over parent links

func naiveAncestor(n *ce.Node, h int32) *ce.Node {
	if h < 0 || h > n.Height {
		return nil
	}
	for n.Height > h {
		n = n.Parent
	}
	return n
}

func naiveFork(a, b *ce.Node) *ce.Node {
	for a != b {
		if a.Height > b.Height {
			a = a.Parent
		} else if b.Height > a.Height {
			b = b.Parent
		} else {
			a, b = a.Parent, b.Parent
		}
	}
	return a
}

// refLocator: heights h, then repeatedly max(0, h-step), step doubling once
// more than 10 entries have been collected; ends with genesis.
func refLocator(n *ce.Node) []*ce.Node {
	var out []*ce.Node
	step := int32(1)
	h := n.Height
	for {
		out = append(out, naiveAncestor(n, h))
		if h == 0 {
			break
		}
		h -= step
		if h < 0 {
			h = 0
		}
		if len(out) > 10 {
			step *= 2
		}
	}
	return out
}

// refLocate is the naive answer of LocateBlocks/LocateHeaders.
func refLocate(tr *ce.Tree, tip *ce.Node, locator []chainhash.Hash, stop *chainhash.Hash, max uint32) []*ce.Node {
	path := tip.Path()
	onChain := func(n *ce.Node) bool { return n != nil && n.Height <= tip.Height && path[n.Height] == n }
	stopNode := tr.ByHash[*stop]
	if len(locator) == 0 {
		if stopNode == nil {
			return nil
		}
		return []*ce.Node{stopNode}
	}
	start := tr.Genesis
	for _, h := range locator {
		if n := tr.ByHash[h]; onChain(n) {
			start = n
			break
		}
	}
	var out []*ce.Node
	for h := start.Height + 1; h <= tip.Height && uint32(len(out)) < max; h++ {
		out = append(out, path[h])
		if stopNode != nil && path[h] == stopNode {
			break
		}
	}
	return out
}

var recIdx = ev.New("C17", "index-queries",
	"rooted trees of 10-400 blocks (thorough: chains up to 3000 deep) with random fork points on flat and variable-work parameter families, all blocks delivered; "+
		"queries: ancestor by height for node x height (negative, beyond tip), relative ancestor, is-ancestor and fork point for node pairs, successor on the active chain, "+
		"block locators of any node and of the tip, LocateBlocks/LocateHeaders with locators that are empty / unknown / side-chain / out of order / duplicated / 500+ entries and stop hashes absent / on chain / on a side chain / before the start and max 0/1/n/2000+, "+
		"HeightRange, HeightToHashRange, IntervalBlockHashes incl. their documented error cases; oracle: naive walk of parent links; "+
		"non-trivial = the query touches a side chain, crosses the fork point, hits a limit, or the tree has >= 2 branches >= 3 long; distinct by (tree, query) hash",
	"ancestor", "fork", "locator", "locate-sidechain", "locate-stop", "locate-max", "locate-unknown", "locate-empty", "range", "interval")

func deliverAll(t *rapid.T, tr *ce.Tree) (*ce.Env, *ce.Sel) {
	env, err := ce.NewEnv(tr.Params, ce.EnvOpt{UtxoCacheMaxSize: 1 << 20})
	if err != nil {
		t.Fatalf("VERIF-INFRA: %v", err)
	}
	sel := ce.NewSel(tr)
	for _, n := range tr.Nodes[1:] {
		out := sel.DeliverBlock(n)
		_, _, err := env.Deliver(n)
		if out.MustSucceed && err != nil {
			env.Close()
			t.Fatalf("delivery of valid node%d failed: %v", n.Idx, err)
		}
		if err := ce.CheckTip(env, sel); err != nil {
			env.Close()
			t.Fatalf("after node%d: %v\ntree: %s", n.Idx, err, tr.Describe())
		}
	}
	return env, sel
}

func hp(n *ce.Node) *chainhash.Hash {
	if n == nil {
		return nil
	}
	h := n.Hash
	return &h
}

func eqHash(got *chainhash.Hash, want *ce.Node) bool {
	if want == nil {
		return got == nil
	}
	return got != nil && *got == want.Hash
}

func nodeName(tr *ce.Tree, h *chainhash.Hash) string {
	if h == nil {
		return "nil"
	}
	if n := tr.ByHash[*h]; n != nil {
		return fmt.Sprintf("node%d(h%d)", n.Idx, n.Height)
	}
	return h.String()
}

func TestIndexQueries(t *testing.T) {
	rapid.Check(t, func(t *rapid.T) {
		deep := ev.Thorough() && rapid.IntRange(0, 9).Draw(t, "deep") == 0
		cfg := ce.TreeCfg{Families: []ce.Family{ce.FamFlat, ce.FamWork}, MinBlocks: 10, MaxBlocks: ev.Scale(120, 400), NoUtxo: true,
			ForkProb: rapid.SampledFrom([]int{3, 10, 30}).Draw(t, "forkProb")}
		if deep {
			cfg.MinBlocks, cfg.MaxBlocks, cfg.ForkProb = 1500, 3000, 1
		}
		tr := ce.GenTree(t, cfg)
		env, sel := deliverAll(t, tr)
		defer env.Close()
		ch := env.Chain
		tip := sel.Tip
		path := tip.Path()
		nodes := tr.Nodes
		pick := func(label string) *ce.Node { return nodes[rapid.IntRange(0, len(nodes)-1).Draw(t, label)] }
		branches := 0
		for _, n := range nodes {
			if len(n.Children) == 0 {
				fk := naiveFork(n, tip)
				if n.Height-fk.Height >= 3 {
					branches++
				}
			}
		}
		treeH := ev.Hash(tip.Hash[:], []byte(fmt.Sprint(len(nodes))))
		rec := func(nt bool, class string, q string) {
			recIdx.Case(nt || branches >= 1, class, ev.Hash([]byte(q), []byte(fmt.Sprint(treeH))), func() any {
				return map[string]any{"tree_blocks": len(nodes) - 1, "tip_height": tip.Height, "side_branches>=3": branches, "query": q}
			})
		}
		fail := func(format string, a ...any) {
			t.Fatalf(format+"\ntree: %s", append(a, describe(tr))...)
		}

		nq := 40
		for q := 0; q < nq; q++ {
			switch rapid.IntRange(0, 7).Draw(t, "queryKind") {
			case 0: // ancestor by height
				n := pick("n")
				h := rapid.OneOf(rapid.Int32Range(-2, n.Height+2), rapid.Int32Range(0, n.Height)).Draw(t, "height")
				rec(h < 0 || h > n.Height || n.Height-h > 8, "ancestor", fmt.Sprintf("Ancestor(node%d,%d)", n.Idx, h))
				got, err := ch.VerifAncestor(hp(n), h)
				if err != nil || !eqHash(got, naiveAncestor(n, h)) {
					fail("Ancestor(node%d at height %d, %d) = %s (%v), naive walk gives %v", n.Idx, n.Height, h, nodeName(tr, got), err, naiveAncestor(n, h))
				}
				d := n.Height - h
				got, err = ch.VerifRelativeAncestor(hp(n), d)
				if err != nil || !eqHash(got, naiveAncestor(n, h)) {
					fail("RelativeAncestor(node%d, %d) = %s (%v), naive walk gives %v", n.Idx, d, nodeName(tr, got), err, naiveAncestor(n, h))
				}
			case 1: // fork point / is-ancestor / next
				a, b := pick("a"), pick("b")
				rec(!a.IsAncestorOf(tip), "fork", fmt.Sprintf("FindFork(node%d) IsAncestor(node%d,node%d)", a.Idx, a.Idx, b.Idx))
				got, err := ch.VerifFindFork(hp(a))
				if err != nil || !eqHash(got, naiveFork(a, tip)) {
					fail("FindFork(node%d) = %s (%v), naive fork with the active chain is node%d", a.Idx, nodeName(tr, got), err, naiveFork(a, tip).Idx)
				}
				isAnc, err := ch.VerifIsAncestor(hp(a), hp(b))
				if err != nil || isAnc != (b.IsAncestorOf(a) && a != b || a == b && false) && isAnc != b.IsAncestorOf(a) {
					fail("node%d.IsAncestor(node%d) = %v, naive %v", a.Idx, b.Idx, isAnc, b.IsAncestorOf(a))
				}
				nx, err := ch.VerifNextOnBestChain(hp(a))
				var wantNext *ce.Node
				if a.IsAncestorOf(tip) && a != tip {
					wantNext = path[a.Height+1]
				}
				if err != nil || !eqHash(nx, wantNext) {
					fail("Next(node%d) = %s, naive %v", a.Idx, nodeName(tr, nx), wantNext)
				}
			case 2: // locators
				n := pick("n")
				rec(n.Height > 12, "locator", fmt.Sprintf("BlockLocatorFromHash(node%d)", n.Idx))
				got := ch.BlockLocatorFromHash(hp(n))
				want := refLocator(n)
				if len(got) != len(want) {
					fail("BlockLocatorFromHash(node%d at height %d) has %d entries, protocol algorithm gives %d", n.Idx, n.Height, len(got), len(want))
				}
				for i := range want {
					if *got[i] != want[i].Hash {
						fail("BlockLocatorFromHash(node%d) entry %d = %s, want node%d(h%d)", n.Idx, i, nodeName(tr, got[i]), want[i].Idx, want[i].Height)
					}
				}
				lt, _ := ch.LatestBlockLocator()
				wt := refLocator(tip)
				if len(lt) != len(wt) {
					fail("LatestBlockLocator has %d entries, want %d", len(lt), len(wt))
				}
				for i := range wt {
					if *lt[i] != wt[i].Hash {
						fail("LatestBlockLocator entry %d = %s, want node%d", i, nodeName(tr, lt[i]), wt[i].Idx)
					}
				}
				// an unknown hash falls back to the tip's locator (documented)
				unk := chainhash.Hash{0xde, 0xad, byte(q)}
				lu := ch.BlockLocatorFromHash(&unk)
				if len(lu) != len(wt) || *lu[0] != tip.Hash {
					fail("BlockLocatorFromHash(unknown) does not fall back to the tip locator")
				}
			case 3, 4: // LocateBlocks / LocateHeaders
				var locator []chainhash.Hash
				cls := "locate-stop"
				kind := rapid.IntRange(0, 6).Draw(t, "locKind")
				switch kind {
				case 0: // empty
					cls = "locate-empty"
				case 1: // proper locator of some node (may be on a side chain)
					n := pick("locOf")
					for _, x := range refLocator(n) {
						locator = append(locator, x.Hash)
					}
					if !n.IsAncestorOf(tip) {
						cls = "locate-sidechain"
					}
				case 2: // unknown hashes only
					for i := 0; i < rapid.IntRange(1, 5).Draw(t, "nUnknown"); i++ {
						locator = append(locator, chainhash.Hash{0xee, byte(i), byte(q)})
					}
					cls = "locate-unknown"
				case 3: // arbitrary nodes, out of order, duplicates, unknowns mixed in
					k := rapid.IntRange(1, 8).Draw(t, "nLoc")
					for i := 0; i < k; i++ {
						if rapid.IntRange(0, 4).Draw(t, "unk") == 0 {
							locator = append(locator, chainhash.Hash{0xef, byte(i)})
						} else {
							locator = append(locator, pick("loc").Hash)
						}
					}
					cls = "locate-sidechain"
				case 4: // long locator (500+)
					for i := 0; i < 520; i++ {
						locator = append(locator, chainhash.Hash{0xaa, byte(i), byte(i >> 8)})
					}
					locator = append(locator, pick("loc").Hash)
					cls = "locate-unknown"
				default: // locator of an ancestor of the tip
					a := path[rapid.IntRange(0, len(path)-1).Draw(t, "anc")]
					for _, x := range refLocator(a) {
						locator = append(locator, x.Hash)
					}
				}
				var stop chainhash.Hash
				switch rapid.IntRange(0, 3).Draw(t, "stopKind") {
				case 0: // zero / unknown
				case 1:
					stop = path[rapid.IntRange(0, len(path)-1).Draw(t, "stopOnChain")].Hash
				default:
					stop = pick("stopAny").Hash
				}
				max := rapid.SampledFrom([]uint32{0, 1, 2, 5, 500, 2000, 2001, 1 << 31}).Draw(t, "max")
				if max <= 5 {
					cls = "locate-max"
				}
				lp := make(blockchain.BlockLocator, len(locator))
				for i := range locator {
					lp[i] = &locator[i]
				}
				want := refLocate(tr, tip, locator, &stop, max)
				rec(cls != "locate-stop" || len(want) > 0, cls, fmt.Sprintf("Locate(kind %d, %d entries, stop %s, max %d)", kind, len(locator), nodeName(tr, &stop), max))
				got := ch.LocateBlocks(lp, &stop, max)
				if len(got) != len(want) {
					fail("LocateBlocks(locator %s, stop %s, max %d) returned %d hashes, naive walk %d", locDesc(tr, locator), nodeName(tr, &stop), max, len(got), len(want))
				}
				for i := range want {
					if got[i] != want[i].Hash {
						fail("LocateBlocks entry %d = %s, naive node%d(h%d)", i, nodeName(tr, &got[i]), want[i].Idx, want[i].Height)
					}
				}
				wantH := refLocate(tr, tip, locator, &stop, 2000)
				gotH := ch.LocateHeaders(lp, &stop)
				if len(gotH) != len(wantH) {
					fail("LocateHeaders(locator %s, stop %s) returned %d headers, naive walk %d", locDesc(tr, locator), nodeName(tr, &stop), len(gotH), len(wantH))
				}
				for i := range wantH {
					if gotH[i].BlockHash() != wantH[i].Hash {
						fail("LocateHeaders entry %d differs from naive node%d", i, wantH[i].Idx)
					}
				}
			case 5: // HeightRange
				s := rapid.Int32Range(-1, tip.Height+2).Draw(t, "start")
				e := rapid.Int32Range(-1, tip.Height+3).Draw(t, "end")
				rec(s <= 0 || e > tip.Height, "range", fmt.Sprintf("HeightRange(%d,%d)", s, e))
				got, err := ch.HeightRange(s, e)
				if s < 0 || e < s {
					if err == nil {
						fail("HeightRange(%d,%d) did not report an error", s, e)
					}
					break
				}
				if err != nil {
					fail("HeightRange(%d,%d): %v", s, e, err)
				}
				var want []*ce.Node
				for h := s; h < e && h <= tip.Height; h++ {
					want = append(want, path[h])
				}
				if len(got) != len(want) {
					fail("HeightRange(%d,%d) returned %d hashes, want %d", s, e, len(got), len(want))
				}
				for i := range want {
					if got[i] != want[i].Hash {
						fail("HeightRange(%d,%d) entry %d wrong", s, e, i)
					}
				}
			case 6: // HeightToHashRange
				end := pick("end")
				s := rapid.Int32Range(-1, end.Height+1).Draw(t, "start")
				maxRes := rapid.SampledFrom([]int{0, 1, 5, 1000, 1 << 20}).Draw(t, "maxResults")
				rec(!end.IsAncestorOf(tip), "range", fmt.Sprintf("HeightToHashRange(%d,node%d,%d)", s, end.Idx, maxRes))
				got, err := ch.HeightToHashRange(s, hp(end), maxRes)
				st, _, _ := ch.VerifNodeStatus(hp(end))
				knownValid := st&2 != 0 // the end block must be validated (documented)
				n := int(end.Height - s + 1)
				if !knownValid || s < 0 || s > end.Height || n > maxRes {
					if err == nil {
						fail("HeightToHashRange(%d, node%d, %d) did not report an error (validated=%v)", s, end.Idx, maxRes, knownValid)
					}
					break
				}
				if err != nil {
					fail("HeightToHashRange(%d, node%d, %d): %v", s, end.Idx, maxRes, err)
				}
				if len(got) != n {
					fail("HeightToHashRange returned %d, want %d", len(got), n)
				}
				for i := 0; i < n; i++ {
					if got[i] != naiveAncestor(end, s+int32(i)).Hash {
						fail("HeightToHashRange(%d,node%d) entry %d wrong", s, end.Idx, i)
					}
				}
			case 7: // IntervalBlockHashes
				end := pick("end")
				iv := rapid.IntRange(1, 20).Draw(t, "interval")
				rec(!end.IsAncestorOf(tip), "interval", fmt.Sprintf("IntervalBlockHashes(node%d,%d)", end.Idx, iv))
				got, err := ch.IntervalBlockHashes(hp(end), iv)
				st, _, _ := ch.VerifNodeStatus(hp(end))
				if st&2 == 0 {
					if err == nil {
						fail("IntervalBlockHashes(node%d not validated) did not report an error", end.Idx)
					}
					break
				}
				if err != nil {
					fail("IntervalBlockHashes(node%d,%d): %v", end.Idx, iv, err)
				}
				n := int(end.Height) / iv
				if len(got) != n {
					fail("IntervalBlockHashes returned %d, want %d", len(got), n)
				}
				for i := 1; i <= n; i++ {
					if got[i-1] != naiveAncestor(end, int32(i*iv)).Hash {
						fail("IntervalBlockHashes(node%d,%d) entry %d wrong", end.Idx, iv, i-1)
					}
				}
			}
		}
	})
}

func describe(tr *ce.Tree) string {
	if len(tr.Nodes) > 60 {
		return fmt.Sprintf("%d nodes (too large to print); family=%s", len(tr.Nodes), tr.Family)
	}
	return tr.Describe()
}

func locDesc(tr *ce.Tree, loc []chainhash.Hash) string {
	var sb strings.Builder
	for i, h := range loc {
		if i > 12 {
			fmt.Fprintf(&sb, "...(%d)", len(loc))
			break
		}
		sb.WriteString(nodeName(tr, &h) + " ")
	}
	return "[" + sb.String() + "]"
}

// ---------------------------------------------------------------------------
// headers-first tracking

var recHdr = ev.New("C17", "headers-first",
	"trees of 5-40 blocks with up to 2 invalid blocks; histories where every node's header is delivered through ProcessBlockHeader (in tree order, possibly long before its block, possibly without it) "+
		"interleaved with block deliveries in generated order (a third of them blocks-first: the block arrives before its own header, which may follow later), duplicates, orphan headers, headers below a block that is known to be invalid; oracle: best header = most-work chain of accepted headers (first seen wins ties), "+
		"HeaderHashByHeight/HeaderHeightByHash/IsValidHeader/BestChainHeaderForkHeight/LatestBlockLocatorByHeader = naive walk of that chain; headers extending a known-invalid block are refused; "+
		"headers-then-blocks and blocks-only deliveries of the same tree end on equal-work tips (identical when there is no tie); "+
		"non-trivial = best header chain ahead of or diverging from the block chain at some step, or a refused header; distinct by history hash",
	"header-ahead", "header-diverged", "refused-invalid-parent", "refused-orphan", "header-after-block", "plain")

// hdrModel tracks the best-header view.
type hdrModel struct {
	accepted map[*ce.Node]bool
	best     *ce.Node
}

func (m *hdrModel) accept(n *ce.Node) {
	m.accepted[n] = true
	if n.Parent == m.best || n.WorkSum.Cmp(m.best.WorkSum) > 0 {
		m.best = n
	}
}

func TestHeadersFirst(t *testing.T) {
	rapid.Check(t, func(t *rapid.T) {
		tr := ce.GenTree(t, ce.TreeCfg{Families: []ce.Family{ce.FamFlat, ce.FamWork}, MinBlocks: 5, MaxBlocks: ev.Scale(30, 60), MaxInvalid: 2, ForkProb: 25, NoUtxo: false, Txs: false})
		env, err := ce.NewEnv(tr.Params, ce.EnvOpt{UtxoCacheMaxSize: 1 << 20})
		if err != nil {
			t.Fatalf("VERIF-INFRA: %v", err)
		}
		defer env.Close()
		sel := ce.NewSel(tr)
		hm := &hdrModel{accepted: map[*ce.Node]bool{tr.Genesis: true}, best: tr.Genesis}
		// knownInvalid: blocks the node has certainly learnt to be invalid
		// (a connect-invalid block whose connection was attempted: error returned)
		knownInvalid := map[*ce.Node]bool{}
		var hist []string
		classes := map[string]bool{}
		headerDone := map[*ce.Node]bool{}
		blockDone := map[*ce.Node]bool{}
		nodes := tr.Nodes[1:]
		check := func() {
			h := strings.Join(hist, " ")
			bh, bheight := env.Chain.BestHeader()
			if bh != hm.best.Hash || bheight != hm.best.Height {
				// ties: equal work allowed only if the model's best was not first - the model keeps first seen, so exact
				t.Fatalf("BestHeader = %s, most-work chain of accepted headers ends in node%d(h%d)\nhistory: %s\ntree: %s", nodeName(tr, &bh), hm.best.Idx, hm.best.Height, h, tr.Describe())
			}
			hp_ := hm.best.Path()
			for ht := int32(-1); ht <= hm.best.Height+1; ht++ {
				got, err := env.Chain.HeaderHashByHeight(ht)
				if ht < 0 || ht > hm.best.Height {
					if err == nil {
						t.Fatalf("HeaderHashByHeight(%d) beyond the best header chain returned %v\nhistory: %s", ht, got, h)
					}
					continue
				}
				if err != nil || *got != hp_[ht].Hash {
					t.Fatalf("HeaderHashByHeight(%d) = %v (%v), best header chain has node%d\nhistory: %s\ntree: %s", ht, got, err, hp_[ht].Idx, h, tr.Describe())
				}
			}
			for _, n := range tr.Nodes {
				ht, err := env.Chain.HeaderHeightByHash(n.Hash)
				on := n.IsAncestorOf(hm.best)
				if on != (err == nil) || on && ht != n.Height {
					t.Fatalf("HeaderHeightByHash(node%d) = %d, %v; on best header chain: %v\nhistory: %s\ntree: %s", n.Idx, ht, err, on, h, tr.Describe())
				}
				if on && !knownInvalidOnPath(n, knownInvalid) && n.ChainValidHeader() {
					if !env.Chain.IsValidHeader(hp(n)) {
						t.Fatalf("IsValidHeader(node%d on the best header chain, nothing invalid known) = false\nhistory: %s\ntree: %s", n.Idx, h, tr.Describe())
					}
				}
				if !on && env.Chain.IsValidHeader(hp(n)) {
					t.Fatalf("IsValidHeader(node%d not on the best header chain) = true\nhistory: %s", n.Idx, h)
				}
			}
			fk := naiveFork(hm.best, sel.Tip)
			if got := env.Chain.BestChainHeaderForkHeight(); got != fk.Height {
				t.Fatalf("BestChainHeaderForkHeight = %d, naive fork of best header node%d and tip node%d is at %d\nhistory: %s", got, hm.best.Idx, sel.Tip.Idx, fk.Height, h)
			}
			loc, _ := env.Chain.LatestBlockLocatorByHeader()
			want := refLocator(hm.best)
			if len(loc) != len(want) {
				t.Fatalf("LatestBlockLocatorByHeader has %d entries, want %d\nhistory: %s", len(loc), len(want), h)
			}
			for i := range want {
				if *loc[i] != want[i].Hash {
					t.Fatalf("LatestBlockLocatorByHeader entry %d wrong\nhistory: %s", i, h)
				}
			}
			if hm.best.Height > sel.Tip.Height && sel.Tip.IsAncestorOf(hm.best) {
				classes["header-ahead"] = true
			} else if !sel.Tip.IsAncestorOf(hm.best) && !hm.best.IsAncestorOf(sel.Tip) {
				classes["header-diverged"] = true
			}
		}
		steps := rapid.IntRange(len(nodes), 3*len(nodes)).Draw(t, "steps")
		for s := 0; s < steps; s++ {
			doHeader := rapid.IntRange(0, 2).Draw(t, "hdr") > 0
			if doHeader {
				// next header in tree order, or a random one (duplicate / orphan)
				var n *ce.Node
				if rapid.IntRange(0, 5).Draw(t, "rndHdr") == 0 {
					n = nodes[rapid.IntRange(0, len(nodes)-1).Draw(t, "hdrNode")]
				} else {
					for _, c := range nodes {
						if !headerDone[c] && (hm.accepted[c.Parent] || sel.InIndex(c.Parent)) {
							n = c
							break
						}
					}
					if n == nil {
						continue
					}
				}
				headerDone[n] = true
				hist = append(hist, fmt.Sprintf("header(node%d)", n.Idx))
				inIndexBefore := map[*ce.Node]bool{n: sel.InIndex(n), n.Parent: sel.InIndex(n.Parent)}
				parentMurky := sel.Murky[n.Parent]
				_, err := env.DeliverHeader(n)
				sel.DeliverHeader(n)
				// the parent is known through its header or through its block (blocks-first delivery)
				parentKnown := hm.accepted[n.Parent] || inIndexBefore[n.Parent]
				if !hm.accepted[n] && inIndexBefore[n] {
					classes["header-after-block"] = true
				}
				switch {
				case hm.accepted[n] && !knownInvalidOnPath(n, knownInvalid):
					if err != nil {
						t.Fatalf("re-delivery of accepted header node%d refused: %v\nhistory: %s", n.Idx, err, strings.Join(hist, " "))
					}
				case hm.accepted[n] && knownInvalid[n]:
					// accepted earlier, now itself known invalid: must be refused
					if err == nil {
						t.Fatalf("header of the known-invalid block node%d accepted\nhistory: %s\ntree: %s", n.Idx, strings.Join(hist, " "), tr.Describe())
					}
				case hm.accepted[n]:
					// a descendant of a known-invalid block: the property only
					// demands refusal of headers that extend the invalid block
					// itself; btcd marks descendants lazily (left open)
				case knownInvalid[n]:
					// the block arrived before its header and failed validation: the property speaks
					// about headers extending such a block; for the block's own header the model
					// follows what the node did
					if err == nil {
						hm.accept(n)
					}
				case !parentKnown && parentMurky:
					// the parent's block was delivered below an invalid block: whether the node
					// kept it is open (chain-selection model), so is the fate of this header
					if err == nil && !n.HeaderInvalid() {
						hm.accept(n)
					}
				case !parentKnown:
					classes["refused-orphan"] = true
					if err == nil {
						t.Fatalf("orphan header node%d accepted\nhistory: %s\ntree: %s", n.Idx, strings.Join(hist, " "), tr.Describe())
					}
				case knownInvalid[n.Parent]:
					classes["refused-invalid-parent"] = true
					if err == nil {
						t.Fatalf("header node%d extending node%d, a block known to be invalid, was accepted\nhistory: %s\ntree: %s", n.Idx, n.Parent.Idx, strings.Join(hist, " "), tr.Describe())
					}
				case knownInvalidOnPath(n.Parent, knownInvalid):
					// extends a descendant of a known-invalid block: open, the
					// model follows what the node did
					if err == nil && !n.HeaderInvalid() {
						hm.accept(n)
					}
				case n.HeaderInvalid():
					if err == nil {
						t.Fatalf("invalid header node%d (%s) accepted\nhistory: %s", n.Idx, n.Rule, strings.Join(hist, " "))
					}
				default:
					if err != nil {
						t.Fatalf("valid header node%d refused: %v\nhistory: %s\ntree: %s", n.Idx, err, strings.Join(hist, " "), tr.Describe())
					}
					hm.accept(n)
				}
			} else {
				// deliver a block whose header has been accepted (headers-first
				// discipline keeps the best-header view well defined)
				// ... or, in a third of the steps, a block that arrives before its header
				// (its parent being known through a header or a block)
				blocksFirst := rapid.IntRange(0, 2).Draw(t, "blocksFirst") == 0
				var cands []*ce.Node
				for _, c := range nodes {
					if blockDone[c] {
						continue
					}
					if hm.accepted[c] || blocksFirst && (hm.accepted[c.Parent] || sel.InIndex(c.Parent)) {
						cands = append(cands, c)
					}
				}
				if len(cands) == 0 {
					continue
				}
				n := cands[rapid.IntRange(0, len(cands)-1).Draw(t, "blk")]
				if rapid.IntRange(0, 2).Draw(t, "inOrder") > 0 {
					n = cands[0]
				}
				blockDone[n] = true
				hist = append(hist, fmt.Sprintf("block(node%d)", n.Idx))
				out := sel.DeliverBlock(n)
				_, _, err := env.Deliver(n)
				if out.MustSucceed && err != nil {
					t.Fatalf("valid block node%d rejected: %v\nhistory: %s", n.Idx, err, strings.Join(hist, " "))
				}
				if out.MustError && err == nil {
					t.Fatalf("invalid block node%d accepted (%s)\nhistory: %s", n.Idx, out.Why, strings.Join(hist, " "))
				}
				// "known to be invalid" is the node's own knowledge: a block that
				// is invalid by construction and that the node has marked as
				// failed (directly or when it was drained from the orphan pool)
				for _, c := range nodes {
					if c.Self == ce.InvalidConnect && !knownInvalid[c] {
						if st, _, err := env.Chain.VerifNodeStatus(hp(c)); err == nil && st&4 != 0 {
							knownInvalid[c] = true
						}
					}
				}
				if err := ce.CheckTip(env, sel); err != nil {
					t.Fatalf("%v\nhistory: %s\ntree: %s", err, strings.Join(hist, " "), tr.Describe())
				}
			}
			check()
		}
		cl := "plain"
		for _, k := range []string{"refused-invalid-parent", "header-diverged", "header-after-block", "header-ahead", "refused-orphan"} {
			if classes[k] {
				if cl == "plain" {
					cl = k
				} else {
					recHdr.Count(k, 1)
				}
			}
		}
		recHdr.Case(cl != "plain", cl, ev.HashS(strings.Join(hist, " ")+tr.Describe()), func() any {
			return map[string]any{"history": strings.Join(hist, " "), "tree": tr.Describe()}
		})
	})
}

func knownInvalidOnPath(n *ce.Node, ki map[*ce.Node]bool) bool {
	for it := n; it != nil; it = it.Parent {
		if ki[it] {
			return true
		}
	}
	return false
}

// ---------------------------------------------------------------------------
// headers-then-blocks == blocks-only

var recEq = ev.New("C17", "delivery-equivalence",
	"one generated tree (5-40 blocks, up to 2 invalid) delivered twice to fresh chains: blocks only in tree order, and all headers first (tree order) followed by the blocks in a generated order; "+
		"in half of the cases a generated fifth of the blocks never arrives (header-only nodes in the second run) and/or one generated block is invalidated by hand at the end of both runs; "+
		"oracle: both end on tips of equal cumulative work that the chain-selection model allows (identical hashes when the model allows a single tip) and the same set of blocks on the active chain when identical; "+
		"non-trivial = tree has a fork or an invalid block; distinct by tree hash",
	"fork", "invalid", "plain", "invalidated-at-the-end", "blocks-withheld")

func TestDeliveryEquivalence(t *testing.T) {
	rapid.Check(t, func(t *rapid.T) {
		tr := ce.GenTree(t, ce.TreeCfg{Families: []ce.Family{ce.FamFlat, ce.FamWork}, MinBlocks: 5, MaxBlocks: ev.Scale(25, 40), MaxInvalid: 2, ForkProb: 25, Txs: true})
		withheld := map[*ce.Node]bool{}
		var victim *ce.Node
		var withheldIdx []int
		var below []*ce.Node
		reconsider := false
		run := func(headersFirst bool) (*ce.Node, *big.Int) {
			env, err := ce.NewEnv(tr.Params, ce.EnvOpt{UtxoCacheMaxSize: 1 << 20})
			if err != nil {
				t.Fatalf("VERIF-INFRA: %v", err)
			}
			defer env.Close()
			sel := ce.NewSel(tr)
			order := append([]*ce.Node(nil), tr.Nodes[1:]...)
			if headersFirst {
				for _, n := range tr.Nodes[1:] {
					sel.DeliverHeader(n)
					env.DeliverHeader(n)
				}
				// generated block order: rotate / partially shuffle while keeping parents first mostly
				k := rapid.IntRange(0, len(order)-1).Draw(t, "swapCount")
				for i := 0; i < k; i++ {
					a := rapid.IntRange(0, len(order)-1).Draw(t, "a")
					b := rapid.IntRange(0, len(order)-1).Draw(t, "b")
					order[a], order[b] = order[b], order[a]
				}
			}
			for _, n := range order {
				if withheld[n] {
					continue // its block never arrives (with headers first the node stays header-only)
				}
				sel.DeliverBlock(n)
				env.Deliver(n)
				if err := ce.CheckTip(env, sel); err != nil {
					t.Fatalf("headersFirst=%v after node%d: %v\ntree: %s", headersFirst, n.Idx, err, tr.Describe())
				}
			}
			// the same block is invalidated by hand in both runs (when the run knows it and its state is not open)
			if victim != nil && sel.InIndex(victim) && !sel.Murky[victim] && !sel.ManualRelated(victim) {
				sel.Invalidate(victim)
				h := victim.Hash
				_ = env.Chain.InvalidateBlock(&h)
				if err := ce.CheckTip(env, sel); err != nil {
					t.Fatalf("headersFirst=%v after InvalidateBlock(node%d): %v\nwithheld blocks: %v\ntree: %s", headersFirst, victim.Idx, err, withheldIdx, tr.Describe())
				}
			}
			// ... and taken back again: first a block below it (when the run knows one), then the block itself
			if victim != nil && reconsider && sel.Manual[victim] {
				for _, d := range below {
					if sel.InIndex(d) && !sel.Murky[d] {
						sel.Reconsider(d)
						h := d.Hash
						_ = env.Chain.ReconsiderBlock(&h)
						if err := ce.CheckTip(env, sel); err != nil {
							t.Fatalf("headersFirst=%v after ReconsiderBlock(node%d) below the invalidated node%d: %v\nwithheld blocks: %v\ntree: %s", headersFirst, d.Idx, victim.Idx, err, withheldIdx, tr.Describe())
						}
						break
					}
				}
				sel.Reconsider(victim)
				h := victim.Hash
				_ = env.Chain.ReconsiderBlock(&h)
				if err := ce.CheckTip(env, sel); err != nil {
					t.Fatalf("headersFirst=%v after ReconsiderBlock(node%d) (invalidated before, a block below it reconsidered in between): %v\nwithheld blocks: %v\ntree: %s", headersFirst, victim.Idx, err, withheldIdx, tr.Describe())
				}
			}
			return sel.Tip, sel.Tip.WorkSum
		}
		// blocks that never arrive, and a block to invalidate at the end (drawn once, used by both runs)
		if rapid.Bool().Draw(t, "withhold") {
			for _, n := range tr.Nodes[1:] {
				if rapid.IntRange(0, 4).Draw(t, "withheld") == 0 {
					withheld[n] = true
					withheldIdx = append(withheldIdx, n.Idx)
				}
			}
		}
		if rapid.Bool().Draw(t, "invalidate") {
			victim = tr.Nodes[rapid.IntRange(1, len(tr.Nodes)-1).Draw(t, "victim")]
			reconsider = rapid.Bool().Draw(t, "reconsiderAfterwards")
			for _, n := range tr.Nodes {
				if n != victim && victim.IsAncestorOf(n) {
					below = append(below, n)
				}
			}
			if len(below) > 1 {
				// a generated block below the victim comes first
				k := rapid.IntRange(0, len(below)-1).Draw(t, "reconsiderBelow")
				below[0], below[k] = below[k], below[0]
			}
		}
		t1, w1 := run(false)
		t2, w2 := run(true)
		if victim != nil {
			recEq.Count("invalidated-at-the-end", 1)
		}
		if len(withheldIdx) > 0 {
			recEq.Count("blocks-withheld", 1)
		}
		forks, invalid := 0, 0
		for _, n := range tr.Nodes {
			if len(n.Children) > 1 {
				forks++
			}
			if n.Self != ce.Valid {
				invalid++
			}
		}
		cl := "plain"
		if invalid > 0 {
			cl = "invalid"
		} else if forks > 0 {
			cl = "fork"
		}
		recEq.Case(cl != "plain", cl, ev.HashS(tr.Describe()), func() any { return map[string]any{"tree": tr.Describe(), "tip_blocks_only": t1.Idx, "tip_headers_first": t2.Idx} })
		if w1.Cmp(w2) != 0 {
			t.Fatalf("blocks-only delivery ends on node%d (work %s), headers-first delivery on node%d (work %s)\ntree: %s", t1.Idx, w1, t2.Idx, w2, tr.Describe())
		}
	})
}
