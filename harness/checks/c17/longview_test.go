package c17

import (
	"fmt"
	"testing"

	"pgregory.net/rapid"

	ce "verif/internal/chainenv"
	"verif/internal/ev"
)

// ---------------------------------------------------------------------------
// the best-header view over branches that are longer than anything the small
// trees reach (the view's backing storage is sized for about a thousand
// entries and grows): a long low-difficulty branch A, a short high-difficulty
// branch B that overtakes it (the view shrinks), A growing on as a side branch
// and overtaking B again (the view jumps forward by hundreds of entries in one
// step).

var recLongView = ev.New("C17", "header-view-long-branches",
	"minimum-difficulty network with two difficulties (work ratio 16); headers only: common prefix 0-20, branch A of low-difficulty headers up to a height of 980-1040, branch B of high-difficulty headers from the fork until it has more work than A, "+
		"A continued as a side branch until it has more work again, optionally a second round (B again, A again); after each phase and around every switch of the best header: "+
		"BestHeader, HeaderHashByHeight for EVERY height (and one beyond), HeaderHeightByHash for nodes of both branches, IsValidHeader, LatestBlockLocatorByHeader, BestChainHeaderForkHeight; "+
		"oracle: most-work chain of accepted headers (first seen wins ties), naive parent-link walk from its tip; non-trivial = the best header switched branches at least twice; distinct by the branch lengths",
	"one-switch-back", "two-rounds")

func TestHeaderViewLongBranches(t *testing.T) {
	rapid.Check(t, func(t *rapid.T) {
		params := ce.NewParams(ce.FamWork, 1)
		tr := ce.NewTree(ce.FamWork, params)
		tr.NoUtxo = true
		env, err := ce.NewEnv(params, ce.EnvOpt{UtxoCacheMaxSize: 1 << 20})
		if err != nil {
			t.Fatalf("VERIF-INFRA: %v", err)
		}
		defer env.Close()
		hm := &hdrModel{accepted: map[*ce.Node]bool{tr.Genesis: true}, best: tr.Genesis}
		var phases []string
		desc := func() string { return fmt.Sprint(phases) }
		check := func(when string) {
			bh, bheight := env.Chain.BestHeader()
			if bh != hm.best.Hash || bheight != hm.best.Height {
				t.Fatalf("%s: BestHeader = %s (height %d), most-work chain of accepted headers ends in node%d (height %d)\nphases: %s", when, nodeName(tr, &bh), bheight, hm.best.Idx, hm.best.Height, desc())
			}
			path := hm.best.Path()
			for ht := int32(0); ht <= hm.best.Height+1; ht++ {
				got, err := env.Chain.HeaderHashByHeight(ht)
				if ht > hm.best.Height {
					if err == nil {
						t.Fatalf("%s: HeaderHashByHeight(%d) beyond the best header (height %d) returned %v\nphases: %s", when, ht, hm.best.Height, got, desc())
					}
					continue
				}
				if err != nil || *got != path[ht].Hash {
					name := "nothing"
					if got != nil {
						name = nodeName(tr, got)
					}
					t.Fatalf("%s: HeaderHashByHeight(%d) = %s (%v), the ancestor of the best header node%d at that height is node%d\nphases: %s", when, ht, name, err, hm.best.Idx, path[ht].Idx, desc())
				}
			}
			// membership for a sample of nodes of every branch
			stride := len(tr.Nodes)/97 + 1
			for i := 0; i < len(tr.Nodes); i += stride {
				n := tr.Nodes[i]
				if !hm.accepted[n] {
					continue
				}
				ht, err := env.Chain.HeaderHeightByHash(n.Hash)
				on := n.IsAncestorOf(hm.best)
				if on != (err == nil) || on && ht != n.Height {
					t.Fatalf("%s: HeaderHeightByHash(node%d at height %d) = %d, %v; on the best header chain: %v\nphases: %s", when, n.Idx, n.Height, ht, err, on, desc())
				}
				if env.Chain.IsValidHeader(hp(n)) != on {
					t.Fatalf("%s: IsValidHeader(node%d) = %v, on the best header chain: %v\nphases: %s", when, n.Idx, !on, on, desc())
				}
			}
			if got := env.Chain.BestChainHeaderForkHeight(); got != 0 {
				t.Fatalf("%s: BestChainHeaderForkHeight = %d although no block was delivered\nphases: %s", when, got, desc())
			}
			loc, _ := env.Chain.LatestBlockLocatorByHeader()
			want := refLocator(hm.best)
			if len(loc) != len(want) {
				t.Fatalf("%s: LatestBlockLocatorByHeader has %d entries, want %d\nphases: %s", when, len(loc), len(want), desc())
			}
			for i := range want {
				if *loc[i] != want[i].Hash {
					t.Fatalf("%s: LatestBlockLocatorByHeader entry %d is %s, the naive walk gives node%d (height %d)\nphases: %s", when, i, nodeName(tr, loc[i]), want[i].Idx, want[i].Height, desc())
				}
			}
		}
		switches := 0
		grow := func(from *ce.Node, hard bool, until func(n *ce.Node) bool, what string) *ce.Node {
			n := from
			count := 0
			for !until(n) {
				n = tr.Extend(n, ce.BlockOpt{Hard: hard})
				before := hm.best
				if _, err := env.DeliverHeader(n); err != nil {
					t.Fatalf("valid header node%d (%s, height %d) refused: %v\nphases: %s", n.Idx, what, n.Height, err, desc())
				}
				hm.accept(n)
				count++
				if !before.IsAncestorOf(hm.best) {
					switches++
					phases = append(phases, fmt.Sprintf("[best header switches to %s at height %d]", what, n.Height))
					check("right after the best header switched to " + what)
				}
			}
			phases = append(phases, fmt.Sprintf("%s +%d -> height %d", what, count, n.Height))
			check("after " + what)
			return n
		}
		forkHeight := int32(rapid.IntRange(0, 20).Draw(t, "forkHeight"))
		fork := grow(tr.Genesis, false, func(n *ce.Node) bool { return n.Height >= forkHeight }, "prefix")
		la1 := int32(rapid.IntRange(980, 1040).Draw(t, "lenA1"))
		a := grow(fork, false, func(n *ce.Node) bool { return n.Height >= la1 }, "A")
		extraB := rapid.IntRange(0, 3).Draw(t, "extraB")
		b := fork
		rounds := rapid.IntRange(1, 2).Draw(t, "rounds")
		for r := 0; r < rounds; r++ {
			b = grow(b, true, func(n *ce.Node) bool { return n.WorkSum.Cmp(a.WorkSum) > 0 && extraBDone(&extraB) }, "B")
			extraA := rapid.IntRange(0, 5).Draw(t, "extraA")
			a = grow(a, false, func(n *ce.Node) bool { return n.WorkSum.Cmp(b.WorkSum) > 0 && extraBDone(&extraA) }, "A")
			extraB = rapid.IntRange(0, 3).Draw(t, "extraB2")
		}
		if switches < 2 {
			t.Fatalf("VERIF-INFRA: the best header switched %d times\nphases: %s", switches, desc())
		}
		cl := "one-switch-back"
		if rounds == 2 {
			cl = "two-rounds"
		}
		recLongView.Case(switches >= 2, cl, ev.HashS(desc()), func() any { return desc() })
		if testing.Verbose() {
			t.Logf("%s", desc())
		}
	})
}

// extraBDone counts down the extra headers added after a branch took the lead.
func extraBDone(left *int) bool {
	if *left <= 0 {
		return true
	}
	*left--
	return false
}
