package c07

// Calibration of the reference model (verif/internal/model/sighash) on the
// official vectors copied into /verif/corpus/c07:
//
//   sighash.json      Bitcoin Core's legacy SignatureHash vectors (500)
//   tx_valid.json     Bitcoin Core's valid transactions: every P2PKH, P2WPKH
//                     and P2WSH <key> CHECKSIG input carries an ECDSA
//                     signature that must verify against the model's legacy /
//                     BIP143 digest (checked with the model's own secp256k1)
//   taproot-ref.jsonl Bitcoin Core's feature_taproot.py vectors: every key
//                     path spend and every straight-line single-signature
//                     tapscript spend must verify (success) / not verify
//                     (failure) against the model's BIP341/342 digest
//   bip143.json       the worked examples of BIP143 (digest and signature)
//
// A disagreement is a harness defect (VERIF-INFRA), never a violation.

import (
	"bytes"
	"crypto/sha256"
	"encoding/hex"
	"encoding/json"
	"fmt"
	"math/big"
	"os"
	"path/filepath"
	"regexp"
	"strings"
	"testing"

	"golang.org/x/crypto/ripemd160"

	"verif/internal/ev"
	"verif/internal/model/secp"
	"verif/internal/model/sighash"
)

func corpusDir() string {
	d := os.Getenv("VERIF_CORPUS")
	if d == "" {
		d = "/verif/corpus"
	}
	return filepath.Join(d, "c07")
}

func infra(t testing.TB, format string, a ...any) {
	t.Helper()
	t.Fatalf("VERIF-INFRA: "+format, a...)
}

func mustHex(t testing.TB, s string) []byte {
	b, err := hex.DecodeString(s)
	if err != nil {
		infra(t, "bad hex in corpus: %q", s)
	}
	return b
}

func hash160(b []byte) []byte {
	s := sha256.Sum256(b)
	r := ripemd160.New()
	r.Write(s[:])
	return r.Sum(nil)
}

// parseDER decodes 30 len 02 rlen r 02 slen s (no strictness beyond the
// structure; BER length forms are not accepted).
func parseDER(sig []byte) (r, s *big.Int, ok bool) {
	if len(sig) < 8 || sig[0] != 0x30 || int(sig[1]) > len(sig)-2 {
		return nil, nil, false
	}
	body := sig[2 : 2+int(sig[1])]
	if len(body) < 2 || body[0] != 0x02 || int(body[1]) > len(body)-2 {
		return nil, nil, false
	}
	rl := int(body[1])
	rb := body[2 : 2+rl]
	rest := body[2+rl:]
	if len(rest) < 2 || rest[0] != 0x02 || int(rest[1]) > len(rest)-2 {
		return nil, nil, false
	}
	sb := rest[2 : 2+int(rest[1])]
	return new(big.Int).SetBytes(rb), new(big.Int).SetBytes(sb), true
}

// verifyECDSASig verifies a DER signature (without hash type byte) under a
// SEC1 public key with the model's curve arithmetic.
func verifyECDSASig(pub, der, digest []byte) bool {
	q, _, ok := secp.ParsePubKey(pub)
	if !ok {
		return false
	}
	r, s, ok := parseDER(der)
	if !ok {
		return false
	}
	return secp.VerifyECDSA(q, digest, r, s)
}

var recCalib = ev.New("C07", "calibration",
	"official vectors: Core sighash.json (digest equality), Core tx_valid.json P2PKH/P2WPKH/P2WSH-pk inputs and Core taproot-ref key path / "+
		"single-signature tapscript spends (signature must (not) verify against the MODEL digest with the model's secp256k1), BIP143 worked examples; "+
		"every vector is distinct; all are non-trivial",
	"sighash.json", "tx_valid-legacy", "tx_valid-bip143", "taproot-keypath", "taproot-scriptpath", "taproot-failure", "bip143-example")

func TestCalibration(t *testing.T) {
	if !secp.SelfCheck() {
		infra(t, "secp model self check failed")
	}
	calibSighashJSON(t)
	calibTxValid(t)
	calibTaprootRef(t)
	calibBIP143(t)
	recCalib.Exhaustive()
}

// ---------------------------------------------------------------------------

func calibSighashJSON(t *testing.T) {
	raw, err := os.ReadFile(filepath.Join(corpusDir(), "sighash.json"))
	if err != nil {
		infra(t, "%v", err)
	}
	var tests [][]any
	if err := json.Unmarshal(raw, &tests); err != nil {
		infra(t, "sighash.json: %v", err)
	}
	n := 0
	for i, tc := range tests {
		if len(tc) != 5 {
			continue
		}
		tx, err := sighash.ParseTx(mustHex(t, tc[0].(string)))
		if err != nil {
			infra(t, "sighash.json #%d: model cannot parse tx: %v", i, err)
		}
		script := mustHex(t, tc[1].(string))
		idx := int(tc[2].(float64))
		ht := uint32(int32(tc[3].(float64)))
		want := mustHex(t, tc[4].(string))
		for a, b := 0, len(want)-1; a < b; a, b = a+1, b-1 {
			want[a], want[b] = want[b], want[a]
		}
		got := sighash.Legacy(script, tx, idx, ht)
		if !bytes.Equal(got[:], want) {
			infra(t, "sighash.json #%d: model legacy digest %x, vector %x", i, got, want)
		}
		// the parser must round-trip (txid preimage)
		n++
	}
	if n < 400 {
		infra(t, "sighash.json: only %d vectors", n)
	}
	recCalib.Bulk(int64(n), int64(n))
	recCalib.Count("sighash.json", int64(n))
}

// ---------------------------------------------------------------------------

var (
	reP2WPKH = regexp.MustCompile(`^0x00 0x14 0x([0-9a-f]{40})$`)
	reP2WSH  = regexp.MustCompile(`^0x00 0x20 0x([0-9a-f]{64})$`)
	reP2PKH  = regexp.MustCompile(`^DUP HASH160 0x14 0x([0-9a-f]{40}) EQUALVERIFY CHECKSIG$`)
)

func calibTxValid(t *testing.T) {
	raw, err := os.ReadFile(filepath.Join(corpusDir(), "tx_valid.json"))
	if err != nil {
		infra(t, "%v", err)
	}
	var tests [][]any
	if err := json.Unmarshal(raw, &tests); err != nil {
		infra(t, "tx_valid.json: %v", err)
	}
	var nLegacy, nV0 int64
	hts := map[byte]bool{}
	for i, tc := range tests {
		if len(tc) != 3 {
			continue
		}
		ins, ok := tc[0].([]any)
		if !ok {
			continue
		}
		tx, err := sighash.ParseTx(mustHex(t, tc[1].(string)))
		if err != nil {
			infra(t, "tx_valid.json #%d: model cannot parse tx: %v", i, err)
		}
		type prev struct {
			asm string
			amt int64
		}
		prevs := map[string]prev{}
		for _, in := range ins {
			f := in.([]any)
			h := mustHex(t, f[0].(string))
			for a, b := 0, len(h)-1; a < b; a, b = a+1, b-1 {
				h[a], h[b] = h[b], h[a]
			}
			p := prev{asm: f[2].(string)}
			if len(f) > 3 {
				p.amt = int64(f[3].(float64))
			}
			prevs[fmt.Sprintf("%x:%d", h, uint32(int64(f[1].(float64))))] = p
		}
		for idx := range tx.In {
			in := &tx.In[idx]
			p, ok := prevs[fmt.Sprintf("%x:%d", in.PrevHash, in.PrevIndex)]
			if !ok {
				continue
			}
			switch {
			case reP2PKH.MatchString(p.asm):
				ops, ok := sighash.Parse(in.ScriptSig)
				if !ok || len(ops) != 2 || len(ops[0].Data) < 9 || (len(ops[1].Data) != 33 && len(ops[1].Data) != 65) {
					continue
				}
				h := mustHex(t, reP2PKH.FindStringSubmatch(p.asm)[1])
				if !bytes.Equal(hash160(ops[1].Data), h) {
					continue
				}
				sig := ops[0].Data
				ht := sig[len(sig)-1]
				code, _ := sighash.FindAndDelete(sighash.P2PKHScript(h), sighash.Push(sig))
				d := sighash.Legacy(code, tx, idx, uint32(ht))
				if _, _, ok := parseDER(sig[:len(sig)-1]); !ok {
					continue
				}
				if !verifyECDSASig(ops[1].Data, sig[:len(sig)-1], d[:]) {
					infra(t, "tx_valid.json #%d input %d: P2PKH signature does not verify against the model legacy digest %x (hashtype %#x)", i, idx, d, ht)
				}
				nLegacy++
				hts[ht] = true
			case reP2WPKH.MatchString(p.asm):
				w := in.Witness
				if len(w) != 2 || len(w[0]) < 9 || len(w[1]) != 33 {
					continue
				}
				h := mustHex(t, reP2WPKH.FindStringSubmatch(p.asm)[1])
				if !bytes.Equal(hash160(w[1]), h) {
					continue
				}
				sig := w[0]
				ht := sig[len(sig)-1]
				d := sighash.WitnessV0(sighash.P2PKHScript(h), tx, idx, uint32(ht), p.amt)
				if !verifyECDSASig(w[1], sig[:len(sig)-1], d[:]) {
					infra(t, "tx_valid.json #%d input %d: P2WPKH signature does not verify against the model BIP143 digest %x (hashtype %#x)", i, idx, d, ht)
				}
				nV0++
				hts[ht] = true
			case reP2WSH.MatchString(p.asm):
				w := in.Witness
				if len(w) != 2 || len(w[0]) < 9 {
					continue
				}
				ws := w[1]
				prog := mustHex(t, reP2WSH.FindStringSubmatch(p.asm)[1])
				s := sha256.Sum256(ws)
				if !bytes.Equal(s[:], prog) || len(ws) != 35 || ws[0] != 0x21 || ws[34] != 0xac {
					continue
				}
				sig := w[0]
				ht := sig[len(sig)-1]
				d := sighash.WitnessV0(ws, tx, idx, uint32(ht), p.amt)
				if !verifyECDSASig(ws[1:34], sig[:len(sig)-1], d[:]) {
					infra(t, "tx_valid.json #%d input %d: P2WSH signature does not verify against the model BIP143 digest %x (hashtype %#x)", i, idx, d, ht)
				}
				nV0++
				hts[ht] = true
			}
		}
	}
	if nLegacy < 10 || nV0 < 10 {
		infra(t, "tx_valid.json: only %d legacy / %d BIP143 signatures usable", nLegacy, nV0)
	}
	recCalib.Bulk(nLegacy+nV0, nLegacy+nV0)
	recCalib.Count("tx_valid-legacy", nLegacy)
	recCalib.Count("tx_valid-bip143", nV0)
	var l []string
	for h := range hts {
		l = append(l, fmt.Sprintf("%02x", h))
	}
	recCalib.Set("tx_valid_hash_types", strings.Join(sortStrings(l), ","))
}

func sortStrings(l []string) []string {
	for i := range l {
		for j := i + 1; j < len(l); j++ {
			if l[j] < l[i] {
				l[i], l[j] = l[j], l[i]
			}
		}
	}
	return l
}

// ---------------------------------------------------------------------------

type tapRefSpend struct {
	ScriptSig string   `json:"scriptSig"`
	Witness   []string `json:"witness"`
}

type tapRef struct {
	Tx       string       `json:"tx"`
	Prevouts []string     `json:"prevouts"`
	Index    int          `json:"index"`
	Comment  string       `json:"comment"`
	File     string       `json:"file"`
	Success  *tapRefSpend `json:"success"`
	Failure  *tapRefSpend `json:"failure"`
}

// tapRefVerdict evaluates a taproot spend with the model when it has one of
// the two shapes the calibration understands. known=false: shape not covered.
func tapRefVerdict(t *testing.T, v *tapRef, sp *tapRefSpend) (valid, known, keypath bool) {
	tx, err := sighash.ParseTx(mustHex(t, v.Tx))
	if err != nil {
		infra(t, "taproot-ref %s: %v", v.File, err)
	}
	if len(v.Prevouts) != len(tx.In) {
		infra(t, "taproot-ref %s: prevout count", v.File)
	}
	spent := make([]sighash.TxOut, len(tx.In))
	for i, p := range v.Prevouts {
		b := mustHex(t, p)
		if len(b) < 9 {
			infra(t, "taproot-ref %s: prevout", v.File)
		}
		var val uint64
		for k := 7; k >= 0; k-- {
			val = val<<8 | uint64(b[k])
		}
		// compact size of scripts here is a single byte
		if int(b[8]) != len(b)-9 {
			infra(t, "taproot-ref %s: prevout script length", v.File)
		}
		spent[i] = sighash.TxOut{Value: int64(val), PkScript: b[9:]}
	}
	pk := spent[v.Index].PkScript
	if len(pk) != 34 || pk[0] != 0x51 || pk[1] != 0x20 || sp.ScriptSig != "" {
		return false, false, false
	}
	var wit [][]byte
	for _, w := range sp.Witness {
		wit = append(wit, mustHex(t, w))
	}
	var annex []byte
	if len(wit) >= 2 && len(wit[len(wit)-1]) > 0 && wit[len(wit)-1][0] == 0x50 {
		annex = wit[len(wit)-1]
		wit = wit[:len(wit)-1]
	}
	check := func(key, sig []byte, ext *sighash.TapscriptExt) bool {
		ht := uint32(0)
		switch len(sig) {
		case 64:
		case 65:
			ht = uint32(sig[64])
			if ht == 0 {
				return false
			}
		default:
			return false
		}
		d, err := sighash.Taproot(tx, v.Index, ht, spent, annex, ext)
		if err != nil {
			return false
		}
		return secp.VerifySchnorr(key, d[:], sig[:64])
	}
	if len(wit) == 1 {
		return check(pk[2:], wit[0], nil), true, true
	}
	if len(wit) != 3 {
		return false, false, false
	}
	// script path: [sig, script, control]; understood only for straight-line
	// scripts made of pushes, OP_CODESEPARATOR and exactly one
	// CHECKSIG/CHECKSIGVERIFY/CHECKSIGADD whose key is the preceding 32-byte
	// push, in the base leaf version.
	script, control := wit[1], wit[2]
	if len(control) < 33 || (len(control)-33)%32 != 0 || control[0]&0xfe != 0xc0 {
		return false, false, false
	}
	ops, ok := sighash.Parse(script)
	if !ok {
		return false, false, false
	}
	sigOp := -1
	for i, op := range ops {
		switch {
		case op.Code <= 0x60: // pushes and small integers
		case op.Code == 0xab, op.Code == 0x87: // CODESEPARATOR, EQUAL
		case op.Code == 0xac || op.Code == 0xad || op.Code == 0xba:
			if sigOp >= 0 {
				return false, false, false
			}
			sigOp = i
		default:
			return false, false, false
		}
	}
	if sigOp < 1 || len(ops[sigOp-1].Data) != 32 || ops[sigOp-1].Code != 0x20 {
		return false, false, false
	}
	ext := &sighash.TapscriptExt{LeafHash: sighash.TapLeafHash(control[0]&0xfe, script), CodeSepPos: sighash.NoCodeSep}
	for i := 0; i < sigOp; i++ {
		if ops[i].Code == 0xab {
			ext.CodeSepPos = uint32(i)
		}
	}
	// the commitment itself must hold for the spend to be about the sighash:
	// recompute the output key from the control block with the model
	k := ext.LeafHash
	for off := 33; off < len(control); off += 32 {
		var e [32]byte
		copy(e[:], control[off:off+32])
		k = sighash.TapBranchHash(k, e)
	}
	P, ok := secp.LiftX(new(big.Int).SetBytes(control[1:33]))
	if !ok {
		return false, false, false
	}
	tw := sighash.TaggedHash("TapTweak", control[1:33], k[:])
	tv := new(big.Int).SetBytes(tw[:])
	if tv.Cmp(secp.N) >= 0 {
		return false, false, false
	}
	Q := secp.Add(P, secp.BaseMul(tv))
	if Q.Inf || !bytes.Equal(secp.Bytes32(Q.X), pk[2:]) || byte(Q.Y.Bit(0)) != control[0]&1 {
		return false, false, false
	}
	return check(ops[sigOp-1].Data, wit[0], ext), true, false
}

func calibTaprootRef(t *testing.T) {
	raw, err := os.ReadFile(filepath.Join(corpusDir(), "taproot-ref.jsonl"))
	if err != nil {
		infra(t, "%v", err)
	}
	var nKey, nScript, nFail int64
	seenHT := map[string]bool{}
	for _, line := range bytes.Split(raw, []byte("\n")) {
		if len(bytes.TrimSpace(line)) == 0 {
			continue
		}
		var v tapRef
		if err := json.Unmarshal(line, &v); err != nil {
			infra(t, "taproot-ref.jsonl: %v", err)
		}
		if !strings.Contains(v.Comment, "sighash/") && !strings.HasPrefix(v.Comment, "sig/") &&
			!strings.HasPrefix(v.Comment, "applic/") {
			continue
		}
		if v.Success != nil {
			valid, known, keypath := tapRefVerdict(t, &v, v.Success)
			if known {
				if !valid {
					infra(t, "taproot-ref %s (%s): success spend does not verify against the model BIP341 digest", v.File, v.Comment)
				}
				if keypath {
					nKey++
				} else {
					nScript++
				}
				seenHT[v.Comment] = true
			}
		}
		// Failure spends of the sighash/ and sig/ groups differ from the
		// success spend only in the signed message, key or signature bytes,
		// so the signature must not verify.
		if v.Failure != nil && (strings.HasPrefix(v.Comment, "sighash/") || strings.HasPrefix(v.Comment, "sig/")) {
			valid, known, _ := tapRefVerdict(t, &v, v.Failure)
			if known {
				if valid {
					infra(t, "taproot-ref %s (%s): failure spend verifies against the model BIP341 digest", v.File, v.Comment)
				}
				nFail++
			}
		}
	}
	if nKey < 50 || nScript < 50 || nFail < 50 {
		infra(t, "taproot-ref: only %d key path / %d script path / %d failure vectors usable", nKey, nScript, nFail)
	}
	for _, need := range []string{"sighash/annex", "sighash/codesep_pk", "sighash/pk_codesep", "sighash/keypath_hashtype_83",
		"sighash/scriptpath_hashtype_82", "sighash/keypath_hashtype_0", "sighash/scriptpath_hashtype_3"} {
		if !seenHT[need] {
			infra(t, "taproot-ref: group %s not exercised", need)
		}
	}
	recCalib.Bulk(nKey+nScript+nFail, nKey+nScript+nFail)
	recCalib.Count("taproot-keypath", nKey)
	recCalib.Count("taproot-scriptpath", nScript)
	recCalib.Count("taproot-failure", nFail)
}

// ---------------------------------------------------------------------------

type bip143Vec struct {
	Name       string `json:"name"`
	Tx         string `json:"tx"`
	Index      int    `json:"index"`
	ScriptCode string `json:"script_code"`
	Amount     int64  `json:"amount"`
	HashType   uint32 `json:"hash_type"`
	SigHash    string `json:"sighash"`
	PubKey     string `json:"pubkey"`
	Sig        string `json:"sig"` // DER without hash type byte, may be empty
}

func calibBIP143(t *testing.T) {
	raw, err := os.ReadFile(filepath.Join(corpusDir(), "bip143.json"))
	if err != nil {
		infra(t, "%v", err)
	}
	var vecs []bip143Vec
	if err := json.Unmarshal(raw, &vecs); err != nil {
		infra(t, "bip143.json: %v", err)
	}
	for _, v := range vecs {
		tx, err := sighash.ParseTx(mustHex(t, v.Tx))
		if err != nil {
			infra(t, "bip143 %s: %v", v.Name, err)
		}
		code := mustHex(t, v.ScriptCode)
		if len(code) == 0 {
			// P2WPKH: the script code is derived from the public key
			code = sighash.P2PKHScript(hash160(mustHex(t, v.PubKey)))
		}
		d := sighash.WitnessV0(code, tx, v.Index, v.HashType, v.Amount)
		if hex.EncodeToString(d[:]) != v.SigHash {
			infra(t, "bip143 %s: model digest %x, BIP143 says %s", v.Name, d, v.SigHash)
		}
		if v.Sig != "" && !verifyECDSASig(mustHex(t, v.PubKey), mustHex(t, v.Sig), d[:]) {
			infra(t, "bip143 %s: published signature does not verify", v.Name)
		}
	}
	if len(vecs) < 1 {
		infra(t, "bip143.json: no vectors")
	}
	recCalib.Bulk(int64(len(vecs)), int64(len(vecs)))
	recCalib.Count("bip143-example", int64(len(vecs)))
}
