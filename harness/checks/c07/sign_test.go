package c07

import (
	"fmt"
	"testing"

	"github.com/btcsuite/btcd/txscript/v2"
	"pgregory.net/rapid"

	"verif/internal/ev"
	"verif/internal/model/sighash"
)

// sharedSigCache lives for the whole process so that entries of earlier cases
// and of the unmutated transaction are present when later verifications run.
var sharedSigCache = txscript.NewSigCache(20000)

// runEngine verifies input idx with btcd's interpreter.
func runEngine(sp *spend, tx *sighash.Tx, idx int, spent []sighash.TxOut, sigCache *txscript.SigCache, withMidstate bool) error {
	w := toWire(tx)
	f := fetcherFor(tx, spent)
	var sh *txscript.TxSigHashes
	if withMidstate || sp.taproot {
		// taproot verification documents that the midstate MUST be passed in
		sh = txscript.NewTxSigHashes(w, f)
	}
	vm, err := txscript.NewEngine(spent[idx].PkScript, w, idx, sp.flags, sigCache, sh, spent[idx].Value, f)
	if err != nil {
		return fmt.Errorf("NewEngine: %w", err)
	}
	return vm.Execute()
}

func genAmount(t *rapid.T) int64 {
	if rapid.IntRange(0, 3).Draw(t, "amount?") == 0 {
		return rapid.SampledFrom([]int64{0, 1, 546, 2100000000000000, 0xffffffff, 0x100000000}).Draw(t, "amount")
	}
	return rapid.Int64Range(0, 2100000000000000).Draw(t, "amount")
}

func describeSpend(tx *sighash.Tx, idx int, spent []sighash.TxOut, sp *spend) string {
	return fmt.Sprintf("kind=%s hashType=%#x flags=%#x %s spent=%v", sp.kind, sp.hashType, uint32(sp.flags), describe(tx, idx, spent[idx].PkScript), spent)
}

// signInput signs input i and installs the result; for taproot kinds with
// SIGHASH_SINGLE and no matching output the signer must refuse (BIP341) and the
// spend falls back to another hash type.
func signInput(t *rapid.T, rec *ev.Rec, sp *spend, tx *sighash.Tx, i int, spent []sighash.TxOut, fallback uint32) []sigRec {
	ss, wit, recs, err := sp.sign(tx, i, spent)
	if sp.taproot && sp.hashType&3 == 3 && i >= len(tx.Out) {
		if err == nil {
			t.Fatalf("signer produced a taproot SIGHASH_SINGLE signature although input %d has no matching output (BIP341: invalid)\n%s", i, describeSpend(tx, i, spent, sp))
		}
		rec.Count("taproot-single-without-output-refused", 1)
		sp.hashType = fallback
		ss, wit, recs, err = sp.sign(tx, i, spent)
	}
	if err != nil {
		t.Fatalf("signing failed: %v\n%s", err, describeSpend(tx, i, spent, sp))
	}
	tx.In[i].ScriptSig = ss
	tx.In[i].Witness = wit
	spent[i].PkScript = sp.pkScript // (depends on the signature for one kind)
	return recs
}

// ---------------------------------------------------------------------------
// sub-check 3: btcd's signing helpers => btcd's interpreter and the model

var recSigners = ev.New("C07", "signers",
	"every input of a generated transaction (1-6 in, 0-6 out, junk scriptSigs/witnesses on not yet signed inputs) spends an output of a drawn "+
		"standard kind, built from raw bytes and (taproot) the model's curve: P2PKH compressed/uncompressed via SignatureScript; P2PK, P2PKH, bare m-of-n "+
		"multisig (signer knows >= m keys), P2SH-P2PK/P2PKH/multisig via SignTxOutput with KeyDB/ScriptDB closures, two-party multisig merged through "+
		"previousScript; P2WPKH and P2SH-P2WPKH via WitnessSignature; P2WSH pk/multisig via RawTxInWitnessSignature; P2TR BIP86 key path via "+
		"TaprootWitnessSignature, key path with script tree via RawTxInTaprootSignature, script path via RawTxInTapscriptSignature; each with a drawn "+
		"DEFINED hash type, inputs signed in a drawn order; oracle: Engine.Execute under StandardVerifyFlags succeeds for every input without caches "+
		"and twice with the process-wide SigCache + midstates (second run hits the cache), and the focus input's signatures verify against the MODEL "+
		"digest with the model's secp256k1; taproot SINGLE without matching output must be refused by the signer; "+
		"non-trivial = focus hash type != ALL/DEFAULT or focus index > 0 or SINGLE without output; distinct by (tx, kinds, hash types)",
	"p2pkh-c", "p2pkh-u", "p2pk", "p2pkh-sto", "multisig", "p2sh-p2pkh", "p2sh-p2pk", "p2sh-multisig", "multisig-merge",
	"p2wpkh", "p2sh-p2wpkh", "p2wsh-pk", "p2wsh-multisig", "p2tr-bip86", "p2tr-keytree", "p2tr-script",
	"ht:00", "ht:01", "ht:02", "ht:03", "ht:81", "ht:82", "ht:83", "legacy-single-without-output", "taproot-single-without-output-refused")

func TestSigners(t *testing.T) {
	rapid.Check(t, func(t *rapid.T) {
		tx := genTx(t)
		n := len(tx.In)
		focus := rapid.IntRange(0, n-1).Draw(t, "focus")
		sps := make([]*spend, n)
		spent := make([]sighash.TxOut, n)
		var desc []byte
		for i := range sps {
			sps[i] = mkSpend(t, rapid.SampledFrom(helperKinds).Draw(t, "kind"))
			spent[i] = sighash.TxOut{Value: genAmount(t), PkScript: sps[i].pkScript}
			desc = append(desc, []byte(fmt.Sprintf("%s/%x/%d;", sps[i].kind, sps[i].hashType, spent[i].Value))...)
		}
		order := rapid.Permutation([]int{0, 1, 2, 3, 4, 5}[:n]).Draw(t, "order")
		fallback := rapid.SampledFrom([]uint32{0, 1, 2, 0x81, 0x82}).Draw(t, "fallback")
		fsp := sps[focus]
		nt := (fsp.hashType != 1 && fsp.hashType != 0) || focus > 0
		recSigners.Case(nt, fsp.kind, caseHash(tx, desc), func() any { return describeSpend(tx, focus, spent, fsp) })

		recs := make([][]sigRec, n)
		for _, i := range order {
			recs[i] = signInput(t, recSigners, sps[i], tx, i, spent, fallback)
			if i != focus {
				recSigners.Count(sps[i].kind, 1)
			}
			recSigners.Count(fmt.Sprintf("ht:%02x", sps[i].hashType), 1)
			if !sps[i].taproot && sps[i].legacy && sps[i].hashType&0x1f == 3 && i >= len(tx.Out) {
				recSigners.Count("legacy-single-without-output", 1)
			}
		}
		for i := range sps {
			if err := runEngine(sps[i], tx, i, spent, nil, false); err != nil {
				t.Fatalf("helper-signed input %d does not verify (no caches): %v\n%s", i, err, describeSpend(tx, i, spent, sps[i]))
			}
			for rep := 0; rep < 2; rep++ {
				if err := runEngine(sps[i], tx, i, spent, sharedSigCache, true); err != nil {
					t.Fatalf("helper-signed input %d does not verify (SigCache + midstates, run %d): %v\n%s", i, rep, err, describeSpend(tx, i, spent, sps[i]))
				}
			}
		}
		// the produced signatures sign the specified digest
		ds, err := fsp.digests(tx, focus, spent)
		if err != nil {
			t.Fatalf("VERIF-INFRA: model digest error for a signed input: %v", err)
		}
		for k, r := range recs[focus] {
			if !r.schnorr && uint32(r.sig[len(r.sig)-1]) != fsp.hashType {
				t.Fatalf("signature %d carries hash type byte %#x, requested %#x\n%s", k, r.sig[len(r.sig)-1], fsp.hashType, describeSpend(tx, focus, spent, fsp))
			}
			if r.schnorr && ((fsp.hashType == 0) != (len(r.sig) == 64) || (len(r.sig) == 65 && uint32(r.sig[64]) != fsp.hashType)) {
				t.Fatalf("schnorr signature %d has length %d / type byte for requested hash type %#x\n%s", k, len(r.sig), fsp.hashType, describeSpend(tx, focus, spent, fsp))
			}
			if !verifyWithModel(r, ds) {
				t.Fatalf("signature %d of input %d (%x under key %x) does not verify against the specified digest %x\n%s",
					k, focus, r.sig, r.pub, ds[r.di], describeSpend(tx, focus, spent, fsp))
			}
		}
	})
}

// ---------------------------------------------------------------------------
// sub-check 3b: spends signed by the MODEL must be accepted by btcd

var recModelSigned = ev.New("C07", "model-signed",
	"spends whose signatures are made by the model signer over the MODEL digest, for contexts btcd's helpers cannot express: taproot key path and "+
		"script path with annex, tapscript with an executed OP_CODESEPARATOR at opcode position 2-5 (two signatures, codesep_pos 0xffffffff and k), "+
		"legacy bare script and P2WSH script with an executed OP_CODESEPARATOR (+ trailing one), legacy output script embedding 1-2 pushes of its own "+
		"spending signature (FindAndDelete), P2PKH/P2WPKH with ANY hash type byte under block-validation flags; oracle: Engine.Execute succeeds "+
		"(without caches, and twice with SigCache + midstates); non-trivial = always; distinct by (tx, kind parameters)",
	"m-p2tr-key-annex", "m-p2tr-script-annex", "m-p2tr-codesep", "m-legacy-codesep", "m-legacy-embedded-sig", "m-p2wsh-codesep",
	"m-p2pkh-anyht", "m-p2wpkh-anyht", "undefined-hashtype")

func TestModelSigned(t *testing.T) {
	rapid.Check(t, func(t *rapid.T) {
		tx := genTx(t)
		idx := rapid.IntRange(0, len(tx.In)-1).Draw(t, "idx")
		sp := mkSpend(t, rapid.SampledFrom(modelKinds).Draw(t, "kind"))
		if sp.taproot && sp.hashType&3 == 3 && idx >= len(tx.Out) {
			sp.hashType = rapid.SampledFrom([]uint32{0, 1, 2, 0x81, 0x82}).Draw(t, "fallback")
		}
		spent := genSpent(t, tx, -1, false)
		spent[idx] = sighash.TxOut{Value: genAmount(t), PkScript: sp.pkScript}
		recModelSigned.Case(true, sp.kind, caseHash(tx, []byte(fmt.Sprintf("%s/%x/%d/%d", sp.kind, sp.hashType, idx, spent[idx].Value))), func() any {
			return describeSpend(tx, idx, spent, sp)
		})
		if b := sp.hashType &^ 0x80; !sp.taproot && (b < 1 || b > 3) {
			recModelSigned.Count("undefined-hashtype", 1)
		}
		signInput(t, recModelSigned, sp, tx, idx, spent, 0)
		if err := runEngine(sp, tx, idx, spent, nil, false); err != nil {
			t.Fatalf("btcd rejects a spend whose signatures are valid for the specified digest (no caches): %v\n%s", err, describeSpend(tx, idx, spent, sp))
		}
		for rep := 0; rep < 2; rep++ {
			if err := runEngine(sp, tx, idx, spent, sharedSigCache, true); err != nil {
				t.Fatalf("btcd rejects a spend whose signatures are valid for the specified digest (SigCache + midstates, run %d): %v\n%s", rep, err, describeSpend(tx, idx, spent, sp))
			}
		}
	})
}

// ---------------------------------------------------------------------------
// sub-check 4: commitment relation

type mutation struct {
	name  string
	apply func(tx *sighash.Tx, spent *[]sighash.TxOut, idx *int)
}

func flipByte(b []byte) []byte {
	if len(b) == 0 {
		return []byte{0x51}
	}
	c := append([]byte{}, b...)
	c[len(c)/2] ^= 0x01
	return c
}

// mutationsFor lists the single-field mutations applicable to a signed spend
// of input idx. Fields whose change breaks the spend for a reason other than
// the signature are left out: the signed input's own scriptSig and witness
// stack (they carry the signatures / scripts), and its own output script.
func mutationsFor(tx *sighash.Tx, idx int, sp *spend) []mutation {
	var ms []mutation
	add := func(name string, f func(tx *sighash.Tx, spent *[]sighash.TxOut, idx *int)) {
		ms = append(ms, mutation{name, f})
	}
	add("version", func(tx *sighash.Tx, _ *[]sighash.TxOut, _ *int) { tx.Version ^= 1 })
	add("version-high", func(tx *sighash.Tx, _ *[]sighash.TxOut, _ *int) { tx.Version ^= 1 << 30 })
	add("locktime", func(tx *sighash.Tx, _ *[]sighash.TxOut, _ *int) { tx.LockTime++ })
	add("locktime-high", func(tx *sighash.Tx, _ *[]sighash.TxOut, _ *int) { tx.LockTime ^= 1 << 31 })
	for j := range tx.In {
		j := j
		add(fmt.Sprintf("in[%d].outpoint.hash", j), func(tx *sighash.Tx, _ *[]sighash.TxOut, _ *int) { tx.In[j].PrevHash[3] ^= 0x10 })
		add(fmt.Sprintf("in[%d].outpoint.index", j), func(tx *sighash.Tx, _ *[]sighash.TxOut, _ *int) { tx.In[j].PrevIndex ^= 1 })
		add(fmt.Sprintf("in[%d].sequence", j), func(tx *sighash.Tx, _ *[]sighash.TxOut, _ *int) { tx.In[j].Sequence ^= 0x40 })
		add(fmt.Sprintf("in[%d].sequence-high", j), func(tx *sighash.Tx, _ *[]sighash.TxOut, _ *int) { tx.In[j].Sequence ^= 1 << 31 })
		if j != idx {
			add(fmt.Sprintf("in[%d].scriptSig", j), func(tx *sighash.Tx, _ *[]sighash.TxOut, _ *int) { tx.In[j].ScriptSig = flipByte(tx.In[j].ScriptSig) })
			add(fmt.Sprintf("in[%d].scriptSig-clear", j), func(tx *sighash.Tx, _ *[]sighash.TxOut, _ *int) {
				if len(tx.In[j].ScriptSig) == 0 {
					tx.In[j].ScriptSig = []byte{0x00}
				} else {
					tx.In[j].ScriptSig = nil
				}
			})
			add(fmt.Sprintf("in[%d].witness", j), func(tx *sighash.Tx, _ *[]sighash.TxOut, _ *int) {
				if len(tx.In[j].Witness) == 0 {
					tx.In[j].Witness = [][]byte{{0x50, 0x01}, {0x02}}
				} else {
					tx.In[j].Witness[0] = flipByte(tx.In[j].Witness[0])
				}
			})
			add(fmt.Sprintf("in[%d].spent.value", j), func(_ *sighash.Tx, spent *[]sighash.TxOut, _ *int) { (*spent)[j].Value++ })
			add(fmt.Sprintf("in[%d].spent.script", j), func(_ *sighash.Tx, spent *[]sighash.TxOut, _ *int) {
				s := flipByte((*spent)[j].PkScript)
				(*spent)[j].PkScript = append(s, 0x51)
			})
		}
	}
	for k := range tx.Out {
		k := k
		add(fmt.Sprintf("out[%d].value", k), func(tx *sighash.Tx, _ *[]sighash.TxOut, _ *int) { tx.Out[k].Value++ })
		add(fmt.Sprintf("out[%d].value-high", k), func(tx *sighash.Tx, _ *[]sighash.TxOut, _ *int) { tx.Out[k].Value ^= 1 << 40 })
		add(fmt.Sprintf("out[%d].script", k), func(tx *sighash.Tx, _ *[]sighash.TxOut, _ *int) { tx.Out[k].PkScript = flipByte(tx.Out[k].PkScript) })
		add(fmt.Sprintf("out[%d].script-extend", k), func(tx *sighash.Tx, _ *[]sighash.TxOut, _ *int) {
			tx.Out[k].PkScript = append(append([]byte{}, tx.Out[k].PkScript...), 0x00)
		})
	}
	add("spent amount", func(_ *sighash.Tx, spent *[]sighash.TxOut, idx *int) { (*spent)[*idx].Value++ })
	add("spent amount-high", func(_ *sighash.Tx, spent *[]sighash.TxOut, idx *int) { (*spent)[*idx].Value ^= 1 << 33 })
	add("append output", func(tx *sighash.Tx, _ *[]sighash.TxOut, _ *int) {
		tx.Out = append(tx.Out, sighash.TxOut{Value: 1000, PkScript: []byte{0x51}})
	})
	if len(tx.Out) > 0 {
		add("drop last output", func(tx *sighash.Tx, _ *[]sighash.TxOut, _ *int) { tx.Out = tx.Out[:len(tx.Out)-1] })
		add("prepend output", func(tx *sighash.Tx, _ *[]sighash.TxOut, _ *int) {
			tx.Out = append([]sighash.TxOut{{Value: 7, PkScript: []byte{0x6a}}}, tx.Out...)
		})
	}
	if len(tx.Out) > 1 {
		add("swap outputs 0,1", func(tx *sighash.Tx, _ *[]sighash.TxOut, _ *int) { tx.Out[0], tx.Out[1] = tx.Out[1], tx.Out[0] })
	}
	newIn := func(tag byte) (sighash.TxIn, sighash.TxOut) {
		in := sighash.TxIn{PrevIndex: 5, Sequence: 0xfffffffd, ScriptSig: []byte{0x51}}
		for k := range in.PrevHash {
			in.PrevHash[k] = tag
		}
		return in, sighash.TxOut{Value: 12345, PkScript: []byte{0x00, 0x14, 1, 2, 3, 4, 5, 6, 7, 8, 9, 10, 11, 12, 13, 14, 15, 16, 17, 18, 19, 20}}
	}
	add("append input", func(tx *sighash.Tx, spent *[]sighash.TxOut, _ *int) {
		in, so := newIn(0xee)
		tx.In = append(tx.In, in)
		*spent = append(*spent, so)
	})
	add("prepend input", func(tx *sighash.Tx, spent *[]sighash.TxOut, idx *int) {
		in, so := newIn(0xed)
		tx.In = append([]sighash.TxIn{in}, tx.In...)
		*spent = append([]sighash.TxOut{so}, *spent...)
		*idx++
	})
	if idx != len(tx.In)-1 {
		add("drop last input", func(tx *sighash.Tx, spent *[]sighash.TxOut, _ *int) {
			tx.In = tx.In[:len(tx.In)-1]
			*spent = (*spent)[:len(*spent)-1]
		})
	}
	if idx != 0 {
		add("drop first input", func(tx *sighash.Tx, spent *[]sighash.TxOut, idx *int) {
			tx.In = tx.In[1:]
			*spent = (*spent)[1:]
			*idx--
		})
		add("swap with input 0", func(tx *sighash.Tx, spent *[]sighash.TxOut, idx *int) {
			tx.In[0], tx.In[*idx] = tx.In[*idx], tx.In[0]
			(*spent)[0], (*spent)[*idx] = (*spent)[*idx], (*spent)[0]
			*idx = 0
		})
	}
	if sp.taproot {
		if annexOf(tx.In[idx].Witness) == nil {
			add("add annex", func(tx *sighash.Tx, _ *[]sighash.TxOut, idx *int) {
				tx.In[*idx].Witness = append(tx.In[*idx].Witness, []byte{0x50, 0xaa})
			})
			add("add empty annex", func(tx *sighash.Tx, _ *[]sighash.TxOut, idx *int) {
				tx.In[*idx].Witness = append(tx.In[*idx].Witness, []byte{0x50})
			})
		} else {
			add("remove annex", func(tx *sighash.Tx, _ *[]sighash.TxOut, idx *int) {
				w := tx.In[*idx].Witness
				tx.In[*idx].Witness = w[:len(w)-1]
			})
			add("change annex", func(tx *sighash.Tx, _ *[]sighash.TxOut, idx *int) {
				w := tx.In[*idx].Witness
				w[len(w)-1] = append(append([]byte{}, w[len(w)-1]...), 0x00)
			})
			add("flip annex bit", func(tx *sighash.Tx, _ *[]sighash.TxOut, idx *int) {
				w := tx.In[*idx].Witness
				a := append([]byte{}, w[len(w)-1]...)
				a[len(a)-1] ^= 0x80
				if len(a) == 1 {
					a = []byte{0x50, 0x00}
				}
				w[len(w)-1] = a
			})
		}
	}
	return ms
}

func cloneSpent(s []sighash.TxOut) []sighash.TxOut {
	c := make([]sighash.TxOut, len(s))
	for i := range s {
		c[i] = sighash.TxOut{Value: s[i].Value, PkScript: append([]byte{}, s[i].PkScript...)}
	}
	return c
}

var recCommit = ev.New("C07", "commitment",
	"one input of a generated transaction is signed (all helper kinds of [signers] and all model-signed kinds of [model-signed], drawn hash type), "+
		"the other inputs carry junk; after the unmutated spend verified with the process-wide SigCache, EVERY applicable single-field mutation is "+
		"applied in turn: version, lock time, each input's outpoint hash / index / sequence, other inputs' scriptSig / witness / spent value / spent "+
		"script, each output's value / script, the spent amount, appended / dropped / prepended / swapped outputs and inputs (the signed input may "+
		"move), annex added / removed / changed; oracle: Engine.Execute on the mutated spend succeeds IFF the MODEL digest(s) of the signed input are "+
		"unchanged - both directions, alternating SigCache+midstates and no caches; non-trivial = hash type != ALL/DEFAULT or index > 0 or model-signed; "+
		"distinct by (tx, kind, hash type, index); class counters: commit:<field> = mutation invalidated the signature, free:<field> = it did not",
	"p2pkh-c", "p2pk", "multisig", "p2sh-multisig", "p2wpkh", "p2sh-p2wpkh", "p2wsh-pk", "p2tr-bip86", "p2tr-keytree", "p2tr-script",
	"m-p2tr-key-annex", "m-p2tr-script-annex", "m-p2tr-codesep", "m-legacy-codesep", "m-legacy-embedded-sig", "m-p2wsh-codesep", "m-p2pkh-anyht", "m-p2wpkh-anyht",
	"commit:version", "commit:locktime", "commit:out.value", "free:out.value", "commit:out.script", "free:out.script",
	"commit:in.sequence", "free:in.sequence", "commit:in.outpoint", "free:in.outpoint", "free:in.scriptSig", "free:in.witness",
	"commit:spent amount", "free:spent amount", "commit:in.spent", "free:in.spent", "commit:annex", "commit:inputs", "free:inputs", "commit:outputs", "free:outputs")

// mutClass maps a mutation name onto a field class for the histogram.
func mutClass(name string) string {
	switch {
	case name == "version" || name == "version-high":
		return "version"
	case name == "locktime" || name == "locktime-high":
		return "locktime"
	case name == "spent amount" || name == "spent amount-high":
		return "spent amount"
	case len(name) > 3 && name[:3] == "out":
		if name[len(name)-5:] == "value" || name[len(name)-4:] == "high" {
			return "out.value"
		}
		return "out.script"
	case len(name) > 3 && name[:3] == "in[":
		switch {
		case contains(name, "sequence"):
			return "in.sequence"
		case contains(name, "outpoint"):
			return "in.outpoint"
		case contains(name, "scriptSig"):
			return "in.scriptSig"
		case contains(name, "witness"):
			return "in.witness"
		}
		return "in.spent"
	case contains(name, "annex"):
		return "annex"
	case contains(name, "input"):
		return "inputs"
	}
	return "outputs"
}

func contains(s, sub string) bool {
	for i := 0; i+len(sub) <= len(s); i++ {
		if s[i:i+len(sub)] == sub {
			return true
		}
	}
	return false
}

func TestCommitment(t *testing.T) {
	allKinds := append(append([]string{}, helperKinds...), modelKinds...)
	rapid.Check(t, func(t *rapid.T) {
		tx := genTx(t)
		idx := rapid.IntRange(0, len(tx.In)-1).Draw(t, "idx")
		sp := mkSpend(t, rapid.SampledFrom(allKinds).Draw(t, "kind"))
		fallback := rapid.SampledFrom([]uint32{0, 1, 2, 0x81, 0x82}).Draw(t, "fallback")
		if !sp.helper && sp.taproot && sp.hashType&3 == 3 && idx >= len(tx.Out) {
			sp.hashType = fallback
		}
		spent := genSpent(t, tx, -1, false)
		spent[idx] = sighash.TxOut{Value: genAmount(t), PkScript: sp.pkScript}
		nt := (sp.hashType != 1 && sp.hashType != 0) || idx > 0 || !sp.helper
		recCommit.Case(nt, sp.kind, caseHash(tx, []byte(fmt.Sprintf("%s/%x/%d/%d", sp.kind, sp.hashType, idx, spent[idx].Value))), func() any {
			return describeSpend(tx, idx, spent, sp)
		})
		signInput(t, recCommit, sp, tx, idx, spent, fallback)
		if err := runEngine(sp, tx, idx, spent, sharedSigCache, true); err != nil {
			t.Fatalf("signed input does not verify before any mutation: %v\n%s", err, describeSpend(tx, idx, spent, sp))
		}
		base, err := sp.digests(tx, idx, spent)
		if err != nil {
			t.Fatalf("VERIF-INFRA: model digest error for a signed input: %v", err)
		}
		for mi, m := range mutationsFor(tx, idx, sp) {
			mtx, mspent, midx := tx.Clone(), cloneSpent(spent), idx
			m.apply(mtx, &mspent, &midx)
			after, derr := sp.digests(mtx, midx, mspent)
			changed := derr != nil
			if !changed {
				for k := range base {
					if base[k] != after[k] {
						changed = true
					}
				}
			}
			var cache *txscript.SigCache
			if mi%2 == 0 {
				cache = sharedSigCache
			}
			verr := runEngine(sp, mtx, midx, mspent, cache, mi%2 == 0)
			if changed {
				recCommit.Count("commit:"+mutClass(m.name), 1)
			} else {
				recCommit.Count("free:"+mutClass(m.name), 1)
			}
			switch {
			case changed && verr == nil:
				t.Fatalf("mutation %q changes the specified digest (%x -> %x, model error %v) but the old signature still verifies (sigCache=%v)\nbefore: %s\nafter:  %s",
					m.name, base, after, derr, cache != nil, describeSpend(tx, idx, spent, sp), describeSpend(mtx, midx, mspent, sp))
			case !changed && verr != nil:
				t.Fatalf("mutation %q does not change the specified digest %x but the signature no longer verifies: %v (sigCache=%v)\nbefore: %s\nafter:  %s",
					m.name, base, verr, cache != nil, describeSpend(tx, idx, spent, sp), describeSpend(mtx, midx, mspent, sp))
			}
		}
	})
}

// ---------------------------------------------------------------------------
// sub-check 5: the signature cache is keyed by (digest, signature, public key)

var recSigCache = ev.New("C07", "sigcache-model",
	"operation sequences (Add / Exists) over a small universe of digests, signatures and keys (so that two components coincide while the third "+
		"differs) on SigCaches of capacity 0-4 and 1000; oracle: Exists(d,s,k) is true only if exactly that triple was added before (a cache may "+
		"forget, never invent), and it is true right after Add when capacity > 0; non-trivial = some query shares two components with an added "+
		"triple but not the third; distinct by (capacity, operation sequence)",
	"near-miss-query", "capacity-0", "eviction")

func TestSigCacheModel(t *testing.T) {
	rapid.Check(t, func(t *rapid.T) {
		capacity := rapid.SampledFrom([]uint{0, 1, 2, 3, 4, 1000}).Draw(t, "capacity")
		c := txscript.NewSigCache(capacity)
		type triple struct{ d, s, k byte }
		added := map[triple]bool{}
		n := rapid.IntRange(1, 60).Draw(t, "nops")
		ops := make([]byte, 0, 4*n)
		nearMiss := false
		mk := func(tr triple) (h [32]byte, sig, key []byte) {
			for i := range h {
				h[i] = tr.d
			}
			sig = append([]byte{0x30, 0x44}, make([]byte, 30+int(tr.s))...)
			sig[5] = tr.s
			key = append([]byte{0x02}, make([]byte, 32)...)
			key[7] = tr.k
			return
		}
		type op struct {
			add bool
			tr  triple
		}
		var seq []op
		for i := 0; i < n; i++ {
			o := op{add: rapid.Bool().Draw(t, "add"), tr: triple{
				byte(rapid.IntRange(0, 2).Draw(t, "d")), byte(rapid.IntRange(0, 2).Draw(t, "s")), byte(rapid.IntRange(0, 2).Draw(t, "k"))}}
			seq = append(seq, o)
			ops = append(ops, b2b(o.add), o.tr.d, o.tr.s, o.tr.k)
		}
		// classification pass
		{
			seen := map[triple]bool{}
			for _, o := range seq {
				if o.add {
					seen[o.tr] = true
					continue
				}
				for tr := range seen {
					same := b2i(tr.d == o.tr.d) + b2i(tr.s == o.tr.s) + b2i(tr.k == o.tr.k)
					if same == 2 {
						nearMiss = true
					}
				}
			}
		}
		cl := "near-miss-query"
		if !nearMiss {
			cl = "plain"
		}
		recSigCache.Case(nearMiss, cl, ev.Hash([]byte{byte(capacity), byte(capacity >> 8)}, ops), func() any { return fmt.Sprintf("capacity=%d ops=%v", capacity, seq) })
		if capacity == 0 {
			recSigCache.Count("capacity-0", 1)
		}
		if capacity > 0 && capacity < 1000 && n > int(capacity) {
			recSigCache.Count("eviction", 1)
		}
		for i, o := range seq {
			h, sig, key := mk(o.tr)
			if o.add {
				c.Add(h, sig, key)
				added[o.tr] = true
				if capacity > 0 && !c.Exists(h, sig, key) {
					t.Fatalf("op %d: triple %v not found right after Add (capacity %d) ops=%v", i, o.tr, capacity, seq[:i+1])
				}
				if capacity == 0 && c.Exists(h, sig, key) {
					t.Fatalf("op %d: a cache of capacity 0 stored an entry", i)
				}
				continue
			}
			if c.Exists(h, sig, key) && !added[o.tr] {
				t.Fatalf("op %d: SigCache claims (digest %d, sig %d, key %d) is a verified signature although this triple was never added; ops=%v",
					i, o.tr.d, o.tr.s, o.tr.k, seq[:i+1])
			}
		}
	})
}

func b2i(b bool) int {
	if b {
		return 1
	}
	return 0
}

func b2b(b bool) byte { return byte(b2i(b)) }

// ---------------------------------------------------------------------------
// sub-check 5b: a cached verification must not vouch for another key or digest

var recSigCacheEngine = ev.New("C07", "sigcache-engine",
	"a 2-of-2 P2WSH multisig input signed by the model (keys A, B; drawn hash type); after the valid spend [sigA sigB] populated the process-wide "+
		"SigCache, the forged witnesses [sigA sigA] and [sigB sigB] (same digest, same signature bytes, wrong key) and the valid witness on a "+
		"transaction with another lock time (same signatures and keys, other digest) are executed with the same cache; oracle: the valid spend "+
		"succeeds, the three others fail, with and without the cache; non-trivial = always; distinct by (tx, keys, hash type)",
	"ht:01", "ht:02", "ht:03", "ht:81", "ht:82", "ht:83")

func TestSigCacheEngine(t *testing.T) {
	rapid.Check(t, func(t *rapid.T) {
		tx := genTx(t)
		idx := rapid.IntRange(0, len(tx.In)-1).Draw(t, "idx")
		ks := drawKeys(t, 2)
		ht := rapid.SampledFrom(definedECDSA).Draw(t, "hashType")
		ws := multisigScript(2, [][]byte{ks[0].comp, ks[1].comp})
		sp := &spend{kind: "p2wsh-2of2", pkScript: p2wshScript(ws), flags: txscript.StandardVerifyFlags, hashType: ht}
		spent := genSpent(t, tx, -1, false)
		spent[idx] = sighash.TxOut{Value: genAmount(t), PkScript: sp.pkScript}
		n1, n2 := genBytes(t, 32, 32, "nonce1"), genBytes(t, 32, 32, "nonce2")
		recSigCacheEngine.Case(true, fmt.Sprintf("ht:%02x", ht), caseHash(tx, []byte{byte(idx), byte(ht), byte(ks[0].i), byte(ks[1].i)}), func() any {
			return describeSpend(tx, idx, spent, sp)
		})
		tx.In[idx].ScriptSig = nil
		d := sighash.WitnessV0(ws, tx, idx, ht, spent[idx].Value)
		sigA := modelSignECDSA(ks[0], d, n1, byte(ht))
		sigB := modelSignECDSA(ks[1], d, n2, byte(ht))
		tx.In[idx].Witness = [][]byte{{}, sigA, sigB, ws}
		if err := runEngine(sp, tx, idx, spent, sharedSigCache, true); err != nil {
			t.Fatalf("valid 2-of-2 spend rejected: %v\n%s", err, describeSpend(tx, idx, spent, sp))
		}
		for _, forged := range [][][]byte{{{}, sigA, sigA, ws}, {{}, sigB, sigB, ws}} {
			ftx := tx.Clone()
			ftx.In[idx].Witness = forged
			for _, c := range []*txscript.SigCache{sharedSigCache, nil} {
				if err := runEngine(sp, ftx, idx, spent, c, true); err == nil {
					t.Fatalf("2-of-2 multisig accepted one party's signature twice (sigCache=%v): the cache vouched for a (digest, signature) pair under the wrong key\n%s",
						c != nil, describeSpend(ftx, idx, spent, sp))
				}
			}
		}
		ltx := tx.Clone()
		ltx.LockTime ^= 2
		for _, c := range []*txscript.SigCache{sharedSigCache, nil} {
			if err := runEngine(sp, ltx, idx, spent, c, true); err == nil {
				t.Fatalf("signatures made for lock time %d accepted for lock time %d (sigCache=%v)\n%s", tx.LockTime, ltx.LockTime, c != nil, describeSpend(ltx, idx, spent, sp))
			}
		}
	})
}
