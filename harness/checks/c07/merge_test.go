package c07

import (
	"bytes"
	"fmt"
	"testing"

	"github.com/btcsuite/btcd/chaincfg/v2"
	"github.com/btcsuite/btcd/txscript/v2"
	"github.com/btcsuite/btcd/wire/v2"
	"pgregory.net/rapid"

	"verif/internal/ev"
	"verif/internal/model/sighash"
)

// ---------------------------------------------------------------------------
// multi-party signing: every cosigner of an m-of-n multisig output (bare or
// P2SH) signs in a pass of its own, with a hash type of its own, handing the
// partial signature script to the next one through SignTxOutput's
// previousScript argument. The merged script must verify.

var recMerge = ev.New("C07", "multisig-merge",
	"m-of-n multisig (1<=m<=n<=3) bare or P2SH on a generated transaction; the cosigners sign one after the other in a generated order, each with its OWN defined hash type "+
		"(ALL/NONE/SINGLE with or without ANYONECANPAY; in a fifth of the cases also values with the undefined bits 0x20/0x40, verified under block-validation flags, where additionally flipping such a bit in any signature's hash type byte must make the script fail), each pass receiving the previous pass' script as previousScript; a pass by a party holding no key of the script, or a repeated pass, may be interleaved; "+
		"oracle: after m distinct cosigners have signed the script verifies under the interpreter (P2SH + strict encoding + DER + null dummy flags), and every signature it carries verifies against the model digest of its own hash type; "+
		"non-trivial = at least two passes with different hash types; distinct by (tx, script, order, hash types)",
	"same-hashtype", "differs-in-anyonecanpay-only", "differs-in-base-type", "p2sh", "bare")

func TestMultisigMerge(t *testing.T) {
	params := &chaincfg.MainNetParams
	defined := []byte{0x01, 0x02, 0x03, 0x81, 0x82, 0x83}
	rapid.Check(t, func(t *rapid.T) {
		tx := genTx(t)
		idx := rapid.IntRange(0, len(tx.In)-1).Draw(t, "idx")
		n := rapid.IntRange(1, 3).Draw(t, "n")
		m := rapid.IntRange(1, n).Draw(t, "m")
		keys := drawKeys(t, n+1) // the last one is a stranger
		var pubs [][]byte
		for _, k := range keys[:n] {
			pubs = append(pubs, k.comp)
		}
		ms := multisigScript(m, pubs)
		p2sh := rapid.Bool().Draw(t, "p2sh")
		pkScript := ms
		if p2sh {
			pkScript = p2shScript(ms)
		}
		// SIGHASH_SINGLE needs a matching output
		for len(tx.Out) <= idx {
			tx.Out = append(tx.Out, sighash.TxOut{Value: int64(len(tx.Out)), PkScript: []byte{0x51}})
		}
		w := toWire(tx)
		order := rapid.Permutation([]int{0, 1, 2}[:n]).Draw(t, "order")
		signersIdx := order[:m]
		var hts []byte
		var prev []byte
		desc := ""
		pass := func(k *keyInfo, ht byte) {
			ss, err := txscript.SignTxOutput(params, w, idx, pkScript, txscript.SigHashType(ht), keyDB([]*keyInfo{k}), scriptDB(ms), prev)
			if err != nil {
				t.Fatalf("SignTxOutput pass by key %d with hash type %#x failed: %v (previous script %x)", k.i, ht, err, prev)
			}
			prev = ss
			desc += fmt.Sprintf(" key%d/%#x", k.i, ht)
		}
		// a fifth of the cases sign with hash types that carry undefined bits (0x20/0x40): consensus
		// accepts them (they are not standard) and the digest commits to the whole byte
		withUndefined := rapid.IntRange(0, 4).Draw(t, "undefinedHashTypes") == 0
		for pi, si := range signersIdx {
			ht := rapid.SampledFrom(defined).Draw(t, "hashType")
			if withUndefined {
				ht = rapid.SampledFrom([]byte{0x01, 0x21, 0x41, 0x61, 0x02, 0x22, 0x42, 0x03, 0x43, 0x81, 0xa1, 0xc1, 0xe3, 0xc2}).Draw(t, "hashTypeU")
			}
			if pi > 0 && rapid.IntRange(0, 2).Draw(t, "flipACP") == 0 {
				ht = hts[pi-1] ^ 0x80 // same outputs committed, other input commitment
			}
			hts = append(hts, ht)
			pass(keys[si], ht)
			switch rapid.IntRange(0, 5).Draw(t, "extra") {
			case 0: // a party without a key of this script merges: nothing may be lost
				pass(keys[n], rapid.SampledFrom(defined).Draw(t, "strangerHashType"))
			case 1: // the same cosigner signs again with the same hash type
				pass(keys[si], ht)
			}
		}
		cl := "same-hashtype"
		nt := false
		for i := 1; i < len(hts); i++ {
			if hts[i] != hts[0] {
				nt = true
				if hts[i]&0x1f == hts[0]&0x1f && cl == "same-hashtype" {
					cl = "differs-in-anyonecanpay-only"
				} else if hts[i]&0x1f != hts[0]&0x1f {
					cl = "differs-in-base-type"
				}
			}
		}
		recMerge.Case(nt, cl, caseHash(tx, pkScript, []byte(desc)), func() any {
			return fmt.Sprintf("%d-of-%d p2sh=%v input %d passes:%s -> %x", m, n, p2sh, idx, desc, prev)
		})
		recMerge.Count(map[bool]string{true: "p2sh", false: "bare"}[p2sh], 1)

		flags := txscript.ScriptBip16 | txscript.ScriptVerifyStrictEncoding | txscript.ScriptVerifyDERSignatures | txscript.ScriptStrictMultiSig
		if withUndefined {
			flags = txscript.ScriptBip16 | txscript.ScriptVerifyDERSignatures | txscript.ScriptStrictMultiSig // block-validation flags: undefined hash types are legal
			recMerge.Count("undefined-hash-type-bits", 1)
		}
		run := func(sigScript []byte) error {
			w3 := toWire(tx)
			w3.TxIn[idx].SignatureScript = sigScript
			vm, err := txscript.NewEngine(pkScript, w3, idx, flags, nil, nil, 0, txscript.NewCannedPrevOutputFetcher(pkScript, 0))
			if err == nil {
				err = vm.Execute()
			}
			return err
		}
		err := run(prev)
		if err != nil {
			t.Fatalf("%d-of-%d multisig (p2sh=%v) signed by %d cosigners in passes%s does not verify: %v\nmerged script %x\nredeem/multisig script %x",
				m, n, p2sh, m, desc, err, prev, ms)
		}
		_ = wire.MsgTx{}
		if withUndefined {
			// the hash type byte is committed to: the same signature under another value of the
			// undefined bits must not verify (each signature of the script in turn)
			pushes := pushesOf(prev)
			for pi := 1; pi < len(pushes) && pi <= m; pi++ {
				sig := pushes[pi]
				if len(sig) < 9 {
					continue
				}
				bit := rapid.SampledFrom([]byte{0x20, 0x40}).Draw(t, "flipBit")
				tampered := bytes.Replace(prev, sig, append(append([]byte{}, sig[:len(sig)-1]...), sig[len(sig)-1]^bit), 1)
				if bytes.Equal(tampered, prev) {
					continue
				}
				if err := run(tampered); err == nil {
					t.Fatalf("%d-of-%d multisig (p2sh=%v) passes%s: signature %d still verifies after its hash type byte %#x was changed to %#x (the digest commits to the whole hash type)",
						m, n, p2sh, desc, pi, sig[len(sig)-1], sig[len(sig)-1]^bit)
				}
			}
		}
	})
}
