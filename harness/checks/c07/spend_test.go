package c07

// Spend builders: for every kind of output the check knows how to
//   - build the output script (from raw bytes, with the model's secp256k1 for
//     taproot tweaks - no btcd code),
//   - produce the spending scriptSig / witness, either with btcd's signing
//     helpers ("helper" kinds) or with the model signer over the MODEL digest
//     ("m-" kinds, for contexts the helpers cannot express: annex, executed
//     code separators, FindAndDelete, undefined hash types),
//   - state, per the specifications, which digest(s) the signatures cover for an
//     arbitrary transaction (used by the commitment relation).

import (
	"bytes"
	"crypto/sha256"
	"encoding/hex"
	"errors"
	"fmt"
	"math/big"
	"sync"

	"github.com/btcsuite/btcd/address/v2"
	"github.com/btcsuite/btcd/btcec/v2"
	"github.com/btcsuite/btcd/chaincfg/v2"
	"github.com/btcsuite/btcd/txscript/v2"
	"pgregory.net/rapid"

	"verif/internal/model/secp"
	"verif/internal/model/sighash"
)

// ---------------------------------------------------------------------------
// key ring

type keyInfo struct {
	i      int
	d      *big.Int
	P      secp.Point
	comp   []byte
	uncomp []byte
	xonly  []byte
	h160c  []byte
	h160u  []byte
	priv   *btcec.PrivateKey
}

var (
	ringOnce sync.Once
	ringKeys []*keyInfo
	tweakMu  sync.Mutex
	tweaks   = map[string]*tweaked{}
)

const ringSize = 8

func ring() []*keyInfo {
	ringOnce.Do(func() {
		for i := 0; len(ringKeys) < ringSize; i++ {
			h := sha256.Sum256([]byte(fmt.Sprintf("verif/c07/key/%d", i)))
			d := new(big.Int).SetBytes(h[:])
			if d.Sign() == 0 || d.Cmp(secp.N) >= 0 {
				continue
			}
			k := &keyInfo{i: len(ringKeys), d: d, P: secp.BaseMul(d)}
			k.comp = secp.SerializeCompressed(k.P)
			k.uncomp = secp.SerializeUncompressed(k.P)
			k.xonly = secp.Bytes32(k.P.X)
			k.h160c = hash160(k.comp)
			k.h160u = hash160(k.uncomp)
			k.priv, _ = btcec.PrivKeyFromBytes(secp.Bytes32(d))
			ringKeys = append(ringKeys, k)
		}
	})
	return ringKeys
}

// tweaked is a taproot output key derived per BIP341 with the model's curve.
type tweaked struct {
	sec    []byte // tweaked secret key
	qx     []byte // x-only output key
	parity byte
}

// tapTweak computes the BIP341 output key for internal key k and merkle root
// (nil: key-path-only output, tweak = H_TapTweak(P)).
func tapTweak(k *keyInfo, root []byte) *tweaked {
	key := fmt.Sprintf("%d/%x", k.i, root)
	tweakMu.Lock()
	defer tweakMu.Unlock()
	if tw, ok := tweaks[key]; ok {
		return tw
	}
	d := new(big.Int).Set(k.d)
	if k.P.Y.Bit(0) == 1 {
		d.Sub(secp.N, d)
	}
	th := sighash.TaggedHash("TapTweak", k.xonly, root)
	tv := new(big.Int).SetBytes(th[:])
	if tv.Cmp(secp.N) >= 0 {
		panic("VERIF-INFRA: tap tweak out of range")
	}
	P, _ := secp.LiftX(k.P.X)
	Q := secp.Add(P, secp.BaseMul(tv))
	dt := new(big.Int).Add(d, tv)
	dt.Mod(dt, secp.N)
	tw := &tweaked{sec: secp.Bytes32(dt), qx: secp.Bytes32(Q.X), parity: byte(Q.Y.Bit(0))}
	tweaks[key] = tw
	return tw
}

// ---------------------------------------------------------------------------
// model signers

func derInt(v *big.Int) []byte {
	b := v.Bytes()
	if len(b) == 0 || b[0]&0x80 != 0 {
		b = append([]byte{0}, b...)
	}
	return append([]byte{0x02, byte(len(b))}, b...)
}

func derEncode(r, s *big.Int) []byte {
	body := append(derInt(r), derInt(s)...)
	return append([]byte{0x30, byte(len(body))}, body...)
}

// modelSignECDSA returns DER(r,s) || hashType signed with the model.
func modelSignECDSA(k *keyInfo, digest [32]byte, nonce []byte, hashType byte) []byte {
	kk := new(big.Int).SetBytes(nonce)
	kk.Mod(kk, new(big.Int).Sub(secp.N, big.NewInt(1)))
	kk.Add(kk, big.NewInt(1))
	for {
		r, s, ok := secp.SignECDSA(k.d, digest[:], kk)
		if ok {
			return append(derEncode(r, s), hashType)
		}
		kk.Add(kk, big.NewInt(1))
	}
}

// modelSignSchnorr returns the 64-byte signature, plus the hash type byte when
// it is not SIGHASH_DEFAULT.
func modelSignSchnorr(sec []byte, digest [32]byte, aux []byte, hashType byte) []byte {
	sig, ok := secp.SignSchnorr(sec, digest[:], aux)
	if !ok {
		panic("VERIF-INFRA: model schnorr signing failed")
	}
	if hashType != 0 {
		sig = append(sig, hashType)
	}
	return sig
}

// ---------------------------------------------------------------------------
// script assembly (raw bytes)

func cat(parts ...[]byte) []byte {
	var out []byte
	for _, p := range parts {
		out = append(out, p...)
	}
	return out
}

func p2shScript(redeem []byte) []byte {
	return cat([]byte{0xa9, 0x14}, hash160(redeem), []byte{0x87})
}

func p2wshScript(ws []byte) []byte {
	h := sha256.Sum256(ws)
	return cat([]byte{0x00, 0x20}, h[:])
}

func p2pkScript(pub []byte) []byte {
	return cat(sighash.Push(pub), []byte{0xac})
}

func multisigScript(m int, pubs [][]byte) []byte {
	s := []byte{byte(0x50 + m)}
	for _, p := range pubs {
		s = append(s, sighash.Push(p)...)
	}
	return append(s, byte(0x50+len(pubs)), 0xae)
}

// annexOf applies BIP341's rule to a witness stack.
func annexOf(wit [][]byte) []byte {
	if len(wit) >= 2 && len(wit[len(wit)-1]) > 0 && wit[len(wit)-1][0] == 0x50 {
		return wit[len(wit)-1]
	}
	return nil
}

// ---------------------------------------------------------------------------

type sigRec struct {
	sig     []byte // DER||hashtype, or 64/65-byte schnorr
	pub     []byte // SEC1 key, or 32-byte x-only key
	schnorr bool
	di      int // index into the digest list
}

type spend struct {
	kind     string
	helper   bool
	pkScript []byte
	flags    txscript.ScriptFlags
	hashType uint32
	taproot  bool
	legacy   bool // neither amount nor anything about spent outputs is signed
	// digests the signatures of this spend cover, per the specifications
	digests func(tx *sighash.Tx, idx int, spent []sighash.TxOut) ([][32]byte, error)
	// sign returns scriptSig and witness of input idx
	sign func(tx *sighash.Tx, idx int, spent []sighash.TxOut) ([]byte, [][]byte, []sigRec, error)
}

const consensusFlags = txscript.ScriptBip16 | txscript.ScriptVerifyDERSignatures |
	txscript.ScriptVerifyCheckLockTimeVerify | txscript.ScriptVerifyCheckSequenceVerify |
	txscript.ScriptVerifyWitness | txscript.ScriptVerifyNullFail | txscript.ScriptStrictMultiSig |
	txscript.ScriptVerifyTaproot

var helperKinds = []string{
	"p2pkh-c", "p2pkh-u", "p2pk", "p2pkh-sto", "multisig", "p2sh-p2pkh", "p2sh-p2pk", "p2sh-multisig", "multisig-merge",
	"p2wpkh", "p2sh-p2wpkh", "p2wsh-pk", "p2wsh-multisig", "p2tr-bip86", "p2tr-keytree", "p2tr-script",
}

var modelKinds = []string{
	"m-p2tr-key-annex", "m-p2tr-script-annex", "m-p2tr-codesep", "m-legacy-codesep", "m-legacy-embedded-sig",
	"m-p2wsh-codesep", "m-p2pkh-anyht", "m-p2wpkh-anyht",
}

var (
	definedECDSA   = []uint32{1, 2, 3, 0x81, 0x82, 0x83}
	definedTaproot = []uint32{0, 1, 2, 3, 0x81, 0x82, 0x83}
)

func isTaprootKind(kind string) bool {
	switch kind {
	case "p2tr-bip86", "p2tr-keytree", "p2tr-script", "m-p2tr-key-annex", "m-p2tr-script-annex", "m-p2tr-codesep":
		return true
	}
	return false
}

// keyDB / scriptDB closures for SignTxOutput
func keyDB(known []*keyInfo) txscript.KeyDB {
	m := map[string]struct {
		k    *keyInfo
		comp bool
	}{}
	for _, k := range known {
		m[hex.EncodeToString(k.comp)] = struct {
			k    *keyInfo
			comp bool
		}{k, true}
		m[hex.EncodeToString(k.uncomp)] = struct {
			k    *keyInfo
			comp bool
		}{k, false}
		m[hex.EncodeToString(k.h160c)] = struct {
			k    *keyInfo
			comp bool
		}{k, true}
		m[hex.EncodeToString(k.h160u)] = struct {
			k    *keyInfo
			comp bool
		}{k, false}
	}
	return txscript.KeyClosure(func(a address.Address) (*btcec.PrivateKey, bool, error) {
		e, ok := m[hex.EncodeToString(a.ScriptAddress())]
		if !ok {
			return nil, false, errors.New("unknown key")
		}
		return e.k.priv, e.comp, nil
	})
}

func scriptDB(scripts ...[]byte) txscript.ScriptDB {
	return txscript.ScriptClosure(func(a address.Address) ([]byte, error) {
		for _, s := range scripts {
			if bytes.Equal(hash160(s), a.ScriptAddress()) {
				return s, nil
			}
		}
		return nil, errors.New("unknown script")
	})
}

func drawKeys(t *rapid.T, n int) []*keyInfo {
	r := ring()
	perm := rapid.Permutation([]int{0, 1, 2, 3, 4, 5, 6, 7}).Draw(t, "keys")
	out := make([]*keyInfo, n)
	for i := range out {
		out[i] = r[perm[i]]
	}
	return out
}

// pushesOf returns the data of every push of a push-only script.
func pushesOf(script []byte) [][]byte {
	ops, _ := sighash.Parse(script)
	var out [][]byte
	for _, op := range ops {
		out = append(out, op.Data)
	}
	return out
}

// mkSpend draws the parameters of a spend of the given kind.
func mkSpend(t *rapid.T, kind string) *spend {
	sp := &spend{kind: kind, helper: kind[:2] != "m-", flags: txscript.StandardVerifyFlags, taproot: isTaprootKind(kind)}
	params := &chaincfg.MainNetParams
	if sp.taproot {
		sp.hashType = rapid.SampledFrom(definedTaproot).Draw(t, "hashType")
	} else {
		sp.hashType = rapid.SampledFrom(definedECDSA).Draw(t, "hashType")
	}
	ht := func() txscript.SigHashType { return txscript.SigHashType(sp.hashType) }
	nonce1 := genBytes(t, 32, 32, "nonce1")
	nonce2 := genBytes(t, 32, 32, "nonce2")

	legacyDigest := func(code func() []byte) {
		sp.legacy = true
		sp.digests = func(tx *sighash.Tx, idx int, _ []sighash.TxOut) ([][32]byte, error) {
			return [][32]byte{sighash.Legacy(code(), tx, idx, sp.hashType)}, nil
		}
	}
	v0Digest := func(code func() []byte) {
		sp.digests = func(tx *sighash.Tx, idx int, spent []sighash.TxOut) ([][32]byte, error) {
			return [][32]byte{sighash.WitnessV0(code(), tx, idx, sp.hashType, spent[idx].Value)}, nil
		}
	}
	// ECDSA sig records for a list of pushed signatures signed by keys
	ecdsaRecs := func(sigs [][]byte, keys [][]byte) []sigRec {
		var out []sigRec
		for i := range sigs {
			out = append(out, sigRec{sig: sigs[i], pub: keys[i]})
		}
		return out
	}

	switch kind {
	case "p2pkh-c", "p2pkh-u", "p2pkh-sto":
		k := drawKeys(t, 1)[0]
		comp := kind != "p2pkh-u"
		if kind == "p2pkh-sto" {
			comp = rapid.Bool().Draw(t, "compressed")
		}
		pub, h := k.comp, k.h160c
		if !comp {
			pub, h = k.uncomp, k.h160u
		}
		sp.pkScript = sighash.P2PKHScript(h)
		legacyDigest(func() []byte { return sp.pkScript })
		sp.sign = func(tx *sighash.Tx, idx int, spent []sighash.TxOut) ([]byte, [][]byte, []sigRec, error) {
			w := toWire(tx)
			var ss []byte
			var err error
			if kind == "p2pkh-sto" {
				ss, err = txscript.SignTxOutput(params, w, idx, sp.pkScript, ht(), keyDB([]*keyInfo{k}), scriptDB(), nil)
			} else {
				ss, err = txscript.SignatureScript(w, idx, sp.pkScript, ht(), k.priv, comp)
			}
			if err != nil {
				return nil, nil, nil, err
			}
			p := pushesOf(ss)
			if len(p) != 2 || !bytes.Equal(p[1], pub) {
				return nil, nil, nil, fmt.Errorf("unexpected signature script %x", ss)
			}
			return ss, nil, ecdsaRecs(p[:1], [][]byte{pub}), nil
		}

	case "p2pk", "p2sh-p2pk", "p2sh-p2pkh":
		k := drawKeys(t, 1)[0]
		comp := rapid.Bool().Draw(t, "compressed")
		pub, h := k.comp, k.h160c
		if !comp {
			pub, h = k.uncomp, k.h160u
		}
		inner := p2pkScript(pub)
		if kind == "p2sh-p2pkh" {
			inner = sighash.P2PKHScript(h)
		}
		sp.pkScript = inner
		if kind != "p2pk" {
			sp.pkScript = p2shScript(inner)
		}
		legacyDigest(func() []byte { return inner })
		sp.sign = func(tx *sighash.Tx, idx int, spent []sighash.TxOut) ([]byte, [][]byte, []sigRec, error) {
			ss, err := txscript.SignTxOutput(params, toWire(tx), idx, sp.pkScript, ht(), keyDB([]*keyInfo{k}), scriptDB(inner), nil)
			if err != nil {
				return nil, nil, nil, err
			}
			p := pushesOf(ss)
			if len(p) < 1 {
				return nil, nil, nil, fmt.Errorf("unexpected signature script %x", ss)
			}
			return ss, nil, ecdsaRecs(p[:1], [][]byte{pub}), nil
		}

	case "multisig", "p2sh-multisig", "multisig-merge", "p2wsh-multisig":
		n := rapid.IntRange(1, 3).Draw(t, "msN")
		m := rapid.IntRange(1, n).Draw(t, "msM")
		if kind == "multisig-merge" {
			n = rapid.IntRange(2, 3).Draw(t, "msN2")
			m = 2
		}
		ks := drawKeys(t, n)
		pubs := make([][]byte, n)
		for i, k := range ks {
			pubs[i] = k.comp
			if kind != "p2wsh-multisig" && rapid.IntRange(0, 3).Draw(t, "uncompressed") == 0 {
				pubs[i] = k.uncomp
			}
		}
		ms := multisigScript(m, pubs)
		// which keys the signer knows (at least m of them, in script order)
		known := make([]bool, n)
		cnt := 0
		for i := range known {
			known[i] = rapid.Bool().Draw(t, "known")
			if known[i] {
				cnt++
			}
		}
		for i := 0; cnt < m; i++ {
			if !known[i] {
				known[i] = true
				cnt++
			}
		}
		var signers []*keyInfo
		var signerPubs [][]byte
		var knownKeys []*keyInfo
		for i := range ks {
			if known[i] {
				knownKeys = append(knownKeys, ks[i])
				if len(signers) < m {
					signers = append(signers, ks[i])
					signerPubs = append(signerPubs, pubs[i])
				}
			}
		}
		switch kind {
		case "multisig", "multisig-merge":
			sp.pkScript = ms
			if kind == "multisig-merge" && rapid.Bool().Draw(t, "mergeP2SH") {
				sp.pkScript = p2shScript(ms)
			}
			legacyDigest(func() []byte { return ms })
		case "p2sh-multisig":
			sp.pkScript = p2shScript(ms)
			legacyDigest(func() []byte { return ms })
		default:
			sp.pkScript = p2wshScript(ms)
			v0Digest(func() []byte { return ms })
		}
		sp.sign = func(tx *sighash.Tx, idx int, spent []sighash.TxOut) ([]byte, [][]byte, []sigRec, error) {
			w := toWire(tx)
			switch kind {
			case "p2wsh-multisig":
				sh := txscript.NewTxSigHashes(w, fetcherFor(tx, spent))
				wit := [][]byte{{}}
				var sigs [][]byte
				for _, k := range signers {
					sig, err := txscript.RawTxInWitnessSignature(w, sh, idx, spent[idx].Value, ms, ht(), k.priv)
					if err != nil {
						return nil, nil, nil, err
					}
					wit = append(wit, sig)
					sigs = append(sigs, sig)
				}
				wit = append(wit, ms)
				return nil, wit, ecdsaRecs(sigs, signerPubs), nil
			case "multisig-merge":
				// two partial signing passes by two parties, merged by
				// SignTxOutput's previousScript mechanism
				a, b := signers[0], signers[1]
				first, err := txscript.SignTxOutput(params, w, idx, sp.pkScript, ht(), keyDB([]*keyInfo{a}), scriptDB(ms), nil)
				if err != nil {
					return nil, nil, nil, err
				}
				ss, err := txscript.SignTxOutput(params, w, idx, sp.pkScript, ht(), keyDB([]*keyInfo{b}), scriptDB(ms), first)
				if err != nil {
					return nil, nil, nil, err
				}
				p := pushesOf(ss)
				if len(p) < 3 {
					return nil, nil, nil, fmt.Errorf("merged multisig script has %d pushes: %x (first pass %x)", len(p), ss, first)
				}
				return ss, nil, ecdsaRecs(p[1:3], signerPubs), nil
			}
			ss, err := txscript.SignTxOutput(params, w, idx, sp.pkScript, ht(), keyDB(knownKeys), scriptDB(ms), nil)
			if err != nil {
				return nil, nil, nil, err
			}
			p := pushesOf(ss)
			if len(p) < 1+m {
				return nil, nil, nil, fmt.Errorf("multisig signature script has %d pushes, want >= %d: %x", len(p), 1+m, ss)
			}
			return ss, nil, ecdsaRecs(p[1:1+m], signerPubs), nil
		}

	case "p2wpkh", "p2sh-p2wpkh":
		k := drawKeys(t, 1)[0]
		prog := cat([]byte{0x00, 0x14}, k.h160c)
		sp.pkScript = prog
		var ss []byte
		if kind == "p2sh-p2wpkh" {
			sp.pkScript = p2shScript(prog)
			ss = sighash.Push(prog)
		}
		v0Digest(func() []byte { return sighash.P2PKHScript(k.h160c) })
		sp.sign = func(tx *sighash.Tx, idx int, spent []sighash.TxOut) ([]byte, [][]byte, []sigRec, error) {
			w := toWire(tx)
			sh := txscript.NewTxSigHashes(w, fetcherFor(tx, spent))
			wit, err := txscript.WitnessSignature(w, sh, idx, spent[idx].Value, prog, ht(), k.priv, true)
			if err != nil {
				return nil, nil, nil, err
			}
			if len(wit) != 2 || !bytes.Equal(wit[1], k.comp) {
				return nil, nil, nil, fmt.Errorf("unexpected witness %x", wit)
			}
			return ss, wit, ecdsaRecs(wit[:1], [][]byte{k.comp}), nil
		}

	case "p2wsh-pk":
		k := drawKeys(t, 1)[0]
		ws := p2pkScript(k.comp)
		sp.pkScript = p2wshScript(ws)
		v0Digest(func() []byte { return ws })
		sp.sign = func(tx *sighash.Tx, idx int, spent []sighash.TxOut) ([]byte, [][]byte, []sigRec, error) {
			w := toWire(tx)
			sh := txscript.NewTxSigHashes(w, fetcherFor(tx, spent))
			sig, err := txscript.RawTxInWitnessSignature(w, sh, idx, spent[idx].Value, ws, ht(), k.priv)
			if err != nil {
				return nil, nil, nil, err
			}
			return nil, [][]byte{sig, ws}, ecdsaRecs([][]byte{sig}, [][]byte{k.comp}), nil
		}

	case "p2tr-bip86", "p2tr-keytree", "m-p2tr-key-annex":
		ks := drawKeys(t, 2)
		k := ks[0]
		var root []byte
		if kind == "p2tr-keytree" || (kind == "m-p2tr-key-annex" && rapid.Bool().Draw(t, "tree")) {
			lh := sighash.TapLeafHash(0xc0, p2pkTapscript(ks[1]))
			if rapid.Bool().Draw(t, "sibling") {
				lh = sighash.TapBranchHash(lh, sighash.TapLeafHash(0xc0, []byte{0x51}))
			}
			root = lh[:]
		}
		tw := tapTweak(k, root)
		sp.pkScript = p2trScript(tw.qx)
		var annex []byte
		if kind == "m-p2tr-key-annex" {
			annex = append([]byte{0x50}, genBytes(t, 0, 40, "annex")...)
		}
		sp.digests = func(tx *sighash.Tx, idx int, spent []sighash.TxOut) ([][32]byte, error) {
			d, err := sighash.Taproot(tx, idx, sp.hashType, spent, annexOf(tx.In[idx].Witness), nil)
			return [][32]byte{d}, err
		}
		sp.sign = func(tx *sighash.Tx, idx int, spent []sighash.TxOut) ([]byte, [][]byte, []sigRec, error) {
			if kind == "m-p2tr-key-annex" {
				d, err := sighash.Taproot(tx, idx, sp.hashType, spent, annex, nil)
				if err != nil {
					return nil, nil, nil, err
				}
				sig := modelSignSchnorr(tw.sec, d, nonce1, byte(sp.hashType))
				return nil, [][]byte{sig, annex}, []sigRec{{sig: sig, pub: tw.qx, schnorr: true}}, nil
			}
			w := toWire(tx)
			sh := txscript.NewTxSigHashes(w, fetcherFor(tx, spent))
			var sig []byte
			var err error
			if kind == "p2tr-bip86" {
				var wit [][]byte
				wit, err = txscript.TaprootWitnessSignature(w, sh, idx, spent[idx].Value, sp.pkScript, ht(), k.priv)
				if err == nil {
					if len(wit) != 1 {
						return nil, nil, nil, fmt.Errorf("unexpected witness %x", wit)
					}
					sig = wit[0]
				}
			} else {
				sig, err = txscript.RawTxInTaprootSignature(w, sh, idx, spent[idx].Value, sp.pkScript, root, ht(), k.priv)
			}
			if err != nil {
				return nil, nil, nil, err
			}
			return nil, [][]byte{sig}, []sigRec{{sig: sig, pub: tw.qx, schnorr: true}}, nil
		}

	case "p2tr-script", "m-p2tr-script-annex", "m-p2tr-codesep":
		ks := drawKeys(t, 3)
		internal, k1, k2 := ks[0], ks[1], ks[2]
		var leaf []byte
		nops := 0
		if kind == "m-p2tr-codesep" {
			nops = rapid.IntRange(0, 3).Draw(t, "nops")
			leaf = cat(bytes.Repeat([]byte{0x61}, nops), sighash.Push(k1.xonly), []byte{0xad, 0xab}, sighash.Push(k2.xonly), []byte{0xac})
		} else {
			leaf = p2pkTapscript(k1)
		}
		lh := sighash.TapLeafHash(0xc0, leaf)
		root := lh
		var path []byte
		if rapid.Bool().Draw(t, "sibling") {
			sib := sighash.TapLeafHash(0xc0, cat([]byte{0x51}, genBytes(t, 0, 10, "sib")))
			root = sighash.TapBranchHash(lh, sib)
			path = sib[:]
		}
		tw := tapTweak(internal, root[:])
		sp.pkScript = p2trScript(tw.qx)
		control := cat([]byte{0xc0 | tw.parity}, internal.xonly, path)
		var annex []byte
		if kind == "m-p2tr-script-annex" || (kind == "m-p2tr-codesep" && rapid.Bool().Draw(t, "annex?")) {
			annex = append([]byte{0x50}, genBytes(t, 0, 40, "annex")...)
		}
		digestsWith := func(tx *sighash.Tx, idx int, spent []sighash.TxOut, annex []byte) ([][32]byte, error) {
			d1, err := sighash.Taproot(tx, idx, sp.hashType, spent, annex, &sighash.TapscriptExt{LeafHash: lh, CodeSepPos: sighash.NoCodeSep})
			if err != nil {
				return nil, err
			}
			if kind != "m-p2tr-codesep" {
				return [][32]byte{d1}, nil
			}
			d2, err := sighash.Taproot(tx, idx, sp.hashType, spent, annex, &sighash.TapscriptExt{LeafHash: lh, CodeSepPos: uint32(nops + 2)})
			return [][32]byte{d1, d2}, err
		}
		sp.digests = func(tx *sighash.Tx, idx int, spent []sighash.TxOut) ([][32]byte, error) {
			return digestsWith(tx, idx, spent, annexOf(tx.In[idx].Witness))
		}
		sp.sign = func(tx *sighash.Tx, idx int, spent []sighash.TxOut) ([]byte, [][]byte, []sigRec, error) {
			switch kind {
			case "p2tr-script":
				w := toWire(tx)
				sh := txscript.NewTxSigHashes(w, fetcherFor(tx, spent))
				sig, err := txscript.RawTxInTapscriptSignature(w, sh, idx, spent[idx].Value, sp.pkScript, txscript.NewBaseTapLeaf(leaf), ht(), k1.priv)
				if err != nil {
					return nil, nil, nil, err
				}
				return nil, [][]byte{sig, leaf, control}, []sigRec{{sig: sig, pub: k1.xonly, schnorr: true}}, nil
			}
			ds, err := digestsWith(tx, idx, spent, annex)
			if err != nil {
				return nil, nil, nil, err
			}
			sig1 := modelSignSchnorr(secp.Bytes32(k1.d), ds[0], nonce1, byte(sp.hashType))
			wit := [][]byte{sig1, leaf, control}
			recs := []sigRec{{sig: sig1, pub: k1.xonly, schnorr: true}}
			if kind == "m-p2tr-codesep" {
				sig2 := modelSignSchnorr(secp.Bytes32(k2.d), ds[1], nonce2, byte(sp.hashType))
				wit = [][]byte{sig2, sig1, leaf, control}
				recs = append(recs, sigRec{sig: sig2, pub: k2.xonly, schnorr: true, di: 1})
			}
			if annex != nil {
				wit = append(wit, annex)
			}
			return nil, wit, recs, nil
		}

	case "m-legacy-codesep", "m-p2wsh-codesep":
		// <k1> CHECKSIGVERIFY CODESEPARATOR <k2> CHECKSIG: the first signature
		// covers the whole script, the second only what follows the executed
		// separator
		ks := drawKeys(t, 2)
		pre := bytes.Repeat([]byte{0x61}, rapid.IntRange(0, 2).Draw(t, "nops"))
		head := cat(pre, sighash.Push(ks[0].comp), []byte{0xad, 0xab})
		tail := cat(sighash.Push(ks[1].comp), []byte{0xac})
		if rapid.Bool().Draw(t, "trailingSep") {
			// a separator after the last CHECKSIG: part of the script code of
			// both signatures (kept by BIP143, dropped by the legacy
			// serializer)
			tail = append(tail, 0xab)
		}
		script := cat(head, tail)
		if kind == "m-legacy-codesep" {
			sp.flags = txscript.StandardVerifyFlags &^ txscript.ScriptVerifyConstScriptCode
			sp.pkScript = script
			sp.legacy = true
			sp.digests = func(tx *sighash.Tx, idx int, _ []sighash.TxOut) ([][32]byte, error) {
				return [][32]byte{sighash.Legacy(script, tx, idx, sp.hashType), sighash.Legacy(tail, tx, idx, sp.hashType)}, nil
			}
		} else {
			sp.pkScript = p2wshScript(script)
			sp.digests = func(tx *sighash.Tx, idx int, spent []sighash.TxOut) ([][32]byte, error) {
				return [][32]byte{sighash.WitnessV0(script, tx, idx, sp.hashType, spent[idx].Value),
					sighash.WitnessV0(tail, tx, idx, sp.hashType, spent[idx].Value)}, nil
			}
		}
		sp.sign = func(tx *sighash.Tx, idx int, spent []sighash.TxOut) ([]byte, [][]byte, []sigRec, error) {
			ds, _ := sp.digests(tx, idx, spent)
			sig1 := modelSignECDSA(ks[0], ds[0], nonce1, byte(sp.hashType))
			sig2 := modelSignECDSA(ks[1], ds[1], nonce2, byte(sp.hashType))
			recs := []sigRec{{sig: sig1, pub: ks[0].comp}, {sig: sig2, pub: ks[1].comp, di: 1}}
			if kind == "m-legacy-codesep" {
				return cat(sighash.Push(sig2), sighash.Push(sig1)), nil, recs, nil
			}
			return nil, [][]byte{sig2, sig1, script}, recs, nil
		}

	case "m-legacy-embedded-sig":
		// <sig> DROP [<sig> DROP] <key> CHECKSIG: the output script contains
		// the very signature that spends it; FindAndDelete removes the pushes
		// before hashing
		k := drawKeys(t, 1)[0]
		copies := rapid.IntRange(1, 2).Draw(t, "copies")
		rest := cat(sighash.Push(k.comp), []byte{0xac})
		stripped := cat(bytes.Repeat([]byte{0x75}, copies), rest)
		sp.flags = txscript.StandardVerifyFlags &^ txscript.ScriptVerifyConstScriptCode
		sp.legacy = true
		var sigPush []byte
		build := func() []byte {
			var s []byte
			for i := 0; i < copies; i++ {
				s = cat(s, sigPush, []byte{0x75})
			}
			return cat(s, rest)
		}
		sp.digests = func(tx *sighash.Tx, idx int, _ []sighash.TxOut) ([][32]byte, error) {
			code, _ := sighash.FindAndDelete(build(), sigPush)
			return [][32]byte{sighash.Legacy(code, tx, idx, sp.hashType)}, nil
		}
		// the output script depends on the signature, which depends only on
		// the stripped script: sign is called once before pkScript is read
		sp.sign = func(tx *sighash.Tx, idx int, spent []sighash.TxOut) ([]byte, [][]byte, []sigRec, error) {
			// FindAndDelete of the real script must give this
			d := sighash.Legacy(cat(bytes.Repeat([]byte{0x75}, copies), rest), tx, idx, sp.hashType)
			sig := modelSignECDSA(k, d, nonce1, byte(sp.hashType))
			sigPush = sighash.Push(sig)
			sp.pkScript = build()
			if got, n := sighash.FindAndDelete(sp.pkScript, sigPush); n != copies || !bytes.Equal(got, stripped) {
				panic("VERIF-INFRA: FindAndDelete model inconsistent")
			}
			return sigPush, nil, []sigRec{{sig: sig, pub: k.comp}}, nil
		}

	case "m-p2pkh-anyht", "m-p2wpkh-anyht":
		// any hash type byte under the consensus (block validation) flags
		k := drawKeys(t, 1)[0]
		sp.hashType = uint32(rapid.IntRange(0, 255).Draw(t, "anyHashType"))
		sp.flags = consensusFlags
		if kind == "m-p2pkh-anyht" {
			sp.pkScript = sighash.P2PKHScript(k.h160c)
			legacyDigest(func() []byte { return sp.pkScript })
		} else {
			sp.pkScript = cat([]byte{0x00, 0x14}, k.h160c)
			v0Digest(func() []byte { return sighash.P2PKHScript(k.h160c) })
		}
		sp.sign = func(tx *sighash.Tx, idx int, spent []sighash.TxOut) ([]byte, [][]byte, []sigRec, error) {
			ds, _ := sp.digests(tx, idx, spent)
			sig := modelSignECDSA(k, ds[0], nonce1, byte(sp.hashType))
			recs := []sigRec{{sig: sig, pub: k.comp}}
			if kind == "m-p2pkh-anyht" {
				return cat(sighash.Push(sig), sighash.Push(k.comp)), nil, recs, nil
			}
			return nil, [][]byte{sig, k.comp}, recs, nil
		}

	default:
		panic("unknown spend kind " + kind)
	}
	return sp
}

func p2pkTapscript(k *keyInfo) []byte {
	return cat(sighash.Push(k.xonly), []byte{0xac})
}

// verifyWithModel checks a produced signature against the model digest with
// the model's curve arithmetic.
func verifyWithModel(r sigRec, digests [][32]byte) bool {
	d := digests[r.di]
	if r.schnorr {
		if len(r.sig) != 64 && len(r.sig) != 65 {
			return false
		}
		return secp.VerifySchnorr(r.pub, d[:], r.sig[:64])
	}
	if len(r.sig) < 9 {
		return false
	}
	return verifyECDSASig(r.pub, r.sig[:len(r.sig)-1], d[:])
}
