package c07

import (
	"bytes"
	"math"
	"os"
	"testing"

	"github.com/btcsuite/btcd/txscript/v2"
	"github.com/btcsuite/btcd/wire/v2"
	"pgregory.net/rapid"

	"verif/internal/ev"
	"verif/internal/model/sighash"
	"verif/internal/scratch"
)

func TestMain(m *testing.M) {
	code := m.Run()
	scratch.Sweep()
	ev.Flush()
	os.Exit(code)
}

// ---------------------------------------------------------------------------
// model <-> btcd data carriers

func cloneBytes(b []byte) []byte {
	if b == nil {
		return nil
	}
	return append([]byte{}, b...)
}

// toWire copies the model transaction into btcd's wire type (plain data).
func toWire(t *sighash.Tx) *wire.MsgTx {
	m := &wire.MsgTx{Version: t.Version, LockTime: t.LockTime}
	for i := range t.In {
		in := &t.In[i]
		wi := &wire.TxIn{Sequence: in.Sequence, SignatureScript: cloneBytes(in.ScriptSig)}
		wi.PreviousOutPoint.Hash = in.PrevHash
		wi.PreviousOutPoint.Index = in.PrevIndex
		if in.Witness != nil {
			wi.Witness = make(wire.TxWitness, len(in.Witness))
			for j, w := range in.Witness {
				wi.Witness[j] = append([]byte{}, w...)
			}
		}
		m.TxIn = append(m.TxIn, wi)
	}
	for i := range t.Out {
		m.TxOut = append(m.TxOut, &wire.TxOut{Value: t.Out[i].Value, PkScript: cloneBytes(t.Out[i].PkScript)})
	}
	return m
}

// fetcherFor builds a btcd PrevOutputFetcher that knows the spent output of
// every input of t.
func fetcherFor(t *sighash.Tx, spent []sighash.TxOut) *txscript.MultiPrevOutFetcher {
	f := txscript.NewMultiPrevOutFetcher(nil)
	for i := range t.In {
		f.AddPrevOut(wire.OutPoint{Hash: t.In[i].PrevHash, Index: t.In[i].PrevIndex},
			&wire.TxOut{Value: spent[i].Value, PkScript: cloneBytes(spent[i].PkScript)})
	}
	return f
}

// caseHash is the canonical hash of a digest case.
func caseHash(t *sighash.Tx, extra ...[]byte) uint64 {
	parts := [][]byte{t.SerializeNoWitness()}
	for i := range t.In {
		for _, w := range t.In[i].Witness {
			parts = append(parts, w)
		}
	}
	parts = append(parts, extra...)
	return ev.Hash(parts...)
}

// ---------------------------------------------------------------------------
// generators

func genBytes(t *rapid.T, lo, hi int, label string) []byte {
	return rapid.SliceOfN(rapid.Byte(), lo, hi).Draw(t, label)
}

// genU32 mixes the named boundary values with uniform values.
func genU32(t *rapid.T, label string, specials ...uint32) uint32 {
	if rapid.IntRange(0, 2).Draw(t, label+"?") != 0 {
		return rapid.SampledFrom(specials).Draw(t, label)
	}
	return rapid.Uint32().Draw(t, label)
}

func genValue(t *rapid.T, label string) int64 {
	switch rapid.IntRange(0, 3).Draw(t, label+"?") {
	case 0:
		return rapid.SampledFrom([]int64{0, 1, 546, 2100000000000000, 2100000000000001, -1, math.MaxInt64, math.MinInt64, 0xff, 0x100, 0xffffffff, 0x100000000}).Draw(t, label)
	case 1:
		return rapid.Int64Range(0, 100000).Draw(t, label)
	case 2:
		return rapid.Int64Range(0, 2100000000000000).Draw(t, label)
	}
	return rapid.Int64().Draw(t, label)
}

var templateScripts = [][]byte{
	{},
	{0x51},
	{0x6a},
	{0x6a, 0x04, 1, 2, 3, 4},
	append(append([]byte{0x76, 0xa9, 0x14}, bytes.Repeat([]byte{0x11}, 20)...), 0x88, 0xac),
	append(append([]byte{0xa9, 0x14}, bytes.Repeat([]byte{0x22}, 20)...), 0x87),
	append([]byte{0x00, 0x14}, bytes.Repeat([]byte{0x33}, 20)...),
	append([]byte{0x00, 0x20}, bytes.Repeat([]byte{0x44}, 32)...),
	append([]byte{0x51, 0x20}, bytes.Repeat([]byte{0x55}, 32)...),
	{0x51, 0x02, 0x4e, 0x73},
}

// genPkScript: output scripts of every compact-size class (0, <253, >=253).
func genPkScript(t *rapid.T, label string) []byte {
	switch rapid.IntRange(0, 9).Draw(t, label+"?") {
	case 0, 1, 2, 3:
		return cloneBytes(rapid.SampledFrom(templateScripts).Draw(t, label))
	case 4:
		n := rapid.SampledFrom([]int{252, 253, 254, 300}).Draw(t, label+"len")
		return bytes.Repeat([]byte{byte(rapid.IntRange(0, 255).Draw(t, label+"fill"))}, n)
	}
	return genBytes(t, 0, 40, label)
}

// genTx draws a transaction: 1-6 inputs, 0-6 outputs, any version, lock time
// and sequences, scriptSigs and witnesses present or absent. Outpoints are
// distinct by construction (byte 31 of the hash is the input position).
func genTx(t *rapid.T) *sighash.Tx {
	tx := &sighash.Tx{}
	if rapid.Bool().Draw(t, "version?") {
		tx.Version = rapid.SampledFrom([]int32{1, 2, 0, -1, 3, math.MaxInt32, math.MinInt32}).Draw(t, "version")
	} else {
		tx.Version = rapid.Int32().Draw(t, "version")
	}
	tx.LockTime = genU32(t, "locktime", 0, 1, 499999999, 500000000, 0xffffffff, 0xfffffffe)
	nIn := rapid.SampledFrom([]int{1, 1, 2, 2, 3, 3, 4, 5, 6}).Draw(t, "nIn")
	nOut := rapid.SampledFrom([]int{0, 1, 1, 2, 2, 3, 4, 5, 6}).Draw(t, "nOut")
	for i := 0; i < nIn; i++ {
		var in sighash.TxIn
		switch rapid.IntRange(0, 3).Draw(t, "prevhash?") {
		case 0:
			// all-zero / all-ones style hashes
			fill := rapid.SampledFrom([]byte{0x00, 0xff, 0x01}).Draw(t, "prevfill")
			for k := range in.PrevHash {
				in.PrevHash[k] = fill
			}
		default:
			copy(in.PrevHash[:], genBytes(t, 32, 32, "prevhash"))
		}
		in.PrevHash[31] = byte(i)
		in.PrevIndex = genU32(t, "previndex", 0, 1, 2, 0xffffffff, 0xfffffffe, 0x100)
		if in.PrevHash == ([32]byte{}) && in.PrevIndex == 0xffffffff {
			// the null outpoint marks a coinbase input, which is never
			// signed; NewTxSigHashes skips such inputs by design
			in.PrevIndex = 0xfffffffe
		}
		in.Sequence = genU32(t, "sequence", 0, 1, 0xffffffff, 0xfffffffe, 1<<31, 1<<22, 0xffff)
		if rapid.Bool().Draw(t, "scriptSig?") {
			in.ScriptSig = genBytes(t, 0, 30, "scriptSig")
		}
		if rapid.IntRange(0, 2).Draw(t, "witness?") == 0 {
			n := rapid.IntRange(0, 3).Draw(t, "nwit")
			in.Witness = [][]byte{}
			for j := 0; j < n; j++ {
				in.Witness = append(in.Witness, genBytes(t, 0, 40, "wititem"))
			}
		}
		tx.In = append(tx.In, in)
	}
	for i := 0; i < nOut; i++ {
		tx.Out = append(tx.Out, sighash.TxOut{Value: genValue(t, "value"), PkScript: genPkScript(t, "pkScript")})
	}
	return tx
}

// fakeSig is a DER-looking signature blob with hash type byte, used as the
// "signature" whose pushes are embedded in script codes.
func genFakeSig(t *rapid.T) []byte {
	rl := rapid.SampledFrom([]int{32, 33}).Draw(t, "rl")
	sl := rapid.SampledFrom([]int{32, 33, 31}).Draw(t, "sl")
	sig := []byte{0x30, byte(4 + rl + sl), 0x02, byte(rl)}
	sig = append(sig, genBytes(t, rl, rl, "r")...)
	sig = append(sig, 0x02, byte(sl))
	sig = append(sig, genBytes(t, sl, sl, "s")...)
	return append(sig, byte(rapid.SampledFrom([]int{1, 2, 3, 0x81, 0x82, 0x83}).Draw(t, "sight")))
}

type scriptCode struct {
	script    []byte
	nSep      int  // OP_CODESEPARATOR operations
	embedded  int  // embedded copies of the signature push
	abInPush  bool // 0xab bytes inside push data (must survive)
	malformed bool // truncated push at the end
	bigPush   bool // a push with a PUSHDATA opcode or >= 253 bytes in total
	p2wpkh    bool // exactly OP_0 <20 bytes>
	sig       []byte
}

var nonPushOps = []byte{0x4f, 0x50, 0x51, 0x52, 0x60, 0x61, 0x63, 0x64, 0x67, 0x68, 0x69, 0x6a, 0x75, 0x76, 0x87, 0x88, 0xa9, 0xaa, 0xac, 0xad, 0xae, 0xaf, 0xb1, 0xb2, 0xba, 0xbb, 0xfe, 0xff}

// genScriptCode draws a script code: 0-10 operations with 0-3
// OP_CODESEPARATORs, pushes in every encoding (direct, PUSHDATA1/2/4, also
// non-minimal), push data made of 0xab bytes, embedded copies of a signature
// push, optionally a malformed (truncated) tail.
func genScriptCode(t *rapid.T, allowMalformed bool) *scriptCode {
	sc := &scriptCode{sig: genFakeSig(t)}
	if rapid.IntRange(0, 11).Draw(t, "p2wpkhShape") == 0 {
		sc.script = append([]byte{0x00, 0x14}, genBytes(t, 20, 20, "wpkh")...)
		sc.p2wpkh = true
		return sc
	}
	n := rapid.IntRange(0, 10).Draw(t, "nops")
	maxSep := rapid.SampledFrom([]int{0, 0, 1, 2, 3}).Draw(t, "maxsep")
	for i := 0; i < n; i++ {
		switch k := rapid.IntRange(0, 11).Draw(t, "op?"); {
		case k <= 2:
			sc.script = append(sc.script, rapid.SampledFrom(nonPushOps).Draw(t, "opcode"))
		case k <= 4:
			if sc.nSep < maxSep {
				sc.script = append(sc.script, sighash.OpCodeSeparator)
				sc.nSep++
			} else {
				sc.script = append(sc.script, 0xac)
			}
		case k == 5:
			sc.script = append(sc.script, sighash.Push(sc.sig)...)
			sc.embedded++
		case k == 6:
			// data that looks like code separators / like the signature
			l := rapid.IntRange(1, 40).Draw(t, "ablen")
			sc.script = append(sc.script, sighash.Push(bytes.Repeat([]byte{0xab}, l))...)
			sc.abInPush = true
		case k == 7:
			// explicit PUSHDATA forms (possibly non-minimal)
			data := genBytes(t, 0, 80, "pdata")
			if rapid.Bool().Draw(t, "abfill") {
				for j := range data {
					data[j] = 0xab
				}
				sc.abInPush = sc.abInPush || len(data) > 0
			}
			switch rapid.IntRange(0, 2).Draw(t, "pform") {
			case 0:
				sc.script = append(sc.script, 0x4c, byte(len(data)))
			case 1:
				sc.script = append(sc.script, 0x4d, byte(len(data)), 0)
			default:
				sc.script = append(sc.script, 0x4e, byte(len(data)), 0, 0, 0)
			}
			sc.script = append(sc.script, data...)
			sc.bigPush = true
		case k == 8:
			l := rapid.SampledFrom([]int{75, 76, 200, 252, 253, 255, 256, 300}).Draw(t, "biglen")
			sc.script = append(sc.script, sighash.Push(bytes.Repeat([]byte{byte(rapid.IntRange(0, 255).Draw(t, "bigfill"))}, l))...)
			sc.bigPush = true
		default:
			sc.script = append(sc.script, sighash.Push(genBytes(t, 0, 33, "data"))...)
		}
	}
	if allowMalformed && rapid.IntRange(0, 9).Draw(t, "malformed?") == 0 {
		tails := [][]byte{{0x4c}, {0x4d, 0x05}, {0x4e, 1, 0, 0}, {0x20, 1, 2, 3, 0xab}, {0x4c, 0x10, 0xab, 0xab}, {0x01}, {0x4d, 0xff, 0xff, 0xab}, {0x4e, 0xff, 0xff, 0xff, 0xff, 1}}
		sc.script = append(sc.script, rapid.SampledFrom(tails).Draw(t, "tail")...)
		sc.malformed = true
	}
	// the P2WPKH program shape may also arise from an empty push followed by a
	// 20-byte push
	sc.p2wpkh = len(sc.script) == 22 && sc.script[0] == 0x00 && sc.script[1] == 0x14
	if _, ok := sighash.Parse(sc.script); ok == sc.malformed {
		// a generated "malformed" tail may be completed by accident and
		// vice versa; the model's tokenizer decides
		sc.malformed = !ok
	}
	return sc
}

func (sc *scriptCode) class() string {
	switch {
	case sc.malformed:
		return "malformed-tail"
	case sc.p2wpkh:
		return "p2wpkh-program"
	case sc.nSep > 0 && sc.embedded > 0:
		return "codesep+embedded-sig"
	case sc.nSep > 0:
		return "codesep"
	case sc.embedded > 0:
		return "embedded-sig"
	case sc.abInPush:
		return "ab-in-push"
	case len(sc.script) == 0:
		return "empty-script"
	}
	return "plain"
}

// genHashType32 draws hash types that do not fit one byte.
func genHashType32() *rapid.Generator[uint32] {
	return rapid.Custom(func(t *rapid.T) uint32 {
		lo := uint32(rapid.SampledFrom([]int{0, 1, 2, 3, 0x81, 0x82, 0x83, 0x1f, 0x20, 0x43, 0xe2, 0xff}).Draw(t, "lo"))
		switch rapid.IntRange(0, 3).Draw(t, "hi?") {
		case 0:
			return lo | 0x100
		case 1:
			return lo | 0xffffff00
		case 2:
			return lo | uint32(rapid.IntRange(1, 0xffffff).Draw(t, "hi"))<<8
		}
		return rapid.Uint32Range(0x100, math.MaxUint32).Draw(t, "any")
	})
}

// hashTypeOrder returns the 256 one-byte hash types in a drawn order, so that
// state leaking from one computation into the next would be position
// dependent.
func hashTypeOrder(t *rapid.T) []uint32 {
	start := rapid.IntRange(0, 255).Draw(t, "htStart")
	stride := rapid.SampledFrom([]int{1, 3, 85, 127, 129, 255}).Draw(t, "htStride")
	out := make([]uint32, 256)
	for k := range out {
		out[k] = uint32((start + k*stride) & 0xff)
	}
	return out
}

func p2trScript(x []byte) []byte {
	return append([]byte{0x51, 0x20}, x...)
}

func isP2TR(s []byte) bool {
	return len(s) == 34 && s[0] == 0x51 && s[1] == 0x20
}

// genSpent draws the outputs spent by every input; the one spent by input
// idx is a taproot output iff taproot is true (the digest forms are only
// defined for an input of the matching kind; NewTxSigHashes documents that it
// decides which midstates to compute from the kind of the spent outputs).
func genSpent(t *rapid.T, tx *sighash.Tx, idx int, taproot bool) []sighash.TxOut {
	spent := make([]sighash.TxOut, len(tx.In))
	for i := range spent {
		spent[i].Value = genValue(t, "spentValue")
		tr := rapid.Bool().Draw(t, "spentP2TR")
		if i == idx {
			tr = taproot
		}
		if tr {
			spent[i].PkScript = p2trScript(genBytes(t, 32, 32, "spentKey"))
		} else {
			s := genPkScript(t, "spentScript")
			if isP2TR(s) {
				s[0] = 0x00
			}
			spent[i].PkScript = s
		}
	}
	return spent
}
