package c07

import (
	"bytes"
	"fmt"
	"testing"

	"github.com/btcsuite/btcd/txscript/v2"
	"github.com/btcsuite/btcd/wire/v2"
	"pgregory.net/rapid"

	"verif/internal/ev"
	"verif/internal/model/sighash"
)

// describe renders a digest case for failure messages and samples.
func describe(tx *sighash.Tx, idx int, script []byte) string {
	w := toWire(tx)
	var b bytes.Buffer
	_ = w.Serialize(&b)
	return fmt.Sprintf("tx=%x idx=%d nIn=%d nOut=%d script=%x", b.Bytes(), idx, len(tx.In), len(tx.Out), script)
}

// ---------------------------------------------------------------------------
// sub-check 1a: legacy digest

var recLegacy = ev.New("C07", "digest-legacy",
	"transactions (1-6 in, 0-6 out, boundary versions/locktimes/sequences/values, scripts of every compact-size class) x input index x script code "+
		"(0-3 OP_CODESEPARATOR, embedded signature pushes, 0xab inside push data, PUSHDATA1/2/4, malformed tail); per case ALL 256 one-byte hash types "+
		"in a drawn order plus 2-6 hash types wider than one byte; oracle = model/sighash.Legacy (Core's SignatureHash, calibrated on sighash.json) byte for byte; "+
		"scripts that do not parse are outside CalcSignatureHash's documented domain (only absence of a panic is observed); "+
		"non-trivial = always (every case covers non-ALL types); distinct by (tx, index, script)",
	"plain", "codesep", "embedded-sig", "codesep+embedded-sig", "ab-in-push", "malformed-tail", "single-out-of-range", "index>0", "script>=253")

func TestLegacyDigest(t *testing.T) {
	rapid.Check(t, func(t *rapid.T) {
		tx := genTx(t)
		idx := rapid.IntRange(0, len(tx.In)-1).Draw(t, "idx")
		sc := genScriptCode(t, true)
		if sc.p2wpkh {
			sc.p2wpkh = false
		}
		hts := append(hashTypeOrder(t), rapid.SliceOfN(genHashType32(), 2, 6).Draw(t, "ht32")...)
		recLegacy.Case(true, sc.class(), caseHash(tx, sc.script, []byte{byte(idx)}), func() any { return describe(tx, idx, sc.script) })
		if idx >= len(tx.Out) {
			recLegacy.Count("single-out-of-range", 1)
		}
		if idx > 0 {
			recLegacy.Count("index>0", 1)
		}
		if len(sc.script) >= 253 {
			recLegacy.Count("script>=253", 1)
		}

		w := toWire(tx)
		for _, ht := range hts {
			got, err := txscript.CalcSignatureHash(sc.script, txscript.SigHashType(ht), w, idx)
			if sc.malformed {
				continue
			}
			if err != nil {
				t.Fatalf("CalcSignatureHash failed on a parsable script: %v\nhashType=%#x %s", err, ht, describe(tx, idx, sc.script))
			}
			want := sighash.Legacy(sc.script, tx, idx, ht)
			if !bytes.Equal(got, want[:]) {
				t.Fatalf("legacy digest mismatch: btcd %x, specification %x\nhashType=%#x %s", got, want, ht, describe(tx, idx, sc.script))
			}
		}
	})
}

// ---------------------------------------------------------------------------
// sub-check 1b (+2): BIP143 digest, with fresh / shared / HashCache midstates

var recV0 = ev.New("C07", "digest-bip143",
	"as [digest-legacy] plus the spent amount (boundary mixture, negative and > 21e14 included) and spent outputs for the midstate computation "+
		"(the spent output of the signed input is not taproot); a script of the exact form OP_0 <20 bytes> is btcd's way to name a P2WPKH program and "+
		"must hash the BIP143 P2WPKH script code; per case ALL 256 hash types + wide ones, each computed three ways: one TxSigHashes shared by all "+
		"hash types, a fresh NewTxSigHashes, and the entry of a HashCache; oracle = model/sighash.WitnessV0 (BIP143; calibrated on the BIP examples and "+
		"Core's tx_valid.json signatures); non-trivial = always; distinct by (tx, index, script, amount)",
	"plain", "codesep", "embedded-sig", "ab-in-push", "malformed-tail", "p2wpkh-program", "single-out-of-range", "index>0", "script>=253")

func TestWitnessV0Digest(t *testing.T) {
	rapid.Check(t, func(t *rapid.T) {
		tx := genTx(t)
		idx := rapid.IntRange(0, len(tx.In)-1).Draw(t, "idx")
		sc := genScriptCode(t, true)
		spent := genSpent(t, tx, idx, false)
		amt := spent[idx].Value
		hts := append(hashTypeOrder(t), rapid.SliceOfN(genHashType32(), 2, 6).Draw(t, "ht32")...)
		var ab [8]byte
		for k := 0; k < 8; k++ {
			ab[k] = byte(uint64(amt) >> (8 * k))
		}
		recV0.Case(true, sc.class(), caseHash(tx, sc.script, []byte{byte(idx)}, ab[:]), func() any {
			return fmt.Sprintf("%s amount=%d", describe(tx, idx, sc.script), amt)
		})
		if idx >= len(tx.Out) {
			recV0.Count("single-out-of-range", 1)
		}
		if idx > 0 {
			recV0.Count("index>0", 1)
		}
		if len(sc.script) >= 253 {
			recV0.Count("script>=253", 1)
		}

		code := sc.script
		if sc.p2wpkh {
			code = sighash.P2PKHScript(sc.script[2:])
		}
		w := toWire(tx)
		f := fetcherFor(tx, spent)
		shared := txscript.NewTxSigHashes(w, f)
		hc := txscript.NewHashCache(4)
		hc.AddSigHashes(w, f)
		txid := w.TxHash()
		cached, ok := hc.GetSigHashes(&txid)
		if !ok || !hc.ContainsHashes(&txid) {
			t.Fatalf("HashCache lost the entry it was just given: %s", describe(tx, idx, sc.script))
		}
		for _, ht := range hts {
			want := sighash.WitnessV0(code, tx, idx, ht, amt)
			for vi, sh := range []*txscript.TxSigHashes{shared, txscript.NewTxSigHashes(w, f), cached} {
				got, err := txscript.CalcWitnessSigHash(sc.script, sh, txscript.SigHashType(ht), w, idx, amt)
				if sc.malformed {
					continue
				}
				if err != nil {
					t.Fatalf("CalcWitnessSigHash failed on a parsable script: %v\nhashType=%#x %s", err, ht, describe(tx, idx, sc.script))
				}
				if !bytes.Equal(got, want[:]) {
					t.Fatalf("BIP143 digest mismatch (midstate source %d: 0=shared 1=fresh 2=HashCache): btcd %x, specification %x\nhashType=%#x amount=%d %s",
						vi, got, want, ht, amt, describe(tx, idx, sc.script))
				}
			}
		}
	})
}

// ---------------------------------------------------------------------------
// sub-check 1c: BIP341 / BIP342 digests

var recTap = ev.New("C07", "digest-taproot",
	"transactions as above x input index x spent outputs of every input (the signed one is P2TR) x annex absent/present (1-300 bytes, 0x50 prefix) x "+
		"tapleaf (version 0xc0 or another even byte, script 0-300 bytes) x code separator position (default, 0, small, 2^32-2, any); per case ALL 256 "+
		"hash type bytes + wide ones for CalcTaprootSignatureHash and CalcTapscriptSignaturehash; oracle = model/sighash.Taproot (BIP341/342, calibrated "+
		"on Core's feature_taproot vectors): equal digest, and an error on both sides for hash types outside {0,1,2,3,81,82,83} and for SINGLE without "+
		"matching output; TapLeaf.TapHash = model; non-trivial = always; distinct by (tx, index, spent, annex, leaf, codesep)",
	"annex", "no-annex", "single-out-of-range", "explicit-codesep", "leafver!=c0", "index>0")

func TestTaprootDigest(t *testing.T) {
	rapid.Check(t, func(t *rapid.T) {
		tx := genTx(t)
		idx := rapid.IntRange(0, len(tx.In)-1).Draw(t, "idx")
		spent := genSpent(t, tx, idx, true)
		var annex []byte
		if rapid.Bool().Draw(t, "annex?") {
			n := rapid.SampledFrom([]int{0, 1, 2, 31, 32, 100, 251, 252, 253, 300}).Draw(t, "annexLen")
			annex = append([]byte{0x50}, genBytes(t, n, n, "annex")...)
		}
		leafVer := byte(0xc0)
		if rapid.IntRange(0, 3).Draw(t, "leafver?") == 0 {
			leafVer = byte(rapid.IntRange(0, 127).Draw(t, "leafver")) * 2
		}
		var leafScript []byte
		if rapid.IntRange(0, 5).Draw(t, "bigleaf") == 0 {
			n := rapid.SampledFrom([]int{252, 253, 300}).Draw(t, "leafLen")
			leafScript = genBytes(t, n, n, "leafScript")
		} else {
			leafScript = genBytes(t, 0, 40, "leafScript")
		}
		explicitPos := rapid.Bool().Draw(t, "codesep?")
		pos := uint32(sighash.NoCodeSep)
		if explicitPos {
			pos = genU32(t, "codesepPos", 0, 1, 2, 3, 0xfffffffe, 0xffffffff, 0x100, 0xffff)
		}
		hts := append(hashTypeOrder(t), rapid.SliceOfN(genHashType32(), 2, 6).Draw(t, "ht32")...)

		var extra [][]byte
		for i := range spent {
			extra = append(extra, spent[i].PkScript, []byte(fmt.Sprint(spent[i].Value)))
		}
		extra = append(extra, annex, leafScript, []byte{leafVer, byte(idx), byte(pos), byte(pos >> 8), byte(pos >> 16), byte(pos >> 24)})
		cl := "no-annex"
		if annex != nil {
			cl = "annex"
		}
		recTap.Case(true, cl, caseHash(tx, extra...), func() any {
			return fmt.Sprintf("%s spent=%v annex=%x leaf=%#x/%x codesep=%#x", describe(tx, idx, nil), spent, annex, leafVer, leafScript, pos)
		})
		if idx >= len(tx.Out) {
			recTap.Count("single-out-of-range", 1)
		}
		if explicitPos {
			recTap.Count("explicit-codesep", 1)
		}
		if leafVer != 0xc0 {
			recTap.Count("leafver!=c0", 1)
		}
		if idx > 0 {
			recTap.Count("index>0", 1)
		}

		w := toWire(tx)
		f := fetcherFor(tx, spent)
		shared := txscript.NewTxSigHashes(w, f)
		leaf := txscript.NewTapLeaf(txscript.TapscriptLeafVersion(leafVer), leafScript)
		lh := leaf.TapHash()
		wantLH := sighash.TapLeafHash(leafVer, leafScript)
		if !bytes.Equal(lh[:], wantLH[:]) {
			t.Fatalf("TapLeaf.TapHash mismatch: btcd %x, BIP341 %x (version %#x script %x)", lh, wantLH, leafVer, leafScript)
		}
		ext := &sighash.TapscriptExt{LeafHash: wantLH, CodeSepPos: pos}
		ctx := func(ht uint32) string {
			return fmt.Sprintf("hashType=%#x %s spent=%v annex=%x leaf=%#x/%x codesep=%#x", ht, describe(tx, idx, nil), spent, annex, leafVer, leafScript, pos)
		}
		for _, ht := range hts {
			// key path (the API has no annex parameter)
			want, werr := sighash.Taproot(tx, idx, ht, spent, nil, nil)
			got, err := txscript.CalcTaprootSignatureHash(shared, txscript.SigHashType(ht), w, idx, f)
			if (err != nil) != (werr != nil) {
				t.Fatalf("taproot key path digest: btcd error %v, specification error %v\n%s", err, werr, ctx(ht))
			}
			if err == nil && !bytes.Equal(got, want[:]) {
				t.Fatalf("taproot key path digest mismatch: btcd %x, specification %x\n%s", got, want, ctx(ht))
			}
			// tapscript
			var opts []txscript.TaprootSigHashOption
			if explicitPos {
				opts = append(opts, txscript.WithBaseTapscriptVersion(pos, lh[:]))
			}
			if annex != nil {
				opts = append(opts, txscript.WithAnnex(annex))
			}
			want, werr = sighash.Taproot(tx, idx, ht, spent, annex, ext)
			sh := shared
			if ht&1 == 0 {
				sh = txscript.NewTxSigHashes(w, f)
			}
			got, err = txscript.CalcTapscriptSignaturehash(sh, txscript.SigHashType(ht), w, idx, f, leaf, opts...)
			if (err != nil) != (werr != nil) {
				t.Fatalf("tapscript digest: btcd error %v, specification error %v\n%s", err, werr, ctx(ht))
			}
			if err == nil && !bytes.Equal(got, want[:]) {
				t.Fatalf("tapscript digest mismatch: btcd %x, specification %x\n%s", got, want, ctx(ht))
			}
		}
	})
}

// ---------------------------------------------------------------------------
// sub-check 2: one TxSigHashes / one HashCache reused across inputs and types

var recReuse = ev.New("C07", "midstate-reuse",
	"a transaction with segwit v0 and taproot inputs; ONE TxSigHashes object and ONE process-wide HashCache (also holding a sibling transaction "+
		"with another txid and entries of earlier cases) are used for a drawn sequence of 8-40 (input, hash type) digest requests - ANYONECANPAY before "+
		"ALL, SINGLE/NONE before ALL, v0 and v1 interleaved; each result must equal the model and the result with freshly computed midstates; "+
		"afterwards the shared object must be unchanged and equal to a fresh NewTxSigHashes; purging the sibling must not disturb the entry; "+
		"non-trivial = sequence contains an ANYONECANPAY or NONE/SINGLE request followed by a request without it; distinct by (tx, spent, sequence)",
	"v0+v1", "v0-only", "v1-only", "acp-then-all")

var sharedHashCache = txscript.NewHashCache(64)

func TestMidstateReuse(t *testing.T) {
	rapid.Check(t, func(t *rapid.T) {
		tx := genTx(t)
		spent := genSpent(t, tx, -1, false)
		nV0, nV1 := 0, 0
		for i := range spent {
			if isP2TR(spent[i].PkScript) {
				nV1++
			} else {
				nV0++
			}
		}
		type req struct {
			idx int
			ht  uint32
		}
		n := rapid.IntRange(8, 40).Draw(t, "nreq")
		reqs := make([]req, n)
		seq := []byte{}
		nt := false
		sawSpecial := false
		for k := range reqs {
			reqs[k].idx = rapid.IntRange(0, len(tx.In)-1).Draw(t, "reqIdx")
			reqs[k].ht = uint32(rapid.SampledFrom([]int{0, 1, 2, 3, 0x81, 0x82, 0x83, 0x81, 1, 0x04, 0x80, 0xff}).Draw(t, "reqHt"))
			seq = append(seq, byte(reqs[k].idx), byte(reqs[k].ht))
			special := reqs[k].ht&0x80 != 0 || reqs[k].ht&0x1f == 2 || reqs[k].ht&0x1f == 3
			if sawSpecial && !special {
				nt = true
			}
			sawSpecial = sawSpecial || special
		}
		scripts := make([][]byte, len(tx.In))
		for i := range scripts {
			scripts[i] = genScriptCode(t, false).script
		}
		cl := "v0+v1"
		switch {
		case nV1 == 0:
			cl = "v0-only"
		case nV0 == 0:
			cl = "v1-only"
		}
		var extra [][]byte
		for i := range spent {
			extra = append(extra, spent[i].PkScript, []byte(fmt.Sprint(spent[i].Value)))
		}
		extra = append(extra, seq)
		recReuse.Case(nt, cl, caseHash(tx, extra...), func() any { return fmt.Sprintf("%s spent=%v requests=%v", describe(tx, 0, nil), spent, reqs) })
		if nt {
			recReuse.Count("acp-then-all", 1)
		}

		w := toWire(tx)
		f := fetcherFor(tx, spent)
		shared := txscript.NewTxSigHashes(w, f)
		snapshot := *shared

		// sibling: same transaction with another lock time => another txid
		sib := tx.Clone()
		sib.LockTime ^= 1
		wsib := toWire(sib)
		fsib := fetcherFor(sib, spent)
		sharedHashCache.AddSigHashes(wsib, fsib)
		sharedHashCache.AddSigHashes(w, f)
		txid, sibid := w.TxHash(), wsib.TxHash()
		defer func() {
			sharedHashCache.PurgeSigHashes(&txid)
			sharedHashCache.PurgeSigHashes(&sibid)
		}()

		for k, r := range reqs {
			if k == n/2 {
				sharedHashCache.PurgeSigHashes(&sibid)
				if sharedHashCache.ContainsHashes(&sibid) {
					t.Fatalf("PurgeSigHashes left the entry in place")
				}
			}
			cached, ok := sharedHashCache.GetSigHashes(&txid)
			if !ok {
				t.Fatalf("HashCache lost the entry of tx %v after purging a different txid", txid)
			}
			fresh := txscript.NewTxSigHashes(w, f)
			srcs := []*txscript.TxSigHashes{shared, cached, fresh}
			if isP2TR(spent[r.idx].PkScript) {
				want, werr := sighash.Taproot(tx, r.idx, r.ht, spent, nil, nil)
				for vi, sh := range srcs {
					got, err := txscript.CalcTaprootSignatureHash(sh, txscript.SigHashType(r.ht), w, r.idx, f)
					if (err != nil) != (werr != nil) {
						t.Fatalf("request %d (input %d type %#x, source %d): btcd error %v, specification error %v\n%s spent=%v", k, r.idx, r.ht, vi, err, werr, describe(tx, r.idx, nil), spent)
					}
					if err == nil && !bytes.Equal(got, want[:]) {
						t.Fatalf("request %d (input %d type %#x): taproot digest with midstate source %d (0=shared 1=HashCache 2=fresh) %x, specification %x\n%s spent=%v requests=%v",
							k, r.idx, r.ht, vi, got, want, describe(tx, r.idx, nil), spent, reqs[:k+1])
					}
				}
			} else {
				want := sighash.WitnessV0(scripts[r.idx], tx, r.idx, r.ht, spent[r.idx].Value)
				if len(scripts[r.idx]) == 22 && scripts[r.idx][0] == 0 && scripts[r.idx][1] == 0x14 {
					want = sighash.WitnessV0(sighash.P2PKHScript(scripts[r.idx][2:]), tx, r.idx, r.ht, spent[r.idx].Value)
				}
				for vi, sh := range srcs {
					got, err := txscript.CalcWitnessSigHash(scripts[r.idx], sh, txscript.SigHashType(r.ht), w, r.idx, spent[r.idx].Value)
					if err != nil {
						t.Fatalf("CalcWitnessSigHash: %v", err)
					}
					if !bytes.Equal(got, want[:]) {
						t.Fatalf("request %d (input %d type %#x): BIP143 digest with midstate source %d (0=shared 1=HashCache 2=fresh) %x, specification %x\n%s spent=%v requests=%v",
							k, r.idx, r.ht, vi, got, want, describe(tx, r.idx, scripts[r.idx]), spent, reqs[:k+1])
					}
				}
			}
		}
		if *shared != snapshot {
			t.Fatalf("the shared TxSigHashes was modified by digest computations: before %+v after %+v", snapshot, *shared)
		}
		if fresh := txscript.NewTxSigHashes(w, f); *fresh != snapshot {
			t.Fatalf("NewTxSigHashes is not a function of (tx, prevouts): %+v vs %+v", *fresh, snapshot)
		}
		_ = wire.OutPoint{}
	})
}
