package c18

import (
	"bytes"
	"fmt"
	"os"
	"runtime"
	"sort"
	"strings"
	"sync"
	"sync/atomic"
	"time"

	"github.com/btcsuite/btcd/chaincfg/v2"
	"github.com/btcsuite/btcd/chainhash/v2"
	"github.com/btcsuite/btcd/peer"
	"github.com/btcsuite/btcd/wire/v2"

	"verif/internal/ev"
)

const (
	bound        = 5 * time.Second // the explicit liveness bound of the property
	peerPkg      = "github.com/btcsuite/btcd/peer."
	tagRemote    = uint64(0x52) << 56
	tagLocal     = uint64(0x4c) << 56
	tagInventory = uint64(0x49) << 56
	tagKindMask  = uint64(0xff) << 56
)

type netInfo struct {
	params *chaincfg.Params
	magic  [4]byte
}

var nets = [...]netInfo{
	{&chaincfg.MainNetParams, magicMain},
	{&chaincfg.TestNet3Params, magicTest3},
	{&chaincfg.RegressionNetParams, magicRegtest},
}

// ---------------------------------------------------------------------------
// goroutine census: goroutines started by the peer package (the harness'
// own goroutines are created by this package, even when they are inside a
// peer method, and are accounted for separately with explicit joins)

type gor struct {
	id   int
	text string
}

func peerGoroutines() []gor {
	buf := make([]byte, 1<<16)
	for {
		n := runtime.Stack(buf, true)
		if n < len(buf) {
			buf = buf[:n]
			break
		}
		buf = make([]byte, 2*len(buf))
	}
	var out []gor
	for _, g := range strings.Split(string(buf), "\n\n") {
		if strings.Contains(g, "created by "+peerPkg) {
			id := 0
			fmt.Sscanf(g, "goroutine %d ", &id)
			out = append(out, gor{id, g})
		}
	}
	return out
}

func allStacks() string {
	buf := make([]byte, 1<<16)
	for {
		n := runtime.Stack(buf, true)
		if n < len(buf) {
			return string(buf[:n])
		}
		buf = make([]byte, 2*len(buf))
	}
}

// busyGoroutines counts goroutines other than the caller that are running or
// runnable, i.e. that can still change the state of the case.
func busyGoroutines() int {
	n := 0
	for i, g := range strings.Split(allStacks(), "\n\n") {
		if i == 0 {
			continue // the calling goroutine comes first
		}
		a, b := strings.IndexByte(g, '['), strings.IndexByte(g, ']')
		if a < 0 || b < a {
			continue
		}
		if st := g[a+1 : b]; strings.HasPrefix(st, "running") || strings.HasPrefix(st, "runnable") || strings.HasPrefix(st, "GC ") {
			n++
		}
	}
	return n
}

// processQuiescent reports that nothing but the caller can run: every other
// goroutine is parked (three samples 20 ms apart).  The property's bound is
// meant for a peer that stopped making progress, not for a machine that is
// slow because it is loaded: when a bound expires while goroutines are still
// runnable the harness keeps waiting (up to maxWait).
func processQuiescent() bool {
	for i := 0; i < 3; i++ {
		if i > 0 {
			time.Sleep(20 * time.Millisecond)
		}
		if busyGoroutines() > 0 {
			return false
		}
	}
	return true
}

const maxWait = 12 * bound

// awaitBound calls wait(bound) until it succeeds, the process is quiescent at
// the expiry of a bound (nothing can make it succeed any more), or maxWait is
// used up.
func awaitBound(wait func(d time.Duration) bool) bool {
	for total := time.Duration(0); total < maxWait; total += bound {
		if wait(bound) {
			return true
		}
		if processQuiescent() {
			return wait(time.Millisecond) // re-check once more
		}
	}
	return false
}

func dumpOf(gs []gor) string {
	var b strings.Builder
	for _, g := range gs {
		b.WriteString(g.text)
		b.WriteString("\n\n")
	}
	return b.String()
}

// Known, permanent leaks are recognised by the place the goroutine is stuck
// at (the source line is read back from the file the binary was built from, so
// that the match is on the statement and not on a line number).
const (
	sigLeakStall      = "stallhandler-exits-early-io-handler-stuck-on-stallcontrol"
	sigLeakInHandler  = "inhandler-stuck-in-pushrejectmsg-after-concurrent-disconnect"
)

var (
	srcMu    sync.Mutex
	srcCache = map[string][]string{}
)

func sourceLine(loc string) string {
	// loc looks like "\t/repo/peer/peer.go:1863 +0x305"
	loc = strings.TrimSpace(loc)
	if i := strings.IndexByte(loc, ' '); i > 0 {
		loc = loc[:i]
	}
	i := strings.LastIndexByte(loc, ':')
	if i < 0 {
		return ""
	}
	ln := 0
	fmt.Sscanf(loc[i+1:], "%d", &ln)
	srcMu.Lock()
	defer srcMu.Unlock()
	lines, ok := srcCache[loc[:i]]
	if !ok {
		if data, err := os.ReadFile(loc[:i]); err == nil {
			lines = strings.Split(string(data), "\n")
		}
		srcCache[loc[:i]] = lines
	}
	if ln < 1 || ln > len(lines) {
		return ""
	}
	return lines[ln-1]
}

// leakSignature classifies one leaked goroutine ("" = not a listed pattern).
func leakSignature(g gor) string {
	lines := strings.Split(g.text, "\n")
	if len(lines) < 3 {
		return ""
	}
	hdr, f0 := lines[0], lines[1]
	switch {
	case strings.Contains(hdr, "[chan send") && (strings.HasPrefix(f0, peerPkg+"(*Peer).outHandler(") ||
		strings.HasPrefix(f0, peerPkg+"(*Peer).inHandler(")) && strings.Contains(sourceLine(lines[2]), "p.stallControl <-"):
		return sigLeakStall
	case strings.Contains(hdr, "[chan receive") && strings.HasPrefix(f0, peerPkg+"(*Peer).PushRejectMsg(") &&
		strings.Contains(g.text, "\n"+peerPkg+"(*Peer).inHandler("):
		return sigLeakInHandler
	}
	return ""
}

// ---------------------------------------------------------------------------
// monitor: what the peer handed to the application

type mrec struct {
	seq  int64
	what string
	cmd  string
	tag  uint64
	n    int
	err  string
}

type appRec struct {
	listener string
	tag      uint64
}

type monitor struct {
	mu            sync.Mutex
	seq           *atomic.Int64
	sawVersion    bool
	sawVerAck     bool
	nOnVersion    int
	nOnVerAck     int
	nOnSendAddrV2 int
	versionPver   int32
	versionNonce  uint64
	app           []appRec
	earlyApp      []string // application listener before version+verack: violation
	earlyOnRead   []string // OnRead handed over a non-handshake message before version+verack
	wroteOther    bool     // OnWrite of something only the out handler writes
	log           []mrec
}

func (m *monitor) note(what, cmd string, tag uint64, n int, err error) {
	e := ""
	if err != nil {
		e = err.Error()
	}
	m.log = append(m.log, mrec{seq: m.seq.Add(1), what: what, cmd: cmd, tag: tag, n: n, err: e})
}

func (m *monitor) appDelivery(listener string, tag uint64) {
	m.mu.Lock()
	defer m.mu.Unlock()
	m.note(listener, "", tag, 0, nil)
	if !(m.sawVersion && m.sawVerAck) {
		m.earlyApp = append(m.earlyApp, fmt.Sprintf("%s(tag %#x) fired with version received=%v verack received=%v",
			listener, tag, m.sawVersion, m.sawVerAck))
	}
	m.app = append(m.app, appRec{listener, tag})
}

func (m *monitor) onRead(n int, msg wire.Message, err error) {
	m.mu.Lock()
	defer m.mu.Unlock()
	cmd := ""
	if msg != nil {
		cmd = msg.Command()
	}
	m.note("OnRead", cmd, 0, n, err)
	if msg == nil || err != nil {
		return
	}
	switch msg.(type) {
	case *wire.MsgVersion:
		m.sawVersion = true
	case *wire.MsgVerAck:
		m.sawVerAck = true
	case *wire.MsgSendAddrV2:
	default:
		if !(m.sawVersion && m.sawVerAck) {
			m.earlyOnRead = append(m.earlyOnRead, fmt.Sprintf("OnRead(%s) with version received=%v verack received=%v",
				cmd, m.sawVersion, m.sawVerAck))
		}
	}
}

func (m *monitor) onWrite(n int, msg wire.Message, err error) {
	m.mu.Lock()
	defer m.mu.Unlock()
	cmd := ""
	if msg != nil {
		cmd = msg.Command()
	}
	m.note("OnWrite", cmd, 0, n, err)
	switch cmd {
	case "version", "verack", "sendaddrv2", "reject":
	default:
		m.wroteOther = true
	}
}

func invTag(l []*wire.InvVect) uint64 {
	if len(l) == 0 {
		return 0
	}
	return hashTag(l[0].Hash[:])
}

func (m *monitor) listeners() peer.MessageListeners {
	return peer.MessageListeners{
		OnGetAddr:  func(p *peer.Peer, msg *wire.MsgGetAddr) { m.appDelivery("OnGetAddr", 0) },
		OnAddr:     func(p *peer.Peer, msg *wire.MsgAddr) { m.appDelivery("OnAddr", 0) },
		OnAddrV2:   func(p *peer.Peer, msg *wire.MsgAddrV2) { m.appDelivery("OnAddrV2", 0) },
		OnPing:     func(p *peer.Peer, msg *wire.MsgPing) { m.appDelivery("OnPing", msg.Nonce) },
		OnPong:     func(p *peer.Peer, msg *wire.MsgPong) { m.appDelivery("OnPong", msg.Nonce) },
		OnMemPool:  func(p *peer.Peer, msg *wire.MsgMemPool) { m.appDelivery("OnMemPool", 0) },
		OnTx:       func(p *peer.Peer, msg *wire.MsgTx) { m.appDelivery("OnTx", txTag(msg)) },
		OnBlock:    func(p *peer.Peer, msg *wire.MsgBlock, buf []byte) { m.appDelivery("OnBlock", 0) },
		OnCFilter:  func(p *peer.Peer, msg *wire.MsgCFilter) { m.appDelivery("OnCFilter", 0) },
		OnCFHeaders: func(p *peer.Peer, msg *wire.MsgCFHeaders) { m.appDelivery("OnCFHeaders", 0) },
		OnCFCheckpt: func(p *peer.Peer, msg *wire.MsgCFCheckpt) { m.appDelivery("OnCFCheckpt", 0) },
		OnInv:      func(p *peer.Peer, msg *wire.MsgInv) { m.appDelivery("OnInv", invTag(msg.InvList)) },
		OnHeaders:  func(p *peer.Peer, msg *wire.MsgHeaders) { m.appDelivery("OnHeaders", 0) },
		OnNotFound: func(p *peer.Peer, msg *wire.MsgNotFound) { m.appDelivery("OnNotFound", invTag(msg.InvList)) },
		OnGetData:  func(p *peer.Peer, msg *wire.MsgGetData) { m.appDelivery("OnGetData", invTag(msg.InvList)) },
		OnGetBlocks: func(p *peer.Peer, msg *wire.MsgGetBlocks) { m.appDelivery("OnGetBlocks", 0) },
		OnGetHeaders: func(p *peer.Peer, msg *wire.MsgGetHeaders) {
			m.appDelivery("OnGetHeaders", hashTag(msg.HashStop[:]))
		},
		OnGetCFilters:  func(p *peer.Peer, msg *wire.MsgGetCFilters) { m.appDelivery("OnGetCFilters", 0) },
		OnGetCFHeaders: func(p *peer.Peer, msg *wire.MsgGetCFHeaders) { m.appDelivery("OnGetCFHeaders", 0) },
		OnGetCFCheckpt: func(p *peer.Peer, msg *wire.MsgGetCFCheckpt) { m.appDelivery("OnGetCFCheckpt", 0) },
		OnFeeFilter:    func(p *peer.Peer, msg *wire.MsgFeeFilter) { m.appDelivery("OnFeeFilter", 0) },
		OnFilterAdd:    func(p *peer.Peer, msg *wire.MsgFilterAdd) { m.appDelivery("OnFilterAdd", 0) },
		OnFilterClear:  func(p *peer.Peer, msg *wire.MsgFilterClear) { m.appDelivery("OnFilterClear", 0) },
		OnFilterLoad:   func(p *peer.Peer, msg *wire.MsgFilterLoad) { m.appDelivery("OnFilterLoad", 0) },
		OnMerkleBlock:  func(p *peer.Peer, msg *wire.MsgMerkleBlock) { m.appDelivery("OnMerkleBlock", 0) },
		OnReject:       func(p *peer.Peer, msg *wire.MsgReject) { m.appDelivery("OnReject", 0) },
		OnSendHeaders:  func(p *peer.Peer, msg *wire.MsgSendHeaders) { m.appDelivery("OnSendHeaders", 0) },
		OnVersion: func(p *peer.Peer, msg *wire.MsgVersion) *wire.MsgReject {
			m.mu.Lock()
			m.note("OnVersion", "version", msg.Nonce, int(msg.ProtocolVersion), nil)
			m.nOnVersion++
			m.sawVersion = true
			if m.nOnVersion == 1 {
				m.versionPver = msg.ProtocolVersion
				m.versionNonce = msg.Nonce
			}
			m.mu.Unlock()
			return nil
		},
		OnVerAck: func(p *peer.Peer, msg *wire.MsgVerAck) {
			m.mu.Lock()
			m.note("OnVerAck", "verack", 0, 0, nil)
			m.nOnVerAck++
			m.sawVerAck = true
			m.mu.Unlock()
		},
		OnSendAddrV2: func(p *peer.Peer, msg *wire.MsgSendAddrV2) {
			m.mu.Lock()
			m.note("OnSendAddrV2", "sendaddrv2", 0, 0, nil)
			m.nOnSendAddrV2++
			m.mu.Unlock()
		},
		OnRead:  func(p *peer.Peer, n int, msg wire.Message, err error) { m.onRead(n, msg, err) },
		OnWrite: func(p *peer.Peer, n int, msg wire.Message, err error) { m.onWrite(n, msg, err) },
	}
}

func txTag(msg *wire.MsgTx) uint64 {
	if len(msg.TxIn) == 0 {
		return 0
	}
	return hashTag(msg.TxIn[0].PreviousOutPoint.Hash[:])
}

// ---------------------------------------------------------------------------
// runner

type qcall struct {
	tag      uint64
	caller   int
	idx      int
	op       qop
	cmd      string
	payload  []byte // bytes the message must have on the wire
	done     chan struct{}
	retSeq   atomic.Int64 // stamp taken after the call returned (0: not returned)
	startSeq int64
}

type icall struct {
	tag    uint64
	caller int
	idx    int
	typ    uint32
}

type sentMsg struct {
	idx  int // position in the remote's stream
	spec rspec
	tag  uint64
}

type hrec struct {
	seq  int64
	text string
}

type outcome struct {
	violations []string
	known      []string // known-finding signatures met (with observation)
	knownObs   map[string]string
	features   map[string]bool
	nontrivial bool
	history    string
}

type runner struct {
	sc   *script
	cfg  caseCfg
	net  netInfo
	p    *peer.Peer
	conn *gconn
	mon  *monitor
	mdl  *hsModel
	seq  atomic.Int64

	mu        sync.Mutex // guards the bookkeeping below (callers run concurrently)
	hist      []hrec
	qcalls    []*qcall
	icalls    []*icall
	nextIdx   map[int]int
	nextInv   map[int]int
	viol      []string
	callerSeq int
	wg        sync.WaitGroup

	sent            []sentMsg
	refusalIdx      int // stream index of the message that obliges the peer to refuse (-1: none)
	hzMu            sync.Mutex
	hazardSeq       int64
	hazard          bool
	confirmedLive   bool
	selfNonce       uint64
	haveSelfNonce   bool
	queuedSinceSync int
	feat            map[string]bool
	nontrivial      bool
	disconnectCalls atomic.Int32
	leaks           map[string]bool
}

func (r *runner) h(format string, a ...any) {
	s := r.seq.Add(1)
	r.mu.Lock()
	r.hist = append(r.hist, hrec{s, fmt.Sprintf(format, a...)})
	r.mu.Unlock()
}

func (r *runner) violate(format string, a ...any) {
	r.mu.Lock()
	r.viol = append(r.viol, fmt.Sprintf(format, a...))
	r.mu.Unlock()
}

// markHazard stamps the first event after which the property no longer
// promises that the connection stays up.
func (r *runner) markHazard(why string) {
	r.hzMu.Lock()
	first := !r.hazard
	if first {
		r.hazard = true
		r.hazardSeq = r.seq.Add(1)
	}
	r.hzMu.Unlock()
	if first {
		r.h("-- hazard: %s", why)
	}
}

func (r *runner) hazardState() (bool, int64) {
	r.hzMu.Lock()
	defer r.hzMu.Unlock()
	return r.hazard, r.hazardSeq
}

func (r *runner) setFeat(k string) {
	r.mu.Lock()
	r.feat[k] = true
	r.mu.Unlock()
}

// siblingNonce makes the local node send one more version message (through an
// outbound peer of the same process, as a node connecting to itself does) and
// returns its nonce.
func siblingNonce(n netInfo) (uint64, bool) {
	c := newGConn(0)
	p, err := peer.NewOutboundPeer(&peer.Config{ChainParams: n.params, DisableStallHandler: true,
		TrickleInterval: time.Millisecond}, "10.0.0.3:8333")
	if err != nil {
		return 0, false
	}
	p.AssociateConnection(c)
	var fr wframe
	ok := awaitBound(func(d time.Duration) bool {
		var got bool
		fr, got = c.firstFrame(d)
		return got
	})
	p.Disconnect()
	p.WaitForDisconnect()
	if !ok || fr.Cmd != "version" {
		return 0, false
	}
	v, err := decodeVersion(fr.Payload)
	if err != nil {
		return 0, false
	}
	return v.Nonce, true
}

func runCase(sc *script) *outcome {
	r := &runner{sc: sc, cfg: sc.Cfg, net: nets[sc.Cfg.Net], nextIdx: map[int]int{}, nextInv: map[int]int{},
		refusalIdx: -1, feat: map[string]bool{}, leaks: map[string]bool{}}
	r.mon = &monitor{seq: &r.seq}
	r.mdl = newModel(r.cfg.effLocalPver(), r.cfg.AllowSelf)
	baseline := map[int]bool{}
	for _, g := range peerGoroutines() {
		baseline[g.id] = true
	}

	needSibling := false
	for _, e := range sc.Events {
		if e.K == eRemote && e.R.K == rVersion && e.R.Self && r.cfg.Inbound {
			needSibling = true
		}
	}
	if needSibling {
		r.selfNonce, r.haveSelfNonce = siblingNonce(r.net)
		if !r.haveSelfNonce {
			return &outcome{violations: []string{"VERIF-INFRA: could not obtain a nonce from a sibling outbound peer"}}
		}
	}

	r.conn = newGConn(r.cfg.Chunk)
	pcfg := &peer.Config{
		UserAgentName:       "verif",
		UserAgentVersion:    "1.0.0",
		ChainParams:         r.net.params,
		Services:            wire.ServiceFlag(r.cfg.Services),
		ProtocolVersion:     r.cfg.LocalPver,
		Listeners:           r.mon.listeners(),
		TrickleInterval:     time.Duration(r.cfg.TrickleMs) * time.Millisecond,
		AllowSelfConns:      r.cfg.AllowSelf,
		DisableStallHandler: r.cfg.DisableStall,
	}
	if r.cfg.Inbound {
		r.setFeat("inbound")
		r.p = peer.NewInboundPeer(pcfg)
	} else {
		r.setFeat("outbound")
		var err error
		r.p, err = peer.NewOutboundPeer(pcfg, "10.0.0.2:8333")
		if err != nil {
			return &outcome{violations: []string{"VERIF-INFRA: NewOutboundPeer: " + err.Error()}}
		}
	}
	r.h("AssociateConnection (%s)", map[bool]string{true: "inbound", false: "outbound"}[r.cfg.Inbound])
	r.p.AssociateConnection(r.conn)

	for i, e := range sc.Events {
		r.h("ev%02d %s", i, e.String())
		r.exec(e)
	}
	r.finish(baseline)

	if r.mdl.oooOrDup {
		r.setFeat("ooo-or-dup-handshake-message")
	}
	out := &outcome{features: map[string]bool{}, nontrivial: r.nontrivial || r.mdl.oooOrDup, knownObs: map[string]string{}}
	r.mu.Lock()
	for k := range r.feat {
		out.features[k] = true
	}
	// observations that break the property by its letter and that the
	// findings file may list are reported separately, so that the test
	// function can consult the list; everything else is a plain violation
	for _, v := range r.viol {
		if strings.HasPrefix(v, knownLostDonePrefix) {
			if _, dup := out.knownObs[sigLostDone]; !dup {
				out.known = append(out.known, sigLostDone)
				out.knownObs[sigLostDone] = strings.TrimPrefix(v, knownLostDonePrefix)
			}
			continue
		}
		if strings.HasPrefix(v, knownLeakPrefix) {
			rest := strings.TrimPrefix(v, knownLeakPrefix)
			if i := strings.IndexByte(rest, ']'); i > 0 {
				sig := rest[:i]
				if _, dup := out.knownObs[sig]; !dup {
					out.known = append(out.known, sig)
					out.knownObs[sig] = strings.TrimSpace(rest[i+1:])
				}
				continue
			}
		}
		out.violations = append(out.violations, v)
	}
	r.mu.Unlock()
	r.mon.mu.Lock()
	// OnRead is the raw "a message was read" hook (it also receives the
	// version message itself); the typed listeners are what delivers protocol
	// messages to the application. An early OnRead is therefore recorded as
	// an observation only, not asserted (the property does not name OnRead).
	_ = sigEarlyOnRead
	r.mon.mu.Unlock()
	out.history = r.history()
	return out
}

const (
	sigLostDone    = "done-never-signalled-when-negotiation-does-not-complete"
	sigEarlyOnRead = "onread-hands-over-message-before-verack"
)

func (r *runner) history() string {
	r.mu.Lock()
	all := append([]hrec(nil), r.hist...)
	r.mu.Unlock()
	r.mon.mu.Lock()
	for _, m := range r.mon.log {
		t := fmt.Sprintf("      peer -> %s %s", m.what, m.cmd)
		if m.tag != 0 {
			t += fmt.Sprintf(" tag %#x", m.tag)
		}
		if m.n != 0 {
			t += fmt.Sprintf(" n=%d", m.n)
		}
		if m.err != "" {
			t += " err=" + m.err
		}
		all = append(all, hrec{m.seq, t})
	}
	r.mon.mu.Unlock()
	sort.Slice(all, func(i, j int) bool { return all[i].seq < all[j].seq })
	var b strings.Builder
	for _, x := range all {
		fmt.Fprintf(&b, "%5d %s\n", x.seq, x.text)
	}
	return b.String()
}

// ---------------------------------------------------------------------------
// events

func (r *runner) exec(e event) {
	switch e.K {
	case eRemote:
		r.remoteSend(e)
	case eLetRead:
		r.conn.letRead(e.N)
		r.setFeat("withheld-reads")
	case eGateWrites:
		r.conn.gateWrites(e.N)
		r.setFeat("gated-writes")
	case eLetWrite:
		r.conn.letWrite(e.N)
	case eOpenWrites:
		r.conn.openWrites()
	case eWriteFail:
		r.noteLoss("write-failure")
		r.markHazard("write failure armed")
		r.conn.failWritesAfter(e.N)
	case eRemoteClose:
		r.noteLoss("remote-close")
		r.markHazard("remote close")
		r.conn.remoteClose()
	case eLocal:
		r.doOp(0, e.Op)
	case eSpawn:
		r.callerSeq++
		id := r.callerSeq
		r.setFeat("concurrent-callers")
		r.wg.Add(1)
		go func() {
			defer r.wg.Done()
			for _, o := range e.Ops {
				r.doOp(id, o)
			}
		}()
	case ePause:
		if e.N == 0 {
			runtime.Gosched()
		} else {
			time.Sleep(time.Duration(e.N) * time.Microsecond)
		}
	case eSettle:
		r.settle(false)
	}
}

// noteLoss records the non-triviality rule "a disconnect or connection loss
// while at least one message is queued or in flight".
func (r *runner) noteLoss(kind string) {
	r.setFeat(kind)
	inflight := r.queuedSinceSync > 0
	r.mu.Lock()
	for _, q := range r.qcalls {
		if q.done != nil && len(q.done) == 0 {
			inflight = true
		}
	}
	r.mu.Unlock()
	if r.conn.writerBlocked() {
		inflight = true
	}
	if inflight && !r.conn.closed.Load() {
		r.nontrivial = true
		r.setFeat("loss-with-messages-in-flight")
	}
}

func (r *runner) appPayload(k akind, tag uint64) []byte {
	switch k {
	case aPing, aPong:
		return encodeU64(tag)
	case aInv, aGetData, aNotFound:
		return encodeInvLike([]invEntry{{invTx, tag}})
	case aTx:
		return simpleTx{Tag: tag, ScriptSig: []byte{0x51}, PkScript: []byte{0x51, 0x87}, Value: 5000, Sequence: 0xfffffffe}.encode(false)
	case aGetHeaders:
		return encodeGetHeaders(70016, []uint64{tag ^ 1}, tag)
	case aFeeFilter:
		return encodeU64(1000)
	case aHeaders:
		return []byte{0}
	case aAddr:
		b := []byte{1, 0x00, 0x5e, 0x52, 0x65} // one entry, timestamp
		return appendNetAddr(b, 1, [4]byte{10, 9, 8, 7}, 8333)
	}
	return nil // getaddr, mempool, sendheaders
}

func (r *runner) otherMagic(variant int) [4]byte {
	switch variant {
	case 0:
		return nets[(r.cfg.Net+1)%3].magic
	case 1:
		return nets[(r.cfg.Net+2)%3].magic
	case 2:
		return [4]byte{0x0a, 0x03, 0xcf, 0x40} // signet
	}
	m := r.net.magic
	m[3] ^= 0x01
	return m
}

func (r *runner) remoteSend(e event) {
	s := e.R
	idx := len(r.sent)
	tag := tagRemote | uint64(idx+1)
	magic := r.net.magic
	var b []byte
	oldStylePing := false
	switch s.K {
	case rVersion:
		nonce := uint64(0x1111111100000000) | uint64(idx+1)
		if s.Self {
			if r.cfg.Inbound {
				nonce = r.selfNonce
			} else {
				// the remote echoes the nonce of the version message
				// the peer has just sent
				var fr wframe
				ok := awaitBound(func(d time.Duration) bool {
					var got bool
					fr, got = r.conn.firstFrame(d)
					return got || r.conn.closed.Load()
				}) && fr.Cmd != ""
				v, err := decodeVersion(fr.Payload)
				if ok && fr.Cmd == "version" && err == nil {
					nonce = v.Nonce
				} else {
					s.Self = false
					r.h("   (no version message from the peer to echo: using a fresh nonce)")
				}
			}
			if s.Self {
				r.setFeat("self-nonce-sent")
			}
		}
		b = frame(magic, "version", encodeVersion(versionFields{Pver: s.Pver, Services: s.Services, Timestamp: 1700000000,
			Nonce: nonce, UA: s.UA, Height: 0xc18, Relay: s.Relay}))
	case rVerAck:
		b = frame(magic, "verack", nil)
	case rSendAddrV2:
		b = frame(magic, "sendaddrv2", nil)
	case rUnknown:
		b = frame(magic, s.Cmd, make([]byte, []int{0, 8, 100}[s.Variant]))
	case rApp:
		b = frame(magic, akindCmd[s.App], r.appPayload(s.App, tag))
		if s.App == aPing && r.mdl.negotiated <= pverBIP31 {
			// the ping of a remote that speaks the negotiated (pre-BIP31) version has no nonce
			b = frame(magic, "ping", nil)
			oldStylePing = true
			r.setFeat("nonce-less-ping")
		}
	case rWrongNet:
		b = frame(r.otherMagic(s.Variant), akindCmd[s.App], r.appPayload(s.App, tag))
	case rMalformed:
		switch s.Variant {
		case 0: // bad checksum
			pl := encodeU64(tag)
			b = frameRaw(magic, "ping", pl, 8, []byte{1, 2, 3, 4})
		case 1: // payload shorter than the message needs
			b = frame(magic, "inv", []byte{1, 1, 0, 0})
		case 2: // payload where none is allowed
			b = frame(magic, "verack", []byte{0})
		case 3: // count larger than the entries present
			pl := encodeInvLike([]invEntry{{invTx, tag}})
			pl[0] = 2
			b = frame(magic, "getdata", pl)
		case 4: // user agent longer than 256 bytes
			b = frame(magic, "version", encodeVersion(versionFields{Pver: 70016, Services: 1, Timestamp: 1700000000,
				Nonce: 0x2222222200000000 | uint64(idx+1), UA: strings.Repeat("x", 257), Relay: true}))
		default: // command that is not valid UTF-8
			b = frame(magic, "pi\xffng", encodeU64(tag))
		}
	case rOversize:
		cmd := []string{"ping", "tx", "version", "block"}[s.Variant]
		ln := []uint32{4_000_001, 0xffffffff, 33_554_433, 4_000_001}[s.Variant]
		b = frameRaw(magic, cmd, nil, ln, []byte{0, 0, 0, 0})
	}
	minPver := uint32(0)
	if s.K == rApp && !oldStylePing {
		minPver = akindMinPver[s.App]
	}
	before := r.mdl.state
	benign := r.mdl.feed(s.K, s.Pver, s.Self, minPver)
	if !benign {
		if r.mdl.state == stMustFail && before != stMustFail && r.refusalIdx < 0 {
			r.refusalIdx = idx
			r.setFeat("refusal:"+r.mdl.reason)
		}
		r.markHazard(fmt.Sprintf("remote message %d (%s) is not part of a conforming conversation: model %s (%s)",
			idx, s.K, r.mdl.state, r.mdl.reason))
	}
	r.sent = append(r.sent, sentMsg{idx: idx, spec: s, tag: tag})
	r.h("   remote msg#%d %s tag %#x, %d bytes, model -> %s", idx, s.K, tag, len(b), r.mdl.state)
	if e.Hold {
		r.setFeat("withheld-reads")
	}
	r.conn.send(b, !e.Hold)
}

func (r *runner) buildLocal(q *qcall) wire.Message {
	th := chainhash.Hash(tagHash(q.tag))
	switch q.op.L {
	case lGetData:
		m := wire.NewMsgGetData()
		m.AddInvVect(wire.NewInvVect(wire.InvTypeTx, &th))
		q.payload = encodeInvLike([]invEntry{{invTx, q.tag}})
		return m
	case lNotFound:
		m := wire.NewMsgNotFound()
		m.AddInvVect(wire.NewInvVect(wire.InvTypeBlock, &th))
		q.payload = encodeInvLike([]invEntry{{invBlock, q.tag}})
		return m
	case lInvMsg:
		m := wire.NewMsgInv()
		m.AddInvVect(wire.NewInvVect(wire.InvTypeWitnessTx, &th))
		q.payload = encodeInvLike([]invEntry{{invWitnessTx, q.tag}})
		return m
	case lTx:
		st := simpleTx{Tag: q.tag, ScriptSig: []byte{0x00, 0x51}, PkScript: []byte{0x00, 0x14, 1, 2, 3}, Witness: []byte{0xde, 0xad, 0xbe, 0xef},
			Value: 12345, Sequence: 0xfffffffd}
		m := wire.NewMsgTx(2)
		m.AddTxIn(&wire.TxIn{PreviousOutPoint: wire.OutPoint{Hash: th, Index: 7}, SignatureScript: st.ScriptSig,
			Witness: wire.TxWitness{st.Witness}, Sequence: st.Sequence})
		m.AddTxOut(&wire.TxOut{Value: st.Value, PkScript: st.PkScript})
		m.LockTime = uint32(q.tag)
		q.payload = st.encode(q.op.Enc == 2)
		return m
	case lGetHeaders:
		m := wire.NewMsgGetHeaders()
		m.ProtocolVersion = 70016
		loc := chainhash.Hash(tagHash(q.tag ^ 1))
		m.AddBlockLocatorHash(&loc)
		m.HashStop = th
		q.payload = encodeGetHeaders(70016, []uint64{q.tag ^ 1}, q.tag)
		return m
	default:
		q.payload = encodeU64(q.tag)
		return wire.NewMsgPing(q.tag)
	}
}

// doOp runs one local operation on behalf of caller id (0 = main goroutine).
func (r *runner) doOp(caller int, o qop) {
	switch o.K {
	case opQueue:
		r.mu.Lock()
		idx := r.nextIdx[caller]
		r.nextIdx[caller] = idx + 1
		q := &qcall{tag: tagLocal | uint64(caller)<<32 | uint64(idx), caller: caller, idx: idx, op: o, cmd: lkindCmd[o.L]}
		if o.Done {
			q.done = make(chan struct{}, 4)
		}
		msg := r.buildLocal(q)
		r.qcalls = append(r.qcalls, q)
		if caller == 0 {
			r.queuedSinceSync++
		}
		r.mu.Unlock()
		if caller == 0 && r.mdl.state != stDone {
			r.setFeat("queue-during-handshake")
		}
		q.startSeq = r.seq.Add(1)
		var dc chan<- struct{}
		if q.done != nil {
			dc = q.done
		}
		switch o.Enc {
		case 0:
			r.p.QueueMessage(msg, dc)
		case 1:
			r.p.QueueMessageWithEncoding(msg, dc, wire.BaseEncoding)
		default:
			r.p.QueueMessageWithEncoding(msg, dc, wire.WitnessEncoding)
		}
		q.retSeq.Store(r.seq.Add(1))
		if caller != 0 {
			r.h("   caller %d: %s returned (tag %#x)", caller, o, q.tag)
		}
	case opInv:
		r.mu.Lock()
		idx := r.nextInv[caller]
		r.nextInv[caller] = idx + 1
		ic := &icall{tag: tagInventory | uint64(caller)<<32 | uint64(idx), caller: caller, idx: idx, typ: o.InvType}
		r.icalls = append(r.icalls, ic)
		r.mu.Unlock()
		th := chainhash.Hash(tagHash(ic.tag))
		r.p.QueueInventory(wire.NewInvVect(wire.InvType(o.InvType), &th))
	case opGetters:
		p := r.p
		// the verack flag is read first: once it is set the version must
		// already be known, whatever happens between the two reads
		va := p.VerAckReceived()
		vk := p.VersionKnown()
		_ = p.ProtocolVersion()
		_ = p.Connected()
		_ = p.StatsSnapshot()
		_ = p.LastPingNonce()
		_ = p.Services()
		_ = p.UserAgent()
		_ = p.WantsAddrV2()
		_ = p.IsWitnessEnabled()
		_ = p.WantsHeaders()
		_ = p.BytesSent() + p.BytesReceived()
		_ = p.LastRecv()
		_ = p.LastSend()
		_ = p.TimeOffset()
		_ = p.StartingHeight()
		_ = p.LastBlock()
		_ = p.ID()
		_ = p.String()
		if va && !vk {
			r.violate("VerAckReceived()=true was observed, then VersionKnown()=false")
		}
	case opYield:
		runtime.Gosched()
	case opDisconnect:
		if caller == 0 {
			r.noteLoss("local-disconnect")
			r.markHazard("Disconnect() called")
		} else {
			// a concurrent caller: the stamp must precede the call
			r.setFeat("local-disconnect")
			r.setFeat("concurrent-disconnect")
			r.markHazard("Disconnect() called by a concurrent caller")
		}
		r.disconnect(fmt.Sprintf("caller %d", caller))
	}
}

func (r *runner) disconnect(who string) {
	r.disconnectCalls.Add(1)
	defer func() {
		if x := recover(); x != nil {
			r.violate("Disconnect() called by %s panicked: %v", who, x)
		}
	}()
	r.p.Disconnect()
}

// settle lets everything pending through, waits until the peer is quiescent
// and compares the peer with the reference model.
func (r *runner) settle(final bool) {
	var quiescent, closed bool
	awaitBound(func(d time.Duration) bool {
		quiescent, closed = r.conn.settle(d)
		return quiescent
	})
	r.queuedSinceSync = 0
	hazard, _ := r.hazardState()
	r.h("   settle: quiescent=%v closed=%v model=%s hazard=%v", quiescent, closed, r.mdl.state, hazard)
	if !quiescent {
		if r.mdl.state == stMustFail {
			r.violate("the peer did not refuse the connection within %v although the remote sent %s (model: %s)",
				bound, r.mdl.reason, r.mdl.state)
		} else if !r.conn.remoteClosed {
			r.violate("the peer neither went back to reading nor closed the connection within %v (model: %s)", bound, r.mdl.state)
		} else {
			r.violate("the peer did not close the connection within %v of the remote hanging up", bound)
		}
		return
	}
	if r.mdl.state == stMustFail {
		if !closed && !awaitBound(r.conn.waitClosed) {
			r.violate("the peer keeps the connection open although the remote sent %s, which the property says must be refused", r.mdl.reason)
		}
		return
	}
	if hazard || r.mdl.state == stEither {
		return
	}
	// a conforming conversation so far and nothing that allows the peer to hang up
	if closed {
		r.violate("the peer closed the connection during a conforming conversation (model: %s, negotiated %d)", r.mdl.state, r.mdl.negotiated)
		return
	}
	if r.mdl.state == stDone {
		r.checkLive("at settle")
		r.confirmedLive = true
		r.setFeat("live-confirmed")
	}
}

func (r *runner) checkLive(when string) {
	p := r.p
	if !p.VersionKnown() || !p.VerAckReceived() {
		r.violate("%s after a valid version/verack exchange: VersionKnown=%v VerAckReceived=%v", when, p.VersionKnown(), p.VerAckReceived())
	}
	if got := p.ProtocolVersion(); got != r.mdl.negotiated {
		r.violate("%s: negotiated protocol version %d, want min(local %d, remote %d) = %d", when, got, r.mdl.localPver, r.mdl.remotePver, r.mdl.negotiated)
	}
	r.mon.mu.Lock()
	nv, na := r.mon.nOnVersion, r.mon.nOnVerAck
	r.mon.mu.Unlock()
	if nv != 1 || na != 1 {
		r.violate("%s after a valid version/verack exchange: OnVersion fired %d times, OnVerAck %d times", when, nv, na)
	}
}

// awaitCall runs f in a goroutine of the harness and waits for it to return.
func awaitCall(f func()) bool {
	ch := make(chan struct{})
	go func() { f(); close(ch) }()
	return awaitBound(func(d time.Duration) bool {
		select {
		case <-ch:
			return true
		case <-time.After(d):
			return false
		}
	})
}

func (r *runner) finish(baseline map[int]bool) {
	r.h("-- finish")
	r.settle(true)

	// every caller must come back: the scripts keep the queue depth below
	// the peer's channel buffers, so a blocked caller is stuck for good
	if !awaitCall(r.wg.Wait) {
		r.violate("a concurrent caller is still blocked inside QueueMessage/QueueInventory/Disconnect more than %v after the script ended", bound)
	}

	if !r.conn.closed.Load() {
		if r.cfg.EndRemoteClose {
			r.markHazard("remote close (end of script)")
			r.setFeat("end-by-remote-close")
			r.conn.remoteClose()
		} else {
			r.markHazard("Disconnect() (end of script)")
			r.disconnect("end of script")
		}
	}
	if !awaitCall(r.p.WaitForDisconnect) {
		r.violate("WaitForDisconnect did not return within %v of the disconnect", bound)
		r.disconnect("cleanup")
	}
	r.h("   WaitForDisconnect returned")

	// goroutine census: everything the peer package started since the case
	// began must be gone
	start := time.Now()
	nap := 50 * time.Microsecond
	nextCheck := bound
	for {
		var extra []gor
		for _, g := range peerGoroutines() {
			if !baseline[g.id] {
				extra = append(extra, g)
			}
		}
		if len(extra) == 0 {
			break
		}
		waited := time.Since(start)
		if waited > 500*time.Millisecond {
			// goroutines parked for good at a listed place: no need to
			// sit out the whole bound
			sigs := map[string]bool{}
			for _, g := range extra {
				sigs[leakSignature(g)] = true
			}
			listed := true
			for sg := range sigs {
				if sg == "" || !ev.IsKnown("C18", sg) {
					listed = false
				}
			}
			if listed {
				for sg := range sigs {
					r.violate("%s%s] %d goroutine(s) started by the peer package are still alive %v after WaitForDisconnect returned:\n%s",
						knownLeakPrefix, sg, len(extra), waited.Round(time.Millisecond), dumpOf(extra))
					r.leaks[sg] = true
				}
				for _, g := range extra {
					if strings.Contains(g.text, "\n"+peerPkg+"(*Peer).outHandler(") {
						r.leaks["out-handler-stuck"] = true
					}
				}
				break
			}
		}
		if waited > nextCheck && !processQuiescent() && waited < maxWait {
			nextCheck += bound // loaded machine: goroutines are still runnable
		} else if waited > nextCheck {
			sg := ""
			if len(extra) > 0 {
				sg = leakSignature(extra[0])
			}
			for _, g := range extra {
				if leakSignature(g) != sg {
					sg = ""
				}
			}
			pfx := ""
			if sg != "" {
				pfx = knownLeakPrefix + sg + "] "
				r.leaks[sg] = true
			}
			r.violate("%s%d goroutine(s) started by the peer package are still alive %v after WaitForDisconnect returned:\n%s",
				pfx, len(extra), waited.Round(time.Millisecond), dumpOf(extra))
			break
		}
		time.Sleep(nap) // a full stack dump stops the world: back off
		if nap < 20*time.Millisecond {
			nap *= 2
		}
	}
	r.h("   census done")

	if r.conn.closeCalls.Load() == 0 {
		r.violate("the peer never closed its connection")
	}
	r.checkDone()
	r.checkStream()
	r.checkEndState()
}

const (
	knownLostDonePrefix = "[queued-before-handlers-started] "
	knownLeakPrefix     = "[leak:"
)

func (r *runner) checkDone() {
	r.mon.mu.Lock()
	handlersRan := len(r.mon.app) > 0 || r.mon.wroteOther
	r.mon.mu.Unlock()
	r.mu.Lock()
	calls := append([]*qcall(nil), r.qcalls...)
	r.mu.Unlock()
	_, hazardSeq := r.hazardState()
	for _, q := range calls {
		if q.done == nil {
			continue
		}
		n := len(q.done)
		ret := q.retSeq.Load()
		if n > 1 {
			r.violate("completion of %s (caller %d #%d, tag %#x) was signalled %d times", q.op, q.caller, q.idx, q.tag, n)
			continue
		}
		if n == 1 {
			continue
		}
		if ret == 0 {
			continue // reported as blocked caller
		}
		if ret < hazardSeq {
			pfx := ""
			if !r.confirmedLive && !handlersRan {
				pfx = knownLostDonePrefix
			}
			if r.leaks[sigLeakStall] && r.leaks["out-handler-stuck"] {
				// the stuck out handler never reaches its drain loop: same defect
				pfx = knownLeakPrefix + sigLeakStall + "] "
			}
			r.violate("%scompletion of %s (caller %d #%d, tag %#x) was never signalled: the call returned (stamp %d) before the first disconnect request / connection loss (stamp %d) and no goroutine of the peer is left that could signal it",
				pfx, q.op, q.caller, q.idx, q.tag, ret, hazardSeq)
		}
	}
}

func isBlockInv(t uint32) bool { return t == invBlock || t == invWitnessBlock }

func (r *runner) checkStream() {
	out := r.conn.written()
	frames, _ := parseFrames(out)
	r.mu.Lock()
	byTag := map[uint64]*qcall{}
	for _, q := range r.qcalls {
		byTag[q.tag] = q
	}
	invByTag := map[uint64]*icall{}
	for _, ic := range r.icalls {
		invByTag[ic.tag] = ic
	}
	r.mu.Unlock()
	nextIdx := map[int]int{}
	lastInv := map[[2]int]int{}
	seenInv := map[uint64]bool{}
	var cmds []string
	for i, f := range frames {
		cmds = append(cmds, f.Cmd)
		if f.Magic != r.net.magic || !f.ChecksumOK || !f.CmdOK {
			r.violate("frame %d (%q) written by the peer does not decode: magic %x (want %x) checksum ok=%v command ok=%v",
				i, f.Cmd, f.Magic, r.net.magic, f.ChecksumOK, f.CmdOK)
			return
		}
		switch f.Cmd {
		case "version", "verack", "sendaddrv2", "reject", "pong":
			continue
		}
		var q *qcall
		switch f.Cmd {
		case "inv", "getdata", "notfound":
			ents, err := decodeInvLike(f.Payload)
			if err != nil || len(ents) == 0 {
				r.violate("frame %d (%s) written by the peer does not decode: %v", i, f.Cmd, err)
				return
			}
			if f.Cmd == "inv" && ents[0].Tag&tagKindMask == tagInventory {
				// trickled / relayed inventory
				for _, e := range ents {
					ic := invByTag[e.Tag]
					if ic == nil || ic.typ != e.Type {
						r.violate("inv frame %d announces inventory (type %#x tag %#x) that was never passed to QueueInventory", i, e.Type, e.Tag)
						continue
					}
					if seenInv[e.Tag] {
						r.violate("inventory tag %#x was announced twice", e.Tag)
					}
					seenInv[e.Tag] = true
					class := 0
					if isBlockInv(ic.typ) {
						class = 1
					}
					key := [2]int{ic.caller, class}
					if last, ok := lastInv[key]; ok && ic.idx < last {
						r.violate("inventory of caller %d announced out of order: #%d after #%d", ic.caller, ic.idx, last)
					}
					lastInv[key] = ic.idx
				}
				continue
			}
			q = byTag[ents[0].Tag]
		case "tx":
			if len(f.Payload) >= 45 {
				// the tag sits in the previous outpoint hash; its offset depends on the marker
				off := 5
				if f.Payload[4] == 0 {
					off = 7
				}
				q = byTag[hashTag(f.Payload[off:])]
			}
		case "getheaders":
			if len(f.Payload) >= 32 {
				q = byTag[hashTag(f.Payload[len(f.Payload)-32:])]
			}
		case "ping":
			if len(f.Payload) == 8 {
				q = byTag[hashTag(f.Payload)]
			}
		}
		if q == nil || q.cmd != f.Cmd {
			r.violate("frame %d: the peer wrote a %q message (%d byte payload %x) that nobody queued", i, f.Cmd, len(f.Payload), trunc(f.Payload, 48))
			continue
		}
		if !bytes.Equal(q.payload, f.Payload) {
			r.violate("frame %d: %s of caller %d #%d is on the wire as %x, want %x", i, q.op, q.caller, q.idx, f.Payload, q.payload)
		}
		want := nextIdx[q.caller]
		if q.idx != want {
			r.violate("FIFO broken for caller %d: message #%d (%s, tag %#x) is on the wire where #%d was due (frames so far: %v)",
				q.caller, q.idx, q.cmd, q.tag, want, cmds)
		}
		nextIdx[q.caller] = q.idx + 1
	}
	// a connection confirmed live must have carried the peer's own half of the exchange
	if r.confirmedLive {
		vi, ai := -1, -1
		for i, c := range cmds {
			if c == "version" && vi < 0 {
				vi = i
			}
			if c == "verack" && ai < 0 {
				ai = i
			}
		}
		if vi != 0 || ai < 0 {
			r.violate("the handshake completed but the peer's own version/verack are not on the wire as expected: frames %v", cmds)
		} else if v, err := decodeVersion(frames[0].Payload); err != nil || uint32(v.Pver) != r.cfg.effLocalPver() {
			r.violate("the peer advertised protocol version %d (decode error %v), configured %d", v.Pver, err, r.cfg.effLocalPver())
		}
	}
}

func trunc(b []byte, n int) []byte {
	if len(b) > n {
		return b[:n]
	}
	return b
}

func (r *runner) checkEndState() {
	r.mon.mu.Lock()
	defer r.mon.mu.Unlock()
	m := r.mon
	for _, e := range m.earlyApp {
		r.violate("application listener before the version/verack exchange: %s", e)
	}
	// a peer that says the exchange is complete must have negotiated min()
	if m.nOnVerAck > 0 && m.nOnVersion > 0 {
		want := minU32(r.cfg.effLocalPver(), uint32(m.versionPver))
		if got := r.p.ProtocolVersion(); got != want {
			r.violate("after the handshake ProtocolVersion()=%d, want min(local %d, remote advertised %d)=%d", got, r.cfg.effLocalPver(), m.versionPver, want)
		}
		if !r.p.VersionKnown() || !r.p.VerAckReceived() {
			r.violate("OnVerAck fired but VersionKnown=%v VerAckReceived=%v", r.p.VersionKnown(), r.p.VerAckReceived())
		}
	}
	// refusals
	if r.refusalIdx >= 0 {
		reason := r.mdl.reason
		switch r.mdl.failPhase {
		case stNeedVersion, stWaitVerack:
			if len(m.app) > 0 {
				r.violate("the remote sent %s (message %d) before the handshake completed, yet %d application listener(s) fired, first %s(tag %#x)",
					reason, r.refusalIdx, len(m.app), m.app[0].listener, m.app[0].tag)
			}
			if r.mdl.failPhase == stNeedVersion && m.nOnVerAck > 0 {
				r.violate("the remote's first message was refused input (%s) yet OnVerAck fired", reason)
			}
		case stDone:
			for _, a := range m.app {
				if a.tag&tagKindMask == tagRemote && int(a.tag&0xffffffff)-1 >= r.refusalIdx {
					r.violate("message %d from the remote was delivered to %s although message %d was %s, which must be refused",
						int(a.tag&0xffffffff)-1, a.listener, r.refusalIdx, reason)
				}
			}
		}
	}
	if r.disconnectCalls.Load() > 1 {
		r.setFeat("repeated-disconnect")
	}
}
