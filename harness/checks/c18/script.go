package c18

import (
	"fmt"
	"math/bits"
	"strings"

	"pgregory.net/rapid"
)

// ---------------------------------------------------------------------------
// case description (everything in it is drawn from rapid)

type caseCfg struct {
	Inbound        bool
	Net            int    // 0 mainnet, 1 testnet3, 2 regtest
	LocalPver      uint32 // 0 = let the peer default to its maximum
	Services       uint64
	AllowSelf      bool
	TrickleMs      int
	DisableStall   bool
	Chunk          int // max bytes per Read handed to the peer (0 = all)
	EndRemoteClose bool
}

func (c caseCfg) effLocalPver() uint32 {
	if c.LocalPver == 0 {
		return 70016 // documented default: peer.MaxProtocolVersion (checked in the self test)
	}
	return c.LocalPver
}

// application message kinds the remote can send
type akind uint8

const (
	aPing akind = iota
	aPong
	aInv
	aGetData
	aNotFound
	aTx
	aGetHeaders
	aGetAddr
	aMemPool
	aSendHeaders
	aFeeFilter
	aHeaders
	aAddr
	numAKinds
)

var akindCmd = [...]string{"ping", "pong", "inv", "getdata", "notfound", "tx", "getheaders", "getaddr", "mempool",
	"sendheaders", "feefilter", "headers", "addr"}

// lowest negotiated version at which the message (in the layout the harness
// sends) is well-formed
var akindMinPver = [...]uint32{pverBIP31 + 1, pverBIP31 + 1, 0, 0, 0, 0, 0, 0, pverMempool, pverSendHeaders, pverFeeFilter, 0, 31402}

type rspec struct {
	K        rkind
	Pver     int32
	Self     bool
	Services uint64
	UA       string
	Relay    bool
	Cmd      string // unknown command
	App      akind
	Variant  int
}

// local message kinds (all of them have a layout that does not depend on the
// negotiated protocol version, except ping which is only generated when every
// version in play is above BIP31)
type lkind uint8

const (
	lGetData lkind = iota
	lNotFound
	lInvMsg
	lTx
	lGetHeaders
	lPing
	numLKinds
)

var lkindCmd = [...]string{"getdata", "notfound", "inv", "tx", "getheaders", "ping"}

type opKind uint8

const (
	opQueue opKind = iota
	opInv
	opGetters
	opYield
	opDisconnect
)

type qop struct {
	K       opKind
	L       lkind
	Done    bool
	Enc     int    // 0 QueueMessage, 1 QueueMessageWithEncoding(base), 2 QueueMessageWithEncoding(witness)
	InvType uint32 // for opInv
}

type evKind uint8

const (
	eRemote evKind = iota
	eLetRead
	eGateWrites
	eLetWrite
	eOpenWrites
	eWriteFail
	eRemoteClose
	eLocal // one local operation on the main goroutine
	eSpawn // a new goroutine running Ops
	ePause
	eSettle
)

var evKindName = [...]string{"remote", "let-read", "gate-writes", "let-write", "open-writes", "write-fail", "remote-close",
	"local", "spawn", "pause", "settle"}

type event struct {
	K    evKind
	R    rspec
	Hold bool
	N    int
	Op   qop
	Ops  []qop
}

type script struct {
	Cfg    caseCfg
	Mode   string // handshake shape the generator chose (class label)
	Events []event
}

func (o qop) String() string {
	switch o.K {
	case opQueue:
		d := ""
		if o.Done {
			d = "+done"
		}
		return fmt.Sprintf("queue(%s%s,enc%d)", lkindCmd[o.L], d, o.Enc)
	case opInv:
		return fmt.Sprintf("queueinv(type %#x)", o.InvType)
	case opGetters:
		return "getters"
	case opYield:
		return "yield"
	case opDisconnect:
		return "Disconnect()"
	}
	return "?"
}

func (r rspec) String() string {
	switch r.K {
	case rVersion:
		return fmt.Sprintf("version{pver %d self %v services %#x ua %dB relay %v}", r.Pver, r.Self, r.Services, len(r.UA), r.Relay)
	case rUnknown:
		return "unknown{" + r.Cmd + "}"
	case rApp:
		return "app{" + akindCmd[r.App] + "}"
	case rWrongNet:
		return fmt.Sprintf("wrongnet{%s variant %d}", akindCmd[r.App], r.Variant)
	case rMalformed:
		return fmt.Sprintf("malformed{variant %d}", r.Variant)
	case rOversize:
		return fmt.Sprintf("oversize{variant %d}", r.Variant)
	}
	return r.K.String()
}

func (e event) String() string {
	switch e.K {
	case eRemote:
		h := ""
		if e.Hold {
			h = " (withheld)"
		}
		return "remote sends " + e.R.String() + h
	case eLetRead, eGateWrites, eLetWrite, eWriteFail, ePause:
		return fmt.Sprintf("%s %d", evKindName[e.K], e.N)
	case eLocal:
		return "main: " + e.Op.String()
	case eSpawn:
		s := make([]string, len(e.Ops))
		for i, o := range e.Ops {
			s[i] = o.String()
		}
		return "spawn [" + strings.Join(s, ", ") + "]"
	}
	return evKindName[e.K]
}

func (s *script) canonical() string {
	var b strings.Builder
	fmt.Fprintf(&b, "%+v|", s.Cfg)
	for _, e := range s.Events {
		b.WriteString(e.String())
		b.WriteByte(';')
	}
	return b.String()
}

func (s *script) String() string {
	var b strings.Builder
	fmt.Fprintf(&b, "config %+v  handshake-shape=%s\n", s.Cfg, s.Mode)
	for i, e := range s.Events {
		fmt.Fprintf(&b, "  ev%02d %s\n", i, e.String())
	}
	return b.String()
}

// ---------------------------------------------------------------------------
// generators
//
// rapid's integer generators are deliberately biased towards small values and
// range ends, which is the wrong tool for weighted choices between event
// families; uni draws uniformly (from fair coin flips, which also shrink
// towards 0, i.e. towards the first alternative).

func coin(t *rapid.T, label string) bool { return rapid.Bool().Draw(t, label) }

func uni(t *rapid.T, label string, n int) int {
	if n <= 1 {
		return 0
	}
	nb := bits.Len(uint(n-1)) + 3
	v := 0
	for i := 0; i < nb; i++ {
		if rapid.Bool().Draw(t, label) {
			v |= 1 << i
		}
	}
	return v % n
}

func pick[T any](t *rapid.T, label string, s []T) T { return s[uni(t, label, len(s))] }

type profile struct {
	name        string
	faultPct    int // share of cases whose handshake is not the canonical one
	settlePct   int // share of cases with a settle step right after the handshake
	bodyMax     int
	wRemote     int // weights of body event families
	wLocal      int
	wGate       int
	wLoss       int // disconnect / remote close / write failure
	wHostile    int // wrong net, malformed, oversize, duplicate handshake messages
	interleave  int // per-gap percentage of local/gating events inside the handshake
	concurrency int // weight of spawn among local events
}

var (
	profHandshake = profile{name: "handshake", faultPct: 78, settlePct: 35, bodyMax: 10, wRemote: 55, wLocal: 12, wGate: 8, wLoss: 8, wHostile: 17, interleave: 12, concurrency: 15}
	profLifecycle = profile{name: "lifecycle", faultPct: 6, settlePct: 75, bodyMax: 32, wRemote: 12, wLocal: 52, wGate: 16, wLoss: 16, wHostile: 4, interleave: 22, concurrency: 30}
	profMixed     = profile{name: "mixed", faultPct: 40, settlePct: 50, bodyMax: 30, wRemote: 28, wLocal: 34, wGate: 14, wLoss: 12, wHostile: 12, interleave: 18, concurrency: 25}
)

var boundaryPvers = []int32{70017, 70016, 70015, 70014, 70013, 70012, 70011, 70002, 70001, 60002, 60001, 60000, 31800, 31402, 31401, 210, 209}

func genGoodPver(t *rapid.T) int32 {
	switch uni(t, "pverKind", 10) {
	case 0, 1, 2, 3:
		return 70016
	case 4, 5, 6, 7:
		return pick(t, "pverB", boundaryPvers)
	case 8:
		return rapid.Int32Range(70001, 70017).Draw(t, "pverHi")
	}
	return rapid.Int32Range(209, 70017).Draw(t, "pverAny")
}

func genObsoletePver(t *rapid.T) int32 {
	if coin(t, "obsB") {
		return pick(t, "obsPver", []int32{0, 1, 105, 106, 207, 208})
	}
	return rapid.Int32Range(0, 208).Draw(t, "obsAny")
}

var uaChoices = []string{"", "/Satoshi:25.0.0/", "/btcwire:0.5.0/verif:1.0(c18)/", strings.Repeat("u", 256)}

func genVersion(t *rapid.T, pver int32, self bool) rspec {
	return rspec{K: rVersion, Pver: pver, Self: self,
		Services: pick(t, "services", []uint64{0, 1, 9, 0x409, 0x809, 0xffffffffffffffff}),
		UA:       pick(t, "ua", uaChoices),
		Relay:    coin(t, "relay")}
}

func genApp(t *rapid.T) rspec {
	// tagged kinds are preferred: their delivery can be attributed exactly
	k := pick(t, "app", []akind{aPing, aPing, aInv, aInv, aGetData, aGetData, aTx, aTx, aNotFound, aGetHeaders, aPong,
		aGetAddr, aMemPool, aSendHeaders, aFeeFilter, aHeaders, aAddr})
	return rspec{K: rApp, App: k}
}

func genUnknown(t *rapid.T) rspec {
	return rspec{K: rUnknown, Cmd: pick(t, "ucmd", []string{"wtxidrelay", "sendcmpct", "foobar", "cmpctblock", "x"}),
		Variant: uni(t, "ulen", 3)}
}

func genWrongNet(t *rapid.T) rspec {
	return rspec{K: rWrongNet, App: pick(t, "wnApp", []akind{aPing, aInv, aTx, aGetData}),
		Variant: uni(t, "wnVar", 4)}
}

func genHostile(t *rapid.T) rspec {
	switch uni(t, "hostile", 10) {
	case 0, 1, 2:
		return genWrongNet(t)
	case 3, 4:
		return rspec{K: rMalformed, Variant: uni(t, "malVar", 6)}
	case 5:
		return rspec{K: rOversize, Variant: uni(t, "overVar", 4)}
	case 6:
		return genVersion(t, genGoodPver(t), false)
	case 7:
		return rspec{K: rVerAck}
	case 8:
		return rspec{K: rSendAddrV2}
	}
	return genUnknown(t)
}

func genQueueOp(t *rapid.T) qop {
	return qop{K: opQueue,
		L:    pick(t, "lkind", []lkind{lGetData, lNotFound, lInvMsg, lTx, lTx, lGetHeaders, lPing}),
		Done: uni(t, "done", 4) != 0,
		Enc:  uni(t, "enc", 3)}
}

func genInvOp(t *rapid.T) qop {
	return qop{K: opInv, InvType: pick(t, "invType", []uint32{invTx, invTx, invWitnessTx, invBlock, invWitnessBlock})}
}

func genWorkerOps(t *rapid.T) []qop {
	n := 1 + uni(t, "nops", 6)
	ops := make([]qop, 0, n)
	for i := 0; i < n; i++ {
		switch uni(t, "wop", 12) {
		case 0, 1, 2, 3, 4, 5, 6:
			ops = append(ops, genQueueOp(t))
		case 7, 8:
			ops = append(ops, genInvOp(t))
		case 9:
			ops = append(ops, qop{K: opGetters})
		case 10:
			ops = append(ops, qop{K: opYield})
		default:
			// a concurrent Disconnect is rare: it ends the interesting part
			if uni(t, "wdisc", 4) == 0 {
				ops = append(ops, qop{K: opDisconnect})
			} else {
				ops = append(ops, genQueueOp(t))
			}
		}
	}
	return ops
}

func genLocalEvent(t *rapid.T, p profile) event {
	if uni(t, "spawn?", 100) < p.concurrency {
		return event{K: eSpawn, Ops: genWorkerOps(t)}
	}
	switch uni(t, "lop", 10) {
	case 0, 1, 2, 3, 4, 5:
		return event{K: eLocal, Op: genQueueOp(t)}
	case 6, 7:
		return event{K: eLocal, Op: genInvOp(t)}
	case 8:
		return event{K: eLocal, Op: qop{K: opGetters}}
	}
	return event{K: ePause, N: pick(t, "pauseUs", []int{0, 20, 100, 400, 1500, 3500})}
}

var byteSteps = []int{0, 1, 3, 23, 24, 25, 60, 125, 126, 300}

func genGateEvent(t *rapid.T) event {
	switch uni(t, "gate", 7) {
	case 0, 1:
		return event{K: eGateWrites, N: pick(t, "gateN", byteSteps)}
	case 2, 3:
		return event{K: eLetWrite, N: pick(t, "letwN", byteSteps[1:])}
	case 4:
		return event{K: eOpenWrites}
	}
	n := pick(t, "letrN", byteSteps[1:])
	if uni(t, "letrAll", 4) == 0 {
		n = -1
	}
	return event{K: eLetRead, N: n}
}

func genLossEvent(t *rapid.T) event {
	switch uni(t, "loss", 6) {
	case 0, 1, 2:
		return event{K: eLocal, Op: qop{K: opDisconnect}}
	case 3:
		return event{K: eRemoteClose}
	}
	return event{K: eWriteFail, N: pick(t, "failN", byteSteps)}
}

func remoteEv(t *rapid.T, r rspec) event {
	return event{K: eRemote, R: r, Hold: uni(t, "hold", 7) == 0}
}

// handshake shapes.  "clean*" are canonical exchanges; the rest put a
// duplicate, out-of-order, hostile or missing message somewhere.
var faultModes = []string{
	"dup-version", "verack-first", "sendaddrv2-first", "app-first", "unknown-first", "obsolete-version", "self-nonce",
	"wrongnet-first", "wrongnet-mid", "wrongnet-after", "app-mid", "malformed-first", "malformed-mid", "oversize-mid",
	"no-verack", "dup-verack", "sendaddrv2-after", "dup-version-after", "sendaddrv2-low-version", "verack-version-swapped",
	"negative-version", "future-version",
}

func genHandshake(t *rapid.T, p profile) (string, []rspec) {
	good := func() rspec { return genVersion(t, genGoodPver(t), false) }
	V, A, S := good(), rspec{K: rVerAck}, rspec{K: rSendAddrV2}
	if uni(t, "fault?", 100) >= p.faultPct {
		seq := []rspec{V}
		mode := "clean"
		if V.Pver >= pverAddrV2 && coin(t, "withSendAddrV2") {
			seq = append(seq, S)
			mode = "clean+sendaddrv2"
		}
		if uni(t, "withUnknown", 4) == 0 {
			u := genUnknown(t)
			if len(seq) > 1 && coin(t, "unknownBefore") {
				seq = []rspec{V, u, S}
			} else {
				seq = append(seq, u)
			}
			mode += "+unknown"
		}
		return mode, append(seq, A)
	}
	mode := pick(t, "faultMode", faultModes)
	switch mode {
	case "dup-version":
		return mode, []rspec{V, good(), A}
	case "verack-first":
		return mode, []rspec{A, V, A}
	case "sendaddrv2-first":
		return mode, []rspec{S, V, A}
	case "app-first":
		return mode, []rspec{genApp(t), V, A}
	case "unknown-first":
		return mode, []rspec{genUnknown(t), V, A}
	case "obsolete-version":
		return mode, []rspec{genVersion(t, genObsoletePver(t), false), A}
	case "negative-version":
		// the version field is a signed 32-bit integer on the wire: read as signed it is obsolete, read as
		// unsigned it is far in the future; the model allows the refusal and the acceptance (negotiating the local version)
		return mode, []rspec{genVersion(t, pick(t, "negPver", []int32{-1, -2, -70016, -2147483648, -2147483647}), false), A}
	case "future-version":
		return mode, []rspec{genVersion(t, pick(t, "futurePver", []int32{70018, 80000, 1 << 20, 2147483647, 2147483646}), false), A}
	case "self-nonce":
		return mode, []rspec{genVersion(t, genGoodPver(t), true), A}
	case "wrongnet-first":
		return mode, []rspec{genWrongNet(t), V, A}
	case "wrongnet-mid":
		return mode, []rspec{V, genWrongNet(t), A}
	case "wrongnet-after":
		return mode, []rspec{V, A, genWrongNet(t)}
	case "app-mid":
		return mode, []rspec{V, genApp(t), A}
	case "malformed-first":
		return mode, []rspec{{K: rMalformed, Variant: uni(t, "malVar", 6)}, V, A}
	case "malformed-mid":
		return mode, []rspec{V, {K: rMalformed, Variant: uni(t, "malVar", 6)}, A}
	case "oversize-mid":
		return mode, []rspec{V, {K: rOversize, Variant: uni(t, "overVar", 4)}, A}
	case "no-verack":
		return mode, []rspec{V, S}
	case "dup-verack":
		return mode, []rspec{V, A, A}
	case "sendaddrv2-after":
		return mode, []rspec{V, A, S}
	case "dup-version-after":
		return mode, []rspec{V, A, good()}
	case "sendaddrv2-low-version":
		lv := genVersion(t, pick(t, "lowPver", []int32{70015, 70013, 70001, 60002, 209}), false)
		return mode, []rspec{lv, S, A}
	case "verack-version-swapped":
		return mode, []rspec{A, V}
	}
	return mode, []rspec{V, A}
}

func genCfg(t *rapid.T) caseCfg {
	lp := uint32(0)
	switch uni(t, "lpKind", 6) {
	case 0, 1, 2:
		lp = 0
	case 3:
		lp = 70016
	default:
		lp = uint32(pick(t, "lpB", []int32{70015, 70014, 70013, 70012, 70002, 70001, 60002, 60001, 60000, 31800, 209}))
	}
	return caseCfg{
		Inbound:        coin(t, "inbound"),
		Net:            uni(t, "net", 3),
		LocalPver:      lp,
		Services:       pick(t, "localServices", []uint64{0, 1, 9, 0x409}),
		AllowSelf:      uni(t, "allowSelf", 10) == 0,
		TrickleMs:      1 + uni(t, "trickleMs", 3),
		DisableStall:   uni(t, "stall", 4) != 0,
		Chunk:          pick(t, "chunk", []int{0, 0, 0, 0, 1, 5, 24}),
		EndRemoteClose: uni(t, "endRemoteClose", 4) == 0,
	}
}

const maxEvents = 40

func genScript(p profile) *rapid.Generator[*script] {
	return rapid.Custom(func(t *rapid.T) *script {
		sc := &script{Cfg: genCfg(t)}
		mode, hs := genHandshake(t, p)
		sc.Mode = mode
		// handshake with local / gating / loss events woven in
		for i, r := range hs {
			if uni(t, "weave?", 100) < p.interleave {
				switch uni(t, "weaveKind", 10) {
				case 0, 1, 2, 3, 4, 5:
					sc.Events = append(sc.Events, genLocalEvent(t, p))
				case 6, 7, 8:
					sc.Events = append(sc.Events, genGateEvent(t))
				default:
					if i > 0 {
						sc.Events = append(sc.Events, genLossEvent(t))
					} else {
						sc.Events = append(sc.Events, event{K: eSettle})
					}
				}
			}
			sc.Events = append(sc.Events, remoteEv(t, r))
		}
		if uni(t, "settle?", 100) < p.settlePct {
			sc.Events = append(sc.Events, event{K: eSettle})
		}
		nBody := uni(t, "nBody", p.bodyMax+1)
		total := p.wRemote + p.wLocal + p.wGate + p.wLoss + p.wHostile
		for i := 0; i < nBody && len(sc.Events) < maxEvents; i++ {
			w := uni(t, "family", total)
			switch {
			case w < p.wRemote:
				if uni(t, "unk?", 8) == 0 {
					sc.Events = append(sc.Events, remoteEv(t, genUnknown(t)))
				} else {
					sc.Events = append(sc.Events, remoteEv(t, genApp(t)))
				}
			case w < p.wRemote+p.wLocal:
				if uni(t, "settleInBody", 12) == 0 {
					sc.Events = append(sc.Events, event{K: eSettle})
				} else {
					sc.Events = append(sc.Events, genLocalEvent(t, p))
				}
			case w < p.wRemote+p.wLocal+p.wGate:
				sc.Events = append(sc.Events, genGateEvent(t))
			case w < p.wRemote+p.wLocal+p.wGate+p.wLoss:
				sc.Events = append(sc.Events, genLossEvent(t))
			default:
				sc.Events = append(sc.Events, remoteEv(t, genHostile(t)))
			}
		}
		sc.normalize()
		return sc
	})
}

// normalize enforces the domain restrictions the oracle relies on.
func (s *script) normalize() {
	// ping carries its nonce only above BIP31: generate local pings only
	// when no version in play is at or below it, so that every queued
	// message has one, version-independent, byte layout.
	pingOK := s.Cfg.effLocalPver() > pverBIP31
	for _, e := range s.Events {
		if e.K == eRemote && e.R.K == rVersion && e.R.Pver <= pverBIP31 {
			pingOK = false
		}
	}
	// at most 4 goroutines (main + 3) call into the peer; queue depth stays
	// below the peer's 50-element channel buffers, which the property does
	// not speak about
	spawns, queued, invs := 0, 0, 0
	fix := func(o *qop) {
		if o.K == opQueue {
			if o.L == lPing && !pingOK {
				o.L = lGetData
			}
			queued++
			if queued > 40 {
				o.K = opGetters
			}
		}
		if o.K == opInv {
			invs++
			if invs > 40 {
				o.K = opGetters
			}
		}
	}
	out := s.Events[:0]
	for _, e := range s.Events {
		switch e.K {
		case eSpawn:
			spawns++
			if spawns > 3 {
				continue
			}
			for i := range e.Ops {
				fix(&e.Ops[i])
			}
		case eLocal:
			fix(&e.Op)
		}
		out = append(out, e)
	}
	if len(out) > maxEvents {
		out = out[:maxEvents]
	}
	s.Events = out
}

// genStalledScript builds scripts around one schedule the weighted profiles
// reach only rarely: after a canonical handshake the writer is stalled by the
// write gate while several inventory trickle intervals pass (inventory queued
// before each), then ordinary sends are queued and the connection ends (or the
// gate opens). The peer must neither wedge its queue handler nor lose a
// completion signal.
func genStalledScript() *rapid.Generator[*script] {
	return rapid.Custom(func(t *rapid.T) *script {
		cfg := genCfg(t)
		cfg.TrickleMs = 1
		sc := &script{Cfg: cfg, Mode: "clean"}
		sc.Events = append(sc.Events,
			event{K: eRemote, R: genVersion(t, genGoodPver(t), false)},
			event{K: eRemote, R: rspec{K: rVerAck}},
			event{K: eSettle},
			event{K: eGateWrites, N: pick(t, "gateN", byteSteps[:7])})
		rounds := 2 + uni(t, "rounds", 5)
		for i := 0; i < rounds; i++ {
			for j := 0; j <= uni(t, "invsPerRound", 2); j++ {
				sc.Events = append(sc.Events, event{K: eLocal, Op: qop{K: opInv, InvType: pick(t, "invType", []uint32{invTx, invTx, invWitnessTx, invBlock})}})
			}
			sc.Events = append(sc.Events, event{K: ePause, N: 2500 + 500*uni(t, "pause", 6)})
		}
		for i := uni(t, "nQueue", 5); i > 0; i-- {
			sc.Events = append(sc.Events, event{K: eLocal, Op: genQueueOp(t)})
		}
		if uni(t, "spawn?", 3) == 0 {
			sc.Events = append(sc.Events, event{K: eSpawn, Ops: genWorkerOps(t)})
		}
		switch uni(t, "ending", 6) {
		case 0, 1:
			sc.Events = append(sc.Events, event{K: eLocal, Op: qop{K: opDisconnect}})
		case 2:
			sc.Events = append(sc.Events, event{K: eRemoteClose})
		case 3:
			sc.Events = append(sc.Events, event{K: eOpenWrites}, event{K: eSettle})
		case 4:
			sc.Events = append(sc.Events, event{K: eWriteFail, N: pick(t, "failN", byteSteps)})
		}
		sc.normalize()
		return sc
	})
}
