package c18

import (
	"bytes"
	"encoding/hex"
	"fmt"
	"os"
	"strings"
	"testing"
	"time"

	"github.com/btcsuite/btcd/peer"
	"pgregory.net/rapid"

	"verif/internal/ev"
	"verif/internal/scratch"
)

func TestMain(m *testing.M) {
	code := m.Run()
	scratch.Sweep()
	ev.Flush()
	os.Exit(code)
}

const ruleCommon = "a case is a rapid-drawn script (<=40 events) run against one peer over an in-memory, buffered, harness-gated " +
	"connection: the remote sends raw frames (version with generated fields / verack / sendaddrv2 / unknown / application / " +
	"malformed / wrong-magic / oversize, possibly withheld and released k bytes at a time), 1-4 goroutines call QueueMessage(+-done) / " +
	"QueueMessageWithEncoding / QueueInventory / Disconnect / getters, writes are gated or fail after n bytes, the remote hangs up; " +
	"both directions, short trickle interval, -race. Oracle: handshake reference model written from the property + monitor built from " +
	"all MessageListeners + independent decoder of the captured byte stream + done-channel accounting + goroutine census after " +
	"WaitForDisconnect. Non-trivial: a disconnect / connection loss / write failure happens while at least one queued message is " +
	"unconfirmed or a writer is blocked, or the script contains an out-of-order or duplicate handshake message; distinct by the hash of " +
	"the configuration and event sequence. "

var (
	recHandshake = ev.New("C18", "handshake", ruleCommon+"Profile: 78% of the scripts carry a non-canonical handshake (one class per shape).",
		"clean", "dup-version", "verack-first", "sendaddrv2-first", "app-first", "unknown-first", "obsolete-version", "negative-version", "future-version", "self-nonce",
		"wrongnet-first", "wrongnet-mid", "wrongnet-after", "app-mid", "malformed-first", "malformed-mid", "oversize-mid", "no-verack",
		"dup-verack", "sendaddrv2-after", "dup-version-after", "sendaddrv2-low-version", "verack-version-swapped",
		"inbound", "outbound", "refusal:self-connection", "refusal:obsolete-version", "refusal:wrong-network", "refusal:nonversion-first",
		"live-confirmed", "withheld-reads")
	recLifecycle = ev.New("C18", "lifecycle", ruleCommon+"Profile: canonical handshake (94%), usually confirmed by a settle step, then up to 32 "+
		"local queue / inventory / gate / loss events with concurrent callers.",
		"clean", "inbound", "outbound", "live-confirmed", "loss-with-messages-in-flight", "concurrent-callers", "local-disconnect",
		"remote-close", "write-failure", "gated-writes", "queue-during-handshake", "concurrent-disconnect", "end-by-remote-close")
	recMixed = ev.New("C18", "mixed", ruleCommon+"Profile: 40% non-canonical handshakes and a body of up to 30 events of every family.",
		"clean", "inbound", "outbound", "live-confirmed", "loss-with-messages-in-flight", "concurrent-callers", "ooo-or-dup-handshake-message",
		"refusal:wrong-network", "gated-writes", "withheld-reads")
)

func classOf(mode string) string {
	if strings.HasPrefix(mode, "clean") {
		return "clean"
	}
	return mode
}

func checkProfile(t *testing.T, p profile, rec *ev.Rec) {
	checkScripts(t, genScript(p), rec)
}

func checkScripts(t *testing.T, gen *rapid.Generator[*script], rec *ev.Rec) {
	rapid.Check(t, func(t *rapid.T) {
		sc := gen.Draw(t, "script")
		out := runCase(sc)
		rec.Case(out.nontrivial, classOf(sc.Mode), ev.HashS(sc.canonical()), func() any { return sc.String() })
		for f := range out.features {
			rec.Count(f, 1)
		}
		viol := out.violations
		for _, v := range viol {
			if strings.HasPrefix(v, "VERIF-INFRA:") {
				t.Fatalf("%s\n%s", v, sc)
			}
		}
		for _, sig := range out.known {
			if rec.Known(sig, out.knownObs[sig]) {
				rec.Count("known:"+sig, 1)
				continue
			}
			viol = append(viol, fmt.Sprintf("[%s] %s", sig, out.knownObs[sig]))
		}
		if len(viol) > 0 {
			t.Fatalf("property C18 violated (%d observation(s)):\n  * %s\n\nscript:\n%s\nhistory (harness events and what the peer handed to its listeners, in global order):\n%s",
				len(viol), strings.Join(viol, "\n  * "), sc, out.history)
		}
	})
}

func TestHandshake(t *testing.T) { checkProfile(t, profHandshake, recHandshake) }
func TestLifecycle(t *testing.T) { checkProfile(t, profLifecycle, recLifecycle) }
func TestMixed(t *testing.T)     { checkProfile(t, profMixed, recMixed) }

var recStalled = ev.New("C18", "stalled-trickle", ruleCommon+"Profile: canonical handshake confirmed by a settle step, then the write gate stalls the "+
	"writer (after 0-126 bytes) while 2-6 inventory trickle intervals (1 ms) pass with inventory queued before each, then 0-4 queued sends "+
	"(+-done, optionally from a second goroutine), then Disconnect / remote close / write failure / the gate opens / end of script.",
	"clean", "inbound", "outbound", "gated-writes", "loss-with-messages-in-flight")

func TestStalledTrickle(t *testing.T) { checkScripts(t, genStalledScript(), recStalled) }

// TestHarnessSelf calibrates the harness' own codec against literals of the
// protocol documentation and checks the gated connection; a failure here is
// an infrastructure failure, not a violation.
func TestHarnessSelf(t *testing.T) {
	infra := func(format string, a ...any) {
		t.Helper()
		t.Fatalf("VERIF-INFRA: "+format, a...)
	}
	// verack on mainnet (protocol documentation)
	want, _ := hex.DecodeString("f9beb4d976657261636b000000000000000000005df6e0e2")
	if got := frame(magicMain, "verack", nil); !bytes.Equal(got, want) {
		infra("verack frame %x, documentation says %x", got, want)
	}
	// version message example of the protocol documentation (protocol 60002)
	doc, _ := hex.DecodeString("f9beb4d976657273696f6e000000000064000000358d4932" +
		"62ea0000010000000000000011b2d05000000000" +
		"010000000000000000000000000000000000ffff000000000000" +
		"000000000000000000000000000000000000ffff000000000000" +
		"3b2eb35d8ce617650f2f5361746f7368693a302e372e322fc03e0300")
	fs, trailing := parseFrames(doc)
	if len(fs) != 1 || trailing != 0 || fs[0].Cmd != "version" || !fs[0].ChecksumOK || fs[0].Magic != magicMain || len(fs[0].Payload) != 100 {
		infra("documentation's version message does not parse: %+v trailing %d", fs, trailing)
	}
	v, err := decodeVersion(fs[0].Payload)
	if err != nil || v.Pver != 60002 || v.Services != 1 || v.Timestamp != 0x50d0b211 || v.Nonce != 0x6517e68c5db32e3b ||
		v.UA != "/Satoshi:0.7.2/" || v.Height != 212672 || v.HasRelay {
		infra("documentation's version message decodes to %+v (%v)", v, err)
	}
	// encode/decode agree with each other on every field
	in := versionFields{Pver: 70016, Services: 0x409, Timestamp: 1700000000, Nonce: 0xfeedfacecafebeef, UA: "/x:1/", Height: 7, Relay: true}
	back, err := decodeVersion(encodeVersion(in))
	in.HasRelay = true
	if err != nil || back != in {
		infra("version codec round trip: %+v -> %+v (%v)", in, back, err)
	}
	// inv-like and frame splitting
	pl := encodeInvLike([]invEntry{{invTx, 5}, {invWitnessBlock, 9}})
	ents, err := decodeInvLike(pl)
	if err != nil || len(ents) != 2 || ents[1] != (invEntry{invWitnessBlock, 9}) || len(pl) != 73 {
		infra("inv codec: %v %v", ents, err)
	}
	stream := append(frame(magicTest3, "inv", pl), frame(magicTest3, "ping", encodeU64(3))[:30]...)
	fs, trailing = parseFrames(stream)
	if len(fs) != 1 || trailing != 30 {
		infra("frame splitting: %d frames, %d trailing", len(fs), trailing)
	}
	// documented constants the model relies on
	if peer.MaxProtocolVersion != 70016 || peer.MinAcceptableProtocolVersion != pverMinAcceptable {
		t.Fatalf("peer.MaxProtocolVersion=%d MinAcceptableProtocolVersion=%d; the property's obsolete-version bound is %d and the advertised maximum 70016",
			peer.MaxProtocolVersion, peer.MinAcceptableProtocolVersion, pverMinAcceptable)
	}

	// gated connection
	c := newGConn(2)
	c.send([]byte("abcdef"), false)
	got := make(chan string, 4)
	go func() {
		buf := make([]byte, 16)
		for {
			n, err := c.Read(buf)
			if err != nil {
				got <- "err:" + err.Error()
				return
			}
			got <- string(buf[:n])
		}
	}()
	select {
	case s := <-got:
		infra("withheld bytes were readable: %q", s)
	case <-time.After(20 * time.Millisecond):
	}
	c.letRead(3)
	if a, b := <-got, <-got; a != "ab" || b != "c" {
		infra("chunked gated read gave %q %q", a, b)
	}
	c.gateWrites(4)
	wres := make(chan error, 1)
	go func() { _, err := c.Write([]byte("0123456789")); wres <- err }()
	if !c.waitW(time.Second, func() bool { return c.writersBlocked == 1 && len(c.out) == 4 }) {
		infra("gated write did not block after 4 bytes")
	}
	c.failWritesAfter(3)
	c.openWrites()
	if err := <-wres; err == nil || string(c.written()) != "0123456" {
		infra("write failure after 3 more bytes: err=%v written=%q", err, c.written())
	}
	if q, closed := c.settle(time.Second); !q || closed {
		infra("settle on an idle reader: quiescent=%v closed=%v", q, closed)
	}
	if a, b := <-got, <-got; a != "de" || b != "f" {
		infra("remaining bytes after settle: %q %q", a, b)
	}
	c.Close()
	if s := <-got; !strings.HasPrefix(s, "err:") {
		infra("read after close gave %q", s)
	}
	// census sees nothing of the harness
	if gs := peerGoroutines(); len(gs) != 0 {
		infra("census counts %d goroutines before any peer exists:\n%s", len(gs), dumpOf(gs))
	}
}
