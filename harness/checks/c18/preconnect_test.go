package c18

import (
	"fmt"
	"net"
	"sync"
	"sync/atomic"
	"testing"
	"time"

	"github.com/btcsuite/btcd/peer"
	"github.com/btcsuite/btcd/wire/v2"
	"pgregory.net/rapid"

	"verif/internal/ev"
)

// ---------------------------------------------------------------------------
// sends queued on a peer object that has no connection (yet): created, used by
// the application, then dropped with Disconnect because the dial failed or the
// node shuts down. "every send that was queued before the disconnect request
// has its completion signalled", exactly once.

var recPreConnect = ev.New("C18", "queued-before-connection",
	"an inbound or outbound peer.Peer that never gets a connection; 1-6 sends through QueueMessage / QueueMessageWithEncoding (both encodings) with completion channels, from one or several goroutines, "+
		"then 1-3 (concurrent) Disconnect calls and WaitForDisconnect; oracle: every completion channel is signalled exactly once within the property's bound (quiescence-aware wait), WaitForDisconnect returns, no goroutine of the peer is left; "+
		"non-trivial = at least two sends; distinct by (direction, send kinds, callers, disconnect calls)",
	"one-send", "several-sends", "concurrent-callers")

func TestQueueBeforeConnect(t *testing.T) {
	rapid.Check(t, func(t *rapid.T) {
		n := nets[uni(t, "net", len(nets))]
		inbound := coin(t, "inbound")
		sends := rapid.IntRange(1, 6).Draw(t, "sends")
		kinds := make([]int, sends)
		for i := range kinds {
			kinds[i] = uni(t, "sendKind", 3)
		}
		concurrent := coin(t, "concurrentCallers")
		disconnects := rapid.IntRange(1, 3).Draw(t, "disconnects")
		desc := fmt.Sprintf("net=%s inbound=%v sends=%v concurrent=%v disconnects=%d", n.params.Name, inbound, kinds, concurrent, disconnects)
		cl := "one-send"
		if sends >= 2 {
			cl = "several-sends"
			if concurrent {
				cl = "concurrent-callers"
			}
		}
		recPreConnect.Case(sends >= 2, cl, ev.HashS(desc), func() any { return desc })

		before := map[int]bool{}
		for _, g := range peerGoroutines() {
			before[g.id] = true
		}
		cfg := &peer.Config{UserAgentName: "verif", UserAgentVersion: "1.0.0", ChainParams: n.params, TrickleInterval: time.Second}
		var p *peer.Peer
		if inbound {
			p = peer.NewInboundPeer(cfg)
		} else {
			var err error
			p, err = peer.NewOutboundPeer(cfg, "10.0.0.2:8333")
			if err != nil {
				t.Fatalf("VERIF-INFRA: NewOutboundPeer: %v", err)
			}
		}
		dones := make([]chan struct{}, sends)
		queue := func(i int) {
			msg := wire.NewMsgPing(uint64(i))
			switch kinds[i] {
			case 0:
				p.QueueMessage(msg, dones[i])
			case 1:
				p.QueueMessageWithEncoding(msg, dones[i], wire.WitnessEncoding)
			default:
				p.QueueMessageWithEncoding(msg, dones[i], wire.BaseEncoding)
			}
		}
		var wg sync.WaitGroup
		for i := range dones {
			dones[i] = make(chan struct{}, 4)
			if concurrent {
				wg.Add(1)
				go func(i int) { defer wg.Done(); queue(i) }(i)
			} else {
				queue(i)
			}
		}
		wg.Wait() // every send is queued before the disconnect request
		for d := 0; d < disconnects; d++ {
			wg.Add(1)
			go func() { defer wg.Done(); p.Disconnect() }()
		}
		wg.Wait()
		waited := make(chan struct{})
		go func() { p.WaitForDisconnect(); close(waited) }()
		if !awaitBound(func(d time.Duration) bool {
			select {
			case <-waited:
				return true
			case <-time.After(d):
				return false
			}
		}) {
			t.Fatalf("WaitForDisconnect does not return after Disconnect on a peer without connection (%s)", desc)
		}
		for i, c := range dones {
			i, c := i, c
			if !awaitBound(func(d time.Duration) bool {
				select {
				case <-c:
					return true
				case <-time.After(d):
					return false
				}
			}) {
				t.Fatalf("send #%d (kind %d), queued before the disconnect request on a peer without connection, never had its completion signalled (%s)", i, kinds[i], desc)
			}
		}
		time.Sleep(2 * time.Millisecond)
		for i, c := range dones {
			select {
			case <-c:
				t.Fatalf("send #%d had its completion signalled twice (%s)", i, desc)
			default:
			}
		}
		var left []gor
		if !awaitBound(func(d time.Duration) bool {
			left = left[:0]
			for _, g := range peerGoroutines() {
				if !before[g.id] {
					left = append(left, g)
				}
			}
			if len(left) == 0 {
				return true
			}
			time.Sleep(d / 100)
			return false
		}) {
			t.Fatalf("goroutines left after Disconnect of a peer without connection (%s):\n%s", desc, dumpOf(left))
		}
	})
}

// ---------------------------------------------------------------------------
// Disconnect while AssociateConnection is publishing the connection: the
// harness owns that one scheduling decision through the hook
// peer.VerifHoldStatsLock (a statistics reader holds its lock for a moment).

var recAssocRace = ev.New("C18", "disconnect-during-associate",
	"an inbound or outbound peer.Peer; a statistics reader holds the statistics lock (hook) while AssociateConnection(conn) runs in one goroutine; Disconnect is called from another goroutine 0-30 ms later, "+
		"then the reader lets go; also the plain orders (Disconnect first, AssociateConnection first); oracle: whatever the order, the connection handed to the peer is closed exactly once within the bound, "+
		"WaitForDisconnect returns, no goroutine of the peer is left, no listener fires; non-trivial = the reader held the lock across both calls; distinct by (direction, order, delay)",
	"reader-held-across-both", "disconnect-first", "associate-first")

type closeCountConn struct {
	net.Conn
	closes int32
	closed chan struct{}
}

func (c *closeCountConn) Close() error {
	if atomic.AddInt32(&c.closes, 1) == 1 {
		close(c.closed)
	}
	return c.Conn.Close()
}

func TestDisconnectDuringAssociate(t *testing.T) {
	rapid.Check(t, func(t *rapid.T) {
		n := nets[uni(t, "net", len(nets))]
		inbound := coin(t, "inbound")
		order := pick(t, "order", []string{"reader-held-across-both", "reader-held-across-both", "disconnect-first", "associate-first"})
		delay := time.Duration(rapid.IntRange(0, 30).Draw(t, "delayMs")) * time.Millisecond
		desc := fmt.Sprintf("net=%s inbound=%v order=%s delay=%v", n.params.Name, inbound, order, delay)
		recAssocRace.Case(order == "reader-held-across-both", order, ev.HashS(desc), func() any { return desc })
		before := map[int]bool{}
		for _, g := range peerGoroutines() {
			before[g.id] = true
		}
		var listeners int32
		cfg := &peer.Config{UserAgentName: "verif", UserAgentVersion: "1.0.0", ChainParams: n.params, TrickleInterval: time.Second, AllowSelfConns: true}
		cfg.Listeners.OnVersion = func(*peer.Peer, *wire.MsgVersion) *wire.MsgReject { atomic.AddInt32(&listeners, 1); return nil }
		cfg.Listeners.OnVerAck = func(*peer.Peer, *wire.MsgVerAck) { atomic.AddInt32(&listeners, 1) }
		var p *peer.Peer
		if inbound {
			p = peer.NewInboundPeer(cfg)
		} else {
			var err error
			if p, err = peer.NewOutboundPeer(cfg, "10.0.0.2:8333"); err != nil {
				t.Fatalf("VERIF-INFRA: %v", err)
			}
		}
		ours, theirs := net.Pipe()
		conn := &closeCountConn{Conn: ours, closed: make(chan struct{})}
		// the remote end: swallow whatever the peer writes until the pipe is closed
		remoteDone := make(chan struct{})
		go func() {
			defer close(remoteDone)
			buf := make([]byte, 4096)
			for {
				if _, err := theirs.Read(buf); err != nil {
					return
				}
			}
		}()
		var wg sync.WaitGroup
		switch order {
		case "reader-held-across-both":
			release := peer.VerifHoldStatsLock(p)
			wg.Add(2)
			go func() { defer wg.Done(); p.AssociateConnection(conn) }()
			go func() { defer wg.Done(); time.Sleep(delay); p.Disconnect() }()
			time.Sleep(delay + 15*time.Millisecond)
			release()
		case "disconnect-first":
			p.Disconnect()
			p.AssociateConnection(conn)
		default:
			p.AssociateConnection(conn)
			time.Sleep(delay / 4)
			p.Disconnect()
		}
		wg.Wait()
		if !awaitBound(func(d time.Duration) bool {
			select {
			case <-conn.closed:
				return true
			case <-time.After(d):
				return false
			}
		}) {
			theirs.Close()
			t.Fatalf("the connection handed to the peer is still open after Disconnect returned (close calls: %d) (%s)", atomic.LoadInt32(&conn.closes), desc)
		}
		waited := make(chan struct{})
		go func() { p.WaitForDisconnect(); close(waited) }()
		if !awaitBound(func(d time.Duration) bool {
			select {
			case <-waited:
				return true
			case <-time.After(d):
				return false
			}
		}) {
			t.Fatalf("WaitForDisconnect does not return (%s)", desc)
		}
		theirs.Close()
		<-remoteDone
		var left []gor
		if !awaitBound(func(d time.Duration) bool {
			left = left[:0]
			for _, g := range peerGoroutines() {
				if !before[g.id] {
					left = append(left, g)
				}
			}
			if len(left) == 0 {
				return true
			}
			time.Sleep(d / 100)
			return false
		}) {
			t.Fatalf("goroutines of the peer left after Disconnect (%s):\n%s", desc, dumpOf(left))
		}
		if c := atomic.LoadInt32(&conn.closes); c < 1 {
			t.Fatalf("connection closed %d times (%s)", c, desc)
		}
	})
}
