package c18

import (
	"fmt"
	"net"
	"sync/atomic"
	"testing"
	"time"

	"github.com/btcsuite/btcd/peer"
	"github.com/btcsuite/btcd/wire/v2"
	"pgregory.net/rapid"

	"verif/internal/ev"
)

// ---------------------------------------------------------------------------
// a real self-connection: an outbound and an inbound peer of the same process
// (the situation the nonce check exists for) joined by an in-memory pipe. The
// harness owns the one schedule choice that matters: whether the sender's
// application write listener (OnWrite, which the peer calls synchronously for
// every message written) returns at once or only after the other end has
// decided about the version message it just received.

var recSelfPair = ev.New("C18", "self-connection-pair",
	"an outbound and an inbound peer.Peer of one process joined by a buffered in-memory duplex connection; generated: network, protocol versions and services of both sides, "+
		"which side(s) allow self connections, and whether the OnWrite listener of the outbound / inbound side is held while it reports the version message "+
		"until the other end has reached its decision (OnVersion delivered or peer finished); "+
		"oracle: when the inbound side refuses self connections it never delivers OnVersion/OnVerAck, and both peers end without OnVerAck on either side; "+
		"when both sides allow them the handshake completes on both (control: the harness can tell the difference); "+
		"non-trivial = a listener is held or self connections are refused; distinct by the configuration",
	"refused", "refused+held-outbound-onwrite", "allowed")

func TestSelfConnectionPair(t *testing.T) {
	rapid.Check(t, func(t *rapid.T) {
		n := nets[uni(t, "net", len(nets))]
		allowIn := uni(t, "allowInbound", 4) == 0
		allowOut := allowIn || coin(t, "allowOutbound") // the outbound side only sees a version when the inbound side accepted
		holdOut := coin(t, "holdOutboundOnWrite")
		holdIn := coin(t, "holdInboundOnWrite")
		pvOut := uint32(pick(t, "pverOut", []int32{0, 70016, 70015, 70013, 70002, 60002}))
		pvIn := uint32(pick(t, "pverIn", []int32{0, 70016, 70015, 70013, 70002, 60002}))
		svc := pick(t, "services", []uint64{0, 1, 9, 0x409})

		class := "allowed"
		if !allowIn {
			class = "refused"
			if holdOut {
				class = "refused+held-outbound-onwrite"
			}
		}
		desc := fmt.Sprintf("net=%s allowSelf(in=%v,out=%v) hold(out=%v,in=%v) pver(out=%d,in=%d) services=%#x", n.params.Name, allowIn, allowOut, holdOut, holdIn, pvOut, pvIn, svc)
		recSelfPair.Case(!allowIn || holdOut || holdIn, class, ev.HashS(desc), func() any { return desc })

		var inVersion, outVersion, inVerAck, outVerAck int32
		var inPeer, outPeer *peer.Peer
		inDecided := make(chan struct{})  // closed when the inbound side delivered OnVersion
		outDecided := make(chan struct{}) // same for the outbound side
		var inOnce, outOnce int32
		mk := func(in bool) *peer.Config {
			c := &peer.Config{UserAgentName: "verif", UserAgentVersion: "1.0.0", ChainParams: n.params,
				Services: wire.ServiceFlag(svc), TrickleInterval: time.Second, DisableStallHandler: true}
			if in {
				c.ProtocolVersion, c.AllowSelfConns = pvIn, allowIn
			} else {
				c.ProtocolVersion, c.AllowSelfConns = pvOut, allowOut
			}
			c.Listeners.OnVersion = func(p *peer.Peer, m *wire.MsgVersion) *wire.MsgReject {
				if in {
					atomic.AddInt32(&inVersion, 1)
					if atomic.CompareAndSwapInt32(&inOnce, 0, 1) {
						close(inDecided)
					}
				} else {
					atomic.AddInt32(&outVersion, 1)
					if atomic.CompareAndSwapInt32(&outOnce, 0, 1) {
						close(outDecided)
					}
				}
				return nil
			}
			c.Listeners.OnVerAck = func(p *peer.Peer, m *wire.MsgVerAck) {
				if in {
					atomic.AddInt32(&inVerAck, 1)
				} else {
					atomic.AddInt32(&outVerAck, 1)
				}
			}
			c.Listeners.OnWrite = func(p *peer.Peer, _ int, m wire.Message, err error) {
				if _, ok := m.(*wire.MsgVersion); !ok || err != nil {
					return
				}
				// hold the listener until the OTHER end has decided (bounded: a hold never turns into a hang)
				var other *peer.Peer
				var decided chan struct{}
				switch {
				case !in && holdOut:
					other, decided = inPeer, inDecided
				case in && holdIn:
					other, decided = outPeer, outDecided
				default:
					return
				}
				select {
				case <-decided:
				case <-other.Done():
				case <-time.After(400 * time.Millisecond):
				}
			}
			return c
		}
		inPeer = peer.NewInboundPeer(mk(true))
		var err error
		outPeer, err = peer.NewOutboundPeer(mk(false), "10.0.0.2:8333")
		if err != nil {
			t.Fatalf("VERIF-INFRA: NewOutboundPeer: %v", err)
		}
		a, b := bufPipe()
		inPeer.AssociateConnection(a)
		outPeer.AssociateConnection(b)

		finished := func(p *peer.Peer, d time.Duration) bool {
			select {
			case <-p.Done():
				return true
			case <-time.After(d):
				return false
			}
		}
		defer func() {
			inPeer.Disconnect()
			outPeer.Disconnect()
			a.Close()
			b.Close()
			inPeer.WaitForDisconnect()
			outPeer.WaitForDisconnect()
		}()
		if !allowIn {
			inDone, outDone := finished(inPeer, 5*time.Second), finished(outPeer, 5*time.Second)
			iv, ia, oa := atomic.LoadInt32(&inVersion), atomic.LoadInt32(&inVerAck), atomic.LoadInt32(&outVerAck)
			if iv != 0 || ia != 0 || oa != 0 || !inDone || !outDone {
				t.Fatalf("self connection not refused (%s): inbound side delivered OnVersion %d time(s), OnVerAck in=%d out=%d; peers finished: inbound=%v outbound=%v (connected: %v / %v)",
					desc, iv, ia, oa, inDone, outDone, inPeer.Connected(), outPeer.Connected())
			}
			return
		}
		// control: self connections allowed on both sides => a normal handshake
		deadline := time.Now().Add(5 * time.Second)
		for time.Now().Before(deadline) && (atomic.LoadInt32(&inVerAck) == 0 || atomic.LoadInt32(&outVerAck) == 0) {
			time.Sleep(200 * time.Microsecond)
		}
		if atomic.LoadInt32(&inVerAck) != 1 || atomic.LoadInt32(&outVerAck) != 1 {
			t.Fatalf("VERIF-INFRA: control case (%s): handshake between two peers that allow self connections did not complete: OnVerAck in=%d out=%d OnVersion in=%d out=%d",
				desc, atomic.LoadInt32(&inVerAck), atomic.LoadInt32(&outVerAck), atomic.LoadInt32(&inVersion), atomic.LoadInt32(&outVersion))
		}
	})
}

// ---------------------------------------------------------------------------
// buffered in-memory duplex connection (net.Pipe is synchronous: two peers
// that both write their verack before reading would block each other)

type halfPipe struct {
	mu     chan struct{} // 1-slot semaphore
	data   []byte
	closed bool
	wake   chan struct{}
}

func newHalf() *halfPipe {
	h := &halfPipe{mu: make(chan struct{}, 1), wake: make(chan struct{}, 1)}
	return h
}

func (h *halfPipe) lock()   { h.mu <- struct{}{} }
func (h *halfPipe) unlock() { <-h.mu }
func (h *halfPipe) signal() {
	select {
	case h.wake <- struct{}{}:
	default:
	}
}

type bufConn struct {
	rd, wr *halfPipe
	name   string
}

func bufPipe() (*bufConn, *bufConn) {
	x, y := newHalf(), newHalf()
	return &bufConn{rd: x, wr: y, name: "a"}, &bufConn{rd: y, wr: x, name: "b"}
}

func (c *bufConn) Read(p []byte) (int, error) {
	for {
		c.rd.lock()
		if len(c.rd.data) > 0 {
			n := copy(p, c.rd.data)
			c.rd.data = c.rd.data[n:]
			if len(c.rd.data) > 0 {
				c.rd.signal()
			}
			c.rd.unlock()
			return n, nil
		}
		if c.rd.closed {
			c.rd.unlock()
			c.rd.signal()
			return 0, fmt.Errorf("bufconn %s: closed", c.name)
		}
		c.rd.unlock()
		<-c.rd.wake
	}
}

func (c *bufConn) Write(p []byte) (int, error) {
	c.wr.lock()
	defer c.wr.unlock()
	if c.wr.closed {
		return 0, fmt.Errorf("bufconn %s: closed", c.name)
	}
	c.wr.data = append(c.wr.data, p...)
	c.wr.signal()
	return len(p), nil
}

func (c *bufConn) Close() error {
	for _, h := range []*halfPipe{c.rd, c.wr} {
		h.lock()
		h.closed = true
		h.unlock()
		h.signal()
	}
	return nil
}

type bufAddr string

func (a bufAddr) Network() string { return "tcp" }
func (a bufAddr) String() string  { return string(a) }

func (c *bufConn) LocalAddr() net.Addr                { return &net.TCPAddr{IP: net.IPv4(10, 0, 0, 1), Port: 8333} }
func (c *bufConn) RemoteAddr() net.Addr               { return &net.TCPAddr{IP: net.IPv4(10, 0, 0, 2), Port: 8333} }
func (c *bufConn) SetDeadline(t time.Time) error      { return nil }
func (c *bufConn) SetReadDeadline(t time.Time) error  { return nil }
func (c *bufConn) SetWriteDeadline(t time.Time) error { return nil }
