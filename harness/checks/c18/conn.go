package c18

import (
	"io"
	"net"
	"sync"
	"sync/atomic"
	"syscall"
	"time"
)

// gconn is the peer's end of an in-memory, buffered, harness-gated duplex
// connection.  The harness is the remote end: it appends bytes to the inbox
// (optionally withholding them from the peer until read credit is granted) and
// captures everything the peer writes (optionally withholding write credit so
// that the peer's Write blocks, or failing writes after n more bytes).
//
// The two directions use separate mutexes so that the connection itself adds as
// few happens-before edges between the peer's reader and writer goroutines as
// possible.
type gconn struct {
	laddr, raddr net.Addr
	closed       atomic.Bool
	closeCalls   atomic.Int32

	rmu            sync.Mutex
	rcond          *sync.Cond
	inbox          []byte
	credit         int // bytes at the front of inbox the peer may consume
	remoteClosed   bool
	readersWaiting int
	chunk          int // max bytes handed out per Read (0 = no limit)
	consumed       int

	wmu            sync.Mutex
	wcond          *sync.Cond
	out            []byte
	wUnlimited     bool
	wcredit        int
	failArmed      bool
	failRemain     int
	writeBroken    bool
	writersBlocked int
	failedWrites   int
}

func newGConn(chunk int) *gconn {
	c := &gconn{
		laddr:      &net.TCPAddr{IP: net.IPv4(10, 0, 0, 1), Port: 18555},
		raddr:      &net.TCPAddr{IP: net.IPv4(10, 0, 0, 2), Port: 8333},
		chunk:      chunk,
		wUnlimited: true,
	}
	c.rcond = sync.NewCond(&c.rmu)
	c.wcond = sync.NewCond(&c.wmu)
	return c
}

func closedErr(op string) error {
	return &net.OpError{Op: op, Net: "tcp", Err: net.ErrClosed}
}

// ---- net.Conn (used by the peer) -------------------------------------------

func (c *gconn) Read(p []byte) (int, error) {
	if len(p) == 0 {
		return 0, nil
	}
	c.rmu.Lock()
	defer c.rmu.Unlock()
	for {
		if c.closed.Load() {
			return 0, closedErr("read")
		}
		avail := len(c.inbox)
		if !c.remoteClosed && avail > c.credit {
			avail = c.credit
		}
		if avail > 0 {
			n := avail
			if n > len(p) {
				n = len(p)
			}
			if c.chunk > 0 && n > c.chunk {
				n = c.chunk
			}
			copy(p, c.inbox[:n])
			c.inbox = c.inbox[n:]
			if c.credit >= n {
				c.credit -= n
			} else {
				c.credit = 0
			}
			c.consumed += n
			return n, nil
		}
		if c.remoteClosed {
			return 0, io.EOF
		}
		c.readersWaiting++
		c.rcond.Broadcast() // wake settle waiters
		c.rcond.Wait()
		c.readersWaiting--
	}
}

func (c *gconn) Write(p []byte) (int, error) {
	c.wmu.Lock()
	defer c.wmu.Unlock()
	total := 0
	for {
		if c.closed.Load() {
			c.failedWrites++
			return total, closedErr("write")
		}
		if total == len(p) {
			return total, nil
		}
		if c.writeBroken {
			c.failedWrites++
			return total, &net.OpError{Op: "write", Net: "tcp", Err: syscall.EPIPE}
		}
		if c.failArmed && c.failRemain == 0 {
			c.failedWrites++
			return total, &net.OpError{Op: "write", Net: "tcp", Err: syscall.ECONNRESET}
		}
		allowed := len(p) - total
		if !c.wUnlimited && allowed > c.wcredit {
			allowed = c.wcredit
		}
		if c.failArmed && allowed > c.failRemain {
			allowed = c.failRemain
		}
		if allowed == 0 {
			c.writersBlocked++
			c.wcond.Broadcast()
			c.wcond.Wait()
			c.writersBlocked--
			continue
		}
		c.out = append(c.out, p[total:total+allowed]...)
		total += allowed
		if !c.wUnlimited {
			c.wcredit -= allowed
		}
		if c.failArmed {
			c.failRemain -= allowed
		}
		c.wcond.Broadcast()
	}
}

func (c *gconn) Close() error {
	c.closeCalls.Add(1)
	if !c.closed.CompareAndSwap(false, true) {
		return closedErr("close")
	}
	c.rmu.Lock()
	c.rcond.Broadcast()
	c.rmu.Unlock()
	c.wmu.Lock()
	c.wcond.Broadcast()
	c.wmu.Unlock()
	return nil
}

func (c *gconn) LocalAddr() net.Addr                { return c.laddr }
func (c *gconn) RemoteAddr() net.Addr               { return c.raddr }
func (c *gconn) SetDeadline(t time.Time) error      { return nil }
func (c *gconn) SetReadDeadline(t time.Time) error  { return nil }
func (c *gconn) SetWriteDeadline(t time.Time) error { return nil }

// ---- remote side (used by the harness) --------------------------------------

// send appends bytes the remote wrote; grant makes them readable at once.
func (c *gconn) send(b []byte, grant bool) {
	c.rmu.Lock()
	c.inbox = append(c.inbox, b...)
	if grant {
		c.credit += len(b)
		if c.credit > len(c.inbox) {
			c.credit = len(c.inbox)
		}
	}
	c.rcond.Broadcast()
	c.rmu.Unlock()
}

// letRead lets k more withheld bytes through (k < 0: everything pending).
func (c *gconn) letRead(k int) {
	c.rmu.Lock()
	if k < 0 || c.credit+k > len(c.inbox) {
		c.credit = len(c.inbox)
	} else {
		c.credit += k
	}
	c.rcond.Broadcast()
	c.rmu.Unlock()
}

// remoteClose: the remote hangs up.  Pending bytes stay readable, then EOF;
// writes fail from now on.
func (c *gconn) remoteClose() {
	c.rmu.Lock()
	c.remoteClosed = true
	c.rcond.Broadcast()
	c.rmu.Unlock()
	c.wmu.Lock()
	c.writeBroken = true
	c.wcond.Broadcast()
	c.wmu.Unlock()
}

func (c *gconn) gateWrites(k int) {
	c.wmu.Lock()
	c.wUnlimited = false
	c.wcredit = k
	c.wcond.Broadcast()
	c.wmu.Unlock()
}

func (c *gconn) letWrite(k int) {
	c.wmu.Lock()
	c.wcredit += k
	c.wcond.Broadcast()
	c.wmu.Unlock()
}

func (c *gconn) openWrites() {
	c.wmu.Lock()
	c.wUnlimited = true
	c.wcond.Broadcast()
	c.wmu.Unlock()
}

func (c *gconn) failWritesAfter(n int) {
	c.wmu.Lock()
	if !c.failArmed {
		c.failArmed = true
		c.failRemain = n
	}
	c.wcond.Broadcast()
	c.wmu.Unlock()
}

func (c *gconn) written() []byte {
	c.wmu.Lock()
	defer c.wmu.Unlock()
	return append([]byte(nil), c.out...)
}

func (c *gconn) writerBlocked() bool {
	c.wmu.Lock()
	defer c.wmu.Unlock()
	return c.writersBlocked > 0
}

func (c *gconn) pendingIn() int {
	c.rmu.Lock()
	defer c.rmu.Unlock()
	return len(c.inbox)
}

// waitR blocks until pred holds (evaluated under rmu) or the timeout expires.
func (c *gconn) waitR(timeout time.Duration, pred func() bool) bool {
	deadline := time.Now().Add(timeout)
	tm := time.AfterFunc(timeout, func() {
		c.rmu.Lock()
		c.rcond.Broadcast()
		c.rmu.Unlock()
	})
	defer tm.Stop()
	c.rmu.Lock()
	defer c.rmu.Unlock()
	for !pred() {
		if !time.Now().Before(deadline) {
			return false
		}
		c.rcond.Wait()
	}
	return true
}

func (c *gconn) waitW(timeout time.Duration, pred func() bool) bool {
	deadline := time.Now().Add(timeout)
	tm := time.AfterFunc(timeout, func() {
		c.wmu.Lock()
		c.wcond.Broadcast()
		c.wmu.Unlock()
	})
	defer tm.Stop()
	c.wmu.Lock()
	defer c.wmu.Unlock()
	for !pred() {
		if !time.Now().Before(deadline) {
			return false
		}
		c.wcond.Wait()
	}
	return true
}

// settle grants every pending byte and waits until the peer has consumed all
// of them and is blocked in Read again (so every earlier message has been
// handled completely, listeners included: the peer reads with one goroutine at
// a time and calls its listeners before the next Read), or the connection was
// closed by the peer.  It returns (quiescent, closed).
func (c *gconn) settle(timeout time.Duration) (bool, bool) {
	c.openWrites()
	c.letRead(-1)
	ok := c.waitR(timeout, func() bool {
		if c.closed.Load() {
			return true
		}
		if c.remoteClosed {
			// the peer sees EOF after the pending bytes; nothing more
			// to wait for than the close
			return false
		}
		return len(c.inbox) == 0 && c.readersWaiting > 0
	})
	return ok, c.closed.Load()
}

// waitClosed waits until the peer closed the connection.
func (c *gconn) waitClosed(timeout time.Duration) bool {
	return c.waitR(timeout, func() bool { return c.closed.Load() })
}

// firstFrame waits until the first complete frame the peer wrote is in the
// capture buffer (opening the write gate as far as needed).
func (c *gconn) firstFrame(timeout time.Duration) (wframe, bool) {
	c.openWrites()
	var fr wframe
	got := false
	c.waitW(timeout, func() bool {
		fs, _ := parseFrames(c.out)
		if len(fs) > 0 {
			fr, got = fs[0], true
			return true
		}
		return c.closed.Load()
	})
	return fr, got
}
