// Package c18 decides property C18: peers obey the handshake and shut down
// cleanly under any timing.
//
// codec.go is the harness' own view of the Bitcoin P2P byte layout, written
// from the protocol documentation (message header = magic | 12-byte command |
// payload length | first 4 bytes of sha256d(payload); version payload; inv-like
// payloads; BIP144 transaction serialization).  It shares no code with
// btcd/wire: everything the remote side of the conversation writes is framed
// here and everything the peer under test writes is parsed here.
package c18

import (
	"bytes"
	"crypto/sha256"
	"encoding/binary"
	"fmt"
)

// Network magics as they appear on the wire (protocol documentation).
var (
	magicMain    = [4]byte{0xf9, 0xbe, 0xb4, 0xd9}
	magicTest3   = [4]byte{0x0b, 0x11, 0x09, 0x07}
	magicRegtest = [4]byte{0xfa, 0xbf, 0xb5, 0xda}
)

const (
	hdrSize = 24

	// protocol versions that gate message layouts (BIP31, BIP37, BIP130,
	// BIP133, BIP155 and the historic 209 multiple-address version).
	pverMinAcceptable = 209
	pverBIP31         = 60000
	pverMempool       = 60002
	pverSendHeaders   = 70012
	pverFeeFilter     = 70013
	pverAddrV2        = 70016
)

func sha256d(b []byte) [32]byte {
	a := sha256.Sum256(b)
	return sha256.Sum256(a[:])
}

// frame builds header+payload.  length/checksum can be overridden to build
// malformed frames.
func frame(magic [4]byte, cmd string, payload []byte) []byte {
	return frameRaw(magic, cmd, payload, uint32(len(payload)), nil)
}

func frameRaw(magic [4]byte, cmd string, payload []byte, length uint32, checksum []byte) []byte {
	out := make([]byte, 0, hdrSize+len(payload))
	out = append(out, magic[:]...)
	var c [12]byte
	copy(c[:], cmd)
	out = append(out, c[:]...)
	out = binary.LittleEndian.AppendUint32(out, length)
	if checksum == nil {
		s := sha256d(payload)
		checksum = s[:4]
	}
	out = append(out, checksum[:4]...)
	out = append(out, payload...)
	return out
}

// wframe is one frame parsed from the byte stream the peer wrote.
type wframe struct {
	Magic      [4]byte
	Cmd        string
	Payload    []byte
	ChecksumOK bool
	CmdOK      bool
}

// parseFrames splits a byte stream into complete frames and returns the
// number of trailing bytes that do not form a complete frame.
func parseFrames(b []byte) (frames []wframe, trailing int) {
	for len(b) >= hdrSize {
		var f wframe
		copy(f.Magic[:], b[:4])
		cmd := b[4:16]
		z := bytes.IndexByte(cmd, 0)
		f.CmdOK = true
		if z < 0 {
			z = 12
		}
		for _, x := range cmd[z:] {
			if x != 0 {
				f.CmdOK = false
			}
		}
		f.Cmd = string(cmd[:z])
		n := binary.LittleEndian.Uint32(b[16:20])
		if n > 8_000_000 || int(n) > len(b)-hdrSize {
			// either an absurd length (reported by the caller through
			// the trailing count) or an incomplete frame
			return frames, len(b)
		}
		f.Payload = append([]byte(nil), b[hdrSize:hdrSize+int(n)]...)
		s := sha256d(f.Payload)
		f.ChecksumOK = bytes.Equal(s[:4], b[20:24])
		frames = append(frames, f)
		b = b[hdrSize+int(n):]
	}
	return frames, len(b)
}

func appendVarInt(b []byte, v uint64) []byte {
	switch {
	case v < 0xfd:
		return append(b, byte(v))
	case v <= 0xffff:
		return binary.LittleEndian.AppendUint16(append(b, 0xfd), uint16(v))
	case v <= 0xffffffff:
		return binary.LittleEndian.AppendUint32(append(b, 0xfe), uint32(v))
	}
	return binary.LittleEndian.AppendUint64(append(b, 0xff), v)
}

func readVarInt(b []byte) (v uint64, n int, ok bool) {
	if len(b) == 0 {
		return 0, 0, false
	}
	switch b[0] {
	case 0xfd:
		if len(b) < 3 {
			return 0, 0, false
		}
		return uint64(binary.LittleEndian.Uint16(b[1:])), 3, true
	case 0xfe:
		if len(b) < 5 {
			return 0, 0, false
		}
		return uint64(binary.LittleEndian.Uint32(b[1:])), 5, true
	case 0xff:
		if len(b) < 9 {
			return 0, 0, false
		}
		return binary.LittleEndian.Uint64(b[1:]), 9, true
	}
	return uint64(b[0]), 1, true
}

// versionFields is the content of a version message.
type versionFields struct {
	Pver      int32
	Services  uint64
	Timestamp int64
	Nonce     uint64
	UA        string
	Height    int32
	Relay     bool
	HasRelay  bool
}

func appendNetAddr(b []byte, services uint64, ip4 [4]byte, port uint16) []byte {
	b = binary.LittleEndian.AppendUint64(b, services)
	b = append(b, 0, 0, 0, 0, 0, 0, 0, 0, 0, 0, 0xff, 0xff)
	b = append(b, ip4[:]...)
	return binary.BigEndian.AppendUint16(b, port)
}

func encodeVersion(v versionFields) []byte {
	var b []byte
	b = binary.LittleEndian.AppendUint32(b, uint32(v.Pver))
	b = binary.LittleEndian.AppendUint64(b, v.Services)
	b = binary.LittleEndian.AppendUint64(b, uint64(v.Timestamp))
	b = appendNetAddr(b, 0, [4]byte{10, 0, 0, 1}, 8333)          // addr_recv
	b = appendNetAddr(b, v.Services, [4]byte{10, 0, 0, 2}, 8333) // addr_from
	b = binary.LittleEndian.AppendUint64(b, v.Nonce)
	b = appendVarInt(b, uint64(len(v.UA)))
	b = append(b, v.UA...)
	b = binary.LittleEndian.AppendUint32(b, uint32(v.Height))
	if v.Relay {
		b = append(b, 1)
	} else {
		b = append(b, 0)
	}
	return b
}

func decodeVersion(p []byte) (versionFields, error) {
	var v versionFields
	if len(p) < 4+8+8+26+26+8+1 {
		return v, fmt.Errorf("version payload too short: %d bytes", len(p))
	}
	v.Pver = int32(binary.LittleEndian.Uint32(p))
	v.Services = binary.LittleEndian.Uint64(p[4:])
	v.Timestamp = int64(binary.LittleEndian.Uint64(p[12:]))
	p = p[20+26+26:]
	v.Nonce = binary.LittleEndian.Uint64(p)
	p = p[8:]
	l, n, ok := readVarInt(p)
	if !ok || uint64(len(p)-n) < l {
		return v, fmt.Errorf("version user agent truncated")
	}
	v.UA = string(p[n : n+int(l)])
	p = p[n+int(l):]
	if len(p) >= 4 {
		v.Height = int32(binary.LittleEndian.Uint32(p))
		p = p[4:]
	}
	if len(p) >= 1 {
		v.HasRelay = true
		v.Relay = p[0] != 0
	}
	return v, nil
}

// tagHash spreads a 64-bit tag over a 32-byte hash (tag in the first 8 bytes).
func tagHash(tag uint64) [32]byte {
	var h [32]byte
	binary.LittleEndian.PutUint64(h[:], tag)
	for i := 8; i < 32; i++ {
		h[i] = byte(0xa0 + i)
	}
	return h
}

func hashTag(h []byte) uint64 { return binary.LittleEndian.Uint64(h) }

// Inventory types (protocol documentation / BIP144 / BIP339).
const (
	invTx           = 1
	invBlock        = 2
	invWitnessBlock = 0x40000002
	invWitnessTx    = 0x40000001
)

type invEntry struct {
	Type uint32
	Tag  uint64
}

func encodeInvLike(entries []invEntry) []byte {
	b := appendVarInt(nil, uint64(len(entries)))
	for _, e := range entries {
		b = binary.LittleEndian.AppendUint32(b, e.Type)
		h := tagHash(e.Tag)
		b = append(b, h[:]...)
	}
	return b
}

func decodeInvLike(p []byte) ([]invEntry, error) {
	c, n, ok := readVarInt(p)
	if !ok {
		return nil, fmt.Errorf("inv count truncated")
	}
	p = p[n:]
	if uint64(len(p)) != c*36 {
		return nil, fmt.Errorf("inv payload has %d bytes for %d entries", len(p), c)
	}
	out := make([]invEntry, 0, c)
	for i := uint64(0); i < c; i++ {
		out = append(out, invEntry{Type: binary.LittleEndian.Uint32(p), Tag: hashTag(p[4:12])})
		p = p[36:]
	}
	return out, nil
}

// simpleTx is a one-input one-output transaction carrying a tag.
type simpleTx struct {
	Tag       uint64
	ScriptSig []byte
	PkScript  []byte
	Witness   []byte // single witness item
	Value     int64
	Sequence  uint32
}

func (s simpleTx) encode(witness bool) []byte {
	var b []byte
	b = binary.LittleEndian.AppendUint32(b, 2)
	if witness {
		b = append(b, 0x00, 0x01)
	}
	b = append(b, 1)
	h := tagHash(s.Tag)
	b = append(b, h[:]...)
	b = binary.LittleEndian.AppendUint32(b, 7)
	b = appendVarInt(b, uint64(len(s.ScriptSig)))
	b = append(b, s.ScriptSig...)
	b = binary.LittleEndian.AppendUint32(b, s.Sequence)
	b = append(b, 1)
	b = binary.LittleEndian.AppendUint64(b, uint64(s.Value))
	b = appendVarInt(b, uint64(len(s.PkScript)))
	b = append(b, s.PkScript...)
	if witness {
		b = append(b, 1)
		b = appendVarInt(b, uint64(len(s.Witness)))
		b = append(b, s.Witness...)
	}
	b = binary.LittleEndian.AppendUint32(b, uint32(s.Tag)) // lock time
	return b
}

// encodeGetHeaders: version | locator count | locator hashes | stop hash.
func encodeGetHeaders(pver uint32, locatorTags []uint64, stopTag uint64) []byte {
	b := binary.LittleEndian.AppendUint32(nil, pver)
	b = appendVarInt(b, uint64(len(locatorTags)))
	for _, t := range locatorTags {
		h := tagHash(t)
		b = append(b, h[:]...)
	}
	h := tagHash(stopTag)
	return append(b, h[:]...)
}

func encodeU64(v uint64) []byte { return binary.LittleEndian.AppendUint64(nil, v) }
