package c18

// model.go: reference model of what property C18 demands of the handshake,
// written from the property statement (not from peer.go).  It is fed with the
// messages the remote side sends, in stream order, and says
//
//   - which state a conforming peer is in once it has consumed the stream:
//     still negotiating, live (valid version/verack exchange seen), obliged to
//     have refused the connection (the four refusals the property lists), or
//     unconstrained (the property does not say what must happen, e.g. after a
//     malformed payload or a duplicate version message);
//   - the protocol version a live connection must have negotiated.
type hsState int

const (
	stNeedVersion hsState = iota
	stWaitVerack
	stDone
	stMustFail // property lists this input as "refuse": must end disconnected
	stEither   // property is silent: only the safety clauses apply
)

func (s hsState) String() string {
	return [...]string{"need-version", "wait-verack", "live", "must-refuse", "unconstrained"}[s]
}

// rkind is the kind of a message the remote sends.
type rkind uint8

const (
	rVersion rkind = iota
	rVerAck
	rSendAddrV2
	rUnknown   // well-formed frame with a command the peer does not know (wtxidrelay, sendcmpct, ...)
	rApp       // well-formed application message (ping, inv, getdata, tx, ...)
	rWrongNet  // well-formed message carrying another network's magic
	rMalformed // bad checksum, short / overlong payload for the command
	rOversize  // header announcing a payload beyond the protocol maximum
)

func (k rkind) String() string {
	return [...]string{"version", "verack", "sendaddrv2", "unknown", "app", "wrongnet", "malformed", "oversize"}[k]
}

type hsModel struct {
	state      hsState
	localPver  uint32
	allowSelf  bool
	remotePver uint32
	negotiated uint32
	reason     string // why must-refuse / unconstrained
	failPhase  hsState
	oooOrDup   bool // an out-of-order or duplicate handshake message was fed
	msgs       int
}

func newModel(localPver uint32, allowSelf bool) *hsModel {
	return &hsModel{state: stNeedVersion, localPver: localPver, allowSelf: allowSelf, negotiated: localPver}
}

func minU32(a, b uint32) uint32 {
	if a < b {
		return a
	}
	return b
}

// feed advances the model by one remote message and reports whether the
// message is benign, i.e. keeps a conforming peer connected.
// appMinPver is the lowest negotiated version at which an rApp message is
// well-formed (0 if it does not depend on the version).
func (m *hsModel) feed(k rkind, pver int32, self bool, appMinPver uint32) (benign bool) {
	m.msgs++
	if m.state == stMustFail || m.state == stEither {
		return false
	}
	fail := func(why string) bool {
		m.failPhase = m.state
		m.state, m.reason = stMustFail, why
		return false
	}
	either := func(why string) bool {
		m.failPhase = m.state
		m.state, m.reason = stEither, why
		return false
	}
	if k == rVersion || k == rVerAck || k == rSendAddrV2 {
		expected := (m.state == stNeedVersion && k == rVersion) || (m.state == stWaitVerack && k != rVersion)
		if !expected {
			m.oooOrDup = true
		}
	}
	switch k {
	case rWrongNet:
		return fail("wrong-network")
	case rMalformed:
		// The property lists malformed input in its domain but not among
		// the inputs that must be refused: only the safety clauses apply.
		return either("malformed")
	case rOversize:
		return either("oversize")
	}
	switch m.state {
	case stNeedVersion:
		if k != rVersion {
			return fail("nonversion-first")
		}
		if self && !m.allowSelf {
			return fail("self-connection")
		}
		if pver < 0 {
			// obsolete when read as the signed field it is, beyond every known version when read as
			// unsigned: both the refusal and the acceptance are allowed; an accepting peer has negotiated
			// its own version (checked from the listener trace in checkEndState)
			return either("negative-version")
		}
		if uint32(pver) < pverMinAcceptable {
			return fail("obsolete-version")
		}
		m.remotePver = uint32(pver)
		m.negotiated = minU32(m.localPver, m.remotePver)
		m.state = stWaitVerack
		return true
	case stWaitVerack:
		switch k {
		case rVerAck:
			m.state = stDone
			return true
		case rSendAddrV2:
			if m.negotiated >= pverAddrV2 {
				return true
			}
			return either("sendaddrv2-below-70016")
		case rUnknown:
			return true
		case rVersion:
			return either("duplicate-version-in-handshake")
		default:
			return either("app-message-in-handshake")
		}
	case stDone:
		switch k {
		case rUnknown:
			return true
		case rApp:
			if m.negotiated >= appMinPver {
				return true
			}
			return either("app-message-invalid-for-version")
		default:
			return either("handshake-message-after-handshake")
		}
	}
	return false
}
