package c14

import (
	"fmt"
	"testing"
	"time"

	"github.com/btcsuite/btcd/chaincfg/v2"
	"github.com/btcsuite/btcd/wire/v2"
	"pgregory.net/rapid"

	ce "verif/internal/chainenv"
	"verif/internal/ev"
)

var recBoundary = ev.New("C14", "activation-boundary",
	"the CSV deployment (BIP68 sequence locks, median-time lock-time finality) is installed as a real BIP9 deployment (bit 0, always started, never ending, window 3-6, threshold 1..window) so that it activates in the middle of a generated chain whose votes are drawn; "+
		"at a generated parent a candidate block carries a transaction that is valid only without the CSV rules: a version-2 spend whose relative lock is one block too young (BIP68), a lock time that is final against the block's own timestamp but not against the median time past (BIP113), or a version-1 spend of a '1 CHECKSEQUENCEVERIFY' output (BIP112: a NOP before activation); "+
		"oracle: the candidate is accepted iff the reference state machine says the deployment is NOT active for that block, i.e. the rules switch on exactly at the first block of the Active window; "+
		"non-trivial = candidate placed in the window before / at / after the first Active block; distinct by (chain, parent, rule)",
	"last-window-before-active", "first-active-block", "later-active", "long-before")

var csvScript = []byte{0x51, 0xb2} // OP_1 OP_CHECKSEQUENCEVERIFY

func TestActivationBoundary(t *testing.T) {
	rapid.Check(t, func(t *rapid.T) {
		nd := &netDef{}
		nd.Window = uint32(rapid.IntRange(3, 6).Draw(t, "window"))
		nd.Threshold = uint32(rapid.IntRange(1, int(nd.Window)).Draw(t, "threshold"))
		p := chaincfg.RegressionNetParams
		p.Name = "verif-boundary"
		p.CoinbaseMaturity = 1
		p.MinerConfirmationWindow = nd.Window
		p.RuleChangeActivationThreshold = nd.Threshold
		csv := deployment{Bit: 0}
		for i := range nd.Deps {
			nd.Deps[i] = deployment{Bit: uint8(20 + i), AlwaysAct: 1}
		}
		nd.Deps[chaincfg.DeploymentCSV] = csv
		p.Deployments[chaincfg.DeploymentCSV] = chaincfg.ConsensusDeployment{
			BitNumber:         0,
			DeploymentStarter: chaincfg.NewMedianTimeDeploymentStarter(time.Time{}),
			DeploymentEnder:   chaincfg.NewMedianTimeDeploymentEnder(time.Time{}),
		}
		tr := ce.NewTree(ce.FamFlat, &p)
		n := rapid.IntRange(int(nd.Window)*3, int(nd.Window)*6).Draw(t, "blocks")
		voteRate := rapid.IntRange(int(nd.Threshold), int(nd.Window)).Draw(t, "voteRate")
		cur := tr.Genesis
		for i := 0; i < n; i++ {
			ver := int32(0x20000000)
			if rapid.IntRange(0, int(nd.Window)-1).Draw(t, "vote") < voteRate {
				ver |= 1
			}
			// time steps of several seconds so that block time and median time differ
			// coinbase outputs pay to "1 CHECKSEQUENCEVERIFY": a NOP (anyone can spend) before the
			// deployment is active, BIP112 afterwards (needs a version >= 2 spender with a relative lock >= 1)
			cur = tr.Extend(cur, ce.BlockOpt{Version: ver, TimeDelta: int64(rapid.IntRange(2, 30).Draw(t, "dt")), PayScript: csvScript})
		}
		env, err := ce.NewEnv(&p, ce.EnvOpt{UtxoCacheMaxSize: 1 << 20})
		if err != nil {
			t.Fatalf("VERIF-INFRA: %v", err)
		}
		defer env.Close()
		sel := ce.NewSel(tr)
		path := cur.Path()
		for _, nd_ := range path[1:] {
			out := sel.DeliverBlock(nd_)
			if _, _, err := env.Deliver(nd_); err != nil && out.MustSucceed {
				t.Fatalf("VERIF-INFRA: base chain block rejected: %v", err)
			}
		}
		// first height whose block is under Active rules on this chain
		firstActive := int32(-1)
		for _, x := range path {
			if refStateAfter(x, csv, nd) == active {
				firstActive = x.Height + 1
				break
			}
		}
		// candidate parent: biased to the blocks around the first Active block
		ph := rapid.IntRange(1, len(path)-1).Draw(t, "parentHeight")
		if firstActive > 2 && rapid.IntRange(0, 3).Draw(t, "nearBoundary") > 0 {
			ph = int(firstActive) - 1 + rapid.IntRange(-2, 1).Draw(t, "boundaryOffset")
			if ph < 1 {
				ph = 1
			}
			if ph > len(path)-1 {
				ph = len(path) - 1
			}
		}
		parent := path[ph]
		activeForCandidate := refStateAfter(parent, csv, nd) == active
		var sp []wire.OutPoint
		for _, o := range parent.Utxo.SortedOutpoints() {
			c := parent.Utxo[o]
			if string(c.PkScript) == string(csvScript) && !(c.Coinbase && parent.Height+1-c.Height < 1) {
				sp = append(sp, o)
			}
		}
		if len(sp) == 0 {
			t.Skip("nothing spendable")
		}
		op := sp[rapid.IntRange(0, len(sp)-1).Draw(t, "coin")]
		coin := parent.Utxo[op]
		rule := rapid.SampledFrom([]string{"bip68-too-young", "locktime-between-mtp-and-blocktime", "csv-opcode-version-1-spender"}).Draw(t, "rule")
		var tx *wire.MsgTx
		opt := ce.BlockOpt{}
		switch rule {
		case "bip68-too-young":
			age := uint32(parent.Height + 1 - coin.Height)
			tx = ce.SpendTx(2, []wire.OutPoint{op}, []*wire.TxOut{{Value: coin.Value, PkScript: ce.OpTrue}}, 0, age+1)
		case "csv-opcode-version-1-spender":
			// BIP112: CHECKSEQUENCEVERIFY fails for a transaction version below 2; BIP68 does not apply to version 1
			tx = ce.SpendTx(1, []wire.OutPoint{op}, []*wire.TxOut{{Value: coin.Value, PkScript: ce.OpTrue}}, 0, 0xffffffff)
		default:
			// lock time = MTP(parent): not final against the median time, final against a later block timestamp
			mtp := parent.MTP()
			opt.AbsTime = parent.Time() + 5
			if opt.AbsTime <= mtp {
				opt.AbsTime = mtp + 1
			}
			tx = ce.SpendTx(1, []wire.OutPoint{op}, []*wire.TxOut{{Value: coin.Value, PkScript: ce.OpTrue}}, uint32(mtp), 0xfffffffe)
			if !(int64(tx.LockTime) < opt.AbsTime) {
				t.Skip("no room between median time and block time")
			}
		}
		opt.Txs = []*wire.MsgTx{tx}
		if activeForCandidate {
			opt.Label, opt.Rule = ce.InvalidConnect, "csv-rule:"+rule
			if rule == "locktime-between-mtp-and-blocktime" {
				opt.Label = ce.InvalidContext
			}
		}
		cand := tr.Extend(parent, opt)
		cl := "long-before"
		h := cand.Height
		switch {
		case firstActive >= 0 && h == firstActive:
			cl = "first-active-block"
		case firstActive >= 0 && h > firstActive:
			cl = "later-active"
		case firstActive >= 0 && h >= firstActive-int32(nd.Window):
			cl = "last-window-before-active"
		case firstActive < 0 && refStateAfter(parent, csv, nd) == lockedIn:
			cl = "last-window-before-active"
		}
		recBoundary.Case(cl != "long-before", cl, ev.Hash(cand.Hash[:], []byte(rule)), func() any {
			return map[string]any{"window": nd.Window, "threshold": nd.Threshold, "candidate_height": h, "first_active_height": firstActive, "rule": rule, "expected_valid": !activeForCandidate}
		})
		recBoundary.Count("rule:"+rule, 1)
		if h == firstActive-1 {
			recBoundary.Count("last-block-before-active", 1)
		}
		// side-chain candidates are only stored; use the template check when the parent is the tip, else deliver with a descendant
		out := sel.DeliverBlock(cand)
		_, _, err = env.Deliver(cand)
		if parent == cur || cand.WorkSum.Cmp(cur.WorkSum) > 0 {
			if out.MustError && err == nil {
				t.Fatalf("candidate with a %s transaction at height %d was accepted although the deployment is active from height %d (state for it: active)\n%s", rule, h, firstActive, describe(nd, tr))
			}
			if out.MustSucceed && err != nil {
				t.Fatalf("candidate with a %s transaction at height %d was rejected (%v) although the CSV rules are not active for it (first active height %d)\n%s", rule, h, err, firstActive, describe(nd, tr))
			}
		} else {
			// make the candidate's branch the most-work one so that it is validated by a reorganisation
			last := cand
			for last.WorkSum.Cmp(cur.WorkSum) <= 0 {
				last = tr.Extend(last, ce.BlockOpt{TimeDelta: 31})
				sel.DeliverBlock(last)
				env.Deliver(last)
			}
		}
		if err := ce.CheckTip(env, sel); err != nil {
			t.Fatalf("%v\ncandidate node%d rule=%s expected valid=%v first active height=%d\n%s", err, cand.Idx, rule, !activeForCandidate, firstActive, describe(nd, tr))
		}
		_ = fmt.Sprint
	})
}
