// Package c14 decides property C14: soft-fork deployment state follows the
// BIP9 state machine on every history.
package c14

import (
	"fmt"
	"os"
	"sort"
	"strings"
	"testing"
	"time"

	"github.com/btcsuite/btcd/blockchain"
	"github.com/btcsuite/btcd/chaincfg/v2"
	"pgregory.net/rapid"

	ce "verif/internal/chainenv"
	"verif/internal/ev"
	"verif/internal/scratch"
)

func TestMain(m *testing.M) {
	code := m.Run()
	scratch.Sweep()
	ev.Flush()
	os.Exit(code)
}

// ---------------------------------------------------------------------------
// reference state machine (BIP9 with btcd's documented extensions), evaluated
// over a node's own ancestors only, no caching.

type state int

const (
	defined state = iota
	started
	lockedIn
	active
	failed
)

func (s state) String() string { return [...]string{"defined", "started", "lockedin", "active", "failed"}[s] }

type deployment struct {
	Bit        uint8
	Start, End int64 // unix seconds, 0 = always started / never ends
	MinHeight  uint32
	CustomThr  uint32
	AlwaysAct  uint32
}

func (d deployment) speedy() bool { return d.MinHeight != 0 || d.CustomThr != 0 }

type netDef struct {
	Window, Threshold uint32
	Deps              [chaincfg.DefinedDeployments]deployment
}

// refStateAfter returns the state for the block AFTER node x.
func refStateAfter(x *ce.Node, d deployment, nd *netDef) state {
	if x == nil {
		return defined
	}
	if d.AlwaysAct != 0 && uint32(x.Height)+1 >= d.AlwaysAct {
		return active
	}
	w := int32(nd.Window)
	if x.Height+1 < w {
		return defined
	}
	// last block of the most recent complete window
	b := x.Ancestor(x.Height - (x.Height+1)%w)
	// boundaries from the first (height w-1) to b
	var bounds []*ce.Node
	for it := b; it != nil; it = it.Ancestor(it.Height - w) {
		bounds = append(bounds, it)
		if it.Height-w < 0 {
			break
		}
	}
	thr := nd.Threshold
	if d.CustomThr != 0 {
		thr = d.CustomThr
	}
	st := defined
	for i := len(bounds) - 1; i >= 0; i-- {
		bn := bounds[i]
		mtp := bn.MTP()
		hasStarted := d.Start == 0 || mtp >= d.Start
		hasEnded := d.End != 0 && mtp >= d.End
		switch st {
		case defined:
			if !d.speedy() && hasEnded {
				st = failed
			} else if hasStarted {
				st = started
			}
		case started:
			if !d.speedy() && hasEnded {
				st = failed
				break
			}
			var count uint32
			it := bn
			for k := int32(0); k < w; k++ {
				v := uint32(it.Msg.Header.Version)
				if v&0xe0000000 == 0x20000000 && v&(1<<d.Bit) != 0 {
					count++
				}
				it = it.Parent
			}
			if count >= thr {
				st = lockedIn
			} else if d.speedy() && hasEnded {
				st = failed
			}
		case lockedIn:
			if d.MinHeight == 0 || uint32(bn.Height)+1 >= d.MinHeight {
				st = active
			}
		}
	}
	return st
}

func voteCount(bn *ce.Node, bit uint8, w int32) uint32 {
	var count uint32
	it := bn
	for k := int32(0); k < w && it != nil; k++ {
		v := uint32(it.Msg.Header.Version)
		if v&0xe0000000 == 0x20000000 && v&(1<<bit) != 0 {
			count++
		}
		it = it.Parent
	}
	return count
}

func toBtcd(s state) blockchain.ThresholdState {
	return [...]blockchain.ThresholdState{blockchain.ThresholdDefined, blockchain.ThresholdStarted, blockchain.ThresholdLockedIn, blockchain.ThresholdActive, blockchain.ThresholdFailed}[s]
}

// ---------------------------------------------------------------------------
// generators

func genNet(t *rapid.T, span int64) (*netDef, *chaincfg.Params) {
	nd := &netDef{}
	nd.Window = uint32(rapid.IntRange(2, 16).Draw(t, "window"))
	nd.Threshold = uint32(rapid.IntRange(1, int(nd.Window)).Draw(t, "threshold"))
	p := chaincfg.RegressionNetParams // copy
	p.Name = "verif-bip9"
	p.CoinbaseMaturity = 1
	p.MinerConfirmationWindow = nd.Window
	p.RuleChangeActivationThreshold = nd.Threshold
	bits := []uint8{0, 1, 2, 5, 13, 28, 27, 22}
	for i := 0; i < int(chaincfg.DefinedDeployments); i++ {
		var d deployment
		d.Bit = bits[i]
		timeAt := func(label string) int64 {
			switch rapid.IntRange(0, 4).Draw(t, label+"Kind") {
			case 0:
				return 0 // zero: always started / never ends
			case 1:
				return ce.T0 - 100000 // before the first generated block
			case 2:
				return ce.T0 + 100*span // never reached
			default:
				return ce.T0 + rapid.Int64Range(0, span).Draw(t, label)
			}
		}
		d.Start = timeAt(fmt.Sprintf("start%d", i))
		d.End = timeAt(fmt.Sprintf("end%d", i))
		if d.End != 0 && d.Start != 0 && d.End < d.Start {
			d.Start, d.End = d.End, d.Start // domain: start <= timeout
		}
		if d.End != 0 && d.Start == 0 {
			// zero start = "always started": fine with any end
		}
		switch rapid.IntRange(0, 3).Draw(t, fmt.Sprintf("minH%d", i)) {
		case 0:
			d.MinHeight = uint32(rapid.IntRange(1, int(nd.Window)*8).Draw(t, fmt.Sprintf("minHeight%d", i)))
		}
		if rapid.IntRange(0, 3).Draw(t, fmt.Sprintf("cthr%d", i)) == 0 {
			d.CustomThr = uint32(rapid.IntRange(1, int(nd.Window)).Draw(t, fmt.Sprintf("customThr%d", i)))
		}
		if rapid.IntRange(0, 4).Draw(t, fmt.Sprintf("aah%d", i)) == 0 {
			d.AlwaysAct = uint32(rapid.IntRange(1, int(nd.Window)*8).Draw(t, fmt.Sprintf("alwaysActive%d", i)))
			if rapid.IntRange(0, 3).Draw(t, fmt.Sprintf("aahFar%d", i)) == 0 {
				// heights no chain reaches, at and beyond the signed 32-bit range ("never" spelled as a number)
				d.AlwaysAct = rapid.SampledFrom([]uint32{1<<31 - 1, 1 << 31, 1<<31 + 250, 1<<32 - 1}).Draw(t, fmt.Sprintf("alwaysActiveFar%d", i))
			}
		}
		nd.Deps[i] = d
		tm := func(v int64) time.Time {
			if v == 0 {
				return time.Time{}
			}
			return time.Unix(v, 0)
		}
		p.Deployments[i] = chaincfg.ConsensusDeployment{
			BitNumber: d.Bit, MinActivationHeight: d.MinHeight, CustomActivationThreshold: d.CustomThr, AlwaysActiveHeight: d.AlwaysAct,
			DeploymentStarter: chaincfg.NewMedianTimeDeploymentStarter(tm(d.Start)),
			DeploymentEnder:   chaincfg.NewMedianTimeDeploymentEnder(tm(d.End)),
		}
	}
	return nd, &p
}

var recBip9 = ev.New("C14", "bip9-state",
	"deployment definitions for all deployment slots (bit, start/timeout in {zero, before the chain, mid-chain, never}, start<=timeout, threshold 1..window, window 2..16, min activation height, custom threshold (speedy trial), always-active height) "+
		"installed in a copy of the regtest parameters; forked block trees of 3-8 windows whose block versions (top bits right/wrong, deployment bits set/unset with per-window vote rates around the threshold) and timestamps (steps of 1..600 s so that the median time crosses start/timeout inside, at and between windows) are drawn; "+
		"queries: the state after EVERY node of the tree for every deployment in a generated order, repeated, on the long-lived chain and again after a re-open (empty caches); tip queries ThresholdState/IsDeploymentActive/CalcNextBlockVersion after every delivery; "+
		"oracle: BIP9 reference state machine (legacy timeout precedence for plain deployments, speedy-trial order when a min activation height or custom threshold is set, forced Active from the always-active height) evaluated over the node's own ancestors without caches; "+
		"Active/Failed absorbing along every path (forced activation excepted); proposed version = top bits + bits of Started/LockedIn deployments; "+
		"non-trivial = the tree shows >= 1 state change for the deployment and a window whose vote count is within 1 of the threshold or whose median time is within one block of start/timeout; distinct by (definition, tree) hash",
	"near-threshold", "near-time", "forced-active", "speedy", "min-height-wait", "failed", "activated", "plain")

func TestBIP9(t *testing.T) {
	rapid.Check(t, func(t *rapid.T) {
		nBlocks := rapid.IntRange(20, ev.Scale(90, 130)).Draw(t, "blocks")
		maxStep := rapid.SampledFrom([]int64{3, 60, 600}).Draw(t, "maxStep")
		span := int64(nBlocks) * maxStep / 2
		nd, params := genNet(t, span)
		tr := ce.NewTree(ce.FamFlat, params)
		tr.NoUtxo = true
		// per-tree vote rate around the threshold of each deployment
		rate := make([]int, len(nd.Deps))
		for i, d := range nd.Deps {
			thr := int(nd.Threshold)
			if d.CustomThr != 0 {
				thr = int(d.CustomThr)
			}
			rate[i] = thr + rapid.IntRange(-1, 1).Draw(t, fmt.Sprintf("rate%d", i))
		}
		for i := 0; i < nBlocks; i++ {
			var parent *ce.Node
			if rapid.IntRange(0, 99).Draw(t, "fork") < 6 && len(tr.Nodes) > 1 {
				parent = tr.Nodes[rapid.IntRange(0, len(tr.Nodes)-1).Draw(t, "parent")]
			} else {
				// extend the longest leaf mostly
				best := tr.Nodes[0]
				for _, n := range tr.Nodes {
					if len(n.Children) == 0 && n.Height >= best.Height {
						best = n
					}
				}
				parent = best
			}
			ver := uint32(0x20000000)
			switch rapid.IntRange(0, 11).Draw(t, "topBits") {
			case 0:
				ver = 0x40000000
			case 1:
				ver = 0x60000000
			case 2:
				ver = 4
			}
			for di, d := range nd.Deps {
				if rapid.IntRange(0, int(nd.Window)-1).Draw(t, fmt.Sprintf("vote%d", di)) < rate[di] {
					ver |= 1 << d.Bit
				}
			}
			if ver < 4 {
				ver = 4
			}
			dt := rapid.Int64Range(1, maxStep).Draw(t, "dt")
			tr.Extend(parent, ce.BlockOpt{Version: int32(ver), TimeDelta: dt})
		}
		env, err := ce.NewEnv(params, ce.EnvOpt{UtxoCacheMaxSize: 1 << 20})
		if err != nil {
			t.Fatalf("VERIF-INFRA: %v", err)
		}
		defer env.Close()
		sel := ce.NewSel(tr)
		desc := func() string { return describe(nd, tr) }

		checkNode := func(n *ce.Node, di int, ctx string) {
			want := refStateAfter(n, nd.Deps[di], nd)
			h := n.Hash
			got, err := env.Chain.VerifDeploymentStateAfter(&h, uint32(di))
			if err != nil {
				t.Fatalf("%s: state after node%d deployment %d: %v", ctx, n.Idx, di, err)
			}
			if got != toBtcd(want) {
				t.Fatalf("%s: deployment %d (%+v) state for the block after node%d (height %d, mtp %d): got %v, BIP9 reference %v\n%s",
					ctx, di, nd.Deps[di], n.Idx, n.Height, n.MTP(), got, want, desc())
			}
		}
		// deliver in tree order; tip queries after every delivery
		for _, n := range tr.Nodes[1:] {
			out := sel.DeliverBlock(n)
			_, _, err := env.Deliver(n)
			if out.MustSucceed && err != nil {
				t.Fatalf("VERIF-INFRA: generated block node%d rejected: %v\n%s", n.Idx, err, desc())
			}
			if err := ce.CheckTip(env, sel); err != nil {
				t.Fatalf("%v\n%s", err, desc())
			}
			tip := sel.Tip
			wantVer := uint32(0x20000000)
			for di := range nd.Deps {
				want := refStateAfter(tip, nd.Deps[di], nd)
				got, err := env.Chain.ThresholdState(uint32(di))
				if err != nil || got != toBtcd(want) {
					t.Fatalf("ThresholdState(%d) at tip node%d = %v (%v), reference %v\n%s", di, tip.Idx, got, err, want, desc())
				}
				act, err := env.Chain.IsDeploymentActive(uint32(di))
				if err != nil || act != (want == active) {
					t.Fatalf("IsDeploymentActive(%d) at tip node%d = %v, reference state %v\n%s", di, tip.Idx, act, want, desc())
				}
				if want == started || want == lockedIn {
					wantVer |= 1 << nd.Deps[di].Bit
				}
			}
			v, err := env.Chain.CalcNextBlockVersion()
			if err != nil || uint32(v) != wantVer {
				t.Fatalf("CalcNextBlockVersion at tip node%d = %#x (%v), want %#x (bits of Started/LockedIn deployments)\n%s", tip.Idx, uint32(v), err, wantVer, desc())
			}
		}
		// every node x every deployment in a generated order, on the long-lived chain
		type q struct{ n, d int }
		var qs []q
		for ni := range tr.Nodes {
			for di := range nd.Deps {
				qs = append(qs, q{ni, di})
			}
		}
		perm := rapid.Permutation(qs).Draw(t, "queryOrder")
		limit := len(perm)
		if limit > 400 {
			limit = 400
		}
		for _, x := range perm[:limit] {
			checkNode(tr.Nodes[x.n], x.d, "long-lived chain")
		}
		// proposed version after arbitrary nodes
		for k := 0; k < 10; k++ {
			n := tr.Nodes[rapid.IntRange(0, len(tr.Nodes)-1).Draw(t, "verNode")]
			wantVer := uint32(0x20000000)
			for di := range nd.Deps {
				if s := refStateAfter(n, nd.Deps[di], nd); s == started || s == lockedIn {
					wantVer |= 1 << nd.Deps[di].Bit
				}
			}
			h := n.Hash
			v, err := env.Chain.VerifNextBlockVersionAfter(&h)
			if err != nil || uint32(v) != wantVer {
				t.Fatalf("next block version after node%d = %#x (%v), want %#x\n%s", n.Idx, uint32(v), err, wantVer, desc())
			}
		}
		// fresh chain object (empty caches): a different query order must give the same answers
		if err := env.Reopen(true); err != nil {
			t.Fatalf("re-open: %v", err)
		}
		perm2 := rapid.Permutation(qs).Draw(t, "queryOrder2")
		for _, x := range perm2[:min(limit, 200)] {
			checkNode(tr.Nodes[x.n], x.d, "fresh chain object")
		}

		// absorbing states along every path + classification (model side)
		classes := map[string]bool{}
		for di, d := range nd.Deps {
			changes := 0
			for _, leaf := range tr.Nodes {
				if len(leaf.Children) != 0 {
					continue
				}
				prev := defined
				for _, n := range leaf.Path() {
					s := refStateAfter(n, d, nd)
					forced := d.AlwaysAct != 0 && uint32(n.Height)+1 >= d.AlwaysAct
					if (prev == active || prev == failed) && s != prev && !forced {
						t.Fatalf("VERIF-INFRA: reference model leaves absorbing state %v -> %v (deployment %d after node%d)", prev, s, di, n.Idx)
					}
					if s != prev {
						changes++
						if forced {
							classes["forced-active"] = true
						}
						if s == failed {
							classes["failed"] = true
						}
						if s == active && !forced {
							classes["activated"] = true
						}
					}
					if s == lockedIn && prev == lockedIn {
						classes["min-height-wait"] = true
					}
					prev = s
				}
			}
			if changes == 0 {
				continue
			}
			if d.speedy() {
				classes["speedy"] = true
			}
			thr := nd.Threshold
			if d.CustomThr != 0 {
				thr = d.CustomThr
			}
			w := int32(nd.Window)
			for _, n := range tr.Nodes {
				if (n.Height+1)%w != 0 {
					continue
				}
				c := voteCount(n, d.Bit, w)
				if c+1 == thr || c == thr {
					classes["near-threshold"] = true
				}
				mtp := n.MTP()
				var pm int64
				if n.Parent != nil {
					pm = n.Parent.MTP()
				}
				for _, edge := range []int64{d.Start, d.End} {
					if edge != 0 && pm < edge && mtp >= edge {
						classes["near-time"] = true
					}
				}
			}
		}
		cl := "plain"
		for _, k := range []string{"near-threshold", "near-time", "min-height-wait", "forced-active", "speedy", "failed", "activated"} {
			if classes[k] {
				if cl == "plain" {
					cl = k
				} else {
					recBip9.Count(k, 1)
				}
			}
		}
		recBip9.Case(cl != "plain", cl, ev.HashS(desc()), func() any {
			return map[string]any{"window": nd.Window, "threshold": nd.Threshold, "deployments": fmt.Sprintf("%+v", nd.Deps), "blocks": len(tr.Nodes) - 1, "class": cl}
		})
	})
}

func describe(nd *netDef, tr *ce.Tree) string {
	var sb strings.Builder
	fmt.Fprintf(&sb, "window=%d threshold=%d\n", nd.Window, nd.Threshold)
	for i, d := range nd.Deps {
		fmt.Fprintf(&sb, " dep%d %+v\n", i, d)
	}
	nodes := append([]*ce.Node(nil), tr.Nodes[1:]...)
	sort.Slice(nodes, func(i, j int) bool { return nodes[i].Idx < nodes[j].Idx })
	for _, n := range nodes {
		fmt.Fprintf(&sb, " node%d<-node%d h%d ver=%#x t=%d mtp=%d\n", n.Idx, n.Parent.Idx, n.Height, uint32(n.Msg.Header.Version), n.Time()-ce.T0, n.MTP()-ce.T0)
	}
	return sb.String()
}
