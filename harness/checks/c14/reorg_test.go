package c14

import (
	"fmt"
	"testing"

	"pgregory.net/rapid"

	ce "verif/internal/chainenv"
	"verif/internal/ev"
)

// ---------------------------------------------------------------------------
// tip queries while the best chain moves between two branches whose deployment
// histories differ (one branch votes a deployment in, the other does not): the
// answer is that of the branch that is the best chain at the time of the query.

var recTipReorg = ev.New("C14", "tip-queries-across-reorg",
	"generated deployment definitions (as in bip9-state); two branches fork within the first two windows, each with its own per-deployment vote rate in {none, threshold-1, threshold, all}; "+
		"branch A is delivered first (3-5 windows), branch B then grows past it (reorganisation), then A grows past B again; after EVERY delivery ThresholdState, IsDeploymentActive and CalcNextBlockVersion are queried for every deployment; "+
		"oracle: BIP9 reference state machine over the ancestors of the model's best tip; non-trivial = for at least one deployment the two branch tips are in different states, one of them Active; distinct by (definition, tree) hash",
	"active-on-one-branch", "states-differ", "same-states")

func TestTipQueriesAcrossReorg(t *testing.T) {
	rapid.Check(t, func(t *rapid.T) {
		maxStep := rapid.SampledFrom([]int64{3, 60, 600}).Draw(t, "maxStep")
		nd, params := genNet(t, 80*maxStep)
		w := int(nd.Window)
		tr := ce.NewTree(ce.FamFlat, params)
		tr.NoUtxo = true
		genRate := func(label string) []int {
			r := make([]int, len(nd.Deps))
			for i, d := range nd.Deps {
				thr := int(nd.Threshold)
				if d.CustomThr != 0 {
					thr = int(d.CustomThr)
				}
				r[i] = rapid.SampledFrom([]int{0, thr - 1, thr, w}).Draw(t, fmt.Sprintf("%s%d", label, i))
			}
			return r
		}
		rateA, rateB := genRate("rateA"), genRate("rateB")
		grow := func(from *ce.Node, n int, rate []int) *ce.Node {
			for i := 0; i < n; i++ {
				ver := uint32(0x20000000)
				for di, d := range nd.Deps {
					// deterministic placement inside the window: the first rate[di] blocks of every window vote
					if int(from.Height+1)%w < rate[di] {
						ver |= 1 << d.Bit
					}
				}
				from = tr.Extend(from, ce.BlockOpt{Version: int32(ver), TimeDelta: rapid.Int64Range(1, maxStep).Draw(t, "dt")})
			}
			return from
		}
		fork := grow(tr.Genesis, rapid.IntRange(0, 2*w).Draw(t, "forkHeight"), rateA)
		a := grow(fork, rapid.IntRange(3*w, 5*w).Draw(t, "lenA")-int(fork.Height), rateA)
		firstB := len(tr.Nodes)
		b := grow(fork, int(a.Height-fork.Height)+rapid.IntRange(1, w).Draw(t, "bBeyond"), rateB)
		firstA2 := len(tr.Nodes)
		a2 := grow(a, int(b.Height-a.Height)+rapid.IntRange(1, w).Draw(t, "aBeyond"), rateA)
		_ = firstB
		_ = firstA2

		differ, activeDiffer := false, false
		for di := range nd.Deps {
			sa, sb := refStateAfter(a, nd.Deps[di], nd), refStateAfter(b, nd.Deps[di], nd)
			if sa != sb {
				differ = true
				if sa == active || sb == active {
					activeDiffer = true
				}
			}
			if sb2 := refStateAfter(a2, nd.Deps[di], nd); sb2 != sb && (sb2 == active || sb == active) {
				differ, activeDiffer = true, true
			}
		}
		cl := "same-states"
		if activeDiffer {
			cl = "active-on-one-branch"
		} else if differ {
			cl = "states-differ"
		}
		recTipReorg.Case(activeDiffer, cl, ev.HashS(describe(nd, tr)), func() any {
			return map[string]any{"window": nd.Window, "threshold": nd.Threshold, "fork_height": fork.Height, "a_tip": a.Height, "b_tip": b.Height, "a2_tip": a2.Height, "rate_a": rateA, "rate_b": rateB}
		})

		env, err := ce.NewEnv(params, ce.EnvOpt{UtxoCacheMaxSize: 1 << 20})
		if err != nil {
			t.Fatalf("VERIF-INFRA: %v", err)
		}
		defer env.Close()
		sel := ce.NewSel(tr)
		desc := func() string { return describe(nd, tr) }
		flips := 0
		var lastTip *ce.Node
		for _, n := range tr.Nodes[1:] {
			out := sel.DeliverBlock(n)
			_, _, err := env.Deliver(n)
			if out.MustSucceed && err != nil {
				t.Fatalf("VERIF-INFRA: generated block node%d rejected: %v\n%s", n.Idx, err, desc())
			}
			if err := ce.CheckTip(env, sel); err != nil {
				t.Fatalf("%v\n%s", err, desc())
			}
			tip := sel.Tip
			if lastTip != nil && !lastTip.IsAncestorOf(tip) {
				flips++
			}
			lastTip = tip
			wantVer := uint32(0x20000000)
			for di := range nd.Deps {
				want := refStateAfter(tip, nd.Deps[di], nd)
				got, err := env.Chain.ThresholdState(uint32(di))
				if err != nil || got != toBtcd(want) {
					t.Fatalf("ThresholdState(%d) with tip node%d (after %d reorganisations) = %v (%v), reference %v\n%s", di, tip.Idx, flips, got, err, want, desc())
				}
				act, err := env.Chain.IsDeploymentActive(uint32(di))
				if err != nil || act != (want == active) {
					t.Fatalf("IsDeploymentActive(%d) with tip node%d (after %d reorganisations) = %v, reference state of the best chain %v\n%s", di, tip.Idx, flips, act, want, desc())
				}
				if want == started || want == lockedIn {
					wantVer |= 1 << nd.Deps[di].Bit
				}
			}
			v, err := env.Chain.CalcNextBlockVersion()
			if err != nil || uint32(v) != wantVer {
				t.Fatalf("CalcNextBlockVersion with tip node%d (after %d reorganisations) = %#x (%v), want %#x\n%s", tip.Idx, flips, uint32(v), err, wantVer, desc())
			}
		}
		if flips < 2 {
			t.Fatalf("VERIF-INFRA: expected two reorganisations, saw %d\n%s", flips, desc())
		}
	})
}
