package c10

import (
	"fmt"
	"testing"

	"github.com/btcsuite/btcd/btcutil/v2"
	"github.com/btcsuite/btcd/chainhash/v2"
	"github.com/btcsuite/btcd/mempool"
	"github.com/btcsuite/btcd/mining"
	"github.com/btcsuite/btcd/wire/v2"
	"pgregory.net/rapid"

	ce "verif/internal/chainenv"
	"verif/internal/ev"
	pe "verif/internal/poolenv"
)

// ---------------------------------------------------------------------------
// a block confirms transactions that the pool knows in other roles: as an
// orphan (its parent was never relayed to us), as a rejected submission, or
// not at all, and some of them spend coins that pooled transactions spend too.
// After the block every pooled transaction's inputs must still be unspent.

var recOrphanBlock = ev.New("C10", "block-confirms-orphans-and-conflicts",
	"2-4 confirmed coins; pooled replaceable transactions P_i (with 0-2 pooled children) each spending one coin; a transaction Q that is never submitted; a transaction T spending an output of Q and 1-2 of the coins the P_i spend, "+
		"submitted (allowOrphan) before the block so that it waits in the orphan pool, submitted with allowOrphan=false (rejected) or not submitted at all; a sweep of all outputs of T or a child of one output (orphaned or unknown); then a block with Q and T (and the sweep / optionally the child) is connected through the real chain and the repository's block handler; "+
		"oracle: T's pooled conflicts and their descendants are gone, unrelated pooled transactions stay, T and Q are neither pooled nor orphans, and the whole-pool invariants I1-I5 hold (every pooled input unspent in the chain or created by a pooled transaction; minable in the next block); "+
		"non-trivial = T was in the orphan pool when its block arrived; distinct by (shape, roles)",
	"confirmed-while-orphan", "confirmed-after-rejection", "confirmed-unseen")

func TestBlockConfirmsOrphans(t *testing.T) {
	rapid.Check(t, func(t *rapid.T) {
		pol := mempool.Policy{MaxTxVersion: 2, AcceptNonStd: rapid.Bool().Draw(t, "acceptNonStd"), FreeTxRelayLimit: 15, MaxOrphanTxs: 10, MaxOrphanTxSize: 100000, MaxSigOpCostPerTx: 20000, MinRelayTxFee: 1000}
		nCoins := rapid.IntRange(2, 4).Draw(t, "coins")
		e, err := pe.New(pe.Config{Family: ce.FamFlat, Maturity: 1, Policy: pol, MPol: mining.Policy{BlockMaxWeight: 4000000, BlockMaxSize: 1000000}, Blocks: nCoins + 3})
		if err != nil {
			t.Fatalf("VERIF-INFRA: %v", err)
		}
		defer e.Close()
		w := &world{t: t, e: e, coins: map[wire.OutPoint]pe.Coin{}, admit: map[chainhash.Hash][2]int64{}, events: map[string]bool{}}
		w.registerChainCoins()
		coins := e.ConfirmedCoins(true)
		if len(coins) < nCoins+1 {
			t.Fatalf("VERIF-INFRA: %d confirmed coins, need %d", len(coins), nCoins+1)
		}
		know := func(tx *wire.MsgTx) {
			e.Known[tx.TxHash()] = tx
			e.Order = append(e.Order, tx)
			for _, c := range pe.OutputsOf(tx) {
				w.coins[c.Op] = c
			}
		}
		submit := func(tx *wire.MsgTx, what string) {
			know(tx)
			if acc, err := e.Pool.ProcessTransaction(btcutil.NewTx(tx), false, false, 0); err != nil || len(acc) != 1 {
				t.Fatalf("VERIF-INFRA: %s not admitted: %v", what, err)
			}
		}
		one := func(c pe.Coin, seq uint32, fee int64, key int) *wire.MsgTx {
			return pe.BuildTx(2, []pe.Coin{c}, []uint32{seq}, []*wire.TxOut{{Value: c.Value - fee, PkScript: pe.P2PKH(key % 3)}}, 0)
		}
		// pooled P_i with children
		family := map[int][]chainhash.Hash{}
		for i := 0; i < nCoins; i++ {
			p := one(coins[i], 0xfffffffd, 5000, i)
			submit(p, fmt.Sprintf("P%d", i))
			family[i] = append(family[i], p.TxHash())
			prev := p
			for k := 0; k < rapid.IntRange(0, 2).Draw(t, "children"); k++ {
				ch := one(pe.OutputsOf(prev)[0], 0xffffffff, 4000, i+k)
				submit(ch, fmt.Sprintf("child of P%d", i))
				family[i] = append(family[i], ch.TxHash())
				prev = ch
			}
		}
		// Q: never submitted
		q := one(coins[nCoins], 0xffffffff, 6000, 1)
		know(q)
		// T: an output of Q plus coins of P_0.. (conflicts)
		nConf := rapid.IntRange(1, min(2, nCoins-1)).Draw(t, "conflicts")
		tin := []pe.Coin{pe.OutputsOf(q)[0]}
		tseq := []uint32{0xffffffff}
		var tval int64 = tin[0].Value
		for i := 0; i < nConf; i++ {
			tin = append(tin, coins[i])
			tseq = append(tseq, 0xffffffff)
			tval += coins[i].Value
		}
		// fee high enough that T would also be a legitimate replacement
		tt := pe.BuildTx(2, tin, tseq, []*wire.TxOut{{Value: tval - 200000, PkScript: pe.P2PKH(2)}, {Value: 50000, PkScript: pe.P2PKH(0)}}, 0)
		know(tt)
		role := rapid.SampledFrom([]string{"confirmed-while-orphan", "confirmed-while-orphan", "confirmed-after-rejection", "confirmed-unseen"}).Draw(t, "role")
		switch role {
		case "confirmed-while-orphan":
			acc, err := e.Pool.ProcessTransaction(btcutil.NewTx(tt), true, false, mempool.Tag(1))
			h := tt.TxHash()
			if err != nil || len(acc) != 0 || !e.Pool.IsOrphanInPool(&h) {
				t.Fatalf("VERIF-INFRA: T did not become an orphan: accepted=%d err=%v", len(acc), err)
			}
		case "confirmed-after-rejection":
			if _, err := e.Pool.ProcessTransaction(btcutil.NewTx(tt), false, false, 0); err == nil {
				t.Fatalf("VERIF-INFRA: T with an unknown parent was accepted with allowOrphan=false")
			}
		}
		// transactions that depend on T: a sweep of ALL of T's outputs that is confirmed in the same block (T's outputs are
		// then already spent when the pool hears about T), or a child of one output, known to the pool as an orphan or not at all
		blockTxs := []*wire.MsgTx{q, tt}
		sweep := "none"
		switch rapid.IntRange(0, 3).Draw(t, "dependants") {
		case 0, 1:
			to := pe.OutputsOf(tt)
			var v int64
			seqs := make([]uint32, len(to))
			for i, c := range to {
				v += c.Value
				seqs[i] = 0xffffffff
			}
			g := pe.BuildTx(2, to, seqs, []*wire.TxOut{{Value: v - 3000, PkScript: pe.P2PKH(1)}}, 0)
			know(g)
			if rapid.Bool().Draw(t, "sweepOrphaned") {
				_, _ = e.Pool.ProcessTransaction(btcutil.NewTx(g), true, false, mempool.Tag(2))
			}
			blockTxs = append(blockTxs, g)
			sweep = "all outputs of T spent in the block"
		case 2:
			g := one(pe.OutputsOf(tt)[0], 0xffffffff, 3000, 0)
			know(g)
			if rapid.Bool().Draw(t, "grandchildOrphaned") {
				_, _ = e.Pool.ProcessTransaction(btcutil.NewTx(g), true, false, mempool.Tag(2))
			}
			if rapid.Bool().Draw(t, "grandchildInBlock") {
				blockTxs = append(blockTxs, g)
			}
			sweep = "one output of T has a child"
		}
		desc := fmt.Sprintf("%d coins, T conflicts with P0..P%d, role %s, block of %d transactions, dependants: %s", nCoins, nConf-1, role, len(blockTxs), sweep)
		recOrphanBlock.Case(role == "confirmed-while-orphan", role, ev.HashS(fmt.Sprint(desc, family)), func() any { return desc })
		w.checkInvariants("before the block: " + desc)

		n := e.Tree.Extend(e.Tip(), ce.BlockOpt{Txs: blockTxs, PayScript: pe.P2PKH(0)})
		if !n.ChainValid {
			t.Fatalf("VERIF-INFRA: block invalid by model (%s)", n.Rule)
		}
		if err := e.Deliver(n); err != nil {
			t.Fatalf("VERIF-INFRA: %v", err)
		}
		w.registerChainCoins()
		after := map[chainhash.Hash]bool{}
		for _, d := range e.PoolTxs() {
			after[*d.Tx.Hash()] = true
		}
		for i := 0; i < nCoins; i++ {
			for _, h := range family[i] {
				if i < nConf && after[h] {
					t.Fatalf("pooled transaction %s (family of P%d) spends a coin that the connected block's transaction T spent, and is still pooled (%s)", short(h), i, desc)
				}
				if i >= nConf && !after[h] {
					t.Fatalf("pooled transaction %s (family of P%d), unrelated to the connected block, left the pool (%s)", short(h), i, desc)
				}
			}
		}
		for _, tx := range blockTxs {
			h := tx.TxHash()
			if after[h] || e.Pool.IsOrphanInPool(&h) {
				t.Fatalf("transaction %s was confirmed by the connected block and is still pooled=%v / orphan=%v (%s)", short(h), after[h], e.Pool.IsOrphanInPool(&h), desc)
			}
		}
		w.checkInvariants("after the block: " + desc)
	})
}

// ---------------------------------------------------------------------------
// a disconnected block hands its transactions back to the pool; one of them is
// not acceptable under the pool's policy (the miner did not share it), its child
// from the same block is then without parent, and a pooled transaction spends
// an output of that child.

var recReorgDependants = ev.New("C10", "disconnect-leaves-dependants",
	"a block mined outside the pool holds A (version above MaxTxVersion, a dust output, or a bare-multisig-free non-standard output script: not acceptable to a pool with AcceptNonStd=false) and B spending A; "+
		"after the block is connected a pooled transaction C spends an output of B (optionally with a pooled child D), an unrelated transaction U is pooled; the chain then reorganises 1-2 blocks deep to an empty branch; "+
		"oracle: the whole-pool invariants I1-I5, in particular every pooled input is unspent in the new chain or created by a pooled transaction; U stays pooled; "+
		"non-trivial = every case (A is refused on its way back); distinct by (variant, shape)",
	"version-above-policy", "dust-output", "nonstandard-script")

func TestDisconnectLeavesDependants(t *testing.T) {
	rapid.Check(t, func(t *rapid.T) {
		pol := mempool.Policy{MaxTxVersion: 2, AcceptNonStd: false, FreeTxRelayLimit: 15, MaxOrphanTxs: 10, MaxOrphanTxSize: 100000, MaxSigOpCostPerTx: 20000, MinRelayTxFee: 1000}
		e, err := pe.New(pe.Config{Family: ce.FamFlat, Maturity: 1, Policy: pol, MPol: mining.Policy{BlockMaxWeight: 4000000, BlockMaxSize: 1000000}, Blocks: 6})
		if err != nil {
			t.Fatalf("VERIF-INFRA: %v", err)
		}
		defer e.Close()
		w := &world{t: t, e: e, coins: map[wire.OutPoint]pe.Coin{}, admit: map[chainhash.Hash][2]int64{}, events: map[string]bool{}}
		w.registerChainCoins()
		coins := e.ConfirmedCoins(true)
		if len(coins) < 2 {
			t.Fatalf("VERIF-INFRA: %d confirmed coins", len(coins))
		}
		know := func(tx *wire.MsgTx) {
			e.Known[tx.TxHash()] = tx
			e.Order = append(e.Order, tx)
			for _, c := range pe.OutputsOf(tx) {
				w.coins[c.Op] = c
			}
		}
		submit := func(tx *wire.MsgTx, what string) {
			know(tx)
			if acc, err := e.Pool.ProcessTransaction(btcutil.NewTx(tx), false, false, 0); err != nil || len(acc) != 1 {
				t.Fatalf("VERIF-INFRA: %s not admitted: %v", what, err)
			}
		}
		variant := rapid.SampledFrom([]string{"version-above-policy", "dust-output", "nonstandard-script"}).Draw(t, "variant")
		c0 := coins[0]
		version := int32(2)
		outs := []*wire.TxOut{{Value: c0.Value - 10000, PkScript: pe.P2PKH(0)}}
		switch variant {
		case "version-above-policy":
			version = 3
		case "dust-output":
			outs[0].Value -= 1
			outs = append(outs, &wire.TxOut{Value: 1, PkScript: pe.P2PKH(1)})
		case "nonstandard-script":
			outs[0].Value -= 5000
			outs = append(outs, &wire.TxOut{Value: 5000, PkScript: []byte{0x52, 0x53, 0x93, 0x55, 0x87}}) // 2 3 ADD 5 EQUAL
		}
		a := pe.BuildTx(version, []pe.Coin{c0}, []uint32{0xffffffff}, outs, 0)
		know(a)
		if _, err := e.Pool.ProcessTransaction(btcutil.NewTx(a), false, false, 0); err == nil {
			t.Fatalf("VERIF-INFRA: A (%s) is acceptable to the pool", variant)
		}
		ao := pe.OutputsOf(a)[0]
		b := pe.BuildTx(2, []pe.Coin{ao}, []uint32{0xffffffff}, []*wire.TxOut{{Value: ao.Value/2 - 5000, PkScript: pe.P2PKH(1)}, {Value: ao.Value / 2, PkScript: pe.P2WPKH(2)}}, 0)
		know(b)
		before := e.Tip()
		extraBefore := rapid.IntRange(0, 1).Draw(t, "emptyBlocksBefore")
		n := e.Tree.Extend(e.Tip(), ce.BlockOpt{Txs: []*wire.MsgTx{a, b}, PayScript: pe.P2PKH(0)})
		if !n.ChainValid {
			t.Fatalf("VERIF-INFRA: block invalid by model (%s)", n.Rule)
		}
		if err := e.Deliver(n); err != nil {
			t.Fatalf("VERIF-INFRA: %v", err)
		}
		for i := 0; i < extraBefore; i++ {
			if _, err := e.Mine(nil, 1); err != nil {
				t.Fatalf("VERIF-INFRA: %v", err)
			}
		}
		w.registerChainCoins()
		bo := pe.OutputsOf(b)
		which := rapid.IntRange(0, len(bo)-1).Draw(t, "outputOfB")
		c := pe.BuildTx(2, []pe.Coin{bo[which]}, []uint32{0xffffffff}, []*wire.TxOut{{Value: bo[which].Value - 4000, PkScript: pe.P2PKH(2)}}, 0)
		submit(c, "C")
		withChild := rapid.Bool().Draw(t, "childOfC")
		if withChild {
			co := pe.OutputsOf(c)[0]
			d := pe.BuildTx(2, []pe.Coin{co}, []uint32{0xffffffff}, []*wire.TxOut{{Value: co.Value - 4000, PkScript: pe.P2PKH(0)}}, 0)
			submit(d, "D")
		}
		u := pe.BuildTx(2, []pe.Coin{coins[1]}, []uint32{0xffffffff}, []*wire.TxOut{{Value: coins[1].Value - 7000, PkScript: pe.P2PKH(1)}}, 0)
		submit(u, "U")
		desc := fmt.Sprintf("variant %s, %d empty blocks on top, C spends output %d of B, child of C: %v", variant, extraBefore, which, withChild)
		recReorgDependants.Case(true, variant, ev.HashS(desc), func() any { return desc })
		w.checkInvariants("before the reorganisation: " + desc)
		// reorganise to an empty branch from the block below A's block
		cur := before
		for i := 0; i <= extraBefore+1; i++ {
			cur = e.Tree.Extend(cur, ce.BlockOpt{PayScript: pe.P2PKH(i % 3), TimeDelta: 2})
			if err := e.Deliver(cur); err != nil {
				t.Fatalf("VERIF-INFRA: %v", err)
			}
		}
		if e.Tip() != cur {
			t.Fatalf("VERIF-INFRA: the reorganisation did not happen")
		}
		w.registerChainCoins()
		uh := u.TxHash()
		if !e.Pool.IsTransactionInPool(&uh) {
			t.Fatalf("the unrelated pooled transaction U left the pool during the reorganisation (%s)", desc)
		}
		w.checkInvariants("after the reorganisation: " + desc)
	})
}
