// Package c10 decides property C10: the mempool is always a conflict-free,
// minable, self-consistent set.
package c10

import (
	"fmt"
	"os"
	"sort"
	"strings"
	"testing"

	"github.com/btcsuite/btcd/btcutil/v2"
	"github.com/btcsuite/btcd/chainhash/v2"
	"github.com/btcsuite/btcd/mempool"
	"github.com/btcsuite/btcd/mining"
	"github.com/btcsuite/btcd/wire/v2"
	"pgregory.net/rapid"

	ce "verif/internal/chainenv"
	"verif/internal/ev"
	pe "verif/internal/poolenv"
	"verif/internal/scratch"
)

func TestMain(m *testing.M) {
	code := m.Run()
	scratch.Sweep()
	ev.Flush()
	os.Exit(code)
}

var recPool = ev.New("C10", "pool-invariants",
	"real chain + real TxPool wired like server.go + the repository's own netsync block-notification handler; histories of 10-60 generated actions: ProcessTransaction / MaybeAcceptTransaction / CheckMempoolAcceptance / RemoveTransaction(+-redeemers) / RemoveDoubleSpends / ProcessOrphans / RemoveOrphan(sByTag) / mine a block (pool subset, conflicting, unrelated, a known unpooled transaction such as an orphan with its ancestors) / reorganise; "+
		"transactions from a graph generator (inputs drawn from: confirmed coins, coins already spent by a pooled tx (conflict), outputs of pooled txs (chains/fans), outputs of not-yet-submitted txs (orphans), immature coinbases, coins spent in the chain; P2PKH / P2WPKH / anyone-can-spend / OP_RETURN outputs; explicit and inherited RBF signalling; fees at the relay and replacement boundaries; lock times and relative locks); "+
		"policies: AcceptNonStd, RejectReplacement, MaxOrphanTxs in {0,3,100}, MaxOrphanTxSize, MinRelayTxFee, DisableRelayPriority, MaxTxVersion; "+
		"oracle after every step from public observers only: I1 no outpoint spent twice, I2 every input unspent in the chain or created by a pooled tx, I3 CheckSpend == pooled spender for every outpoint of the universe, I4 all pool views agree, "+
		"I5 pool in dependency order + coinbase passes CheckConnectBlockTemplate while height/median time have not moved backwards since admission, I6 rejected submissions and dry runs leave pool and orphans unchanged, "+
		"I7 accepted replacement evicts exactly conflicts+descendants (<=100), pays >= their fees + relay fee at a strictly higher fee rate than each, all evicted signalled, I8 orphan bounds; "+
		"non-trivial = history has an accepted replacement, a rejected replacement, an orphan promotion, a block connect removing pooled txs or conflicts, or a disconnect re-admitting txs; distinct by history hash",
	"replacement-accepted", "replacement-rejected", "orphan-promoted", "block-removed-pooled", "block-removed-conflict", "block-confirmed-orphan", "reorg-readmitted", "plain")

type world struct {
	t      *rapid.T
	e      *pe.Env
	coins  map[wire.OutPoint]pe.Coin // every coin ever known (chain + generated txs)
	admit  map[chainhash.Hash][2]int64
	hist   []string
	events map[string]bool
	tags   int
}

func (w *world) log(format string, a ...any) { w.hist = append(w.hist, fmt.Sprintf(format, a...)) }
func (w *world) fail(format string, a ...any) {
	w.t.Fatalf(format+"\npolicy: %+v\nhistory:\n  %s", append(a, w.e.Policy, strings.Join(w.hist, "\n  "))...)
}

// registerChainCoins records the coins of the current tip.
func (w *world) registerChainCoins() {
	for _, c := range w.e.ConfirmedCoins(false) {
		w.coins[c.Op] = c
	}
}

func (w *world) poolSet() map[chainhash.Hash]*mempool.TxDesc {
	m := map[chainhash.Hash]*mempool.TxDesc{}
	for _, d := range w.e.Pool.TxDescs() {
		m[*d.Tx.Hash()] = d
	}
	return m
}

func (w *world) fee(tx *wire.MsgTx) (int64, bool) {
	var in, out int64
	for _, ti := range tx.TxIn {
		c, ok := w.coins[ti.PreviousOutPoint]
		if !ok {
			return 0, false
		}
		in += c.Value
	}
	for _, o := range tx.TxOut {
		out += o.Value
	}
	return in - out, true
}

func signals(tx *wire.MsgTx) bool {
	for _, ti := range tx.TxIn {
		if ti.Sequence <= 0xfffffffd {
			return true
		}
	}
	return false
}

// genTx draws a transaction.
func (w *world) genTx() *wire.MsgTx {
	t := w.t
	pool := w.poolSet()
	spentByPool := map[wire.OutPoint]bool{}
	for _, d := range pool {
		for _, ti := range d.Tx.MsgTx().TxIn {
			spentByPool[ti.PreviousOutPoint] = true
		}
	}
	tipUtxo := w.e.Tip().Utxo
	var free, conflicted, poolOuts, poolOutsSpent, unknownOuts, immature, stale []pe.Coin
	for _, c := range w.e.ConfirmedCoins(false) {
		cc := tipUtxo[c.Op]
		switch {
		case cc.Coinbase && w.e.Tip().Height+1-cc.Height < int32(w.e.Params.CoinbaseMaturity):
			immature = append(immature, c)
		case spentByPool[c.Op]:
			conflicted = append(conflicted, c)
		default:
			free = append(free, c)
		}
	}
	for _, tx := range w.e.Order {
		h := tx.TxHash()
		_, pooled := pool[h]
		for _, c := range pe.OutputsOf(tx) {
			_, confirmed := tipUtxo[c.Op]
			switch {
			case confirmed:
				// already in free/conflicted through the chain
			case pooled && spentByPool[c.Op]:
				poolOutsSpent = append(poolOutsSpent, c)
			case pooled:
				poolOuts = append(poolOuts, c)
			default:
				if _, ok := w.coins[c.Op]; ok {
					// not pooled, not confirmed: unknown parent (orphan-maker) or spent in chain
					unknownOuts = append(unknownOuts, c)
				}
			}
		}
	}
	for op, c := range w.coins {
		if _, ok := tipUtxo[op]; !ok {
			if _, isTxOut := w.e.Known[op.Hash]; !isTxOut {
				stale = append(stale, c) // chain coin that has been spent in the chain
			}
		}
	}
	sort.Slice(stale, func(i, j int) bool { return stale[i].Op.String() < stale[j].Op.String() })
	classes := [][]pe.Coin{free, free, free, conflicted, conflicted, poolOuts, poolOuts, poolOutsSpent, unknownOuts, immature, stale}
	nin := rapid.IntRange(1, 3).Draw(t, "nin")
	var ins []pe.Coin
	used := map[wire.OutPoint]bool{}
	for len(ins) < nin {
		cl := classes[pe.Uniform(t, len(classes), "inputClass")]
		if len(cl) == 0 {
			cl = free
			if len(cl) == 0 {
				break
			}
		}
		c := cl[pe.Uniform(t, len(cl), "coin")]
		if used[c.Op] {
			break
		}
		used[c.Op] = true
		ins = append(ins, c)
	}
	if len(ins) == 0 {
		return nil
	}
	var total int64
	for _, c := range ins {
		total += c.Value
	}
	seqs := make([]uint32, len(ins))
	// consensus reads the version as unsigned when deciding whether relative locks apply
	// (negative versions are >= 2); policies that accept non-standard transactions let them in
	version := int32(rapid.SampledFrom([]int32{1, 2, 2, 3, 2, 1, -1, -2147483648, 2147483647, 0}).Draw(t, "version"))
	for i := range seqs {
		seqs[i] = rapid.SampledFrom([]uint32{0xffffffff, 0xffffffff, 0xfffffffe, 0xfffffffd, 0xfffffffd, 0, 1, 5, 1 << 22, 1<<22 | 1, 1<<31 | 7}).Draw(t, "sequence")
	}
	lockTime := rapid.SampledFrom([]uint32{0, 0, 0, uint32(w.e.Tip().Height), uint32(w.e.Tip().Height + 1), uint32(w.e.Tip().Height + 50), uint32(w.e.Tip().MTP()), uint32(w.e.Tip().MTP() + 1000)}).Draw(t, "lockTime")
	nout := rapid.IntRange(1, 3).Draw(t, "nout")
	mk := func(fee int64) *wire.MsgTx {
		rest := total - fee
		if rest < 0 {
			rest = 0
		}
		var outs []*wire.TxOut
		for j := 0; j < nout; j++ {
			v := rest / int64(nout-j)
			rest -= v
			var script []byte
			switch (int(ins[0].Op.Index) + j + len(w.e.Order)) % 7 {
			case 0:
				script = ce.OpTrue
			case 1:
				script = pe.P2WPKH(j % 3)
			case 2:
				if j > 0 {
					script, v, rest = []byte{0x6a, 0x02, 0xbe, 0xef}, 0, rest+v
				} else {
					script = pe.P2PKH(1)
				}
			default:
				script = pe.P2PKH((j + len(w.e.Order)) % 3)
			}
			outs = append(outs, &wire.TxOut{Value: v, PkScript: script})
		}
		if rest > 0 {
			outs[0].Value += rest
		}
		return pe.BuildTx(version, ins, seqs, outs, lockTime)
	}
	// fee selection: boundaries of the relay fee and (if conflicting) of the replacement rules
	probe := mk(1000)
	vsize := pe.VSize(probe)
	minFee := pe.MinRelayFee(vsize, int64(w.e.Policy.MinRelayTxFee))
	fees := []int64{0, minFee - 1, minFee, minFee + 1, 10 * minFee, 50000}
	// conflicts in the current pool
	var conflictFees, maxRate int64
	seen := map[chainhash.Hash]bool{}
	var walk func(h chainhash.Hash)
	walk = func(h chainhash.Hash) {
		if seen[h] {
			return
		}
		seen[h] = true
		d := pool[h]
		conflictFees += d.Fee
		if d.FeePerKB > maxRate {
			maxRate = d.FeePerKB
		}
		for _, o := range pool {
			for _, ti := range o.Tx.MsgTx().TxIn {
				if ti.PreviousOutPoint.Hash == h {
					walk(*o.Tx.Hash())
				}
			}
		}
	}
	for _, d := range pool {
		for _, ti := range d.Tx.MsgTx().TxIn {
			if used[ti.PreviousOutPoint] {
				walk(*d.Tx.Hash())
			}
		}
	}
	if len(seen) > 0 {
		need := conflictFees + minFee
		rateFee := maxRate*vsize/1000 + 1
		fees = append(fees, need-1, need, need+1, rateFee-1, rateFee, rateFee+1, need+rateFee, need, need+1, need+rateFee)
	}
	fee := fees[pe.Uniform(t, len(fees), "fee")]
	if fee < 0 {
		fee = 0
	}
	if fee > total {
		fee = total
	}
	tx := mk(fee)
	h := tx.TxHash()
	if _, dup := w.e.Known[h]; dup {
		return w.e.Known[h]
	}
	w.e.Known[h] = tx
	w.e.Order = append(w.e.Order, tx)
	for _, c := range pe.OutputsOf(tx) {
		w.coins[c.Op] = c
	}
	return tx
}

type snapshot struct {
	pool    map[chainhash.Hash]bool
	orphans map[chainhash.Hash]bool
}

func (w *world) snap() snapshot {
	s := snapshot{map[chainhash.Hash]bool{}, map[chainhash.Hash]bool{}}
	for _, h := range w.e.Pool.TxHashes() {
		s.pool[*h] = true
	}
	for h := range w.e.Known {
		hh := h
		if w.e.Pool.IsOrphanInPool(&hh) {
			s.orphans[h] = true
		}
	}
	return s
}

func sameSet(a, b map[chainhash.Hash]bool) bool {
	if len(a) != len(b) {
		return false
	}
	for k := range a {
		if !b[k] {
			return false
		}
	}
	return true
}

func short(h chainhash.Hash) string { return h.String()[:8] }

// checkInvariants runs I1-I5 and I8.
func (w *world) checkInvariants(step string) {
	e := w.e
	descs := e.PoolTxs()
	pool := map[chainhash.Hash]*mempool.TxDesc{}
	for _, d := range descs {
		pool[*d.Tx.Hash()] = d
	}
	// I4 views agree
	if n := e.Pool.Count(); n != len(descs) || len(e.Pool.TxHashes()) != n || len(e.Pool.MiningDescs()) != n || len(e.Pool.RawMempoolVerbose()) != n {
		w.fail("%s: I4 pool views disagree: Count=%d TxDescs=%d TxHashes=%d MiningDescs=%d RawMempoolVerbose=%d", step, n, len(descs), len(e.Pool.TxHashes()), len(e.Pool.MiningDescs()), len(e.Pool.RawMempoolVerbose()))
	}
	raw := e.Pool.RawMempoolVerbose()
	for h := range pool {
		if _, ok := raw[h.String()]; !ok {
			w.fail("%s: I4 RawMempoolVerbose misses pooled tx %s", step, short(h))
		}
	}
	orphans := 0
	for h, tx := range e.Known {
		hh := h
		_, in := pool[h]
		if e.Pool.IsTransactionInPool(&hh) != in {
			w.fail("%s: I4 IsTransactionInPool(%s) disagrees with TxDescs (%v)", step, short(h), in)
		}
		ft, err := e.Pool.FetchTransaction(&hh)
		if (err == nil) != in || in && *ft.Hash() != h {
			w.fail("%s: I4 FetchTransaction(%s) disagrees with TxDescs (%v)", step, short(h), in)
		}
		orph := e.Pool.IsOrphanInPool(&hh)
		if orph {
			orphans++
			if in {
				w.fail("%s: I8 tx %s is both pooled and an orphan", step, short(h))
			}
			if sz := tx.SerializeSize(); sz > e.Policy.MaxOrphanTxSize {
				w.fail("%s: I8 orphan %s has %d bytes, limit %d", step, short(h), sz, e.Policy.MaxOrphanTxSize)
			}
		}
		if e.Pool.HaveTransaction(&hh) != (in || orph) {
			w.fail("%s: I4 HaveTransaction(%s) != pooled||orphan", step, short(h))
		}
	}
	if orphans > e.Policy.MaxOrphanTxs {
		w.fail("%s: I8 %d orphans stored, MaxOrphanTxs=%d", step, orphans, e.Policy.MaxOrphanTxs)
	}
	// I1 + I3
	spender := map[wire.OutPoint]chainhash.Hash{}
	for h, d := range pool {
		for _, ti := range d.Tx.MsgTx().TxIn {
			if other, dup := spender[ti.PreviousOutPoint]; dup {
				w.fail("%s: I1 outpoint %v is spent by two pooled transactions %s and %s", step, ti.PreviousOutPoint, short(other), short(h))
			}
			spender[ti.PreviousOutPoint] = h
		}
	}
	for op := range w.coins {
		got := e.Pool.CheckSpend(op)
		want, spent := spender[op]
		if spent != (got != nil) || spent && *got.Hash() != want {
			w.fail("%s: I3 CheckSpend(%v) = %v, pooled spender: %v (%s)", step, op, got != nil, spent, short(want))
		}
	}
	// I2
	for h, d := range pool {
		for _, ti := range d.Tx.MsgTx().TxIn {
			if _, ok := pool[ti.PreviousOutPoint.Hash]; ok {
				if int(ti.PreviousOutPoint.Index) >= len(pool[ti.PreviousOutPoint.Hash].Tx.MsgTx().TxOut) {
					w.fail("%s: I2 pooled tx %s spends a non-existent output %v", step, short(h), ti.PreviousOutPoint)
				}
				continue
			}
			entry, err := e.Chain.FetchUtxoEntry(ti.PreviousOutPoint)
			if err != nil || entry == nil || entry.IsSpent() {
				w.fail("%s: I2 pooled tx %s spends %v which is neither unspent in the chain nor created by a pooled transaction", step, short(h), ti.PreviousOutPoint)
			}
			if _, ok := e.Tip().Utxo[ti.PreviousOutPoint]; !ok {
				w.fail("%s: VERIF-INFRA chain/model utxo disagreement on %v", step, ti.PreviousOutPoint)
			}
		}
	}
	// admission bookkeeping for I5
	tip := e.Tip()
	for h := range pool {
		if _, ok := w.admit[h]; !ok {
			w.admit[h] = [2]int64{int64(tip.Height), tip.MTP()}
		}
	}
	for h := range w.admit {
		if _, ok := pool[h]; !ok {
			delete(w.admit, h)
		}
	}
	pre := true
	for _, a := range w.admit {
		if int64(tip.Height) < a[0] || tip.MTP() < a[1] {
			pre = false
		}
	}
	if pre && len(descs) > 0 {
		txs := pe.TopoOrder(descs)
		cand := e.Tree.Extend(tip, ce.BlockOpt{Txs: txs, PayScript: pe.P2PKH(0)})
		err := e.Chain.CheckConnectBlockTemplate(cand.Block())
		if err != nil {
			nonFinal := strings.Contains(err.Error(), "unfinalized")
			if nonFinal && e.Policy.AcceptNonStd && recPool.Known("nonstd-policy-admits-non-final-tx", fmt.Sprintf("%s: %v", step, err)) {
				recPool.Excluded()
				w.events["known-nonfinal"] = true
				return
			}
			detail := ""
			for _, tx := range txs {
				detail += fmt.Sprintf("\n          pooled %s v%d locktime %d admitted at height/mtp %v:", short(tx.TxHash()), tx.Version, tx.LockTime, w.admit[tx.TxHash()])
				for _, ti := range tx.TxIn {
					if c, ok := tip.Utxo[ti.PreviousOutPoint]; ok {
						detail += fmt.Sprintf(" [%s:%d seq %#x confirmed at %d]", short(ti.PreviousOutPoint.Hash), ti.PreviousOutPoint.Index, ti.Sequence, c.Height)
					} else {
						detail += fmt.Sprintf(" [%s:%d seq %#x unconfirmed]", short(ti.PreviousOutPoint.Hash), ti.PreviousOutPoint.Index, ti.Sequence)
					}
				}
			}
			w.fail("%s: I5 the pooled set (%d txs, dependency order) plus a coinbase is not a valid next block (tip height %d, mtp %d): %v (model says chain-valid=%v)%s", step, len(txs), tip.Height, tip.MTP(), err, cand.ChainValid, detail)
		}
		if !cand.ChainValid {
			w.fail("%s: VERIF-INFRA model rejects the pooled set that btcd accepts (%s)", step, cand.Rule)
		}
		recPool.Count("minable-checked", 1)
	} else if len(descs) > 0 {
		recPool.Count("minable-skipped-moved-backwards", 1)
	}
}

const sigReorgLock = "reorg-keeps-tx-whose-relative-lock-lost-its-confirmed-coin"

func genPolicy(t *rapid.T) mempool.Policy {
	return mempool.Policy{
		MaxTxVersion:         rapid.SampledFrom([]int32{2, 2, 1, 3}).Draw(t, "maxTxVersion"),
		DisableRelayPriority: rapid.Bool().Draw(t, "disableRelayPriority"),
		AcceptNonStd:         rapid.Bool().Draw(t, "acceptNonStd"),
		FreeTxRelayLimit:     rapid.SampledFrom([]float64{15, 0, 0.001}).Draw(t, "freeTxRelayLimit"),
		MaxOrphanTxs:         rapid.SampledFrom([]int{0, 3, 100}).Draw(t, "maxOrphanTxs"),
		MaxOrphanTxSize:      rapid.SampledFrom([]int{100000, 250, 400}).Draw(t, "maxOrphanTxSize"),
		MaxSigOpCostPerTx:    rapid.SampledFrom([]int{20000, 4, 8}).Draw(t, "maxSigOpCostPerTx"),
		MinRelayTxFee:        btcutil.Amount(rapid.SampledFrom([]int64{1000, 1000, 0, 5000}).Draw(t, "minRelayTxFee")),
		RejectReplacement:    rapid.IntRange(0, 4).Draw(t, "rejectReplacement") == 0,
	}
}

func TestPoolInvariants(t *testing.T) {
	rapid.Check(t, func(t *rapid.T) {
		pol := genPolicy(t)
		mat := rapid.SampledFrom([]uint16{1, 2, 3}).Draw(t, "maturity")
		e, err := pe.New(pe.Config{Family: ce.FamFlat, Maturity: mat, Policy: pol, MPol: mining.Policy{BlockMaxWeight: 4000000, BlockMaxSize: 1000000}, Blocks: int(mat) + rapid.IntRange(3, 6).Draw(t, "initialBlocks")})
		if err != nil {
			t.Fatalf("VERIF-INFRA: %v", err)
		}
		defer e.Close()
		w := &world{t: t, e: e, coins: map[wire.OutPoint]pe.Coin{}, admit: map[chainhash.Hash][2]int64{}, events: map[string]bool{}}
		w.registerChainCoins()
		steps := rapid.IntRange(10, ev.Scale(40, 60)).Draw(t, "steps")
		for s := 0; s < steps; s++ {
			w.step(s)
			if w.events["known-nonfinal"] {
				break // the known finding leaves an unminable pool: stop this history
			}
		}
		cl := "plain"
		for _, k := range []string{"replacement-accepted", "replacement-rejected", "orphan-promoted", "block-removed-conflict", "block-removed-pooled", "block-confirmed-orphan", "reorg-readmitted"} {
			if w.events[k] {
				if cl == "plain" {
					cl = k
				} else {
					recPool.Count(k, 1)
				}
			}
		}
		recPool.Case(cl != "plain", cl, ev.HashS(strings.Join(w.hist, "|")), func() any {
			return map[string]any{"policy": fmt.Sprintf("%+v", pol), "history": w.hist}
		})
	})
}

func (w *world) step(s int) {
	t, e := w.t, w.e
	kind := rapid.SampledFrom([]string{"process", "process", "process", "process", "orphanpair", "maybe", "dryrun", "remove", "removeds", "orphans", "rmorphan", "mine", "mine", "reorg", "resubmit"}).Draw(t, "action")
	before := w.snap()
	beforeDescs := w.poolSet()
	name := fmt.Sprintf("step %d %s", s, kind)
	switch kind {
	case "process", "maybe", "dryrun", "resubmit":
		var tx *wire.MsgTx
		if kind == "resubmit" && len(e.Order) > 0 {
			tx = e.Order[pe.Uniform(t, len(e.Order), "known")]
		} else {
			tx = w.genTx()
		}
		if tx == nil {
			return
		}
		h := tx.TxHash()
		fee, feeKnown := w.fee(tx)
		btx := btcutil.NewTx(tx)
		var err error
		accepted := false
		switch kind {
		case "dryrun":
			_, err = e.Pool.CheckMempoolAcceptance(btx)
			w.log("%s: CheckMempoolAcceptance(%s fee=%d) -> %v", name, short(h), fee, err)
			after := w.snap()
			if !sameSet(before.pool, after.pool) || !sameSet(before.orphans, after.orphans) {
				w.fail("%s: I6 CheckMempoolAcceptance changed the pool or the orphan set", name)
			}
		case "maybe":
			isNew, rl := rapid.Bool().Draw(t, "isNew"), rapid.IntRange(0, 3).Draw(t, "rateLimit") == 0
			var missing []*chainhash.Hash
			var txD *mempool.TxDesc
			missing, txD, err = e.Pool.MaybeAcceptTransaction(btx, isNew, rl)
			accepted = txD != nil
			w.log("%s: MaybeAcceptTransaction(%s fee=%d isNew=%v rateLimit=%v) -> accepted=%v missing=%d err=%v", name, short(h), fee, isNew, rl, accepted, len(missing), err)
		default:
			allowOrphan, rl := rapid.IntRange(0, 3).Draw(t, "allowOrphan") > 0, rapid.IntRange(0, 3).Draw(t, "rateLimit") == 0
			w.tags++
			var acc []*mempool.TxDesc
			acc, err = e.Pool.ProcessTransaction(btx, allowOrphan, rl, mempool.Tag(w.tags%3))
			accepted = len(acc) > 0
			if len(acc) > 1 {
				w.events["orphan-promoted"] = true
			}
			w.log("%s: ProcessTransaction(%s fee=%d allowOrphan=%v rateLimit=%v) -> accepted=%d err=%v", name, short(h), fee, allowOrphan, rl, len(acc), err)
		}
		after := w.snap()
		if err != nil && kind != "dryrun" {
			if !sameSet(before.pool, after.pool) || !sameSet(before.orphans, after.orphans) {
				w.fail("%s: I6 a rejected submission changed the pool or the orphan set", name)
			}
			// was it a replacement attempt?
			for _, d := range beforeDescs {
				for _, ti := range d.Tx.MsgTx().TxIn {
					for _, mi := range tx.TxIn {
						if ti.PreviousOutPoint == mi.PreviousOutPoint && *d.Tx.Hash() != h {
							w.events["replacement-rejected"] = true
						}
					}
				}
			}
		}
		if accepted && after.pool[h] && !before.pool[h] {
			// I7: what was evicted?
			evicted := map[chainhash.Hash]bool{}
			for bh := range before.pool {
				if !after.pool[bh] {
					evicted[bh] = true
				}
			}
			// expected: direct conflicts + descendants in the before graph
			want := map[chainhash.Hash]bool{}
			var walk func(x chainhash.Hash)
			walk = func(x chainhash.Hash) {
				if want[x] {
					return
				}
				want[x] = true
				for oh, o := range beforeDescs {
					for _, ti := range o.Tx.MsgTx().TxIn {
						if ti.PreviousOutPoint.Hash == x {
							walk(oh)
						}
					}
				}
			}
			for bh, d := range beforeDescs {
				for _, ti := range d.Tx.MsgTx().TxIn {
					for _, mi := range tx.TxIn {
						if ti.PreviousOutPoint == mi.PreviousOutPoint {
							walk(bh)
						}
					}
				}
			}
			if len(want) > 0 || len(evicted) > 0 {
				if !sameSet(want, evicted) {
					w.fail("%s: I7 accepted replacement %s evicted %d transactions, its conflicts and their descendants are %d", name, short(h), len(evicted), len(want))
				}
				if len(evicted) > 100 {
					w.fail("%s: I7 replacement evicted %d > 100 transactions", name, len(evicted))
				}
				if e.Policy.RejectReplacement {
					w.fail("%s: I7 a replacement was accepted although the policy rejects replacements", name)
				}
				vsize := pe.VSize(tx)
				var sum int64
				for bh := range evicted {
					d := beforeDescs[bh]
					f, ok := w.fee(d.Tx.MsgTx())
					if !ok {
						w.fail("%s: VERIF-INFRA fee of evicted tx unknown", name)
					}
					sum += f
					ev := pe.VSize(d.Tx.MsgTx())
					// strictly higher fee rate than each evicted transaction (satoshi per 1000 vbytes, integer division as the relay rules use)
					if feeKnown && fee*1000/vsize <= f*1000/ev {
						w.fail("%s: I7 replacement fee rate %d/kvB is not higher than evicted %s's %d/kvB", name, fee*1000/vsize, short(bh), f*1000/ev)
					}
					// signalling, explicit or inherited through unconfirmed ancestors in the before graph
					if !w.signalsInherited(d.Tx.MsgTx(), beforeDescs, map[chainhash.Hash]bool{}) {
						// only DIRECT conflicts must signal; descendants go with them
						direct := false
						for _, ti := range d.Tx.MsgTx().TxIn {
							for _, mi := range tx.TxIn {
								if ti.PreviousOutPoint == mi.PreviousOutPoint {
									direct = true
								}
							}
						}
						if direct {
							w.fail("%s: I7 replaced transaction %s did not signal replaceability", name, short(bh))
						}
					}
				}
				need := sum + pe.MinRelayFee(vsize, int64(e.Policy.MinRelayTxFee))
				if feeKnown && fee < need {
					w.fail("%s: I7 replacement pays %d, evicted fees + relay fee for its %d vbytes = %d", name, fee, vsize, need)
				}
				w.events["replacement-accepted"] = true
			}
		}
	case "orphanpair":
		// child first (orphan), then its parent: the orphan must be promoted
		parent := w.genTx()
		if parent == nil {
			return
		}
		outs := pe.OutputsOf(parent)
		if len(outs) == 0 || before.pool[parent.TxHash()] {
			return
		}
		c := outs[0]
		fee := int64(rapid.SampledFrom([]int64{0, 300, 5000}).Draw(t, "childFee"))
		if fee > c.Value {
			fee = 0
		}
		child := pe.BuildTx(1, []pe.Coin{c}, []uint32{0xffffffff}, []*wire.TxOut{{Value: c.Value - fee, PkScript: pe.P2PKH(2)}}, 0)
		ch := child.TxHash()
		if _, dup := e.Known[ch]; !dup {
			e.Known[ch] = child
			e.Order = append(e.Order, child)
			for _, oc := range pe.OutputsOf(child) {
				w.coins[oc.Op] = oc
			}
		}
		w.tags++
		acc1, err1 := e.Pool.ProcessTransaction(btcutil.NewTx(child), true, false, mempool.Tag(w.tags%3))
		w.log("%s: ProcessTransaction(child %s of %s, allowOrphan) -> accepted=%d err=%v", name, short(ch), short(parent.TxHash()), len(acc1), err1)
		w.checkInvariants(name + " (after the orphan child)")
		acc2, err2 := e.Pool.ProcessTransaction(btcutil.NewTx(parent), true, false, 0)
		w.log("%s: ProcessTransaction(parent %s) -> accepted=%d err=%v", name, short(parent.TxHash()), len(acc2), err2)
		if len(acc2) > 1 {
			w.events["orphan-promoted"] = true
		}
	case "remove":
		ds := e.PoolTxs()
		if len(ds) == 0 {
			return
		}
		d := ds[pe.Uniform(t, len(ds), "victim")]
		rr := rapid.Bool().Draw(t, "removeRedeemers")
		e.Pool.RemoveTransaction(d.Tx, rr)
		w.log("%s: RemoveTransaction(%s, redeemers=%v)", name, short(*d.Tx.Hash()), rr)
		if !rr {
			// the property speaks about the calls as the node uses them: the
			// block-connect path removes without redeemers only for confirmed
			// txs. Removing a parent alone leaves children whose inputs are
			// gone - restore consistency the way the RPC/netsync callers do.
			e.Pool.RemoveTransaction(d.Tx, true)
		}
	case "removeds":
		if len(e.Order) == 0 {
			return
		}
		tx := e.Order[pe.Uniform(t, len(e.Order), "known")]
		h := tx.TxHash()
		if before.pool[h] {
			return // callers pass confirmed transactions, never pooled ones
		}
		e.Pool.RemoveDoubleSpends(btcutil.NewTx(tx))
		w.log("%s: RemoveDoubleSpends(%s)", name, short(h))
	case "orphans":
		ds := e.PoolTxs()
		if len(ds) == 0 {
			return
		}
		d := ds[pe.Uniform(t, len(ds), "parent")]
		acc := e.Pool.ProcessOrphans(d.Tx)
		if len(acc) > 0 {
			w.events["orphan-promoted"] = true
		}
		w.log("%s: ProcessOrphans(%s) -> %d", name, short(*d.Tx.Hash()), len(acc))
	case "rmorphan":
		if rapid.Bool().Draw(t, "byTag") {
			n := e.Pool.RemoveOrphansByTag(mempool.Tag(rapid.IntRange(0, 2).Draw(t, "tag")))
			w.log("%s: RemoveOrphansByTag -> %d", name, n)
		} else if len(e.Order) > 0 {
			tx := e.Order[pe.Uniform(t, len(e.Order), "known")]
			e.Pool.RemoveOrphan(btcutil.NewTx(tx))
			w.log("%s: RemoveOrphan(%s)", name, short(tx.TxHash()))
		}
	case "mine":
		var txs []*wire.MsgTx
		desc := ""
		switch rapid.IntRange(0, 3).Draw(t, "blockKind") {
		case 0: // a dependency-closed prefix of the pool
			all := pe.TopoOrder(e.PoolTxs())
			k := rapid.IntRange(0, len(all)).Draw(t, "prefix")
			txs, desc = all[:k], fmt.Sprintf("%d pooled txs", k)
		case 1: // a transaction conflicting with the pool (never submitted)
			if tx := w.genTx(); tx != nil {
				if _, ok := w.fee(tx); ok {
					txs, desc = []*wire.MsgTx{tx}, "a fresh tx "+short(tx.TxHash())
				}
			}
		case 2: // a known transaction that is not pooled (an orphan, a rejected or an evicted one) with its unconfirmed ancestors
			var cands []*wire.MsgTx
			for _, tx := range e.Order {
				if !before.pool[tx.TxHash()] {
					cands = append(cands, tx)
				}
			}
			if len(cands) > 0 {
				top := cands[pe.Uniform(t, len(cands), "unpooled")]
				inBlock := map[chainhash.Hash]bool{}
				var add func(tx *wire.MsgTx)
				add = func(tx *wire.MsgTx) {
					if inBlock[tx.TxHash()] {
						return
					}
					inBlock[tx.TxHash()] = true
					for _, ti := range tx.TxIn {
						if par, ok := e.Known[ti.PreviousOutPoint.Hash]; ok {
							if _, confirmed := e.Tip().Utxo[ti.PreviousOutPoint]; !confirmed {
								add(par)
							}
						}
					}
					txs = append(txs, tx)
				}
				add(top)
				if rapid.Bool().Draw(t, "withDescendants") {
					// known spenders of the block's outputs, first come first served per outpoint
					spent := map[wire.OutPoint]bool{}
					for _, tx := range txs {
						for _, ti := range tx.TxIn {
							spent[ti.PreviousOutPoint] = true
						}
					}
					for grew := true; grew; {
						grew = false
						for _, tx := range e.Order {
							if inBlock[tx.TxHash()] {
								continue
							}
							ok, child := true, false
							for _, ti := range tx.TxIn {
								if spent[ti.PreviousOutPoint] {
									ok = false
								}
								if inBlock[ti.PreviousOutPoint.Hash] {
									child = true
								} else if _, confirmed := e.Tip().Utxo[ti.PreviousOutPoint]; !confirmed {
									ok = false
								}
							}
							if ok && child {
								inBlock[tx.TxHash()] = true
								txs = append(txs, tx)
								for _, ti := range tx.TxIn {
									spent[ti.PreviousOutPoint] = true
								}
								grew = true
							}
						}
					}
				}
				desc = fmt.Sprintf("unpooled %s (orphan=%v) with %d ancestors / descendants", short(top.TxHash()), before.orphans[top.TxHash()], len(txs)-1)
				if before.orphans[top.TxHash()] {
					w.events["block-confirmed-orphan"] = true
				}
			}
		default:
			desc = "empty"
		}
		n := e.Tree.Extend(e.Tip(), ce.BlockOpt{Txs: txs, PayScript: pe.P2PKH(s % 3)})
		if !n.ChainValid {
			w.log("%s: candidate block (%s) invalid by model (%s): skipped", name, desc, n.Rule)
			return
		}
		// script/finality validity is not modelled: ask the template check first
		if err := e.Chain.CheckConnectBlockTemplate(n.Block()); err != nil {
			w.log("%s: candidate block (%s) not connectable (%v): skipped", name, desc, err)
			return
		}
		if err := e.Deliver(n); err != nil {
			w.fail("%s: %v", name, err)
		}
		w.registerChainCoins()
		w.log("%s: mined node%d with %s", name, n.Idx, desc)
		after := w.snap()
		for _, tx := range txs {
			if before.pool[tx.TxHash()] {
				w.events["block-removed-pooled"] = true
			}
		}
		for bh := range before.pool {
			confirmed := false
			for _, tx := range txs {
				if tx.TxHash() == bh {
					confirmed = true
				}
			}
			if !after.pool[bh] && !confirmed {
				w.events["block-removed-conflict"] = true
			}
		}
	case "reorg":
		depth := rapid.IntRange(1, 3).Draw(t, "depth")
		tip := e.Tip()
		if int(tip.Height)-depth < int(e.Params.CoinbaseMaturity)+1 {
			return
		}
		fork := tip.Ancestor(tip.Height - int32(depth))
		cur := fork
		var nodes []*ce.Node
		for i := 0; i <= depth; i++ {
			cur = e.Tree.Extend(cur, ce.BlockOpt{PayScript: pe.P2PKH(i % 3), TimeDelta: 2})
			nodes = append(nodes, cur)
		}
		for _, n := range nodes {
			if err := e.Deliver(n); err != nil {
				w.fail("%s: %v", name, err)
			}
		}
		if e.Tip() != cur {
			w.fail("%s: VERIF-INFRA reorganisation did not happen", name)
		}
		for it := tip; it != fork; it = it.Parent {
			for _, tx := range it.Msg.Transactions[1:] {
				h := tx.TxHash()
				pooled := e.Pool.IsTransactionInPool(&h)
				w.log("%s: disconnected node%d held %s: now pooled=%v orphan=%v", name, it.Idx, short(h), pooled, e.Pool.IsOrphanInPool(&h))
				// a transaction that came back into the pool was admitted while its block was being
				// disconnected, i.e. on the tip below that block (I5 speaks about height and median
				// time "since admission")
				if pooled && !before.pool[h] {
					w.admit[h] = [2]int64{int64(it.Parent.Height), it.Parent.MTP()}
				}
			}
		}
		w.registerChainCoins()
		// known finding (listed): btcd does not re-evaluate the BIP68 locks of pooled transactions
		// after a reorganisation (Bitcoin Core: removeForReorg); a pooled transaction whose
		// relative lock counted from a coin that was confirmed in a disconnected block stays pooled
		// although it cannot be mined in the next block. Excluded by construction: the harness
		// removes such transactions itself (counted) so that the search continues behind it.
		if ev.IsKnown("C10", sigReorgLock) {
			for _, d := range e.PoolTxs() {
				if pe.RelLockLostItsCoin(d.Tx.MsgTx(), tip.Utxo, e.Tip().Utxo) {
					e.Pool.RemoveTransaction(d.Tx, true)
					recPool.Excluded()
					recPool.Count("excluded:reorg-relative-lock", 1)
					w.log("%s: harness removed %s (relative lock on a coin whose confirmation changed)", name, d.Tx.Hash().String()[:8])
				}
			}
		}
		after := w.snap()
		for ah := range after.pool {
			if !before.pool[ah] {
				w.events["reorg-readmitted"] = true
			}
		}
		w.log("%s: reorganised %d blocks deep to node%d", name, depth, cur.Idx)
	}
	w.checkInvariants(name)
}

// signalsInherited: explicit signalling or an unconfirmed ancestor (in the
// given pool graph) that signals.
func (w *world) signalsInherited(tx *wire.MsgTx, pool map[chainhash.Hash]*mempool.TxDesc, seen map[chainhash.Hash]bool) bool {
	if signals(tx) {
		return true
	}
	for _, ti := range tx.TxIn {
		if p, ok := pool[ti.PreviousOutPoint.Hash]; ok && !seen[ti.PreviousOutPoint.Hash] {
			seen[ti.PreviousOutPoint.Hash] = true
			if w.signalsInherited(p.Tx.MsgTx(), pool, seen) {
				return true
			}
		}
	}
	return false
}
