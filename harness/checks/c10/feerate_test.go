package c10

import (
	"fmt"
	"testing"

	"github.com/btcsuite/btcd/btcutil/v2"
	"github.com/btcsuite/btcd/chainhash/v2"
	"github.com/btcsuite/btcd/mempool"
	"github.com/btcsuite/btcd/mining"
	"github.com/btcsuite/btcd/wire/v2"
	"pgregory.net/rapid"

	ce "verif/internal/chainenv"
	"verif/internal/ev"
	pe "verif/internal/poolenv"
)

// ---------------------------------------------------------------------------
// the fee rules of replacements at their boundaries: "pays at least the total
// fees of everything it evicts plus the relay fee for its own size, at a
// strictly higher fee rate than each evicted transaction". The fee rate is fee
// per virtual size; witness data makes serialized and virtual size differ.

var recFeeRate = ev.New("C10", "replacement-fee-boundaries",
	"a pooled parent with 2-6 outputs (witness and non-witness key hashes); a replaceable transaction X spending 1-3 of them (so that it does or does not carry witness data) with a generated fee; "+
		"optionally a pooled child of X; a replacement R spending X's inputs plus 0-2 further outputs of the parent with 1-25 outputs (smaller than, like or much larger than X), "+
		"fee drawn at the boundaries: total evicted fees + relay fee of R (-1, 0, +1), the smallest fee whose rate (fee*1000/vsize, integer) exceeds the highest evicted rate (-1, 0, +1), the larger of both, ample; "+
		"oracle (independent sizes: weight = 3*stripped + total, vsize = ceil(weight/4)): an ACCEPTED replacement satisfies both rules and evicts exactly X and its child; a rejected one leaves the pool unchanged; "+
		"non-trivial = the rate rule is the binding one (the smallest fee that satisfies it is above the absolute-fee bound) or X carries witness data; distinct by (shapes, fees)",
	"rate-rule-binding", "absolute-fee-binding", "evicted-has-witness", "accepted", "rejected")

func TestReplacementFeeBoundaries(t *testing.T) {
	rapid.Check(t, func(t *rapid.T) {
		relay := rapid.SampledFrom([]int64{1000, 1, 5000}).Draw(t, "minRelayTxFee")
		pol := mempool.Policy{MaxTxVersion: 2, AcceptNonStd: rapid.Bool().Draw(t, "acceptNonStd"), FreeTxRelayLimit: 15, MaxOrphanTxs: 10, MaxOrphanTxSize: 100000, MaxSigOpCostPerTx: 20000, MinRelayTxFee: btcutil.Amount(relay)}
		e, err := pe.New(pe.Config{Family: ce.FamFlat, Maturity: 1, Policy: pol, MPol: mining.Policy{BlockMaxWeight: 4000000, BlockMaxSize: 1000000}, Blocks: 4})
		if err != nil {
			t.Fatalf("VERIF-INFRA: %v", err)
		}
		defer e.Close()
		w := &world{t: t, e: e, coins: map[wire.OutPoint]pe.Coin{}, admit: map[chainhash.Hash][2]int64{}, events: map[string]bool{}}
		w.registerChainCoins()
		coins := e.ConfirmedCoins(true)
		if len(coins) < 1 {
			t.Fatalf("VERIF-INFRA: no confirmed coin")
		}
		submit := func(tx *wire.MsgTx, what string) {
			e.Known[tx.TxHash()] = tx
			e.Order = append(e.Order, tx)
			for _, c := range pe.OutputsOf(tx) {
				w.coins[c.Op] = c
			}
			if acc, err := e.Pool.ProcessTransaction(btcutil.NewTx(tx), false, false, 0); err != nil || len(acc) != 1 {
				t.Fatalf("VERIF-INFRA: %s not admitted: %v", what, err)
			}
		}
		// parent: confirmed coin -> key-hash outputs, witness or not
		c0 := coins[rapid.IntRange(0, len(coins)-1).Draw(t, "coin")]
		nPar := rapid.IntRange(2, 6).Draw(t, "parentOutputs")
		per := (c0.Value - 100000) / int64(nPar)
		pouts := make([]*wire.TxOut, nPar)
		for i := range pouts {
			if rapid.IntRange(0, 2).Draw(t, "witnessOutput") > 0 {
				pouts[i] = &wire.TxOut{Value: per, PkScript: pe.P2WPKH(i % 3)}
			} else {
				pouts[i] = &wire.TxOut{Value: per, PkScript: pe.P2PKH(i % 3)}
			}
		}
		parent := pe.BuildTx(2, []pe.Coin{c0}, []uint32{0xffffffff}, pouts, 0)
		submit(parent, "parent")
		po := pe.OutputsOf(parent)
		// X: replaceable, spends the first nx outputs
		nx := rapid.IntRange(1, min(3, nPar)).Draw(t, "xInputs")
		xin := po[:nx]
		var xval int64
		xseq := make([]uint32, nx)
		for i, c := range xin {
			xval += c.Value
			xseq[i] = 0xfffffffd
		}
		mkX := func(fee int64) *wire.MsgTx {
			return pe.BuildTx(2, xin, xseq, []*wire.TxOut{{Value: xval - fee, PkScript: pe.P2PKH(1)}}, 0)
		}
		xv := pe.VSize(mkX(1000))
		xMin := pe.MinRelayFee(xv, relay)
		xFee := rapid.SampledFrom([]int64{xMin + 3, xMin + 4, 2 * xMin, 10*xMin + 7, 50000, 123457}).Draw(t, "xFee")
		// signature lengths vary by a byte: settle on a fee that pays the relay fee of the final size
		settle := func(mk func(int64) *wire.MsgTx, fee int64) (*wire.MsgTx, int64) {
			for {
				tx := mk(fee)
				if m := pe.MinRelayFee(pe.VSize(tx), relay); fee < m {
					fee = m
					continue
				}
				return tx, fee
			}
		}
		x, xFee := settle(mkX, xFee)
		xv = pe.VSize(x)
		submit(x, "transaction X")
		evFees, maxRate := xFee, xFee*1000/xv
		evicted := map[chainhash.Hash]bool{x.TxHash(): true}
		if rapid.IntRange(0, 2).Draw(t, "child") == 0 {
			xo := pe.OutputsOf(x)[0]
			mkC := func(fee int64) *wire.MsgTx {
				return pe.BuildTx(2, []pe.Coin{xo}, []uint32{0xffffffff}, []*wire.TxOut{{Value: xo.Value - fee, PkScript: pe.P2WPKH(2)}}, 0)
			}
			cMin := pe.MinRelayFee(pe.VSize(mkC(1000)), relay)
			cFee := rapid.SampledFrom([]int64{cMin + 3, cMin + 3000, 40000 + cMin}).Draw(t, "childFee")
			child, cFee := settle(mkC, cFee)
			submit(child, "child of X")
			evicted[child.TxHash()] = true
			evFees += cFee
			if r := cFee * 1000 / pe.VSize(child); r > maxRate {
				maxRate = r
			}
		}
		// R
		extra := rapid.IntRange(0, min(2, nPar-nx)).Draw(t, "extraInputs")
		rin := po[:nx+extra]
		var rval int64
		rseq := make([]uint32, len(rin))
		for i, c := range rin {
			rval += c.Value
			rseq[i] = 0xffffffff
		}
		nOut := rapid.SampledFrom([]int{1, 1, 2, 3, 5, 10, 25}).Draw(t, "rOutputs")
		mkR := func(fee int64) *wire.MsgTx {
			outs := make([]*wire.TxOut, nOut)
			each := (rval - fee) / int64(nOut)
			for i := range outs {
				outs[i] = &wire.TxOut{Value: each, PkScript: pe.P2PKH(i % 3)}
			}
			outs[0].Value += (rval - fee) - each*int64(nOut)
			return pe.BuildTx(2, rin, rseq, outs, 0)
		}
		rv := pe.VSize(mkR(1000))
		need := evFees + pe.MinRelayFee(rv, relay)
		rateFee := maxRate*rv/1000 + 1
		for rateFee*1000/rv <= maxRate {
			rateFee++
		}
		for rateFee > 1 && (rateFee-1)*1000/rv > maxRate {
			rateFee--
		}
		top := max(need, rateFee)
		fee := rapid.SampledFrom([]int64{need - 1, need, need + 1, rateFee - 1, rateFee, rateFee + 1, top - 1, top, top + 1, top, 10 * top}).Draw(t, "rFee")
		if fee < 1 {
			fee = 1
		}
		r := mkR(fee)
		if pe.VSize(r) != rv {
			rv = pe.VSize(r) // signature length jitter: the oracle below uses the final size
		}
		hasWitness := x.SerializeSize() != x.SerializeSizeStripped()
		cl := "absolute-fee-binding"
		if rateFee > need {
			cl = "rate-rule-binding"
		}
		if hasWitness {
			recFeeRate.Count("evicted-has-witness", 1)
		}
		recFeeRate.Case(rateFee > need || hasWitness, cl, ev.HashS(fmt.Sprint(nPar, nx, extra, nOut, xFee, fee, len(evicted), relay, hasWitness)), func() any {
			return map[string]any{"x_vsize": xv, "x_fee": xFee, "x_has_witness": hasWitness, "evicted": len(evicted), "evicted_fees": evFees, "max_evicted_rate": maxRate, "r_vsize": rv, "r_fee": fee, "absolute_bound": need, "rate_bound": rateFee}
		})
		before := map[chainhash.Hash]bool{}
		for _, d := range e.PoolTxs() {
			before[*d.Tx.Hash()] = true
		}
		e.Known[r.TxHash()] = r
		e.Order = append(e.Order, r)
		for _, c := range pe.OutputsOf(r) {
			w.coins[c.Op] = c
		}
		_, perr := e.Pool.ProcessTransaction(btcutil.NewTx(r), false, false, 0)
		after := map[chainhash.Hash]bool{}
		for _, d := range e.PoolTxs() {
			after[*d.Tx.Hash()] = true
		}
		desc := fmt.Sprintf("X: vsize %d (serialized %d) fee %d; evicted set of %d pays %d in total, highest rate %d/kvB; R: vsize %d fee %d = %d/kvB; relay fee rate %d/kvB => absolute bound %d, rate bound %d",
			xv, x.SerializeSize(), xFee, len(evicted), evFees, maxRate, rv, fee, fee*1000/rv, relay, evFees+pe.MinRelayFee(rv, relay), rateFee)
		if perr == nil {
			recFeeRate.Count("accepted", 1)
			if fee < evFees+pe.MinRelayFee(rv, relay) {
				t.Fatalf("accepted replacement pays %d, less than the evicted fees plus its own relay fee\n%s", fee, desc)
			}
			if fee*1000/rv <= maxRate {
				t.Fatalf("accepted replacement has a fee rate of %d/kvB, not strictly higher than the %d/kvB of an evicted transaction\n%s", fee*1000/rv, maxRate, desc)
			}
			for h := range before {
				if evicted[h] == after[h] {
					t.Fatalf("accepted replacement: pooled transaction %s evicted=%v, expected evicted=%v\n%s", h, !after[h], evicted[h], desc)
				}
			}
			if !after[r.TxHash()] {
				t.Fatalf("accepted replacement is not in the pool\n%s", desc)
			}
		} else {
			recFeeRate.Count("rejected", 1)
			if len(after) != len(before) {
				t.Fatalf("rejected replacement (%v) changed the pool: %d -> %d transactions\n%s", perr, len(before), len(after), desc)
			}
			for h := range before {
				if !after[h] {
					t.Fatalf("rejected replacement (%v) evicted %s\n%s", perr, h, desc)
				}
			}
		}
		w.checkInvariants("after the replacement attempt: " + desc)
	})
}
