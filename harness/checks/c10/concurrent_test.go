package c10

import (
	"fmt"
	"sync"
	"testing"

	"github.com/btcsuite/btcd/btcutil/v2"
	"github.com/btcsuite/btcd/chainhash/v2"
	"github.com/btcsuite/btcd/mempool"
	"github.com/btcsuite/btcd/mining"
	"github.com/btcsuite/btcd/wire/v2"
	"pgregory.net/rapid"

	ce "verif/internal/chainenv"
	"verif/internal/ev"
	pe "verif/internal/poolenv"
)

var recConc = ev.New("C10", "pool-concurrent",
	"the same environment driven from 4-8 goroutines (built with -race): each goroutine issues a generated stream of ProcessTransaction / MaybeAcceptTransaction / RemoveTransaction(recursive) / observer calls over a pre-generated transaction graph (chains, fans, conflicts with RBF signalling; fee-paying transactions only so that the wall-clock rate limiter stays out of reach) while the main goroutine connects blocks that confirm or conflict with pooled transactions; "+
		"oracle: invariants I1-I5 and I8 at quiescence, and the race detector silent; non-trivial = >= 2 goroutines submitted conflicting transactions or a block connected concurrently; distinct by case hash",
	"conflicts-raced", "block-raced")

func TestPoolConcurrent(t *testing.T) {
	rapid.Check(t, func(t *rapid.T) {
		pol := mempool.Policy{MaxTxVersion: 2, AcceptNonStd: rapid.Bool().Draw(t, "acceptNonStd"), FreeTxRelayLimit: 15, MaxOrphanTxs: rapid.SampledFrom([]int{3, 100}).Draw(t, "maxOrphans"),
			MaxOrphanTxSize: 100000, MaxSigOpCostPerTx: 20000, MinRelayTxFee: 1000, RejectReplacement: false}
		e, err := pe.New(pe.Config{Family: ce.FamFlat, Maturity: 1, Policy: pol, MPol: mining.Policy{BlockMaxWeight: 4000000, BlockMaxSize: 1000000}, Blocks: rapid.IntRange(6, 10).Draw(t, "initialBlocks")})
		if err != nil {
			t.Fatalf("VERIF-INFRA: %v", err)
		}
		defer e.Close()
		w := &world{t: t, e: e, coins: map[wire.OutPoint]pe.Coin{}, admit: map[chainhash.Hash][2]int64{}, events: map[string]bool{}}
		w.registerChainCoins()
		// pre-generate a transaction graph: several spends per confirmed coin (conflicts), children of those
		coins := e.ConfirmedCoins(true)
		var txs []*wire.MsgTx
		for ci, c := range coins {
			k := rapid.IntRange(1, 3).Draw(t, "spendsPerCoin")
			for j := 0; j < k; j++ {
				fee := int64(1000 + 3000*j + rapid.IntRange(0, 500).Draw(t, "fee"))
				seq := uint32(0xfffffffd)
				if rapid.IntRange(0, 3).Draw(t, "final") == 0 {
					seq = 0xffffffff
				}
				tx := pe.BuildTx(1, []pe.Coin{c}, []uint32{seq}, []*wire.TxOut{{Value: (c.Value - fee) / 2, PkScript: pe.P2PKH(j % 3)}, {Value: (c.Value - fee) - (c.Value-fee)/2, PkScript: pe.P2PKH((j + 1) % 3)}}, 0)
				txs = append(txs, tx)
				cur := tx
				for d := 0; d < rapid.IntRange(0, 2).Draw(t, "depth"); d++ {
					o := pe.OutputsOf(cur)[0]
					child := pe.BuildTx(1, []pe.Coin{o}, []uint32{0xffffffff}, []*wire.TxOut{{Value: o.Value - 2000, PkScript: pe.P2PKH((ci + d) % 3)}}, 0)
					txs = append(txs, child)
					cur = child
				}
			}
		}
		for _, tx := range txs {
			e.Known[tx.TxHash()] = tx
			e.Order = append(e.Order, tx)
			for _, oc := range pe.OutputsOf(tx) {
				w.coins[oc.Op] = oc
			}
		}
		nG := rapid.IntRange(4, 8).Draw(t, "goroutines")
		type op struct {
			kind int
			tx   *wire.MsgTx
		}
		streams := make([][]op, nG)
		for g := range streams {
			n := rapid.IntRange(5, 25).Draw(t, "ops")
			for i := 0; i < n; i++ {
				streams[g] = append(streams[g], op{rapid.IntRange(0, 9).Draw(t, "kind"), txs[pe.Uniform(t, len(txs), "tx")]})
			}
		}
		mineAfter := rapid.IntRange(0, 2).Draw(t, "blocks")
		var wg sync.WaitGroup
		for g := range streams {
			wg.Add(1)
			go func(ops []op) {
				defer wg.Done()
				for _, o := range ops {
					btx := btcutil.NewTx(o.tx)
					switch {
					case o.kind <= 4:
						e.Pool.ProcessTransaction(btx, true, false, 0)
					case o.kind == 5:
						e.Pool.MaybeAcceptTransaction(btx, true, false)
					case o.kind == 6:
						e.Pool.RemoveTransaction(btx, true)
					case o.kind == 7:
						e.Pool.TxDescs()
						e.Pool.MiningDescs()
						e.Pool.Count()
					case o.kind == 8:
						e.Pool.CheckSpend(o.tx.TxIn[0].PreviousOutPoint)
						e.Pool.HaveTransaction(btx.Hash())
					default:
						e.Pool.RawMempoolVerbose()
					}
				}
			}(streams[g])
		}
		// blocks connect while the goroutines run: built from a snapshot of the pool
		for b := 0; b < mineAfter; b++ {
			all := pe.TopoOrder(e.PoolTxs())
			k := len(all) / 2
			n := e.Tree.Extend(e.Tip(), ce.BlockOpt{Txs: all[:k], PayScript: pe.P2PKH(b)})
			if n.ChainValid {
				if err := e.Deliver(n); err != nil {
					wg.Wait()
					t.Fatalf("block delivery: %v", err)
				}
			}
		}
		wg.Wait()
		w.registerChainCoins()
		w.hist = append(w.hist, fmt.Sprintf("%d goroutines, %d transactions in the graph, %d blocks connected concurrently", nG, len(txs), mineAfter))
		w.checkInvariants("quiescence")
		cl := "conflicts-raced"
		if mineAfter > 0 {
			cl = "block-raced"
		}
		recConc.Case(true, cl, ev.HashS(fmt.Sprint(len(txs), nG, mineAfter, e.Tip().Hash)), func() any {
			return map[string]any{"goroutines": nG, "graph_txs": len(txs), "blocks_during": mineAfter, "pool_after": e.Pool.Count()}
		})
	})
}
