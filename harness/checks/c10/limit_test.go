package c10

import (
	"fmt"
	"testing"

	"github.com/btcsuite/btcd/btcutil/v2"
	"github.com/btcsuite/btcd/chainhash/v2"
	"github.com/btcsuite/btcd/mempool"
	"github.com/btcsuite/btcd/mining"
	"github.com/btcsuite/btcd/wire/v2"
	"pgregory.net/rapid"

	ce "verif/internal/chainenv"
	"verif/internal/ev"
	pe "verif/internal/poolenv"
)

// ---------------------------------------------------------------------------
// the eviction limit of replacements: "evicts exactly its conflicts and their
// descendants, at most 100 transactions"

var recLimit = ev.New("C10", "replacement-eviction-limit",
	"two or three confirmed coins; coin i is spent by a replaceable transaction with a generated number of pooled children (families of sizes around the limit: the first 90-101, the others 1-5); "+
		"a replacement spending all those coins with an ample fee is submitted; oracle: with F = total size of the conflicting families, F <= 100 => accepted and exactly those F transactions leave the pool, "+
		"F > 100 => rejected and the pool is unchanged; afterwards the whole-pool invariants I1-I5 (no two pooled transactions spend one output, spend index, minability); "+
		"non-trivial = F within 3 of the limit; distinct by the family sizes",
	"at-limit-accepted", "over-limit-rejected", "below-limit")

func TestReplacementEvictionLimit(t *testing.T) {
	rapid.Check(t, func(t *rapid.T) {
		pol := mempool.Policy{MaxTxVersion: 2, AcceptNonStd: rapid.Bool().Draw(t, "acceptNonStd"), FreeTxRelayLimit: 15, MaxOrphanTxs: 10, MaxOrphanTxSize: 100000, MaxSigOpCostPerTx: 20000, MinRelayTxFee: 1000}
		nFam := rapid.IntRange(2, 3).Draw(t, "families")
		e, err := pe.New(pe.Config{Family: ce.FamFlat, Maturity: 1, Policy: pol, MPol: mining.Policy{BlockMaxWeight: 4000000, BlockMaxSize: 1000000}, Blocks: nFam + 3})
		if err != nil {
			t.Fatalf("VERIF-INFRA: %v", err)
		}
		defer e.Close()
		w := &world{t: t, e: e, coins: map[wire.OutPoint]pe.Coin{}, admit: map[chainhash.Hash][2]int64{}, events: map[string]bool{}}
		w.registerChainCoins()
		coins := e.ConfirmedCoins(true)
		if len(coins) < nFam {
			t.Fatalf("VERIF-INFRA: %d confirmed coins, need %d", len(coins), nFam)
		}
		submit := func(tx *wire.MsgTx, what string) {
			e.Known[tx.TxHash()] = tx
			e.Order = append(e.Order, tx)
			for _, c := range pe.OutputsOf(tx) {
				w.coins[c.Op] = c
			}
			if acc, err := e.Pool.ProcessTransaction(btcutil.NewTx(tx), false, false, 0); err != nil || len(acc) != 1 {
				t.Fatalf("VERIF-INFRA: %s not admitted: %v", what, err)
			}
		}
		sizes := make([]int, nFam)
		total := 0
		var ins []pe.Coin
		for f := 0; f < nFam; f++ {
			if f == 0 {
				sizes[f] = rapid.SampledFrom([]int{90, 93, 95, 96, 97, 98, 99, 99, 100, 101}).Draw(t, "bigFamily")
			} else {
				sizes[f] = rapid.IntRange(1, 5).Draw(t, "smallFamily")
			}
			total += sizes[f]
			c := coins[f]
			ins = append(ins, c)
			kids := sizes[f] - 1
			nOut := kids
			if nOut == 0 {
				nOut = 1
			}
			per := (c.Value - 20000) / int64(nOut)
			outs := make([]*wire.TxOut, nOut)
			for i := range outs {
				outs[i] = &wire.TxOut{Value: per, PkScript: pe.P2PKH(i % 3)}
			}
			parent := pe.BuildTx(2, []pe.Coin{c}, []uint32{0xfffffffd}, outs, 0) // signals replaceability
			submit(parent, fmt.Sprintf("parent of family %d", f))
			po := pe.OutputsOf(parent)
			for i := 0; i < kids; i++ {
				child := pe.BuildTx(2, []pe.Coin{po[i]}, []uint32{0xffffffff}, []*wire.TxOut{{Value: po[i].Value - 3000, PkScript: pe.P2PKH((i + 1) % 3)}}, 0)
				submit(child, fmt.Sprintf("child %d of family %d", i, f))
			}
		}
		before := map[chainhash.Hash]bool{}
		for _, d := range e.PoolTxs() {
			before[*d.Tx.Hash()] = true
		}
		if len(before) != total {
			t.Fatalf("VERIF-INFRA: pool holds %d transactions, families add up to %d", len(before), total)
		}
		var inVal int64
		seqs := make([]uint32, len(ins))
		for i, c := range ins {
			inVal += c.Value
			seqs[i] = 0xffffffff
		}
		// fee: far above the evicted fees (<= 100 x 20000) plus the relay fee of the replacement
		repl := pe.BuildTx(2, ins, seqs, []*wire.TxOut{{Value: inVal - 50000000, PkScript: pe.P2PKH(0)}}, 0)
		e.Known[repl.TxHash()] = repl
		e.Order = append(e.Order, repl)
		for _, c := range pe.OutputsOf(repl) {
			w.coins[c.Op] = c
		}
		cl := "below-limit"
		switch {
		case total > 100:
			cl = "over-limit-rejected"
		case total >= 98:
			cl = "at-limit-accepted"
		}
		recLimit.Case(total >= 97 && total <= 103, cl, ev.HashS(fmt.Sprint(sizes)), func() any {
			return map[string]any{"family_sizes": sizes, "total_conflicts": total, "expected": map[bool]string{true: "rejected, pool unchanged", false: "accepted, all conflicts evicted"}[total > 100]}
		})
		acc, err := e.Pool.ProcessTransaction(btcutil.NewTx(repl), false, false, 0)
		after := map[chainhash.Hash]bool{}
		for _, d := range e.PoolTxs() {
			after[*d.Tx.Hash()] = true
		}
		if total > 100 {
			if err == nil {
				t.Fatalf("a replacement in conflict with %d pooled transactions (families %v) was accepted (%d accepted); the limit is 100", total, sizes, len(acc))
			}
			if len(after) != len(before) {
				t.Fatalf("rejected replacement changed the pool: %d -> %d transactions (families %v, err %v)", len(before), len(after), sizes, err)
			}
			for h := range before {
				if !after[h] {
					t.Fatalf("rejected replacement evicted %s (families %v)", h, sizes)
				}
			}
		} else {
			if err != nil {
				t.Fatalf("a replacement in conflict with %d pooled transactions (families %v), paying 0.5 BTC, was rejected: %v", total, sizes, err)
			}
			if len(after) != 1 || !after[repl.TxHash()] {
				t.Fatalf("after the replacement the pool holds %d transactions, want only the replacement (families %v): the conflicts and their descendants must all be evicted", len(after), sizes)
			}
		}
		w.checkInvariants(fmt.Sprintf("after the replacement against families %v", sizes))
	})
}
