package c10

import (
	"fmt"
	"testing"

	"github.com/btcsuite/btcd/btcutil/v2"
	"github.com/btcsuite/btcd/mempool"
	"github.com/btcsuite/btcd/mining"
	"github.com/btcsuite/btcd/wire/v2"

	ce "verif/internal/chainenv"
	"verif/internal/ev"
	pe "verif/internal/poolenv"
)

// ---------------------------------------------------------------------------
// deterministic reproduction of the listed finding that the generated
// histories exclude by construction (see the "reorg" action)

var recKnown = ev.New("C10", "known-findings-regression",
	"fixed scenario: P pays to a key and is mined in the tip block; X (version 2, sequence 1 = relative lock of one block on P's output) is admitted; the tip block is replaced by a longer empty branch, "+
		"so P returns to the pool; oracle: the pooled set {P, X} in dependency order must be a valid next block - height and median time did not move backwards; a failure is reported as the listed known finding",
	"reproduced")

func TestKnownFindings(t *testing.T) {
	pol := mempool.Policy{MaxTxVersion: 2, FreeTxRelayLimit: 15, MaxOrphanTxs: 10, MaxOrphanTxSize: 100000, MaxSigOpCostPerTx: 20000, MinRelayTxFee: 1000}
	e, err := pe.New(pe.Config{Family: ce.FamFlat, Maturity: 1, Policy: pol, MPol: mining.Policy{BlockMaxWeight: 4000000, BlockMaxSize: 1000000}, Blocks: 6})
	if err != nil {
		t.Fatalf("VERIF-INFRA: %v", err)
	}
	defer e.Close()
	coins := e.ConfirmedCoins(true)
	if len(coins) == 0 {
		t.Fatalf("VERIF-INFRA: no confirmed coin")
	}
	c0 := coins[0]
	p := pe.BuildTx(2, []pe.Coin{c0}, []uint32{0xffffffff}, []*wire.TxOut{{Value: c0.Value - 5000, PkScript: pe.P2PKH(0)}}, 0)
	if _, err := e.Mine([]*wire.MsgTx{p}, 1); err != nil {
		t.Fatalf("VERIF-INFRA: mining P: %v", err)
	}
	oldTip := e.Tip()
	pc := pe.OutputsOf(p)[0]
	x := pe.BuildTx(2, []pe.Coin{pc}, []uint32{1}, []*wire.TxOut{{Value: pc.Value - 5000, PkScript: pe.P2PKH(1)}}, 0)
	if acc, err := e.Pool.ProcessTransaction(btcutil.NewTx(x), false, false, 0); err != nil || len(acc) != 1 {
		t.Fatalf("VERIF-INFRA: X (relative lock of one block on a coin confirmed in the tip) not admitted: %v", err)
	}
	// replace the tip block by a longer empty branch
	cur := oldTip.Parent
	for i := 0; i < 2; i++ {
		cur = e.Tree.Extend(cur, ce.BlockOpt{PayScript: pe.P2PKH(i), TimeDelta: 2})
		if err := e.Deliver(cur); err != nil {
			t.Fatalf("VERIF-INFRA: %v", err)
		}
	}
	if e.Tip() != cur || cur.Height < oldTip.Height || cur.MTP() < oldTip.MTP() {
		t.Fatalf("VERIF-INFRA: reorganisation did not produce a higher tip with a later median time")
	}
	descs := e.PoolTxs()
	recKnown.Case(true, "reproduced", ev.HashS("reorg-relative-lock"), func() any {
		return fmt.Sprintf("pool after the reorganisation: %d transactions", len(descs))
	})
	if len(descs) == 0 {
		return // both were dropped: nothing pooled, nothing to mine
	}
	cand := e.Tree.Extend(cur, ce.BlockOpt{Txs: pe.TopoOrder(descs), PayScript: pe.P2PKH(0)})
	if err := e.Chain.CheckConnectBlockTemplate(cand.Block()); err != nil {
		obs := fmt.Sprintf("pool holds %d transactions after the tip block was replaced; as the next block they are rejected: %v", len(descs), err)
		if recKnown.Known(sigReorgLock, obs) {
			return
		}
		t.Fatalf("the pooled set is not a valid next block after a reorganisation that did not move height or median time backwards: %s", obs)
	}
}
