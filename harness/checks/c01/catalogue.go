// Package c01 decides property C01: a block is connected iff it satisfies
// every consensus rule in its context.
//
// catalogue.go builds candidate blocks: each entry produces, on a given
// parent, either a block that is valid by construction (on the valid side of
// the rule's limit where the rule has one) or a block that breaks exactly
// that rule, labelled by construction.
package c01

import (
	"time"

	"github.com/btcsuite/btcd/btcec/v2"
	"github.com/btcsuite/btcd/address/v2"
	"github.com/btcsuite/btcd/chainhash/v2"
	"github.com/btcsuite/btcd/txscript/v2"
	"github.com/btcsuite/btcd/wire/v2"
	"pgregory.net/rapid"

	ce "verif/internal/chainenv"
)

// ctx is what an entry may use.
type ctx struct {
	t       *rapid.T
	tr      *ce.Tree
	parent  *ce.Node
	invalid bool
	now     int64 // the node's adjusted time
	// pre lists blocks that must be delivered (and rejected) before the
	// candidate: mutated encodings that share the candidate's block hash.
	pre []*wire.MsgBlock
	// leafOnly: no descendants may be built on the candidate (e.g. far-future
	// timestamp).
	leafOnly bool
	// preferAbove: when > 0, entries that pick a coin prefer coins created
	// above this height (i.e. on the candidate's own branch).
	preferAbove int32
}

// pickCoin chooses a spendable outpoint, preferring coins created above
// c.preferAbove when asked to.
func (c *ctx) pickCoin(sp []wire.OutPoint, label string) wire.OutPoint {
	if c.preferAbove > 0 {
		var own []wire.OutPoint
		for _, op := range sp {
			if c.parent.Utxo[op].Height > c.preferAbove {
				own = append(own, op)
			}
		}
		if len(own) > 0 && rapid.IntRange(0, 4).Draw(c.t, label+"Own") > 0 {
			sp = own
		}
	}
	return sp[rapid.IntRange(0, len(sp)-1).Draw(c.t, label)]
}

type entry struct {
	name  string
	build func(c *ctx) *ce.Node // nil = prerequisites not met on this parent
}

var testKey, _ = btcec.PrivKeyFromBytes([]byte{1, 2, 3, 4, 5, 6, 7, 8, 9, 10, 11, 12, 13, 14, 15, 16, 17, 18, 19, 20, 21, 22, 23, 24, 25, 26, 27, 28, 29, 30, 31, 32})

func (c *ctx) height() int32   { return c.parent.Height + 1 }
func (c *ctx) maturity() int32 { return int32(c.tr.Params.CoinbaseMaturity) }

// spendable outpoints (OP_TRUE) for a block built on n.
func spendableAt(tr *ce.Tree, n *ce.Node) []wire.OutPoint {
	if !n.ChainValid {
		return nil
	}
	return ce.Spendable(n.Utxo, n.Height+1, int32(tr.Params.CoinbaseMaturity))
}

func (c *ctx) invalidOpt(o ce.BlockOpt, kind ce.Validity, rule string) ce.BlockOpt {
	o.Label, o.Rule = kind, rule
	return o
}

// simple spend of one OP_TRUE coin into one OP_TRUE output (fee 0 unless given).
func spendOne(u ce.UtxoSet, op wire.OutPoint, fee int64) *wire.MsgTx {
	return ce.SpendTx(1, []wire.OutPoint{op}, []*wire.TxOut{{Value: u[op].Value - fee, PkScript: ce.OpTrue}}, 0, 0xffffffff)
}

func p2wshScript(witnessScript []byte) []byte {
	h := chainhash.HashB(witnessScript) // single sha256
	return append([]byte{0x00, 0x20}, h...)
}

func p2shScript(redeem []byte) []byte {
	return append(append([]byte{0xa9, 0x14}, address.Hash160(redeem)...), 0x87)
}

func repeat(b byte, n int) []byte {
	out := make([]byte, n)
	for i := range out {
		out[i] = b
	}
	return out
}

// setupOutput builds a valid block on parent that converts one spendable
// coin into an output with the given script, and returns the new node and
// the outpoint.
func setupOutput(c *ctx, script []byte) (*ce.Node, wire.OutPoint, bool) {
	sp := spendableAt(c.tr, c.parent)
	if len(sp) == 0 {
		return nil, wire.OutPoint{}, false
	}
	op := sp[rapid.IntRange(0, len(sp)-1).Draw(c.t, "setupCoin")]
	tx := ce.SpendTx(1, []wire.OutPoint{op}, []*wire.TxOut{{Value: c.parent.Utxo[op].Value, PkScript: script}}, 0, 0xffffffff)
	n := c.tr.Extend(c.parent, ce.BlockOpt{Txs: []*wire.MsgTx{tx}})
	return n, wire.OutPoint{Hash: tx.TxHash(), Index: 0}, n.ChainValid
}

func catalogue() []entry {
	return []entry{
		{"pow", func(c *ctx) *ce.Node {
			if c.invalid {
				return c.tr.Extend(c.parent, ce.BlockOpt{Break: "high-hash"})
			}
			return c.tr.Extend(c.parent, ce.BlockOpt{})
		}},
		{"bits", func(c *ctx) *ce.Node {
			if !c.invalid {
				if c.tr.Family == ce.FamRetarget || c.tr.Family == ce.FamRetarget94 {
					return c.tr.Extend(c.parent, ce.BlockOpt{TimeDelta: rapid.SampledFrom([]int64{1, 9, 20, 21, 30, 161}).Draw(c.t, "dtBits")})
				}
				return c.tr.Extend(c.parent, ce.BlockOpt{})
			}
			switch rapid.IntRange(0, 4).Draw(c.t, "bitsKind") {
			case 4:
				// the difficulty a plausible wrong rule would ask for here (parent's bits, minimum
				// difficulty, retarget from the other end of the period, non-retarget rule at a retarget height)
				dtAlt := rapid.SampledFrom([]int64{1, 9, 21, 30}).Draw(c.t, "dtAlt")
				k := rapid.IntRange(0, 7).Draw(c.t, "altBits")
				parent, tr := c.parent, c.tr
				return c.tr.Extend(c.parent, ce.BlockOpt{TimeDelta: dtAlt, Mutate: func(m *wire.MsgBlock) {
					// alternatives for the timestamp the block really got (the first block after
					// genesis is moved to the start time of the tree)
					alts := tr.AltBits(parent, m.Header.Timestamp.Unix())
					if len(alts) == 0 {
						m.Header.Bits ^= 0x00000100
						return
					}
					m.Header.Bits = alts[k%len(alts)]
				}, Label: ce.InvalidContext, Rule: "bits-of-a-wrong-rule"})
			case 0:
				return c.tr.Extend(c.parent, ce.BlockOpt{Break: "bad-bits"})
			case 1: // above the proof-of-work limit
				return c.tr.Extend(c.parent, ce.BlockOpt{Mutate: func(m *wire.MsgBlock) { m.Header.Bits = 0x2100ffff }, Label: ce.InvalidSanity, Rule: "bits-above-limit"})
			case 2:
				return c.tr.Extend(c.parent, ce.BlockOpt{Mutate: func(m *wire.MsgBlock) { m.Header.Bits = 0 }, Label: ce.InvalidSanity, Rule: "bits-zero"})
			default:
				return c.tr.Extend(c.parent, ce.BlockOpt{Mutate: func(m *wire.MsgBlock) { m.Header.Bits = 0x20800001 }, Label: ce.InvalidSanity, Rule: "bits-negative"})
			}
		}},
		{"time-mtp", func(c *ctx) *ce.Node {
			if c.invalid {
				return c.tr.Extend(c.parent, ce.BlockOpt{Break: "time-too-old"})
			}
			return c.tr.Extend(c.parent, ce.BlockOpt{AbsTime: c.parent.MTP() + 1})
		}},
		{"time-future", func(c *ctx) *ce.Node {
			c.leafOnly = true
			if c.invalid {
				return c.tr.Extend(c.parent, c.invalidOpt(ce.BlockOpt{AbsTime: c.now + 7201}, ce.InvalidSanity, "time-too-new"))
			}
			return c.tr.Extend(c.parent, ce.BlockOpt{AbsTime: c.now + 7200})
		}},
		{"time-subsecond", func(c *ctx) *ce.Node {
			if c.invalid {
				return c.tr.Extend(c.parent, ce.BlockOpt{Mutate: func(m *wire.MsgBlock) {
					m.Header.Timestamp = time.Unix(m.Header.Timestamp.Unix(), 1)
				}, Label: ce.InvalidSanity, Rule: "time-subsecond"})
			}
			return c.tr.Extend(c.parent, ce.BlockOpt{})
		}},
		{"version-gate", func(c *ctx) *ce.Node {
			if c.tr.Family != ce.FamGates {
				return nil
			}
			p := c.tr.Params
			h := c.height()
			// version v is too old at height >= gate(v)
			type gate struct {
				ver  int32
				from int32
			}
			gates := []gate{{1, p.BIP0034Height}, {2, p.BIP0066Height}, {3, p.BIP0065Height}}
			g := gates[rapid.IntRange(0, 2).Draw(c.t, "gate")]
			if c.invalid {
				if h < g.from {
					return nil
				}
				return c.tr.Extend(c.parent, c.invalidOpt(ce.BlockOpt{Version: g.ver}, ce.InvalidContext, "version-too-old"))
			}
			if h >= g.from {
				return nil
			}
			return c.tr.Extend(c.parent, ce.BlockOpt{Version: g.ver}) // the old version is still fine below its gate
		}},
		{"coinbase-script-len", func(c *ctx) *ce.Node {
			// default script: height push (1-5 bytes) + 9 bytes extra nonce
			base := 9 + len(heightPush(c.height()))
			if c.tr.Family == ce.FamNoBIP34 {
				return nil
			}
			if c.invalid {
				return c.tr.Extend(c.parent, c.invalidOpt(ce.BlockOpt{CoinbaseScriptSuffix: repeat(0x51, 101-base)}, ce.InvalidSanity, "coinbase-script-too-long"))
			}
			return c.tr.Extend(c.parent, ce.BlockOpt{CoinbaseScriptSuffix: repeat(0x51, 100-base)})
		}},
		{"coinbase-script-short", func(c *ctx) *ce.Node {
			if c.height() > 16 || c.tr.Params.BIP0034Height > c.height() {
				return nil
			}
			hp := heightPush(c.height()) // one opcode
			if c.invalid {
				return c.tr.Extend(c.parent, c.invalidOpt(ce.BlockOpt{CoinbaseScript: hp}, ce.InvalidSanity, "coinbase-script-too-short"))
			}
			return c.tr.Extend(c.parent, ce.BlockOpt{CoinbaseScript: append(append([]byte{}, hp...), byte(0x50+rapid.IntRange(1, 16).Draw(c.t, "cbByte")))})
		}},
		{"bip34-height", func(c *ctx) *ce.Node {
			if c.tr.Params.BIP0034Height > c.height() {
				return nil
			}
			if !c.invalid {
				return c.tr.Extend(c.parent, ce.BlockOpt{})
			}
			var script []byte
			switch rapid.IntRange(0, 3).Draw(c.t, "heightKind") {
			case 0:
				script = append(heightPush(c.height()+1), 0x51, 0x51)
			case 1:
				script = append(heightPush(c.height()-1), 0x51, 0x51)
			case 2: // non-minimal: height as a 4-byte push
				h := c.height()
				script = []byte{0x04, byte(h), byte(h >> 8), byte(h >> 16), 0x00, 0x51}
			default: // no height at all
				script = []byte{0x51, 0x51, 0x51}
				if c.height() == 1 {
					script = []byte{0x52, 0x52}
				}
			}
			return c.tr.Extend(c.parent, c.invalidOpt(ce.BlockOpt{CoinbaseScript: script}, ce.InvalidContext, "bad-coinbase-height"))
		}},
		{"coinbase-value", func(c *ctx) *ce.Node {
			txs := someTxs(c, 2)
			if c.invalid {
				return c.tr.Extend(c.parent, ce.BlockOpt{Txs: txs, Break: "coinbase-overpay"})
			}
			return c.tr.Extend(c.parent, ce.BlockOpt{Txs: txs}) // pays exactly subsidy + fees
		}},
		{"sigops-legacy", func(c *ctx) *ce.Node {
			// every OP_CHECKSIG in an output script counts 1 (x4 cost); limit 80000 cost = 20000 sigops
			n := 20000
			if c.invalid {
				n = 20001
			}
			outs := []*wire.TxOut{{Value: 0, PkScript: append([]byte{0x6a}, repeat(0xac, n/2)...)}, {Value: 0, PkScript: append([]byte{0x6a}, repeat(0xac, n-n/2)...)}}
			o := ce.BlockOpt{ExtraCoinbaseOuts: outs}
			if c.invalid {
				o = c.invalidOpt(o, ce.InvalidSanity, "too-many-sigops")
			}
			return c.tr.Extend(c.parent, o)
		}},
		{"sigops-p2sh", func(c *ctx) *ce.Node {
			// redeem script: OP_0 OP_IF <15 or 16 x OP_CHECKSIG> OP_ENDIF OP_1 - valid to execute, 15/16 sigops
			k := 15
			if c.invalid {
				k = 16
			}
			redeem := append(append([]byte{0x00, 0x63}, repeat(0xac, k)...), 0x68, 0x51)
			setup, op, ok := setupOutput(c, p2shScript(redeem))
			if !ok {
				return nil
			}
			tx := wire.NewMsgTx(1)
			tx.AddTxIn(&wire.TxIn{PreviousOutPoint: op, SignatureScript: append([]byte{byte(len(redeem))}, redeem...), Sequence: 0xffffffff})
			tx.AddTxOut(&wire.TxOut{Value: setup.Utxo[op].Value, PkScript: ce.OpTrue})
			// legacy part: 19985 sigops => 4*19985 + 4*15 = 80000
			outs := []*wire.TxOut{{Value: 0, PkScript: append([]byte{0x6a}, repeat(0xac, 9985)...)}, {Value: 0, PkScript: append([]byte{0x6a}, repeat(0xac, 10000)...)}}
			o := ce.BlockOpt{Txs: []*wire.MsgTx{tx}, ExtraCoinbaseOuts: outs}
			if c.invalid {
				o = c.invalidOpt(o, ce.InvalidConnect, "too-many-sigops-p2sh")
			}
			return c.tr.Extend(setup, o)
		}},
		{"block-size", func(c *ctx) *ce.Node {
			// pad the coinbase with an unspendable output so that the stripped size hits the limit exactly
			probe := c.tr.Extend(c.parent, ce.BlockOpt{ExtraCoinbaseOuts: []*wire.TxOut{{Value: 0, PkScript: append([]byte{0x6a}, repeat(0, 70000)...)}}})
			sz := probe.Msg.SerializeSizeStripped()
			want := 1000000
			if c.invalid {
				want = 1000001
			}
			// script length 70001 -> varint 5 bytes; stays 5 bytes up to 2^32: linear
			pad := 70001 + (want - sz)
			o := ce.BlockOpt{ExtraCoinbaseOuts: []*wire.TxOut{{Value: 0, PkScript: append([]byte{0x6a}, repeat(0, pad-1)...)}}}
			if c.invalid {
				o = c.invalidOpt(o, ce.InvalidSanity, "block-too-big")
			}
			n := c.tr.Extend(c.parent, o)
			if got := n.Msg.SerializeSizeStripped(); got != want {
				panic("VERIF-INFRA: block-size construction off")
			}
			return n
		}},
		{"merkle", func(c *ctx) *ce.Node {
			if c.invalid {
				return c.tr.Extend(c.parent, ce.BlockOpt{Txs: someTxs(c, 2), Break: "bad-merkle"})
			}
			return c.tr.Extend(c.parent, ce.BlockOpt{Txs: someTxs(c, 2)})
		}},
		{"merkle-many", func(c *ctx) *ce.Node {
			// blocks whose transaction count sits next to a power of two or a multiple of 512:
			// a fan-out transaction, then one spend per output
			sp := spendableAt(c.tr, c.parent)
			if len(sp) == 0 {
				return nil
			}
			k := rapid.SampledFrom([]int{254, 255, 256, 510, 511, 512, 1022, 1023, 1024, 1534, 1535, 1536, 2046, 2047, 2048, 2558, 2559, 3070, 3071}).Draw(c.t, "spends")
			op := sp[rapid.IntRange(0, len(sp)-1).Draw(c.t, "fanCoin")]
			coin := c.parent.Utxo[op]
			if coin.Value < int64(k) {
				return nil
			}
			v := coin.Value / int64(k)
			outs := make([]*wire.TxOut, k)
			for i := range outs {
				outs[i] = &wire.TxOut{Value: v, PkScript: ce.OpTrue}
			}
			fan := ce.SpendTx(1, []wire.OutPoint{op}, outs, 0, 0xffffffff)
			setup := c.tr.Extend(c.parent, ce.BlockOpt{Txs: []*wire.MsgTx{fan}})
			if !setup.ChainValid {
				return nil
			}
			fh := fan.TxHash()
			txs := make([]*wire.MsgTx, k)
			for i := range txs {
				txs[i] = ce.SpendTx(1, []wire.OutPoint{{Hash: fh, Index: uint32(i)}}, []*wire.TxOut{{Value: v, PkScript: ce.OpTrue}}, 0, 0xffffffff)
			}
			o := ce.BlockOpt{Txs: txs}
			if c.invalid {
				o.Break = "bad-merkle"
			}
			return c.tr.Extend(setup, o)
		}},
		{"merkle-dup-mutation", func(c *ctx) *ce.Node {
			// CVE-2012-2459: [cb,a,b] and [cb,a,b,b] share the merkle root and block hash
			txs := someTxs(c, 2)
			if len(txs) != 2 {
				return nil
			}
			n := c.tr.Extend(c.parent, ce.BlockOpt{Txs: txs})
			mut := *n.Msg
			mut.Transactions = append(append([]*wire.MsgTx{}, n.Msg.Transactions...), n.Msg.Transactions[2])
			if ce.MerkleRoot(mut.Transactions) != n.Msg.Header.MerkleRoot {
				panic("VERIF-INFRA: duplicate-tail mutation changed the merkle root")
			}
			c.pre = append(c.pre, &mut)
			return n // the genuine block must still be accepted afterwards
		}},
		{"tx-structure", func(c *ctx) *ce.Node {
			txs := someTxs(c, 1)
			if len(txs) == 0 {
				return nil
			}
			if !c.invalid {
				return c.tr.Extend(c.parent, ce.BlockOpt{Txs: txs})
			}
			kind := rapid.SampledFrom([]string{"no-inputs", "no-outputs", "negative-value", "value-too-big", "sum-too-big", "duplicate-inputs", "null-prevout", "first-not-coinbase", "second-coinbase", "no-transactions"}).Draw(c.t, "txBreak")
			return c.tr.Extend(c.parent, ce.BlockOpt{Txs: txs, Label: ce.InvalidSanity, Rule: kind, Mutate: func(m *wire.MsgBlock) {
				tx := m.Transactions[1].Copy()
				switch kind {
				case "no-inputs":
					tx.TxIn = nil
				case "no-outputs":
					tx.TxOut = nil
				case "negative-value":
					tx.TxOut[0].Value = -1
				case "value-too-big":
					tx.TxOut[0].Value = 21e14 + 1
				case "sum-too-big":
					tx.TxOut = append(tx.TxOut, &wire.TxOut{Value: 21e14, PkScript: ce.OpTrue}, &wire.TxOut{Value: 1, PkScript: ce.OpTrue})
					tx.TxOut[0].Value = 0
				case "duplicate-inputs":
					tx.TxIn = append(tx.TxIn, &wire.TxIn{PreviousOutPoint: tx.TxIn[0].PreviousOutPoint, Sequence: 0xffffffff})
				case "null-prevout":
					tx.TxIn = append(tx.TxIn, &wire.TxIn{PreviousOutPoint: wire.OutPoint{Index: 0xffffffff}, Sequence: 0xffffffff})
				case "second-coinbase":
					tx.TxIn = []*wire.TxIn{{PreviousOutPoint: wire.OutPoint{Index: 0xffffffff}, SignatureScript: []byte{0x51, 0x51}, Sequence: 0xffffffff}}
				}
				switch kind {
				case "first-not-coinbase":
					m.Transactions[0], m.Transactions[1] = m.Transactions[1], m.Transactions[0]
				case "no-transactions":
					m.Transactions = nil
				default:
					m.Transactions[1] = tx
				}
				m.Header.MerkleRoot = ce.MerkleRoot(m.Transactions)
			}})
		}},
		{"inputs", func(c *ctx) *ce.Node {
			sp := spendableAt(c.tr, c.parent)
			if len(sp) == 0 {
				return nil
			}
			u := c.parent.Utxo
			a := spendOne(u, sp[0], 0)
			aOut := wire.OutPoint{Hash: a.TxHash(), Index: 0}
			b := ce.SpendTx(1, []wire.OutPoint{aOut}, []*wire.TxOut{{Value: u[sp[0]].Value, PkScript: ce.OpTrue}}, 0, 0xffffffff)
			if !c.invalid {
				// b spends an output of the EARLIER transaction a of the same block, zero fee
				return c.tr.Extend(c.parent, ce.BlockOpt{Txs: []*wire.MsgTx{a, b}})
			}
			switch rapid.SampledFrom([]string{"later-tx", "missing", "double-spend", "spend-too-high"}).Draw(c.t, "inputBreak") {
			case "later-tx": // b placed BEFORE a
				return c.tr.Extend(c.parent, ce.BlockOpt{Txs: []*wire.MsgTx{b, a}})
			case "missing":
				x := ce.SpendTx(1, []wire.OutPoint{{Hash: chainhash.Hash{0xab, byte(c.height())}, Index: 0}}, []*wire.TxOut{{Value: 1, PkScript: ce.OpTrue}}, 0, 0xffffffff)
				return c.tr.Extend(c.parent, ce.BlockOpt{Txs: []*wire.MsgTx{x}})
			case "double-spend":
				a2 := ce.SpendTx(1, []wire.OutPoint{sp[0]}, []*wire.TxOut{{Value: 1, PkScript: ce.OpTrue}}, 0, 0xffffffff)
				return c.tr.Extend(c.parent, ce.BlockOpt{Txs: []*wire.MsgTx{a, a2}})
			default:
				x := ce.SpendTx(1, []wire.OutPoint{sp[0]}, []*wire.TxOut{{Value: u[sp[0]].Value + 1, PkScript: ce.OpTrue}}, 0, 0xffffffff)
				return c.tr.Extend(c.parent, ce.BlockOpt{Txs: []*wire.MsgTx{x}})
			}
		}},
		{"coinbase-maturity", func(c *ctx) *ce.Node {
			// spend the coinbase created exactly maturity (valid) / maturity-1 (invalid) blocks earlier
			m := c.maturity()
			age := m
			if c.invalid {
				age = m - 1
			}
			if age < 1 {
				return nil
			}
			src := c.parent.Ancestor(c.height() - age)
			if src == nil || src.Height == 0 || !c.parent.ChainValid {
				return nil
			}
			op := wire.OutPoint{Hash: src.Msg.Transactions[0].TxHash(), Index: 0}
			coin, ok := c.parent.Utxo[op]
			if !ok || len(coin.PkScript) != 1 || coin.Height != src.Height {
				// (without BIP34 an identical coinbase may have re-created the txid later: another age)
				return nil
			}
			return c.tr.Extend(c.parent, ce.BlockOpt{Txs: []*wire.MsgTx{spendOne(c.parent.Utxo, op, 0)}})
		}},
		{"locktime-height", func(c *ctx) *ce.Node {
			sp := spendableAt(c.tr, c.parent)
			if len(sp) == 0 {
				return nil
			}
			h := uint32(c.height())
			lt := h - 1 // final: lockTime < height
			label := ce.Valid
			if c.invalid {
				lt = h
				label = ce.InvalidContext
			}
			seq := uint32(0xfffffffe)
			if !c.invalid && rapid.Bool().Draw(c.t, "allFinal") {
				lt, seq = h+100, 0xffffffff // all sequences final overrides the lock time
			}
			tx := ce.SpendTx(1, []wire.OutPoint{sp[0]}, []*wire.TxOut{{Value: c.parent.Utxo[sp[0]].Value, PkScript: ce.OpTrue}}, lt, seq)
			o := ce.BlockOpt{Txs: []*wire.MsgTx{tx}}
			if c.invalid {
				o = c.invalidOpt(o, label, "non-final-height")
			}
			return c.tr.Extend(c.parent, o)
		}},
		{"locktime-time", func(c *ctx) *ce.Node {
			// CSV is active: lock times are compared with the median time past of the previous block
			sp := spendableAt(c.tr, c.parent)
			if len(sp) == 0 {
				return nil
			}
			mtp := uint32(c.parent.MTP())
			lt := mtp - 1
			if c.invalid {
				lt = mtp
			}
			tx := ce.SpendTx(1, []wire.OutPoint{sp[0]}, []*wire.TxOut{{Value: c.parent.Utxo[sp[0]].Value, PkScript: ce.OpTrue}}, lt, 0xfffffffe)
			o := ce.BlockOpt{Txs: []*wire.MsgTx{tx}}
			if c.invalid {
				o = c.invalidOpt(o, ce.InvalidContext, "non-final-time")
			}
			return c.tr.Extend(c.parent, o)
		}},
		{"bip68-height", func(c *ctx) *ce.Node {
			sp := spendableAt(c.tr, c.parent)
			if len(sp) == 0 {
				return nil
			}
			op := c.pickCoin(sp, "csvCoin")
			age := uint32(c.height() - c.parent.Utxo[op].Height) // blocks since the coin was created
			seq, ver := age, int32(2)
			label, rule := ce.Valid, ""
			if c.invalid {
				seq, label, rule = age+1, ce.InvalidConnect, "sequence-lock-height"
			} else {
				switch rapid.IntRange(0, 2).Draw(c.t, "csvValidKind") {
				case 1: // version 1 transactions are exempt
					seq, ver = age+50, 1
				case 2: // disable bit
					seq = (1 << 31) | (age + 50)
				}
			}
			tx := ce.SpendTx(ver, []wire.OutPoint{op}, []*wire.TxOut{{Value: c.parent.Utxo[op].Value, PkScript: ce.OpTrue}}, 0, seq)
			o := ce.BlockOpt{Txs: []*wire.MsgTx{tx}}
			if c.invalid {
				o = c.invalidOpt(o, label, rule)
			}
			return c.tr.Extend(c.parent, o)
		}},
		{"bip68-time", func(c *ctx) *ce.Node {
			// time-based relative lock: units of 512 s measured from the MTP of the block BEFORE the coin's block
			sp := spendableAt(c.tr, c.parent)
			if len(sp) == 0 {
				return nil
			}
			op := c.pickCoin(sp, "csvCoin")
			coinNode := c.parent.Ancestor(c.parent.Utxo[op].Height)
			if coinNode == nil || coinNode.Parent == nil {
				return nil
			}
			base := coinNode.Parent.MTP()
			elapsed := c.parent.MTP() - base // MTP of the previous block is what counts
			// lock of n units is met iff base + n*512 - 1 < MTP(prev)  <=>  n*512 <= elapsed
			n := elapsed / 512
			if n < 0 {
				n = 0
			}
			if n > 0xffff-1 {
				return nil
			}
			seq := uint32(1<<22) | uint32(n)
			if c.invalid {
				seq = uint32(1<<22) | uint32(n+1)
			}
			tx := ce.SpendTx(2, []wire.OutPoint{op}, []*wire.TxOut{{Value: c.parent.Utxo[op].Value, PkScript: ce.OpTrue}}, 0, seq)
			o := ce.BlockOpt{Txs: []*wire.MsgTx{tx}}
			if c.invalid {
				o = c.invalidOpt(o, ce.InvalidConnect, "sequence-lock-time")
			}
			return c.tr.Extend(c.parent, o)
		}},
		{"bip30", func(c *ctx) *ce.Node {
			if c.tr.Family != ce.FamNoBIP34 || !c.parent.ChainValid {
				return nil
			}
			dh := c.tr.DupCoinbaseHash(c.height())
			_, unspent := c.parent.Utxo[wire.OutPoint{Hash: dh, Index: 0}]
			if c.invalid != unspent {
				// need the matching precondition: invalid side wants the earlier copy unspent
				if c.invalid {
					// create the first copy, then overwrite it immediately
					first := c.tr.Extend(c.parent, ce.BlockOpt{DupCoinbase: true})
					if !first.ChainValid {
						return nil
					}
					return c.tr.Extend(first, ce.BlockOpt{DupCoinbase: true})
				}
				return nil
			}
			return c.tr.Extend(c.parent, ce.BlockOpt{DupCoinbase: true})
		}},
		{"witness-commitment", func(c *ctx) *ce.Node {
			ws := []byte{0x51}
			setup, op, ok := setupOutput(c, p2wshScript(ws))
			if !ok {
				return nil
			}
			tx := wire.NewMsgTx(1)
			tx.AddTxIn(&wire.TxIn{PreviousOutPoint: op, Witness: wire.TxWitness{ws}, Sequence: 0xffffffff})
			tx.AddTxOut(&wire.TxOut{Value: setup.Utxo[op].Value, PkScript: ce.OpTrue})
			txs := []*wire.MsgTx{tx}
			if !c.invalid {
				switch rapid.IntRange(0, 2).Draw(c.t, "wcValidKind") {
				case 0:
					return c.tr.Extend(setup, ce.BlockOpt{Txs: txs})
				case 1: // commitment present without any witness data is fine
					return c.tr.Extend(setup, ce.BlockOpt{ForceCommitment: true})
				default: // two commitment-looking outputs: the LAST one counts
					bad := &wire.TxOut{Value: 0, PkScript: append([]byte{0x6a, 0x24, 0xaa, 0x21, 0xa9, 0xed}, repeat(0x11, 32)...)}
					return c.tr.Extend(setup, ce.BlockOpt{Txs: txs, ExtraCoinbaseOuts: []*wire.TxOut{bad}})
				}
			}
			kind := rapid.SampledFrom([]string{"missing", "wrong", "nonce-31", "nonce-33", "two-witness-items", "last-wrong"}).Draw(c.t, "wcBreak")
			if kind == "missing" {
				return c.tr.Extend(setup, c.invalidOpt(ce.BlockOpt{Txs: txs, NoCommitment: true}, ce.InvalidContext, "witness-commitment-missing"))
			}
			return c.tr.Extend(setup, ce.BlockOpt{Txs: txs, Label: ce.InvalidContext, Rule: "witness-commitment-" + kind, Mutate: func(m *wire.MsgBlock) {
				cb := m.Transactions[0].Copy()
				last := len(cb.TxOut) - 1
				switch kind {
				case "wrong":
					s := append([]byte{}, cb.TxOut[last].PkScript...)
					s[37] ^= 1
					cb.TxOut[last] = &wire.TxOut{Value: 0, PkScript: s}
				case "nonce-31":
					cb.TxIn[0].Witness = wire.TxWitness{make([]byte, 31)}
				case "nonce-33":
					cb.TxIn[0].Witness = wire.TxWitness{make([]byte, 33)}
				case "two-witness-items":
					cb.TxIn[0].Witness = wire.TxWitness{make([]byte, 32), make([]byte, 32)}
				case "last-wrong":
					good := cb.TxOut[last]
					bad := &wire.TxOut{Value: 0, PkScript: append(append([]byte{}, good.PkScript[:6]...), repeat(0x11, 32)...)}
					cb.TxOut = append(cb.TxOut, bad)
				}
				m.Transactions[0] = cb
				m.Header.MerkleRoot = ce.MerkleRoot(m.Transactions)
			}})
		}},
		{"script-p2pkh", func(c *ctx) *ce.Node {
			pkh := address.Hash160(testKey.PubKey().SerializeCompressed())
			pkScript := append(append([]byte{0x76, 0xa9, 0x14}, pkh...), 0x88, 0xac)
			setup, op, ok := setupOutput(c, pkScript)
			if !ok {
				return nil
			}
			tx := wire.NewMsgTx(1)
			tx.AddTxIn(&wire.TxIn{PreviousOutPoint: op, Sequence: 0xffffffff})
			tx.AddTxOut(&wire.TxOut{Value: setup.Utxo[op].Value, PkScript: ce.OpTrue})
			sig, err := txscript.SignatureScript(tx, 0, pkScript, txscript.SigHashAll, testKey, true)
			if err != nil {
				panic("VERIF-INFRA: " + err.Error())
			}
			if c.invalid {
				// flip one bit inside the signature's S value (stays DER, stops verifying)
				sig = append([]byte{}, sig...)
				sig[40] ^= 0x01
			}
			tx.TxIn[0].SignatureScript = sig
			o := ce.BlockOpt{Txs: []*wire.MsgTx{tx}}
			if c.invalid {
				o = c.invalidOpt(o, ce.InvalidConnect, "script-bad-signature")
			}
			return c.tr.Extend(setup, o)
		}},
		{"script-cltv-gate", func(c *ctx) *ce.Node {
			// BIP65: "1 CHECKLOCKTIMEVERIFY" is a NOP before the height gate; afterwards the spender needs
			// lockTime >= 1 of the same kind and a non-final sequence
			setup, op, ok := setupOutput(c, []byte{0x51, 0xb1})
			if !ok {
				return nil
			}
			h := setup.Height + 1
			active := h >= c.tr.Params.BIP0065Height
			variant := rapid.SampledFrom([]string{"satisfied", "locktime-too-low", "final-sequence"}).Draw(c.t, "cltvVariant")
			if c.invalid {
				if !active {
					return nil
				}
				if variant == "satisfied" {
					variant = "locktime-too-low"
				}
			} else if active {
				variant = "satisfied"
			}
			lt, seq := uint32(1), uint32(0xfffffffe)
			switch variant {
			case "locktime-too-low":
				lt = 0
			case "final-sequence":
				seq = 0xffffffff
			}
			tx := ce.SpendTx(1, []wire.OutPoint{op}, []*wire.TxOut{{Value: setup.Utxo[op].Value, PkScript: ce.OpTrue}}, lt, seq)
			o := ce.BlockOpt{Txs: []*wire.MsgTx{tx}}
			if c.invalid {
				o = c.invalidOpt(o, ce.InvalidConnect, "script-cltv-"+variant)
			}
			return c.tr.Extend(setup, o)
		}},
		{"script-der-gate", func(c *ctx) *ce.Node {
			// BIP66: a correct signature whose R carries an excess 0x00 pad byte verifies before the
			// height gate (lax parsing) and is refused afterwards
			pkh := address.Hash160(testKey.PubKey().SerializeCompressed())
			pkScript := append(append([]byte{0x76, 0xa9, 0x14}, pkh...), 0x88, 0xac)
			setup, op, ok := setupOutput(c, pkScript)
			if !ok {
				return nil
			}
			h := setup.Height + 1
			active := h >= c.tr.Params.BIP0066Height
			if c.invalid && !active {
				return nil
			}
			tx := wire.NewMsgTx(1)
			tx.AddTxIn(&wire.TxIn{PreviousOutPoint: op, Sequence: 0xffffffff})
			tx.AddTxOut(&wire.TxOut{Value: setup.Utxo[op].Value, PkScript: ce.OpTrue})
			sig, err := txscript.RawTxInSignature(tx, 0, pkScript, txscript.SigHashAll, testKey)
			if err != nil {
				panic("VERIF-INFRA: " + err.Error())
			}
			if c.invalid || !active {
				// 30 L 02 rl R.. 02 sl S.. ht  ->  30 L+1 02 rl+1 00 R.. 02 sl S.. ht
				padded := []byte{0x30, sig[1] + 1, 0x02, sig[3] + 1, 0x00}
				padded = append(padded, sig[4:]...)
				sig = padded
			}
			pub := testKey.PubKey().SerializeCompressed()
			ss := append([]byte{byte(len(sig))}, sig...)
			ss = append(ss, byte(len(pub)))
			ss = append(ss, pub...)
			tx.TxIn[0].SignatureScript = ss
			o := ce.BlockOpt{Txs: []*wire.MsgTx{tx}}
			if c.invalid {
				o = c.invalidOpt(o, ce.InvalidConnect, "script-non-der-signature")
			}
			return c.tr.Extend(setup, o)
		}},
		{"script-p2sh", func(c *ctx) *ce.Node {
			// BIP16: the redeem script is executed, not only hashed
			redeem := []byte{0x51}
			if c.invalid {
				redeem = []byte{0x00}
			}
			setup, op, ok := setupOutput(c, p2shScript(redeem))
			if !ok {
				return nil
			}
			tx := ce.SpendTx(1, []wire.OutPoint{op}, []*wire.TxOut{{Value: setup.Utxo[op].Value, PkScript: ce.OpTrue}}, 0, 0xffffffff)
			tx.TxIn[0].SignatureScript = append([]byte{byte(len(redeem))}, redeem...)
			o := ce.BlockOpt{Txs: []*wire.MsgTx{tx}}
			if c.invalid {
				o = c.invalidOpt(o, ce.InvalidConnect, "script-p2sh-redeem-false")
			}
			return c.tr.Extend(setup, o)
		}},
		{"script-nulldummy", func(c *ctx) *ce.Node {
			// BIP147 (with segwit): the CHECKMULTISIG dummy element must be empty
			pub := testKey.PubKey().SerializeCompressed()
			pkScript := append(append([]byte{0x51, byte(len(pub))}, pub...), 0x51, 0xae)
			setup, op, ok := setupOutput(c, pkScript)
			if !ok {
				return nil
			}
			tx := wire.NewMsgTx(1)
			tx.AddTxIn(&wire.TxIn{PreviousOutPoint: op, Sequence: 0xffffffff})
			tx.AddTxOut(&wire.TxOut{Value: setup.Utxo[op].Value, PkScript: ce.OpTrue})
			sig, err := txscript.RawTxInSignature(tx, 0, pkScript, txscript.SigHashAll, testKey)
			if err != nil {
				panic("VERIF-INFRA: " + err.Error())
			}
			dummy := byte(0x00)
			if c.invalid {
				dummy = 0x51
			}
			tx.TxIn[0].SignatureScript = append([]byte{dummy, byte(len(sig))}, sig...)
			o := ce.BlockOpt{Txs: []*wire.MsgTx{tx}}
			if c.invalid {
				o = c.invalidOpt(o, ce.InvalidConnect, "script-nulldummy")
			}
			return c.tr.Extend(setup, o)
		}},
		{"script-p2wpkh", func(c *ctx) *ce.Node {
			pub := testKey.PubKey().SerializeCompressed()
			pkScript := append([]byte{0x00, 0x14}, address.Hash160(pub)...)
			setup, op, ok := setupOutput(c, pkScript)
			if !ok {
				return nil
			}
			amt := setup.Utxo[op].Value
			tx := wire.NewMsgTx(2)
			tx.AddTxIn(&wire.TxIn{PreviousOutPoint: op, Sequence: 0xffffffff})
			tx.AddTxOut(&wire.TxOut{Value: amt, PkScript: ce.OpTrue})
			hashes := txscript.NewTxSigHashes(tx, txscript.NewCannedPrevOutputFetcher(pkScript, amt))
			wit, err := txscript.WitnessSignature(tx, hashes, 0, amt, pkScript, txscript.SigHashAll, testKey, true)
			if err != nil {
				panic("VERIF-INFRA: " + err.Error())
			}
			variant := "ok"
			if c.invalid {
				variant = rapid.SampledFrom([]string{"bad-signature", "wrong-amount-signed", "empty-witness", "witness-plus-sigscript"}).Draw(c.t, "wpkhVariant")
				switch variant {
				case "bad-signature":
					wit[0] = append([]byte{}, wit[0]...)
					wit[0][40] ^= 0x01
				case "wrong-amount-signed":
					// BIP143 commits to the amount of the spent output
					wit, _ = txscript.WitnessSignature(tx, hashes, 0, amt+1, pkScript, txscript.SigHashAll, testKey, true)
				case "empty-witness":
					wit = nil
				case "witness-plus-sigscript":
					tx.TxIn[0].SignatureScript = []byte{0x51}
				}
			}
			tx.TxIn[0].Witness = wit
			o := ce.BlockOpt{Txs: []*wire.MsgTx{tx}}
			if c.invalid {
				o = c.invalidOpt(o, ce.InvalidConnect, "script-p2wpkh-"+variant)
			}
			return c.tr.Extend(setup, o)
		}},
		{"script-taproot-keypath", func(c *ctx) *ce.Node {
			outKey := txscript.ComputeTaprootKeyNoScript(testKey.PubKey())
			pkScript, err := txscript.PayToTaprootScript(outKey)
			if err != nil {
				panic("VERIF-INFRA: " + err.Error())
			}
			setup, op, ok := setupOutput(c, pkScript)
			if !ok {
				return nil
			}
			amt := setup.Utxo[op].Value
			tx := wire.NewMsgTx(2)
			tx.AddTxIn(&wire.TxIn{PreviousOutPoint: op, Sequence: 0xffffffff})
			tx.AddTxOut(&wire.TxOut{Value: amt, PkScript: ce.OpTrue})
			hashes := txscript.NewTxSigHashes(tx, txscript.NewCannedPrevOutputFetcher(pkScript, amt))
			wit, err := txscript.TaprootWitnessSignature(tx, hashes, 0, amt, pkScript, txscript.SigHashDefault, testKey)
			if err != nil {
				panic("VERIF-INFRA: " + err.Error())
			}
			variant := "ok"
			if c.invalid {
				variant = rapid.SampledFrom([]string{"bad-signature", "trailing-zero-hashtype", "empty-witness"}).Draw(c.t, "trVariant")
				switch variant {
				case "bad-signature":
					wit[0] = append([]byte{}, wit[0]...)
					wit[0][40] ^= 0x01
				case "trailing-zero-hashtype":
					// BIP341: a 65-byte signature must not use hash type 0x00
					wit[0] = append(append([]byte{}, wit[0]...), 0x00)
				case "empty-witness":
					wit = nil
				}
			}
			tx.TxIn[0].Witness = wit
			o := ce.BlockOpt{Txs: []*wire.MsgTx{tx}}
			if c.invalid {
				o = c.invalidOpt(o, ce.InvalidConnect, "script-taproot-"+variant)
			}
			return c.tr.Extend(setup, o)
		}},
	}
}

func heightPush(h int32) []byte {
	if h <= 0 {
		return []byte{0x00}
	}
	if h >= 1 && h <= 16 {
		return []byte{byte(0x50 + h)}
	}
	var b []byte
	for x := h; x > 0; x >>= 8 {
		b = append(b, byte(x))
	}
	if b[len(b)-1]&0x80 != 0 {
		b = append(b, 0)
	}
	return append([]byte{byte(len(b))}, b...)
}

// someTxs returns up to k valid spends available on the parent.
func someTxs(c *ctx, k int) []*wire.MsgTx {
	if !c.parent.ChainValid {
		return nil
	}
	sp := spendableAt(c.tr, c.parent)
	var txs []*wire.MsgTx
	for i := 0; i < k && i < len(sp); i++ {
		fee := int64(rapid.IntRange(0, 500).Draw(c.t, "fee"))
		if v := c.parent.Utxo[sp[i]].Value; fee > v {
			fee = v // small change outputs exist: never pay more than the coin holds
		}
		txs = append(txs, spendOne(c.parent.Utxo, sp[i], fee))
	}
	return txs
}
