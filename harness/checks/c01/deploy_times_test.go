package c01

import (
	"fmt"
	"testing"
	"time"

	"github.com/btcsuite/btcd/chaincfg/v2"
	"github.com/btcsuite/btcd/wire/v2"
	"pgregory.net/rapid"

	ce "verif/internal/chainenv"
	"verif/internal/ev"
)

// ---------------------------------------------------------------------------
// network parameter sets whose soft-fork deployments have a real start time and
// timeout (the way mainnet / testnet define theirs): whether the BIP68/112/113
// rules apply to a block follows from the BIP9 state machine over the block's
// own ancestors, with the start and timeout compared against the median time
// past of the last block of each window.

var recDeployTimes = ev.New("C01", "deployment-start-and-timeout",
	"CSV installed as a version-bits deployment with window 3-5, threshold 1..window, a start time and a timeout that are 'always'/'never' or sit exactly at, one second before or one second after the median time past of the last block of a generated window, "+
		"optionally with the speedy-trial modifiers (own threshold, minimum activation height); one chain of up to 6 windows with generated signalling and timestamps; 1-4 candidate blocks, each offered when its parent is the tip, "+
		"carrying a version-1 spend of a '1 CHECKSEQUENCEVERIFY' output, a version-2 spend whose relative lock is one block too young, or a lock time between median time past and block time; "+
		"oracle: textbook BIP9 state machine (BIP9 text; BIP341 deployment section for the speedy variant) over the candidate's ancestors gives the state, Active = the candidate is invalid; delivery through the chain-selection model; "+
		"non-trivial = the start time or the timeout is within one second of the median time past of a window's last block; distinct by (parameters, chain, candidate)",
	"candidate-under-active-rules", "candidate-before-activation", "candidate-after-failed-deployment", "start-on-a-boundary", "timeout-on-a-boundary", "speedy")

type bip9Params struct {
	w, th         int32
	start, end    int64 // 0 = always started / never ends
	speedy        bool
	minActivation int32
}

const (
	stDefined = iota
	stStarted
	stLockedIn
	stActive
	stFailed
)

var stNames = []string{"defined", "started", "lockedin", "active", "failed"}

// bip9State is the state that applies to a block built on parent.
func bip9State(parent *ce.Node, q bip9Params) int {
	path := parent.Path()
	state := stDefined
	for win := int32(1); win <= (parent.Height+1)/q.w; win++ {
		last := path[win*q.w-1] // last block of the previous window
		mtp := last.MTP()
		started := q.start == 0 || mtp >= q.start
		ended := q.end != 0 && mtp >= q.end
		switch state {
		case stDefined:
			if !q.speedy && ended {
				state = stFailed
			} else if started {
				state = stStarted
			}
		case stStarted:
			count := int32(0)
			for h := (win - 1) * q.w; h < win*q.w; h++ {
				v := uint32(path[h].Msg.Header.Version)
				if v&0xe0000000 == 0x20000000 && v&1 != 0 {
					count++
				}
			}
			switch {
			case !q.speedy && ended:
				state = stFailed
			case count >= q.th:
				state = stLockedIn
			case q.speedy && ended:
				state = stFailed
			}
		case stLockedIn:
			if q.minActivation == 0 || win*q.w >= q.minActivation {
				state = stActive
			}
		}
	}
	return state
}

func TestDeploymentTimes(t *testing.T) {
	csvScript := []byte{0x51, 0xb2}
	rapid.Check(t, func(t *rapid.T) {
		q := bip9Params{w: int32(rapid.IntRange(3, 5).Draw(t, "window"))}
		q.th = int32(rapid.IntRange(1, int(q.w)).Draw(t, "threshold"))
		p := chaincfg.RegressionNetParams
		p.Name = "verif-deploy-times"
		p.CoinbaseMaturity = 1
		p.MinerConfirmationWindow = uint32(q.w)
		p.RuleChangeActivationThreshold = uint32(q.th)
		tr := ce.NewTree(ce.FamFlat, &p)
		nWin := rapid.IntRange(3, 6).Draw(t, "windows")
		n := int32(nWin)*q.w + int32(rapid.IntRange(0, int(q.w)-1).Draw(t, "extra"))
		signalP := rapid.IntRange(1, 6).Draw(t, "signalPer6")
		main := []*ce.Node{tr.Genesis}
		for int32(len(main)) <= n {
			v := int32(0x20000000)
			if rapid.IntRange(1, 6).Draw(t, "signal") <= signalP {
				v |= 1
			}
			main = append(main, tr.Extend(main[len(main)-1], ce.BlockOpt{Version: v, TimeDelta: int64(rapid.IntRange(1, 30).Draw(t, "dt")), PayScript: csvScript}))
		}
		near := func(label string, from int) (int64, int) {
			if from > nWin {
				return 0, 0
			}
			k := rapid.IntRange(from, nWin).Draw(t, label+"Window")
			return main[int32(k)*q.w-1].MTP() + int64(rapid.IntRange(-1, 1).Draw(t, label+"Delta")), k
		}
		startWin, endWin := 0, 0
		if rapid.IntRange(0, 3).Draw(t, "startKind") > 0 {
			q.start, startWin = near("start", 1)
		}
		if rapid.IntRange(0, 2).Draw(t, "endKind") > 0 {
			q.end, endWin = near("end", startWin+1)
			if q.end != 0 && q.end <= q.start {
				q.end, endWin = 0, 0 // a deployment times out after it starts
			}
		}
		dep := chaincfg.ConsensusDeployment{BitNumber: 0}
		if rapid.IntRange(0, 2).Draw(t, "speedy") == 0 {
			q.speedy = true
			switch rapid.IntRange(0, 2).Draw(t, "speedyKind") {
			case 0:
				q.th = int32(rapid.IntRange(1, int(q.w)).Draw(t, "customThreshold"))
				dep.CustomActivationThreshold = uint32(q.th)
			case 1:
				q.minActivation = int32(rapid.IntRange(1, int(n)).Draw(t, "minActivation"))
				dep.MinActivationHeight = uint32(q.minActivation)
			default:
				q.th = int32(rapid.IntRange(1, int(q.w)).Draw(t, "customThreshold"))
				dep.CustomActivationThreshold = uint32(q.th)
				q.minActivation = int32(rapid.IntRange(1, int(n)).Draw(t, "minActivation"))
				dep.MinActivationHeight = uint32(q.minActivation)
			}
		}
		toTime := func(s int64) time.Time {
			if s == 0 {
				return time.Time{}
			}
			return time.Unix(s, 0)
		}
		dep.DeploymentStarter = chaincfg.NewMedianTimeDeploymentStarter(toTime(q.start))
		dep.DeploymentEnder = chaincfg.NewMedianTimeDeploymentEnder(toTime(q.end))
		p.Deployments[chaincfg.DeploymentCSV] = dep

		// candidates
		type candT struct {
			n     *ce.Node
			state int
			rule  string
		}
		var cands []candT
		after := map[*ce.Node][]*ce.Node{} // parent -> candidates offered while it is the tip
		for i := 0; i < rapid.IntRange(1, 4).Draw(t, "candidates"); i++ {
			par := main[rapid.IntRange(int(q.w), int(n)).Draw(t, "candParent")]
			var sp []wire.OutPoint
			for _, o := range par.Utxo.SortedOutpoints() {
				c := par.Utxo[o]
				if string(c.PkScript) == string(csvScript) && par.Height+1-c.Height >= 1 {
					sp = append(sp, o)
				}
			}
			if len(sp) == 0 {
				t.Fatalf("VERIF-INFRA: no spendable coin")
			}
			op := sp[rapid.IntRange(0, len(sp)-1).Draw(t, "coin")]
			coin := par.Utxo[op]
			rule := rapid.SampledFrom([]string{"csv-opcode-version-1-spender", "bip68-too-young", "locktime-between-mtp-and-blocktime"}).Draw(t, "rule")
			opt := ce.BlockOpt{Version: 0x20000000, PayScript: csvScript}
			out := []*wire.TxOut{{Value: coin.Value, PkScript: ce.OpTrue}}
			var tx *wire.MsgTx
			switch rule {
			case "csv-opcode-version-1-spender":
				tx = ce.SpendTx(1, []wire.OutPoint{op}, out, 0, 0xffffffff)
			case "bip68-too-young":
				tx = ce.SpendTx(2, []wire.OutPoint{op}, out, 0, uint32(par.Height+1-coin.Height)+1)
			default:
				mtp := par.MTP()
				opt.AbsTime = par.Time() + 5
				if opt.AbsTime <= mtp {
					opt.AbsTime = mtp + 1
				}
				tx = ce.SpendTx(1, []wire.OutPoint{op}, out, uint32(mtp), 0xfffffffe)
			}
			opt.Txs = []*wire.MsgTx{tx}
			st := bip9State(par, q)
			if st == stActive {
				opt.Label, opt.Rule = ce.InvalidConnect, "csv-rule:"+rule
				if rule == "locktime-between-mtp-and-blocktime" {
					opt.Label = ce.InvalidContext
				}
			}
			if opt.AbsTime == 0 {
				opt.TimeDelta = int64(rapid.IntRange(1, 30).Draw(t, "dtCand"))
			}
			c := tr.Extend(par, opt)
			cands = append(cands, candT{c, st, rule})
			after[par] = append(after[par], c)
		}
		onBoundary := startWin > 0 || endWin > 0
		for _, c := range cands {
			cl := "candidate-before-activation"
			switch c.state {
			case stActive:
				cl = "candidate-under-active-rules"
			case stFailed:
				cl = "candidate-after-failed-deployment"
			}
			recDeployTimes.Case(onBoundary, cl, ev.Hash(c.n.Hash[:], []byte(fmt.Sprint(q))), func() any {
				return map[string]any{"params": fmt.Sprintf("%+v", q), "start_window": startWin, "timeout_window": endWin, "candidate_height": c.n.Height, "state": stNames[c.state], "rule": c.rule, "expected_valid": c.state != stActive}
			})
		}
		if startWin > 0 {
			recDeployTimes.Count("start-on-a-boundary", 1)
		}
		if endWin > 0 {
			recDeployTimes.Count("timeout-on-a-boundary", 1)
		}
		if q.speedy {
			recDeployTimes.Count("speedy", 1)
		}

		env, err := ce.NewEnv(tr.Params, ce.EnvOpt{UtxoCacheMaxSize: 1 << 20})
		if err != nil {
			t.Fatalf("VERIF-INFRA: %v", err)
		}
		defer env.Close()
		sel := ce.NewSel(tr)
		desc := func() string {
			s := fmt.Sprintf("deployment %+v (start at MTP of window %d's last block +-1, timeout window %d)", q, startWin, endWin)
			for _, c := range cands {
				s += fmt.Sprintf("; candidate node%d height %d state %s rule %s label %v", c.n.Idx, c.n.Height, stNames[c.state], c.rule, c.n.Self)
			}
			return s + "\ntree: " + tr.Describe()
		}
		var order []*ce.Node
		for _, m := range main {
			if m != tr.Genesis {
				order = append(order, m)
			}
			order = append(order, after[m]...)
		}
		for _, nd := range order {
			out := sel.DeliverBlock(nd)
			_, _, err := env.Deliver(nd)
			if out.MustError && err == nil {
				t.Fatalf("node%d accepted although %s\n%s", nd.Idx, out.Why, desc())
			}
			if out.MustSucceed && err != nil {
				t.Fatalf("node%d rejected with %v although %s\n%s", nd.Idx, err, out.Why, desc())
			}
			if err := ce.CheckTip(env, sel); err != nil {
				t.Fatalf("after node%d: %v\n%s", nd.Idx, err, desc())
			}
		}
	})
}
