package c01

import (
	"fmt"
	"sort"
	"testing"

	"github.com/btcsuite/btcd/wire/v2"
	"pgregory.net/rapid"

	ce "verif/internal/chainenv"
	"verif/internal/ev"
)

// ---------------------------------------------------------------------------
// "every block that satisfies them is accepted ... the verdict depends only on
// the block and its ancestor chain": valid blocks built on the valid part of a
// side branch whose later block failed to connect - after one and after several
// failed reorganisation attempts through that block.

var recPrefix = ev.New("C01", "valid-prefix-of-a-failed-branch",
	"main chain of 3-8 blocks; a side branch with 1-3 valid blocks, then a block that fails only when it is connected (spends an output its parent already spent / overpays the coinbase), with 1-3 sub-branches below it, "+
		"delivered level by level or branch by branch, long enough that 0, 1 or several of them trigger a reorganisation attempt; then a valid branch grown from a generated block of the valid prefix until it has the most work; "+
		"oracle: chain-selection model with by-construction labels (valid blocks on valid ancestry must be accepted; the final tip is the most-work fully valid chain); "+
		"non-trivial = at least two sub-branches below the failing block out-work the main chain; distinct by the shape",
	"several-failed-attempts", "one-failed-attempt", "no-attempt")

func TestValidPrefixOfFailedBranch(t *testing.T) {
	rapid.Check(t, func(t *rapid.T) {
		params := ce.NewParams(ce.FamFlat, 1)
		tr := ce.NewTree(ce.FamFlat, params)
		mainLen := rapid.IntRange(3, 8).Draw(t, "mainLen")
		forkAt := rapid.IntRange(1, mainLen-1).Draw(t, "forkAt")
		var main []*ce.Node
		tip := tr.Genesis
		for i := 0; i < mainLen; i++ {
			tip = tr.Extend(tip, ce.BlockOpt{TimeDelta: 2})
			main = append(main, tip)
		}
		// valid prefix of the side branch; its last block spends a coin so that the failing block can spend it again
		side := main[forkAt-1]
		var prefix []*ce.Node
		nPrefix := rapid.IntRange(1, 3).Draw(t, "validPrefix")
		var spentOp wire.OutPoint
		var spentVal int64
		for i := 0; i < nPrefix; i++ {
			opt := ce.BlockOpt{TimeDelta: 3}
			if i == nPrefix-1 {
				if sp := ce.Spendable(side.Utxo, side.Height+1, 1); len(sp) > 0 {
					spentOp = sp[rapid.IntRange(0, len(sp)-1).Draw(t, "coin")]
					spentVal = side.Utxo[spentOp].Value
					opt.Txs = []*wire.MsgTx{ce.SpendTx(1, []wire.OutPoint{spentOp}, []*wire.TxOut{{Value: spentVal, PkScript: ce.OpTrue}}, 0, 0xffffffff)}
				}
			}
			side = tr.Extend(side, opt)
			prefix = append(prefix, side)
		}
		// the failing block
		var bad *ce.Node
		if spentVal != 0 && rapid.Bool().Draw(t, "doubleSpend") {
			tx := ce.SpendTx(1, []wire.OutPoint{spentOp}, []*wire.TxOut{{Value: spentVal - 1, PkScript: ce.OpTrue}}, 0, 0xffffffff)
			bad = tr.Extend(side, ce.BlockOpt{TimeDelta: 3, Txs: []*wire.MsgTx{tx}})
		} else {
			bad = tr.Extend(side, ce.BlockOpt{TimeDelta: 3, Break: "coinbase-overpay"})
		}
		if bad.Self != ce.InvalidConnect {
			t.Fatalf("VERIF-INFRA: failing block labelled %v (%s)", bad.Self, bad.Rule)
		}
		firstSub := len(tr.Nodes)
		nSub := rapid.IntRange(1, 3).Draw(t, "subBranches")
		attempts := 0
		for b := 0; b < nSub; b++ {
			n := bad
			for i := 0; i < rapid.IntRange(1, 4).Draw(t, "subLen"); i++ {
				n = tr.Extend(n, ce.BlockOpt{TimeDelta: int64(2 + b)})
			}
			if n.WorkSum.Cmp(tip.WorkSum) > 0 {
				attempts++
			}
		}
		endSub := len(tr.Nodes)
		// valid branch from the valid prefix (or from the fork block on the main chain)
		from := prefix[rapid.IntRange(0, len(prefix)-1).Draw(t, "growFrom")]
		good := from
		best := tip // the most-work valid block so far (the valid prefix may already be ahead of the main chain)
		for _, n := range prefix {
			if n.WorkSum.Cmp(best.WorkSum) > 0 {
				best = n
			}
		}
		for good.WorkSum.Cmp(best.WorkSum) <= 0 || rapid.IntRange(0, 2).Draw(t, "more") == 0 {
			good = tr.Extend(good, ce.BlockOpt{TimeDelta: 5})
			if good.Height > best.Height+3 {
				break
			}
		}
		order := append([]*ce.Node(nil), tr.Nodes[1:]...)
		byLevel := rapid.Bool().Draw(t, "levelByLevel")
		if byLevel {
			d := order[firstSub-1 : endSub-1]
			sort.SliceStable(d, func(i, j int) bool { return d[i].Height < d[j].Height })
		}
		cl := "no-attempt"
		switch {
		case attempts >= 2:
			cl = "several-failed-attempts"
		case attempts == 1:
			cl = "one-failed-attempt"
		}
		desc := fmt.Sprintf("main %d, fork at %d, valid prefix %d, failing block node%d (%s), %d sub-branches (%d out-work the main chain), level by level %v, valid branch from node%d to node%d", mainLen, forkAt, nPrefix, bad.Idx, bad.Rule, nSub, attempts, byLevel, from.Idx, good.Idx)
		recPrefix.Case(attempts >= 2, cl, ev.HashS(tr.Describe()+fmt.Sprint(byLevel)), func() any { return desc })
		env, err := ce.NewEnv(params, ce.EnvOpt{UtxoCacheMaxSize: rapid.SampledFrom([]uint64{0, 100 << 20}).Draw(t, "utxoCache")})
		if err != nil {
			t.Fatalf("VERIF-INFRA: %v", err)
		}
		defer env.Close()
		sel := ce.NewSel(tr)
		for _, n := range order {
			out := sel.DeliverBlock(n)
			_, _, err := env.Deliver(n)
			if out.MustError && err == nil {
				t.Fatalf("node%d accepted although %s\n%s\ntree: %s", n.Idx, out.Why, desc, tr.Describe())
			}
			if out.MustSucceed && err != nil {
				t.Fatalf("node%d rejected with %v although %s\n%s\ntree: %s", n.Idx, err, out.Why, desc, tr.Describe())
			}
			if err := ce.CheckTip(env, sel); err != nil {
				t.Fatalf("after node%d: %v\n%s\ntree: %s", n.Idx, err, desc, tr.Describe())
			}
		}
		if sel.Tip != good {
			t.Fatalf("VERIF-INFRA: the model's final tip is node%d, expected the valid branch node%d\n%s", sel.Tip.Idx, good.Idx, desc)
		}
	})
}
