package c01

import (
	"fmt"
	"testing"
	"time"

	"github.com/btcsuite/btcd/chaincfg/v2"
	"github.com/btcsuite/btcd/wire/v2"
	"pgregory.net/rapid"

	ce "verif/internal/chainenv"
	"verif/internal/ev"
)

// ---------------------------------------------------------------------------
// context independence, soft-fork part: which script/sequence rules apply to
// a block is decided by the version-bits history of the block's OWN branch,
// also while another branch with a different history is the active chain.

var recDeploy = ev.New("C01", "reorg-deployment-context",
	"the CSV deployment is installed as a real version-bits deployment (bit 0, always started, never ending, window 3-4, threshold = window); two branches fork inside the first window: one signals in every block (CSV active from the first block of window 3), "+
		"the other never signals (CSV never active); branch X is delivered first and is active, the candidate sits on branch Y at a height at which the two branches are in different states, and Y then grows past X so that the candidate is validated by a reorganisation while X is still the best chain; "+
		"the candidate carries a transaction whose validity depends on the CSV rules: a version-1 spend of a '1 CHECKSEQUENCEVERIFY' output (BIP112), a version-2 spend whose relative lock is one block too young (BIP68), or a lock time between median time past and block time (BIP113); "+
		"oracle: textbook BIP9 state of the candidate's own branch (Defined, Started at the first window boundary, LockedIn after a fully signalling window, Active one window later) decides the by-construction label, through the chain-selection model; "+
		"non-trivial = every case (the states of the two branches differ at the candidate's height); distinct by (signalling branch, rule, block hash)",
	"active-on-own-branch-only", "active-on-other-branch-only")

// csvActiveFor reports whether the CSV rules apply to a block built on parent,
// for a deployment that starts at once, never ends, window w, threshold w.
func csvActiveFor(parent *ce.Node, w int32) bool {
	h := parent.Height + 1
	win := h / w // window of the block
	if win < 3 {
		return false // windows 0/1/2 = Defined/Started/(at best) LockedIn
	}
	path := parent.Path()
	// locked in at the start of window L if window L-1 (>= 1, state Started) signalled in every block
	for l := int32(2); l <= win-1; l++ {
		all := true
		for hh := (l - 1) * w; hh < l*w; hh++ {
			v := uint32(path[hh].Msg.Header.Version)
			if v&0xe0000000 != 0x20000000 || v&1 == 0 {
				all = false
			}
		}
		if all {
			return true // LockedIn in window l, Active from window l+1 <= win
		}
	}
	return false
}

func TestReorgDeployment(t *testing.T) {
	csvScript := []byte{0x51, 0xb2}
	rapid.Check(t, func(t *rapid.T) {
		w := int32(rapid.IntRange(3, 4).Draw(t, "window"))
		p := chaincfg.RegressionNetParams
		p.Name = "verif-reorg-deploy"
		p.CoinbaseMaturity = 1
		p.MinerConfirmationWindow = uint32(w)
		p.RuleChangeActivationThreshold = uint32(w)
		p.Deployments[chaincfg.DeploymentCSV] = chaincfg.ConsensusDeployment{
			BitNumber:         0,
			DeploymentStarter: chaincfg.NewMedianTimeDeploymentStarter(time.Time{}),
			DeploymentEnder:   chaincfg.NewMedianTimeDeploymentEnder(time.Time{}),
		}
		tr := ce.NewTree(ce.FamFlat, &p)
		ySignals := rapid.Bool().Draw(t, "candidateBranchSignals")
		ver := func(signal bool) int32 {
			if signal {
				return 0x20000001
			}
			return 0x20000000
		}
		dt := func(label string) int64 { return int64(rapid.IntRange(2, 30).Draw(t, label)) }
		// common part: stays inside window 0
		fork := tr.Genesis
		for i := 0; i < rapid.IntRange(0, int(w)-1).Draw(t, "base"); i++ {
			fork = tr.Extend(fork, ce.BlockOpt{Version: ver(rapid.Bool().Draw(t, "baseSignal")), TimeDelta: dt("dtBase"), PayScript: csvScript})
		}
		// X: long enough to be active (when it signals) and to be the best chain
		x := fork
		xTop := 3*w + int32(rapid.IntRange(1, 4).Draw(t, "xBeyond"))
		for x.Height < xTop {
			x = tr.Extend(x, ce.BlockOpt{Version: ver(!ySignals), TimeDelta: dt("dtX"), PayScript: csvScript})
		}
		// Y up to the candidate's parent: at least into window 3, never above X (X stays best)
		y := fork
		yTop := 3*w - 1 + int32(rapid.IntRange(0, int(x.Height-3*w)).Draw(t, "yBeyond"))
		for y.Height < yTop {
			y = tr.Extend(y, ce.BlockOpt{Version: ver(ySignals), TimeDelta: dt("dtY"), PayScript: csvScript})
		}
		active := csvActiveFor(y, w)
		if active != ySignals || csvActiveFor(x.Ancestor(y.Height), w) == active {
			t.Fatalf("VERIF-INFRA: branch construction: active on Y=%v (signals %v), on X at that height=%v", active, ySignals, csvActiveFor(x.Ancestor(y.Height), w))
		}
		// candidate
		var sp []wire.OutPoint
		for _, o := range y.Utxo.SortedOutpoints() {
			c := y.Utxo[o]
			if string(c.PkScript) == string(csvScript) && y.Height+1-c.Height >= 1 {
				sp = append(sp, o)
			}
		}
		if len(sp) == 0 {
			t.Fatalf("VERIF-INFRA: no spendable coin on the candidate's branch")
		}
		op := sp[rapid.IntRange(0, len(sp)-1).Draw(t, "coin")]
		coin := y.Utxo[op]
		rule := rapid.SampledFrom([]string{"csv-opcode-version-1-spender", "bip68-too-young", "locktime-between-mtp-and-blocktime"}).Draw(t, "rule")
		opt := ce.BlockOpt{Version: ver(ySignals), PayScript: csvScript}
		var tx *wire.MsgTx
		out := []*wire.TxOut{{Value: coin.Value, PkScript: ce.OpTrue}}
		switch rule {
		case "csv-opcode-version-1-spender":
			tx = ce.SpendTx(1, []wire.OutPoint{op}, out, 0, 0xffffffff)
		case "bip68-too-young":
			age := uint32(y.Height + 1 - coin.Height)
			tx = ce.SpendTx(2, []wire.OutPoint{op}, out, 0, age+1)
		default:
			mtp := y.MTP()
			opt.AbsTime = y.Time() + 5
			if opt.AbsTime <= mtp {
				opt.AbsTime = mtp + 1
			}
			tx = ce.SpendTx(1, []wire.OutPoint{op}, out, uint32(mtp), 0xfffffffe)
		}
		opt.Txs = []*wire.MsgTx{tx}
		if active {
			opt.Label, opt.Rule = ce.InvalidConnect, "csv-rule:"+rule
			if rule == "locktime-between-mtp-and-blocktime" {
				opt.Label = ce.InvalidContext
			}
		}
		if opt.AbsTime == 0 {
			opt.TimeDelta = dt("dtCand")
		}
		cand := tr.Extend(y, opt)
		// Y grows past X
		last := cand
		for last.WorkSum.Cmp(x.WorkSum) <= 0 || rapid.IntRange(0, 2).Draw(t, "more") == 0 {
			last = tr.Extend(last, ce.BlockOpt{Version: ver(ySignals), TimeDelta: 31, PayScript: csvScript})
			if last.Height > x.Height+3 {
				break
			}
		}
		cl := "active-on-other-branch-only"
		if active {
			cl = "active-on-own-branch-only"
		}
		recDeploy.Case(true, cl, ev.Hash(cand.Hash[:], []byte(rule)), func() any {
			return map[string]any{"window": w, "candidate_branch_signals": ySignals, "rule": rule, "candidate_height": cand.Height, "x_tip_height": x.Height, "expected_valid": !active}
		})
		recDeploy.Count("rule:"+rule, 1)

		env, err := ce.NewEnv(tr.Params, ce.EnvOpt{UtxoCacheMaxSize: 1 << 20})
		if err != nil {
			t.Fatalf("VERIF-INFRA: %v", err)
		}
		defer env.Close()
		sel := ce.NewSel(tr)
		desc := func() string {
			return fmt.Sprintf("window %d; candidate node%d at height %d on the branch that signals=%v (CSV active for it: %v), rule %s, label %v/%s; X tip node%d (height %d), Y tip node%d\ntree: %s",
				w, cand.Idx, cand.Height, ySignals, active, rule, cand.Self, cand.Rule, x.Idx, x.Height, last.Idx, tr.Describe())
		}
		var order []*ce.Node
		for _, n := range tr.Nodes[1:] {
			if n.IsAncestorOf(x) {
				order = append(order, n)
			}
		}
		for _, n := range tr.Nodes[1:] {
			if !n.IsAncestorOf(x) {
				order = append(order, n)
			}
		}
		for _, n := range order {
			out := sel.DeliverBlock(n)
			_, _, err := env.Deliver(n)
			if out.MustError && err == nil {
				t.Fatalf("node%d accepted although %s\n%s", n.Idx, out.Why, desc())
			}
			if out.MustSucceed && err != nil {
				t.Fatalf("node%d rejected with %v although %s\n%s", n.Idx, err, out.Why, desc())
			}
			if err := ce.CheckTip(env, sel); err != nil {
				t.Fatalf("after node%d: %v\n%s", n.Idx, err, desc())
			}
		}
		if cand.Self != ce.Valid && cand.IsAncestorOf(sel.Tip) {
			t.Fatalf("the invalid candidate is part of the active chain\n%s", desc())
		}
		if cand.Self == ce.Valid && !cand.IsAncestorOf(sel.Tip) {
			t.Fatalf("VERIF-INFRA: model did not make the valid candidate's branch active\n%s", desc())
		}
	})
}
