package c01

import (
	"fmt"
	"os"
	"sort"
	"strings"
	"testing"

	"github.com/btcsuite/btcd/blockchain"
	"github.com/btcsuite/btcd/btcutil/v2"
	"github.com/btcsuite/btcd/txscript/v2"
	"pgregory.net/rapid"

	ce "verif/internal/chainenv"
	"verif/internal/ev"
	"verif/internal/scratch"
)

func TestMain(m *testing.M) {
	code := m.Run()
	scratch.Sweep()
	ev.Flush()
	os.Exit(code)
}

var ruleNames = func() []string {
	var out []string
	for _, e := range catalogue() {
		out = append(out, e.name+"/valid", e.name+"/invalid")
	}
	return out
}()

var recRule = ev.New("C01", "rule-catalogue",
	"a generated block tree (5-20 blocks, families flat / version-gates+halving / no-BIP34 / variable-work / retarget-every-4-blocks with the minimum-difficulty exception, without and with the BIP94 base, spending transactions) plus ONE candidate block built by a catalogue entry on a generated parent: "+
		"valid by construction, on the valid side of the rule's limit, or breaking exactly that rule (proof of work, bits, median-time and 2h timestamp bounds, sub-second time, version gates, coinbase script length, BIP34 height, coinbase value across halvings, "+
		"legacy and P2SH sigop limits 80000/80004, stripped size 1000000/1000001, merkle root, duplicate-tail merkle mutation, transaction structure, missing/spent/double-spent/later-in-block inputs, value conservation, coinbase maturity-1/maturity, "+
		"lock-time finality by height and by median time, BIP68 height and 512-second sequence locks at age n/n+1 with the version-1 and disable-bit exemptions, BIP30 overwrite of an unspent/spent coinbase, witness commitment variants, P2PKH signature, and the script flags a block position implies: P2SH redeem execution, DER gate, CHECKLOCKTIMEVERIFY gate, null dummy, P2WPKH signature/amount/empty witness, taproot key path); "+
		"0-3 descendants on the candidate and 0-2 competing blocks so that the candidate extends the tip, sits on a side chain that is validated by a reorganisation, or arrives as an orphan; template check, re-open before delivery, signature/hash caches on/off; "+
		"oracle: the generator's by-construction label through the chain-selection model - an invalid candidate must never be on the active chain and must be rejected/fail to connect, a valid one must be accepted and become active when it carries the most work; "+
		"CheckConnectBlockTemplate agrees for tip extensions; non-trivial = candidate is one side of a rule of the catalogue and was evaluated in its position; distinct by (rule, side, position, family, block hash)",
	ruleNames...)

// uniform draws an index in [0,n) without rapid's bias towards small values.
func uniform(t *rapid.T, n int, label string) int {
	if n <= 1 {
		return 0
	}
	bits := 0
	for 1<<bits < n {
		bits++
	}
	for try := 0; try < 4; try++ {
		v := 0
		for i := 0; i < bits; i++ {
			if rapid.Bool().Draw(t, label) {
				v |= 1 << i
			}
		}
		if v < n {
			return v
		}
	}
	return rapid.IntRange(0, n-1).Draw(t, label)
}

func TestRuleCatalogue(t *testing.T) {
	cat := catalogue()
	rapid.Check(t, func(t *rapid.T) {
		fam := rapid.SampledFrom([]ce.Family{ce.FamFlat, ce.FamGates, ce.FamGates, ce.FamNoBIP34, ce.FamWork, ce.FamRetarget, ce.FamRetarget94}).Draw(t, "fam")
		minB := 5
		if fam == ce.FamGates {
			minB = 3
		}
		tr := ce.GenTree(t, ce.TreeCfg{Families: []ce.Family{fam}, MinBlocks: minB, MaxBlocks: ev.Scale(14, 24), Txs: true, ForkProb: 25, Maturity: []uint16{1, 2, 3, 5}, BigSteps: true})
		envNow := int64(ce.T0 + 100000000)

		// pick an entry and a parent on which its prerequisites hold
		invalid := rapid.IntRange(0, 2).Draw(t, "side") > 0
		var cand *ce.Node
		var c *ctx
		var ent entry
		for try := 0; try < 4 && cand == nil; try++ {
			ent = cat[uniform(t, len(cat), "entry")]
			var parents []*ce.Node
			for _, n := range tr.Nodes {
				if n.ChainValid {
					parents = append(parents, n)
				}
			}
			for ptry := 0; ptry < 6 && cand == nil; ptry++ {
				parent := parents[uniform(t, len(parents), "parent")]
				if ptry == 0 && rapid.Bool().Draw(t, "preferLeaf") {
					// the most-work valid leaf: the candidate will extend the tip
					for _, n := range parents {
						if n.WorkSum.Cmp(parent.WorkSum) > 0 {
							parent = n
						}
					}
				}
				c = &ctx{t: t, tr: tr, parent: parent, invalid: invalid, now: envNow}
				cand = ent.build(c)
			}
		}
		if cand == nil {
			t.Skip("no catalogue entry applicable to this tree")
		}
		wantValid := !invalid
		if len(c.pre) > 0 {
			// the invalid object of this entry is the mutated encoding delivered
			// first; the candidate itself is the genuine, valid block
			wantValid = true
		}
		if wantValid && cand.Self == ce.InvalidConnect && cand.Rule == "bip30-overwrite" && tr.Family == ce.FamNoBIP34 {
			// without BIP34 an identical coinbase re-creates a txid, and an identical spend of it
			// re-creates the spender's txid while the first copy is unspent: the model is right to
			// label the candidate a BIP30 violation; it is checked as such
			recRule.Count("relabelled:bip30-overwrite", 1)
			wantValid = false
		}
		if (cand.Self == ce.Valid) != wantValid {
			t.Fatalf("VERIF-INFRA: entry %s built a block labelled %v (%s) for side invalid=%v\ncandidate node%d on node%d; tree: %s", ent.name, cand.Self, cand.Rule, invalid, cand.Idx, cand.Parent.Idx, tr.Describe())
		}
		// descendants on the candidate and competitors on the best other leaf
		firstDesc := len(tr.Nodes)
		if !c.leafOnly {
			last := cand
			for i := 0; i < rapid.IntRange(0, 3).Draw(t, "descendants"); i++ {
				last = tr.Extend(last, ce.BlockOpt{Hard: rapid.Bool().Draw(t, "hardDesc")})
			}
			// a second branch below the candidate (two reorganisation attempts through the same block)
			if rapid.IntRange(0, 3).Draw(t, "secondBranch") == 0 {
				last = cand
				for i := 0; i < rapid.IntRange(1, 3).Draw(t, "descendants2"); i++ {
					last = tr.Extend(last, ce.BlockOpt{Hard: rapid.Bool().Draw(t, "hardDesc2")})
				}
			}
		}
		endDesc := len(tr.Nodes)
		for i := 0; i < rapid.IntRange(0, 2).Draw(t, "competitors"); i++ {
			var best *ce.Node
			for _, n := range tr.Nodes {
				if n.ChainValid && !cand.IsAncestorOf(n) && (best == nil || n.WorkSum.Cmp(best.WorkSum) > 0) {
					best = n
				}
			}
			tr.Extend(best, ce.BlockOpt{})
		}

		// valid siblings of the candidate, delivered last: whatever happened to the candidate and to the
		// blocks below it, blocks that extend its (valid) parent are judged on their own ancestry
		if rapid.IntRange(0, 2).Draw(t, "siblings") == 0 {
			sib := cand.Parent
			for i := 0; i < rapid.IntRange(1, 4).Draw(t, "siblingBranch"); i++ {
				sib = tr.Extend(sib, ce.BlockOpt{})
			}
		}

		// delivery order: tree order, the candidate optionally before its parent (orphan)
		order := append([]*ce.Node(nil), tr.Nodes[1:]...)
		if rapid.Bool().Draw(t, "descendantsByHeight") && endDesc > firstDesc {
			// the blocks below the candidate level by level instead of branch by branch
			d := order[firstDesc-1 : endDesc-1]
			sort.SliceStable(d, func(i, j int) bool { return d[i].Height < d[j].Height })
		}
		asOrphan := rapid.IntRange(0, 4).Draw(t, "asOrphan") == 0 && cand.Parent.Parent != nil
		if asOrphan {
			// move the candidate right before its parent
			var o2 []*ce.Node
			for _, n := range order {
				if n == cand {
					continue
				}
				if n == cand.Parent {
					o2 = append(o2, cand)
				}
				o2 = append(o2, n)
			}
			order = o2
		}
		opt := ce.EnvOpt{UtxoCacheMaxSize: rapid.SampledFrom([]uint64{0, 1 << 10, 100 << 20}).Draw(t, "utxoCache")}
		if rapid.Bool().Draw(t, "caches") {
			opt.SigCache = txscript.NewSigCache(1000)
			opt.HashCache = txscript.NewHashCache(1000)
		}
		env, err := ce.NewEnv(tr.Params, opt)
		if err != nil {
			t.Fatalf("VERIF-INFRA: %v", err)
		}
		defer env.Close()
		if env.Clock.Now.Unix() != envNow {
			t.Fatalf("VERIF-INFRA: clock")
		}
		sel := ce.NewSel(tr)
		position := "side"
		reopenBefore := rapid.IntRange(0, 5).Draw(t, "reopen") == 0
		desc := func() string {
			return fmt.Sprintf("candidate node%d rule=%s side invalid=%v label=%v/%s position=%s\ntree: %s", cand.Idx, ent.name, invalid, cand.Self, cand.Rule, position, tr.Describe())
		}
		templateChecked := false
		for _, n := range order {
			if n == cand {
				if reopenBefore {
					if err := env.Reopen(rapid.Bool().Draw(t, "flushOnClose")); err != nil {
						t.Fatalf("re-open: %v\n%s", err, desc())
					}
				}
				switch {
				case asOrphan:
					position = "orphan"
				case n.Parent == sel.Tip:
					position = "tip"
				}
				// mutated encodings sharing the candidate's hash must be rejected first
				for _, m := range c.pre {
					_, _, err := env.Chain.ProcessBlock(btcutil.NewBlock(m), blockchain.BFNone)
					if err == nil {
						t.Fatalf("mutated encoding (duplicated last transaction, same merkle root and block hash) of node%d was accepted\n%s", cand.Idx, desc())
					}
					if err := ce.CheckTip(env, sel); err != nil {
						t.Fatalf("after the mutated encoding: %v\n%s", err, desc())
					}
				}
				if position == "tip" {
					// the template check ignores the proof of work only
					terr := env.Chain.CheckConnectBlockTemplate(n.Block())
					wantOK := n.Self == ce.Valid || n.Rule == "high-hash"
					if (terr == nil) != wantOK {
						t.Fatalf("CheckConnectBlockTemplate(candidate) = %v, expected ok=%v\n%s", terr, wantOK, desc())
					}
					templateChecked = true
				}
			}
			out := sel.DeliverBlock(n)
			_, orphan, err := env.Deliver(n)
			if out.MustError && err == nil {
				t.Fatalf("node%d accepted although %s\n%s", n.Idx, out.Why, desc())
			}
			if out.MustSucceed && err != nil {
				t.Fatalf("node%d rejected with %v although %s\n%s", n.Idx, err, out.Why, desc())
			}
			if out.MustSucceed && orphan != out.IsOrphan {
				t.Fatalf("node%d orphan=%v, model %v\n%s", n.Idx, orphan, out.IsOrphan, desc())
			}
			if err := ce.CheckTip(env, sel); err != nil {
				t.Fatalf("after node%d: %v\n%s", n.Idx, err, desc())
			}
		}
		// final verdict
		tip := sel.Tip
		onChain := cand.IsAncestorOf(tip)
		if cand.Self != ce.Valid && onChain {
			t.Fatalf("the invalid candidate is part of the active chain\n%s", desc())
		}
		h := cand.Hash
		if cand.Self == ce.Valid && cand.ChainValid && sel.Arrived[cand] {
			if have, _ := env.Chain.HaveBlock(&h); !have {
				t.Fatalf("the valid candidate is not known to the node\n%s", desc())
			}
		}
		// the utxo set must be the fold of the final chain (double spends / stale entries would show here)
		if err := ce.CheckUtxo(env, tip, tr.Universe()); err != nil {
			t.Fatalf("%v\n%s", err, desc())
		}
		if position == "side" && onChain {
			position = "side-reorg"
		} else if position == "side" && cand.Self != ce.Valid {
			// was a reorganisation through the candidate attempted? yes iff some descendant out-worked the tip
			for _, n := range tr.Nodes {
				if cand.IsAncestorOf(n) && n != cand && n.WorkSum.Cmp(tip.WorkSum) > 0 {
					position = "side-reorg"
				}
			}
		}
		side := "valid"
		if invalid {
			side = "invalid"
		}
		recRule.Count("position:"+position, 1)
		recRule.Count("family:"+string(tr.Family), 1)
		if templateChecked {
			recRule.Count("template-checked", 1)
		}
		if reopenBefore {
			recRule.Count("after-reopen", 1)
		}
		if cand.Rule != "" {
			recRule.Count("rule:"+cand.Rule, 1)
		}
		recRule.Case(true, ent.name+"/"+side, ev.Hash(cand.Hash[:], []byte(position)), func() any {
			return map[string]any{"rule": ent.name, "side": side, "label": cand.Self.String() + ":" + cand.Rule, "position": position, "family": tr.Family, "candidate_height": cand.Height,
				"delivery": strings.Join(func() []string {
					var s []string
					for _, n := range order {
						s = append(s, fmt.Sprintf("node%d", n.Idx))
					}
					return s
				}(), " ")}
		})
	})
}

// ---------------------------------------------------------------------------
// context independence: the verdict must come from the candidate's own
// ancestors even while a different branch is the active chain.

var recCtx = ev.New("C01", "reorg-context",
	"two branches from a common fork point with deliberately different timestamp patterns (1-3 s steps versus steps of minutes) and different coin ages; branch X is delivered first and is active; the candidate sits on branch Y at least two blocks above the fork and is built by one of the context-dependent catalogue entries "+
		"(BIP68 time and height locks, lock-time finality by median time and by height, coinbase maturity, median-time timestamp rule, input availability) from coins of its OWN branch; Y then grows past X so that the candidate is validated during a reorganisation while X is still the best chain; "+
		"oracle: by-construction label through the chain-selection model (valid => Y becomes active, invalid => the node stays on X) and final UTXO fold; non-trivial = every case (the candidate's context differs from the active chain's at the same heights); distinct by (rule, side, block hash)",
	"bip68-time/valid", "bip68-time/invalid", "bip68-height/valid", "bip68-height/invalid", "locktime-time/valid", "locktime-time/invalid", "coinbase-maturity/valid", "coinbase-maturity/invalid")

func TestReorgContext(t *testing.T) {
	all := catalogue()
	var cat []entry
	for _, e := range all {
		switch e.name {
		case "bip68-time", "bip68-height", "locktime-time", "locktime-height", "coinbase-maturity", "time-mtp", "inputs":
			cat = append(cat, e)
		}
	}
	rapid.Check(t, func(t *rapid.T) {
		mat := rapid.SampledFrom([]uint16{1, 2, 3}).Draw(t, "maturity")
		tr := ce.NewTree(ce.FamFlat, ce.NewParams(ce.FamFlat, mat))
		step := func(fast bool, label string) int64 {
			if fast {
				return int64(rapid.IntRange(1, 3).Draw(t, label))
			}
			return rapid.SampledFrom([]int64{300, 512, 700, 1100}).Draw(t, label)
		}
		xFast := rapid.Bool().Draw(t, "xFast")
		cur := tr.Genesis
		for i := 0; i < rapid.IntRange(1, 3).Draw(t, "base"); i++ {
			cur = tr.Extend(cur, ce.BlockOpt{TimeDelta: step(true, "dtBase")})
		}
		fork := cur
		// branch X (active first)
		x := fork
		xLen := rapid.IntRange(3, 8).Draw(t, "xLen")
		for i := 0; i < xLen; i++ {
			x = tr.Extend(x, ce.BlockOpt{TimeDelta: step(xFast, "dtX"), Txs: ce.GenTxs(t, tr, x, rapid.IntRange(0, 1).Draw(t, "xTxs"))})
		}
		// branch Y up to the candidate's parent: shorter than X
		y := fork
		yPre := rapid.IntRange(2, xLen-1).Draw(t, "yPre")
		for i := 0; i < yPre; i++ {
			y = tr.Extend(y, ce.BlockOpt{TimeDelta: step(!xFast, "dtY"), Txs: ce.GenTxs(t, tr, y, rapid.IntRange(0, 2).Draw(t, "yTxs"))})
		}
		invalid := rapid.Bool().Draw(t, "invalidSide")
		var cand *ce.Node
		var ent entry
		var c *ctx
		for try := 0; try < 6 && cand == nil; try++ {
			ent = cat[uniform(t, len(cat), "entry")]
			c = &ctx{t: t, tr: tr, parent: y, invalid: invalid, now: int64(ce.T0 + 100000000), preferAbove: fork.Height}
			cand = ent.build(c)
		}
		if cand == nil {
			t.Skip("no entry applicable")
		}
		// Y grows past X
		last := cand
		for last.WorkSum.Cmp(x.WorkSum) <= 0 || rapid.IntRange(0, 2).Draw(t, "more") == 0 {
			last = tr.Extend(last, ce.BlockOpt{TimeDelta: step(!xFast, "dtY2")})
			if last.Height > x.Height+3 {
				break
			}
		}
		env, err := ce.NewEnv(tr.Params, ce.EnvOpt{UtxoCacheMaxSize: rapid.SampledFrom([]uint64{0, 1 << 20}).Draw(t, "utxoCache")})
		if err != nil {
			t.Fatalf("VERIF-INFRA: %v", err)
		}
		defer env.Close()
		sel := ce.NewSel(tr)
		desc := func() string {
			return fmt.Sprintf("candidate node%d rule=%s invalid=%v label=%v/%s, fork node%d, X tip node%d, Y tip node%d\ntree: %s", cand.Idx, ent.name, invalid, cand.Self, cand.Rule, fork.Idx, x.Idx, last.Idx, tr.Describe())
		}
		// X first, then Y (tree order within each)
		var order []*ce.Node
		for _, n := range tr.Nodes[1:] {
			if n.IsAncestorOf(x) {
				order = append(order, n)
			}
		}
		for _, n := range tr.Nodes[1:] {
			if !n.IsAncestorOf(x) {
				order = append(order, n)
			}
		}
		for _, n := range order {
			out := sel.DeliverBlock(n)
			_, _, err := env.Deliver(n)
			if out.MustError && err == nil {
				t.Fatalf("node%d accepted although %s\n%s", n.Idx, out.Why, desc())
			}
			if out.MustSucceed && err != nil {
				t.Fatalf("node%d rejected with %v although %s\n%s", n.Idx, err, out.Why, desc())
			}
			if err := ce.CheckTip(env, sel); err != nil {
				t.Fatalf("after node%d: %v\n%s", n.Idx, err, desc())
			}
		}
		if cand.Self != ce.Valid && cand.IsAncestorOf(sel.Tip) {
			t.Fatalf("the invalid candidate is part of the active chain\n%s", desc())
		}
		if err := ce.CheckUtxo(env, sel.Tip, tr.Universe()); err != nil {
			t.Fatalf("%v\n%s", err, desc())
		}
		side := "valid"
		if invalid {
			side = "invalid"
		}
		recCtx.Case(true, ent.name+"/"+side, ev.Hash(cand.Hash[:]), func() any {
			return map[string]any{"rule": ent.name, "side": side, "label": cand.Self.String() + ":" + cand.Rule, "x_fast_timestamps": xFast, "fork_height": fork.Height, "candidate_height": cand.Height}
		})
	})
}
