// Package c09 decides property C09: compact targets, work, retarget,
// proof-of-work check, median time past and subsidy equal the protocol.
//
// ref.go is the exact integer reference, written from Bitcoin Core's
// arith_uint256::SetCompact/GetCompact, pow.cpp and validation.cpp
// (GetBlockSubsidy) semantics with math/big. It shares no code with btcd.
package c09

import (
	"math/big"
	"sort"
)

var (
	b256  = big.NewInt(256)
	two256 = new(big.Int).Exp(big.NewInt(2), big.NewInt(256), nil)
)

// refCompactToBig: N = (-1)^sign * floor(mantissa * 256^(exponent-3)).
func refCompactToBig(c uint32) *big.Int {
	mant := big.NewInt(int64(c & 0x007fffff))
	exp := int64(c >> 24)
	// floor(mant * 256^exp / 256^3)
	num := new(big.Int).Mul(mant, new(big.Int).Exp(b256, big.NewInt(exp), nil))
	num.Quo(num, big.NewInt(256*256*256))
	if c&0x00800000 != 0 {
		num.Neg(num)
	}
	return num
}

// refBigToCompact is arith_uint256::GetCompact extended with the sign bit
// (CBigNum style): the exponent is the byte length of |n|, plus one when the
// top bit of the top byte is set; the mantissa is |n| scaled to that exponent
// (truncating).
func refBigToCompact(n *big.Int) uint32 {
	if n.Sign() == 0 {
		return 0
	}
	a := new(big.Int).Abs(n)
	size := int64((a.BitLen() + 7) / 8)
	if a.BitLen()%8 == 0 { // top bit of the top byte set
		size++
	}
	// mantissa = floor(a * 256^3 / 256^size)
	m := new(big.Int).Mul(a, big.NewInt(256*256*256))
	m.Quo(m, new(big.Int).Exp(b256, big.NewInt(size), nil))
	c := uint32(size)<<24 | uint32(m.Uint64())
	if n.Sign() < 0 {
		c |= 0x00800000
	}
	return c
}

// refWork = floor(2^256 / (target+1)), 0 for target <= 0.
func refWork(bits uint32) *big.Int {
	t := refCompactToBig(bits)
	if t.Sign() <= 0 {
		return new(big.Int)
	}
	return new(big.Int).Quo(two256, new(big.Int).Add(t, big.NewInt(1)))
}

// refHashToBig interprets the 32 bytes as a little-endian number.
func refHashToBig(h [32]byte) *big.Int {
	r := new(big.Int)
	for i := 31; i >= 0; i-- {
		r.Mul(r, b256)
		r.Add(r, big.NewInt(int64(h[i])))
	}
	return r
}

// hdr is one header of a reference history (index = height).
type hdr struct {
	Time int64
	Bits uint32
}

// netParams are the consensus parameters the reference needs.
type netParams struct {
	PowLimit       *big.Int
	PowLimitBits   uint32
	NoRetarget     bool
	BIP94          bool
	AllowMinDiff   bool
	MinDiffSeconds int64 // protocol: 2 * spacing
	Timespan       int64 // seconds
	Spacing        int64 // seconds
	Factor         int64 // 4
}

func (p *netParams) interval() int64 { return p.Timespan / p.Spacing }

// refNextBits is GetNextWorkRequired for the block following chain[len-1]
// whose timestamp is newTime.
func refNextBits(chain []hdr, newTime int64, p *netParams) uint32 {
	if p.NoRetarget {
		return p.PowLimitBits
	}
	if len(chain) == 0 {
		return p.PowLimitBits
	}
	lastH := int64(len(chain) - 1)
	last := chain[lastH]
	iv := p.interval()
	if (lastH+1)%iv != 0 {
		if p.AllowMinDiff {
			if newTime > last.Time+p.MinDiffSeconds {
				return p.PowLimitBits
			}
			h := lastH
			for h > 0 && h%iv != 0 && chain[h].Bits == p.PowLimitBits {
				h--
			}
			return chain[h].Bits
		}
		return last.Bits
	}
	first := chain[lastH-(iv-1)]
	actual := last.Time - first.Time
	lo, hi := p.Timespan/p.Factor, p.Timespan*p.Factor
	if actual < lo {
		actual = lo
	}
	if actual > hi {
		actual = hi
	}
	old := refCompactToBig(last.Bits)
	if p.BIP94 {
		old = refCompactToBig(first.Bits)
	}
	nt := new(big.Int).Mul(old, big.NewInt(actual))
	nt.Quo(nt, big.NewInt(p.Timespan))
	if nt.Cmp(p.PowLimit) > 0 {
		nt.Set(p.PowLimit)
	}
	return refBigToCompact(nt)
}

// refMTP is the median-time-past of the block at the end of chain: the
// element at index n/2 of the sorted timestamps of the last n<=11 blocks.
func refMTP(chain []hdr) int64 {
	n := len(chain)
	if n > 11 {
		n = 11
	}
	ts := make([]int64, 0, n)
	for i := len(chain) - n; i < len(chain); i++ {
		ts = append(ts, chain[i].Time)
	}
	sort.Slice(ts, func(a, b int) bool { return ts[a] < ts[b] })
	return ts[n/2]
}

// refSubsidy = floor(50e8 / 2^floor(h/interval)), 0 from 64 halvings on;
// interval 0 means "never halves".
func refSubsidy(height int64, interval int64) int64 {
	if interval == 0 {
		return 50 * 100000000
	}
	halvings := height / interval
	if halvings >= 64 {
		return 0
	}
	d := new(big.Int).Exp(big.NewInt(2), big.NewInt(halvings), nil)
	return new(big.Int).Quo(big.NewInt(50*100000000), d).Int64()
}
