package c09

import (
	"fmt"
	"sort"
	"testing"
	"time"

	"github.com/btcsuite/btcd/blockchain"
	"github.com/btcsuite/btcd/btcutil/v2"
	"github.com/btcsuite/btcd/chaincfg/v2"
	"github.com/btcsuite/btcd/wire/v2"
	"pgregory.net/rapid"

	ce "verif/internal/chainenv"
	"verif/internal/ev"
)

var recReal = ev.New("C09", "retarget-real-chain",
	"real blocks (coinbase only) mined on synthetic parameter sets (interval 2-6, minimum-difficulty rule on/off, BIP94 on/off, regtest proof-of-work limit) whose bits are set by the reference and whose timestamps are drawn so that periods end below/at/above the 4x clamps and minimum-difficulty gaps sit at exactly 2*spacing and +1; "+
		"delivered to a real BlockChain through ProcessBlock (so the node's own block index, ancestor lookup and median-time code supply the history); oracle: every reference-difficulty block is accepted, a block with the parent's bits is refused when the reference differs, "+
		"and CalcNextRequiredDifficulty(t) equals the reference for candidate times around the minimum-difficulty boundary; non-trivial = chain crosses >= 1 retarget with changed bits or uses the minimum-difficulty rule; distinct by chain hash",
	"retarget-changed", "mindiff-used", "plain")

func TestRetargetRealChain(t *testing.T) {
	rapid.Check(t, func(t *rapid.T) {
		iv := rapid.Int64Range(2, 6).Draw(t, "interval")
		sp := rapid.SampledFrom([]int64{10, 60}).Draw(t, "spacing")
		p := synthParams(iv, sp, rapid.Bool().Draw(t, "mindiff"), rapid.Bool().Draw(t, "bip94"), chaincfg.RegressionNetParams.PowLimit)
		p.CoinbaseMaturity = 1
		np := &netParams{PowLimit: p.PowLimit, PowLimitBits: p.PowLimitBits, BIP94: p.EnforceBIP94, AllowMinDiff: p.ReduceMinDifficulty,
			MinDiffSeconds: int64(p.MinDiffReductionTime / time.Second), Timespan: int64(p.TargetTimespan / time.Second), Spacing: sp, Factor: p.RetargetAdjustmentFactor}
		env, err := ce.NewEnv(p, ce.EnvOpt{UtxoCacheMaxSize: 1 << 20})
		if err != nil {
			t.Fatalf("VERIF-INFRA: %v", err)
		}
		defer env.Close()
		gen := p.GenesisBlock.Header
		chain := []hdr{{gen.Timestamp.Unix(), gen.Bits}}
		prevHash := *p.GenesisHash
		n := int(iv)*rapid.IntRange(1, 3).Draw(t, "periods") + rapid.IntRange(0, int(iv)-1).Draw(t, "extra")
		changed, minUsed := false, false
		ts := int64(ce.T0)
		desc := ""
		for h := 1; h <= n; h++ {
			last := chain[len(chain)-1]
			lo := np.Timespan / np.Factor
			step := rapid.OneOf(
				rapid.SampledFrom([]int64{sp, np.MinDiffSeconds, np.MinDiffSeconds + 1, 1, lo / iv, 4 * sp, 5 * sp}),
				rapid.Int64Range(1, 5*sp)).Draw(t, "step")
			if h > 1 {
				ts = last.Time + step
			}
			mtp := refMTP(chain)
			if ts <= mtp {
				ts = mtp + 1
			}
			if p.EnforceBIP94 && int64(h)%iv == 0 && ts < last.Time-600 {
				ts = last.Time - 600
			}
			bits := refNextBits(chain, ts, np)
			if bits != last.Bits {
				if int64(h)%iv == 0 {
					changed = true
				} else {
					minUsed = true
				}
			}
			mk := func(b uint32) *wire.MsgBlock {
				cb := wire.NewMsgTx(1)
				script := []byte{byte(0x50 + h)}
				if h > 16 {
					script = []byte{0x01, byte(h)}
				}
				script = append(script, 0x51, 0x51)
				cb.AddTxIn(&wire.TxIn{PreviousOutPoint: wire.OutPoint{Index: 0xffffffff}, SignatureScript: script, Sequence: 0xffffffff})
				cb.AddTxOut(&wire.TxOut{Value: 50e8, PkScript: ce.OpTrue})
				m := &wire.MsgBlock{Header: wire.BlockHeader{Version: 0x20000000, PrevBlock: prevHash, Timestamp: time.Unix(ts, 0), Bits: b}, Transactions: []*wire.MsgTx{cb}}
				m.Header.MerkleRoot = cb.TxHash()
				ce.Solve(&m.Header, false)
				return m
			}
			// what the node itself expects for this time
			got, err := env.Chain.CalcNextRequiredDifficulty(time.Unix(ts, 0))
			if err != nil || got != bits {
				t.Fatalf("height %d: CalcNextRequiredDifficulty(%d) = %#08x (%v), reference %#08x; history %+v", h, ts, got, err, bits, chain)
			}
			if p.ReduceMinDifficulty {
				for _, d := range []int64{np.MinDiffSeconds, np.MinDiffSeconds + 1} {
					ct := last.Time + d
					want := refNextBits(chain, ct, np)
					got, err := env.Chain.CalcNextRequiredDifficulty(time.Unix(ct, 0))
					if err != nil || got != want {
						t.Fatalf("height %d: CalcNextRequiredDifficulty(parent+%ds) = %#08x (%v), reference %#08x; history %+v", h, d, got, err, want, chain)
					}
				}
			}
			// a block claiming the parent's bits must be refused when the reference differs
			if bits != last.Bits && compactOK(last.Bits) {
				wrong := mk(last.Bits)
				if _, _, err := env.Chain.ProcessBlock(btcutil.NewBlock(wrong), blockchain.BFNone); err == nil {
					t.Fatalf("height %d: block with the parent's bits %#08x accepted, reference requires %#08x; history %+v", h, last.Bits, bits, chain)
				}
			}
			m := mk(bits)
			if _, _, err := env.Chain.ProcessBlock(btcutil.NewBlock(m), blockchain.BFNone); err != nil {
				t.Fatalf("height %d: block with the reference bits %#08x (time %d) rejected: %v; history %+v", h, bits, ts, err, chain)
			}
			prevHash = m.Header.BlockHash()
			chain = append(chain, hdr{ts, bits})
			desc += fmt.Sprintf("%d:%#x ", ts-ce.T0, bits)
			if got, want := env.Chain.BestSnapshot().MedianTime.Unix(), refMedianOfTail(chain); got != want {
				t.Fatalf("height %d: the chain reports a median time past of %d for its tip, the median of the last 11 timestamps is %d; history %+v", h, got, want, chain)
			}
		}
		// the tip is taken back (no other branch exists): the median time past is that of the new tip
		if len(chain) > 2 {
			if err := env.Chain.InvalidateBlock(&prevHash); err != nil {
				t.Fatalf("InvalidateBlock(tip): %v", err)
			}
			if got, want := env.Chain.BestSnapshot().MedianTime.Unix(), refMedianOfTail(chain[:len(chain)-1]); got != want {
				t.Fatalf("after the tip at height %d was invalidated the chain reports a median time past of %d, the median of the last 11 timestamps of the new tip is %d; history %+v", len(chain)-1, got, want, chain)
			}
			if got, err := env.Chain.CalcNextRequiredDifficulty(time.Unix(chain[len(chain)-1].Time, 0)); err != nil || got != chain[len(chain)-1].Bits {
				t.Fatalf("after the tip was invalidated CalcNextRequiredDifficulty(time of the removed block) = %#08x (%v), that block carried the reference bits %#08x", got, err, chain[len(chain)-1].Bits)
			}
		}
		cl := "plain"
		if minUsed {
			cl = "mindiff-used"
		}
		if changed {
			cl = "retarget-changed"
		}
		recReal.Case(cl != "plain", cl, ev.HashS(p.Name+desc), func() any { return map[string]any{"params": p.Name, "blocks(time:bits)": desc} })
	})
}

func compactOK(b uint32) bool { return refCompactToBig(b).Sign() > 0 }

// refMedianOfTail: median of the last (up to) 11 timestamps, element n/2 of the sorted window.
func refMedianOfTail(chain []hdr) int64 {
	lo := len(chain) - 11
	if lo < 0 {
		lo = 0
	}
	ts := make([]int64, 0, 11)
	for _, h := range chain[lo:] {
		ts = append(ts, h.Time)
	}
	sort.Slice(ts, func(i, j int) bool { return ts[i] < ts[j] })
	return ts[len(ts)/2]
}
