package c09

import (
	"encoding/binary"
	"fmt"
	"math/big"
	"os"
	"testing"
	"time"

	"github.com/btcsuite/btcd/blockchain"
	"github.com/btcsuite/btcd/btcutil/v2"
	"github.com/btcsuite/btcd/chaincfg/v2"
	"github.com/btcsuite/btcd/chainhash/v2"
	"github.com/btcsuite/btcd/database"
	_ "github.com/btcsuite/btcd/database/ffldb"
	"github.com/btcsuite/btcd/wire/v2"
	"pgregory.net/rapid"

	"verif/internal/ev"
	"verif/internal/scratch"
)

func TestMain(m *testing.M) {
	code := m.Run()
	scratch.Sweep()
	ev.Flush()
	os.Exit(code)
}

// ---------------------------------------------------------------------------
// compact <-> big

var recCompact = ev.New("C09", "compact",
	"32-bit compact values from a boundary mixture (exponent 0..3 / 29..34 / any, sign bit, zero and overflowing mantissas) "+
		"and 256-bit integers (powers of two +-1, mantissa-boundary values, negatives); oracle = math/big reference of "+
		"SetCompact/GetCompact/work; non-trivial = exponent<=3, sign bit, zero mantissa, mantissa top bit, or exponent>=32; distinct by value",
	"exp<=3", "negative", "zero-mantissa", "exp>=33", "normal")

func genCompact() *rapid.Generator[uint32] {
	return rapid.Custom(func(t *rapid.T) uint32 {
		exp := rapid.OneOf(
			rapid.Uint32Range(0, 4), rapid.Uint32Range(28, 35),
			rapid.Uint32Range(0, 255), rapid.Uint32Range(250, 255)).Draw(t, "exp")
		mant := rapid.OneOf(
			rapid.Uint32Range(0, 0x7fffff),
			rapid.SampledFrom([]uint32{0, 1, 0xff, 0x100, 0xffff, 0x10000, 0x7fffff, 0x7fff00, 0x008000, 0x000080, 0x400000}),
		).Draw(t, "mant")
		sign := uint32(0)
		if rapid.IntRange(0, 7).Draw(t, "neg") == 0 {
			sign = 0x00800000
		}
		return exp<<24 | sign | mant
	})
}

func compactClass(c uint32) (string, bool) {
	exp := c >> 24
	switch {
	case c&0x007fffff == 0:
		return "zero-mantissa", true
	case c&0x00800000 != 0:
		return "negative", true
	case exp <= 3:
		return "exp<=3", true
	case exp >= 33:
		return "exp>=33", true
	}
	return "normal", false
}

func checkCompactValue(c uint32) error {
	got := blockchain.CompactToBig(c)
	want := refCompactToBig(c)
	if got.Cmp(want) != 0 {
		return fmt.Errorf("CompactToBig(%#08x) = %x, protocol value %x", c, got, want)
	}
	// composition law: BigToCompact o CompactToBig is the normalising projection
	back := blockchain.BigToCompact(got)
	wantBack := refBigToCompact(want)
	if back != wantBack {
		return fmt.Errorf("BigToCompact(CompactToBig(%#08x)) = %#08x, reference %#08x", c, back, wantBack)
	}
	// a normalised value must be a fixed point of the round trip
	if refBigToCompact(want) == c && back != c {
		return fmt.Errorf("normalised compact %#08x does not round-trip: %#08x", c, back)
	}
	w := blockchain.CalcWork(c)
	if w.Cmp(refWork(c)) != 0 {
		return fmt.Errorf("CalcWork(%#08x) = %x, reference %x", c, w, refWork(c))
	}
	// the results belong to the caller (btcd's own callers scale a target in place): changing
	// them must not change what the next call for the same compact value returns
	got.Lsh(got, 2).Add(got, big.NewInt(12345))
	w.Add(w, big.NewInt(1))
	if again := blockchain.CompactToBig(c); again.Cmp(want) != 0 {
		return fmt.Errorf("CompactToBig(%#08x) = %x on the second call (after the caller modified the first result), protocol value %x", c, again, want)
	}
	if again := blockchain.CalcWork(c); again.Cmp(refWork(c)) != 0 {
		return fmt.Errorf("CalcWork(%#08x) = %x on the second call (after the caller modified the first result), reference %x", c, again, refWork(c))
	}
	return nil
}

func TestCompact(t *testing.T) {
	rapid.Check(t, func(t *rapid.T) {
		c := genCompact().Draw(t, "compact")
		cl, nt := compactClass(c)
		var b [4]byte
		binary.LittleEndian.PutUint32(b[:], c)
		recCompact.Case(nt, cl, ev.Hash(b[:]), func() any { return fmt.Sprintf("compact %#08x -> %x", c, refCompactToBig(c)) })
		if err := checkCompactValue(c); err != nil {
			t.Fatal(err)
		}
	})
}

var recBig = ev.New("C09", "big-to-compact",
	"256-bit integers: 2^k, 2^k+-1, mantissa-boundary values m*256^e with m in {0x7fffff,0x800000,0x800001,0xffffff,0x010000}, random, negated; "+
		"oracle = GetCompact reference, and CompactToBig(BigToCompact(n)) = n with everything below the top 3 (or 2) bytes cleared; "+
		"non-trivial = byte length <=3, top bit of top byte set (exponent bump), or negative; distinct by value",
	"bump", "small", "negative", "plain")

func genBig() *rapid.Generator[*big.Int] {
	return rapid.Custom(func(t *rapid.T) *big.Int {
		var n *big.Int
		switch rapid.IntRange(0, 3).Draw(t, "kind") {
		case 0:
			k := rapid.IntRange(0, 257).Draw(t, "k")
			n = new(big.Int).Lsh(big.NewInt(1), uint(k))
			n.Add(n, big.NewInt(int64(rapid.IntRange(-1, 1).Draw(t, "d"))))
		case 1:
			m := rapid.SampledFrom([]int64{0x7fffff, 0x800000, 0x800001, 0xffffff, 0x010000, 0x00ffff, 0x7fffffff, 0x80, 0x7f, 0x8000}).Draw(t, "m")
			e := rapid.IntRange(0, 30).Draw(t, "e")
			n = new(big.Int).Lsh(big.NewInt(m), uint(8*e))
			n.Add(n, big.NewInt(int64(rapid.IntRange(0, 1).Draw(t, "d"))))
		case 2:
			bs := rapid.SliceOfN(rapid.Byte(), 0, 33).Draw(t, "bytes")
			n = new(big.Int).SetBytes(bs)
		default:
			n = big.NewInt(int64(rapid.Uint32().Draw(t, "small")))
		}
		// Negative numbers are not targets; they are generated only when the
		// magnitude is exactly representable (no truncation), where the sign
		// bit semantics are unambiguous. (Observed and not claimed: for
		// negative inexact values btcd rounds the magnitude away from zero,
		// e.g. BigToCompact(-0x1000001) = 0x04810001.)
		if rapid.IntRange(0, 5).Draw(t, "neg") == 0 && refCompactToBig(refBigToCompact(n)).Cmp(n) == 0 {
			n.Neg(n)
		}
		return n
	})
}

func TestBigToCompact(t *testing.T) {
	rapid.Check(t, func(t *rapid.T) {
		n := genBig().Draw(t, "n")
		a := new(big.Int).Abs(n)
		cl, nt := "plain", false
		switch {
		case n.Sign() < 0:
			cl, nt = "negative", true
		case a.BitLen() <= 24:
			cl, nt = "small", true
		case a.BitLen()%8 == 0:
			cl, nt = "bump", true
		}
		recBig.Case(nt, cl, ev.Hash(n.Bytes(), []byte{byte(n.Sign() + 1)}), func() any { return fmt.Sprintf("n=%x -> %#08x", n, refBigToCompact(n)) })
		orig := new(big.Int).Set(n)
		got := blockchain.BigToCompact(n)
		if n.Cmp(orig) != 0 {
			t.Fatalf("BigToCompact modified its argument %x -> %x", orig, n)
		}
		if want := refBigToCompact(n); got != want {
			t.Fatalf("BigToCompact(%x) = %#08x, reference %#08x", n, got, want)
		}
		// the projection keeps only the mantissa's bytes
		rt := blockchain.CompactToBig(got)
		size := uint((a.BitLen() + 7) / 8)
		if a.BitLen()%8 == 0 && a.Sign() != 0 {
			size++
		}
		want := new(big.Int).Set(a)
		if size > 3 {
			want.Rsh(want, 8*(size-3))
			want.Lsh(want, 8*(size-3))
		}
		if n.Sign() < 0 {
			want.Neg(want)
		}
		if rt.Cmp(want) != 0 {
			t.Fatalf("CompactToBig(BigToCompact(%x)) = %x, want %x", n, rt, want)
		}
	})
}

// TestCompactExhaustive enumerates all 2^32 compact values (thorough tier,
// sharded).
var recExh = ev.New("C09", "compact-exhaustive",
	"every 32-bit compact value enumerated once (sharded by residue); oracle as in [compact]; every value is distinct; "+
		"non-trivial counted = values with exponent<=3, sign bit or zero mantissa or exponent>=33 (computed arithmetically per shard)")

func TestCompactExhaustive(t *testing.T) {
	if !ev.Thorough() {
		t.Skip("thorough tier only")
	}
	sh, n := ev.Shard()
	var count, nontriv int64
	for v := uint64(sh); v < 1<<32; v += uint64(n) {
		c := uint32(v)
		count++
		if _, nt := compactClass(c); nt {
			nontriv++
		}
		if err := checkCompactFast(c); err != nil {
			t.Fatal(err)
		}
	}
	recExh.Bulk(count, nontriv)
	recExh.Sample(fmt.Sprintf("shard %d/%d enumerated %d compact values, e.g. %#08x", sh, n, count, uint32(sh)))
	recExh.Exhaustive()
}

// checkCompactFast is checkCompactValue with a cheaper (but still
// independent) reference for the exhaustive sweep: uint64/shift-free
// arithmetic where possible.
func checkCompactFast(c uint32) error {
	exp := c >> 24
	if exp <= 8 {
		// value fits in 64 bits: compute with integer arithmetic
		m := uint64(c & 0x7fffff)
		var v uint64
		if exp >= 3 {
			v = m
			for i := uint32(3); i < exp; i++ {
				v *= 256
			}
		} else {
			v = m
			for i := exp; i < 3; i++ {
				v /= 256
			}
		}
		got := blockchain.CompactToBig(c)
		neg := c&0x800000 != 0 && v != 0
		if got.IsUint64() == neg && v != 0 || new(big.Int).Abs(got).Uint64() != v || (got.Sign() < 0) != neg {
			return fmt.Errorf("CompactToBig(%#08x) = %x, protocol value %s%x", c, got, map[bool]string{true: "-", false: ""}[neg], v)
		}
	}
	return checkCompactValue(c)
}

// ---------------------------------------------------------------------------
// hash -> big, proof of work check

var recPoW = ev.New("C09", "pow-check",
	"headers with random contents; bits drawn near the header's own hash magnitude, near powLimit (limit-1/limit/limit+1 mantissa), zero, negative; "+
		"powLimit from every real network and synthetic limits; oracle: accept <=> 0 < target <= powLimit and hash <= target, with hash as little-endian integer; "+
		"non-trivial = target within one mantissa step of powLimit, or target <= 0, or accepted; distinct by header hash+bits",
	"accept", "high-hash", "target<=0", "above-limit", "at-limit")

func TestProofOfWork(t *testing.T) {
	limits := []*big.Int{
		chaincfg.MainNetParams.PowLimit, chaincfg.RegressionNetParams.PowLimit, chaincfg.SigNetParams.PowLimit,
		chaincfg.TestNet3Params.PowLimit, chaincfg.TestNet4Params.PowLimit, chaincfg.SimNetParams.PowLimit,
		new(big.Int).Sub(two256, big.NewInt(1)),
	}
	rapid.Check(t, func(t *rapid.T) {
		lim := rapid.SampledFrom(limits).Draw(t, "powLimit")
		var h wire.BlockHeader
		h.Version = rapid.Int32().Draw(t, "ver")
		copy(h.PrevBlock[:], rapid.SliceOfN(rapid.Byte(), 32, 32).Draw(t, "prev"))
		copy(h.MerkleRoot[:], rapid.SliceOfN(rapid.Byte(), 32, 32).Draw(t, "mr"))
		h.Timestamp = time.Unix(int64(rapid.Uint32().Draw(t, "ts")), 0)
		h.Nonce = rapid.Uint32().Draw(t, "nonce")
		limBits := refBigToCompact(lim)
		kind := rapid.IntRange(0, 5).Draw(t, "kind")
		switch kind {
		case 0:
			h.Bits = genCompact().Draw(t, "bits")
		case 1: // around the limit
			d := rapid.IntRange(-2, 2).Draw(t, "d")
			h.Bits = uint32(int64(limBits) + int64(d))
		case 2: // easy targets so that acceptance happens
			h.Bits = rapid.SampledFrom([]uint32{0x207fffff, 0x2100ffff, 0x2200ffff, 0x2000ffff, 0x207ffffe}).Draw(t, "easy")
		default:
			// a target of the same magnitude as typical hashes of this header
			h.Bits = rapid.Uint32Range(0x1f, 0x21).Draw(t, "e")<<24 | rapid.Uint32Range(1, 0x7fffff).Draw(t, "m")
		}
		hash := h.BlockHash()
		// reference verdict
		target := refCompactToBig(h.Bits)
		hv := refHashToBig([32]byte(hash))
		hashBefore := hash
		if got := blockchain.HashToBig(&hash); got.Cmp(hv) != 0 {
			t.Fatalf("HashToBig(%s) = %x, little-endian value %x", hash, got, hv)
		}
		if hash != hashBefore {
			t.Fatalf("HashToBig changed the hash it was given: %x -> %x", hashBefore[:], hash[:])
		}
		if got := blockchain.HashToBig(&hash); got.Cmp(hv) != 0 {
			t.Fatalf("second HashToBig(%s) = %x, little-endian value %x", hash, got, hv)
		}
		want, cl := true, "accept"
		switch {
		case target.Sign() <= 0:
			want, cl = false, "target<=0"
		case target.Cmp(lim) > 0:
			want, cl = false, "above-limit"
		case hv.Cmp(target) > 0:
			want, cl = false, "high-hash"
		}
		nt := want || cl != "high-hash"
		if kind == 1 && cl != "above-limit" && cl != "target<=0" {
			cl, nt = "at-limit", true
		}
		recPoW.Case(nt, cl, ev.Hash(hash[:]), func() any {
			return fmt.Sprintf("bits=%#08x powLimit=%x hash=%s verdict=%v", h.Bits, lim, hash, want)
		})
		blk := btcutil.NewBlock(&wire.MsgBlock{Header: h})
		err := blockchain.CheckProofOfWork(blk, lim)
		if (err == nil) != want {
			t.Fatalf("CheckProofOfWork bits=%#08x limit=%x hash=%s: err=%v, protocol verdict accept=%v", h.Bits, lim, hash, err, want)
		}
		// header sanity adds the timestamp rules; with a time source far in the
		// future and second precision they cannot fire
		ts := fixedTime(time.Unix(1<<33, 0))
		err = blockchain.CheckBlockHeaderSanity(&h, lim, ts, blockchain.BFNone)
		if (err == nil) != want {
			t.Fatalf("CheckBlockHeaderSanity bits=%#08x: err=%v want accept=%v", h.Bits, err, want)
		}
		// BFNoPoWCheck drops only the hash comparison
		err = blockchain.CheckBlockHeaderSanity(&h, lim, ts, blockchain.BFNoPoWCheck)
		wantNoPow := target.Sign() > 0 && target.Cmp(lim) <= 0
		if (err == nil) != wantNoPow {
			t.Fatalf("CheckBlockHeaderSanity(NoPoWCheck) bits=%#08x: err=%v want %v", h.Bits, err, wantNoPow)
		}
		// work of a valid target is strictly positive => cumulative work strictly increases
		if wantNoPow && blockchain.CalcWork(h.Bits).Sign() <= 0 {
			t.Fatalf("valid target %#08x has non-positive work", h.Bits)
		}
	})
}

type fixedTime time.Time

func (f fixedTime) AdjustedTime() time.Time            { return time.Time(f) }
func (f fixedTime) AddTimeSample(string, time.Time)    {}
func (f fixedTime) Offset() time.Duration              { return 0 }

// ---------------------------------------------------------------------------
// header timestamp sanity: precision and 2h future bound

var recTime = ev.New("C09", "header-time-sanity",
	"header timestamps at adjusted time + 7200s +-1s and with sub-second parts; oracle: reject iff sub-second precision or ts > now+7200; "+
		"non-trivial = within 1s of the bound or sub-second; distinct by (offset, nanos)",
	"at-bound", "past-bound", "subsecond")

func TestHeaderTimeSanity(t *testing.T) {
	lim := chaincfg.RegressionNetParams.PowLimit
	rapid.Check(t, func(t *rapid.T) {
		now := time.Unix(int64(rapid.Int64Range(1333238400, 4000000000).Draw(t, "now")), 0)
		off := rapid.OneOf(rapid.Int64Range(7198, 7202), rapid.Int64Range(-100000, 100000)).Draw(t, "off")
		nanos := rapid.SampledFrom([]int64{0, 0, 0, 1, 999999999, 500}).Draw(t, "nanos")
		var h wire.BlockHeader
		h.Bits = 0x207fffff
		h.Timestamp = time.Unix(now.Unix()+off, nanos)
		want := nanos == 0 && off <= 7200
		cl, nt := "", off >= 7199 && off <= 7201 || nanos != 0
		switch {
		case nanos != 0:
			cl = "subsecond"
		case off > 7200:
			cl = "past-bound"
		case off >= 7199:
			cl = "at-bound"
		}
		recTime.Case(nt, cl, ev.HashS(fmt.Sprint(off, nanos)), func() any { return fmt.Sprintf("now+%ds nanos=%d accept=%v", off, nanos, want) })
		err := blockchain.CheckBlockHeaderSanity(&h, lim, fixedTime(now), blockchain.BFNoPoWCheck)
		if (err == nil) != want {
			t.Fatalf("ts=now+%ds nanos=%d: err=%v, want accept=%v", off, nanos, err, want)
		}
	})
}

// ---------------------------------------------------------------------------
// header histories: next required bits, MTP, BIP94

type fakeNode struct {
	chain []hdr
	h     int32
}

func (n *fakeNode) Height() int32    { return n.h }
func (n *fakeNode) Bits() uint32     { return n.chain[n.h].Bits }
func (n *fakeNode) Timestamp() int64 { return n.chain[n.h].Time }
func (n *fakeNode) Parent() blockchain.HeaderCtx {
	if n.h == 0 {
		return nil
	}
	return &fakeNode{n.chain, n.h - 1}
}
func (n *fakeNode) RelativeAncestorCtx(d int32) blockchain.HeaderCtx {
	if d < 0 || d > n.h {
		return nil
	}
	return &fakeNode{n.chain, n.h - d}
}

type netCase struct {
	name   string
	params *chaincfg.Params
	np     *netParams
	chain  *blockchain.BlockChain
}

var nets = map[string]*netCase{}

// realChainCtx builds a real *BlockChain (used as ChainCtx: BlocksPerRetarget,
// Min/MaxRetargetTimespan come from the code under test) for the params.
func getNet(t interface{ Fatalf(string, ...any) }, name string, p *chaincfg.Params) *netCase {
	if nc, ok := nets[name]; ok {
		return nc
	}
	dir := scratch.Dir("c09")
	db, err := database.Create("ffldb", dir, p.Net)
	if err != nil {
		t.Fatalf("VERIF-INFRA: db create: %v", err)
	}
	ch, err := blockchain.New(&blockchain.Config{DB: db, ChainParams: p, TimeSource: blockchain.NewMedianTime()})
	if err != nil {
		t.Fatalf("VERIF-INFRA: chain create: %v", err)
	}
	np := &netParams{
		PowLimit: p.PowLimit, PowLimitBits: p.PowLimitBits, NoRetarget: p.PoWNoRetargeting, BIP94: p.EnforceBIP94,
		AllowMinDiff: p.ReduceMinDifficulty, MinDiffSeconds: int64(p.MinDiffReductionTime / time.Second),
		Timespan: int64(p.TargetTimespan / time.Second), Spacing: int64(p.TargetTimePerBlock / time.Second),
		Factor: p.RetargetAdjustmentFactor,
	}
	nc := &netCase{name, p, np, ch}
	nets[name] = nc
	return nc
}

// synthetic parameter sets: small intervals so that several retargets fit in
// a short history. Derived from regtest (copy), never registered.
func synthParams(interval int64, spacing int64, minDiff, bip94 bool, limit *big.Int) *chaincfg.Params {
	p := chaincfg.RegressionNetParams
	p.Name = fmt.Sprintf("synth-%d-%d-%v-%v-%d", interval, spacing, minDiff, bip94, limit.BitLen())
	p.PoWNoRetargeting = false
	p.TargetTimePerBlock = time.Duration(spacing) * time.Second
	p.TargetTimespan = time.Duration(spacing*interval) * time.Second
	p.ReduceMinDifficulty = minDiff
	p.MinDiffReductionTime = 2 * p.TargetTimePerBlock
	p.EnforceBIP94 = bip94
	p.PowLimit = limit
	p.PowLimitBits = refBigToCompact(limit)
	p.Checkpoints = nil
	return &p
}

var recRetarget = ev.New("C09", "retarget",
	"header histories (fake HeaderCtx chains, 1-3 retarget periods) on mainnet/testnet3/testnet4/signet/regtest/simnet and synthetic parameter sets "+
		"(interval 2..16, min-difficulty on/off, BIP94 on/off, powLimit 2^224-1 / 2^255-1 / signet-like); timespans drawn at min-1/min/min+1, max-1/max/max+1, exact, random; "+
		"min-difficulty gaps of exactly 2*spacing and +1; runs of limit-bits blocks walked back to a period boundary; candidate timestamps at MTP/MTP+1 and BIP94 prev-600/-601; "+
		"oracle: Core GetNextWorkRequired reference (math/big) - CheckBlockHeaderContext accepts exactly the reference bits and rejects the neighbours; "+
		"non-trivial = retarget height, clamp hit, min-difficulty rule fired or walked back, or a timestamp at a boundary; distinct by history hash",
	"retarget", "clamp-min", "clamp-max", "limit-cap", "mindiff-fire", "mindiff-walkback", "mindiff-boundary", "bip94-first-bits", "ts=mtp", "ts=mtp+1", "timewarp-edge", "noretarget")

type histCase struct {
	net   *netCase
	chain []hdr
	newT  int64
	tags  map[string]bool
}

func genHistory(t *rapid.T) *histCase {
	kind := rapid.SampledFrom([]string{"main", "test3", "test4", "signet", "regtest", "simnet", "synth", "synth", "synth", "synth"}).Draw(t, "net")
	var nc *netCase
	switch kind {
	case "main":
		nc = getNet(t, kind, &chaincfg.MainNetParams)
	case "test3":
		nc = getNet(t, kind, &chaincfg.TestNet3Params)
	case "test4":
		nc = getNet(t, kind, &chaincfg.TestNet4Params)
	case "signet":
		nc = getNet(t, kind, &chaincfg.SigNetParams)
	case "regtest":
		nc = getNet(t, kind, &chaincfg.RegressionNetParams)
	case "simnet":
		nc = getNet(t, kind, &chaincfg.SimNetParams)
	default:
		iv := rapid.Int64Range(2, 16).Draw(t, "interval")
		sp := rapid.SampledFrom([]int64{1, 7, 60, 600}).Draw(t, "spacing")
		md := rapid.Bool().Draw(t, "mindiff")
		b94 := rapid.Bool().Draw(t, "bip94")
		lim := rapid.SampledFrom([]*big.Int{chaincfg.MainNetParams.PowLimit, chaincfg.RegressionNetParams.PowLimit, chaincfg.SigNetParams.PowLimit}).Draw(t, "limit")
		p := synthParams(iv, sp, md, b94, lim)
		nc = getNet(t, p.Name, p)
	}
	np := nc.np
	iv := np.interval()
	tags := map[string]bool{}
	// The history is a window [base, base+len) of heights; to keep real
	// networks (interval 2016) cheap the chain slice is still materialised
	// from height 0 but only the last periods carry interesting data.
	periods := rapid.Int64Range(0, 2).Draw(t, "periods")
	extra := rapid.OneOf(rapid.Int64Range(0, iv-1), rapid.SampledFrom([]int64{0, iv - 1, iv - 2, 1})).Draw(t, "extra")
	if extra < 0 {
		extra = 0
	}
	n := periods*iv + extra + 1 // number of existing blocks, last height n-1
	chain := make([]hdr, n)
	// starting difficulty: limit or harder
	startBits := np.PowLimitBits
	if !np.NoRetarget && rapid.Bool().Draw(t, "harder") {
		div := rapid.SampledFrom([]int64{2, 3, 4, 5, 16, 1000, 65536}).Draw(t, "div")
		startBits = refBigToCompact(new(big.Int).Quo(np.PowLimit, big.NewInt(div)))
	}
	tm := int64(1600000000)
	chain[0] = hdr{tm, startBits}
	// per-period timespan plan
	planSpan := func() int64 {
		lo, hi := np.Timespan/np.Factor, np.Timespan*np.Factor
		return rapid.OneOf(
			rapid.SampledFrom([]int64{lo - 1, lo, lo + 1, hi - 1, hi, hi + 1, np.Timespan, np.Timespan - 1, np.Timespan + 1, 0, 1, hi * 3}),
			rapid.Int64Range(0, hi*2)).Draw(t, "span")
	}
	// long intervals (real networks): only blocks near a period boundary and
	// the chain end get individually drawn steps; the rest follow a per-period
	// mode (regular spacing, or "slow" = every block triggers min-difficulty)
	mode := map[int64]int{}
	for h := int64(1); h < n; h++ {
		prev := chain[:h]
		// choose the timestamp
		var ts int64
		posInPeriod := h % iv
		near := iv <= 32 || posInPeriod < 6 || posInPeriod > iv-8 || n-h < 14
		if posInPeriod == iv-1 && h >= iv-1 {
			// last block of a period: set the period's timespan exactly
			first := chain[h-(iv-1)]
			ts = first.Time + planSpan()
		} else if near {
			step := rapid.OneOf(
				rapid.SampledFrom([]int64{np.Spacing, np.MinDiffSeconds, np.MinDiffSeconds + 1, np.MinDiffSeconds - 1, 0, 1, -1, -600, -601}),
				rapid.Int64Range(-np.Spacing, 3*np.Spacing)).Draw(t, "step")
			ts = chain[h-1].Time + step
		} else {
			m, ok := mode[h/iv]
			if !ok {
				m = rapid.IntRange(0, 2).Draw(t, "periodMode")
				mode[h/iv] = m
			}
			switch m {
			case 0:
				ts = chain[h-1].Time + np.Spacing
			case 1:
				ts = chain[h-1].Time + np.MinDiffSeconds + 1
			default:
				ts = chain[h-1].Time + 1
			}
		}
		if ts < 1 {
			ts = 1
		}
		bits := refNextBits(prev, ts, np)
		chain[h] = hdr{ts, bits}
	}
	// candidate time
	last := chain[n-1]
	mtp := refMTP(chain)
	newT := rapid.OneOf(
		rapid.SampledFrom([]int64{mtp, mtp + 1, mtp - 1, last.Time + np.MinDiffSeconds, last.Time + np.MinDiffSeconds + 1,
			last.Time - 600, last.Time - 601, last.Time - 599, last.Time + np.Spacing}),
		rapid.Int64Range(min64(mtp, last.Time)-5, max64(mtp, last.Time)+4*np.Spacing+5)).Draw(t, "newTime")
	// classification
	if np.NoRetarget {
		tags["noretarget"] = true
	} else if n%iv == 0 {
		tags["retarget"] = true
		span := last.Time - chain[n-iv].Time
		if span < np.Timespan/np.Factor {
			tags["clamp-min"] = true
		}
		if span > np.Timespan*np.Factor {
			tags["clamp-max"] = true
		}
		if np.BIP94 && chain[n-iv].Bits != last.Bits {
			tags["bip94-first-bits"] = true
		}
		old := refCompactToBig(last.Bits)
		if span > np.Timespan && new(big.Int).Quo(new(big.Int).Mul(old, big.NewInt(min64(span, np.Timespan*np.Factor))), big.NewInt(np.Timespan)).Cmp(np.PowLimit) > 0 {
			tags["limit-cap"] = true
		}
	} else if np.AllowMinDiff {
		if newT > last.Time+np.MinDiffSeconds {
			tags["mindiff-fire"] = true
		} else if last.Bits == np.PowLimitBits && (n-1)%iv != 0 && startBits != np.PowLimitBits {
			tags["mindiff-walkback"] = true
		}
		if d := newT - (last.Time + np.MinDiffSeconds); d == 0 || d == 1 {
			tags["mindiff-boundary"] = true
		}
	}
	if newT == mtp {
		tags["ts=mtp"] = true
	}
	if newT == mtp+1 {
		tags["ts=mtp+1"] = true
	}
	if np.BIP94 && n%iv == 0 && (newT == last.Time-600 || newT == last.Time-601) {
		tags["timewarp-edge"] = true
	}
	return &histCase{nc, chain, newT, tags}
}

func min64(a, b int64) int64 {
	if a < b {
		return a
	}
	return b
}

func TestRetarget(t *testing.T) {
	rapid.Check(t, func(t *rapid.T) {
		hc := genHistory(t)
		np := hc.net.np
		n := int64(len(hc.chain))
		last := hc.chain[n-1]
		want := refNextBits(hc.chain, hc.newT, np)
		mtp := refMTP(hc.chain)
		tsOK := hc.newT > mtp
		if np.BIP94 && n%np.interval() == 0 && hc.newT < last.Time-600 {
			tsOK = false
		}
		// hash of the case
		buf := make([]byte, 0, 12*len(hc.chain)+16)
		for _, h := range hc.chain {
			buf = binary.LittleEndian.AppendUint64(buf, uint64(h.Time))
			buf = binary.LittleEndian.AppendUint32(buf, h.Bits)
		}
		buf = binary.LittleEndian.AppendUint64(buf, uint64(hc.newT))
		cl := ""
		for _, k := range []string{"timewarp-edge", "mindiff-boundary", "mindiff-walkback", "clamp-min", "clamp-max", "limit-cap", "bip94-first-bits", "mindiff-fire", "ts=mtp", "ts=mtp+1", "retarget", "noretarget"} {
			if hc.tags[k] {
				if cl == "" {
					cl = k
				} else {
					recRetarget.Count(k, 1)
				}
			}
		}
		recRetarget.Case(cl != "" && cl != "noretarget", cl, ev.Hash([]byte(hc.net.name), buf), func() any {
			tail := hc.chain
			if len(tail) > 4 {
				tail = tail[len(tail)-4:]
			}
			return map[string]any{"net": hc.net.name, "blocks": n, "last4": fmt.Sprintf("%+v", tail), "candidate_time": hc.newT, "expected_bits": fmt.Sprintf("%#08x", want), "mtp": mtp, "class": cl}
		})

		prev := &fakeNode{hc.chain, int32(n - 1)}
		// MTP
		if got := blockchain.CalcPastMedianTime(prev).Unix(); got != mtp {
			t.Fatalf("CalcPastMedianTime = %d, reference %d (history tail %+v)", got, mtp, hc.chain[max64(0, n-11):])
		}
		try := func(bits uint32, ts int64) error {
			h := &wire.BlockHeader{Version: 0x20000000, Bits: bits, Timestamp: time.Unix(ts, 0)}
			return blockchain.CheckBlockHeaderContext(h, prev, blockchain.BFNone, hc.net.chain, true)
		}
		err := try(want, hc.newT)
		if (err == nil) != tsOK {
			t.Fatalf("net %s height %d: header with reference bits %#08x time %d (mtp %d, prev %d): err=%v, protocol accept=%v",
				hc.net.name, n, want, hc.newT, mtp, last.Time, err, tsOK)
		}
		if err != nil {
			// the error must be a time error, not a difficulty error
			if re, ok := err.(blockchain.RuleError); !ok || re.ErrorCode == blockchain.ErrUnexpectedDifficulty {
				t.Fatalf("net %s height %d: reference bits %#08x rejected as difficulty error: %v", hc.net.name, n, want, err)
			}
		}
		// every other bits value is rejected: neighbours and natural wrong answers
		for _, wrong := range []uint32{want + 1, want - 1, last.Bits, np.PowLimitBits, hc.chain[0].Bits, want ^ 0x01000000} {
			if wrong == want {
				continue
			}
			// use a time that passes the time rules so that acceptance would be visible
			ts := hc.newT
			if !tsOK {
				continue
			}
			if err := try(wrong, ts); err == nil {
				t.Fatalf("net %s height %d: bits %#08x accepted, protocol requires %#08x", hc.net.name, n, wrong, want)
			}
		}
	})
}

func max64(a, b int64) int64 {
	if a > b {
		return a
	}
	return b
}

// ---------------------------------------------------------------------------
// subsidy

var recSubsidy = ev.New("C09", "subsidy",
	"heights x halving intervals: real networks enumerated over every halving boundary +-1 (quick) or every height 0..64*interval+1 (thorough, regtest+mainnet stride); synthetic intervals 1..1000 with "+
		"random heights up to 2^31-1; oracle: floor(50e8/2^floor(h/interval)), 0 from 64 halvings; total over all heights <= 21e14; non-trivial = height within 1 of a halving boundary or >= 33 halvings; distinct by (interval,height)",
	"boundary", "late", "plain")

func TestSubsidy(t *testing.T) {
	rapid.Check(t, func(t *rapid.T) {
		p := chaincfg.RegressionNetParams
		iv := rapid.OneOf(rapid.Int32Range(1, 1000), rapid.SampledFrom([]int32{150, 210000, 1, 2, 0})).Draw(t, "interval")
		p.SubsidyReductionInterval = iv
		var h int32
		if iv > 0 {
			k := rapid.Int32Range(0, 70).Draw(t, "halvings")
			d := rapid.Int32Range(-1, 1).Draw(t, "d")
			hh := int64(k)*int64(iv) + int64(d)
			if hh < 0 {
				hh = 0
			}
			if hh > 1<<31-1 || rapid.IntRange(0, 3).Draw(t, "rnd") == 0 {
				hh = int64(rapid.Int32Range(0, 1<<31-1).Draw(t, "h"))
			}
			h = int32(hh)
		} else {
			h = rapid.Int32Range(0, 1<<31-1).Draw(t, "h")
		}
		want := refSubsidy(int64(h), int64(iv))
		cl, nt := "plain", false
		if iv > 0 {
			r := int64(h) % int64(iv)
			if r == 0 || r == int64(iv)-1 || r == 1 {
				cl, nt = "boundary", true
			}
			if int64(h)/int64(iv) >= 33 {
				cl, nt = "late", true
			}
		}
		recSubsidy.Case(nt, cl, ev.HashS(fmt.Sprint(iv, h)), func() any { return fmt.Sprintf("interval=%d height=%d subsidy=%d", iv, h, want) })
		if got := blockchain.CalcBlockSubsidy(h, &p); got != want {
			t.Fatalf("CalcBlockSubsidy(%d, interval %d) = %d, protocol %d", h, iv, got, want)
		}
	})
}

var recSubsidyTotal = ev.New("C09", "subsidy-total",
	"sum of CalcBlockSubsidy over every height 0..65*interval for mainnet/testnet/signet/regtest/simnet parameter sets (one term per halving epoch verified at both ends and mid, epoch sum = interval*value); "+
		"oracle: reference subsidy at every probed height and total <= 21e14 satoshi; non-trivial = each (network, epoch) pair; distinct by (net, epoch)")

func TestSubsidyTotal(t *testing.T) {
	sets := map[string]*chaincfg.Params{"mainnet": &chaincfg.MainNetParams, "testnet3": &chaincfg.TestNet3Params, "testnet4": &chaincfg.TestNet4Params,
		"signet": &chaincfg.SigNetParams, "regtest": &chaincfg.RegressionNetParams, "simnet": &chaincfg.SimNetParams}
	var evals, epochs int64
	for name, p := range sets {
		iv := int64(p.SubsidyReductionInterval)
		total := new(big.Int)
		for e := int64(0); e < 66; e++ {
			lo, hi := e*iv, (e+1)*iv-1
			if lo > 1<<31-1 {
				break
			}
			if hi > 1<<31-1 {
				hi = 1<<31 - 1
			}
			v := blockchain.CalcBlockSubsidy(int32(lo), p)
			probes := []int64{lo, hi, (lo + hi) / 2}
			if ev.Thorough() || iv <= 1000 {
				probes = probes[:0]
				for h := lo; h <= hi; h++ {
					probes = append(probes, h)
				}
			}
			for _, h := range probes {
				evals++
				if got := blockchain.CalcBlockSubsidy(int32(h), p); got != refSubsidy(h, iv) || got != v {
					t.Fatalf("%s: CalcBlockSubsidy(%d) = %d, protocol %d", name, h, got, refSubsidy(h, iv))
				}
			}
			epochs++
			total.Add(total, new(big.Int).Mul(big.NewInt(v), big.NewInt(hi-lo+1)))
		}
		if total.Cmp(big.NewInt(21e14)) > 0 {
			t.Fatalf("%s: total subsidy %s exceeds 21e14", name, total)
		}
		recSubsidyTotal.Sample(fmt.Sprintf("%s: interval %d total issued %s sat", name, iv, total))
	}
	recSubsidyTotal.Bulk(evals, epochs)
	if ev.Thorough() {
		recSubsidyTotal.Exhaustive()
	}
}

var _ = chainhash.Hash{}
