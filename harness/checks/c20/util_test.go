package c20

import (
	"encoding/binary"
	"fmt"
	"os"
	"sync"
	"testing"
	"time"

	"github.com/btcsuite/btcd/chainhash/v2"
	"github.com/btcsuite/btcd/wire/v2"
	"pgregory.net/rapid"

	"verif/internal/ev"
	ff "verif/internal/model/filterfmt"
	"verif/internal/scratch"
)

func TestMain(m *testing.M) {
	code := m.Run()
	scratch.Sweep()
	ev.Flush()
	os.Exit(code)
}

// ---------------------------------------------------------------------------
// reference calibration (exit 2 when it fails, never a violation)

var (
	selfOnce sync.Once
	selfErr  error
)

type fataler interface {
	Fatalf(format string, args ...any)
}

func selfCheck(t fataler) {
	selfOnce.Do(func() { selfErr = ff.SelfCheck() })
	if selfErr != nil {
		t.Fatalf("VERIF-INFRA: reference model disagrees with a published vector: %v", selfErr)
	}
}

func TestModelSelfCheck(t *testing.T) { selfCheck(t) }

// ---------------------------------------------------------------------------
// deterministic expansion of a rapid-drawn seed (large inputs would cost one
// rapid draw per byte otherwise). splitmix64; no math/rand, no clock.

type sm64 struct{ s uint64 }

func (r *sm64) next() uint64 {
	r.s += 0x9e3779b97f4a7c15
	z := r.s
	z = (z ^ (z >> 30)) * 0xbf58476d1ce4e5b9
	z = (z ^ (z >> 27)) * 0x94d049bb133111eb
	return z ^ (z >> 31)
}

func (r *sm64) intn(n int) int { return int(r.next() % uint64(n)) }

func (r *sm64) bytes(n int) []byte {
	b := make([]byte, n)
	for i := 0; i < n; i += 8 {
		var w [8]byte
		binary.LittleEndian.PutUint64(w[:], r.next())
		copy(b[i:], w[:])
	}
	return b
}

func (r *sm64) hash32() (h [32]byte) {
	copy(h[:], r.bytes(32))
	return
}

// ---------------------------------------------------------------------------
// small helpers

func pick(t *rapid.T, label string, n int) int { return rapid.IntRange(0, n-1).Draw(t, label) }

func u64le(v uint64) []byte {
	var b [8]byte
	binary.LittleEndian.PutUint64(b[:], v)
	return b[:]
}

// guard runs a call into btcd and converts a panic into an error (the
// function passed in must not use rapid's *T: rapid signals failures by
// panicking itself).
func guard(fn func()) (err error) {
	defer func() {
		if r := recover(); r != nil {
			err = fmt.Errorf("panic: %v", r)
		}
	}()
	fn()
	return nil
}

func trunc(b []byte, n int) string {
	if len(b) <= n {
		return fmt.Sprintf("%x", b)
	}
	return fmt.Sprintf("%x..(%d bytes)", b[:n], len(b))
}

// ---------------------------------------------------------------------------
// conversion of reference transactions / headers into btcd's data carriers

func toWireTx(t *ff.Tx) *wire.MsgTx {
	m := wire.NewMsgTx(t.Version)
	for _, in := range t.In {
		h := chainhash.Hash(in.PrevHash)
		ti := wire.NewTxIn(wire.NewOutPoint(&h, in.PrevIndex), append([]byte(nil), in.SigScript...), nil)
		ti.Sequence = in.Sequence
		m.AddTxIn(ti)
	}
	for _, o := range t.Out {
		m.AddTxOut(wire.NewTxOut(o.Value, append([]byte(nil), o.PkScript...)))
	}
	m.LockTime = t.LockTime
	return m
}

func toWireHeader(h *ff.Header) wire.BlockHeader {
	return wire.BlockHeader{
		Version:    h.Version,
		PrevBlock:  chainhash.Hash(h.PrevBlock),
		MerkleRoot: chainhash.Hash(h.MerkleRoot),
		Timestamp:  time.Unix(int64(h.Time), 0),
		Bits:       h.Bits,
		Nonce:      h.Nonce,
	}
}

func genHeader(t *rapid.T) ff.Header {
	r := sm64{rapid.Uint64().Draw(t, "hdrseed")}
	return ff.Header{
		Version:   int32(rapid.SampledFrom([]int32{1, 2, 4, 0x20000000, -1}).Draw(t, "version")),
		PrevBlock: r.hash32(),
		Time:      rapid.Uint32Range(1333238400, 0xffffffff).Draw(t, "time"),
		Bits:      rapid.SampledFrom([]uint32{0x1d00ffff, 0x207fffff, 0x1703a30c}).Draw(t, "bits"),
		Nonce:     rapid.Uint32().Draw(t, "nonce"),
	}
}
