package c20

import (
	"bytes"
	"encoding/binary"
	"fmt"
	"testing"

	"github.com/btcsuite/btcd/btcutil/v2"
	"github.com/btcsuite/btcd/btcutil/v2/bloom"
	"github.com/btcsuite/btcd/chainhash/v2"
	"github.com/btcsuite/btcd/wire/v2"
	"pgregory.net/rapid"

	"verif/internal/ev"
	ff "verif/internal/model/filterfmt"
)

var recMerkle = ev.New("C20", "merkle-block",
	"blocks of 1..130 distinct txs (boundary-biased 1,2,3,4,5,7,8,9,15..17,31..33,63..65,127..130; 1..400 in thorough) and a bloom filter loaded so that a chosen subset matches "+
		"(none, all, first, last, odd positions, even positions, one random, all but one, random subset) through txids, output key hashes or spent outpoints, with update flag NONE or ALL "+
		"(ALL + chains of spends: later txs match through auto-inserted outpoints); oracle = reference bloom model decides the matched positions in block order; an independent BIP37 partial-merkle-tree verifier "+
		"must accept the returned hashes/flags, recompute the block's merkle root (reference merkle root = header field), and extract exactly the matched txids at exactly the matched positions; "+
		"returned index list = matched positions; wire bytes of the merkleblock message = BIP37 layout and decode back; non-trivial = matched subset neither empty nor full, or tx count not a power of two; distinct by hash of (txs, subset)",
	"none", "all", "first", "last", "odd", "even", "one", "all-but-one", "random", "ntx=1", "ntx-pow2", "ntx-odd", "false-positive-extra", "chain-extra")

func genNTx(t *rapid.T) int {
	maxN := ev.Scale(130, 400)
	switch pick(t, "ntxkind", 3) {
	case 0:
		return rapid.SampledFrom([]int{1, 2, 3, 4, 5, 6, 7, 8, 9, 15, 16, 17, 31, 32, 33, 63, 64, 65, 127, 128, 129, 130}).Draw(t, "ntx")
	case 1:
		return rapid.IntRange(1, 20).Draw(t, "ntx")
	}
	return rapid.IntRange(1, maxN).Draw(t, "ntx")
}

func TestMerkleBlock(t *testing.T) {
	selfCheck(t)
	rapid.Check(t, func(t *rapid.T) {
		n := genNTx(t)
		r := &sm64{rapid.Uint64().Draw(t, "seed")}
		flags := uint8(rapid.SampledFrom([]int{ff.UpdateNone, ff.UpdateNone, ff.UpdateAll, ff.UpdateP2PubkeyOnly}).Draw(t, "flags"))
		chain := flags != ff.UpdateNone && pick(t, "chain", 2) == 0 // txs spend outputs of earlier txs

		// --- the block
		txs := make([]ff.Tx, n)
		ids := make([][32]byte, n)
		hashes := make([][]byte, n) // the key hash paid by tx i
		for i := range txs {
			tx := ff.Tx{Version: 1, LockTime: uint32(i)}
			// signature scripts are well-formed pushes: what BIP37 tests in a script
			// that does not parse is not specified (see TestBloomTx)
			in := ff.TxIn{PrevHash: r.hash32(), PrevIndex: uint32(r.intn(2)), SigScript: pushOf(r.bytes(4), r), Sequence: 0xffffffff}
			if i == 0 {
				in = ff.TxIn{PrevIndex: 0xffffffff, SigScript: pushOf(r.bytes(4+r.intn(5)), r), Sequence: 0xffffffff}
			} else if chain && r.intn(3) == 0 {
				src := r.intn(i)
				in.PrevHash, in.PrevIndex = ids[src], 0
			}
			tx.In = []ff.TxIn{in}
			hashes[i] = r.bytes(20)
			tx.Out = []ff.TxOut{{Value: int64(i + 1), PkScript: p2pkh(hashes[i])}}
			if r.intn(4) == 0 {
				tx.Out = append(tx.Out, ff.TxOut{Value: 1, PkScript: p2pkh(r.bytes(20))})
			}
			txs[i] = tx
			ids[i] = tx.TxID()
		}
		hdr := genHeader(t)
		hdr.MerkleRoot = ff.MerkleRoot(ids)

		// --- the subset the wallet is interested in
		kind := rapid.SampledFrom([]string{"none", "all", "first", "last", "odd", "even", "one", "all-but-one", "random", "random"}).Draw(t, "subset")
		want := make([]bool, n)
		switch kind {
		case "all":
			for i := range want {
				want[i] = true
			}
		case "first":
			want[0] = true
		case "last":
			want[n-1] = true
		case "odd":
			for i := 1; i < n; i += 2 {
				want[i] = true
			}
		case "even":
			for i := 0; i < n; i += 2 {
				want[i] = true
			}
		case "one":
			want[pick(t, "which", n)] = true
		case "all-but-one":
			for i := range want {
				want[i] = true
			}
			want[pick(t, "which", n)] = false
		case "random":
			dens := 1 + r.intn(4)
			for i := range want {
				want[i] = r.intn(dens+1) == 0
			}
		}
		nWant := 0
		for _, w := range want {
			if w {
				nWant++
			}
		}

		// --- the filter: sized for the load, sometimes far too small (false positives)
		elements := uint32(nWant)
		if elements == 0 {
			elements = 1
		}
		fp := rapid.SampledFrom([]float64{1e-9, 1e-6, 0.0001, 0.01, 0.3}).Draw(t, "fp")
		tweak := genTweak(t)
		var f *bloom.Filter
		if perr := guard(func() { f = bloom.NewFilter(elements, tweak, fp, wire.BloomUpdateType(flags)) }); perr != nil {
			t.Fatalf("NewFilter %v", perr)
		}
		msg0 := f.MsgFilterLoad()
		if len(msg0.Filter) == 0 || msg0.HashFuncs == 0 {
			// outside the property (empty field) or the listed k=0 finding: use a small explicit geometry
			f = bloom.LoadFilter(wire.NewMsgFilterLoad(make([]byte, 4), 3, tweak, wire.BloomUpdateType(flags)))
			msg0 = f.MsgFilterLoad()
		}
		model := ff.NewBloom(msg0.Filter, msg0.HashFuncs, tweak, flags)
		how := pick(t, "how", 3)
		for i, w := range want {
			if !w {
				continue
			}
			switch {
			case how == 1: // by the key hash the tx pays to
				f.Add(hashes[i])
				model.Add(hashes[i])
			case how == 2 && i > 0: // by the outpoint it spends
				op := ff.OutPointBytes(txs[i].In[0].PrevHash, txs[i].In[0].PrevIndex)
				h := chainhash.Hash(txs[i].In[0].PrevHash)
				f.AddOutPoint(wire.NewOutPoint(&h, txs[i].In[0].PrevIndex))
				model.Add(op)
			default: // by txid
				h := chainhash.Hash(ids[i])
				f.AddHash(&h)
				model.Add(ids[i][:])
			}
		}
		loadedBits := append([]byte{}, f.MsgFilterLoad().Filter...)
		loadedRef := append([]byte{}, model.Bits...)

		// --- reference verdicts in block order (the filter may update itself)
		var expPos []uint32
		var expIDs [][32]byte
		extraFP, extraChain := false, false
		for i := range txs {
			rel := model.RelevantAndUpdate(&txs[i])
			if rel.Match {
				expPos = append(expPos, uint32(i))
				expIDs = append(expIDs, ids[i])
				if !want[i] {
					if rel.Reason == "prev-outpoint" && chain {
						extraChain = true
					} else {
						extraFP = true
					}
				}
			} else if want[i] {
				t.Fatalf("VERIF-INFRA: reference filter misses a loaded transaction")
			}
		}
		pow2 := n&(n-1) == 0
		nt := (len(expPos) > 0 && len(expPos) < n) || !pow2
		hparts := [][]byte{hdr.Serialize(), {flags, byte(how)}}
		for i := range txs {
			b := byte(0)
			if want[i] {
				b = 1
			}
			hparts = append(hparts, ids[i][:], []byte{b})
		}
		desc := func() string {
			return fmt.Sprintf("%d txs, subset %s (loaded %d, reference matches positions %v), flags %d, loaded by %d, filter %d bytes k=%d tweak=%d; seed-derived txs, header %x",
				n, kind, nWant, expPos, flags, how, len(model.Bits), model.K, tweak, hdr.Serialize())
		}
		recMerkle.Case(nt, kind, ev.Hash(hparts...), func() any { return desc() })
		switch {
		case n == 1:
			recMerkle.Count("ntx=1", 1)
		case pow2:
			recMerkle.Count("ntx-pow2", 1)
		case n%2 == 1:
			recMerkle.Count("ntx-odd", 1)
		}
		if extraFP {
			recMerkle.Count("false-positive-extra", 1)
		}
		if extraChain {
			recMerkle.Count("chain-extra", 1)
		}

		// --- btcd
		if !bytes.Equal(loadedBits, loadedRef) {
			t.Fatalf("bit field of the loaded filter differs from the BIP37 reference before matching (see TestBloom)\n%s", desc())
		}
		wh := toWireHeader(&hdr)
		mb := wire.NewMsgBlock(&wh)
		for i := range txs {
			mb.AddTransaction(toWireTx(&txs[i]))
		}
		blk := btcutil.NewBlock(mb)
		var mm *wire.MsgMerkleBlock
		var idx []uint32
		if perr := guard(func() { mm, idx = bloom.NewMerkleBlock(blk, f) }); perr != nil {
			t.Fatalf("NewMerkleBlock %v\n%s", perr, desc())
		}
		if fmt.Sprint(idx) != fmt.Sprint(expPos) && !(len(idx) == 0 && len(expPos) == 0) {
			t.Fatalf("NewMerkleBlock matched indices %v, BIP37 reference filter matches positions %v\n%s", idx, expPos, desc())
		}
		if mm.Transactions != uint32(n) {
			t.Fatalf("merkleblock.Transactions = %d want %d\n%s", mm.Transactions, n, desc())
		}
		if mm.Header.BlockHash() != chainhash.Hash(hdr.Hash()) {
			t.Fatalf("merkleblock header differs from the block header\n%s", desc())
		}
		verify := func(nTx uint32, hs []*chainhash.Hash, fl []byte, where string) {
			hl := make([][32]byte, len(hs))
			for i, h := range hs {
				hl[i] = *h
			}
			res, err := ff.VerifyPMT(nTx, hl, fl)
			if err != nil {
				t.Fatalf("%s: the partial merkle tree (hashes %d, flags %x) is rejected by the BIP37 verifier: %v\n%s", where, len(hl), fl, err, desc())
			}
			if res.Root != hdr.MerkleRoot {
				t.Fatalf("%s: partial merkle tree commits to root %x, block merkle root %x (flags %x, %d hashes)\n%s", where, res.Root, hdr.MerkleRoot, fl, len(hl), desc())
			}
			if fmt.Sprint(res.Positions) != fmt.Sprint(expPos) && !(len(res.Positions) == 0 && len(expPos) == 0) {
				t.Fatalf("%s: partial merkle tree proves positions %v, matched positions %v (flags %x)\n%s", where, res.Positions, expPos, fl, desc())
			}
			for i := range res.Matches {
				if res.Matches[i] != expIDs[i] {
					t.Fatalf("%s: partial merkle tree proves txid %x at position %d, want %x\n%s", where, res.Matches[i], res.Positions[i], expIDs[i], desc())
				}
			}
			if len(fl) != (res.BitsUsed+7)/8 {
				t.Fatalf("%s: %d flag bytes for %d bits\n%s", where, len(fl), res.BitsUsed, desc())
			}
		}
		verify(mm.Transactions, mm.Hashes, mm.Flags, "NewMerkleBlock")

		// --- wire form
		var buf bytes.Buffer
		if err := mm.BtcEncode(&buf, wire.ProtocolVersion, wire.BaseEncoding); err != nil {
			t.Fatalf("merkleblock BtcEncode: %v\n%s", err, desc())
		}
		exp := append([]byte{}, hdr.Serialize()...)
		var u4 [4]byte
		binary.LittleEndian.PutUint32(u4[:], uint32(n))
		exp = append(exp, u4[:]...)
		exp = append(exp, ff.CompactSize(uint64(len(mm.Hashes)))...)
		for _, h := range mm.Hashes {
			exp = append(exp, h[:]...)
		}
		exp = append(exp, ff.CompactSize(uint64(len(mm.Flags)))...)
		exp = append(exp, mm.Flags...)
		if !bytes.Equal(buf.Bytes(), exp) {
			t.Fatalf("merkleblock wire bytes differ from the BIP37 layout (header, LE32 count, hashes, flag bytes)\n%s", desc())
		}
		var back wire.MsgMerkleBlock
		if err := back.BtcDecode(bytes.NewReader(buf.Bytes()), wire.ProtocolVersion, wire.BaseEncoding); err != nil {
			t.Fatalf("merkleblock does not decode: %v\n%s", err, desc())
		}
		verify(back.Transactions, back.Hashes, back.Flags, "decoded merkleblock")
	})
}
