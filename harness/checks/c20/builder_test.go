package c20

import (
	"bytes"
	"fmt"
	"sort"
	"testing"

	"github.com/btcsuite/btcd/btcutil/v2/gcs"
	"github.com/btcsuite/btcd/btcutil/v2/gcs/builder"
	"github.com/btcsuite/btcd/chainhash/v2"
	"pgregory.net/rapid"

	"verif/internal/ev"
	ff "verif/internal/model/filterfmt"
)

// ---------------------------------------------------------------------------
// the generic filter builder (what a wallet uses to build filters over its own
// element set): entries are handed over one by one, often serialised into one
// scratch buffer that the caller overwrites for the next element

var recBuilder = ev.New("C20", "gcs-builder",
	"GCSBuilder with generated key / P / M; 0-40 elements (1-40 bytes, with duplicates) handed over through AddEntry from ONE scratch buffer that is overwritten after every call, "+
		"through AddEntry with private slices, AddEntries, AddHash or AddWitness (generated mixture); Build is called twice; "+
		"oracle: N = number of distinct elements, the filter bytes equal the independent BIP158 encoding of that set, every element matches, both builds are identical; "+
		"non-trivial = at least two elements went through the shared scratch buffer; distinct by (parameters, elements, hand-over methods)",
	"scratch-buffer", "private-slices", "duplicates")

func TestGCSBuilder(t *testing.T) {
	rapid.Check(t, func(t *rapid.T) {
		var key [16]byte
		copy(key[:], rapid.SliceOfN(rapid.Byte(), 16, 16).Draw(t, "key"))
		// (P, M) pairs with M within a small factor of 2^P: the Golomb-Rice quotient is written in
		// unary, so a modulus far above 2^P makes filters of gigabytes (outside any use of BIP158;
		// the builder accepts M up to 2^32-1)
		pm := rapid.SampledFrom([][2]uint64{{19, 784931}, {20, 1 << 20}, {8, 256}, {1, 2}, {2, 3}, {2, 40}, {16, 1 << 20}, {32, 1<<32 - 1}, {30, 1 << 31}}).Draw(t, "PM")
		p, m := uint8(pm[0]), pm[1]
		n := rapid.IntRange(0, 40).Draw(t, "n")
		elems := make([][]byte, n)
		for i := range elems {
			if i > 0 && rapid.IntRange(0, 5).Draw(t, "dup") == 0 {
				elems[i] = append([]byte{}, elems[rapid.IntRange(0, i-1).Draw(t, "dupOf")]...)
				continue
			}
			if rapid.IntRange(0, 3).Draw(t, "hashLike") == 0 {
				elems[i] = rapid.SliceOfN(rapid.Byte(), 32, 32).Draw(t, "elem32")
			} else {
				elems[i] = rapid.SliceOfN(rapid.Byte(), 1, 40).Draw(t, "elem")
			}
		}
		b := builder.WithKeyPM(key, p, m)
		scratch := make([]byte, 64)
		viaScratch, dups := 0, 0
		var how []string
		for i := 0; i < len(elems); {
			e := elems[i]
			switch rapid.IntRange(0, 5).Draw(t, "handOver") {
			case 0, 1, 2: // serialised into the scratch buffer, which is reused for the next element
				k := copy(scratch, e)
				b.AddEntry(scratch[:k])
				for j := range scratch {
					scratch[j] = 0xee
				}
				viaScratch++
				how = append(how, "scratch")
				i++
			case 3:
				b.AddEntry(e)
				how = append(how, "slice")
				i++
			case 4:
				if len(e) == 32 {
					var h chainhash.Hash
					copy(h[:], e)
					b.AddHash(&h)
					how = append(how, "hash")
					i++
					continue
				}
				b.AddEntry(e)
				how = append(how, "slice")
				i++
			default:
				k := rapid.IntRange(1, 3).Draw(t, "batch")
				if i+k > len(elems) {
					k = len(elems) - i
				}
				if rapid.Bool().Draw(t, "asWitness") {
					b.AddWitness(elems[i : i+k])
				} else {
					b.AddEntries(elems[i : i+k])
				}
				how = append(how, fmt.Sprintf("batch%d", k))
				i += k
			}
		}
		// distinct elements
		seen := map[string]bool{}
		var set [][]byte
		for _, e := range elems {
			if seen[string(e)] {
				dups++
				continue
			}
			seen[string(e)] = true
			set = append(set, e)
		}
		sort.Slice(set, func(i, j int) bool { return bytes.Compare(set[i], set[j]) < 0 })
		cl := "private-slices"
		if viaScratch >= 2 {
			cl = "scratch-buffer"
		}
		if dups > 0 {
			recBuilder.Count("duplicates", 1)
		}
		var canon []byte
		for _, e := range elems {
			canon = append(canon, byte(len(e)))
			canon = append(canon, e...)
		}
		recBuilder.Case(viaScratch >= 2, cl, ev.Hash(key[:], []byte{p}, []byte(fmt.Sprint(m, how)), canon), func() any {
			return fmt.Sprintf("P=%d M=%d %d elements (%d distinct) handed over as %v", p, m, len(elems), len(set), how)
		})
		model := ff.BuildGCS(key, uint(p), m, set)
		var f1, f2 *gcs.Filter
		var err1, err2 error
		if perr := guard(func() { f1, err1 = b.Build(); f2, err2 = b.Build() }); perr != nil || err1 != nil || err2 != nil {
			t.Fatalf("Build: %v %v %v", perr, err1, err2)
		}
		if f1.N() != uint32(len(set)) {
			t.Fatalf("filter N = %d, %d distinct elements were added (hand-over: %v)", f1.N(), len(set), how)
		}
		nb1, _ := f1.NBytes()
		nb2, _ := f2.NBytes()
		if !bytes.Equal(nb1, model.NBytes()) {
			t.Fatalf("filter bytes %s differ from the BIP158 encoding %s of the %d elements that were added (P=%d M=%d, hand-over: %v)", trunc(nb1, 32), trunc(model.NBytes(), 32), len(set), p, m, how)
		}
		if !bytes.Equal(nb1, nb2) {
			t.Fatalf("a second Build of the unchanged builder gives other bytes: %s vs %s", trunc(nb1, 32), trunc(nb2, 32))
		}
		for _, e := range set {
			ok, merr := f1.Match(key, e)
			if merr != nil || !ok {
				t.Fatalf("the filter misses element %x that was added (%v; hand-over: %v)", e, merr, how)
			}
		}
	})
}
