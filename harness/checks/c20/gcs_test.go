package c20

import (
	"bytes"
	"fmt"
	"testing"

	"github.com/btcsuite/btcd/btcutil/v2/gcs"
	"pgregory.net/rapid"

	"verif/internal/ev"
	ff "verif/internal/model/filterfmt"
)

// sigF12 is the signature of the one listed GCS finding: a query whose reduced
// hash agrees with a member's value in the low 32 bits only.
const sigF12 = "gcs-hashmatchany-low32-alias"

// ---------------------------------------------------------------------------
// generators

type gcsCase struct {
	P      uint8
	M      uint64
	Key    [16]byte
	Elems  [][]byte
	hasDup bool
	set    map[string]struct{}
}

func genKey(t *rapid.T) (k [16]byte) {
	switch pick(t, "keykind", 6) {
	case 0: // all zero
	case 1:
		for i := range k {
			k[i] = 0xff
		}
	default:
		copy(k[:], rapid.SliceOfN(rapid.Byte(), 16, 16).Draw(t, "key"))
	}
	return
}

func genP(t *rapid.T) uint8 {
	switch pick(t, "pkind", 6) {
	case 0:
		return uint8(rapid.IntRange(1, 4).Draw(t, "P"))
	case 1:
		return uint8(rapid.IntRange(28, 32).Draw(t, "P"))
	case 2:
		return uint8(rapid.SampledFrom([]int{19, 20}).Draw(t, "P"))
	}
	return uint8(rapid.IntRange(1, 32).Draw(t, "P"))
}

// genM keeps M/2^P <= 2^10 (and lower for big N): the quotient of every delta
// is written in unary, so the filter costs about N*(M/2^P + P + 1) bits. This
// is a cost bound, not a semantic one.
func genM(t *rapid.T, p uint8, n int) uint64 {
	nn := n
	if nn < 1 {
		nn = 1
	}
	maxRatio := 400000/nn - int(p) - 1
	if maxRatio > 1024 {
		maxRatio = 1024
	}
	if maxRatio < 1 {
		maxRatio = 1
	}
	limit := uint64(maxRatio) << p
	var m uint64
	switch pick(t, "mkind", 12) {
	case 0:
		m = 1
	case 1:
		m = uint64(rapid.IntRange(2, 3).Draw(t, "M"))
	case 2, 3:
		m = 784931
	case 4:
		m = 1 << p
	case 5:
		m = 1<<p + uint64(rapid.IntRange(-1, 1).Draw(t, "dM"))
	case 6:
		m = limit
	case 7:
		m = 1 << 40
	case 8:
		m = uint64(1.497137 * float64(uint64(1)<<p)) // BIP158's optimum M for a given P
	default:
		m = rapid.Uint64Range(1, limit).Draw(t, "M")
	}
	if m > limit {
		m = limit
	}
	if m < 1 {
		m = 1
	}
	return m
}

func expandElems(seed uint64, n, style int) [][]byte {
	r := sm64{seed}
	out := make([][]byte, 0, n)
	for i := 0; i < n; i++ {
		switch style {
		case 0:
			out = append(out, r.bytes(20+r.intn(15)))
		case 1:
			if i > 0 && r.intn(4) == 0 {
				out = append(out, out[r.intn(i)])
			} else {
				out = append(out, r.bytes(20+r.intn(15)))
			}
		case 2:
			switch k := r.intn(200); {
			case k == 0:
				out = append(out, r.bytes(200+r.intn(2800)))
			case k < 6:
				out = append(out, []byte{})
			case k < 30:
				out = append(out, r.bytes(1+r.intn(2)))
			default:
				out = append(out, r.bytes(20+r.intn(48)))
			}
		default:
			out = append(out, []byte{byte(r.intn(64)), byte(r.intn(3))})
		}
	}
	return out
}

func genElems(t *rapid.T, maxN int) [][]byte {
	var n int
	switch pick(t, "nkind", 12) {
	case 0:
		n = 0
	case 1:
		n = 1
	case 2:
		n = 2
	case 3, 4, 5:
		n = rapid.IntRange(0, 24).Draw(t, "n")
	case 6, 7:
		n = rapid.IntRange(25, 300).Draw(t, "n")
	case 8:
		n = rapid.SampledFrom([]int{252, 253, 254}).Draw(t, "n")
	case 9:
		n = rapid.IntRange(300, 1000).Draw(t, "n")
	default:
		lo := 1000
		if lo > maxN {
			lo = maxN / 2
		}
		n = rapid.IntRange(lo, maxN).Draw(t, "n")
	}
	if n > maxN {
		n = maxN
	}
	if n > 24 {
		return expandElems(rapid.Uint64().Draw(t, "eseed"), n, pick(t, "estyle", 4))
	}
	out := make([][]byte, 0, n)
	for i := 0; i < n; i++ {
		var e []byte
		switch k := pick(t, "ekind", 8); {
		case k == 0:
			e = []byte{}
		case k == 1 && i > 0:
			e = out[pick(t, "dupof", i)]
		case k == 2:
			e = rapid.SliceOfN(rapid.Byte(), 1, 4).Draw(t, "short")
		case k == 3:
			r := sm64{rapid.Uint64().Draw(t, "longseed")}
			e = r.bytes(rapid.IntRange(200, 3000).Draw(t, "longlen"))
		default:
			e = rapid.SliceOfN(rapid.Byte(), 20, 40).Draw(t, "elem")
		}
		out = append(out, e)
	}
	return out
}

func genGCSCase(t *rapid.T, maxN int) gcsCase {
	c := gcsCase{Elems: genElems(t, maxN)}
	c.P = genP(t)
	c.M = genM(t, c.P, len(c.Elems))
	c.Key = genKey(t)
	seen := map[string]struct{}{}
	for _, e := range c.Elems {
		if _, ok := seen[string(e)]; ok {
			c.hasDup = true
		}
		seen[string(e)] = struct{}{}
	}
	c.set = seen
	return c
}

func (c *gcsCase) hash() uint64 {
	parts := [][]byte{{c.P}, u64le(c.M), c.Key[:]}
	parts = append(parts, c.Elems...)
	return ev.Hash(parts...)
}

func (c *gcsCase) String() string {
	s := fmt.Sprintf("P=%d M=%d key=%x N=%d", c.P, c.M, c.Key, len(c.Elems))
	for i, e := range c.Elems {
		if i == 4 {
			s += " ..."
			break
		}
		s += " " + trunc(e, 12)
	}
	return s
}

// nonMember derives a byte string that is (almost surely) not an element.
func nonMember(r *sm64, elems [][]byte) []byte {
	if len(elems) > 0 {
		switch r.intn(4) {
		case 0: // a member with one more byte
			return append(append([]byte{}, elems[r.intn(len(elems))]...), byte(r.next()))
		case 1: // a member with one bit flipped
			e := append([]byte{}, elems[r.intn(len(elems))]...)
			if len(e) > 0 {
				e[r.intn(len(e))] ^= 1 << uint(r.intn(8))
				return e
			}
		}
	}
	return r.bytes(1 + r.intn(40))
}

type qset struct {
	name string
	qs   [][]byte
}

func genQuerySets(t *rapid.T, c *gcsCase) []qset {
	n := len(c.Elems)
	r := &sm64{rapid.Uint64().Draw(t, "qseed")}
	nm := func(k int) [][]byte {
		out := make([][]byte, k)
		for i := range out {
			out[i] = nonMember(r, c.Elems)
		}
		return out
	}
	sets := []qset{{"empty", nil}}
	k := rapid.IntRange(1, 10).Draw(t, "qsmall")
	sets = append(sets, qset{"non-members", nm(k)})
	big := n/2 + rapid.IntRange(0, 6).Draw(t, "qbigextra")
	if big > 3000 {
		big = 3000 // HashMatchAny is chosen for len >= N/2 only; keep the cost bounded
	}
	sets = append(sets, qset{"many-non-members", nm(big)})
	if n > 0 {
		// one member hidden at a chosen place of a small and of a large batch
		m := c.Elems[pick(t, "member", n)]
		for _, size := range []int{k, big} {
			qs := nm(size)
			pos := rapid.SampledFrom([]int{0, size, size / 2, -1}).Draw(t, "mpos")
			if pos < 0 {
				pos = r.intn(size + 1)
			}
			qs = append(qs[:pos], append([][]byte{m}, qs[pos:]...)...)
			sets = append(sets, qset{fmt.Sprintf("member-hidden-in-%d", size), qs})
		}
		// every element, in the given order (with duplicates)
		if n <= 3000 {
			sets = append(sets, qset{"all-members", c.Elems})
		}
	}
	// an arbitrary small set
	arb := rapid.SliceOfN(rapid.SliceOfN(rapid.Byte(), 0, 8), 0, 6).Draw(t, "arb")
	sets = append(sets, qset{"arbitrary", arb})
	return sets
}

// ---------------------------------------------------------------------------
// TestGCS: build / match / batch / serialise / round trip

var recGCS = ev.New("C20", "gcs",
	"element multisets of 0..5000 (20000 thorough) byte strings (empty, 1-4 byte, 20-40 byte, long, duplicates; big sets expanded from a rapid seed), "+
		"P 1..32 (boundary-biased 1..4, 28..32, 19/20), M in {1,2,3,784931,2^P,2^P+-1,1.497*2^P,2^40,uniform} capped to M/2^P <= 2^10 (unary quotient cost), random/zero/ff SipHash keys; "+
		"oracle = independent BIP158 model (own SipHash-2-4, 128-bit multiply-shift, Golomb-Rice bit writer): filter bytes equal the model's, N/P/NBytes/PBytes/NPBytes layouts, decode round trips (each decoder reads from its own buffer, which is overwritten as soon as the decoder has returned), "+
		"every member matches, Match(q) = model verdict for sampled queries, MatchAny/ZipMatchAny/HashMatchAny = OR of element-wise verdicts (false positives included) for 6-7 query sets per case; "+
		"non-trivial = (N>=2 with a duplicate) or N>=1000 or P<=4 or P>=28; distinct by hash of (P,M,key,elements)",
	"n=0", "n=1", "small", "medium", "n>=1000", "dup", "p<=4", "p>=28", "m=1", "m=bip158", "hash-path", "zip-path", "fp-batch", "member-batch", "compactsize-3byte")

var recGCSReject = ev.New("C20", "gcs-p-too-big",
	"P in 33..255 offered to BuildGCSFilter / FromBytes / FromNBytes with arbitrary small inputs; oracle = must be rejected with ErrPTooBig; every case is non-trivial; distinct by (P, N)",
	"rejected")

type matcher struct {
	name string
	fn   func(f *gcs.Filter, key [16]byte, qs [][]byte) (bool, error)
	hash bool // may take the hash-set strategy
}

var matchers = []matcher{
	{"MatchAny", func(f *gcs.Filter, k [16]byte, qs [][]byte) (bool, error) { return f.MatchAny(k, qs) }, true},
	{"ZipMatchAny", func(f *gcs.Filter, k [16]byte, qs [][]byte) (bool, error) { return f.ZipMatchAny(k, qs) }, false},
	{"HashMatchAny", func(f *gcs.Filter, k [16]byte, qs [][]byte) (bool, error) { return f.HashMatchAny(k, qs) }, true},
}

// low32 is the set of the members' values truncated to 32 bits: the model of
// the *signature* of finding F12 (used to classify and to exclude, never as
// an oracle).
func low32(model *ff.GCS) map[uint32]struct{} {
	m := make(map[uint32]struct{}, len(model.Values))
	for _, v := range model.Values {
		m[uint32(v)] = struct{}{}
	}
	return m
}

func isAlias(model *ff.GCS, l32 map[uint32]struct{}, q []byte) bool {
	if model.N == 0 {
		return false
	}
	term := model.Term(q)
	if model.HasValue(term) {
		return false
	}
	_, ok := l32[uint32(term)]
	return ok
}

// checkBatch compares the three batch matchers with the OR of the element-wise
// reference verdicts.
func checkBatch(t *rapid.T, rec *ev.Rec, f *gcs.Filter, model *ff.GCS, l32 map[uint32]struct{}, name string, qs [][]byte, desc func() string) {
	wide := model.F() >= 1<<32
	if wide && ev.IsKnown("C20", sigF12) {
		// exclusion by construction of the listed finding: drop the queries
		// that alias a member in the low 32 bits only
		kept := qs[:0:0]
		for _, q := range qs {
			if isAlias(model, l32, q) {
				rec.Excluded()
				continue
			}
			kept = append(kept, q)
		}
		qs = kept
	}
	want := model.MatchAny(qs)
	for _, m := range matchers {
		var got bool
		var err error
		if perr := guard(func() { got, err = m.fn(f, model.Key, qs) }); perr != nil {
			t.Fatalf("%s(%s, %d queries) %v\ncase: %s", m.name, name, len(qs), perr, desc())
		}
		if err != nil {
			t.Fatalf("%s(%s) returned error %v on a filter it built\ncase: %s", m.name, name, err, desc())
		}
		if got == want {
			continue
		}
		if got && wide && (m.name == "HashMatchAny" || (m.name == "MatchAny" && uint64(len(qs)) >= model.N/2)) {
			aliasOnly := false
			for _, q := range qs {
				if isAlias(model, l32, q) {
					aliasOnly = true
				}
			}
			if aliasOnly && rec.Known(sigF12, fmt.Sprintf("%s=true, element-wise=false, N*M=%d", m.name, model.F())) {
				rec.Excluded()
				continue
			}
		}
		t.Fatalf("batch matching differs from element-wise matching: %s(%s, %d queries) = %v, OR of reference Match = %v\ncase: %s",
			m.name, name, len(qs), got, want, desc())
	}
}

func matchOne(t *rapid.T, f *gcs.Filter, model *ff.GCS, q []byte, what string, desc func() string) bool {
	var got bool
	var err error
	if perr := guard(func() { got, err = f.Match(model.Key, q) }); perr != nil {
		t.Fatalf("Match(%s %s) %v\ncase: %s", what, trunc(q, 24), perr, desc())
	}
	if err != nil {
		t.Fatalf("Match(%s %s) returned error %v\ncase: %s", what, trunc(q, 24), err, desc())
	}
	if want := model.Match(q); got != want {
		t.Fatalf("Match(%s %s) = %v, reference (value %d in set) = %v\ncase: %s", what, trunc(q, 24), got, model.Term(q), want, desc())
	}
	return got
}

func TestGCS(t *testing.T) {
	selfCheck(t)
	maxN := ev.Scale(5000, 20000)
	budget := ev.Scale(40000, 300000) // decoded values spent on element-wise Match per case
	rapid.Check(t, func(t *rapid.T) {
		c := genGCSCase(t, maxN)
		n := len(c.Elems)
		model := ff.BuildGCS(c.Key, uint(c.P), c.M, c.Elems)
		desc := func() string { return c.String() }

		class := "medium"
		switch {
		case n == 0:
			class = "n=0"
		case n == 1:
			class = "n=1"
		case n <= 24:
			class = "small"
		case n >= 1000:
			class = "n>=1000"
		}
		nt := (n >= 2 && c.hasDup) || n >= 1000 || c.P <= 4 || c.P >= 28
		recGCS.Case(nt, class, c.hash(), func() any { return c.String() })
		if c.hasDup {
			recGCS.Count("dup", 1)
		}
		if c.P <= 4 {
			recGCS.Count("p<=4", 1)
		}
		if c.P >= 28 {
			recGCS.Count("p>=28", 1)
		}
		if c.M == 1 {
			recGCS.Count("m=1", 1)
		}
		if c.M == 784931 {
			recGCS.Count("m=bip158", 1)
		}
		if c.M>>c.P >= 256 {
			recGCS.Count("ratio>=256", 1)
		}
		if n >= 253 {
			recGCS.Count("compactsize-3byte", 1)
		}
		if model.F() >= 1<<32 {
			recGCS.Count("NM>=2^32", 1)
		}

		// --- build
		var f *gcs.Filter
		var err error
		if perr := guard(func() { f, err = gcs.BuildGCSFilter(c.P, c.M, c.Key, c.Elems) }); perr != nil {
			t.Fatalf("BuildGCSFilter %v\ncase: %s", perr, desc())
		}
		if err != nil {
			t.Fatalf("BuildGCSFilter: %v\ncase: %s", err, desc())
		}
		if f.N() != uint32(n) || f.P() != c.P {
			t.Fatalf("N()=%d P()=%d, want %d %d\ncase: %s", f.N(), f.P(), n, c.P, desc())
		}

		// --- serialisations equal the independent encoder
		raw, _ := f.Bytes()
		nb, _ := f.NBytes()
		pb, _ := f.PBytes()
		npb, _ := f.NPBytes()
		if !bytes.Equal(raw, model.Raw) {
			i := 0
			for i < len(raw) && i < len(model.Raw) && raw[i] == model.Raw[i] {
				i++
			}
			t.Fatalf("filter bytes differ from the BIP158 reference encoding at byte %d (len %d vs %d): btcd %s reference %s\ncase: %s",
				i, len(raw), len(model.Raw), trunc(raw[i:], 8), trunc(model.Raw[i:], 8), desc())
		}
		if !bytes.Equal(nb, model.NBytes()) {
			t.Fatalf("NBytes %s != CompactSize(N)||filter %s\ncase: %s", trunc(nb, 12), trunc(model.NBytes(), 12), desc())
		}
		if !bytes.Equal(pb, model.PBytes()) {
			t.Fatalf("PBytes %s != P||filter %s\ncase: %s", trunc(pb, 12), trunc(model.PBytes(), 12), desc())
		}
		if !bytes.Equal(npb, model.NPBytes()) {
			t.Fatalf("NPBytes %s != CompactSize(N)||P||filter %s\ncase: %s", trunc(npb, 12), trunc(model.NPBytes(), 12), desc())
		}

		// --- round trips through the decoders
		decoded := map[string]*gcs.Filter{}
		{
			var d *gcs.Filter
			var derr error
			// every decoder gets its own buffer (as read from the network or the database) that is
			// overwritten once the decoder has returned: the filter must not depend on it any more
			own := func(b []byte) []byte { return append(make([]byte, 0, len(b)+8), b...) }
			scribble := func(b []byte) {
				b = b[:cap(b)]
				for i := range b {
					b[i] = 0xee
				}
			}
			nbBuf, rawBuf, pbBuf, npbBuf := own(nb), own(raw), own(pb), own(npb)
			if perr := guard(func() { d, derr = gcs.FromNBytes(c.P, c.M, nbBuf) }); perr != nil || derr != nil {
				t.Fatalf("FromNBytes(NBytes()) failed: %v %v\ncase: %s", perr, derr, desc())
			}
			decoded["FromNBytes"] = d
			if perr := guard(func() { d, derr = gcs.FromBytes(uint32(n), c.P, c.M, rawBuf) }); perr != nil || derr != nil {
				t.Fatalf("FromBytes(Bytes()) failed: %v %v\ncase: %s", perr, derr, desc())
			}
			decoded["FromBytes"] = d
			// PBytes: P || data
			if perr := guard(func() { d, derr = gcs.FromBytes(uint32(n), pbBuf[0], c.M, pbBuf[1:]) }); perr != nil || derr != nil {
				t.Fatalf("FromBytes(PBytes) failed: %v %v\ncase: %s", perr, derr, desc())
			}
			decoded["PBytes"] = d
			// NPBytes: CompactSize(N) || P || data, parsed with the reference reader
			nn, sz, ok := ff.ReadCompactSize(npb)
			if !ok || nn != uint64(n) || len(npb) < sz+1 {
				t.Fatalf("NPBytes does not start with CompactSize(N): %s\ncase: %s", trunc(npb, 12), desc())
			}
			if perr := guard(func() { d, derr = gcs.FromBytes(uint32(nn), npbBuf[sz], c.M, npbBuf[sz+1:]) }); perr != nil || derr != nil {
				t.Fatalf("FromBytes(NPBytes) failed: %v %v\ncase: %s", perr, derr, desc())
			}
			decoded["NPBytes"] = d
			for _, b := range [][]byte{nbBuf, rawBuf, pbBuf, npbBuf} {
				scribble(b)
			}
		}
		decNames := []string{"FromNBytes", "FromBytes", "PBytes", "NPBytes"}
		for _, name := range decNames {
			d := decoded[name]
			if d.N() != uint32(n) || d.P() != c.P {
				t.Fatalf("%s round trip: N=%d P=%d want %d %d\ncase: %s", name, d.N(), d.P(), n, c.P, desc())
			}
			b1, _ := d.Bytes()
			b2, _ := d.NBytes()
			b3, _ := d.PBytes()
			b4, _ := d.NPBytes()
			if !bytes.Equal(b1, raw) || !bytes.Equal(b2, nb) || !bytes.Equal(b3, pb) || !bytes.Equal(b4, npb) {
				t.Fatalf("%s round trip changes a serialisation\ncase: %s", name, desc())
			}
		}
		// the matchers are exercised on the built filter or on a decoded copy
		use := f
		if pick(t, "usedecoded", 2) == 1 {
			use = decoded[rapid.SampledFrom(decNames).Draw(t, "which")]
		}

		// --- every element matches (all of them when affordable, else a sample
		// that contains the elements with the smallest and largest value)
		cost := n/2 + 1
		if n*cost <= budget/2 {
			for _, e := range c.Elems {
				if !matchOne(t, use, model, e, "member", desc) {
					t.Fatalf("false negative: element %s does not match\ncase: %s", trunc(e, 24), desc())
				}
			}
		} else {
			k := budget / 2 / cost
			if k < 6 {
				k = 6
			}
			idx := []int{0, n - 1}
			lo, hi := 0, 0
			for i, e := range c.Elems {
				v := model.Term(e)
				if v < model.Term(c.Elems[lo]) {
					lo = i
				}
				if v >= model.Term(c.Elems[hi]) {
					hi = i
				}
			}
			idx = append(idx, lo, hi)
			r := sm64{uint64(n)*7919 + c.M}
			for len(idx) < k {
				idx = append(idx, r.intn(n))
			}
			for _, i := range idx {
				if !matchOne(t, use, model, c.Elems[i], "member", desc) {
					t.Fatalf("false negative: element %d %s does not match\ncase: %s", i, trunc(c.Elems[i], 24), desc())
				}
			}
		}

		// --- batches
		l32 := low32(model)
		for _, qs := range genQuerySets(t, &c) {
			want := model.MatchAny(qs.qs)
			if n > 0 && len(qs.qs) >= n/2 && len(qs.qs) > 0 {
				recGCS.Count("hash-path", 1)
			} else if len(qs.qs) > 0 {
				recGCS.Count("zip-path", 1)
			}
			if want {
				member := false
				for _, q := range qs.qs {
					if _, ok := c.set[string(q)]; ok {
						member = true
						break
					}
				}
				if member {
					recGCS.Count("member-batch", 1)
				} else {
					recGCS.Count("fp-batch", 1)
				}
			}
			checkBatch(t, recGCS, use, model, l32, qs.name, qs.qs, desc)
			// element-wise verdicts of btcd itself on (a sample of) the batch
			lim := len(qs.qs)
			if lim*cost > budget/12 {
				lim = budget/12/cost + 2
			}
			for i := 0; i < lim && i < len(qs.qs); i++ {
				matchOne(t, use, model, qs.qs[i], "query", desc)
			}
		}
	})
}

func TestGCSRejectsLargeP(t *testing.T) {
	selfCheck(t)
	rapid.Check(t, func(t *rapid.T) {
		p := uint8(rapid.IntRange(33, 255).Draw(t, "P"))
		if pick(t, "edge", 3) == 0 {
			p = uint8(rapid.SampledFrom([]int{33, 34, 64, 255}).Draw(t, "Pedge"))
		}
		elems := rapid.SliceOfN(rapid.SliceOfN(rapid.Byte(), 0, 8), 0, 5).Draw(t, "elems")
		m := rapid.Uint64Range(1, 1<<20).Draw(t, "M")
		recGCSReject.Case(true, "rejected", ev.Hash([]byte{p, byte(len(elems))}), func() any { return fmt.Sprintf("P=%d N=%d", p, len(elems)) })
		var key [16]byte
		var err error
		if perr := guard(func() { _, err = gcs.BuildGCSFilter(p, m, key, elems) }); perr != nil || err != gcs.ErrPTooBig {
			t.Fatalf("BuildGCSFilter(P=%d): %v %v, want ErrPTooBig", p, perr, err)
		}
		if perr := guard(func() { _, err = gcs.FromBytes(3, p, m, []byte{1, 2, 3}) }); perr != nil || err != gcs.ErrPTooBig {
			t.Fatalf("FromBytes(P=%d): %v %v, want ErrPTooBig", p, perr, err)
		}
		if perr := guard(func() { _, err = gcs.FromNBytes(p, m, []byte{3, 1, 2, 3}) }); perr != nil || err != gcs.ErrPTooBig {
			t.Fatalf("FromNBytes(P=%d): %v %v, want ErrPTooBig", p, perr, err)
		}
	})
}

// ---------------------------------------------------------------------------
// truncated / extended serialisations

var recGCSTrunc = ev.New("C20", "gcs-truncated-extended",
	"NBytes() of a built filter (N 1..300, any P, M) cut at an arbitrary byte (inside the CompactSize, inside the stream), extended by 1..16 zero/ff/random bytes, or re-labelled with N-3..N+3; "+
		"offered to FromNBytes/FromBytes, then Match/MatchAny/ZipMatchAny/HashMatchAny with members and non-members; oracle = never a panic, an error when no N can be read, otherwise Match and ZipMatchAny "+
		"answer exactly as the reference reading of the bytes (the first N completely present values; range N*M), and HashMatchAny/MatchAny never miss what Match finds; "+
		"non-trivial = the mutation changes the set of decodable values or N; distinct by hash of (case, mutation)",
	"cut-in-varint", "cut-in-stream", "cut-all", "extended", "n-smaller", "n-larger")

func TestGCSTruncatedExtended(t *testing.T) {
	selfCheck(t)
	rapid.Check(t, func(t *rapid.T) {
		c := genGCSCase(t, 300)
		if len(c.Elems) == 0 {
			c.Elems = [][]byte{{1, 2, 3}}
		}
		n := len(c.Elems)
		built := ff.BuildGCS(c.Key, uint(c.P), c.M, c.Elems)
		var f *gcs.Filter
		var err error
		if perr := guard(func() { f, err = gcs.BuildGCSFilter(c.P, c.M, c.Key, c.Elems) }); perr != nil || err != nil {
			t.Fatalf("BuildGCSFilter: %v %v\ncase: %s", perr, err, c.String())
		}
		nb, _ := f.NBytes()
		if !bytes.Equal(nb, built.NBytes()) {
			t.Fatalf("NBytes differs from the reference (see TestGCS)\ncase: %s", c.String())
		}
		prefix := len(ff.CompactSize(uint64(n)))

		var data []byte // what is offered to FromNBytes
		class := ""
		mut := ""
		switch pick(t, "mutation", 6) {
		case 0: // cut inside / right after the CompactSize
			cut := rapid.IntRange(0, prefix).Draw(t, "cut")
			data, class = nb[:cut], "cut-in-varint"
			if cut == prefix {
				class = "cut-all"
			}
			mut = fmt.Sprintf("cut to %d of %d bytes", cut, len(nb))
		case 1, 2: // cut inside the stream
			if len(nb) == prefix {
				data, class = nb, "cut-all"
				break
			}
			cut := rapid.IntRange(prefix, len(nb)-1).Draw(t, "cut")
			if pick(t, "lastbyte", 3) == 0 {
				cut = len(nb) - 1
			}
			data, class = nb[:cut], "cut-in-stream"
			if cut == prefix {
				class = "cut-all"
			}
			mut = fmt.Sprintf("cut to %d of %d bytes", cut, len(nb))
		case 3: // extended
			k := rapid.IntRange(1, 16).Draw(t, "extlen")
			var ext []byte
			switch pick(t, "extkind", 3) {
			case 0:
				ext = make([]byte, k)
			case 1:
				ext = bytes.Repeat([]byte{0xff}, k)
			default:
				ext = rapid.SliceOfN(rapid.Byte(), k, k).Draw(t, "ext")
			}
			data, class = append(append([]byte{}, nb...), ext...), "extended"
			mut = fmt.Sprintf("extended by %x", ext)
		default: // same stream, different N
			d := rapid.IntRange(-3, 3).Draw(t, "dN")
			if d == 0 {
				d = 1
			}
			nn := n + d
			if nn < 0 {
				nn = 0
			}
			data = append(ff.CompactSize(uint64(nn)), built.Raw...)
			class = "n-larger"
			if nn < n {
				class = "n-smaller"
			}
			mut = fmt.Sprintf("N relabelled %d -> %d", n, nn)
		}
		desc := func() string { return c.String() + " ; " + mut + " ; offered " + trunc(data, 40) }

		// reference reading of the offered bytes
		nn, sz, okN := ff.ReadCompactSize(data)
		var ref *ff.GCS
		if okN {
			ref = ff.DecodeGCS(c.Key, uint(c.P), c.M, nn, data[sz:])
		}
		changed := !okN || nn != uint64(n) || len(ref.Values) != n
		recGCSTrunc.Case(changed, class, ev.Hash(u64le(c.hash()), data), func() any { return desc() })

		var d *gcs.Filter
		var derr error
		if perr := guard(func() { d, derr = gcs.FromNBytes(c.P, c.M, data) }); perr != nil {
			t.Fatalf("FromNBytes %v\n%s", perr, desc())
		}
		if !okN {
			if derr == nil {
				t.Fatalf("FromNBytes accepted bytes that do not hold a CompactSize N\n%s", desc())
			}
			return
		}
		if derr != nil {
			return // an error is an allowed answer for a mutilated filter
		}
		// FromBytes with the same split must behave identically
		var d2 *gcs.Filter
		if perr := guard(func() { d2, derr = gcs.FromBytes(uint32(nn), c.P, c.M, data[sz:]) }); perr != nil || derr != nil {
			t.Fatalf("FromBytes(N=%d) %v %v\n%s", nn, perr, derr, desc())
		}
		if d.N() != uint32(nn) {
			t.Fatalf("FromNBytes read N=%d, CompactSize says %d\n%s", d.N(), nn, desc())
		}

		// queries: every original member and some non-members
		r := &sm64{rapid.Uint64().Draw(t, "qseed")}
		queries := append([][]byte{}, c.Elems...)
		for i := 0; i < 8; i++ {
			queries = append(queries, nonMember(r, c.Elems))
		}
		anyWant := false
		for _, dec := range []*gcs.Filter{d, d2} {
			for _, q := range queries {
				var got bool
				var merr error
				if perr := guard(func() { got, merr = dec.Match(c.Key, q) }); perr != nil {
					t.Fatalf("Match(%s) on a mutilated filter %v\n%s", trunc(q, 16), perr, desc())
				}
				if merr != nil {
					continue
				}
				want := ref.Match(q)
				anyWant = anyWant || want
				if got != want {
					t.Fatalf("Match(%s) = %v on a mutilated filter, reference reading of the same bytes (first %d of N=%d values decodable, term %d) = %v\n%s",
						trunc(q, 16), got, len(ref.Values), nn, ref.Term(q), want, desc())
				}
			}
		}
		// batches
		batches := [][][]byte{queries, queries[n:], {queries[0]}, nil}
		for _, qs := range batches {
			want := ref.MatchAny(qs)
			for _, m := range matchers {
				var got bool
				var merr error
				if perr := guard(func() { got, merr = m.fn(d, c.Key, qs) }); perr != nil {
					t.Fatalf("%s on a mutilated filter %v\n%s", m.name, perr, desc())
				}
				if merr != nil {
					continue
				}
				if m.name == "ZipMatchAny" && got != want {
					t.Fatalf("ZipMatchAny(%d queries) = %v on a mutilated filter, OR of reference Match = %v\n%s", len(qs), got, want, desc())
				}
				if want && !got {
					t.Fatalf("%s(%d queries) = false on a mutilated filter although Match finds one of them (reference reading: true)\n%s", m.name, len(qs), desc())
				}
			}
		}
	})
}
