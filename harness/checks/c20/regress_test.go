package c20

import (
	"encoding/hex"
	"fmt"
	"testing"

	"github.com/btcsuite/btcd/btcutil/v2/bloom"
	"github.com/btcsuite/btcd/btcutil/v2/gcs"
	"github.com/btcsuite/btcd/wire/v2"

	"verif/internal/ev"
	ff "verif/internal/model/filterfmt"
)

var recRegress = ev.New("C20", "regressions",
	"fixed inputs that the searches of [gcs-wide-range] and [bloom] shrank to (seconds-long replay that runs in every tier): "+
		"(1) P=32 M=2^40 N=3000 key=0, elements expandElems(0,3000,0), query 00000000000000007aea050000000000 (value equal to a member's modulo 2^32 only); "+
		"(2) NewFilter(100, 0, 0.9, NONE) + Add + Matches; oracle as in the originating sub-checks; both are non-trivial and distinct",
	"gcs-low32-alias", "bloom-k0")

// TestRegressions replays the shrunk inputs of the findings of this property.
func TestRegressions(t *testing.T) {
	selfCheck(t)

	// (1) F12
	{
		var key [16]byte
		elems := expandElems(0, 3000, 0)
		q, _ := hex.DecodeString("00000000000000007aea050000000000")
		model := ff.BuildGCS(key, 32, 1<<40, elems)
		l32 := low32(model)
		recRegress.Case(true, "gcs-low32-alias", ev.HashS("f12"), func() any { return "P=32 M=2^40 N=3000 key=0 query " + hex.EncodeToString(q) })
		if model.Match(q) || !isAlias(model, l32, q) {
			t.Fatalf("VERIF-INFRA: the recorded query is no longer an alias in the reference model (term %d)", model.Term(q))
		}
		f, err := gcs.BuildGCSFilter(32, 1<<40, key, elems)
		if err != nil {
			t.Fatal(err)
		}
		one, err1 := f.Match(key, q)
		zip, err2 := f.ZipMatchAny(key, [][]byte{q})
		hash, err3 := f.HashMatchAny(key, [][]byte{q})
		if err1 != nil || err2 != nil || err3 != nil || one || zip {
			t.Fatalf("Match=%v ZipMatchAny=%v (%v %v %v) for a query that is not in the set", one, zip, err1, err2, err3)
		}
		if hash {
			obs := fmt.Sprintf("HashMatchAny([%x]) = true, Match = false, ZipMatchAny = false; value %#x, P=32 M=2^40 N=3000 key=0", q, model.Term(q))
			if !recRegress.Known(sigF12, obs) {
				t.Fatalf("batch matching differs from element-wise matching: %s", obs)
			}
			f12Met.Store(true)
		}
	}

	// (2) zero hash functions
	{
		recRegress.Case(true, "bloom-k0", ev.HashS("k0"), func() any { return "NewFilter(100, 0, 0.9, NONE)" })
		f := bloom.NewFilter(100, 0, 0.9, wire.BloomUpdateNone)
		msg := f.MsgFilterLoad()
		item := []byte("an item the wallet loads")
		f.Add(item)
		if len(msg.Filter) > 0 && !f.Matches(item) {
			obs := fmt.Sprintf("NewFilter(100, 0, 0.9, NONE): %d bytes, %d hash functions; Add(x) then Matches(x) = false", len(msg.Filter), msg.HashFuncs)
			if !(msg.HashFuncs == 0 && recRegress.Known(sigBloomK0, obs)) {
				t.Fatalf("false negative: %s", obs)
			}
		}
	}
}
