package c20

import (
	"bytes"
	"fmt"
	"testing"

	"github.com/btcsuite/btcd/btcutil/v2/gcs"
	"github.com/btcsuite/btcd/btcutil/v2/gcs/builder"
	"github.com/btcsuite/btcd/chainhash/v2"
	"github.com/btcsuite/btcd/wire/v2"
	"pgregory.net/rapid"

	"verif/internal/ev"
	ff "verif/internal/model/filterfmt"
)

// ---------------------------------------------------------------------------
// blocks for BuildBasicFilter

type basicBlock struct {
	hdr         ff.Header
	txs         []ff.Tx
	prevScripts [][]byte // one per non-coinbase input, in block order
	outScripts  [][]byte
}

func p2pkh(h []byte) []byte {
	return append(append([]byte{0x76, 0xa9, 20}, h...), 0x88, 0xac)
}

func genScript(t *rapid.T, r *sm64, pool [][]byte, label string) []byte {
	switch k := pick(t, label, 16); {
	case k == 0:
		return nil
	case k == 1:
		return []byte{}
	case k == 2:
		return []byte{0x6a} // OP_RETURN alone
	case k == 3: // OP_RETURN <data>
		d := r.bytes(1 + r.intn(40))
		return append([]byte{0x6a, byte(len(d))}, d...)
	case k == 4: // OP_RETURN in the middle / pushed 0x6a: NOT excluded
		return [][]byte{{0x51, 0x6a}, {0x01, 0x6a}, {0x00, 0x6a}, {0x6b, 0x6a}}[r.intn(4)]
	case k == 5: // long script
		return r.bytes(200 + r.intn(9800))
	case k == 6: // witness programs
		if r.intn(2) == 0 {
			return append([]byte{0x00, 20}, r.bytes(20)...)
		}
		return append([]byte{0x51, 32}, r.bytes(32)...)
	case k == 7: // one byte scripts
		return []byte{byte(r.next())}
	case k <= 11 && len(pool) > 0:
		return pool[r.intn(len(pool))]
	}
	return p2pkh(r.bytes(20))
}

func genBasicBlock(t *rapid.T, maxTx int, prev [32]byte) basicBlock {
	var b basicBlock
	b.hdr = genHeader(t)
	b.hdr.PrevBlock = prev
	r := &sm64{rapid.Uint64().Draw(t, "blockseed")}
	// a pool of scripts that recur among outputs and spent outputs
	var pool [][]byte
	for i, n := 0, rapid.IntRange(0, 5).Draw(t, "pool"); i < n; i++ {
		pool = append(pool, genScript(t, r, nil, "poolkind"))
	}
	ntx := rapid.IntRange(1, maxTx).Draw(t, "ntx")
	if pick(t, "ntxedge", 8) == 0 {
		ntx = rapid.SampledFrom([]int{1, 2, maxTx}).Draw(t, "ntxe")
	}
	for i := 0; i < ntx; i++ {
		tx := ff.Tx{Version: 2, LockTime: uint32(i)}
		if i == 0 {
			tx.In = []ff.TxIn{{PrevIndex: 0xffffffff, SigScript: r.bytes(2 + r.intn(60)), Sequence: 0xffffffff}}
		} else {
			for j, n := 0, 1+r.intn(3); j < n; j++ {
				tx.In = append(tx.In, ff.TxIn{PrevHash: r.hash32(), PrevIndex: uint32(r.intn(4)), SigScript: r.bytes(r.intn(80)), Sequence: 0xfffffffe})
				b.prevScripts = append(b.prevScripts, genScript(t, r, pool, "prevkind"))
			}
		}
		nout := rapid.IntRange(0, 4).Draw(t, "nout")
		for j := 0; j < nout; j++ {
			s := genScript(t, r, pool, "outkind")
			tx.Out = append(tx.Out, ff.TxOut{Value: int64(r.intn(1 << 40)), PkScript: s})
			b.outScripts = append(b.outScripts, s)
		}
		b.txs = append(b.txs, tx)
	}
	var ids [][32]byte
	for i := range b.txs {
		ids = append(ids, b.txs[i].TxID())
	}
	b.hdr.MerkleRoot = ff.MerkleRoot(ids)
	return b
}

func (b *basicBlock) wire() *wire.MsgBlock {
	h := toWireHeader(&b.hdr)
	m := wire.NewMsgBlock(&h)
	for i := range b.txs {
		m.AddTransaction(toWireTx(&b.txs[i]))
	}
	return m
}

func (b *basicBlock) String() string {
	s := fmt.Sprintf("header %x ; %d txs ; output scripts:", b.hdr.Serialize(), len(b.txs))
	for _, o := range b.outScripts {
		s += " [" + trunc(o, 30) + "]"
	}
	s += " ; spent scripts:"
	for _, o := range b.prevScripts {
		s += " [" + trunc(o, 30) + "]"
	}
	return s
}

var recBasic = ev.New("C20", "basic-filter",
	"chains of 1..4 blocks of 1..64 txs (coinbase + txs with 1..3 inputs, 0..4 outputs); output and spent scripts from {nil, empty, OP_RETURN, OP_RETURN+data, scripts with 0x6a not in front, "+
		"10 kB scripts, witness programs, 1-byte scripts, P2PKH, recurring pool scripts}; oracle = BIP158 model: element set = outputs minus empty/OP_RETURN-prefixed plus spent scripts minus empty, deduplicated; "+
		"key = first 16 bytes of the model's block hash; N = distinct count; filter bytes = model encoding (P=19, M=784931); every element matches, every excluded script answers as the model says; "+
		"GetFilterHash / MakeHeaderForFilter = BIP157 dSHA256 chain; non-trivial = the block has an excluded script or a duplicate; distinct by hash of header+scripts",
	"empty-set", "has-op-return", "has-empty-script", "has-duplicate", "op-return-not-first", "plain")

func TestBasicFilter(t *testing.T) {
	selfCheck(t)
	rapid.Check(t, func(t *rapid.T) {
		nblocks := rapid.IntRange(1, 4).Draw(t, "nblocks")
		var prevHeader [32]byte
		if pick(t, "prevhdr", 2) == 1 {
			r := sm64{rapid.Uint64().Draw(t, "prevhdrseed")}
			prevHeader = r.hash32()
		}
		var prevBlock [32]byte
		for bi := 0; bi < nblocks; bi++ {
			blk := genBasicBlock(t, ev.Scale(64, 200), prevBlock)
			desc := func() string { return fmt.Sprintf("block %d: %s", bi, blk.String()) }
			elems := ff.BasicElements(blk.outScripts, blk.prevScripts)
			blockHash := blk.hdr.Hash()
			prevBlock = blockHash
			key := ff.BasicKey(blockHash)
			model := ff.BuildGCS(key, ff.BasicP, ff.BasicM, elems)

			// classification
			hasOpRet, hasEmpty, hasDup, midOpRet := false, false, false, false
			seen := map[string]bool{}
			for _, s := range blk.outScripts {
				if len(s) > 0 && s[0] == 0x6a {
					hasOpRet = true
				}
			}
			for _, s := range append(append([][]byte{}, blk.outScripts...), blk.prevScripts...) {
				if len(s) == 0 {
					hasEmpty = true
					continue
				}
				if s[0] != 0x6a && bytes.IndexByte(s, 0x6a) > 0 && len(s) <= 2 {
					midOpRet = true
				}
				if seen[string(s)] {
					hasDup = true
				}
				seen[string(s)] = true
			}
			class := "plain"
			switch {
			case len(elems) == 0:
				class = "empty-set"
			case hasOpRet:
				class = "has-op-return"
			case hasEmpty:
				class = "has-empty-script"
			case hasDup:
				class = "has-duplicate"
			}
			parts := [][]byte{blk.hdr.Serialize()}
			parts = append(parts, blk.outScripts...)
			parts = append(parts, []byte("|"))
			parts = append(parts, blk.prevScripts...)
			recBasic.Case(hasOpRet || hasEmpty || hasDup, class, ev.Hash(parts...), func() any { return desc() })
			if hasOpRet && class != "has-op-return" {
				recBasic.Count("has-op-return", 1)
			}
			if hasEmpty && class != "has-empty-script" {
				recBasic.Count("has-empty-script", 1)
			}
			if hasDup && class != "has-duplicate" {
				recBasic.Count("has-duplicate", 1)
			}
			if midOpRet {
				recBasic.Count("op-return-not-first", 1)
			}

			msg := blk.wire()
			if got := msg.BlockHash(); got != chainhash.Hash(blockHash) {
				t.Fatalf("VERIF-INFRA: block hash of the data carrier %x != reference %x", got[:], blockHash[:])
			}
			var f *gcs.Filter
			var err error
			if perr := guard(func() { f, err = builder.BuildBasicFilter(msg, blk.prevScripts) }); perr != nil || err != nil {
				t.Fatalf("BuildBasicFilter: %v %v\n%s", perr, err, desc())
			}
			if f.N() != uint32(len(elems)) {
				t.Fatalf("basic filter N = %d, BIP158 element set has %d distinct elements\n%s", f.N(), len(elems), desc())
			}
			if f.P() != ff.BasicP {
				t.Fatalf("basic filter P = %d want 19\n%s", f.P(), desc())
			}
			h := chainhash.Hash(blockHash)
			if dk := builder.DeriveKey(&h); dk != key {
				t.Fatalf("DeriveKey = %x, first 16 bytes of the block hash = %x", dk, key)
			}
			nb, _ := f.NBytes()
			if !bytes.Equal(nb, model.NBytes()) {
				t.Fatalf("basic filter bytes %s differ from the BIP158 reference %s (N %d vs %d)\n%s", trunc(nb, 24), trunc(model.NBytes(), 24), f.N(), model.N, desc())
			}
			// every element matches, singly and as a batch
			for _, e := range elems {
				ok, merr := f.Match(key, e)
				if merr != nil || !ok {
					t.Fatalf("basic filter misses script %s (%v)\n%s", trunc(e, 40), merr, desc())
				}
			}
			if len(elems) > 0 {
				for _, m := range matchers {
					ok, merr := m.fn(f, key, elems)
					if merr != nil || !ok {
						t.Fatalf("basic filter %s(all scripts) = %v %v\n%s", m.name, ok, merr, desc())
					}
				}
			}
			// excluded scripts answer as the reference set says (normally false)
			for _, s := range append(append([][]byte{}, blk.outScripts...), blk.prevScripts...) {
				ok, merr := f.Match(key, s)
				if merr != nil || ok != model.Match(s) {
					t.Fatalf("basic filter Match(%s) = %v %v, reference %v\n%s", trunc(s, 40), ok, merr, model.Match(s), desc())
				}
			}

			// BIP157 filter hash and header chain
			wantHash := ff.FilterHash(model.NBytes())
			gotHash, herr := builder.GetFilterHash(f)
			if herr != nil || gotHash != chainhash.Hash(wantHash) {
				t.Fatalf("GetFilterHash = %x (%v), dSHA256(filter) = %x\n%s", gotHash[:], herr, wantHash[:], desc())
			}
			wantHeader := ff.FilterHeader(wantHash, prevHeader)
			gotHeader, herr := builder.MakeHeaderForFilter(f, chainhash.Hash(prevHeader))
			if herr != nil || gotHeader != chainhash.Hash(wantHeader) {
				t.Fatalf("MakeHeaderForFilter = %x (%v), dSHA256(filterHash||prev) = %x (prev %x)\n%s", gotHeader[:], herr, wantHeader[:], prevHeader[:], desc())
			}
			prevHeader = wantHeader
		}
	})
}
