package c20

import (
	"bytes"
	"encoding/binary"
	"fmt"
	"math"
	"sync/atomic"
	"testing"

	"github.com/btcsuite/btcd/btcutil/v2"
	"github.com/btcsuite/btcd/btcutil/v2/bloom"
	"github.com/btcsuite/btcd/chainhash/v2"
	"github.com/btcsuite/btcd/wire/v2"
	"pgregory.net/rapid"

	"verif/internal/ev"
	ff "verif/internal/model/filterfmt"
)

// sigBloomK0: a filter with a non-empty bit field and zero hash functions.
const sigBloomK0 = "bloom-zero-hashfuncs-nonempty-field-matches-nothing"

var k0Met, f12Met atomic.Bool

func genTweak(t *rapid.T) uint32 {
	if pick(t, "tweakkind", 3) == 0 {
		return rapid.SampledFrom([]uint32{0, 1, 5, 0x7fffffff, 0x80000000, 2147483649, 0xffffffff}).Draw(t, "tweak")
	}
	return rapid.Uint32().Draw(t, "tweak")
}

func genFlags(t *rapid.T) uint8 { return uint8(pick(t, "flags", 3)) }

// genItem draws one "data element" a wallet would load: key hashes, keys,
// txids, outpoints, odd sizes.
func genItem(r *sm64) []byte {
	switch r.intn(10) {
	case 0:
		return []byte{}
	case 1:
		return r.bytes(1 + r.intn(4))
	case 2:
		return r.bytes(32)
	case 3:
		return append([]byte{byte(2 + r.intn(2))}, r.bytes(32)...)
	case 4:
		return append([]byte{4}, r.bytes(64)...)
	case 5:
		return r.bytes(36)
	case 6:
		return r.bytes(100 + r.intn(500))
	}
	return r.bytes(20)
}

// ---------------------------------------------------------------------------
// TestBloom: sizing, Add/Matches, bit layout, filterload round trip

var recBloom = ev.New("C20", "bloom",
	"NewFilter(elements 0..20000 boundary-biased {0,1,2,3,20000, around the 36000-byte clamp}, fp rate in [1e-9,1] {1,0.9,0.51,0.5,0.49,...,1e-9, log-uniform}, tweak, flags NONE/ALL/P2PUBKEY_ONLY) "+
		"and LoadFilter(arbitrary bit field of 1..36000 bytes, 0..50 hash functions); 0..400 items (20/32/33/65/36-byte, empty, long) added through Add/AddHash/AddOutPoint; "+
		"oracle = BIP37 model (own MurmurHash3, seed i*0xFBA4C795+tweak, bit h mod 8*bytes, LSB-first bytes): size and hash-function count = BIP37 formulas with clamps, bit field identical to the model's after every batch of adds, "+
		"every added item matches (non-empty bit field), Matches/MatchesOutPoint of probes = model verdict (false positives included), MsgFilterLoad wire bytes = layout and decode back to an equal filter; "+
		"non-trivial = at least one item added to a non-empty field; distinct by hash of (params, items)",
	"newfilter", "loadfilter", "empty-field", "size-clamped", "k=0", "flags-none", "flags-all", "flags-p2pubkey", "fp-probe")

func genFP(t *rapid.T) float64 {
	switch pick(t, "fpkind", 4) {
	case 0:
		return rapid.SampledFrom([]float64{1.0, 0.9, 0.51, 0.5, 0.49, 0.1, 0.01, 0.001, 0.00098, 0.0001, 1e-6, 1e-9}).Draw(t, "fp")
	case 1:
		return rapid.Float64Range(1e-9, 1).Draw(t, "fp")
	}
	fp := math.Exp(-rapid.Float64Range(0, 20.7).Draw(t, "nlogfp"))
	if fp < 1e-9 {
		fp = 1e-9
	}
	if fp > 1 {
		fp = 1
	}
	return fp
}

func genBloomN(t *rapid.T) uint32 {
	switch pick(t, "nkind", 6) {
	case 0:
		return uint32(rapid.SampledFrom([]int{0, 1, 2, 3, 10, 100, 1000, 19999, 20000}).Draw(t, "n"))
	case 1:
		return uint32(rapid.IntRange(0, 50).Draw(t, "n"))
	case 2:
		return uint32(rapid.IntRange(50, 2000).Draw(t, "n"))
	case 3:
		return uint32(rapid.IntRange(15000, 20000).Draw(t, "n"))
	}
	return uint32(rapid.IntRange(0, 20000).Draw(t, "n"))
}

type bloomPair struct {
	f     *bloom.Filter
	m     *ff.Bloom
	descr string
	// verify holds the assertions on the constructor's result (sizing
	// formulas); the tests run it after the case has been recorded.
	verify func(t *rapid.T)
}

// genBloomPair creates the filter under test and the reference filter with the
// same parameters, through NewFilter (checking the sizing formulas) or
// LoadFilter.
func genBloomPair(t *rapid.T, rec *ev.Rec, allowK0 bool) bloomPair {
	tweak := genTweak(t)
	flags := genFlags(t)
	if pick(t, "ctor", 3) != 0 {
		n := genBloomN(t)
		fp := genFP(t)
		descr := fmt.Sprintf("NewFilter(elements=%d, tweak=%d, fprate=%g, flags=%d)", n, tweak, fp, flags)
		var f *bloom.Filter
		if perr := guard(func() { f = bloom.NewFilter(n, tweak, fp, wire.BloomUpdateType(flags)) }); perr != nil {
			t.Fatalf("%s %v", descr, perr)
		}
		msg := f.MsgFilterLoad()
		size := uint32(len(msg.Filter))
		verify := func(t *rapid.T) {
			lo, hi := ff.BloomBytesRange(n, fp)
			if size < lo || size > hi {
				t.Fatalf("%s: filter is %d bytes, BIP37 formula min(-1/ln2^2*N*ln(P), 36000*8)/8 gives %d..%d", descr, size, lo, hi)
			}
			if size > ff.MaxBloomBytes {
				t.Fatalf("%s: %d bytes exceed the 36000-byte limit", descr, size)
			}
			if n > 0 {
				klo, khi := ff.BloomFuncsRange(size, n)
				if msg.HashFuncs < klo || msg.HashFuncs > khi {
					t.Fatalf("%s: %d hash functions, BIP37 formula min(bytes*8/N*ln2, 50) gives %d..%d (bytes=%d)", descr, msg.HashFuncs, klo, khi, size)
				}
			}
			if msg.HashFuncs > ff.MaxBloomFuncs {
				t.Fatalf("%s: %d hash functions exceed the limit of 50", descr, msg.HashFuncs)
			}
			if msg.Tweak != tweak || uint8(msg.Flags) != flags {
				t.Fatalf("%s: tweak/flags not kept: %d %d", descr, msg.Tweak, msg.Flags)
			}
		}
		for _, b := range msg.Filter {
			if b != 0 {
				verify = func(t *rapid.T) { t.Fatalf("%s: fresh filter has bits set", descr) }
			}
		}
		rec.Count("newfilter", 1)
		if size == ff.MaxBloomBytes {
			rec.Count("size-clamped", 1)
		}
		if size > 0 && msg.HashFuncs == 0 && !allowK0 {
			// the listed finding: excluded by construction, one hash function instead
			rec.Excluded()
			msg2 := wire.NewMsgFilterLoad(make([]byte, size), 1, tweak, wire.BloomUpdateType(flags))
			return bloomPair{bloom.LoadFilter(msg2), ff.NewBloom(msg2.Filter, 1, tweak, flags), descr + " with HashFuncs forced to 1", verify}
		}
		return bloomPair{f, ff.NewBloom(msg.Filter, msg.HashFuncs, tweak, flags), descr, verify}
	}
	// LoadFilter with an arbitrary geometry
	var size int
	switch pick(t, "sizekind", 5) {
	case 0:
		size = rapid.IntRange(1, 4).Draw(t, "size")
	case 1:
		size = rapid.SampledFrom([]int{1, 8, 35999, 36000}).Draw(t, "size")
	case 2:
		size = rapid.IntRange(1, 36000).Draw(t, "size")
	default:
		size = rapid.IntRange(1, 300).Draw(t, "size")
	}
	k := uint32(rapid.IntRange(0, 50).Draw(t, "k"))
	if pick(t, "kedge", 4) == 0 {
		k = uint32(rapid.SampledFrom([]int{0, 1, 2, 49, 50}).Draw(t, "kedgev"))
	}
	if k == 0 && !allowK0 {
		rec.Excluded()
		k = 1
	}
	field := make([]byte, size)
	if pick(t, "prefill", 4) == 0 {
		// a filter that already carries somebody's data
		r := sm64{rapid.Uint64().Draw(t, "fillseed")}
		dens := r.intn(4)
		for i := range field {
			b := byte(r.next())
			for j := 0; j < dens; j++ {
				b &= byte(r.next())
			}
			field[i] = b
		}
	}
	msg := wire.NewMsgFilterLoad(append([]byte{}, field...), k, tweak, wire.BloomUpdateType(flags))
	descr := fmt.Sprintf("LoadFilter(bytes=%d (%s), hashFuncs=%d, tweak=%d, flags=%d)", size, trunc(field, 8), k, tweak, flags)
	var f *bloom.Filter
	if perr := guard(func() { f = bloom.LoadFilter(msg) }); perr != nil {
		t.Fatalf("%s %v", descr, perr)
	}
	rec.Count("loadfilter", 1)
	return bloomPair{f, ff.NewBloom(field, k, tweak, flags), descr, func(*rapid.T) {}}
}

func sameBits(t *rapid.T, p bloomPair, when string) {
	got := p.f.MsgFilterLoad().Filter
	if !bytes.Equal(got, p.m.Bits) {
		i := 0
		for i < len(got) && i < len(p.m.Bits) && got[i] == p.m.Bits[i] {
			i++
		}
		t.Fatalf("%s: bit field differs from the BIP37 reference %s at byte %d: btcd %s reference %s", p.descr, when, i, trunc(got[i:], 6), trunc(p.m.Bits[i:], 6))
	}
}

func TestBloom(t *testing.T) {
	selfCheck(t)
	rapid.Check(t, func(t *rapid.T) {
		// the listed zero-hash-function finding is let through until it has been
		// met (and printed) once in this process, then excluded by construction
		known := ev.IsKnown("C20", sigBloomK0) && k0Met.Load()
		p := genBloomPair(t, recBloom, !known)
		r := &sm64{rapid.Uint64().Draw(t, "itemseed")}
		nItems := rapid.IntRange(0, 40).Draw(t, "nitems")
		if pick(t, "many", 5) == 0 {
			nItems = rapid.IntRange(40, 400).Draw(t, "nitems2")
		}
		empty := len(p.m.Bits) == 0
		class := "flags-none"
		switch p.m.Flags {
		case ff.UpdateAll:
			class = "flags-all"
		case ff.UpdateP2PubkeyOnly:
			class = "flags-p2pubkey"
		}
		if empty {
			class = "empty-field"
		}
		items := make([][]byte, nItems)
		how := make([]int, nItems)
		for i := range items {
			items[i] = genItem(r)
			how[i] = r.intn(3)
			if how[i] == 1 {
				items[i] = r.bytes(32) // AddHash
			}
			if how[i] == 2 {
				items[i] = r.bytes(36) // AddOutPoint
			}
		}
		parts := append([][]byte{[]byte(p.descr)}, items...)
		recBloom.Case(!empty && nItems > 0, class, ev.Hash(parts...), func() any { return fmt.Sprintf("%s ; %d items", p.descr, nItems) })
		if !empty && p.m.K == 0 {
			recBloom.Count("k=0", 1)
		}
		p.verify(t)

		// --- adds, in lockstep with the reference
		for i, it := range items {
			it := it
			var perr error
			switch how[i] {
			case 0:
				perr = guard(func() { p.f.Add(it) })
			case 1:
				h, _ := chainhash.NewHash(it)
				perr = guard(func() { p.f.AddHash(h) })
			default:
				h, _ := chainhash.NewHash(it[:32])
				op := wire.NewOutPoint(h, binary.LittleEndian.Uint32(it[32:]))
				perr = guard(func() { p.f.AddOutPoint(op) })
			}
			if perr != nil {
				t.Fatalf("%s: adding %s %v", p.descr, trunc(it, 40), perr)
			}
			p.m.Add(it)
		}
		sameBits(t, p, fmt.Sprintf("after %d adds", nItems))

		// --- nothing added is missed
		for i, it := range items {
			it := it
			var got, gotOP bool
			perr := guard(func() {
				got = p.f.Matches(it)
				if len(it) == 36 {
					h, _ := chainhash.NewHash(it[:32])
					gotOP = p.f.MatchesOutPoint(wire.NewOutPoint(h, binary.LittleEndian.Uint32(it[32:])))
				}
			})
			if perr != nil {
				t.Fatalf("%s: Matches(%s) %v", p.descr, trunc(it, 40), perr)
			}
			if empty {
				continue // the property makes no claim for an empty bit field
			}
			if !got || (len(it) == 36 && !gotOP) {
				obs := fmt.Sprintf("%s: item %d %s was added (how=%d) but Matches=%v MatchesOutPoint=%v; hashFuncs=%d bytes=%d",
					p.descr, i, trunc(it, 40), how[i], got, gotOP, p.m.K, len(p.m.Bits))
				if p.m.K == 0 && recBloom.Known(sigBloomK0, obs) {
					k0Met.Store(true)
					recBloom.Excluded()
					break
				}
				t.Fatalf("false negative: %s", obs)
			}
		}

		// --- probes: exact agreement with the reference, false positives included
		if !empty && p.m.K > 0 {
			for i := 0; i < 30; i++ {
				q := genItem(r)
				var got bool
				if perr := guard(func() { got = p.f.Matches(q) }); perr != nil {
					t.Fatalf("%s: Matches(%s) %v", p.descr, trunc(q, 40), perr)
				}
				want := p.m.Contains(q)
				if want {
					recBloom.Count("fp-probe", 1)
				}
				if got != want {
					t.Fatalf("%s: Matches(%s) = %v, BIP37 reference = %v", p.descr, trunc(q, 40), got, want)
				}
				if len(q) == 36 {
					h, _ := chainhash.NewHash(q[:32])
					if gotOP := p.f.MatchesOutPoint(wire.NewOutPoint(h, binary.LittleEndian.Uint32(q[32:]))); gotOP != want {
						t.Fatalf("%s: MatchesOutPoint(%x) = %v, Matches of its serialisation = %v", p.descr, q, gotOP, want)
					}
				}
			}
		}

		// --- filterload round trip
		msg := p.f.MsgFilterLoad()
		if msg == nil {
			t.Fatalf("%s: MsgFilterLoad() = nil", p.descr)
		}
		var buf bytes.Buffer
		if err := msg.BtcEncode(&buf, wire.ProtocolVersion, wire.BaseEncoding); err != nil {
			t.Fatalf("%s: MsgFilterLoad().BtcEncode: %v", p.descr, err)
		}
		want := append(ff.CompactSize(uint64(len(p.m.Bits))), p.m.Bits...)
		var tail [9]byte
		binary.LittleEndian.PutUint32(tail[0:], msg.HashFuncs)
		binary.LittleEndian.PutUint32(tail[4:], p.m.Tweak)
		tail[8] = p.m.Flags
		want = append(want, tail[:]...)
		if !empty && msg.HashFuncs != p.m.K {
			t.Fatalf("%s: MsgFilterLoad().HashFuncs = %d want %d", p.descr, msg.HashFuncs, p.m.K)
		}
		if !bytes.Equal(buf.Bytes(), want) {
			t.Fatalf("%s: filterload bytes %s differ from the BIP37 layout %s", p.descr, trunc(buf.Bytes(), 16), trunc(want, 16))
		}
		var back wire.MsgFilterLoad
		if err := back.BtcDecode(bytes.NewReader(buf.Bytes()), wire.ProtocolVersion, wire.BaseEncoding); err != nil {
			t.Fatalf("%s: filterload does not decode: %v", p.descr, err)
		}
		f2 := bloom.LoadFilter(&back)
		m2 := f2.MsgFilterLoad()
		if !bytes.Equal(m2.Filter, p.m.Bits) || m2.Tweak != p.m.Tweak || uint8(m2.Flags) != p.m.Flags || (!empty && m2.HashFuncs != p.m.K) {
			t.Fatalf("%s: LoadFilter(decode(encode(MsgFilterLoad()))) differs: %d bytes k=%d tweak=%d flags=%d", p.descr, len(m2.Filter), m2.HashFuncs, m2.Tweak, m2.Flags)
		}
		if !empty && p.m.K > 0 {
			for _, it := range items {
				if !f2.Matches(it) {
					t.Fatalf("%s: reloaded filter misses added item %s", p.descr, trunc(it, 40))
				}
			}
		}
	})
}

// ---------------------------------------------------------------------------
// TestBloomTx: MatchTxAndUpdate against the BIP37 matching algorithm

var recBloomTx = ev.New("C20", "bloom-tx",
	"filters as in [bloom] (tiny fields for false positives, prefilled fields, all three update flags) loaded with watched keys / key hashes / script hashes / txids / outpoints; sequences of 1..6 txs whose outputs "+
		"pay to watched or unwatched data in P2PK, P2PKH, bare multisig, P2SH, P2WPKH, OP_RETURN data, PUSHDATA1/2 encodings, non-push scripts, and whose inputs spend watched outpoints, outputs of earlier txs "+
		"of the sequence (auto-inserted outpoints) or carry watched keys in their signature scripts; oracle = model of BIP37's matching algorithm run in lockstep: verdict per tx and the whole bit field after every tx "+
		"(ALL inserts every matched output's outpoint, P2PUBKEY_ONLY only for pay-to-pubkey / multisig outputs, NONE nothing); zero-length pushes that would change the outcome and unparseable scripts are outside BIP37's text: "+
		"counted, not asserted; non-trivial = some tx of the sequence matches and some does not, or an outpoint is inserted; distinct by hash of (filter, txs)",
	"match-txid", "match-output-push", "match-prev-outpoint", "match-input-push", "no-match", "outpoint-inserted", "p2pubkey-only-skipped", "chain-spend-matched")

type watch struct {
	keys  [][]byte // 33/65-byte public keys
	h20   [][]byte
	data  [][]byte
	ops   [][]byte // 36-byte serialised outpoints
	txids map[int]bool
}

func pushOf(d []byte, r *sm64) []byte {
	n := len(d)
	switch {
	case n <= 75 && r.intn(6) != 0:
		return append([]byte{byte(n)}, d...)
	case n <= 255 && r.intn(3) != 0:
		return append([]byte{0x4c, byte(n)}, d...)
	case n <= 65535:
		return append([]byte{0x4d, byte(n), byte(n >> 8)}, d...)
	}
	return append([]byte{0x4e, byte(n), byte(n >> 8), byte(n >> 16), byte(n >> 24)}, d...)
}

func genOutScript(r *sm64, w *watch, watched bool) []byte {
	newKey := func() []byte {
		if r.intn(3) == 0 {
			return append([]byte{4}, r.bytes(64)...)
		}
		return append([]byte{byte(2 + r.intn(2))}, r.bytes(32)...)
	}
	key := newKey()
	h := r.bytes(20)
	d := r.bytes(1 + r.intn(80))
	if watched {
		if len(w.keys) > 0 {
			key = w.keys[r.intn(len(w.keys))]
		}
		if len(w.h20) > 0 {
			h = w.h20[r.intn(len(w.h20))]
		}
		if len(w.data) > 0 {
			d = w.data[r.intn(len(w.data))]
		}
	}
	if r.intn(24) == 0 { // a push running past the end of the script, after a good one
		return append(pushOf(d, r), [][]byte{{0x4c}, {0x05, 0x01}, {0x4d, 0xff}, {0x4e, 1, 0, 0}}[r.intn(4)]...)
	}
	switch r.intn(12) {
	case 0, 1: // pay-to-pubkey
		return append(append([]byte{byte(len(key))}, key...), 0xac)
	case 2: // bare multisig 1..2 of 2..3
		n := 2 + r.intn(2)
		m := 1 + r.intn(2)
		s := []byte{byte(0x50 + m)}
		pos := r.intn(n)
		for i := 0; i < n; i++ {
			k := newKey()
			if i == pos {
				k = key
			}
			s = append(append(s, byte(len(k))), k...)
		}
		return append(s, byte(0x50+n), 0xae)
	case 3, 4: // P2PKH
		return p2pkh(h)
	case 5: // P2SH
		return append(append([]byte{0xa9, 20}, h...), 0x87)
	case 6: // P2WPKH (has a zero-length push)
		return append([]byte{0x00, 20}, h...)
	case 7: // OP_RETURN data
		return append([]byte{0x6a}, pushOf(d, r)...)
	case 8: // <data> OP_DROP OP_1 in any push encoding
		return append(pushOf(d, r), 0x75, 0x51)
	case 9: // no push at all
		return []byte{0x51, 0x76, 0xa9, 0x87}
	case 10:
		return []byte{}
	}
	return p2pkh(h)
}

func TestBloomTx(t *testing.T) {
	selfCheck(t)
	rapid.Check(t, func(t *rapid.T) {
		p := genBloomPair(t, recBloomTx, !ev.IsKnown("C20", sigBloomK0))
		if len(p.m.Bits) == 0 {
			// zero-size fields are outside the property; keep the case cheap
			recBloomTx.Case(false, "", 0, nil)
			return
		}
		r := &sm64{rapid.Uint64().Draw(t, "seed")}
		// --- what the wallet watches
		var w watch
		for i, n := 0, rapid.IntRange(0, 4).Draw(t, "nkeys"); i < n; i++ {
			if r.intn(3) == 0 {
				w.keys = append(w.keys, append([]byte{4}, r.bytes(64)...))
			} else {
				w.keys = append(w.keys, append([]byte{byte(2 + r.intn(2))}, r.bytes(32)...))
			}
		}
		for i, n := 0, rapid.IntRange(0, 4).Draw(t, "nh20"); i < n; i++ {
			w.h20 = append(w.h20, r.bytes(20))
		}
		for i, n := 0, rapid.IntRange(0, 2).Draw(t, "ndata"); i < n; i++ {
			w.data = append(w.data, r.bytes(1+r.intn(300)))
		}
		for i, n := 0, rapid.IntRange(0, 3).Draw(t, "nops"); i < n; i++ {
			w.ops = append(w.ops, r.bytes(36))
		}
		add := func(d []byte) {
			p.f.Add(d)
			p.m.Add(d)
		}
		for _, k := range w.keys {
			add(k)
		}
		for _, k := range w.h20 {
			add(k)
		}
		for _, k := range w.data {
			add(k)
		}
		for _, o := range w.ops {
			h, _ := chainhash.NewHash(o[:32])
			p.f.AddOutPoint(wire.NewOutPoint(h, binary.LittleEndian.Uint32(o[32:])))
			p.m.Add(o)
		}

		// --- the transactions
		ntx := rapid.IntRange(1, 6).Draw(t, "ntx")
		watchTxid := rapid.IntRange(-1, ntx-1).Draw(t, "watchtxid") // this tx's id is loaded up front (-1: none)
		type made struct {
			tx   ff.Tx
			txid [32]byte
		}
		var txs []made
		for i := 0; i < ntx; i++ {
			tx := ff.Tx{Version: int32(1 + r.intn(2)), LockTime: uint32(r.intn(3))}
			for j, n := 0, 1+rapid.IntRange(0, 2).Draw(t, "nin"); j < n; j++ {
				in := ff.TxIn{PrevHash: r.hash32(), PrevIndex: uint32(r.intn(3)), Sequence: 0xffffffff}
				switch k := rapid.IntRange(0, 7).Draw(t, "inkind"); {
				case k == 0 && len(w.ops) > 0: // spends a watched outpoint
					o := w.ops[r.intn(len(w.ops))]
					copy(in.PrevHash[:], o[:32])
					in.PrevIndex = binary.LittleEndian.Uint32(o[32:])
				case k <= 3 && len(txs) > 0: // spends an output of an earlier tx of the sequence
					src := txs[r.intn(len(txs))]
					in.PrevHash = src.txid
					if len(src.tx.Out) > 0 {
						in.PrevIndex = uint32(r.intn(len(src.tx.Out)))
					}
				}
				switch k := rapid.IntRange(0, 5).Draw(t, "sigkind"); {
				case k == 0:
					in.SigScript = nil
				case k == 1 && len(w.keys) > 0: // <sig> <watched pubkey>
					in.SigScript = append(pushOf(r.bytes(71+r.intn(3)), r), pushOf(w.keys[r.intn(len(w.keys))], r)...)
				case k == 2 && len(w.data) > 0:
					in.SigScript = pushOf(w.data[r.intn(len(w.data))], r)
				case k == 4 && r.intn(4) == 0: // garbage like a coinbase script: a push past the end
					in.SigScript = append(pushOf(r.bytes(8), r), 0x4b, 0x01)
				case k == 3: // OP_0 <sig> (multisig spend; has a zero-length push)
					in.SigScript = append([]byte{0x00}, pushOf(r.bytes(72), r)...)
				default: // <sig> <unwatched pubkey>
					in.SigScript = append(pushOf(r.bytes(72), r), pushOf(append([]byte{2}, r.bytes(32)...), r)...)
				}
				tx.In = append(tx.In, in)
			}
			for j, n := 0, rapid.IntRange(0, 4).Draw(t, "nout"); j < n; j++ {
				watched := rapid.IntRange(0, 3).Draw(t, "watched") == 0
				tx.Out = append(tx.Out, ff.TxOut{Value: int64(r.intn(1 << 30)), PkScript: genOutScript(r, &w, watched)})
			}
			txs = append(txs, made{tx, tx.TxID()})
		}
		if watchTxid >= 0 {
			id := txs[watchTxid].txid
			h := chainhash.Hash(id)
			p.f.AddHash(&h)
			p.m.Add(id[:])
		}

		// --- the reference runs first (on its own copy of the filter) so that the
		// case can be classified before anything is asserted
		ref := ff.NewBloom(p.m.Bits, p.m.K, p.m.Tweak, p.m.Flags)
		var rels []ff.Relevance
		var snaps [][]byte
		stopped := ""
		matchedIDs := map[[32]byte]bool{}
		anyMatch, anyMiss, anyInsert := false, false, false
		hparts := [][]byte{[]byte(p.descr)}
		for i := range txs {
			hparts = append(hparts, txs[i].tx.Serialize())
		}
		for i := range txs {
			rel := ref.RelevantAndUpdate(&txs[i].tx)
			rels = append(rels, rel)
			snaps = append(snaps, append([]byte{}, ref.Bits...))
			if rel.Ambiguous {
				stopped = "ambiguous-empty-push"
				break
			}
			if rel.Unparseable {
				stopped = "unparseable"
				break
			}
			if rel.Match {
				anyMatch = true
				matchedIDs[txs[i].txid] = true
				recBloomTx.Count("match-"+rel.Reason, 1)
				if rel.Reason == "prev-outpoint" {
					for _, in := range txs[i].tx.In {
						if matchedIDs[in.PrevHash] {
							recBloomTx.Count("chain-spend-matched", 1)
							break
						}
					}
				}
			} else {
				anyMiss = true
				recBloomTx.Count("no-match", 1)
			}
			if len(rel.Added) > 0 {
				anyInsert = true
				recBloomTx.Count("outpoint-inserted", int64(len(rel.Added)))
			}
			if rel.Match && rel.Reason == "output-push" && ref.Flags == ff.UpdateP2PubkeyOnly && len(rel.Added) == 0 {
				recBloomTx.Count("p2pubkey-only-skipped", 1)
			}
		}
		class := []string{"flags-none", "flags-all", "flags-p2pubkey"}[p.m.Flags]
		recBloomTx.Case((anyMatch && anyMiss) || anyInsert, class, ev.Hash(hparts...), func() any {
			d := p.descr
			for i := range rels {
				d += fmt.Sprintf("\n  tx%d %x: reference=%v (%s) inserted=%v", i, txs[i].tx.Serialize(), rels[i].Match, rels[i].Reason, rels[i].Added)
			}
			return d
		})
		if stopped != "" {
			recBloomTx.Count("stopped-"+stopped, 1)
		}

		// --- btcd in lockstep
		p.verify(t)
		sameBits(t, p, "after loading the watch list")
		var log []string
		for i := range rels {
			rel := rels[i]
			mtx := toWireTx(&txs[i].tx)
			btx := btcutil.NewTx(mtx)
			if got := *btx.Hash(); got != chainhash.Hash(txs[i].txid) {
				t.Fatalf("VERIF-INFRA: txid of the data carrier %x != reference %x", got[:], txs[i].txid[:])
			}
			var got bool
			if perr := guard(func() { got = p.f.MatchTxAndUpdate(btx) }); perr != nil {
				t.Fatalf("%s: MatchTxAndUpdate(tx %d %x) %v", p.descr, i, txs[i].tx.Serialize(), perr)
			}
			log = append(log, fmt.Sprintf("tx%d %x: btcd=%v reference=%v (%s) inserted=%v", i, txs[i].tx.Serialize(), got, rel.Match, rel.Reason, rel.Added))
			if rel.Ambiguous {
				break // BIP37 does not decide this case; nothing is asserted
			}
			if rel.Unparseable {
				// Bitcoin Core tests the pushes in front of the broken one; BIP37 is
				// silent. Observed, not asserted.
				if got == rel.Match {
					recBloomTx.Count("unparseable-agrees-with-core", 1)
				} else {
					recBloomTx.Count("unparseable-differs-from-core", 1)
				}
				break
			}
			if got != rel.Match {
				t.Fatalf("%s: MatchTxAndUpdate(tx %d) = %v, BIP37 matching algorithm = %v (%s)\nhistory:\n%s", p.descr, i, got, rel.Match, rel.Reason, joinLines(log))
			}
			p.m.Bits = snaps[i]
			sameBits(t, p, fmt.Sprintf("after MatchTxAndUpdate(tx %d) (reference inserted outpoints of outputs %v; flags %d)\nhistory:\n%s", i, rel.Added, p.m.Flags, joinLines(log)))
		}
	})
}

func joinLines(l []string) string {
	s := ""
	for _, x := range l {
		s += "  " + x + "\n"
	}
	return s
}
