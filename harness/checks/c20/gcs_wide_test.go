package c20

import (
	"encoding/binary"
	"fmt"
	"testing"

	"github.com/btcsuite/btcd/btcutil/v2/gcs"
	"pgregory.net/rapid"

	"verif/internal/ev"
	ff "verif/internal/model/filterfmt"
)

// TestGCSWideRange is the dedicated class with N*M >= 2^32: the reduced hash
// values no longer fit 32 bits. Its query sets contain elements constructed by
// search in the reference model so that their value agrees with a member's
// value in the low 32 bits but not in the full 64 bits ("aliases"). Such a
// query is not in the set: Match, ZipMatchAny, HashMatchAny and MatchAny must
// all answer false for a batch of aliases and other non-matching queries.
var recGCSWide = ev.New("C20", "gcs-wide-range",
	"filters with N*M >= 2^32 (P=32,M=2^40,N 3000..20000 | BIP158 P=19,M=784931,N 7000..20000 | P 20..32, M=2^(P+k), N up to 20000), elements expanded from a rapid seed; "+
		"query sets built by searching the reference model (up to 4M SipHash trials per case) for strings whose reduced value equals a member's value modulo 2^32 but not in full, plus model-verified non-matching decoys; "+
		"oracle = batch result must equal OR of element-wise reference verdicts (false) for Match, ZipMatchAny, HashMatchAny and MatchAny on both strategy paths, and true once a member is added; "+
		"non-trivial = at least one alias was found; distinct by hash of (P,M,key,seed,N)",
	"alias-found", "p32-m2^40", "bip158", "pow2")

func TestGCSWideRange(t *testing.T) {
	selfCheck(t)
	maxTrials := ev.Scale(4000000, 16000000)
	rapid.Check(t, func(t *rapid.T) {
		var p uint8
		var m uint64
		var n int
		kind := pick(t, "kind", 3)
		kindName := ""
		switch kind {
		case 0:
			p, m, n, kindName = 32, 1<<40, rapid.IntRange(3000, 20000).Draw(t, "n"), "p32-m2^40"
		case 1:
			p, m, n, kindName = 19, 784931, rapid.IntRange(7000, 20000).Draw(t, "n"), "bip158"
		default:
			p = uint8(rapid.IntRange(20, 32).Draw(t, "P"))
			k := rapid.IntRange(0, 6).Draw(t, "k")
			m = uint64(1) << (uint(p) + uint(k))
			minN := int((uint64(1)<<33)/m) + 1
			if minN < 3000 {
				minN = 3000
			}
			n, kindName = rapid.IntRange(minN, 20000).Draw(t, "n"), "pow2"
		}
		key := genKey(t)
		seed := rapid.Uint64().Draw(t, "eseed")
		elems := expandElems(seed, n, 0)
		model := ff.BuildGCS(key, uint(p), m, elems)
		if model.F() < 1<<32 {
			t.Fatalf("VERIF-INFRA: generator produced N*M < 2^32")
		}
		desc := func() string {
			return fmt.Sprintf("P=%d M=%d N=%d key=%x elements=expandElems(seed=%d, style 0) N*M=%d", p, m, n, key, seed, model.F())
		}

		// --- search the model for aliases and decoys
		l32 := low32(model)
		prefix := rapid.Uint64().Draw(t, "qprefix")
		var aliases, decoys [][]byte
		var aliasInfo []string
		needDecoys := n/2 + 8
		f64 := model.F()
		var q [16]byte
		binary.LittleEndian.PutUint64(q[:8], prefix)
		trials := 0
		for ; trials < maxTrials && len(aliases) < 3; trials++ {
			binary.LittleEndian.PutUint64(q[8:], uint64(trials))
			hi := ff.HashToRange(key, q[:], f64)
			if _, ok := l32[uint32(hi)]; ok {
				if model.HasValue(hi) {
					continue // a genuine false positive of the filter: not what this class is about
				}
				aliases = append(aliases, append([]byte{}, q[:]...))
				aliasInfo = append(aliasInfo, fmt.Sprintf("query %x -> value %d (%#x), low 32 bits %#x shared with a member", q[:], hi, hi, uint32(hi)))
				continue
			}
			if len(decoys) < needDecoys {
				decoys = append(decoys, append([]byte{}, q[:]...))
			}
		}
		found := len(aliases) > 0
		var hb [8]byte
		binary.LittleEndian.PutUint64(hb[:], seed)
		recGCSWide.Case(found, kindName, ev.Hash([]byte{p}, u64le(m), key[:], hb[:], u64le(uint64(n))), func() any {
			return desc() + " ; " + fmt.Sprint(aliasInfo)
		})
		if found {
			recGCSWide.Count("alias-found", 1)
		}
		recGCSWide.Count("search-trials", int64(trials))

		var f *gcs.Filter
		var err error
		if perr := guard(func() { f, err = gcs.BuildGCSFilter(p, m, key, elems) }); perr != nil || err != nil {
			t.Fatalf("BuildGCSFilter: %v %v\ncase: %s", perr, err, desc())
		}
		raw, _ := f.Bytes()
		if string(raw) != string(model.Raw) {
			t.Fatalf("filter bytes differ from the BIP158 reference encoding (len %d vs %d)\ncase: %s", len(raw), len(model.Raw), desc())
		}

		// members still match one by one (smallest / largest value and a sample)
		r := sm64{seed ^ 0x5555}
		for i := 0; i < 6; i++ {
			e := elems[r.intn(n)]
			if !matchOneT(t, f, model, e, desc) {
				t.Fatalf("false negative: element %x\ncase: %s", e, desc())
			}
		}

		// aliases are not in the set, one by one
		for _, a := range aliases {
			if matchOneT(t, f, model, a, desc) {
				t.Fatalf("VERIF-INFRA: reference says alias matches") // unreachable: matchOneT compares with the model
			}
		}

		fewDecoys := decoys
		if len(fewDecoys) > 5 {
			fewDecoys = fewDecoys[:5]
		}
		batches := []qset{
			{"aliases+few-decoys (small batch)", append(append([][]byte{}, aliases...), fewDecoys...)},
			{"aliases+N/2-decoys (large batch)", append(append([][]byte{}, decoys...), aliases...)},
			{"decoys only (large batch)", decoys},
			{"decoys+member", append(append([][]byte{}, decoys...), elems[r.intn(n)])},
		}
		if len(aliases) > 0 {
			batches = append(batches, qset{"one alias", aliases[:1]})
		}
		for _, b := range batches {
			want := model.MatchAny(b.qs)
			hasAlias := false
			for _, qq := range b.qs {
				if isAlias(model, l32, qq) {
					hasAlias = true
				}
			}
			for _, mt := range matchers {
				usesHash := mt.name == "HashMatchAny" || (mt.name == "MatchAny" && len(b.qs) >= n/2)
				if hasAlias && usesHash && f12Met.Load() && ev.IsKnown("C20", sigF12) {
					// the listed finding has been met and printed once in this
					// process: excluded by construction from here on
					recGCSWide.Excluded()
					continue
				}
				var got bool
				var merr error
				if perr := guard(func() { got, merr = mt.fn(f, key, b.qs) }); perr != nil || merr != nil {
					t.Fatalf("%s(%s): %v %v\ncase: %s", mt.name, b.name, perr, merr, desc())
				}
				if got == want {
					continue
				}
				obs := fmt.Sprintf("%s(%s, %d queries) = %v but no query is in the set (Match = false for each, ZipMatchAny = false); %v ; %s",
					mt.name, b.name, len(b.qs), got, aliasInfo, desc())
				if got && !want && hasAlias && usesHash {
					if recGCSWide.Known(sigF12, obs) {
						f12Met.Store(true)
						recGCSWide.Excluded()
						continue
					}
				}
				t.Fatalf("batch matching differs from element-wise matching: %s", obs)
			}
		}
	})
}

func matchOneT(t *rapid.T, f *gcs.Filter, model *ff.GCS, q []byte, desc func() string) bool {
	return matchOne(t, f, model, q, "query", desc)
}
