package c20

import (
	"testing"
	"time"

	"github.com/btcsuite/btcd/btcutil/v2/gcs"

	"verif/internal/ev"
	ff "verif/internal/model/filterfmt"
)

var recFuzz = ev.New("C20", "gcs-decode-fuzz",
	"native go fuzzing (thorough tier only, not pinned by the seed) of gcs.FromNBytes / gcs.FromBytes + Match / ZipMatchAny on arbitrary bytes, P 0..40, M; corpus seeded with the BIP158 genesis filter, "+
		"empty input, truncated CompactSize, N = 2^32-1 and 2^32, all-ones streams; oracle = no panic, P > 32 rejected, an input without a CompactSize rejected, each call returns within 2 s, "+
		"and for streams whose values do not wrap 2^64 Match agrees with the reference reading of the same bytes",
)

// FuzzGCSDecode: byte-level robustness of the GCS decoders and matchers.
func FuzzGCSDecode(f *testing.F) {
	f.Add([]byte{0x01, 0x9d, 0xfc, 0xa8}, uint8(19), uint64(784931), []byte("query"))
	f.Add([]byte{}, uint8(19), uint64(784931), []byte{})
	f.Add([]byte{0xfd}, uint8(1), uint64(1), []byte{1})
	f.Add([]byte{0xfd, 0x01}, uint8(32), uint64(1)<<40, []byte{1})
	f.Add([]byte{0xfe, 0xff, 0xff, 0xff, 0xff, 0xff, 0xff, 0xff, 0xff}, uint8(4), uint64(3), []byte{2})
	f.Add([]byte{0xff, 0, 0, 0, 0, 1, 0, 0, 0, 0xaa}, uint8(20), uint64(1)<<30, []byte{3})
	f.Add([]byte{0x05, 0xff, 0xff, 0xff, 0xff, 0xff, 0xff, 0xff, 0xff, 0xff, 0xff, 0x00}, uint8(32), uint64(1)<<40, []byte{4})
	f.Add([]byte{0x03, 0x00, 0x00, 0x00}, uint8(1), uint64(1), []byte{})
	f.Add([]byte{0x02, 0x30, 0x2c}, uint8(33), uint64(5), []byte{5})
	f.Fuzz(func(t *testing.T, data []byte, p uint8, m uint64, q []byte) {
		if len(data) > 1<<16 {
			return
		}
		p %= 41
		var key [16]byte
		copy(key[:], q)
		start := time.Now()
		recFuzz.Case(true, "", ev.Hash(data, []byte{p}, u64le(m), q), nil)
		var d *gcs.Filter
		var err error
		if perr := guard(func() { d, err = gcs.FromNBytes(p, m, data) }); perr != nil {
			t.Fatalf("FromNBytes(P=%d, M=%d, %x) %v", p, m, data, perr)
		}
		nn, sz, okN := ff.ReadCompactSize(data)
		if err == nil && p > 32 {
			t.Fatalf("FromNBytes accepted P=%d", p)
		}
		if err == nil && !okN {
			t.Fatalf("FromNBytes(%x) accepted an input without a canonical CompactSize N", data)
		}
		if err != nil {
			return
		}
		if uint64(d.N()) != nn {
			t.Fatalf("FromNBytes(%x).N() = %d, CompactSize = %d", data, d.N(), nn)
		}
		var got, gotZip bool
		var merr, zerr error
		if perr := guard(func() {
			got, merr = d.Match(key, q)
			gotZip, zerr = d.ZipMatchAny(key, [][]byte{q, data})
		}); perr != nil {
			t.Fatalf("Match / ZipMatchAny on FromNBytes(P=%d, M=%d, %x) %v", p, m, data, perr)
		}
		// FromBytes on the same split
		var d2 *gcs.Filter
		if perr := guard(func() { d2, err = gcs.FromBytes(uint32(nn), p, m, data[sz:]) }); perr != nil || err != nil {
			t.Fatalf("FromBytes(N=%d, P=%d, %x) %v %v", nn, p, data[sz:], perr, err)
		}
		var got2 bool
		var merr2 error
		if perr := guard(func() { got2, merr2 = d2.Match(key, q) }); perr != nil {
			t.Fatalf("Match on FromBytes %v", perr)
		}
		if (merr == nil) != (merr2 == nil) || got != got2 {
			t.Fatalf("FromNBytes and FromBytes of the same bytes answer differently: %v/%v vs %v/%v", got, merr, got2, merr2)
		}
		if el := time.Since(start); el > 2*time.Second {
			t.Fatalf("decoding and matching %d bytes took %v", len(data), el)
		}
		// reference reading of the same bytes. The values cannot wrap 2^64 here:
		// the quotients of all values together are at most 8*len(data) <= 2^19 one
		// bits (<< P <= 2^51) and at most 2^19 remainders below 2^32 are added.
		if merr == nil && p >= 1 {
			ref := ff.DecodeGCS(key, uint(p), m, nn, data[sz:])
			if want := ref.Match(q); got != want {
				t.Fatalf("Match(%x) on FromNBytes(P=%d, M=%d, %x) = %v, reference reading = %v", q, p, m, data, got, want)
			}
			if zerr == nil {
				if want := ref.MatchAny([][]byte{q, data}); gotZip != want {
					t.Fatalf("ZipMatchAny on FromNBytes(P=%d, M=%d, %x) = %v, reference reading = %v", p, m, data, gotZip, want)
				}
			}
		}
	})
}
