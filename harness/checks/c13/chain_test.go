package c13

import (
	"fmt"
	"testing"
	"time"

	"github.com/btcsuite/btcd/blockchain"
	"github.com/btcsuite/btcd/btcutil/v2"
	"github.com/btcsuite/btcd/chaincfg/v2"
	"github.com/btcsuite/btcd/wire/v2"
	"pgregory.net/rapid"

	"verif/internal/chainenv"
	"verif/internal/ev"
)

// ---------------------------------------------------------------------------
// CalcSequenceLock on real chains

var recSeqChain = ev.New("C13", "sequence-lock-chain",
	"a real chain of 1..45 blocks (regtest-derived parameters, CSV active from height 1 or never active) is built through ProcessBlock on a scratch ffldb with generated "+
		"timestamps (steps 1/511/512/513/600/1024/random, all-512 chains, steps back down to MTP+1) and some blocks carrying spends of matured OP_TRUE coinbases; "+
		"then 4 transactions at the final tip and at about every sixth intermediate tip: version in {1,2,3,-1,minInt32,0}, 1..4 inputs each spending a real confirmed output (view from FetchUtxoView), an unconfirmed parent "+
		"(view entry at the mempool height sentinel) or a view entry claiming any height 0..tip, sequence = [disable bit][type bit][noise in the unused bits][value], value drawn as the input's exact age -1/0/+1 in blocks "+
		"or in 512-second units of MTP(tip)-MTP(block before the input's block), 0, 1, 0xffff, uniform; mempool flag both ways; "+
		"oracle = Core CalculateSequenceLocks on the list of block timestamps (own MTP) and, three-way, the BIP68 text label (age >= value for every enabled input) against "+
		"SequenceLockActive(CalcSequenceLock(..), tip+1, MTP(tip)); non-trivial = BIP68 enforced and some enabled input within one unit of its age; distinct by (timestamps, tx, input heights, flag)",
	"not-enforced-version", "not-enforced-csv-inactive", "all-disabled", "height-age-1", "height-age", "height-age+1", "time-age-1", "time-age", "time-age+1", "time-exact-multiple",
	"mempool-input", "height-0-input", "mixed-types", "satisfied", "unsatisfied")

const txsPerTip = 4

type seqCoin struct {
	op     wire.OutPoint
	height int64 // refMempoolHeight for unconfirmed
	parent *wire.MsgTx
}

func TestSequenceLockChain(t *testing.T) {
	rapid.Check(t, func(t *rapid.T) {
		csvActive := rapid.IntRange(0, 4).Draw(t, "csvActive") != 0
		maturity := uint16(rapid.IntRange(1, 3).Draw(t, "maturity"))
		params := chainenv.NewParams(chainenv.FamFlat, maturity)
		if !csvActive {
			d := &params.Deployments[chaincfg.DeploymentCSV]
			d.AlwaysActiveHeight = 0
			d.DeploymentStarter = chaincfg.NewMedianTimeDeploymentStarter(time.Unix(1<<40, 0))
			d.DeploymentEnder = chaincfg.NewMedianTimeDeploymentEnder(time.Unix(1<<41, 0))
		}
		tree := chainenv.NewTree(chainenv.FamFlat, params)

		length := rapid.OneOf(rapid.IntRange(1, 45), rapid.SampledFrom([]int{1, 2, 10, 11, 12, 13, 23})).Draw(t, "length")
		stepMode := rapid.SampledFrom([]string{"mixed", "mixed", "all512", "all1024"}).Draw(t, "stepMode")
		times := refChainTimes{params.GenesisBlock.Header.Timestamp.Unix()}
		tip := tree.Genesis
		env, err := chainenv.NewEnv(params, chainenv.EnvOpt{})
		if err != nil {
			t.Fatalf("VERIF-INFRA: %v", err)
		}
		defer env.Close()
		for h := 1; h <= length; h++ {
			l := fmt.Sprintf("b%d", h)
			var delta int64
			switch {
			case h == 1:
				delta = chainenv.T0 - times[0] + int64(rapid.IntRange(0, 3).Draw(t, l+".d0"))*512
			case stepMode == "all512":
				delta = 512
			case stepMode == "all1024":
				delta = 1024
			default:
				switch rapid.IntRange(0, 5).Draw(t, l+".stepKind") {
				case 0:
					delta = 1
				case 1:
					delta = rapid.SampledFrom([]int64{511, 512, 513, 1023, 1024, 1025}).Draw(t, l+".step512")
				case 2:
					delta = 600
				case 3:
					delta = int64(rapid.IntRange(1, 5000).Draw(t, l+".stepAny"))
				case 4: // back in time, but above the median time past of the parent
					lo := times.mtp(h-1) + 1
					ts := rapid.Int64Range(lo, times[h-1]+1).Draw(t, l+".back")
					delta = ts - times[h-1]
				default:
					delta = int64(rapid.IntRange(1, 3).Draw(t, l+".k512")) * 512
				}
			}
			if delta == 0 {
				delta = 1 // chainenv treats 0 as "default"
			}
			var txs []*wire.MsgTx
			if rapid.IntRange(0, 3).Draw(t, l+".withSpend") == 0 {
				if sp := chainenv.Spendable(tip.Utxo, int32(h), int32(maturity)); len(sp) > 0 {
					op := sp[rapid.IntRange(0, len(sp)-1).Draw(t, l+".spendWhich")]
					val := tip.Utxo[op].Value
					txs = append(txs, chainenv.SpendTx(1, []wire.OutPoint{op},
						[]*wire.TxOut{{Value: val / 2, PkScript: chainenv.OpTrue}, {Value: val / 2, PkScript: chainenv.OpTrue}}, 0, 0xffffffff))
				}
			}
			tip = tree.Extend(tip, chainenv.BlockOpt{TimeDelta: delta, Txs: txs})
			if !tip.ChainValid {
				t.Fatalf("VERIF-INFRA: generated block %d is invalid in the generator's own model (%s)", h, tip.Rule)
			}
			times = append(times, tip.Msg.Header.Timestamp.Unix())
			if times[h] != times[h-1]+delta {
				t.Fatalf("VERIF-INFRA: block builder placed block %d at %d, asked for %d", h, times[h], times[h-1]+delta)
			}
			main, orphan, err := env.Deliver(tip)
			if err != nil || !main || orphan {
				t.Fatalf("VERIF-INFRA: chain setup: block %d not connected (main=%v orphan=%v err=%v)", h, main, orphan, err)
			}
			// evaluate transactions at some intermediate tips too (a database per
			// case is the dominant cost, so every chain is used several times)
			if h < length && rapid.IntRange(0, 5).Draw(t, l+".evalHere") == 0 {
				evalSeqLockTxs(t, env, tip, times, csvActive, stepMode, l)
			}
		}

		evalSeqLockTxs(t, env, tip, times, csvActive, stepMode, "final")
	})
}

// evalSeqLockTxs draws txsPerTip transactions against the chain whose tip is
// the given node and checks CalcSequenceLock / SequenceLockActive for each.
func evalSeqLockTxs(t *rapid.T, env *chainenv.Env, tip *chainenv.Node, times refChainTimes, csvActive bool, stepMode, label string) {
	length := int(tip.Height)
	if best := env.Chain.BestSnapshot(); best.Height != tip.Height || best.Hash != tip.Hash {
		t.Fatalf("VERIF-INFRA: chain setup: tip %v at height %d, expected %v at %d", best.Hash, best.Height, tip.Hash, tip.Height)
	}
	// confirmed coins with the height of the block that created them
	var confirmed []seqCoin
	for _, op := range tip.Utxo.SortedOutpoints() {
		confirmed = append(confirmed, seqCoin{op: op, height: int64(tip.Utxo[op].Height)})
	}
	tipMTP := times.mtp(length)
	nextHeight := int64(length) + 1

	{
		for k := 0; k < txsPerTip; k++ {
			l := fmt.Sprintf("%s.tx%d", label, k)
			version := rapid.SampledFrom([]int32{2, 2, 2, 2, 3, 1, 0, -1, -1 << 31, 1<<31 - 1}).Draw(t, l+".version")
			mempool := rapid.Bool().Draw(t, l+".mempoolFlag")
			nIn := rapid.IntRange(1, 4).Draw(t, l+".nIn")
			tx := wire.NewMsgTx(version)
			var coins []seqCoin
			used := map[wire.OutPoint]bool{}
			classes := map[string]bool{}
			near := false
			labelOK := true // BIP68 text: every enabled input is old enough
			types := map[bool]bool{}
			for i := 0; i < nIn; i++ {
				il := fmt.Sprintf("%s.in%d", l, i)
				var c seqCoin
				if rapid.IntRange(0, 3).Draw(t, il+".unconfirmed") == 0 {
					parent := wire.NewMsgTx(2)
					h := idHash(uint64(k)<<8 | uint64(i))
					parent.AddTxIn(wire.NewTxIn(wire.NewOutPoint(&h, 0), nil, nil))
					parent.AddTxOut(wire.NewTxOut(1000, chainenv.OpTrue))
					ph := refTxid(parent)
					c = seqCoin{op: wire.OutPoint{Hash: ph, Index: 0}, height: refMempoolHeight, parent: parent}
					classes["mempool-input"] = true
				} else if rapid.IntRange(0, 4).Draw(t, il+".fabricated") == 0 {
					// a view entry that claims confirmation at an arbitrary height of
					// the real chain (the UTXO set itself never holds a height-0 coin:
					// the genesis coinbase is unspendable), so that the ancestor walk
					// is exercised for every height incl. the max(h-1, 0) clamp
					parent := wire.NewMsgTx(1)
					h := idHash(uint64(k)<<8 | uint64(i) | 1<<20)
					parent.AddTxIn(wire.NewTxIn(wire.NewOutPoint(&h, 1), nil, nil))
					parent.AddTxOut(wire.NewTxOut(1000, chainenv.OpTrue))
					fh := rapid.OneOf(rapid.SampledFrom([]int{0, 0, 1, length}), rapid.IntRange(0, length)).Draw(t, il+".fabHeight")
					if fh > length {
						fh = length
					}
					c = seqCoin{op: wire.OutPoint{Hash: refTxid(parent), Index: 0}, height: int64(fh), parent: parent}
					if fh == 0 {
						classes["height-0-input"] = true
					}
				} else {
					idx := rapid.IntRange(0, len(confirmed)-1).Draw(t, il+".coin")
					c = confirmed[idx]
					if used[c.op] {
						continue
					}
				}
				used[c.op] = true
				coinHeight := c.height
				if coinHeight == refMempoolHeight {
					coinHeight = nextHeight
				}
				ageBlocks := nextHeight - coinHeight
				prevH := coinHeight - 1
				if prevH < 0 {
					prevH = 0
				}
				elapsed := tipMTP - times.mtp(int(prevH))
				isTime := rapid.Bool().Draw(t, il+".timeType")
				disabled := rapid.IntRange(0, 5).Draw(t, il+".disabled") == 0
				var age int64
				if isTime {
					age = elapsed >> 9
					if elapsed < 0 {
						age = 0
					}
				} else {
					age = ageBlocks
				}
				var v int64
				switch rapid.IntRange(0, 6).Draw(t, il+".valueKind") {
				case 0, 1, 2:
					v = age + int64(rapid.IntRange(-1, 1).Draw(t, il+".dAge"))
				case 3:
					v = int64(rapid.SampledFrom([]int{0, 1, 2, 0xfffe, 0xffff}).Draw(t, il+".vConst"))
				case 4:
					v = int64(rapid.IntRange(0, 0xffff).Draw(t, il+".vAny"))
				default:
					v = age + int64(rapid.IntRange(-3, 3).Draw(t, il+".dAgeWide"))
				}
				if v < 0 {
					v = 0
				}
				if v > 0xffff {
					v = 0xffff
				}
				noise := rapid.Uint32().Draw(t, il+".noise") & 0x7fbf0000
				if rapid.Bool().Draw(t, il+".noNoise") {
					noise = 0
				}
				seq := uint32(v) | noise
				if isTime {
					seq |= refSeqTypeFlag
				}
				if disabled {
					seq |= refSeqDisable
				}
				in := wire.NewTxIn(&c.op, nil, nil)
				in.Sequence = seq
				tx.AddTxIn(in)
				coins = append(coins, c)
				if !disabled {
					types[isTime] = true
					pfx := "height"
					if isTime {
						pfx = "time"
					}
					switch v - age {
					case -1:
						classes[pfx+"-age-1"], near = true, true
					case 0:
						classes[pfx+"-age"], near = true, true
					case 1:
						classes[pfx+"-age+1"], near = true, true
					}
					if isTime {
						if v*512 == elapsed {
							classes["time-exact-multiple"] = true
						}
						if !(elapsed >= v*512) {
							labelOK = false
						}
					} else if !(ageBlocks >= v) {
						labelOK = false
					}
				}
			}
			if len(tx.TxIn) == 0 {
				continue
			}
			tx.AddTxOut(wire.NewTxOut(1, chainenv.OpTrue))
			utx := btcutil.NewTx(tx)

			// the view: confirmed inputs as the chain itself reports them,
			// unconfirmed parents at the mempool height
			view, err := env.Chain.FetchUtxoView(utx)
			if err != nil {
				t.Fatalf("VERIF-INFRA: FetchUtxoView: %v", err)
			}
			inputHeights := make([]int64, len(coins))
			for i, c := range coins {
				inputHeights[i] = c.height
				if c.parent != nil {
					view.AddTxOut(btcutil.NewTx(c.parent), 0, int32(c.height))
				}
				e := view.LookupEntry(c.op)
				if e == nil {
					t.Fatalf("VERIF-INFRA: view has no entry for input %d (%v, created at height %d)", i, c.op, c.height)
				}
			}

			enforce := mempool || csvActive
			want := refSequenceLocks(tx, inputHeights, times, enforce)
			enforced := enforce && uint32(version) >= 2
			if !enforced {
				labelOK = true
			}
			class := "satisfied"
			switch {
			case !enforce:
				class = "not-enforced-csv-inactive"
			case !enforced:
				class = "not-enforced-version"
			case len(types) == 0:
				class = "all-disabled"
			case !labelOK:
				class = "unsatisfied"
			}
			parts := [][]byte{le64(times...), refSerializeTx(tx, false), le64(inputHeights...), {b2b(mempool), b2b(csvActive)}}
			recSeqChain.Case(enforced && near, class, ev.Hash(parts...), func() any {
				return fmt.Sprintf("chain length=%d stepMode=%s csvActive=%v mempoolFlag=%v version=%d inputs=%s -> lock{height=%d, seconds=%d} satisfied-in-next-block=%v",
					length, stepMode, csvActive, mempool, version, describeInputs(tx, inputHeights), want.height, want.time, labelOK)
			})
			if enforced {
				for c := range classes {
					recSeqChain.Count(c, 1)
				}
				if len(types) == 2 {
					recSeqChain.Count("mixed-types", 1)
				}
			}
			// harness self-check: Core's formulas and the BIP68 text must agree
			if refSeqLockSatisfied(want, nextHeight, tipMTP) != labelOK {
				t.Fatalf("VERIF-INFRA: reference lock %+v evaluates to %v at height %d / MTP %d but the BIP68 label says %v (inputs %s)",
					want, !labelOK, nextHeight, tipMTP, labelOK, describeInputs(tx, inputHeights))
			}

			got, err := env.Chain.CalcSequenceLock(utx, view, mempool)
			if err != nil {
				t.Fatalf("CalcSequenceLock failed on a complete view: %v", err)
			}
			if int64(got.BlockHeight) != want.height || got.Seconds != want.time {
				t.Fatalf("CalcSequenceLock(version=%d, mempool=%v, csvActive=%v) = {height %d, seconds %d}, BIP68 = {height %d, seconds %d}; tip height %d, inputs %s, block timestamps %v",
					version, mempool, csvActive, got.BlockHeight, got.Seconds, want.height, want.time, length, describeInputs(tx, inputHeights), []int64(times))
			}
			if active := blockchain.SequenceLockActive(got, int32(nextHeight), time.Unix(tipMTP, 0)); active != labelOK {
				t.Fatalf("SequenceLockActive(CalcSequenceLock(..)) = %v for the next block (height %d, MTP %d) but by BIP68 the inputs are old enough = %v; inputs %s, block timestamps %v",
					active, nextHeight, tipMTP, labelOK, describeInputs(tx, inputHeights), []int64(times))
			}
		}
	}
}

func describeInputs(tx *wire.MsgTx, heights []int64) string {
	s := "["
	for i, in := range tx.TxIn {
		h := fmt.Sprint(heights[i])
		if heights[i] == refMempoolHeight {
			h = "mempool"
		}
		s += fmt.Sprintf("{coinHeight=%s seq=%#08x}", h, in.Sequence)
	}
	return s + "]"
}
