package c13

// From-definition references for lock-time finality (Core IsFinalTx), BIP68
// relative lock-times (Core CalculateSequenceLocks / EvaluateSequenceLocks),
// median time past (BIP113) and the BIP34 coinbase height push
// (CScript() << nHeight).

import (
	"sort"

	"github.com/btcsuite/btcd/wire/v2"
)

const (
	refLockTimeThreshold = 500000000
	refSeqFinal          = 0xffffffff
	refSeqDisable        = uint32(1) << 31
	refSeqTypeFlag       = uint32(1) << 22
	refSeqMask           = uint32(0x0000ffff)
	refSeqGranularity    = 9
	refMempoolHeight     = 0x7fffffff
)

// refIsFinal is IsFinalTx(tx, nBlockHeight, nBlockTime).
func refIsFinal(tx *wire.MsgTx, height int64, blockTime int64) bool {
	if tx.LockTime == 0 {
		return true
	}
	limit := blockTime
	if int64(tx.LockTime) < refLockTimeThreshold {
		limit = height
	}
	if int64(tx.LockTime) < limit {
		return true
	}
	for _, in := range tx.TxIn {
		if in.Sequence != refSeqFinal {
			return false
		}
	}
	return true
}

// refChainTimes models a chain as the list of its block timestamps
// (index = height).
type refChainTimes []int64

// mtp is the median time past of the block at height h: the median of the
// timestamps of that block and up to 10 of its ancestors.
func (c refChainTimes) mtp(h int) int64 {
	lo := h - 10
	if lo < 0 {
		lo = 0
	}
	w := append([]int64(nil), c[lo:h+1]...)
	sort.Slice(w, func(i, j int) bool { return w[i] < w[j] })
	return w[len(w)/2]
}

type refSeqLock struct {
	height int64 // last height at which the tx is still locked (-1: none)
	time   int64 // last MTP at which the tx is still locked (-1: none)
}

// refSequenceLocks is CalculateSequenceLocks for a transaction to be included
// in the block after the tip (height len(chain)). inputHeights[i] is the
// height of the block that created the output spent by input i, or
// refMempoolHeight for an unconfirmed output (it is then assumed to confirm
// in the next block). enforce = BIP68 is in force (tx version >= 2 is tested
// here).
func refSequenceLocks(tx *wire.MsgTx, inputHeights []int64, chain refChainTimes, enforce bool) refSeqLock {
	lock := refSeqLock{-1, -1}
	if !(uint32(tx.Version) >= 2 && enforce) {
		return lock
	}
	if refIsCoinbase(tx) {
		// BIP68 does not apply to coinbase inputs (there is no coin).
		return lock
	}
	next := int64(len(chain)) // height of the block being built
	for i, in := range tx.TxIn {
		if in.Sequence&refSeqDisable != 0 {
			continue
		}
		coinHeight := inputHeights[i]
		if coinHeight == refMempoolHeight {
			coinHeight = next
		}
		v := int64(in.Sequence & refSeqMask)
		if in.Sequence&refSeqTypeFlag != 0 {
			prev := coinHeight - 1
			if prev < 0 {
				prev = 0
			}
			coinTime := chain.mtp(int(prev))
			t := coinTime + (v << refSeqGranularity) - 1
			if t > lock.time {
				lock.time = t
			}
		} else {
			h := coinHeight + v - 1
			if h > lock.height {
				lock.height = h
			}
		}
	}
	return lock
}

// refSeqLockSatisfied is EvaluateSequenceLocks: the block at blockHeight whose
// predecessor has median time past prevMTP may include the transaction.
func refSeqLockSatisfied(l refSeqLock, blockHeight int64, prevMTP int64) bool {
	return l.height < blockHeight && l.time < prevMTP
}

// ---------------------------------------------------------------------------
// BIP34 height push

// refScriptNum is CScriptNum::serialize: little-endian sign-magnitude,
// minimal length.
func refScriptNum(v int64) []byte {
	if v == 0 {
		return nil
	}
	neg := v < 0
	abs := uint64(v)
	if neg {
		abs = uint64(-v)
	}
	var out []byte
	for abs > 0 {
		out = append(out, byte(abs))
		abs >>= 8
	}
	if out[len(out)-1]&0x80 != 0 {
		if neg {
			out = append(out, 0x80)
		} else {
			out = append(out, 0x00)
		}
	} else if neg {
		out[len(out)-1] |= 0x80
	}
	return out
}

// refHeightPush is `CScript() << n`: OP_0 for 0, OP_1NEGATE for -1,
// OP_1..OP_16 for 1..16, otherwise a direct push of the script number.
func refHeightPush(n int64) []byte {
	switch {
	case n == 0:
		return []byte{0x00}
	case n == -1:
		return []byte{0x4f}
	case n >= 1 && n <= 16:
		return []byte{byte(op1 - 1 + n)}
	}
	d := refScriptNum(n)
	return append([]byte{byte(len(d))}, d...)
}

func refHasPrefix(s, p []byte) bool {
	if len(s) < len(p) {
		return false
	}
	for i := range p {
		if s[i] != p[i] {
			return false
		}
	}
	return true
}

// refFindHeight searches the height the coinbase script commits to: the
// unique n in [lo, hi] whose push is a prefix of the script. The pushes of
// different numbers are never prefixes of each other (the first byte fixes the
// length), so there is at most one.
func refFindHeight(script []byte, lo, hi int64) (int64, bool) {
	if len(script) == 0 {
		return 0, false
	}
	var cand int64
	b := script[0]
	switch {
	case b == 0x00:
		cand = 0
	case b == 0x4f:
		cand = -1
	case b >= op1 && b <= op16:
		cand = int64(b) - (op1 - 1)
	case b >= 1 && b <= 8:
		if len(script) < 1+int(b) {
			return 0, false
		}
		d := script[1 : 1+int(b)]
		var mag uint64
		for i := len(d) - 1; i >= 0; i-- {
			x := d[i]
			if i == len(d)-1 {
				x &= 0x7f
			}
			mag = mag<<8 | uint64(x)
		}
		if mag > 1<<62 {
			return 0, false
		}
		cand = int64(mag)
		if d[len(d)-1]&0x80 != 0 {
			cand = -cand
		}
	default:
		return 0, false
	}
	if cand < lo || cand > hi {
		return 0, false
	}
	// the decisive test is the definition itself
	if !refHasPrefix(script, refHeightPush(cand)) {
		return 0, false
	}
	return cand, true
}
