package c13

// From-definition reference for signature-operation counting, written from
// Bitcoin Core's script/script.cpp (GetScriptOp, GetSigOpCount(fAccurate),
// GetSigOpCount(scriptSig), IsPayToScriptHash, IsWitnessProgram, IsPushOnly),
// script/interpreter.cpp (CountWitnessSigOps, WitnessSigOps) and
// consensus/tx_verify.cpp (GetLegacySigOpCount, GetP2SHSigOpCount,
// GetTransactionSigOpCost).

import (
	"github.com/btcsuite/btcd/wire/v2"
)

const (
	opPushData1           = 0x4c
	opPushData2           = 0x4d
	opPushData4           = 0x4e
	op1                   = 0x51
	op16                  = 0x60
	opHash160             = 0xa9
	opEqual               = 0x87
	opCheckSig            = 0xac
	opCheckSigVerify      = 0xad
	opCheckMultiSig       = 0xae
	opCheckMultiSigVerify = 0xaf
	opInvalid             = 0xff
)

// refGetOp reads one instruction at pc. ok=false when the instruction (its
// length prefix or its payload) runs past the end of the script.
func refGetOp(s []byte, pc int) (op byte, data []byte, next int, ok bool) {
	if pc >= len(s) {
		return opInvalid, nil, pc, false
	}
	op = s[pc]
	pc++
	if op > opPushData4 {
		return op, nil, pc, true
	}
	var n uint64
	switch {
	case op < opPushData1:
		n = uint64(op)
	case op == opPushData1:
		if len(s)-pc < 1 {
			return opInvalid, nil, pc, false
		}
		n = uint64(s[pc])
		pc++
	case op == opPushData2:
		if len(s)-pc < 2 {
			return opInvalid, nil, pc, false
		}
		n = uint64(s[pc]) | uint64(s[pc+1])<<8
		pc += 2
	default:
		if len(s)-pc < 4 {
			return opInvalid, nil, pc, false
		}
		n = uint64(s[pc]) | uint64(s[pc+1])<<8 | uint64(s[pc+2])<<16 | uint64(s[pc+3])<<24
		pc += 4
	}
	if uint64(len(s)-pc) < n {
		return opInvalid, nil, pc, false
	}
	return op, s[pc : pc+int(n)], pc + int(n), true
}

// refSigOpCount is CScript::GetSigOpCount(fAccurate).
func refSigOpCount(s []byte, accurate bool) int {
	n := 0
	last := byte(opInvalid)
	for pc := 0; pc < len(s); {
		op, _, next, ok := refGetOp(s, pc)
		if !ok {
			break
		}
		pc = next
		switch op {
		case opCheckSig, opCheckSigVerify:
			n++
		case opCheckMultiSig, opCheckMultiSigVerify:
			if accurate && last >= op1 && last <= op16 {
				n += int(last) - (op1 - 1)
			} else {
				n += 20
			}
		}
		last = op
	}
	return n
}

func refIsP2SH(s []byte) bool {
	return len(s) == 23 && s[0] == opHash160 && s[1] == 0x14 && s[22] == opEqual
}

// refIsWitnessProgram: 4..42 bytes, a version opcode OP_0 / OP_1..OP_16 and
// one direct push making up the rest of the script.
func refIsWitnessProgram(s []byte) (version int, program []byte, ok bool) {
	if len(s) < 4 || len(s) > 42 {
		return 0, nil, false
	}
	if s[0] != 0 && (s[0] < op1 || s[0] > op16) {
		return 0, nil, false
	}
	if int(s[1])+2 != len(s) {
		return 0, nil, false
	}
	if s[0] != 0 {
		version = int(s[0]) - (op1 - 1)
	}
	return version, s[2:], true
}

// refP2SHSigOps is CScript::GetSigOpCount(const CScript& scriptSig) called on
// the scriptPubKey spk.
func refP2SHSigOps(sigScript, spk []byte) int {
	if !refIsP2SH(spk) {
		return refSigOpCount(spk, true)
	}
	var data []byte
	for pc := 0; pc < len(sigScript); {
		op, d, next, ok := refGetOp(sigScript, pc)
		if !ok {
			return 0
		}
		if op > op16 {
			return 0
		}
		data = d
		pc = next
	}
	return refSigOpCount(data, true)
}

func refIsPushOnly(s []byte) bool {
	for pc := 0; pc < len(s); {
		op, _, next, ok := refGetOp(s, pc)
		if !ok || op > op16 {
			return false
		}
		pc = next
	}
	return true
}

func refWitnessProgramSigOps(version int, program []byte, witness [][]byte) int {
	if version == 0 {
		if len(program) == 20 {
			return 1
		}
		if len(program) == 32 && len(witness) > 0 {
			return refSigOpCount(witness[len(witness)-1], true)
		}
	}
	return 0
}

// refWitnessSigOps is CountWitnessSigOps with SCRIPT_VERIFY_WITNESS set.
func refWitnessSigOps(sigScript, spk []byte, witness [][]byte) int {
	if v, prog, ok := refIsWitnessProgram(spk); ok {
		return refWitnessProgramSigOps(v, prog, witness)
	}
	if refIsP2SH(spk) && refIsPushOnly(sigScript) {
		var data []byte
		for pc := 0; pc < len(sigScript); {
			_, d, next, _ := refGetOp(sigScript, pc)
			data = d
			pc = next
		}
		if v, prog, ok := refIsWitnessProgram(data); ok {
			return refWitnessProgramSigOps(v, prog, witness)
		}
	}
	return 0
}

// refLegacySigOps is GetLegacySigOpCount: inaccurate count over every
// scriptSig and scriptPubKey of the transaction itself.
func refLegacySigOps(tx *wire.MsgTx) int {
	n := 0
	for _, in := range tx.TxIn {
		n += refSigOpCount(in.SignatureScript, false)
	}
	for _, out := range tx.TxOut {
		n += refSigOpCount(out.PkScript, false)
	}
	return n
}

// refP2SHTotal is GetP2SHSigOpCount; prev[i] is the scriptPubKey spent by
// input i.
func refP2SHTotal(tx *wire.MsgTx, prev [][]byte) int {
	if refIsCoinbase(tx) {
		return 0
	}
	n := 0
	for i, in := range tx.TxIn {
		if refIsP2SH(prev[i]) {
			n += refP2SHSigOps(in.SignatureScript, prev[i])
		}
	}
	return n
}

// refSigOpCost is GetTransactionSigOpCost with the P2SH and WITNESS script
// flags given separately.
func refSigOpCost(tx *wire.MsgTx, prev [][]byte, p2sh, segwit bool) int {
	cost := 4 * refLegacySigOps(tx)
	if refIsCoinbase(tx) {
		return cost
	}
	if p2sh {
		cost += 4 * refP2SHTotal(tx, prev)
	}
	if segwit {
		for i, in := range tx.TxIn {
			cost += refWitnessSigOps(in.SignatureScript, prev[i], in.Witness)
		}
	}
	return cost
}
