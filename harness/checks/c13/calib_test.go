package c13

import (
	"bytes"
	"encoding/hex"
	"testing"

	"github.com/btcsuite/btcd/chaincfg/v2"

	"verif/internal/ev"
)

// TestCalibration pins the reference code to public protocol facts. A failure
// here is a harness defect (VERIF-INFRA), never a violation.
var recCalib = ev.New("C13", "calibration",
	"fixed public vectors for the reference code: genesis coinbase txid, merkle root of mainnet block 100000 (4 leaves) and of a 3-leaf list by hand, "+
		"BIP34 height pushes, script-number encoding, sigop counts of standard scripts, median-time-past of hand-made lists; every vector is distinct and non-trivial")

func revHex(t *testing.T, s string) hash32 {
	b, err := hex.DecodeString(s)
	if err != nil || len(b) != 32 {
		t.Fatalf("VERIF-INFRA: bad vector %q", s)
	}
	var h hash32
	for i := range b {
		h[i] = b[31-i]
	}
	return h
}

func TestCalibration(t *testing.T) {
	n := int64(0)
	check := func(ok bool, what string) {
		n++
		if !ok {
			t.Fatalf("VERIF-INFRA: reference self-check failed: %s", what)
		}
	}
	// serialiser + double SHA256: the mainnet genesis coinbase
	gen := chaincfg.MainNetParams.GenesisBlock.Transactions[0]
	check(refTxid(gen) == revHex(t, "4a5e1e4baab89f3a32518a88c31bc87f618f76673e2cc77ab2127b7afdeda33b"), "genesis coinbase txid")
	check(refWtxid(gen) == refTxid(gen), "wtxid == txid without witness data")
	check(refTxWeight(gen) == 4*204, "genesis coinbase weight 4*204")

	// merkle: mainnet block 100000
	leaves := []hash32{
		revHex(t, "8c14f0db3df150123e6f3dbbf30f8b955a8249b62ac1d1ff16284aefa3d06d87"),
		revHex(t, "fff2525b8931402dd09222c50775608f75787bd2b87e56995a7bdd30f79702c4"),
		revHex(t, "6359f0868171b1d194cbee1af2f16ea598ae8fad666d9b012c8ed2b79a236ec4"),
		revHex(t, "e9a66845e05d5abc0ad04ec80f774a7e585c6e8db975962d069a522137b80c1d"),
	}
	check(refMerkleRootRec(leaves) == revHex(t, "f3e94742aca4b5ef85488dc37c06c3282295ffec960994b2c0d5ac2a25a95766"), "merkle root of block 100000")
	// odd count by hand: root(a,b,c) = H(H(a,b), H(c,c)) = root(a,b,c,c)
	three := leaves[:3]
	check(refMerkleRootRec(three) == refPair(refPair(three[0], three[1]), refPair(three[2], three[2])), "3-leaf root")
	check(refMerkleRootRec(three) == refMerkleRootRec(append(append([]hash32{}, three...), three[2])), "duplicate-last rule")
	check(refMerkleRootRec(nil) == hash32{}, "empty root")
	st := refTreeStore(three)
	check(len(st) == 7 && st[3] == nil && st[6] != nil && *st[6] == refMerkleRootRec(three) && *st[5] == refPair(three[2], three[2]), "tree store layout for 3 leaves")
	five := refTreeStore(append(append([]hash32{}, leaves...), leaves[0]))
	check(len(five) == 15 && five[5] == nil && five[11] == nil && five[13] != nil && *five[14] == refMerkleRootRec(append(append([]hash32{}, leaves...), leaves[0])), "tree store layout for 5 leaves")

	// BIP34 pushes (block 227836 starts with 03fc7903)
	check(bytes.Equal(refHeightPush(227836), []byte{0x03, 0xfc, 0x79, 0x03}), "height 227836")
	check(bytes.Equal(refHeightPush(0), []byte{0x00}) && bytes.Equal(refHeightPush(1), []byte{0x51}) && bytes.Equal(refHeightPush(16), []byte{0x60}), "small heights")
	check(bytes.Equal(refHeightPush(17), []byte{0x01, 0x11}) && bytes.Equal(refHeightPush(127), []byte{0x01, 0x7f}), "17, 127")
	check(bytes.Equal(refHeightPush(128), []byte{0x02, 0x80, 0x00}) && bytes.Equal(refHeightPush(32768), []byte{0x03, 0x00, 0x80, 0x00}), "128, 32768")
	check(bytes.Equal(refHeightPush(1<<31-1), []byte{0x04, 0xff, 0xff, 0xff, 0x7f}), "2^31-1")
	check(bytes.Equal(refScriptNum(-1), []byte{0x81}) && bytes.Equal(refScriptNum(-128), []byte{0x80, 0x80}) && bytes.Equal(refScriptNum(-1<<31), []byte{0, 0, 0, 0x80, 0x80}), "negative script numbers")
	if h, ok := refFindHeight([]byte{0x03, 0xfc, 0x79, 0x03, 0xaa}, 0, 1<<31-1); !ok || h != 227836 {
		check(false, "refFindHeight(03fc7903aa)")
	}
	if _, ok := refFindHeight([]byte{0x01, 0x05}, 0, 1<<31-1); ok {
		check(false, "refFindHeight(0105) must fail: 5 is OP_5")
	}

	// sigops of standard scripts
	key := pattern(33, 1)
	ms := []byte{0x52}
	for i := 0; i < 3; i++ {
		ms = append(ms, encPush(key, 0)...)
	}
	ms = append(ms, 0x53, opCheckMultiSig)
	check(refSigOpCount(ms, true) == 3 && refSigOpCount(ms, false) == 20, "2-of-3 multisig counts 3 accurate / 20 inaccurate")
	p2pkh := append(append([]byte{0x76, 0xa9, 0x14}, pattern(20, 2)...), 0x88, 0xac)
	check(refSigOpCount(p2pkh, false) == 1, "P2PKH counts 1")
	p2sh := p2shScript(nil)
	sig := append([]byte{0x00}, encPush(ms, 0)...)
	check(refIsP2SH(p2sh) && refP2SHSigOps(sig, p2sh) == 3 && refSigOpCount(p2sh, false) == 0, "P2SH 2-of-3 redeem counts 3")
	check(refP2SHSigOps(append(sig, 0x61), p2sh) == 0, "non-push-only scriptSig counts 0")
	p2wpkh := append([]byte{0x00, 0x14}, pattern(20, 3)...)
	p2wsh := append([]byte{0x00, 0x20}, pattern(32, 3)...)
	p2tr := append([]byte{0x51, 0x20}, pattern(32, 3)...)
	check(refWitnessSigOps(nil, p2wpkh, nil) == 1 && refWitnessSigOps(nil, p2wsh, [][]byte{{}, ms}) == 3 && refWitnessSigOps(nil, p2tr, [][]byte{ms}) == 0, "witness program sigops")
	check(refWitnessSigOps(encPush(p2wsh, 0), p2sh, [][]byte{ms}) == 3 && refWitnessSigOps(nil, p2wsh, nil) == 0, "nested / empty witness")
	check(refSigOpCount([]byte{0x4c, 0x02, 0xac}, false) == 0 && refSigOpCount([]byte{0xac, 0x02, 0xac}, false) == 1, "truncated push stops counting")

	// median time past
	c := refChainTimes{10, 20, 30}
	check(c.mtp(0) == 10 && c.mtp(1) == 20 && c.mtp(2) == 20, "mtp of short chains (element len/2 of the sorted window)")
	long := refChainTimes{1, 2, 3, 4, 5, 6, 7, 8, 9, 10, 11, 12, 13}
	check(long.mtp(10) == 6 && long.mtp(12) == 8, "mtp over an 11-block window")

	recCalib.Bulk(n, n)
	recCalib.Exhaustive()
}
