package c13

import (
	"encoding/binary"
	"fmt"
	"testing"
	"time"

	"github.com/btcsuite/btcd/blockchain"
	"github.com/btcsuite/btcd/btcutil/v2"
	"github.com/btcsuite/btcd/wire/v2"
	"pgregory.net/rapid"

	"verif/internal/ev"
)

func le64(vs ...int64) []byte {
	b := make([]byte, 8*len(vs))
	for i, v := range vs {
		binary.LittleEndian.PutUint64(b[8*i:], uint64(v))
	}
	return b
}

// ---------------------------------------------------------------------------
// IsFinalizedTransaction

var recFinal = ev.New("C13", "finality",
	"(lockTime, sequences of 0..4 inputs, block height, block time) with lockTime drawn from {0, 1, height-1/height/height+1, 499999999/500000000/500000001, "+
		"time-1/time/time+1, 2^32-1, uniform}, height and time drawn likewise around each other and around the threshold, sequences from {final, final-1, 0, random}; "+
		"oracle = Core IsFinalTx; non-trivial = lockTime != 0 and (the compared quantity is within 1 of lockTime, or lockTime within 1 of 500000000, or the verdict depends on the sequences); distinct by tuple",
	"locktime-0", "height-lock-past", "height-lock-eq", "height-lock-future", "time-lock-past", "time-lock-eq", "time-lock-future", "threshold-edge", "final-by-sequence", "nonfinal")

func TestIsFinalizedTransaction(t *testing.T) {
	rapid.Check(t, func(t *rapid.T) {
		height := int64(rapid.OneOf(
			rapid.Int32Range(0, 1000),
			rapid.Int32Range(0, 1<<31-1),
			rapid.SampledFrom([]int32{0, 1, 499999998, 499999999, 500000000, 500000001, 1<<31 - 1}),
		).Draw(t, "height"))
		blockTime := rapid.OneOf(
			rapid.Int64Range(500000000, 2000000000),
			rapid.SampledFrom([]int64{0, 1, 499999999, 500000000, 500000001, 1<<32 - 2, 1<<32 - 1, 1 << 32, 1<<32 + 1}),
			rapid.Int64Range(0, 1<<33),
		).Draw(t, "blockTime")
		var lockTime int64
		switch rapid.IntRange(0, 6).Draw(t, "lockKind") {
		case 0:
			lockTime = int64(rapid.SampledFrom([]uint32{0, 1, 2, 0xffffffff, 0xfffffffe}).Draw(t, "lockConst"))
		case 1:
			lockTime = height + int64(rapid.IntRange(-2, 2).Draw(t, "dHeight"))
		case 2:
			lockTime = blockTime + int64(rapid.IntRange(-2, 2).Draw(t, "dTime"))
		case 3:
			lockTime = 500000000 + int64(rapid.IntRange(-2, 2).Draw(t, "dThreshold"))
		case 4:
			lockTime = int64(rapid.Uint32().Draw(t, "lockAny"))
		case 5:
			lockTime = int64(rapid.Uint32Range(0, 499999999).Draw(t, "lockHeightRange"))
		default:
			lockTime = int64(rapid.Uint32Range(500000000, 0xffffffff).Draw(t, "lockTimeRange"))
		}
		if lockTime < 0 {
			lockTime = 0
		}
		if lockTime > 0xffffffff {
			lockTime = 0xffffffff
		}
		nIn := rapid.IntRange(0, 4).Draw(t, "nIn")
		tx := wire.NewMsgTx(rapid.SampledFrom([]int32{1, 2, -1}).Draw(t, "version"))
		allFinal := true
		for i := 0; i < nIn; i++ {
			h := idHash(uint64(i))
			in := wire.NewTxIn(wire.NewOutPoint(&h, 0), nil, nil)
			in.Sequence = rapid.OneOf(
				rapid.SampledFrom([]uint32{0xffffffff, 0xffffffff, 0xffffffff, 0xfffffffe, 0, 0x7fffffff, 0x80000000}),
				rapid.Uint32(),
			).Draw(t, fmt.Sprintf("seq%d", i))
			allFinal = allFinal && in.Sequence == 0xffffffff
			tx.AddTxIn(in)
		}
		tx.LockTime = uint32(lockTime)

		want := refIsFinal(tx, height, blockTime)
		cmp := blockTime
		kind := "time"
		if lockTime < 500000000 {
			cmp, kind = height, "height"
		}
		var class string
		nt := false
		switch {
		case lockTime == 0:
			class = "locktime-0"
		case lockTime < cmp:
			class = kind + "-lock-past"
			nt = cmp-lockTime <= 1
		case lockTime == cmp:
			class = kind + "-lock-eq"
			nt = true
		default:
			class = kind + "-lock-future"
			nt = lockTime-cmp <= 1
		}
		if lockTime >= 499999999 && lockTime <= 500000001 {
			recFinal.Count("threshold-edge", 1)
			nt = true
		}
		if lockTime != 0 && lockTime >= cmp {
			nt = true
			if want {
				recFinal.Count("final-by-sequence", 1)
			} else {
				recFinal.Count("nonfinal", 1)
			}
		}
		seqs := make([]int64, 0, nIn+3)
		seqs = append(seqs, lockTime, height, blockTime)
		for _, in := range tx.TxIn {
			seqs = append(seqs, int64(in.Sequence))
		}
		recFinal.Case(nt, class, ev.Hash(le64(seqs...)), func() any {
			return fmt.Sprintf("lockTime=%d height=%d blockTime=%d sequences=%v final=%v", lockTime, height, blockTime, seqs[3:], want)
		})
		got := blockchain.IsFinalizedTransaction(btcutil.NewTx(tx), int32(height), time.Unix(blockTime, 0))
		if got != want {
			t.Fatalf("IsFinalizedTransaction(lockTime=%d, sequences=%v, height=%d, blockTime=%d) = %v, Core IsFinalTx = %v",
				lockTime, seqs[3:], height, blockTime, got, want)
		}
	})
}

// ---------------------------------------------------------------------------
// SequenceLockActive, LockTimeToSequence

var recSeqActive = ev.New("C13", "sequence-lock-active",
	"(lock height, lock seconds, block height, MTP of the previous block) with each lock component drawn as -1, or within 2 of the block's value, or uniform; "+
		"oracle = Core EvaluateSequenceLocks (satisfied iff lockHeight < blockHeight and lockTime < prevMTP); non-trivial = a component is within 1 of equality; distinct by tuple",
	"both-satisfied", "height-eq", "time-eq", "height-blocks", "time-blocks", "disabled(-1,-1)")

func TestSequenceLockActive(t *testing.T) {
	rapid.Check(t, func(t *rapid.T) {
		blockHeight := rapid.OneOf(rapid.Int32Range(0, 1000), rapid.Int32Range(0, 1<<31-1)).Draw(t, "blockHeight")
		mtp := rapid.OneOf(rapid.Int64Range(1231006505, 2000000000), rapid.Int64Range(0, 1<<33)).Draw(t, "mtp")
		var lh int32
		switch rapid.IntRange(0, 2).Draw(t, "lhKind") {
		case 0:
			lh = -1
		case 1:
			d := int64(blockHeight) + int64(rapid.IntRange(-2, 2).Draw(t, "dh"))
			if d < -1 {
				d = -1
			}
			if d > 1<<31-1 {
				d = 1<<31 - 1
			}
			lh = int32(d)
		default:
			lh = rapid.Int32Range(-1, 1<<31-1).Draw(t, "lh")
		}
		var ls int64
		switch rapid.IntRange(0, 2).Draw(t, "lsKind") {
		case 0:
			ls = -1
		case 1:
			ls = mtp + int64(rapid.IntRange(-2, 2).Draw(t, "ds"))
			if ls < -1 {
				ls = -1
			}
		default:
			ls = rapid.Int64Range(-1, 1<<33).Draw(t, "ls")
		}
		want := refSeqLockSatisfied(refSeqLock{height: int64(lh), time: ls}, int64(blockHeight), mtp)
		class := "both-satisfied"
		switch {
		case lh == -1 && ls == -1:
			class = "disabled(-1,-1)"
		case int64(lh) == int64(blockHeight):
			class = "height-eq"
		case ls == mtp:
			class = "time-eq"
		case lh > blockHeight:
			class = "height-blocks"
		case ls > mtp:
			class = "time-blocks"
		}
		near := func(a, b int64) bool { return a-b <= 1 && b-a <= 1 }
		recSeqActive.Case(near(int64(lh), int64(blockHeight)) || near(ls, mtp), class, ev.Hash(le64(int64(lh), ls, int64(blockHeight), mtp)), func() any {
			return fmt.Sprintf("lock{height=%d seconds=%d} block height=%d prevMTP=%d active=%v", lh, ls, blockHeight, mtp, want)
		})
		got := blockchain.SequenceLockActive(&blockchain.SequenceLock{Seconds: ls, BlockHeight: lh}, blockHeight, time.Unix(mtp, 0))
		if got != want {
			t.Fatalf("SequenceLockActive(lock{height=%d seconds=%d}, blockHeight=%d, mtp=%d) = %v, BIP68 = %v", lh, ls, blockHeight, mtp, got, want)
		}
	})
}

var recLTS = ev.New("C13", "locktime-to-sequence",
	"relative lock-times in BIP68's representable range (blocks 0..65535, seconds 0..33554431) drawn at 0, 511/512/513, k*512-1/k*512/k*512+1, range ends, uniform; "+
		"oracle = BIP68 compatibility formula (nSequence = nHeight; nSequence = 1<<22 | nTime>>9) and decode round trip (disable bit clear, type bit, masked value); "+
		"non-trivial = seconds form not a multiple of 512, or a range end; distinct by input",
	"blocks", "seconds-multiple", "seconds-remainder")

func TestLockTimeToSequence(t *testing.T) {
	rapid.Check(t, func(t *rapid.T) {
		isSeconds := rapid.Bool().Draw(t, "isSeconds")
		var lt uint32
		if !isSeconds {
			lt = rapid.OneOf(rapid.Uint32Range(0, 0xffff), rapid.SampledFrom([]uint32{0, 1, 0xfffe, 0xffff})).Draw(t, "blocks")
		} else {
			k := rapid.Uint32Range(0, 0xffff).Draw(t, "k")
			lt = rapid.OneOf(
				rapid.Uint32Range(0, 33554431),
				rapid.SampledFrom([]uint32{0, 1, 511, 512, 513, 1023, 1024, 33553920, 33553919, 33554431}),
				rapid.SampledFrom([]uint32{k << 9, k<<9 + 1, k<<9 + 511}),
			).Draw(t, "seconds")
		}
		class := "blocks"
		nt := lt == 0 || lt == 0xffff
		if isSeconds {
			class = "seconds-multiple"
			nt = lt >= 33553920
			if lt%512 != 0 {
				class, nt = "seconds-remainder", true
			}
		}
		recLTS.Case(nt, class, ev.Hash(le64(int64(lt), int64(b2b(isSeconds)))), func() any { return fmt.Sprintf("isSeconds=%v locktime=%d", isSeconds, lt) })
		got := blockchain.LockTimeToSequence(isSeconds, lt)
		want := lt
		if isSeconds {
			want = 1<<22 | lt>>9
		}
		if got != want {
			t.Fatalf("LockTimeToSequence(%v, %d) = %#x, BIP68 = %#x", isSeconds, lt, got, want)
		}
		// decode with the BIP68 consensus rule: one input created at height 10
		// on a chain whose MTP is known
		if got&refSeqDisable != 0 || (got&refSeqTypeFlag != 0) != isSeconds {
			t.Fatalf("LockTimeToSequence(%v, %d) = %#x has wrong flag bits", isSeconds, lt, got)
		}
		tx := wire.NewMsgTx(2)
		h := idHash(1)
		in := wire.NewTxIn(wire.NewOutPoint(&h, 0), nil, nil)
		in.Sequence = got
		tx.AddTxIn(in)
		chain := make(refChainTimes, 20)
		for i := range chain {
			chain[i] = 1500000000 + int64(i)*600
		}
		l := refSequenceLocks(tx, []int64{10}, chain, true)
		if !isSeconds && l != (refSeqLock{height: 10 + int64(lt) - 1, time: -1}) {
			t.Fatalf("sequence %#x decodes to %+v, expected a height lock of %d blocks", got, l, lt)
		}
		if isSeconds && l != (refSeqLock{height: -1, time: chain.mtp(9) + int64(lt>>9<<9) - 1}) {
			t.Fatalf("sequence %#x decodes to %+v, expected a time lock of %d seconds", got, l, lt>>9<<9)
		}
	})
}

// ---------------------------------------------------------------------------
// coinbase height (BIP34)

var recCbHeight = ev.New("C13", "coinbase-height",
	"coinbase scriptSigs: the minimal push of a height (0, 1..16 as OP_0/OP_n, boundary heights 17/127/128/255/256/32767/32768/65535/65536/8388607/8388608/2^31-1 and uniform) "+
		"followed by 0..6 extra bytes; non-minimal forms (small ints as data pushes, zero-padded numbers, negative zero, PUSHDATA1 form), truncated pushes, negative numbers "+
		"(1..5 bytes, incl. -2^30 and -2^31), 5..8 byte pushes, OP_1NEGATE, empty script, random bytes; wanted heights = encoded height, +-1, other; "+
		"oracle = `CScript() << height` is a prefix of the scriptSig (own script-number encoder); ExtractCoinbaseHeight must return h for every h >= 0 so encoded and must never return "+
		"a value whose push is not a prefix; CheckSerializedHeight(want >= 0) accepts iff the push of want is a prefix; non-trivial = everything but the plain minimal uniform height; distinct by (script, want)",
	"op0", "op1-16", "minimal-push", "minimal-boundary", "non-minimal", "truncated", "negative", "long-push", "garbage", "empty", "want-eq", "want-off-by-one")

func genCoinbaseScript(t *rapid.T) (script []byte, class string) {
	kind := rapid.SampledFrom([]string{"op0", "op1-16", "minimal-push", "minimal-push", "minimal-boundary", "minimal-boundary", "non-minimal", "truncated", "negative", "long-push", "garbage", "empty"}).Draw(t, "kind")
	switch kind {
	case "op0":
		script = []byte{0x00}
	case "op1-16":
		script = []byte{byte(op1 - 1 + rapid.IntRange(1, 16).Draw(t, "k"))}
	case "minimal-push":
		script = refHeightPush(int64(rapid.Int32Range(17, 1<<31-1).Draw(t, "h")))
		if rapid.Bool().Draw(t, "smallRange") {
			script = refHeightPush(int64(rapid.Int32Range(17, 1000000).Draw(t, "hSmall")))
		}
	case "minimal-boundary":
		script = refHeightPush(rapid.SampledFrom([]int64{17, 126, 127, 128, 129, 255, 256, 32767, 32768, 32769, 65535, 65536, 8388607, 8388608, 8388609, 16777215, 16777216, 1<<31 - 2, 1<<31 - 1}).Draw(t, "hb"))
	case "non-minimal":
		script = rapid.SampledFrom([][]byte{
			{0x01, 0x00}, {0x01, 0x01}, {0x01, 0x05}, {0x01, 0x10}, {0x02, 0x05, 0x00}, {0x02, 0x11, 0x00}, {0x03, 0xe8, 0x03, 0x00},
			{0x04, 0xe8, 0x03, 0x00, 0x00}, {0x01, 0x80}, {0x02, 0x00, 0x80}, {0x02, 0x00, 0x00}, {0x4c, 0x01, 0x11}, {0x4c, 0x02, 0xe8, 0x03},
			{0x4d, 0x01, 0x00, 0x11}, {0x05, 0xe8, 0x03, 0x00, 0x00, 0x00}, {0x04, 0xff, 0xff, 0x7f, 0x00}, {0x03, 0x7f, 0x00, 0x00}, {0x02, 0x7f, 0x00},
		}).Draw(t, "nm")
	case "truncated":
		full := refHeightPush(int64(rapid.Int32Range(17, 1<<31-1).Draw(t, "h")))
		script = full[:rapid.IntRange(1, len(full)-1).Draw(t, "cut")]
	case "negative":
		script = rapid.SampledFrom([][]byte{
			{0x4f}, {0x01, 0x81}, {0x01, 0x85}, {0x01, 0xff}, {0x02, 0xff, 0xff}, {0x02, 0x80, 0x80}, {0x03, 0x01, 0x00, 0x80}, {0x03, 0xff, 0xff, 0xff},
			{0x04, 0x00, 0x00, 0x00, 0xc0}, {0x04, 0x01, 0x00, 0x00, 0x80}, {0x04, 0xff, 0xff, 0xff, 0xff}, {0x04, 0xfe, 0xff, 0xff, 0xff}, {0x04, 0x00, 0x00, 0x00, 0x80},
			{0x05, 0x00, 0x00, 0x00, 0x80, 0x80}, {0x05, 0x01, 0x00, 0x00, 0x80, 0x80}, {0x04, 0x00, 0x00, 0x00, 0xc1}, {0x04, 0x01, 0x00, 0x00, 0xc0},
		}).Draw(t, "neg")
		if rapid.IntRange(0, 2).Draw(t, "negRandom") == 0 {
			script = refHeightPush(-int64(rapid.Int32Range(2, 1<<31-1).Draw(t, "hneg")))
		}
	case "long-push":
		n := rapid.IntRange(5, 8).Draw(t, "n")
		d := rapid.SliceOfN(rapid.Byte(), n, n).Draw(t, "d")
		if rapid.Bool().Draw(t, "fromInt32") {
			// first four bytes form an int32 whose own push might be mistaken for a prefix
			d = append(refScriptNum(int64(rapid.Int32Range(1<<24, 1<<31-1).Draw(t, "h")))[:4], d[4:]...)
		}
		script = append([]byte{byte(n)}, d...)
	case "garbage":
		script = rapid.SliceOfN(rapid.Byte(), 1, 8).Draw(t, "g")
	case "empty":
		return nil, kind
	}
	if kind != "truncated" && kind != "empty" {
		script = append(script, rapid.SliceOfN(rapid.Byte(), 0, 6).Draw(t, "extra")...)
	}
	return script, kind
}

func TestCoinbaseHeight(t *testing.T) {
	rapid.Check(t, func(t *rapid.T) {
		script, class := genCoinbaseScript(t)
		tx := makeCoinbase(script, []*wire.TxOut{wire.NewTxOut(0, []byte{0x51})}, nil)
		utx := btcutil.NewTx(tx)
		refH, refOK := refFindHeight(script, 0, 1<<31-1)

		// wanted height for CheckSerializedHeight
		var want int64
		switch rapid.IntRange(0, 3).Draw(t, "wantKind") {
		case 0, 1:
			base := refH
			if !refOK {
				if any, ok := refFindHeight(script, -(1 << 40), 1<<40); ok {
					base = any
				}
			}
			want = base + int64(rapid.IntRange(-1, 1).Draw(t, "dWant"))
		case 2:
			want = int64(rapid.Int32Range(0, 1<<31-1).Draw(t, "wantAny"))
		default:
			want = int64(rapid.IntRange(0, 17).Draw(t, "wantSmall"))
		}
		if want < 0 {
			want = 0
		}
		if want > 1<<31-1 {
			want = 1<<31 - 1
		}
		recCbHeight.Case(class != "minimal-push", class, ev.Hash(script, le64(want)), func() any {
			return fmt.Sprintf("scriptSig=%s encodes=%d(%v) want=%d", hx(script), refH, refOK, want)
		})
		if refOK && want == refH {
			recCbHeight.Count("want-eq", 1)
		} else if refOK && (want == refH+1 || want == refH-1) {
			recCbHeight.Count("want-off-by-one", 1)
		}

		got, err := blockchain.ExtractCoinbaseHeight(utx)
		if err != nil {
			if _, ok := ruleCode(err); !ok {
				t.Fatalf("ExtractCoinbaseHeight(%x) returned a non-rule error: %v", script, err)
			}
		}
		if refOK && (err != nil || int64(got) != refH) {
			t.Fatalf("ExtractCoinbaseHeight(scriptSig=%x) = (%d, %v); the script starts with the minimal push of height %d (%x)", script, got, err, refH, refHeightPush(refH))
		}
		if err == nil && !refHasPrefix(script, refHeightPush(int64(got))) {
			t.Fatalf("ExtractCoinbaseHeight(scriptSig=%x) = %d, but the script does not start with the push of %d (%x)", script, got, got, refHeightPush(int64(got)))
		}

		wantOK := refHasPrefix(script, refHeightPush(want))
		cerr := blockchain.CheckSerializedHeight(utx, int32(want))
		if (cerr == nil) != wantOK {
			t.Fatalf("CheckSerializedHeight(scriptSig=%x, want=%d) = %v; BIP34: script starts with %x: %v", script, want, cerr, refHeightPush(want), wantOK)
		}
		if cerr != nil {
			code, ok := ruleCode(cerr)
			if !ok || (code != blockchain.ErrBadCoinbaseHeight && code != blockchain.ErrMissingCoinbaseHeight) {
				t.Fatalf("CheckSerializedHeight(scriptSig=%x, want=%d): unexpected error kind %v", script, want, cerr)
			}
		}
	})
}
