package c13

// From-definition references for transaction serialisation, txid/wtxid,
// merkle trees, witness commitments and weight.
//
// Written from the protocol definitions (Bitcoin developer reference for the
// transaction format, BIP141/BIP144 for the witness serialisation, wtxid,
// witness commitment and weight, Bitcoin Core consensus/merkle.cpp semantics
// for the duplicate-last rule). btcd's wire.MsgTx / chainhash.Hash are used
// only as data carriers: nothing here calls a btcd method that computes.

import (
	"bytes"
	"crypto/sha256"
	"encoding/binary"

	"github.com/btcsuite/btcd/wire/v2"
)

type hash32 = [32]byte

func dsha(b []byte) hash32 {
	a := sha256.Sum256(b)
	return sha256.Sum256(a[:])
}

// refVarInt is the CompactSize encoding.
func refVarInt(buf *bytes.Buffer, n uint64) {
	switch {
	case n < 0xfd:
		buf.WriteByte(byte(n))
	case n <= 0xffff:
		buf.WriteByte(0xfd)
		var b [2]byte
		binary.LittleEndian.PutUint16(b[:], uint16(n))
		buf.Write(b[:])
	case n <= 0xffffffff:
		buf.WriteByte(0xfe)
		var b [4]byte
		binary.LittleEndian.PutUint32(b[:], uint32(n))
		buf.Write(b[:])
	default:
		buf.WriteByte(0xff)
		var b [8]byte
		binary.LittleEndian.PutUint64(b[:], n)
		buf.Write(b[:])
	}
}

func refHasWitness(tx *wire.MsgTx) bool {
	for _, in := range tx.TxIn {
		if len(in.Witness) != 0 {
			return true
		}
	}
	return false
}

// refSerializeTx serialises a transaction. withWitness selects the BIP144
// extended format, which is used only when at least one input carries a
// non-empty witness stack (otherwise the extended and the basic format are
// the same bytes by definition).
func refSerializeTx(tx *wire.MsgTx, withWitness bool) []byte {
	var buf bytes.Buffer
	var b4 [4]byte
	var b8 [8]byte
	ext := withWitness && refHasWitness(tx)
	binary.LittleEndian.PutUint32(b4[:], uint32(tx.Version))
	buf.Write(b4[:])
	if ext {
		buf.WriteByte(0x00) // marker
		buf.WriteByte(0x01) // flag
	}
	refVarInt(&buf, uint64(len(tx.TxIn)))
	for _, in := range tx.TxIn {
		buf.Write(in.PreviousOutPoint.Hash[:])
		binary.LittleEndian.PutUint32(b4[:], in.PreviousOutPoint.Index)
		buf.Write(b4[:])
		refVarInt(&buf, uint64(len(in.SignatureScript)))
		buf.Write(in.SignatureScript)
		binary.LittleEndian.PutUint32(b4[:], in.Sequence)
		buf.Write(b4[:])
	}
	refVarInt(&buf, uint64(len(tx.TxOut)))
	for _, out := range tx.TxOut {
		binary.LittleEndian.PutUint64(b8[:], uint64(out.Value))
		buf.Write(b8[:])
		refVarInt(&buf, uint64(len(out.PkScript)))
		buf.Write(out.PkScript)
	}
	if ext {
		for _, in := range tx.TxIn {
			refVarInt(&buf, uint64(len(in.Witness)))
			for _, item := range in.Witness {
				refVarInt(&buf, uint64(len(item)))
				buf.Write(item)
			}
		}
	}
	binary.LittleEndian.PutUint32(b4[:], tx.LockTime)
	buf.Write(b4[:])
	return buf.Bytes()
}

func refTxid(tx *wire.MsgTx) hash32  { return dsha(refSerializeTx(tx, false)) }
func refWtxid(tx *wire.MsgTx) hash32 { return dsha(refSerializeTx(tx, true)) }

// refTxWeight = 3*stripped size + total size (BIP141).
func refTxWeight(tx *wire.MsgTx) int64 {
	return 3*int64(len(refSerializeTx(tx, false))) + int64(len(refSerializeTx(tx, true)))
}

// refBlockWeight: a block is the 80-byte header, the transaction count as a
// CompactSize and the transactions.
func refBlockWeight(txs []*wire.MsgTx) int64 {
	var cnt bytes.Buffer
	refVarInt(&cnt, uint64(len(txs)))
	stripped := int64(80 + cnt.Len())
	total := stripped
	for _, tx := range txs {
		stripped += int64(len(refSerializeTx(tx, false)))
		total += int64(len(refSerializeTx(tx, true)))
	}
	return 3*stripped + total
}

func refPair(l, r hash32) hash32 {
	var b [64]byte
	copy(b[:32], l[:])
	copy(b[32:], r[:])
	return dsha(b[:])
}

// refMerkleRootRec is the recursive definition: the root of one leaf is the
// leaf; otherwise pair up the level (an odd level pairs its last node with
// itself) and recurse. The empty list has the all-zero root (Core:
// ComputeMerkleRoot of no hashes is uint256()).
func refMerkleRootRec(level []hash32) hash32 {
	if len(level) == 0 {
		return hash32{}
	}
	if len(level) == 1 {
		return level[0]
	}
	var next []hash32
	for i := 0; i < len(level); i += 2 {
		if i+1 < len(level) {
			next = append(next, refPair(level[i], level[i+1]))
		} else {
			next = append(next, refPair(level[i], level[i]))
		}
	}
	return refMerkleRootRec(next)
}

// refLeaves returns the merkle leaves in txid or wtxid form. In wtxid form
// the first transaction (the coinbase position) is 32 zero bytes.
func refLeaves(txs []*wire.MsgTx, witness bool) []hash32 {
	leaves := make([]hash32, len(txs))
	for i, tx := range txs {
		switch {
		case witness && i == 0:
		case witness:
			leaves[i] = refWtxid(tx)
		default:
			leaves[i] = refTxid(tx)
		}
	}
	return leaves
}

// refTreeStore lays the whole tree out as BuildMerkleTreeStore documents it:
// a linear array of 2*P-1 slots (P = the leaf count rounded up to a power of
// two); level 0 occupies the first P slots, level 1 the next P/2, ... and the
// root is the last slot; slots without a node are nil. n must be >= 1.
func refTreeStore(leaves []hash32) []*hash32 {
	p := 1
	for p < len(leaves) {
		p *= 2
	}
	out := make([]*hash32, 0, 2*p-1)
	level := leaves
	for width := p; width >= 1; width /= 2 {
		for i := 0; i < width; i++ {
			if i < len(level) {
				h := level[i]
				out = append(out, &h)
			} else {
				out = append(out, nil)
			}
		}
		var next []hash32
		for i := 0; i < len(level); i += 2 {
			if i+1 < len(level) {
				next = append(next, refPair(level[i], level[i+1]))
			} else {
				next = append(next, refPair(level[i], level[i]))
			}
		}
		level = next
	}
	return out
}

// ---------------------------------------------------------------------------
// witness commitment (BIP141)

var refCommitHeader = []byte{0x6a, 0x24, 0xaa, 0x21, 0xa9, 0xed}

func refIsCoinbase(tx *wire.MsgTx) bool {
	if len(tx.TxIn) != 1 {
		return false
	}
	op := tx.TxIn[0].PreviousOutPoint
	return op.Index == 0xffffffff && op.Hash == (hash32{})
}

// refCommitmentIndex: the LAST output whose script is at least 38 bytes and
// starts with 6a 24 aa 21 a9 ed; -1 when there is none.
func refCommitmentIndex(cb *wire.MsgTx) int {
	pos := -1
	for i, out := range cb.TxOut {
		s := out.PkScript
		if len(s) >= 38 && bytes.Equal(s[:6], refCommitHeader) {
			pos = i
		}
	}
	return pos
}

type commitVerdict int

const (
	cvOK commitVerdict = iota
	cvUnexpectedWitness
	cvBadNonce
	cvMismatch
)

func (v commitVerdict) String() string {
	return [...]string{"ok", "unexpected-witness", "bad-witness-nonce-size", "bad-witness-merkle-match"}[v]
}

// refValidateCommitment is BIP141's commitment rule for a block whose first
// transaction is a coinbase.
func refValidateCommitment(txs []*wire.MsgTx) commitVerdict {
	cb := txs[0]
	pos := refCommitmentIndex(cb)
	if pos < 0 {
		for _, tx := range txs {
			if refHasWitness(tx) {
				return cvUnexpectedWitness
			}
		}
		return cvOK
	}
	w := cb.TxIn[0].Witness
	if len(w) != 1 || len(w[0]) != 32 {
		return cvBadNonce
	}
	root := refMerkleRootRec(refLeaves(txs, true))
	var pre [64]byte
	copy(pre[:32], root[:])
	copy(pre[32:], w[0])
	want := dsha(pre[:])
	if !bytes.Equal(want[:], cb.TxOut[pos].PkScript[6:38]) {
		return cvMismatch
	}
	return cvOK
}

// refCommitmentValue = dSHA256(witness merkle root || nonce).
func refCommitmentValue(txs []*wire.MsgTx, nonce []byte) hash32 {
	root := refMerkleRootRec(refLeaves(txs, true))
	pre := append(append([]byte{}, root[:]...), nonce...)
	return dsha(pre)
}
