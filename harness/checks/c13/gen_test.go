package c13

import (
	"encoding/binary"
	"encoding/hex"
	"fmt"
	"os"
	"testing"

	"github.com/btcsuite/btcd/blockchain"
	"github.com/btcsuite/btcd/btcutil/v2"
	"github.com/btcsuite/btcd/chainhash/v2"
	"github.com/btcsuite/btcd/wire/v2"
	"pgregory.net/rapid"

	"verif/internal/ev"
	"verif/internal/scratch"
)

func TestMain(m *testing.M) {
	code := m.Run()
	scratch.Sweep()
	ev.Flush()
	os.Exit(code)
}

// catch runs f and returns the recovered panic value (nil when none).
func catch(f func()) (p any) {
	defer func() { p = recover() }()
	f()
	return nil
}

func hx(b []byte) string { return hex.EncodeToString(b) }

func ruleCode(err error) (blockchain.ErrorCode, bool) {
	if re, ok := err.(blockchain.RuleError); ok {
		return re.ErrorCode, true
	}
	return 0, false
}

// pattern returns n deterministic filler bytes derived from seed (content is
// irrelevant for the case, only length and distinctness matter).
func pattern(n int, seed uint32) []byte {
	b := make([]byte, n)
	x := seed*2654435761 + 12345
	for i := range b {
		x = x*1664525 + 1013904223
		b[i] = byte(x >> 24)
	}
	return b
}

func idHash(id uint64) chainhash.Hash {
	var h chainhash.Hash
	binary.LittleEndian.PutUint64(h[:8], id)
	binary.LittleEndian.PutUint64(h[13:21], id*0x9e3779b97f4a7c15+1)
	h[31] = 0x5a
	return h
}

// genSmallTx draws a small, cheap, distinct transaction. witness: 0 never,
// 1 maybe, 2 always (at least one non-empty witness stack).
func genSmallTx(t *rapid.T, label string, witness int) *wire.MsgTx {
	id := rapid.Uint32().Draw(t, label+".id")
	shape := rapid.IntRange(0, 5).Draw(t, label+".shape")
	tx := wire.NewMsgTx(int32(1 + shape%2))
	nIn := 1 + shape%3
	for i := 0; i < nIn; i++ {
		h := idHash(uint64(id)<<8 | uint64(i))
		in := wire.NewTxIn(wire.NewOutPoint(&h, uint32(i)), pattern(shape*7%23, id+uint32(i)), nil)
		in.Sequence = 0xffffffff - uint32(shape)
		tx.AddTxIn(in)
	}
	nOut := shape % 3
	for i := 0; i < nOut; i++ {
		tx.AddTxOut(wire.NewTxOut(int64(id%100000)+int64(i), pattern(20+shape, id^uint32(i))))
	}
	tx.LockTime = id % 7
	w := witness == 2 || (witness == 1 && rapid.Bool().Draw(t, label+".wit"))
	if w {
		k := rapid.IntRange(0, nIn-1).Draw(t, label+".witIn")
		nItems := rapid.IntRange(1, 3).Draw(t, label+".witN")
		for j := 0; j < nItems; j++ {
			tx.TxIn[k].Witness = append(tx.TxIn[k].Witness, pattern((j*31+shape)%70, id+uint32(j)))
		}
	}
	return tx
}

// genCoinbase draws a coinbase-shaped transaction (one input spending the
// null outpoint) with the given outputs and witness stack.
func makeCoinbase(sigScript []byte, outs []*wire.TxOut, witness [][]byte) *wire.MsgTx {
	tx := wire.NewMsgTx(1)
	in := wire.NewTxIn(wire.NewOutPoint(&chainhash.Hash{}, 0xffffffff), sigScript, witness)
	tx.AddTxIn(in)
	for _, o := range outs {
		tx.AddTxOut(o)
	}
	return tx
}

func wrapTxs(txs []*wire.MsgTx) []*btcutil.Tx {
	out := make([]*btcutil.Tx, len(txs))
	for i, tx := range txs {
		out[i] = btcutil.NewTx(tx)
	}
	return out
}

func describeTx(tx *wire.MsgTx) string {
	return fmt.Sprintf("tx{%s}", hx(refSerializeTx(tx, true)))
}
