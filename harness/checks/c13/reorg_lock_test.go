package c13

import (
	"fmt"
	"testing"

	"github.com/btcsuite/btcd/wire/v2"
	"pgregory.net/rapid"

	"verif/internal/chainenv"
	"verif/internal/ev"
)

// ---------------------------------------------------------------------------
// BIP68 locks in the chain context of a block that is NOT on the best chain:
// a branch that is validated by a reorganisation while another branch, with
// other timestamps (and other contents at the same heights), is still active.

var recSeqReorg = ev.New("C13", "sequence-lock-side-branch",
	"common prefix of 2-5 blocks, active branch X and a longer branch Y with different timestamp steps (1 s .. 5000 s); on Y a coin is created in the a-th block (a = 2..12: the median time past of the block before it is branch-specific from a = 7 on, or earlier near genesis) and spent in a later block by a version-2 transaction "+
		"with a BIP68 lock in 512-second units or in blocks, value = the coin's exact age on Y -1 / +0 / +1; Y is delivered after X, so its blocks are validated by the reorganisation while X is the best chain; "+
		"oracle: BIP68 text on Y's own timestamps (time lock: MTP(block before the spender) - MTP(block before the coin's block) >= value*512; height lock: spender height - coin height >= value) labels the spending block; chain-selection model for the verdicts and the final tip; "+
		"non-trivial = time-based lock whose verdict differs when the median times of X are used instead of Y's; distinct by (timestamps, positions, value)",
	"time-lock-valid", "time-lock-too-young", "height-lock-valid", "height-lock-too-young", "other-branch-would-differ")

func TestSequenceLockSideBranch(t *testing.T) {
	rapid.Check(t, func(t *rapid.T) {
		params := chainenv.NewParams(chainenv.FamFlat, 1)
		tr := chainenv.NewTree(chainenv.FamFlat, params)
		step := func(label string) int64 {
			return rapid.SampledFrom([]int64{1, 2, 30, 512, 600, 1024, 3000, 5000}).Draw(t, label)
		}
		fork := tr.Genesis
		for i := 0; i < rapid.IntRange(2, 5).Draw(t, "prefix"); i++ {
			fork = tr.Extend(fork, chainenv.BlockOpt{TimeDelta: step("dtPrefix")})
		}
		sx, sy := step("stepX"), step("stepY")
		a := rapid.IntRange(2, 12).Draw(t, "coinBlock")        // Y's a-th block creates the coin
		b := a + rapid.IntRange(1, 8).Draw(t, "spendDistance") // Y's b-th block spends it
		ny := b + rapid.IntRange(0, 2).Draw(t, "afterSpend")   // length of Y
		// the median time past lags by five blocks: the other branch can only give another answer when it is
		// long enough to have a block at the height before the coin's block
		loX := 1
		if rapid.IntRange(0, 3).Draw(t, "longX") > 0 {
			loX = a - 1
		}
		nx := rapid.IntRange(loX, ny-1).Draw(t, "lenX") // X is shorter than Y
		jitter := func(base int64, label string) int64 {
			if base > 4 {
				return base + int64(rapid.IntRange(-3, 3).Draw(t, label))
			}
			return base
		}
		x := fork
		for i := 0; i < nx; i++ {
			x = tr.Extend(x, chainenv.BlockOpt{TimeDelta: jitter(sx, "jx")})
		}
		y := fork
		var coin wire.OutPoint
		var coinVal int64
		var coinBlock, spender *chainenv.Node
		timeLock := rapid.IntRange(0, 3).Draw(t, "timeLock") > 0
		delta := rapid.IntRange(-1, 1).Draw(t, "valueDelta")
		var value int64
		wouldDiffer := false
		for i := 1; i <= ny; i++ {
			opt := chainenv.BlockOpt{TimeDelta: jitter(sy, "jy")}
			switch i {
			case a:
				sp := chainenv.Spendable(y.Utxo, y.Height+1, 1)
				if len(sp) == 0 {
					t.Fatalf("VERIF-INFRA: nothing spendable")
				}
				op := sp[rapid.IntRange(0, len(sp)-1).Draw(t, "fund")]
				v := y.Utxo[op].Value
				fund := chainenv.SpendTx(1, []wire.OutPoint{op}, []*wire.TxOut{{Value: v / 2, PkScript: chainenv.OpTrue}, {Value: v / 2, PkScript: chainenv.OpTrue}}, 0, 0xffffffff)
				opt.Txs = []*wire.MsgTx{fund}
				coin, coinVal = wire.OutPoint{Hash: fund.TxHash(), Index: 0}, v/2
			case b:
				var seq uint32
				valid := true
				if timeLock {
					age := y.MTP() - coinBlock.Parent.MTP()
					value = age/512 + int64(delta)
					if value < 0 {
						value = 0
					}
					if value > 0xffff {
						t.Skip("age beyond the 16-bit field")
					}
					valid = value*512 <= age
					seq = 1<<22 | uint32(value)
					// what the other branch's median times would say (when X reaches that height)
					if h := coinBlock.Height - 1; h <= x.Height {
						ageX := y.MTP() - x.Ancestor(h).MTP()
						if (value*512 <= ageX) != valid {
							wouldDiffer = true
						}
					}
				} else {
					age := int64(y.Height + 1 - coinBlock.Height)
					value = age + int64(delta)
					valid = value <= age
					seq = uint32(value)
				}
				tx := chainenv.SpendTx(2, []wire.OutPoint{coin}, []*wire.TxOut{{Value: coinVal, PkScript: chainenv.OpTrue}}, 0, seq)
				opt.Txs = []*wire.MsgTx{tx}
				if !valid {
					opt.Label, opt.Rule = chainenv.InvalidConnect, "bip68-lock-not-met"
				}
			}
			y = tr.Extend(y, opt)
			if i == a {
				coinBlock = y
			}
			if i == b {
				spender = y
			}
		}
		cl := map[bool]map[bool]string{true: {true: "time-lock-valid", false: "time-lock-too-young"}, false: {true: "height-lock-valid", false: "height-lock-too-young"}}[timeLock][spender.Self == chainenv.Valid]
		if wouldDiffer {
			recSeqReorg.Count("other-branch-would-differ", 1)
		}
		desc := fmt.Sprintf("prefix %d, X %d blocks step %d, Y %d blocks step %d, coin in Y%d, spent in Y%d with %s lock %d (delta %d): %v", fork.Height, nx, sx, ny, sy, a, b, map[bool]string{true: "time", false: "height"}[timeLock], value, delta, spender.Self)
		recSeqReorg.Case(wouldDiffer, cl, ev.Hash(spender.Hash[:], x.Hash[:]), func() any { return desc })

		env, err := chainenv.NewEnv(params, chainenv.EnvOpt{})
		if err != nil {
			t.Fatalf("VERIF-INFRA: %v", err)
		}
		defer env.Close()
		sel := chainenv.NewSel(tr)
		for _, n := range tr.Nodes[1:] {
			out := sel.DeliverBlock(n)
			_, _, err := env.Deliver(n)
			if out.MustError && err == nil {
				t.Fatalf("node%d accepted although %s\n%s\ntree: %s", n.Idx, out.Why, desc, tr.Describe())
			}
			if out.MustSucceed && err != nil {
				t.Fatalf("node%d rejected with %v although %s\n%s\ntree: %s", n.Idx, err, out.Why, desc, tr.Describe())
			}
			if err := chainenv.CheckTip(env, sel); err != nil {
				t.Fatalf("after node%d: %v\n%s\ntree: %s", n.Idx, err, desc, tr.Describe())
			}
		}
	})
}
