package c13

import (
	"bytes"
	"fmt"
	"testing"

	"github.com/btcsuite/btcd/blockchain"
	"github.com/btcsuite/btcd/btcutil/v2"
	"github.com/btcsuite/btcd/txscript/v2"
	"github.com/btcsuite/btcd/wire/v2"
	"pgregory.net/rapid"

	"verif/internal/ev"
)

// ---------------------------------------------------------------------------
// script generators

// scriptFeat records which structural corners a generated script contains.
type scriptFeat struct {
	sigop, multisig, msAfterSmallInt, msAfterOther, msFirst bool
	hiddenInPush, pushdata, truncated                       bool
}

func (f scriptFeat) nontrivial() bool {
	return f.multisig || f.hiddenInPush || f.truncated || (f.sigop && f.pushdata)
}

// sigopPayload returns push payload bytes that contain sigop opcodes (which
// must NOT be counted: they are data).
func sigopPayload(t *rapid.T, label string, n int) []byte {
	b := make([]byte, n)
	pool := []byte{0xac, 0xad, 0xae, 0xaf, 0x51, 0x60, 0x00, 0x4c, 0x4e, 0x01, 0xff}
	seed := rapid.Uint32().Draw(t, label)
	for i := range b {
		seed = seed*1664525 + 1013904223
		b[i] = pool[int(seed>>24)%len(pool)]
	}
	return b
}

// encPush encodes a push of d with the given opcode form: 0 = shortest,
// 1 = OP_PUSHDATA1, 2 = OP_PUSHDATA2, 4 = OP_PUSHDATA4.
func encPush(d []byte, form int) []byte {
	n := len(d)
	switch {
	case form == 0 && n <= 75:
		return append([]byte{byte(n)}, d...)
	case (form == 0 || form == 1) && n <= 255:
		return append([]byte{opPushData1, byte(n)}, d...)
	case (form == 0 || form == 1 || form == 2) && n <= 65535:
		return append([]byte{opPushData2, byte(n), byte(n >> 8)}, d...)
	default:
		return append([]byte{opPushData4, byte(n), byte(n >> 8), byte(n >> 16), byte(n >> 24)}, d...)
	}
}

func genPushLen(t *rapid.T, label string) int {
	return rapid.OneOf(
		rapid.IntRange(0, 6),
		rapid.SampledFrom([]int{1, 20, 32, 33, 74, 75, 76, 77, 78, 255, 256}),
		rapid.IntRange(0, 100),
	).Draw(t, label)
}

// genScript draws a script as a sequence of elements.
func genScript(t *rapid.T, label string, maxElems int) ([]byte, scriptFeat) {
	var s []byte
	var f scriptFeat
	n := rapid.IntRange(0, maxElems).Draw(t, label+".n")
	prev := -1 // previous opcode (as parsed), -1 at start
	for i := 0; i < n; i++ {
		l := fmt.Sprintf("%s.%d", label, i)
		switch rapid.IntRange(0, 11).Draw(t, l+".kind") {
		case 0, 1: // CHECKSIG family
			op := rapid.SampledFrom([]byte{opCheckSig, opCheckSigVerify}).Draw(t, l+".op")
			s = append(s, op)
			f.sigop = true
			prev = int(op)
		case 2, 3, 4: // CHECKMULTISIG family with a chosen predecessor
			switch rapid.IntRange(0, 3).Draw(t, l+".pre") {
			case 0: // OP_1..OP_16
				k := rapid.SampledFrom([]int{1, 2, 3, 15, 16, 16, 1}).Draw(t, l+".k")
				if rapid.Bool().Draw(t, l+".anyk") {
					k = rapid.IntRange(1, 16).Draw(t, l+".k2")
				}
				s = append(s, byte(op1-1+k))
				prev = op1 - 1 + k
			case 1: // neighbours of the small-int range and pushes of small numbers
				pre := rapid.SampledFrom([][]byte{{0x00}, {0x4f}, {0x50}, {0x61}, {0x01, 0x03}, {0x01, 0x10}, {0x01, 0x51}, {0x4c, 0x01, 0x02}, {0x02, 0x03, 0x00}}).Draw(t, l+".preop")
				s = append(s, pre...)
				prev = int(pre[0])
			case 2: // whatever came before
			case 3: // a push whose LAST payload byte is a small-int opcode
				d := append(sigopPayload(t, l+".pl", rapid.IntRange(0, 5).Draw(t, l+".pln")), byte(op1-1+rapid.IntRange(1, 16).Draw(t, l+".plk")))
				s = append(s, encPush(d, rapid.SampledFrom([]int{0, 1, 2, 4}).Draw(t, l+".form"))...)
				f.hiddenInPush = true
				prev = 0x01 // a push; only used for the feature flags
			}
			op := rapid.SampledFrom([]byte{opCheckMultiSig, opCheckMultiSigVerify}).Draw(t, l+".op")
			s = append(s, op)
			f.sigop, f.multisig = true, true
			switch {
			case prev < 0:
				f.msFirst = true
			case prev >= op1 && prev <= op16:
				f.msAfterSmallInt = true
			default:
				f.msAfterOther = true
			}
			prev = int(op)
		case 5: // small ints
			op := rapid.SampledFrom([]byte{0x00, 0x4f, 0x50, 0x51, 0x52, 0x5f, 0x60}).Draw(t, l+".op")
			s = append(s, op)
			prev = int(op)
		case 6: // any non-push opcode
			op := byte(rapid.IntRange(0x4f, 0xff).Draw(t, l+".op"))
			s = append(s, op)
			switch op {
			case opCheckSig, opCheckSigVerify:
				f.sigop = true
			case opCheckMultiSig, opCheckMultiSigVerify:
				f.sigop, f.multisig = true, true
				if prev >= op1 && prev <= op16 {
					f.msAfterSmallInt = true
				} else if prev < 0 {
					f.msFirst = true
				} else {
					f.msAfterOther = true
				}
			}
			prev = int(op)
		case 7, 8: // push (shortest or explicit PUSHDATA form) with sigop bytes inside
			d := sigopPayload(t, l+".pl", genPushLen(t, l+".len"))
			form := rapid.SampledFrom([]int{0, 0, 1, 2, 4}).Draw(t, l+".form")
			e := encPush(d, form)
			s = append(s, e...)
			if len(d) > 0 {
				f.hiddenInPush = true
			}
			if e[0] >= opPushData1 {
				f.pushdata = true
			}
			prev = int(e[0])
		case 9: // 0x4b..0x4e boundary pushes, full length
			op := rapid.SampledFrom([]byte{0x4b, 0x4c, 0x4d, 0x4e}).Draw(t, l+".op")
			var e []byte
			switch op {
			case 0x4b:
				e = encPush(sigopPayload(t, l+".pl", 75), 0)
			case 0x4c:
				e = encPush(sigopPayload(t, l+".pl", rapid.SampledFrom([]int{0, 1, 75, 76, 255}).Draw(t, l+".n")), 1)
			case 0x4d:
				e = encPush(sigopPayload(t, l+".pl", rapid.SampledFrom([]int{0, 1, 255, 256, 300}).Draw(t, l+".n")), 2)
			default:
				e = encPush(sigopPayload(t, l+".pl", rapid.SampledFrom([]int{0, 1, 2, 256}).Draw(t, l+".n")), 4)
			}
			s = append(s, e...)
			f.hiddenInPush, f.pushdata = true, f.pushdata || op >= opPushData1
			prev = int(op)
		case 10: // truncated push: everything after it is payload, never opcodes
			var e []byte
			switch rapid.IntRange(0, 6).Draw(t, l+".trunc") {
			case 0:
				nn := rapid.IntRange(1, 75).Draw(t, l+".n")
				e = append([]byte{byte(nn)}, sigopPayload(t, l+".pl", rapid.IntRange(0, nn-1).Draw(t, l+".have"))...)
			case 1:
				e = []byte{opPushData1}
			case 2:
				nn := rapid.IntRange(1, 255).Draw(t, l+".n")
				e = append([]byte{opPushData1, byte(nn)}, sigopPayload(t, l+".pl", rapid.IntRange(0, min(nn-1, 40)).Draw(t, l+".have"))...)
			case 3:
				e = append([]byte{opPushData2}, sigopPayload(t, l+".pl", rapid.IntRange(0, 1).Draw(t, l+".have"))...)
			case 4:
				e = append([]byte{opPushData2, 0x05, 0x00}, sigopPayload(t, l+".pl", rapid.IntRange(0, 4).Draw(t, l+".have"))...)
			case 5:
				e = append([]byte{opPushData4}, sigopPayload(t, l+".pl", rapid.IntRange(0, 3).Draw(t, l+".have"))...)
			default:
				hi := rapid.SampledFrom([][]byte{{0xff, 0xff, 0xff, 0xff}, {0x00, 0x00, 0x00, 0x80}, {0x05, 0x00, 0x00, 0x00}, {0xff, 0xff, 0xff, 0x7f}}).Draw(t, l+".len4")
				e = append(append([]byte{opPushData4}, hi...), sigopPayload(t, l+".pl", rapid.IntRange(0, 4).Draw(t, l+".have"))...)
			}
			s = append(s, e...)
			f.truncated = true
			// Elements appended after this one become payload or garbage; that
			// is intended (the reference parses the final bytes itself).
			prev = 0x01
		default: // raw soup
			raw := rapid.SliceOfN(rapid.SampledFrom([]byte{0xac, 0xae, 0xaf, 0x51, 0x60, 0x01, 0x02, 0x4c, 0x4d, 0x4e, 0x00, 0x76, 0xa9, 0x87, 0x88}), 1, 6).Draw(t, l+".raw")
			s = append(s, raw...)
			prev = 0x61 // unknown; flags only
			for _, b := range raw {
				if b >= 0xac && b <= 0xaf {
					f.sigop = true
				}
			}
		}
	}
	return s, analyzeScript(s)
}

// analyzeScript derives the structural features from the final bytes with the
// reference instruction reader (the element plan above is only a recipe: a
// truncated push swallows what follows it).
func analyzeScript(s []byte) scriptFeat {
	var f scriptFeat
	prev := -1
	for pc := 0; pc < len(s); {
		op, data, next, ok := refGetOp(s, pc)
		if !ok {
			f.truncated = true
			break
		}
		pc = next
		switch op {
		case opCheckSig, opCheckSigVerify:
			f.sigop = true
		case opCheckMultiSig, opCheckMultiSigVerify:
			f.sigop, f.multisig = true, true
			switch {
			case prev < 0:
				f.msFirst = true
			case prev >= op1 && prev <= op16:
				f.msAfterSmallInt = true
			default:
				f.msAfterOther = true
			}
		}
		if op >= opPushData1 && op <= opPushData4 {
			f.pushdata = true
		}
		for _, b := range data {
			if b >= opCheckSig && b <= opCheckMultiSigVerify {
				f.hiddenInPush = true
			}
		}
		prev = int(op)
	}
	return f
}

func p2shScript(redeem []byte) []byte {
	// HASH160 of the redeem script is irrelevant for counting: use filler
	return append(append([]byte{opHash160, 0x14}, pattern(20, uint32(len(redeem))+17)...), opEqual)
}

// genP2SHLike draws a genuine P2SH scriptPubKey or a near miss.
func genP2SHLike(t *rapid.T, label string) []byte {
	s := p2shScript(nil)
	switch rapid.IntRange(0, 9).Draw(t, label+".p2shVariant") {
	case 0:
		s = s[:22] // too short
	case 1:
		s = append(s, opEqual) // 24 bytes
	case 2:
		s[0] = 0xa6 // RIPEMD160 instead of HASH160
	case 3:
		s[22] = 0x88 // EQUALVERIFY
	case 4:
		s[1] = 0x13
	case 5: // 23 bytes P2SH-shaped but with PUSHDATA1 length form
		s = append(append([]byte{opHash160, opPushData1, 0x13}, pattern(19, 3)...), opEqual)
	}
	return s
}

// genWitnessProgram draws a witness program script or a near miss.
func genWitnessProgram(t *rapid.T, label string) []byte {
	ver := rapid.SampledFrom([]byte{0x00, 0x00, 0x00, 0x51, 0x52, 0x60, 0x4f, 0x61, 0x50}).Draw(t, label+".ver")
	n := rapid.SampledFrom([]int{20, 20, 32, 32, 32, 1, 2, 3, 19, 21, 31, 33, 40, 41}).Draw(t, label+".len")
	s := append([]byte{ver, byte(n)}, pattern(n, uint32(n))...)
	switch rapid.IntRange(0, 11).Draw(t, label+".mut") {
	case 0:
		s = append(s, 0x00) // trailing byte
	case 1:
		s[1]++ // length byte disagrees
	case 2:
		s = append([]byte{ver, opPushData1, byte(n)}, pattern(n, 5)...)
	}
	return s
}

// genSigScriptFor draws a scriptSig that ends in a push of `last` (or
// something that spoils push-only-ness).
func genSigScriptFor(t *rapid.T, label string, last []byte) (sig []byte, variant string) {
	variant = rapid.SampledFrom([]string{"pushonly", "pushonly", "pushonly", "nonpush-before", "nonpush-after", "smallint-after", "truncated", "empty", "bare", "reserved-before", "pushdata-form"}).Draw(t, label+".sigVariant")
	var pre []byte
	nPre := rapid.IntRange(0, 2).Draw(t, label+".nPre")
	for i := 0; i < nPre; i++ {
		switch rapid.IntRange(0, 2).Draw(t, fmt.Sprintf("%s.pre%d", label, i)) {
		case 0:
			pre = append(pre, 0x00)
		case 1:
			pre = append(pre, encPush(sigopPayload(t, fmt.Sprintf("%s.pre%d.pl", label, i), rapid.IntRange(1, 72).Draw(t, fmt.Sprintf("%s.pre%d.n", label, i))), 0)...)
		default:
			pre = append(pre, byte(op1-1+rapid.IntRange(1, 16).Draw(t, fmt.Sprintf("%s.pre%d.k", label, i))))
		}
	}
	switch variant {
	case "pushonly":
		sig = append(pre, encPush(last, 0)...)
	case "pushdata-form":
		sig = append(pre, encPush(last, rapid.SampledFrom([]int{1, 2, 4}).Draw(t, label+".form"))...)
	case "nonpush-before":
		op := rapid.SampledFrom([]byte{0x61, 0x76, 0xac, 0xae, 0xff, 0x87}).Draw(t, label+".op")
		sig = append(append(pre, op), encPush(last, 0)...)
	case "reserved-before": // OP_RESERVED (0x50) counts as a push for push-only purposes
		sig = append(append(pre, 0x50), encPush(last, 0)...)
	case "nonpush-after":
		op := rapid.SampledFrom([]byte{0x61, 0x76, 0xac, 0xae, 0xff}).Draw(t, label+".op")
		sig = append(append(pre, encPush(last, 0)...), op)
	case "smallint-after": // the last pushed item is then the small int: empty data
		sig = append(append(pre, encPush(last, 0)...), rapid.SampledFrom([]byte{0x00, 0x4f, 0x50, 0x51, 0x60}).Draw(t, label+".op"))
	case "truncated":
		e := encPush(last, 0)
		cut := rapid.IntRange(0, len(e)-1).Draw(t, label+".cut")
		sig = append(pre, e[:cut]...)
		if rapid.Bool().Draw(t, label+".truncAfterGood") {
			sig = append(append(pre, encPush(last, 0)...), 0x05, 0x01)
		}
	case "empty":
		sig = nil
	case "bare": // the redeem script's bytes directly, not pushed
		sig = append(pre, last...)
	}
	return sig, variant
}

// ---------------------------------------------------------------------------
// script-level counting

var recSigScript = ev.New("C13", "sigops-script",
	"scripts built from elements: CHECKSIG/VERIFY, CHECKMULTISIG/VERIFY preceded by OP_1..OP_16 / OP_0 / OP_1NEGATE / OP_RESERVED / a push of a small number / "+
		"a push whose last payload byte is OP_n / nothing, any opcode 0x4f..0xff, pushes in every form (direct 0x01..0x4b, PUSHDATA1/2/4) whose payload consists of "+
		"sigop and push opcodes, truncated pushes of every form (missing length bytes, short payload, 4-byte lengths up to 0xffffffff), raw byte soup; "+
		"P2SH scriptPubKeys and near misses with scriptSigs that are push-only / contain a non-push opcode before or after the redeem push / end in a small int / are truncated / empty / bare; "+
		"witness programs (v0 20/32, other lengths 1..41, v1..v16, OP_1NEGATE/OP_RESERVED/OP_NOP as version, trailing bytes, PUSHDATA form) bare and nested in P2SH with 0..3 witness items; "+
		"oracle = Core GetSigOpCount(fAccurate) / GetSigOpCount(scriptSig) / CountWitnessSigOps re-implemented with an own instruction reader; "+
		"non-trivial = multisig present, or sigop bytes inside push payload, or a truncated push, or P2SH/witness path taken; distinct by (scriptSig, scriptPubKey, witness)",
	"plain", "multisig-after-smallint", "multisig-after-other", "multisig-first", "hidden-in-push", "truncated", "pushdata",
	"p2sh-pushonly", "p2sh-nonpush", "p2sh-nearmiss", "wit-v0-keyhash", "wit-v0-scripthash", "wit-v1+", "wit-nested", "wit-not-a-program")

func TestSigOpScripts(t *testing.T) {
	rapid.Check(t, func(t *rapid.T) {
		mode := rapid.SampledFrom([]string{"plain", "plain", "p2sh", "p2sh", "witness", "witness"}).Draw(t, "mode")
		switch mode {
		case "plain":
			s, f := genScript(t, "s", 8)
			class := "plain"
			switch {
			case f.truncated:
				class = "truncated"
			case f.msAfterSmallInt:
				class = "multisig-after-smallint"
			case f.msFirst:
				class = "multisig-first"
			case f.msAfterOther:
				class = "multisig-after-other"
			case f.hiddenInPush:
				class = "hidden-in-push"
			}
			if f.pushdata {
				recSigScript.Count("pushdata", 1)
			}
			recSigScript.Case(f.nontrivial(), class, ev.Hash(s), func() any {
				return fmt.Sprintf("script=%s inaccurate=%d accurate=%d", hx(s), refSigOpCount(s, false), refSigOpCount(s, true))
			})
			orig := append([]byte(nil), s...)
			if got, want := txscript.GetSigOpCount(s), refSigOpCount(s, false); got != want {
				t.Fatalf("GetSigOpCount(%x) = %d, Core GetSigOpCount(false) = %d", s, got, want)
			}
			// a non-P2SH scriptPubKey is counted accurately whatever the scriptSig is
			sig, _ := genScript(t, "sig", 3)
			if !refIsP2SH(s) {
				if got, want := txscript.GetPreciseSigOpCount(sig, s, rapid.Bool().Draw(t, "bip16arg")), refSigOpCount(s, true); got != want {
					t.Fatalf("GetPreciseSigOpCount(sig=%x, pk=%x) = %d, Core GetSigOpCount(true) = %d", sig, s, got, want)
				}
			}
			if !bytes.Equal(orig, s) {
				t.Fatalf("script modified by counting")
			}

		case "p2sh":
			redeem, f := genScript(t, "redeem", 6)
			pk := genP2SHLike(t, "pk")
			sig, variant := genSigScriptFor(t, "sig", redeem)
			class := "p2sh-nonpush"
			switch {
			case !refIsP2SH(pk):
				class = "p2sh-nearmiss"
			case refIsPushOnly(sig) && len(sig) > 0:
				class = "p2sh-pushonly"
			}
			_ = f
			recSigScript.Case(true, class, ev.Hash(sig, pk), func() any {
				return fmt.Sprintf("variant=%s scriptSig=%s scriptPubKey=%s count=%d", variant, hx(sig), hx(pk), refP2SHSigOps(sig, pk))
			})
			if got, want := txscript.GetPreciseSigOpCount(sig, pk, true), refP2SHSigOps(sig, pk); got != want {
				t.Fatalf("GetPreciseSigOpCount(scriptSig=%x, scriptPubKey=%x) = %d, Core scriptPubKey.GetSigOpCount(scriptSig) = %d (variant %s, redeem %x)",
					sig, pk, got, want, variant, redeem)
			}
			if got, want := txscript.GetSigOpCount(sig), refSigOpCount(sig, false); got != want {
				t.Fatalf("GetSigOpCount(%x) = %d, Core = %d", sig, got, want)
			}

		default:
			wscript, _ := genScript(t, "wscript", 6)
			prog := genWitnessProgram(t, "prog")
			nested := rapid.Bool().Draw(t, "nested")
			var witness wire.TxWitness
			nItems := rapid.IntRange(0, 3).Draw(t, "nItems")
			for i := 0; i < nItems; i++ {
				if i == nItems-1 {
					witness = append(witness, wscript)
				} else {
					witness = append(witness, sigopPayload(t, fmt.Sprintf("wit%d", i), rapid.IntRange(0, 5).Draw(t, fmt.Sprintf("wit%d.n", i))))
				}
			}
			var sig, pk []byte
			variant := "bare"
			if nested {
				pk = genP2SHLike(t, "pk")
				sig, variant = genSigScriptFor(t, "sig", prog)
			} else {
				pk = prog
				if rapid.IntRange(0, 3).Draw(t, "sigForBare") == 0 {
					sig, _ = genScript(t, "sig", 2) // must be ignored for a bare program
				}
			}
			class := "wit-not-a-program"
			if v, p, ok := refIsWitnessProgram(prog); ok {
				switch {
				case nested && !(refIsP2SH(pk) && refIsPushOnly(sig)):
					class = "p2sh-nonpush"
				case nested:
					class = "wit-nested"
				case v == 0 && len(p) == 20:
					class = "wit-v0-keyhash"
				case v == 0 && len(p) == 32:
					class = "wit-v0-scripthash"
				case v >= 1:
					class = "wit-v1+"
				default:
					class = "wit-not-a-program" // v0 with another length: a program, but no sigops
				}
			}
			var wbytes [][]byte
			wbytes = append(wbytes, sig, pk)
			wbytes = append(wbytes, witness...)
			recSigScript.Case(true, class, ev.Hash(wbytes...), func() any {
				return fmt.Sprintf("variant=%s scriptSig=%s scriptPubKey=%s witness=%x count=%d", variant, hx(sig), hx(pk), [][]byte(witness), refWitnessSigOps(sig, pk, witness))
			})
			if got, want := txscript.GetWitnessSigOpCount(sig, pk, witness), refWitnessSigOps(sig, pk, witness); got != want {
				t.Fatalf("GetWitnessSigOpCount(scriptSig=%x, scriptPubKey=%x, witness=%x) = %d, Core CountWitnessSigOps = %d (variant %s)",
					sig, pk, [][]byte(witness), got, want, variant)
			}
		}
	})
}

// ---------------------------------------------------------------------------
// transaction-level cost

var recSigCost = ev.New("C13", "sigop-cost",
	"transactions with 1..4 inputs, each spending a generated previous scriptPubKey (script soup, P2SH over a generated redeem script with a generated scriptSig variant, "+
		"P2WPKH, P2WSH, other witness versions, P2SH-nested programs) through a UtxoViewpoint holding exactly those outputs, 0..3 generated output scripts, and coinbases; "+
		"flags (bip16, segwit) in {(0,0),(1,0),(1,1)}; oracle = Core GetLegacySigOpCount / GetP2SHSigOpCount / GetTransactionSigOpCost (4*legacy + 4*P2SH + witness) on the own counters; "+
		"non-trivial = at least two of the three components are non-zero, or a P2SH/witness input is present; distinct by (tx, spent scripts, flags)",
	"legacy-only", "with-p2sh", "with-witness", "p2sh+witness", "coinbase", "flags-off")

func TestSigOpCost(t *testing.T) {
	rapid.Check(t, func(t *rapid.T) {
		isCoinbase := rapid.IntRange(0, 7).Draw(t, "coinbase") == 0
		tx := wire.NewMsgTx(2)
		var prev [][]byte
		view := blockchain.NewUtxoViewpoint()
		hasP2SH, hasWit := false, false
		if isCoinbase {
			sig, _ := genScript(t, "cbsig", 4)
			tx = makeCoinbase(sig, nil, nil)
			if rapid.Bool().Draw(t, "cbWitness") {
				tx.TxIn[0].Witness = wire.TxWitness{pattern(32, 1)}
			}
			prev = [][]byte{nil}
		} else {
			nIn := rapid.IntRange(1, 4).Draw(t, "nIn")
			seed := rapid.Uint32().Draw(t, "seed")
			for i := 0; i < nIn; i++ {
				l := fmt.Sprintf("in%d", i)
				var sig, pk []byte
				var wit wire.TxWitness
				switch rapid.SampledFrom([]string{"soup", "p2sh", "p2sh", "wit", "wit", "nested"}).Draw(t, l+".kind") {
				case "soup":
					pk, _ = genScript(t, l+".pk", 5)
					sig, _ = genScript(t, l+".sig", 3)
				case "p2sh":
					redeem, _ := genScript(t, l+".redeem", 5)
					pk = genP2SHLike(t, l+".pk")
					sig, _ = genSigScriptFor(t, l+".sig", redeem)
				case "wit":
					pk = genWitnessProgram(t, l+".prog")
					ws, _ := genScript(t, l+".ws", 5)
					for j, n := 0, rapid.IntRange(0, 2).Draw(t, l+".nItems"); j < n; j++ {
						wit = append(wit, pattern(j*3, seed))
					}
					if rapid.IntRange(0, 4).Draw(t, l+".noWitnessScript") != 0 {
						wit = append(wit, ws)
					}
				default:
					prog := genWitnessProgram(t, l+".prog")
					pk = genP2SHLike(t, l+".pk")
					sig, _ = genSigScriptFor(t, l+".sig", prog)
					ws, _ := genScript(t, l+".ws", 5)
					wit = wire.TxWitness{pattern(3, seed), ws}
				}
				h := idHash(uint64(seed)<<4 | uint64(i))
				in := wire.NewTxIn(wire.NewOutPoint(&h, uint32(i)), sig, wit)
				tx.AddTxIn(in)
				prev = append(prev, pk)
				view.Entries()[in.PreviousOutPoint] = blockchain.NewUtxoEntry(wire.NewTxOut(1000, pk), int32(100+i), false)
				if refIsP2SH(pk) {
					hasP2SH = true
				}
				if refWitnessSigOps(sig, pk, wit) > 0 {
					hasWit = true
				}
			}
		}
		nOut := rapid.IntRange(0, 3).Draw(t, "nOut")
		for i := 0; i < nOut; i++ {
			pk, _ := genScript(t, fmt.Sprintf("out%d", i), 5)
			tx.AddTxOut(wire.NewTxOut(int64(i), pk))
		}
		flags := rapid.SampledFrom([][2]bool{{false, false}, {true, false}, {true, true}, {true, true}}).Draw(t, "flags")
		bip16, segwit := flags[0], flags[1]

		wantLegacy := refLegacySigOps(tx)
		wantP2SH := refP2SHTotal(tx, prev)
		wantCost := refSigOpCost(tx, prev, bip16, segwit)
		class := "legacy-only"
		switch {
		case isCoinbase:
			class = "coinbase"
		case !bip16:
			class = "flags-off"
		case hasP2SH && hasWit:
			class = "p2sh+witness"
		case hasP2SH:
			class = "with-p2sh"
		case hasWit:
			class = "with-witness"
		}
		parts := [][]byte{refSerializeTx(tx, true), {b2b(bip16), b2b(segwit)}}
		parts = append(parts, prev...)
		recSigCost.Case(hasP2SH || hasWit, class, ev.Hash(parts...), func() any {
			return fmt.Sprintf("tx=%s prev=%x bip16=%v segwit=%v legacy=%d p2sh=%d cost=%d", hx(parts[0]), prev, bip16, segwit, wantLegacy, wantP2SH, wantCost)
		})

		utx := btcutil.NewTx(tx)
		if got := blockchain.CountSigOps(utx); got != wantLegacy {
			t.Fatalf("CountSigOps = %d, Core GetLegacySigOpCount = %d; tx %s", got, wantLegacy, describeTx(tx))
		}
		gotP2SH, err := blockchain.CountP2SHSigOps(utx, isCoinbase, view)
		if err != nil {
			t.Fatalf("CountP2SHSigOps failed on a complete view: %v", err)
		}
		if gotP2SH != wantP2SH {
			t.Fatalf("CountP2SHSigOps = %d, Core GetP2SHSigOpCount = %d; tx %s spent scripts %x", gotP2SH, wantP2SH, describeTx(tx), prev)
		}
		gotCost, err := blockchain.GetSigOpCost(utx, isCoinbase, view, bip16, segwit)
		if err != nil {
			t.Fatalf("GetSigOpCost failed on a complete view: %v", err)
		}
		if gotCost != wantCost {
			t.Fatalf("GetSigOpCost(bip16=%v, segwit=%v) = %d, Core GetTransactionSigOpCost = %d (legacy %d, p2sh %d); tx %s spent scripts %x",
				bip16, segwit, gotCost, wantCost, wantLegacy, wantP2SH, describeTx(tx), prev)
		}
	})
}
