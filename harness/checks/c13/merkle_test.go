package c13

import (
	"bytes"
	"fmt"
	"testing"
	"time"

	"github.com/btcsuite/btcd/blockchain"
	"github.com/btcsuite/btcd/btcutil/v2"
	"github.com/btcsuite/btcd/chainhash/v2"
	"github.com/btcsuite/btcd/wire/v2"
	"pgregory.net/rapid"

	"verif/internal/ev"
)

// ---------------------------------------------------------------------------
// merkle roots and tree store

var recMerkle = ev.New("C13", "merkle",
	"tx lists of length 0..131 (mixture: 0..4, 2^k-1/2^k/2^k+1, uniform; one case in 30 has 255..4608 entries next to powers of two and multiples of 512) with or without a coinbase in front, witness data on some, "+
		"optionally a duplicated tail (last k entries repeat the k before them); oracle = recursive merkle root with the duplicate-last rule over "+
		"txid / wtxid leaves (coinbase position = 32 zero bytes) computed with an own serialiser; CalcMerkleRoot, every slot of BuildMerkleTreeStore "+
		"(incl. nil padding, root = last slot) and both construction paths against each other; non-trivial = some level has an odd node count, "+
		"or a duplicated tail, or the empty list; distinct by (leaf serialisations, form order)",
	"empty", "single", "pow2", "odd-level", "dup-tail", "with-witness")

// bigTxCounts: around powers of two and multiples of 512 (tree algorithms that
// work on the bits of the leaf count)
var bigTxCounts = []int{255, 256, 257, 511, 512, 513, 1023, 1024, 1025, 1535, 1536, 1537, 2047, 2048, 2049, 2559, 2560, 3071, 3072, 3073, 4095, 4096, 4607, 4608}

func genTxCount() *rapid.Generator[int] {
	return rapid.Custom(func(t *rapid.T) int {
		if rapid.IntRange(0, 29).Draw(t, "bigList") == 0 {
			return rapid.SampledFrom(bigTxCounts).Draw(t, "bigN")
		}
		return genSmallTxCount().Draw(t, "smallN")
	})
}

func genSmallTxCount() *rapid.Generator[int] {
	return rapid.OneOf(
		rapid.IntRange(0, 4),
		rapid.SampledFrom([]int{5, 6, 7, 8, 9, 10, 11, 12, 13, 15, 16, 17, 24, 31, 32, 33, 48, 63, 64, 65, 96, 127, 128, 129, 130, 131}),
		rapid.IntRange(0, 131),
		rapid.IntRange(0, 20),
	)
}

func hasOddLevel(n int) bool {
	for n > 1 {
		if n%2 == 1 {
			return true
		}
		n = (n + 1) / 2
	}
	return false
}

func eqHash(got *chainhash.Hash, want *hash32) bool {
	if got == nil || want == nil {
		return got == nil && want == nil
	}
	return [32]byte(*got) == *want
}

func TestMerkle(t *testing.T) {
	rapid.Check(t, func(t *rapid.T) {
		n := genTxCount().Draw(t, "n")
		withCoinbase := rapid.IntRange(0, 3).Draw(t, "coinbaseFirst") != 0
		witMode := rapid.IntRange(0, 2).Draw(t, "witnessMode") // 0 none, 1 some, 2 all
		txs := make([]*wire.MsgTx, 0, n)
		for i := 0; i < n; i++ {
			if i == 0 && withCoinbase {
				var wit [][]byte
				if witMode > 0 {
					wit = [][]byte{pattern(32, 7)}
				}
				txs = append(txs, makeCoinbase(pattern(rapid.IntRange(2, 8).Draw(t, "cbScriptLen"), uint32(n)), []*wire.TxOut{wire.NewTxOut(50, []byte{0x51})}, wit))
				continue
			}
			txs = append(txs, genSmallTx(t, fmt.Sprintf("tx%d", i), witMode))
		}
		dup := 0
		if n >= 2 && rapid.IntRange(0, 3).Draw(t, "dupTail") == 0 {
			// duplicate a tail: the last k entries repeat the k entries before them
			maxK := n / 2
			dup = rapid.IntRange(1, maxK).Draw(t, "dupLen")
			alias := rapid.Bool().Draw(t, "dupAlias")
			for i := 0; i < dup; i++ {
				src := txs[n-2*dup+i]
				if alias {
					txs[n-dup+i] = src
				} else {
					txs[n-dup+i] = src.Copy()
				}
			}
		}
		witnessFirst := rapid.Bool().Draw(t, "witnessFormFirst")

		class, nt := "pow2", false
		switch {
		case n == 0:
			class, nt = "empty", true
		case n == 1:
			class, nt = "single", false
		case dup > 0:
			class, nt = "dup-tail", true
		case hasOddLevel(n):
			class, nt = "odd-level", true
		}
		anyWit := false
		parts := make([][]byte, 0, n+1)
		for _, tx := range txs {
			parts = append(parts, refSerializeTx(tx, true))
			anyWit = anyWit || refHasWitness(tx)
		}
		parts = append(parts, []byte{byte(witMode), b2b(witnessFirst), b2b(withCoinbase)})
		recMerkle.Case(nt, class, ev.Hash(parts...), func() any {
			return fmt.Sprintf("n=%d coinbaseFirst=%v witnessMode=%d dupTail=%d", n, withCoinbase, witMode, dup)
		})
		if anyWit {
			recMerkle.Count("with-witness", 1)
		}

		utxs := wrapTxs(txs)
		forms := []bool{false, true}
		if witnessFirst {
			forms = []bool{true, false}
		}

		if n == 0 {
			// The quantifier includes the empty list; by definition its root is
			// the all-zero hash (Core: ComputeMerkleRoot({}) == uint256()).
			var msgs []string
			for _, w := range forms {
				var got chainhash.Hash
				if p := catch(func() { got = blockchain.CalcMerkleRoot(utxs, w) }); p != nil {
					msgs = append(msgs, fmt.Sprintf("CalcMerkleRoot([], witness=%v) panics: %v", w, p))
				} else if got != (chainhash.Hash{}) {
					t.Fatalf("CalcMerkleRoot([], witness=%v) = %v, definition: zero hash", w, got)
				}
				var store []*chainhash.Hash
				if p := catch(func() { store = blockchain.BuildMerkleTreeStore(utxs, w) }); p != nil {
					msgs = append(msgs, fmt.Sprintf("BuildMerkleTreeStore([], witness=%v) panics: %v", w, p))
				} else if len(store) > 0 && (store[len(store)-1] == nil || *store[len(store)-1] != (chainhash.Hash{})) {
					t.Fatalf("BuildMerkleTreeStore([], witness=%v) root slot = %v, definition: zero hash", w, store[len(store)-1])
				}
			}
			if len(msgs) > 0 {
				if recMerkle.Known("merkle-empty-list-panics", fmt.Sprint(msgs)) {
					recMerkle.Excluded()
					return
				}
				t.Fatalf("empty transaction list (in the property's domain: lists of 0..N transactions): %v; defined result: zero hash", msgs)
			}
			return
		}

		for _, w := range forms {
			leaves := refLeaves(txs, w)
			want := refMerkleRootRec(leaves)
			got := blockchain.CalcMerkleRoot(utxs, w)
			if [32]byte(got) != want {
				t.Fatalf("CalcMerkleRoot(n=%d, witness=%v) = %x, definition %x", n, w, got[:], want[:])
			}
			store := blockchain.BuildMerkleTreeStore(utxs, w)
			wantStore := refTreeStore(leaves)
			if len(store) != len(wantStore) {
				t.Fatalf("BuildMerkleTreeStore(n=%d, witness=%v) has %d slots, documented layout has %d", n, w, len(store), len(wantStore))
			}
			for i := range store {
				if !eqHash(store[i], wantStore[i]) {
					t.Fatalf("BuildMerkleTreeStore(n=%d, witness=%v) slot %d = %v, definition %v", n, w, i, store[i], fmtH(wantStore[i]))
				}
			}
			if last := store[len(store)-1]; last == nil || *last != got {
				t.Fatalf("construction paths disagree for n=%d witness=%v: tree store root %v, CalcMerkleRoot %v", n, w, last, got)
			}
		}
		// the inputs must not have been modified
		for i, tx := range txs {
			if !bytes.Equal(refSerializeTx(tx, true), parts[i]) {
				t.Fatalf("transaction %d was modified by the merkle functions", i)
			}
		}
	})
}

func b2b(b bool) byte {
	if b {
		return 1
	}
	return 0
}

func fmtH(h *hash32) string {
	if h == nil {
		return "<nil>"
	}
	return chainhash.Hash(*h).String()
}

var recBranch = ev.New("C13", "merkle-branch",
	"pairs of 32-byte nodes (random, equal, aliased, zero); oracle = dSHA256(left||right) with crypto/sha256; non-trivial = always (each pair is a distinct hash input)",
	"distinct", "equal", "aliased")

func TestHashMerkleBranches(t *testing.T) {
	rapid.Check(t, func(t *rapid.T) {
		l := chainhash.Hash(idHashBytes(rapid.Uint64().Draw(t, "l"), rapid.Byte().Draw(t, "lf")))
		r := chainhash.Hash(idHashBytes(rapid.Uint64().Draw(t, "r"), rapid.Byte().Draw(t, "rf")))
		mode := rapid.SampledFrom([]string{"distinct", "distinct", "equal", "aliased"}).Draw(t, "mode")
		lp, rp := &l, &r
		switch mode {
		case "equal":
			r = l
		case "aliased":
			rp = lp
		}
		recBranch.Case(true, mode, ev.Hash(lp[:], rp[:]), func() any { return fmt.Sprintf("%s | %s", lp, rp) })
		lc, rc := *lp, *rp
		got := blockchain.HashMerkleBranches(lp, rp)
		want := refPair([32]byte(lc), [32]byte(rc))
		if [32]byte(got) != want {
			t.Fatalf("HashMerkleBranches(%v, %v) = %v, dSHA256(l||r) = %x", lc, rc, got, want[:])
		}
		if *lp != lc || *rp != rc {
			t.Fatalf("HashMerkleBranches modified its arguments")
		}
	})
}

func idHashBytes(id uint64, fill byte) [32]byte {
	h := idHash(id)
	for i := 21; i < 31; i++ {
		h[i] = fill
	}
	if fill == 0 && id%5 == 0 {
		return [32]byte{}
	}
	return h
}

// ---------------------------------------------------------------------------
// witness commitment

var recCommit = ev.New("C13", "witness-commitment",
	"blocks of 1..9 transactions whose coinbase has 0..6 outputs, 0..3 of them commitment-looking (6a24aa21a9ed + payload, total length 37/38/39..60) "+
		"at any position, near-miss headers, payload = correct commitment / wrong / correct for another nonce; coinbase witness = none, one item of 31/32/33 bytes, "+
		"two items, one empty item; other transactions with or without witness data; oracle = BIP141 rule (last matching output, nonce size, "+
		"dSHA256(witness root||nonce), no witness data without commitment) with own wtxid/merkle code, verdict and reject reason compared, plus "+
		"ExtractWitnessCommitment = bytes 6..38 of the last matching output; non-trivial = at least one commitment-looking or near-miss output, or witness data present; "+
		"distinct by block serialisation",
	"no-commitment", ">=2-candidates", "len37", "len38", "len39+", "near-miss", "ok", "unexpected-witness", "bad-nonce", "mismatch", "last-correct-first-wrong", "first-correct-last-wrong", "non-coinbase")

type cbOutPlan struct {
	kind    string // plain, commit, nearmiss
	length  int    // total script length for commit
	payload string // correct, wrong, othernonce
}

func TestWitnessCommitment(t *testing.T) {
	rapid.Check(t, func(t *rapid.T) {
		// other transactions
		nOther := rapid.IntRange(0, 8).Draw(t, "nOther")
		witMode := rapid.IntRange(0, 2).Draw(t, "witnessMode")
		others := make([]*wire.MsgTx, nOther)
		for i := range others {
			others[i] = genSmallTx(t, fmt.Sprintf("tx%d", i), witMode)
		}
		// coinbase witness layout
		nonceKind := rapid.SampledFrom([]string{"32", "32", "32", "none", "31", "33", "two", "empty", "0"}).Draw(t, "nonceKind")
		nonceSeed := rapid.Uint32().Draw(t, "nonceSeed")
		var cbWit [][]byte
		switch nonceKind {
		case "32":
			cbWit = [][]byte{pattern(32, nonceSeed)}
		case "0":
			cbWit = [][]byte{make([]byte, 32)}
		case "31":
			cbWit = [][]byte{pattern(31, nonceSeed)}
		case "33":
			cbWit = [][]byte{pattern(33, nonceSeed)}
		case "two":
			cbWit = [][]byte{pattern(32, nonceSeed), pattern(32, nonceSeed+1)}
		case "empty":
			cbWit = [][]byte{{}}
		}
		// output plans
		nOut := rapid.IntRange(0, 6).Draw(t, "nOut")
		plans := make([]cbOutPlan, nOut)
		nCommit := 0
		for i := range plans {
			k := rapid.SampledFrom([]string{"plain", "plain", "commit", "commit", "nearmiss"}).Draw(t, fmt.Sprintf("out%d.kind", i))
			if k == "commit" && nCommit >= 3 {
				k = "plain"
			}
			p := cbOutPlan{kind: k}
			if k == "commit" || k == "nearmiss" {
				p.length = rapid.SampledFrom([]int{37, 38, 38, 38, 39, 40, 60}).Draw(t, fmt.Sprintf("out%d.len", i))
				p.payload = rapid.SampledFrom([]string{"correct", "correct", "wrong", "othernonce"}).Draw(t, fmt.Sprintf("out%d.payload", i))
			}
			if k == "commit" {
				nCommit++
			}
			plans[i] = p
		}
		asCoinbase := rapid.IntRange(0, 9).Draw(t, "asCoinbase") != 0

		// The commitment value does not depend on the coinbase itself (its
		// wtxid leaf is zero), so it can be computed before the coinbase exists.
		placeholder := makeCoinbase([]byte{1, 1}, nil, nil)
		all := append([]*wire.MsgTx{placeholder}, others...)
		nonce := make([]byte, 32)
		if len(cbWit) >= 1 {
			copy(nonce, cbWit[0])
		}
		correct := refCommitmentValue(all, nonce)
		otherNonce := refCommitmentValue(all, pattern(32, nonceSeed+99))

		outs := make([]*wire.TxOut, nOut)
		classes := map[string]bool{}
		for i, p := range plans {
			var script []byte
			switch p.kind {
			case "plain":
				script = pattern(rapid.IntRange(0, 45).Draw(t, fmt.Sprintf("out%d.plainLen", i)), uint32(i)+nonceSeed)
				if len(script) >= 6 && bytes.Equal(script[:6], refCommitHeader) {
					script[0] ^= 1
				}
			default:
				script = append([]byte{}, refCommitHeader...)
				switch p.payload {
				case "correct":
					script = append(script, correct[:]...)
				case "othernonce":
					script = append(script, otherNonce[:]...)
				default:
					w := correct
					w[rapid.IntRange(0, 31).Draw(t, fmt.Sprintf("out%d.flip", i))] ^= 1 << uint(rapid.IntRange(0, 7).Draw(t, fmt.Sprintf("out%d.bit", i)))
					script = append(script, w[:]...)
				}
				script = append(script, pattern(30, uint32(i))...)
				script = script[:p.length]
				if p.kind == "nearmiss" {
					pos := rapid.IntRange(0, 5).Draw(t, fmt.Sprintf("out%d.missPos", i))
					script[pos] ^= byte(1 << uint(rapid.IntRange(0, 7).Draw(t, fmt.Sprintf("out%d.missBit", i))))
					classes["near-miss"] = true
				} else {
					switch {
					case p.length == 37:
						classes["len37"] = true
					case p.length == 38:
						classes["len38"] = true
					default:
						classes["len39+"] = true
					}
				}
			}
			outs[i] = wire.NewTxOut(int64(i), script)
		}
		cb := makeCoinbase(pattern(4, nonceSeed), outs, cbWit)
		if !asCoinbase {
			// a first transaction that is not a coinbase: BIP141 places the
			// commitment in the coinbase only
			cb.TxIn[0].PreviousOutPoint.Index = rapid.SampledFrom([]uint32{0, 0xfffffffe}).Draw(t, "nonCbIndex")
		}
		txs := append([]*wire.MsgTx{cb}, others...)

		// reference
		pos := refCommitmentIndex(cb)
		candidates := 0
		firstPos := -1
		for i, o := range cb.TxOut {
			if len(o.PkScript) >= 38 && bytes.Equal(o.PkScript[:6], refCommitHeader) {
				candidates++
				if firstPos < 0 {
					firstPos = i
				}
			}
		}
		anyWit := false
		for _, tx := range txs {
			anyWit = anyWit || refHasWitness(tx)
		}
		class := "no-commitment"
		if !asCoinbase {
			class = "non-coinbase"
		} else if pos >= 0 {
			class = refValidateCommitment(txs).String()
			if class == "bad-witness-nonce-size" {
				class = "bad-nonce"
			} else if class == "bad-witness-merkle-match" {
				class = "mismatch"
			}
		} else if anyWit {
			class = "unexpected-witness"
		}
		nt := len(classes) > 0 || anyWit || candidates > 0
		var blkBytes [][]byte
		for _, tx := range txs {
			blkBytes = append(blkBytes, refSerializeTx(tx, true))
		}
		recCommit.Case(nt, class, ev.Hash(blkBytes...), func() any {
			return fmt.Sprintf("coinbase=%s others=%d witnessMode=%d plans=%+v", hx(refSerializeTx(cb, true)), nOther, witMode, plans)
		})
		for c := range classes {
			recCommit.Count(c, 1)
		}
		if candidates >= 2 {
			recCommit.Count(">=2-candidates", 1)
			if asCoinbase && len(cbWit) == 1 && len(cbWit[0]) == 32 {
				fc := bytes.Equal(cb.TxOut[firstPos].PkScript[6:38], correct[:])
				lc := bytes.Equal(cb.TxOut[pos].PkScript[6:38], correct[:])
				if lc && !fc {
					recCommit.Count("last-correct-first-wrong", 1)
				}
				if fc && !lc {
					recCommit.Count("first-correct-last-wrong", 1)
				}
			}
		}

		// ExtractWitnessCommitment
		ucb := btcutil.NewTx(cb)
		gotC, gotFound := blockchain.ExtractWitnessCommitment(ucb)
		wantFound := asCoinbase && pos >= 0
		if gotFound != wantFound {
			t.Fatalf("ExtractWitnessCommitment found=%v, definition found=%v (last matching output %d, coinbase=%v); coinbase %s",
				gotFound, wantFound, pos, asCoinbase, describeTx(cb))
		}
		if wantFound && !bytes.Equal(gotC, cb.TxOut[pos].PkScript[6:38]) {
			t.Fatalf("ExtractWitnessCommitment = %x, definition: bytes 6..38 of output %d = %x; coinbase %s",
				gotC, pos, cb.TxOut[pos].PkScript[6:38], describeTx(cb))
		}
		if !asCoinbase {
			return // ValidateWitnessCommitment is specified for blocks that start with a coinbase
		}

		// ValidateWitnessCommitment
		blk := btcutil.NewBlock(&wire.MsgBlock{
			Header:       wire.BlockHeader{Version: 0x20000000, Timestamp: time.Unix(1500000000, 0), Bits: 0x207fffff},
			Transactions: txs,
		})
		want := refValidateCommitment(txs)
		err := blockchain.ValidateWitnessCommitment(blk)
		got := cvOK
		if err != nil {
			code, ok := ruleCode(err)
			if !ok {
				t.Fatalf("ValidateWitnessCommitment returned a non-rule error %v", err)
			}
			switch code {
			case blockchain.ErrUnexpectedWitness:
				got = cvUnexpectedWitness
			case blockchain.ErrInvalidWitnessCommitment:
				got = cvBadNonce
			case blockchain.ErrWitnessCommitmentMismatch:
				got = cvMismatch
			default:
				t.Fatalf("ValidateWitnessCommitment: unexpected error code %v (%v); definition verdict %v", code, err, want)
			}
		}
		if got != want {
			t.Fatalf("ValidateWitnessCommitment verdict %v (%v), BIP141 verdict %v; commitment output %d of %d candidates; coinbase %s; %d other txs",
				got, err, want, pos, candidates, describeTx(cb), nOther)
		}
	})
}

// ---------------------------------------------------------------------------
// weight

var recWeight = ev.New("C13", "weight",
	"transactions with 0..300 inputs/outputs, script and witness-item lengths and witness-item counts drawn around the CompactSize boundaries "+
		"(0, 1, 252, 253, 254, 65535, 65536) and blocks of 0..300 such transactions (252/253 boundary); oracle = 3*stripped+total with an own serialiser "+
		"(BIP141/BIP144), also for a transaction weighed through one btcutil.Tx wrapper before and after its witness is attached; non-trivial = a CompactSize boundary is crossed or witness data present; distinct by serialisation",
	"tx-plain", "tx-witness", "tx-varint-boundary", "tx-weighed-before-and-after-witness", "block", "block-253+")

func genLen(t *rapid.T, label string) int {
	return rapid.OneOf(
		rapid.IntRange(0, 40),
		rapid.SampledFrom([]int{0, 1, 75, 76, 251, 252, 253, 254, 255, 256, 520, 521}),
		rapid.SampledFrom([]int{65534, 65535, 65536, 65537}),
		rapid.IntRange(0, 600),
	).Draw(t, label)
}

func genCount(t *rapid.T, label string, min int) int {
	return rapid.OneOf(
		rapid.IntRange(min, 4),
		rapid.IntRange(min, 4),
		rapid.SampledFrom([]int{251, 252, 253, 254, 300}),
		rapid.IntRange(min, 40),
	).Draw(t, label)
}

// genSizedTx draws a transaction whose sizes sit around the varint
// boundaries. boundary reports whether any count or length is >= 253.
func genSizedTx(t *rapid.T, label string, cheap bool) (tx *wire.MsgTx, boundary bool) {
	tx = wire.NewMsgTx(rapid.Int32().Draw(t, label+".version"))
	nIn, nOut := rapid.IntRange(0, 3).Draw(t, label+".nIn"), rapid.IntRange(0, 3).Draw(t, label+".nOut")
	if !cheap {
		nIn, nOut = genCount(t, label+".nIn", 0), genCount(t, label+".nOut", 0)
	}
	bigBudget := 3 // at most a few 64 KiB fields per transaction
	lenOf := func(l string) int {
		n := genLen(t, l)
		if n > 60000 {
			if bigBudget == 0 || cheap {
				return n % 300
			}
			bigBudget--
		}
		if n >= 253 {
			boundary = true
		}
		return n
	}
	seed := rapid.Uint32().Draw(t, label+".seed")
	witnessTx := rapid.Bool().Draw(t, label+".witness")
	manyFields := nIn+nOut > 20
	for i := 0; i < nIn; i++ {
		h := idHash(uint64(seed) + uint64(i))
		sl := 0
		if !manyFields || i < 3 {
			sl = lenOf(fmt.Sprintf("%s.in%d.script", label, i))
		}
		in := wire.NewTxIn(wire.NewOutPoint(&h, uint32(i)), pattern(sl, seed), nil)
		in.Sequence = seed ^ uint32(i)
		if witnessTx && (i < 3 || i == nIn-1) && rapid.IntRange(0, 2).Draw(t, fmt.Sprintf("%s.in%d.hasWit", label, i)) != 0 {
			items := genCount(t, fmt.Sprintf("%s.in%d.items", label, i), 1)
			if cheap {
				items = items%5 + 1
			}
			for j := 0; j < items; j++ {
				il := 0
				if j < 3 {
					il = lenOf(fmt.Sprintf("%s.in%d.item%d", label, i, j))
				}
				in.Witness = append(in.Witness, pattern(il, seed+uint32(j)))
			}
			if items >= 253 {
				boundary = true
			}
		}
		tx.AddTxIn(in)
	}
	for i := 0; i < nOut; i++ {
		sl := 0
		if !manyFields || i < 3 {
			sl = lenOf(fmt.Sprintf("%s.out%d.script", label, i))
		}
		tx.AddTxOut(wire.NewTxOut(int64(seed)*int64(i+1), pattern(sl, seed+uint32(i))))
	}
	tx.LockTime = seed
	if nIn >= 253 || nOut >= 253 {
		boundary = true
	}
	return tx, boundary
}

func TestWeight(t *testing.T) {
	rapid.Check(t, func(t *rapid.T) {
		if rapid.IntRange(0, 3).Draw(t, "what") != 0 {
			tx, boundary := genSizedTx(t, "tx", false)
			class := "tx-plain"
			if refHasWitness(tx) {
				class = "tx-witness"
			}
			if boundary {
				recWeight.Count("tx-varint-boundary", 1)
			}
			ser := refSerializeTx(tx, true)
			recWeight.Case(boundary || refHasWitness(tx), class, ev.Hash(ser), func() any {
				return fmt.Sprintf("tx in=%d out=%d size=%d stripped=%d weight=%d", len(tx.TxIn), len(tx.TxOut), len(ser), len(refSerializeTx(tx, false)), refTxWeight(tx))
			})
			got := blockchain.GetTransactionWeight(btcutil.NewTx(tx))
			if want := refTxWeight(tx); got != want {
				t.Fatalf("GetTransactionWeight = %d, definition 3*%d+%d = %d; tx in=%d out=%d witness=%v",
					got, len(refSerializeTx(tx, false)), len(ser), want, len(tx.TxIn), len(tx.TxOut), refHasWitness(tx))
			}
			// the life of a transaction that is built, weighed for its fee, signed and weighed again through
			// the same wrapper (as a coinbase is before and after it gets its witness commitment): the weight
			// is that of the transaction as it is at the time of the call
			if refHasWitness(tx) && rapid.Bool().Draw(t, "sameWrapper") {
				recWeight.Count("tx-weighed-before-and-after-witness", 1)
				unsigned := tx.Copy()
				for _, ti := range unsigned.TxIn {
					ti.Witness = nil
				}
				w := btcutil.NewTx(unsigned)
				_ = w.HasWitness()
				if got, want := blockchain.GetTransactionWeight(w), refTxWeight(unsigned); got != want {
					t.Fatalf("GetTransactionWeight of the unsigned transaction = %d, definition %d", got, want)
				}
				for i, ti := range unsigned.TxIn {
					ti.Witness = tx.TxIn[i].Witness
				}
				if got, want := blockchain.GetTransactionWeight(w), refTxWeight(tx); got != want {
					t.Fatalf("GetTransactionWeight after the witness was attached (same btcutil.Tx, weighed before) = %d, definition %d (a fresh wrapper gives %d)",
						got, want, blockchain.GetTransactionWeight(btcutil.NewTx(unsigned)))
				}
			}
			return
		}
		nTx := rapid.OneOf(rapid.IntRange(0, 5), rapid.SampledFrom([]int{251, 252, 253, 254, 300}), rapid.IntRange(0, 60)).Draw(t, "nTx")
		txs := make([]*wire.MsgTx, nTx)
		var parts [][]byte
		anyWit := false
		for i := range txs {
			txs[i], _ = genSizedTx(t, fmt.Sprintf("tx%d", i), true)
			parts = append(parts, refSerializeTx(txs[i], true))
			anyWit = anyWit || refHasWitness(txs[i])
		}
		if nTx >= 253 {
			recWeight.Count("block-253+", 1)
		}
		recWeight.Case(nTx >= 253 || anyWit, "block", ev.Hash(parts...), func() any {
			return fmt.Sprintf("block of %d txs weight=%d", nTx, refBlockWeight(txs))
		})
		blk := btcutil.NewBlock(&wire.MsgBlock{
			Header:       wire.BlockHeader{Version: 1, Timestamp: time.Unix(1500000000, 0), Bits: 0x207fffff},
			Transactions: txs,
		})
		got := blockchain.GetBlockWeight(blk)
		if want := refBlockWeight(txs); got != want {
			t.Fatalf("GetBlockWeight(%d txs) = %d, definition %d", nTx, got, want)
		}
		// block weight = 4*(80+count) + sum of transaction weights (both definitions must agree)
		var sum int64
		for _, tx := range txs {
			sum += blockchain.GetTransactionWeight(btcutil.NewTx(tx))
		}
		var cnt bytes.Buffer
		refVarInt(&cnt, uint64(nTx))
		if want := 4*int64(80+cnt.Len()) + sum; got != want {
			t.Fatalf("GetBlockWeight(%d txs) = %d but 4*(header+count) + sum of GetTransactionWeight = %d", nTx, got, want)
		}
	})
}
