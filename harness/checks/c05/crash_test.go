package c05

import (
	"fmt"
	"os"
	"path/filepath"
	"sort"
	"strings"
	"testing"
	"time"

	"github.com/btcsuite/btcd/database"
	"github.com/btcsuite/btcd/database/ffldb"
	"github.com/btcsuite/btcd/wire/v2"
	"pgregory.net/rapid"

	"verif/internal/ev"
	"verif/internal/model/kvmodel"
	"verif/internal/scratch"
)

// ---------------------------------------------------------------------------
// sub-check 4: crash images

var recCrash = ev.New("C05", "crash-images",
	"a generated sequence of 3-8 managed write transactions (keys, nested buckets, 0-3 blocks each, some rolled back, sometimes PruneBlocks) runs on one database with the "+
		"timed flush disabled; the directory is copied (plain file copies on /dev/shm, taken while the only writer is stopped inside the interposer callback or between transactions) "+
		"(a) before every mutating block-file operation (openw/write/sync/truncate/close/delete) and (b) after every commit, and again after a forced cache flush at generated commits; "+
		"oracle: every image opens with database.Open and its whole visible state equals the model after SOME prefix p of the committed transactions with "+
		"last-flushed <= p <= committed-so-far (every block of the prefix byte-identical, no later block visible); a further write transaction on the image and a reopen must succeed; "+
		"every image whose block files hold bytes written after the file's last Sync (tracked through the interposer) is also checked in a power-loss variant in which those bytes are cut off while leveldb keeps all it committed (same oracle, same prefix range); "+
		"non-trivial = image taken inside a commit, with unflushed commits or power-loss variant; distinct by (workload hash, image index)",
	"mid-commit", "commit-unflushed", "commit-flushed", "prefix<latest", "lossy:mid-commit", "lossy:commit-unflushed")

type crashImage struct {
	dir      string
	what     string
	lo, hi   int // admissible prefix range (indexes into states)
	class    string
	inPruneW bool // taken in the window between a pruning commit's file deletions and the next flush
	lossy    bool // power-loss variant: block-file bytes written after the file's last Sync are gone
}

// fileExtent tracks, for one block file opened for writing, how much of it
// exists and how much of that is known to be on stable storage (everything up
// to the size at the most recent Sync).
type fileExtent struct{ size, durable int64 }

// trackExtent applies one block-file operation (reported before it is
// performed) to the durability bookkeeping.
func trackExtent(extents map[uint32]*fileExtent, dir string, op ffldb.VerifFileOp) {
	x := extents[op.FileNum]
	switch op.Op {
	case "openw":
		if x == nil {
			x = &fileExtent{}
			if st, err := os.Stat(filepath.Join(dir, fmt.Sprintf("%09d.fdb", op.FileNum))); err == nil {
				x.size, x.durable = st.Size(), st.Size() // written by an earlier run of the database: on disk
			}
			extents[op.FileNum] = x
		}
	case "write":
		if x != nil {
			if end := op.Off + int64(op.Len); end > x.size {
				x.size = end
			}
		}
	case "truncate":
		if x != nil {
			x.size = op.Off
			if x.durable > op.Off {
				x.durable = op.Off
			}
		}
	case "sync":
		if x != nil {
			x.durable = x.size
		}
	case "delete":
		delete(extents, op.FileNum)
	}
}

func TestCrashImages(t *testing.T) {
	rapid.Check(t, func(t *rapid.T) {
		defer catchAbort()
		maxFile := genMaxFile(t)
		withPrune := rapid.IntRange(0, 3).Draw(t, "withPrune") == 0
		if withPrune {
			maxFile = rapid.SampledFrom([]uint32{1024, 1536, 2048}).Draw(t, "maxfilePrune") // several files, so that pruning removes some
		}
		e := newEnv(t, recCrash, "crash", maxFile)
		var images []crashImage
		defer func() {
			e.cleanup()
			for _, im := range images {
				os.RemoveAll(im.dir)
			}
		}()
		// flush policy: "never" = only the forced flushes below make commits durable;
		// "always" = every commit is written through to leveldb, so it is durable at once
		always := rapid.IntRange(0, 2).Draw(t, "flushAlways") == 0
		if always {
			ffldb.VerifSetCacheLimits(e.db, 1<<40, 0)
			recCrash.Count("policy:flush-every-commit", 1)
		} else {
			ffldb.VerifSetCacheLimits(e.db, 1<<40, 1000*time.Hour)
		}
		e.logf("maxfile=%d flushEveryCommit=%v", maxFile, always)
		g := &opGen{e: e, maxDepth: 3}
		g.noPrune = !withPrune
		g.newBlock(t)

		states := []*kvmodel.State{e.m.Committed.Clone()} // states[p] = model after p committed transactions
		lastFlushed := 0
		pruneWindow := false // files deleted by a prune whose metadata is not flushed yet
		unstable := 0
		extents := map[uint32]*fileExtent{}
		snap := func(what, class string, lo, hi int) {
			d := scratch.Dir("img")
			before := dirStamp(e.dir)
			cerr := copyDir(e.dir, d)
			if cerr != nil && !os.IsNotExist(cerr) {
				infra(t, "copy image: %v", cerr)
			}
			if cerr != nil || dirStamp(e.dir) != before {
				// a background leveldb compaction wrote during the copy: not a state a crash of
				// the writer at this boundary would leave; drop the image
				unstable++
				os.RemoveAll(d)
				return
			}
			images = append(images, crashImage{dir: d, what: what, lo: lo, hi: hi, class: class, inPruneW: pruneWindow})
			// power-loss variant: leveldb keeps what it committed, every block file keeps only
			// what was written before its last Sync (only made when that differs from the copy)
			var cut []string
			for num, x := range extents {
				if x.durable < x.size {
					cut = append(cut, fmt.Sprintf("%09d.fdb:%d", num, x.durable))
				}
			}
			if len(cut) == 0 {
				return
			}
			sort.Strings(cut)
			d2 := scratch.Dir("imgl")
			if err := copyDir(d, d2); err != nil {
				infra(t, "copy lossy image: %v", err)
			}
			for num, x := range extents {
				if x.durable < x.size {
					fp := filepath.Join(d2, fmt.Sprintf("%09d.fdb", num))
					if st, err := os.Stat(fp); err == nil && st.Size() > x.durable {
						if err := os.Truncate(fp, x.durable); err != nil {
							infra(t, "truncate lossy image: %v", err)
						}
					}
				}
			}
			images = append(images, crashImage{dir: d2, what: what + " [power loss: unsynced block-file bytes dropped: " + strings.Join(cut, ",") + "]",
				lo: lo, hi: hi, class: "lossy:" + class, inPruneW: pruneWindow, lossy: true})
		}
		committed := 0
		inTx := false
		ffldb.VerifInterposeFiles(e.db, func(op ffldb.VerifFileOp) error {
			if !inTx {
				trackExtent(extents, e.dir, op) // the forced cache flush syncs outside a transaction
				return nil
			}
			switch op.Op {
			case "read", "openr":
				return nil
			}
			snap(fmt.Sprintf("inside the commit of transaction %d, before %+v", committed+1, op), "mid-commit", lastFlushed, committed)
			if op.Op == "delete" {
				pruneWindow = true // conservatively: any file deletion (prune; rollback never happens on a clean run)
			}
			trackExtent(extents, e.dir, op)
			return nil
		})
		ntx := rapid.IntRange(3, 8).Draw(t, "ntx")
		for i := 0; i < ntx; i++ {
			commit := rapid.IntRange(0, 5).Draw(t, "commit") > 0
			nops := rapid.IntRange(1, 6).Draw(t, "nops")
			nblk := rapid.SampledFrom([]int{0, 1, 1, 2, 3}).Draw(t, "nblk")
			// generated ops followed by nblk fresh blocks
			mt, _ := e.m.Begin(true)
			e.nextTxID++
			p := &txPair{m: mt, lost: map[kvmodel.Hash]bool{}, cacheOK: e.cacheEmpty(), id: e.nextTxID, managed: true}
			e.logf("tx#%d Update{ commit=%v", p.id, commit)
			inTx = true
			var err error
			e.withMax(func() {
				err = e.db.Update(func(tx database.Tx) error {
					p.real = tx
					for j := 0; j < nops; j++ {
						g.step(t, p, nil)
					}
					for j := 0; j < nblk; j++ {
						e.apply(p, Op{K: "store", B: []int{g.newBlock(t)}})
					}
					if withPrune && i >= 2 && p.prunes == 0 && rapid.Bool().Draw(t, "pruneNow") {
						e.apply(p, Op{K: "prune", Target: uint64(maxFile) * uint64(rapid.IntRange(1, 3).Draw(t, "prunefiles"))})
					}
					if !commit {
						return errRollback
					}
					return nil
				})
			})
			inTx = false
			e.logf("tx#%d } -> %v", p.id, err)
			if commit {
				if err != nil {
					sig := ""
					e.failf(sig, "Update returned %v for a closure that returned nil", err)
				}
				p.m.Commit()
				committed++
				states = append(states, e.m.Committed.Clone())
				if always {
					lastFlushed = committed
					pruneWindow = false
				}
				snap(fmt.Sprintf("after commit %d, cache not flushed", committed), map[bool]string{false: "commit-unflushed", true: "commit-flushed"}[always], lastFlushed, committed)
				forceFlush := rapid.IntRange(0, 2).Draw(t, "flush") == 0 || (pruneWindow && known(sigPruneCrash))
				if forceFlush {
					e.logf("flush cache")
					if err := ffldb.VerifFlushCache(e.db); err != nil {
						e.failf("", "flush: %v", err)
					}
					lastFlushed = committed
					pruneWindow = false
					snap(fmt.Sprintf("after commit %d and a forced cache flush", committed), "commit-flushed", committed, committed)
				}
			} else {
				if err != errRollback {
					e.failf("", "Update returned %v, want the closure's error", err)
				}
				p.m.Rollback()
				snap(fmt.Sprintf("after the rollback following commit %d", committed), "commit-unflushed", lastFlushed, committed)
			}
		}
		e.checkCommitted("live database at the end of the workload")
		pool := e.pool
		// a fresh block for the write on each image
		fi := g.newBlock(t)
		pool = e.pool
		whash := ev.HashS(strings.Join(e.log, "\n"))
		recCrash.Count("workloads", 1)
		recCrash.Count("images-dropped-unstable-copy", int64(unstable))

		for idx, im := range images {
			if im.inPruneW && known(sigPruneCrash) {
				recCrash.Excluded()
				recCrash.Count("excluded:prune-window", 1)
				continue
			}
			nt := im.class == "mid-commit" || im.lo < im.hi || im.lossy
			recCrash.Case(nt, im.class, ev.Hash([]byte(fmt.Sprintf("%x/%d", whash, idx))), func() any {
				return map[string]any{"max_file": maxFile, "image": im.what, "admissible_prefixes": fmt.Sprintf("%d..%d of %d", im.lo, im.hi, committed)}
			})
			sig := ""
			if im.inPruneW {
				sig = sigPruneCrash
			}
			ie, err := openEnv(t, recCrash, im.dir, states[im.lo], pool, maxFile)
			if err != nil {
				e.failf(sig, "image %q does not open: %v", im.what, err)
			}
			func() {
				defer func() {
					if ie.db != nil {
						_ = ie.db.Close()
						ie.db = nil
					}
				}()
				ie.log = append(ie.log, e.log...)
				ie.logf("=== image %d: %s; admissible prefixes %d..%d", idx, im.what, im.lo, im.hi)
				var got *kvmodel.State
				var derr error
				if verr := ie.db.View(func(tx database.Tx) error {
					got, derr = ie.dump(tx, nil)
					return nil
				}); verr != nil {
					ie.failf(sig, "image %q: View failed: %v", im.what, verr)
				}
				if derr != nil {
					ie.failf(sig, "image %q: reading the state: %v", im.what, derr)
				}
				match := -1
				for p := im.hi; p >= im.lo; p-- {
					if got.Equal(states[p]) {
						match = p
						break
					}
				}
				if match < 0 {
					var ds []string
					for p := im.lo; p <= im.hi; p++ {
						ds = append(ds, fmt.Sprintf("vs prefix %d:\n    %s", p, diffState(got, states[p], pool)))
					}
					// is it a state outside the admissible range?
					for p := range states {
						if (p < im.lo || p > im.hi) && got.Equal(states[p]) {
							ds = append(ds, fmt.Sprintf("(the image equals prefix %d, outside the admissible range)", p))
						}
					}
					ie.failf(sig, "image %q equals no admissible prefix %d..%d of the committed transactions:\n  %s", im.what, im.lo, im.hi, strings.Join(ds, "\n  "))
				}
				if match < im.hi {
					recCrash.Count("prefix<latest", 1)
				}
				// the image is a working database: one more write transaction and a reopen
				ie.m.Committed = states[match].Clone()
				if ferr, _ := replayTxCommit(ie, recTx{Commit: true, Ops: []Op{{K: "store", B: []int{fi}}, {K: "put", Name: "after-crash", Val: []byte("y")}}}); ferr != nil {
					ie.failf(sig, "image %q: write transaction after recovery failed: %v", im.what, ferr)
				}
				ie.checkCommittedSig(fmt.Sprintf("image %q after a write transaction", im.what), sig)
				if err := ie.db.Close(); err != nil {
					ie.failf(sig, "image %q: Close: %v", im.what, err)
				}
				db, err := database.Open("ffldb", ie.dir, wire.MainNet)
				if err != nil {
					ie.db = nil
					ie.failf(sig, "image %q: reopen after a write transaction: %v", im.what, err)
				}
				ie.db = db
				ie.checkCommittedSig(fmt.Sprintf("image %q after a write transaction and reopen", im.what), sig)
			}()
			os.RemoveAll(im.dir)
		}
	})
}
