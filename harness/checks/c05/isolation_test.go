package c05

import (
	"bytes"
	"encoding/binary"
	"fmt"
	"runtime"
	"sort"
	"strings"
	"sync"
	"sync/atomic"
	"testing"
	"time"

	"github.com/btcsuite/btcd/database"
	"github.com/btcsuite/btcd/database/ffldb"
	"pgregory.net/rapid"

	"verif/internal/ev"
	"verif/internal/model/kvmodel"
)

// ---------------------------------------------------------------------------
// sub-check 2a: snapshot isolation, sequential

var recIsolation = ev.New("C05", "isolation",
	"4-12 generated write transactions (committed or rolled back, with blocks) on one database; read transactions (Begin(false)) are opened at generated points, up to 4 at a time, and kept "+
		"open across later commits, cache flushes (forced, every-commit or size-triggered) and file roll-overs; after every commit/flush every open reader's whole visible state (bucket tree by "+
		"ForEach/ForEachBucket, HasBlock + FetchBlock + header of every block ever generated) is compared with the model snapshot taken at its Begin, plus generated point reads/cursor scans; "+
		"non-trivial = a reader compared after outliving >= 1 commit; distinct by op-sequence hash",
	"reader-outlived-1", "reader-outlived>=3", "reader-across-flush")

func TestIsolation(t *testing.T) {
	rapid.Check(t, func(t *rapid.T) {
		defer catchAbort()
		e := newEnv(t, recIsolation, "iso", genMaxFile(t))
		var readers []*txPair
		maxOutlived, acrossFlush := 0, false
		defer func() {
			cl := ""
			switch {
			case maxOutlived >= 3:
				cl = "reader-outlived>=3"
			case maxOutlived >= 1:
				cl = "reader-outlived-1"
			}
			if acrossFlush {
				recIsolation.Count("reader-across-flush", 1)
			}
			recIsolation.Case(maxOutlived >= 1, cl, ev.HashS(strings.Join(e.log, "\n")), func() any {
				l := e.log
				if len(l) > 40 {
					l = l[:40]
				}
				return map[string]any{"max_file": e.maxFile, "ops": l}
			})
			for _, r := range readers {
				_ = r.real.Rollback()
			}
			e.cleanup()
		}()
		mode := rapid.SampledFrom([]string{"never", "never", "always", "size"}).Draw(t, "flushmode")
		switch mode {
		case "never":
			ffldb.VerifSetCacheLimits(e.db, 1<<40, 1000*time.Hour)
		case "always":
			ffldb.VerifSetCacheLimits(e.db, 1<<40, 0)
			e.flushed = true
		case "size":
			ffldb.VerifSetCacheLimits(e.db, 600, 1000*time.Hour)
			e.flushed = true
		}
		e.logf("maxfile=%d flush=%s", e.maxFile, mode)
		g := &opGen{e: e, maxDepth: 3}
		g.newBlock(t)
		flushSeen := map[*txPair]bool{}
		checkReaders := func(what string) {
			for _, r := range readers {
				if r.m.Outlived() > maxOutlived {
					maxOutlived = r.m.Outlived()
				}
				if flushSeen[r] && r.m.Outlived() > 0 {
					acrossFlush = true
				}
				e.checkSnapshot(r, what)
			}
		}
		ntx := rapid.IntRange(4, 12).Draw(t, "ntx")
		for i := 0; i < ntx; i++ {
			// open / close readers
			for rapid.IntRange(0, 2).Draw(t, "openReader") == 0 && len(readers) < 4 {
				cacheOK := e.cacheEmpty()
				real, err := e.db.Begin(false)
				if err != nil {
					e.failf("", "Begin(false): %v", err)
				}
				mt, _ := e.m.Begin(false)
				e.nextTxID++
				p := &txPair{real: real, m: mt, lost: map[kvmodel.Hash]bool{}, cacheOK: cacheOK, id: e.nextTxID}
				e.logf("tx#%d Begin(writable=false)", p.id)
				readers = append(readers, p)
			}
			if len(readers) > 0 && rapid.IntRange(0, 4).Draw(t, "closeReader") == 0 {
				j := rapid.IntRange(0, len(readers)-1).Draw(t, "which")
				e.logf("tx#%d Rollback", readers[j].id)
				if err := readers[j].real.Rollback(); err != nil {
					e.failf("", "Rollback of a reader: %v", err)
				}
				readers = append(readers[:j], readers[j+1:]...)
			}
			before := e.m.Committed
			rt := recordTx(t, e, g, rapid.IntRange(1, 7).Draw(t, "nops"), rapid.SampledFrom([]int{0, 0, 1, 2, 3}).Draw(t, "nblk"), rapid.IntRange(0, 5).Draw(t, "commit") > 0)
			if e.m.Committed != before {
				for h := range rt.pruned {
					for _, r := range readers {
						r.lost[h] = true
					}
				}
				if mode != "never" {
					for _, r := range readers {
						flushSeen[r] = true
					}
				}
			}
			if rapid.IntRange(0, 3).Draw(t, "flush") == 0 {
				e.logf("flush cache")
				if err := ffldb.VerifFlushCache(e.db); err != nil {
					e.failf("", "flush: %v", err)
				}
				e.flushed = true
				for _, r := range readers {
					flushSeen[r] = true
				}
			}
			checkReaders(fmt.Sprintf("after transaction %d", i+1))
			// a few generated reads through a reader that outlived commits
			if len(readers) > 0 {
				r := readers[rapid.IntRange(0, len(readers)-1).Draw(t, "reader")]
				for k, n := 0, rapid.IntRange(0, 4).Draw(t, "nreads"); k < n; k++ {
					g.step(t, r, nil)
				}
			}
			e.checkCommitted(fmt.Sprintf("committed state after transaction %d", i+1))
		}
	})
}

// ---------------------------------------------------------------------------
// sub-check 2b: one writer, K concurrent readers, under -race

var recConcurrent = ev.New("C05", "isolation-concurrent",
	"one writer goroutine commits R=8-30 generated batches; batch r sets every stamp key (2-6 keys spread over the root and two nested buckets) to r, applies generated noise "+
		"puts/deletes and, at generated rounds, stores block r; K=2-4 reader goroutines run db.View in a loop and one more holds Begin(false) snapshots across commits; built with -race; "+
		"oracle: inside every View all stamp keys are equal to one value v, v never decreases for a reader, and the WHOLE visible state (bucket tree, iteration order, blocks byte-identical, "+
		"blocks of rounds > v absent) equals the model state after round v; a held snapshot answers the same v and state every time it is re-read; flush policy never/every-commit/size; "+
		"non-trivial = some reader observed >= 2 distinct rounds while the writer was running; distinct by workload hash",
	"observed>=2-rounds", "held-snapshot-outlived-commit")

type noiseOp struct {
	del  bool
	path []string
	key  string
	val  []byte
}

func TestIsolationConcurrent(t *testing.T) {
	rapid.Check(t, func(t *rapid.T) {
		defer catchAbort()
		maxFile := genMaxFile(t)
		e := newEnv(t, recConcurrent, "conc", maxFile)
		defer e.cleanup()
		mode := rapid.SampledFrom([]string{"never", "always", "size"}).Draw(t, "flushmode")
		if mode == "size" && known(sigSnapshotFlush) {
			// known finding: a transaction begun while a NON-EMPTY cache is being flushed; only the
			// size-triggered policy flushes a non-empty cache while readers run
			recConcurrent.Excluded()
			recConcurrent.Count("excluded:size-triggered-flush-with-concurrent-readers", 1)
			mode = rapid.SampledFrom([]string{"never", "always"}).Draw(t, "flushmode2")
		}
		switch mode {
		case "never":
			ffldb.VerifSetCacheLimits(e.db, 1<<40, 1000*time.Hour)
		case "always":
			ffldb.VerifSetCacheLimits(e.db, 1<<40, 0)
		case "size":
			ffldb.VerifSetCacheLimits(e.db, 500, 1000*time.Hour)
		}
		K := rapid.IntRange(2, 4).Draw(t, "readers")
		R := rapid.IntRange(8, 30).Draw(t, "rounds")
		paths := [][]string{nil, {"p"}, {"p", "q"}}
		nstamps := rapid.IntRange(2, 6).Draw(t, "stamps")
		type stampKey struct {
			path []string
			key  string
		}
		var stamps []stampKey
		for i := 0; i < nstamps; i++ {
			stamps = append(stamps, stampKey{paths[i%len(paths)], fmt.Sprintf("stamp%d", i)})
		}
		g := &opGen{e: e}
		// workload as data, and the model state after every round
		rounds := make([][]noiseOp, R+1)
		blockOf := make([]int, R+1)
		for r := 1; r <= R; r++ {
			blockOf[r] = -1
			if rapid.IntRange(0, 2).Draw(t, "blk") == 0 {
				blockOf[r] = g.newBlock(t)
			}
			for i, n := 0, rapid.IntRange(0, 4).Draw(t, "noise"); i < n; i++ {
				rounds[r] = append(rounds[r], noiseOp{
					del:  rapid.IntRange(0, 2).Draw(t, "del") == 0,
					path: paths[rapid.IntRange(0, 2).Draw(t, "npath")],
					key:  rapid.SampledFrom(nameAlphabet).Draw(t, "nkey"),
					val:  genVal(t),
				})
			}
		}
		stampVal := func(r int) []byte {
			var b [8]byte
			binary.BigEndian.PutUint64(b[:], uint64(r))
			return b[:]
		}
		// model: states[r]
		states := make([]*kvmodel.State, R+1)
		{
			mt, _ := e.m.Begin(true)
			mt.CreateBucket(nil, "p", false)
			mt.CreateBucket([]string{"p"}, "q", false)
			for _, s := range stamps {
				mt.Put(s.path, s.key, stampVal(0))
			}
			mt.Commit()
			states[0] = e.m.Committed.Clone()
			for r := 1; r <= R; r++ {
				mt, _ := e.m.Begin(true)
				for _, s := range stamps {
					mt.Put(s.path, s.key, stampVal(r))
				}
				for _, n := range rounds[r] {
					if n.key == "" {
						continue
					}
					if n.del {
						mt.Delete(n.path, n.key)
					} else {
						mt.Put(n.path, n.key, n.val)
					}
				}
				if blockOf[r] >= 0 {
					mt.StoreBlock(e.pool[blockOf[r]].raw)
				}
				mt.Commit()
				states[r] = e.m.Committed.Clone()
			}
		}
		whash := ev.HashS(fmt.Sprintf("%v|%v|%v|%d|%d|%s", rounds, blockOf, stamps, K, maxFile, mode))

		bucketOf := func(tx database.Tx, path []string) database.Bucket {
			b := tx.Metadata()
			for _, p := range path {
				if b = b.Bucket([]byte(p)); b == nil {
					return nil
				}
			}
			return b
		}
		// initial state
		if err := e.db.Update(func(tx database.Tx) error {
			p, err := tx.Metadata().CreateBucket([]byte("p"))
			if err != nil {
				return err
			}
			if _, err := p.CreateBucket([]byte("q")); err != nil {
				return err
			}
			for _, s := range stamps {
				if err := bucketOf(tx, s.path).Put([]byte(s.key), stampVal(0)); err != nil {
					return err
				}
			}
			return nil
		}); err != nil {
			e.failf("", "initial Update: %v", err)
		}

		var committed atomic.Int64 // rounds whose Update has returned
		var started atomic.Int64   // rounds whose Update has been entered
		errs := make(chan string, 64)
		report := func(format string, args ...any) {
			select {
			case errs <- fmt.Sprintf(format, args...):
			default:
			}
		}
		var done atomic.Bool
		// readStamp reads every stamp key and checks they agree
		readStamp := func(tx database.Tx, who string) (int, bool) {
			v := -1
			for _, s := range stamps {
				b := bucketOf(tx, s.path)
				if b == nil {
					report("%s: bucket %v missing", who, s.path)
					return 0, false
				}
				raw := b.Get([]byte(s.key))
				if len(raw) != 8 {
					report("%s: stamp %v/%s = %x", who, s.path, s.key, raw)
					return 0, false
				}
				x := int(binary.BigEndian.Uint64(raw))
				if v >= 0 && x != v {
					report("%s: stamp keys differ inside one transaction: %d and %d (torn commit visible)", who, v, x)
					return 0, false
				}
				v = x
			}
			return v, true
		}
		checkState := func(tx database.Tx, v int, who string) bool {
			if v < 0 || v > R {
				report("%s: stamp %d out of range", who, v)
				return false
			}
			got, err := e.dump(tx, nil)
			if err != nil {
				report("%s at round %d: %v", who, v, err)
				return false
			}
			if !got.Equal(states[v]) {
				report("%s: state seen with stamp %d differs from the model after round %d:\n    %s", who, v, v, diffState(got, states[v], e.pool))
				return false
			}
			return true
		}
		var wg sync.WaitGroup
		maxDistinct := make([]int, K)
		for k := 0; k < K; k++ {
			wg.Add(1)
			go func(k int) {
				defer wg.Done()
				last := -1
				seen := map[int]bool{}
				who := fmt.Sprintf("reader %d", k)
				for i := 0; ; i++ {
					finishing := done.Load()
					lo := int(committed.Load())
					err := e.db.View(func(tx database.Tx) error {
						v, ok := readStamp(tx, who)
						if !ok {
							return nil
						}
						hi := int(started.Load())
						if v < last {
							report("%s: stamp went back from %d to %d across views", who, last, v)
						}
						if v < lo || v > hi {
							report("%s: view opened after round %d was committed and before round %d+1 started sees stamp %d", who, lo, hi, v)
						}
						last = v
						seen[v] = true
						checkState(tx, v, who)
						return nil
					})
					if err != nil {
						report("%s: View: %v", who, err)
					}
					if finishing {
						break
					}
					if i%3 == 0 {
						runtime.Gosched()
					}
				}
				maxDistinct[k] = len(seen)
			}(k)
		}
		// a reader that holds snapshots across commits
		heldOutlived := false
		wg.Add(1)
		go func() {
			defer wg.Done()
			for !done.Load() {
				tx, err := e.db.Begin(false)
				if err != nil {
					report("holder: Begin: %v", err)
					return
				}
				c0 := committed.Load()
				v0, ok := readStamp(tx, "holder")
				if ok {
					for j := 0; j < 4; j++ {
						time.Sleep(200 * time.Microsecond)
						v, ok := readStamp(tx, "holder")
						if ok && v != v0 {
							report("holder: snapshot changed from stamp %d to %d while held", v0, v)
						}
						checkState(tx, v0, "holder")
					}
					if committed.Load() > c0 {
						heldOutlived = true
					}
				}
				if err := tx.Rollback(); err != nil {
					report("holder: Rollback: %v", err)
				}
			}
		}()
		// the writer
		wg.Add(1)
		go func() {
			defer wg.Done()
			defer done.Store(true)
			ffldb.TstRunWithMaxBlockFileSize(e.db, maxFile, func() {
				for r := 1; r <= R; r++ {
					started.Store(int64(r))
					err := e.db.Update(func(tx database.Tx) error {
						// stamps first and last are written at both ends of the batch
						for _, s := range stamps {
							if err := bucketOf(tx, s.path).Put([]byte(s.key), stampVal(r)); err != nil {
								return err
							}
						}
						for _, n := range rounds[r] {
							if n.key == "" {
								continue
							}
							b := bucketOf(tx, n.path)
							var err error
							if n.del {
								err = b.Delete([]byte(n.key))
							} else {
								err = b.Put([]byte(n.key), n.val)
							}
							if err != nil {
								return err
							}
						}
						if blockOf[r] >= 0 {
							if err := tx.StoreBlock(e.pool[blockOf[r]].b); err != nil {
								return err
							}
						}
						return nil
					})
					if err != nil {
						report("writer: Update round %d: %v", r, err)
						return
					}
					committed.Store(int64(r))
					if r%2 == 0 {
						runtime.Gosched()
					}
				}
			})
		}()
		wg.Wait()
		close(errs)
		most := 0
		for _, d := range maxDistinct {
			if d > most {
				most = d
			}
		}
		nt := most >= 2
		cl := ""
		if nt {
			cl = "observed>=2-rounds"
		}
		if heldOutlived {
			recConcurrent.Count("held-snapshot-outlived-commit", 1)
		}
		recConcurrent.Case(nt, cl, whash, func() any {
			return map[string]any{"readers": K, "rounds": R, "stamps": nstamps, "flush": mode, "max_file": maxFile, "most_rounds_seen_by_one_reader": most}
		})
		var all []string
		for m := range errs {
			all = append(all, m)
		}
		if len(all) > 0 {
			sort.Strings(all)
			if mode == "size" {
				knownOrFatal(t, recConcurrent, sigSnapshotFlush, fmt.Sprintf("isolation violated with %d readers, %d rounds, flush=size, maxfile=%d:\n  %s", K, R, maxFile, strings.Join(all, "\n  ")))
			}
			t.Fatalf("isolation violated with %d readers, %d rounds, flush=%s, maxfile=%d:\n  %s", K, R, mode, maxFile, strings.Join(all, "\n  "))
		}
		// final state
		e.m.Committed = states[R]
		e.checkCommitted("after the writer finished")
	})
}

var _ = bytes.Equal
