package c05

import (
	"bytes"
	"fmt"
	"sort"
	"strings"
	"testing"

	"github.com/btcsuite/btcd/database"
	"pgregory.net/rapid"

	"verif/internal/ev"
)

// ---------------------------------------------------------------------------
// sub-check 5: the treap behind snapshots (through the verif aliases)

var recTreap = ev.New("C05", "treap",
	"rapid state machine over database/internal/treap (aliases of build tag verif): one Mutable treap and a DAG of up to 12 Immutable versions (each new version derived from a "+
		"generated EARLIER version by Put of 1-5 pairs incl. duplicates/nil values, or Delete) against sorted maps; ops Put/Delete/Get/Has/Len/ForEach (early stop), iterators with "+
		"start/limit ranges: First/Last/Next/Prev/Seek/Valid/Key/Value incl. direction changes, mutation of the Mutable followed by ForceReseek on its iterators; invariant after every step: "+
		"every retained immutable version still iterates forwards and backwards to exactly its own contents (persistence), the mutable equals its map; keys from a small alphabet with shared prefixes; "+
		"non-trivial = a derived-from-old version, a ranged iterator, or an iterator used across a mutation; distinct by op-sequence hash",
	"persistence-branch", "ranged-iterator", "iterator-across-mutation", "plain")

var treapKeys = []string{"", "a", "a\x00", "aa", "ab", "b", "b\xff", "c", "d", "e", "f", "g", "k", "m", "p", "zz", "\xff"}

type treapIterModel struct {
	it         *database.VerifTreapIterator
	owner      int // -1: the mutable treap, else index of the immutable version
	start, lim []byte
	hasStart   bool
	hasLim     bool
	// model position
	isNew      bool
	valid      bool
	key        string
	pendingRes bool // ForceReseek was called while positioned and no Next/Prev happened since (known finding class)
	dirty      bool // Key/Value unspecified until moved (mutable treap mutated under the iterator)
	staleRisk  bool // repositioned with a pending reseek (only when the finding is not listed)
}

type treapVersion struct {
	t *database.VerifTreapImmutable
	m map[string][]byte
}

func sortedKeys(m map[string][]byte) []string {
	out := make([]string, 0, len(m))
	for k := range m {
		out = append(out, k)
	}
	sort.Strings(out)
	return out
}

func inRange(k string, it *treapIterModel) bool {
	if it.hasStart && k < string(it.start) {
		return false
	}
	if it.hasLim && k >= string(it.lim) {
		return false
	}
	return true
}

func rangeKeys(m map[string][]byte, it *treapIterModel) []string {
	var out []string
	for _, k := range sortedKeys(m) {
		if inRange(k, it) {
			out = append(out, k)
		}
	}
	return out
}

func TestTreap(t *testing.T) {
	rapid.Check(t, func(t *rapid.T) {
		defer catchAbort()
		var log []string
		logf := func(f string, a ...any) { log = append(log, fmt.Sprintf(f, a...)) }
		classes := map[string]bool{}
		fail := func(sig, f string, a ...any) {
			msg := fmt.Sprintf(f, a...) + "\n  history:\n    " + strings.Join(log, "\n    ")
			knownOrFatal(t, recTreap, sig, msg)
		}
		mut := database.VerifNewTreapMutable()
		mm := map[string][]byte{}
		versions := []*treapVersion{{t: database.VerifNewTreapImmutable(), m: map[string][]byte{}}}
		var iters []*treapIterModel
		defer func() {
			nt := classes["persistence-branch"] || classes["ranged-iterator"] || classes["iterator-across-mutation"]
			for c := range classes {
				recTreap.Count(c, 1)
			}
			if !nt {
				recTreap.Count("plain", 1)
			}
			recTreap.Case(nt, "", ev.HashS(strings.Join(log, "\n")), func() any {
				l := log
				if len(l) > 30 {
					l = l[:30]
				}
				return l
			})
		}()
		genKey := func(t *rapid.T) string { return rapid.SampledFrom(treapKeys).Draw(t, "key") }
		genTVal := func(t *rapid.T) []byte {
			switch rapid.IntRange(0, 5).Draw(t, "vk") {
			case 0:
				return nil
			case 1:
				return []byte{}
			}
			return rapid.SliceOfN(rapid.Byte(), 1, 6).Draw(t, "v")
		}
		modelOf := func(it *treapIterModel) map[string][]byte {
			if it.owner < 0 {
				return mm
			}
			return versions[it.owner].m
		}
		checkIterPos := func(it *treapIterModel, what string, got bool, sig string) {
			if got != it.valid {
				fail(sig, "%s: treap returned %v, model %v (model key %q; range [%q,%q) start=%v limit=%v; contents %q)", what, got, it.valid, it.key, it.start, it.lim, it.hasStart, it.hasLim, sortedKeys(modelOf(it)))
			}
			if it.it.Valid() != it.valid {
				fail(sig, "%s: Valid()=%v, model %v", what, it.it.Valid(), it.valid)
			}
			if !it.valid {
				if it.it.Key() != nil || it.it.Value() != nil {
					fail(sig, "%s: exhausted iterator has Key=%q Value=%q", what, it.it.Key(), it.it.Value())
				}
				return
			}
			wantV := modelOf(it)[it.key]
			if string(it.it.Key()) != it.key || !bytes.Equal(it.it.Value(), wantV) || it.it.Value() == nil {
				fail(sig, "%s: treap at %q=%x, model at %q=%x (contents %q)", what, it.it.Key(), it.it.Value(), it.key, wantV, sortedKeys(modelOf(it)))
			}
		}
		setPos := func(it *treapIterModel, keys []string, idx int) {
			it.isNew = false
			it.dirty = false
			if idx < 0 || idx >= len(keys) {
				it.valid = false
				it.key = ""
				return
			}
			it.valid = true
			it.key = keys[idx]
		}
		// full check of one immutable version: contents both ways, Len, Get/Has
		checkVersion := func(i int, what string) {
			v := versions[i]
			keys := sortedKeys(v.m)
			if v.t.Len() != len(keys) {
				fail("", "%s: version %d Len()=%d, model %d", what, i, v.t.Len(), len(keys))
			}
			var got []string
			v.t.ForEach(func(k, val []byte) bool {
				got = append(got, string(k))
				if !bytes.Equal(val, v.m[string(k)]) || val == nil {
					fail("", "%s: version %d ForEach value of %q = %x, model %x", what, i, k, val, v.m[string(k)])
				}
				return true
			})
			if !equalStrings(got, keys) {
				fail("", "%s: version %d ForEach yields %q, its contents are %q", what, i, got, keys)
			}
			it := v.t.Iterator(nil, nil)
			got = got[:0]
			for ok := it.First(); ok; ok = it.Next() {
				got = append(got, string(it.Key()))
			}
			if !equalStrings(got, keys) {
				fail("", "%s: version %d forward iteration yields %q, its contents are %q", what, i, got, keys)
			}
			got = got[:0]
			for ok := it.Last(); ok; ok = it.Prev() {
				got = append(got, string(it.Key()))
			}
			for l, r := 0, len(got)-1; l < r; l, r = l+1, r-1 {
				got[l], got[r] = got[r], got[l]
			}
			if !equalStrings(got, keys) {
				fail("", "%s: version %d backward iteration yields (reversed) %q, its contents are %q", what, i, got, keys)
			}
			for _, k := range treapKeys {
				want, ok := v.m[k]
				if v.t.Has([]byte(k)) != ok {
					fail("", "%s: version %d Has(%q)=%v, model %v", what, i, k, !ok, ok)
				}
				g := v.t.Get([]byte(k))
				if (g == nil) != !ok || !bytes.Equal(g, want) {
					fail("", "%s: version %d Get(%q)=%x, model %x present=%v", what, i, k, g, want, ok)
				}
			}
		}
		markMutation := func() {
			// the documented protocol: ForceReseek on every iterator of the mutated treap
			for _, it := range iters {
				if it.owner >= 0 {
					continue
				}
				it.it.ForceReseek()
				if it.valid {
					it.pendingRes = true
					it.dirty = true
				}
				classes["iterator-across-mutation"] = true
			}
		}
		steps := 0
		t.Repeat(map[string]func(*rapid.T){
			"mutPut": func(t *rapid.T) {
				k, v := genKey(t), genTVal(t)
				logf("mutable Put(%q,%x)", k, v)
				mut.Put([]byte(k), v)
				mm[k] = append([]byte{}, v...)
				markMutation()
			},
			"mutDelete": func(t *rapid.T) {
				k := genKey(t)
				if ks := sortedKeys(mm); len(ks) > 0 && rapid.Bool().Draw(t, "existing") {
					k = rapid.SampledFrom(ks).Draw(t, "k")
				}
				logf("mutable Delete(%q)", k)
				mut.Delete([]byte(k))
				delete(mm, k)
				markMutation()
			},
			"mutRead": func(t *rapid.T) {
				k := genKey(t)
				want, ok := mm[k]
				if mut.Has([]byte(k)) != ok {
					fail("", "mutable Has(%q)=%v, model %v", k, !ok, ok)
				}
				g := mut.Get([]byte(k))
				if (g == nil) != !ok || !bytes.Equal(g, want) {
					fail("", "mutable Get(%q)=%x, model %x present=%v", k, g, want, ok)
				}
			},
			"forEachStop": func(t *rapid.T) {
				// early stop
				n := rapid.IntRange(0, 3).Draw(t, "n")
				var got []string
				fn := func(k, v []byte) bool {
					if len(got) == n {
						return false
					}
					got = append(got, string(k))
					return true
				}
				var keys []string
				if rapid.Bool().Draw(t, "onMutable") {
					mut.ForEach(fn)
					keys = sortedKeys(mm)
				} else {
					i := rapid.IntRange(0, len(versions)-1).Draw(t, "ver")
					versions[i].t.ForEach(fn)
					keys = sortedKeys(versions[i].m)
				}
				if len(keys) > n {
					keys = keys[:n]
				}
				if !equalStrings(got, keys) {
					fail("", "ForEach with stop after %d yields %q, want %q", n, got, keys)
				}
			},
			"immDerive": func(t *rapid.T) {
				// derive a new version from a generated earlier one (usually not the latest)
				i := rapid.IntRange(0, len(versions)-1).Draw(t, "from")
				src := versions[i]
				nm := map[string][]byte{}
				for k, v := range src.m {
					nm[k] = v
				}
				var nt *database.VerifTreapImmutable
				if rapid.IntRange(0, 2).Draw(t, "kind") == 0 && len(src.m) > 0 || rapid.IntRange(0, 9).Draw(t, "delMissing") == 0 {
					k := genKey(t)
					if ks := sortedKeys(src.m); len(ks) > 0 && rapid.IntRange(0, 3).Draw(t, "existing") > 0 {
						k = rapid.SampledFrom(ks).Draw(t, "k")
					}
					logf("version %d = version %d .Delete(%q)", len(versions), i, k)
					nt = src.t.Delete([]byte(k))
					delete(nm, k)
				} else {
					n := rapid.IntRange(1, 5).Draw(t, "npairs")
					pairs := make([]database.VerifTreapKVPair, n)
					var desc []string
					for j := range pairs {
						k, v := genKey(t), genTVal(t)
						pairs[j] = database.VerifTreapKVPair{Key: []byte(k), Value: v}
						nm[k] = append([]byte{}, v...)
						desc = append(desc, fmt.Sprintf("%q=%x", k, v))
					}
					logf("version %d = version %d .Put(%s)", len(versions), i, strings.Join(desc, ", "))
					nt = src.t.Put(pairs...)
				}
				if i != len(versions)-1 {
					classes["persistence-branch"] = true
				}
				nv := &treapVersion{t: nt, m: nm}
				if len(versions) >= 12 {
					// forget one old version (not version 0), dropping its iterators
					d := rapid.IntRange(1, len(versions)-1).Draw(t, "drop")
					logf("forget version %d (later versions shift down)", d)
					versions = append(versions[:d], versions[d+1:]...)
					kept := iters[:0]
					for _, it := range iters {
						if it.owner == d {
							continue
						}
						if it.owner > d {
							it.owner--
						}
						kept = append(kept, it)
					}
					iters = kept
				}
				versions = append(versions, nv)
			},
			"iterNew": func(t *rapid.T) {
				if len(iters) >= 4 {
					j := rapid.IntRange(0, len(iters)-1).Draw(t, "replace")
					iters = append(iters[:j], iters[j+1:]...)
				}
				it := &treapIterModel{isNew: true, owner: -1}
				if rapid.Bool().Draw(t, "onImmutable") {
					it.owner = rapid.IntRange(0, len(versions)-1).Draw(t, "ver")
				}
				if rapid.IntRange(0, 2).Draw(t, "start") == 0 {
					it.hasStart, it.start = true, []byte(genKey(t))
				}
				if rapid.IntRange(0, 2).Draw(t, "limit") == 0 {
					it.hasLim, it.lim = true, []byte(genKey(t))
				}
				var s, l []byte
				if it.hasStart {
					s = it.start
				}
				if it.hasLim {
					l = it.lim
				}
				// an empty non-nil start/limit key: nil and empty are both "no bound >= every key"/"limit below every key"
				if it.hasStart && len(it.start) == 0 {
					s = []byte{}
				}
				if it.owner < 0 {
					it.it = mut.Iterator(s, l)
				} else {
					it.it = versions[it.owner].t.Iterator(s, l)
				}
				if it.hasStart || it.hasLim {
					classes["ranged-iterator"] = true
				}
				logf("iter#%d on %d range start=%q(%v) limit=%q(%v)", len(iters), it.owner, it.start, it.hasStart, it.lim, it.hasLim)
				iters = append(iters, it)
			},
			"iterMove": func(t *rapid.T) {
				if len(iters) == 0 {
					t.Skip()
				}
				j := rapid.IntRange(0, len(iters)-1).Draw(t, "iter")
				it := iters[j]
				keys := rangeKeys(modelOf(it), it)
				mv := rapid.SampledFrom([]string{"First", "Last", "Seek", "Seek", "Next", "Next", "Next", "Prev", "Prev", "KV"}).Draw(t, "move")
				sig := ""
				if (mv == "First" || mv == "Last" || mv == "Seek") && it.pendingRes {
					if known(sigTreapStaleSeek) {
						recTreap.Excluded()
						recTreap.Count("excluded:reposition-with-pending-reseek", 1)
						t.Skip()
					}
					// from here on the iterator carries a stale reseek key: attribute mismatches
					it.staleRisk = true
				}
				if it.staleRisk {
					sig = sigTreapStaleSeek
				}
				// known finding class: single-bounded iterator whose range is empty while the treap is not
				all := sortedKeys(modelOf(it))
				if len(all) > 0 && len(keys) == 0 &&
					((mv == "First" || mv == "Next" && it.isNew) && !it.hasStart && it.hasLim || (mv == "Last" || mv == "Prev" && it.isNew) && it.hasStart && !it.hasLim) {
					if known(sigTreapOneBound) {
						recTreap.Excluded()
						recTreap.Count("excluded:single-bound-empty-range", 1)
						t.Skip()
					}
					sig = sigTreapOneBound
				}
				switch mv {
				case "First":
					logf("iter#%d First", j)
					setPos(it, keys, 0)
					checkIterPos(it, fmt.Sprintf("iter#%d First", j), it.it.First(), sig)
				case "Last":
					logf("iter#%d Last", j)
					setPos(it, keys, len(keys)-1)
					checkIterPos(it, fmt.Sprintf("iter#%d Last", j), it.it.Last(), sig)
				case "Seek":
					k := genKey(t)
					if it.hasStart && k < string(it.start) {
						between := false
						for _, mk := range sortedKeys(modelOf(it)) {
							if mk >= k && mk < string(it.start) {
								between = true
							}
						}
						if between {
							if known(sigTreapSeekStart) {
								recTreap.Excluded()
								recTreap.Count("excluded:seek-below-start", 1)
								t.Skip()
							}
							sig = sigTreapSeekStart
						}
					}
					logf("iter#%d Seek(%q)", j, k)
					idx := sort.SearchStrings(keys, k)
					setPos(it, keys, idx)
					checkIterPos(it, fmt.Sprintf("iter#%d Seek(%q)", j, k), it.it.Seek([]byte(k)), sig)
				case "Next":
					logf("iter#%d Next", j)
					switch {
					case it.isNew:
						setPos(it, keys, 0) // "When invoked on a newly created iterator it will position the iterator at the first item"
					case !it.valid:
						setPos(it, keys, -1)
					default:
						setPos(it, keys, sort.Search(len(keys), func(i int) bool { return keys[i] > it.key }))
					}
					it.pendingRes = false
					checkIterPos(it, fmt.Sprintf("iter#%d Next", j), it.it.Next(), sig)
				case "Prev":
					logf("iter#%d Prev", j)
					switch {
					case it.isNew:
						setPos(it, keys, len(keys)-1)
					case !it.valid:
						setPos(it, keys, -1)
					default:
						setPos(it, keys, sort.Search(len(keys), func(i int) bool { return keys[i] >= it.key })-1)
					}
					it.pendingRes = false
					checkIterPos(it, fmt.Sprintf("iter#%d Prev", j), it.it.Prev(), sig)
				case "KV":
					if it.dirty || it.isNew {
						t.Skip()
					}
					checkIterPos(it, fmt.Sprintf("iter#%d Key/Value", j), it.valid, sig)
				}
			},
			"": func(t *rapid.T) {
				steps++
				// the mutable treap equals its map
				keys := sortedKeys(mm)
				if mut.Len() != len(keys) {
					fail("", "mutable Len()=%d, model %d", mut.Len(), len(keys))
				}
				var got []string
				mut.ForEach(func(k, v []byte) bool {
					got = append(got, string(k))
					if !bytes.Equal(v, mm[string(k)]) || v == nil {
						fail("", "mutable ForEach value of %q = %x, model %x", k, v, mm[string(k)])
					}
					return true
				})
				if !equalStrings(got, keys) {
					fail("", "mutable ForEach yields %q, model %q", got, keys)
				}
				// persistence: every retained version still has exactly its own contents
				for i := range versions {
					checkVersion(i, fmt.Sprintf("after step %d", steps))
				}
			},
		})
	})
}
