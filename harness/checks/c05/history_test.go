package c05

import (
	"fmt"
	"strings"
	"testing"
	"time"

	"github.com/btcsuite/btcd/database"
	"github.com/btcsuite/btcd/database/ffldb"
	"github.com/btcsuite/btcd/wire/v2"
	"pgregory.net/rapid"

	"verif/internal/ev"
	"verif/internal/model/kvmodel"
)

// ---------------------------------------------------------------------------
// sub-check 1 (+ sequential part of 2): model-based history

var recHistory = ev.New("C05", "history",
	"rapid state machine (t.Repeat) over database.DB/ffldb on /dev/shm: Begin(w/r), Commit, Rollback, managed Update/View closures ending in nil/error/panic/"+
		"Commit-inside, bucket ops to depth 3, Put/Get/Delete with the documented error cases, ForEach(Bucket) with early stop, up to 2 cursors per tx "+
		"(First/Last/Next/Prev/Seek/Delete/Key/Value, over pending changes), StoreBlock/HasBlock(s)/FetchBlock(s)/FetchBlockHeader(s)/FetchBlockRegion(s) with boundary regions, "+
		"PruneBlocks, cache flush, close/reopen, up to 3 read transactions kept open across commits; block-file limit 1-16 KiB; flush policy never/every-commit/size; "+
		"oracle = kvmodel (from interface.go): every result value, error code class and iteration order, plus whole-state comparison of the committed state after every step and of every open snapshot after commits; "+
		"non-trivial = rollback after writes, cursor over pending changes, file roll-over, prune, or reader outliving a commit; distinct by op-sequence hash",
	"rollback-after-writes", "cursor-over-pending", "file-rollover", "prune", "reader-outlives-commit", "reopen", "managed-panic", "plain")

type hist struct {
	t        *rapid.T
	e        *env
	g        *opGen
	writer   *txPair
	readers  []*txPair
	closedTx *txPair
	mode     string // flush policy
	steps    int
	snapDue  bool
	lastFile uint32
}

func genMaxFile(t *rapid.T) uint32 {
	return rapid.OneOf(
		rapid.SampledFrom([]uint32{1024, 1024, 2048, 4096, 16384}),
		rapid.Uint32Range(1024, 16384),
	).Draw(t, "maxfile")
}

func (h *hist) applyMode() {
	switch h.mode {
	case "never":
		ffldb.VerifSetCacheLimits(h.e.db, 1<<40, 1000*time.Hour)
	case "always":
		ffldb.VerifSetCacheLimits(h.e.db, 1<<40, 0)
		h.e.flushed = true
	case "size":
		ffldb.VerifSetCacheLimits(h.e.db, 400, 1000*time.Hour)
		h.e.flushed = true
	}
}

func (h *hist) begin(writable bool) *txPair {
	e := h.e
	cacheOK := e.cacheEmpty()
	var real database.Tx
	var err error
	real, err = e.db.Begin(writable)
	if err != nil {
		e.failf("", "Begin(%v): %v", writable, err)
	}
	mt, _ := e.m.Begin(writable)
	e.nextTxID++
	p := &txPair{real: real, m: mt, lost: map[kvmodel.Hash]bool{}, cacheOK: cacheOK, id: e.nextTxID}
	e.logf("tx#%d Begin(writable=%v)", p.id, writable)
	return p
}

// commitEffects propagates a writer's commit to the bookkeeping of readers.
func (h *hist) commitEffects(p *txPair) {
	// the files of pruned blocks are gone for every snapshot taken earlier (a block
	// may have been stored again by the same transaction: the old copy is gone all the same)
	for hsh := range p.pruned {
		for _, r := range h.readers {
			r.lost[hsh] = true
		}
	}
	h.snapDue = true
	if h.mode != "never" {
		h.e.flushed = true
	}
	if f, _ := ffldb.VerifWriteCursor(h.e.db); f != h.lastFile {
		h.lastFile = f
		h.e.classes["file-rollover"] = true
	}
}

func (h *hist) endTx(p *txPair, commit bool) {
	e := h.e
	dirty := p.m.Dirty
	var err error
	if commit {
		e.logf("tx#%d Commit", p.id)
		want := p.m.Commit()
		e.withMax(func() { err = p.real.Commit() })
		sig := ""
		e.expect(Op{K: "commit"}, want, err, sig)
		if want == kvmodel.OK {
			h.commitEffects(p)
		}
	} else {
		e.logf("tx#%d Rollback", p.id)
		want := p.m.Rollback()
		err = p.real.Rollback()
		e.expect(Op{K: "rollback"}, want, err, "")
		if dirty {
			e.classes["rollback-after-writes"] = true
		}
	}
	if p == h.writer {
		h.writer = nil
	} else {
		kept := h.readers[:0]
		for _, r := range h.readers {
			if r != p {
				kept = append(kept, r)
			}
		}
		h.readers = kept
	}
	h.closedTx = p
}

// managed runs a managed Update/View closure with a generated batch.
func (h *hist) managed(t *rapid.T, update bool) {
	e := h.e
	outcome := rapid.SampledFrom([]string{"ok", "ok", "ok", "ok", "err", "err", "panic", "commit-inside", "rollback-inside"}).Draw(t, "outcome")
	n := rapid.IntRange(0, 6).Draw(t, "nops")
	cacheOK := e.cacheEmpty()
	mt, _ := e.m.Begin(update)
	e.nextTxID++
	p := &txPair{m: mt, lost: map[kvmodel.Hash]bool{}, cacheOK: cacheOK, id: e.nextTxID, managed: true}
	name := "View"
	if update {
		name = "Update"
	}
	e.logf("tx#%d %s{ (outcome %s)", p.id, name, outcome)
	errBoom := fmt.Errorf("closure error (harness)")
	type closurePanic struct{}
	var retErr error
	var panicked any
	body := func(tx database.Tx) error {
		p.real = tx
		if tx.Metadata().Writable() != update {
			e.failf("", "%s: Metadata().Writable() = %v", name, !update)
		}
		for i := 0; i < n; i++ {
			h.g.step(t, p, h.noteOp)
		}
		switch outcome {
		case "err":
			return errBoom
		case "panic":
			panic(closurePanic{})
		case "commit-inside":
			_ = tx.Commit() // documented to panic on a managed transaction
			e.failf("", "%s: Commit on a managed transaction did not panic", name)
		case "rollback-inside":
			_ = tx.Rollback()
			e.failf("", "%s: Rollback on a managed transaction did not panic", name)
		}
		return nil
	}
	func() {
		defer func() { panicked = recover() }()
		e.withMax(func() {
			if update {
				retErr = e.db.Update(body)
			} else {
				retErr = e.db.View(body)
			}
		})
	}()
	if panicked != nil {
		_, mine := panicked.(closurePanic)
		s, isStr := panicked.(string)
		expectedLib := (outcome == "commit-inside" || outcome == "rollback-inside") && isStr && strings.Contains(s, "managed transaction")
		if !(mine && outcome == "panic") && !expectedLib {
			panic(panicked) // a failure raised by the harness itself (t.Fatalf) or an unexpected panic in btcd
		}
		e.classes["managed-panic"] = true
	}
	committed := false
	switch outcome {
	case "ok":
		if panicked != nil || retErr != nil {
			sig := ""
			e.failf(sig, "%s with a nil-returning closure returned %v", name, retErr)
		}
		if update {
			p.m.Commit()
			committed = true
		} else {
			p.m.Rollback()
		}
	case "err":
		if retErr != errBoom {
			e.failf("", "%s did not return the closure's error: got %v", name, retErr)
		}
		p.m.Rollback()
	default:
		if panicked == nil {
			e.failf("", "%s: expected panic (%s) did not propagate", name, outcome)
		}
		p.m.Rollback()
	}
	if !committed && p.m.Dirty && update {
		e.classes["rollback-after-writes"] = true
	}
	if committed {
		h.commitEffects(p)
	}
	e.logf("tx#%d } -> %v", p.id, retErr)
	// the transaction handle must be closed now
	if _, err := p.real.HasBlock(&h.e.pool[0].ch); codeOf(err) != kvmodel.TxClosed {
		e.failf("", "%s: transaction still usable after the managed call returned (HasBlock err=%v)", name, err)
	}
	h.closedTx = p
}

func (h *hist) noteOp(p *txPair, op Op) {
	e := h.e
	if strings.HasPrefix(op.K, "c") && op.K != "cnew" && op.Cur < len(p.curs) {
		c := p.curs[op.Cur]
		if p.m.Writable && (p.m.PathTouched(c.m.Path) || c.m.Reseeked || op.K == "cdel") {
			e.classes["cursor-over-pending"] = true
		}
	}
	if !p.m.Writable && p.m.Outlived() > 0 {
		e.classes["reader-outlives-commit"] = true
	}
}

func (h *hist) reopen() {
	e := h.e
	e.logf("Close + Open")
	if err := e.db.Close(); err != nil {
		e.failf("", "Close: %v", err)
	}
	// a closed handle refuses new transactions
	if _, err := e.db.Begin(false); codeOf(err) != kvmodel.DbNotOpen {
		e.failf("", "Begin on a closed database: %v, want ErrDbNotOpen", err)
	}
	if err := e.db.Update(func(database.Tx) error { return nil }); codeOf(err) != kvmodel.DbNotOpen {
		e.failf("", "Update on a closed database: %v, want ErrDbNotOpen", err)
	}
	if err := e.db.View(func(database.Tx) error { return nil }); codeOf(err) != kvmodel.DbNotOpen {
		e.failf("", "View on a closed database: %v, want ErrDbNotOpen", err)
	}
	db, err := database.Open("ffldb", e.dir, wire.MainNet)
	if err != nil {
		e.db = nil
		e.failf("", "database.Open after a clean Close: %v", err)
	}
	e.db = db
	e.flushed = true
	h.applyMode()
	e.classes["reopen"] = true
	h.closedTx = nil
	h.snapDue = true
}

func TestHistory(t *testing.T) {
	rapid.Check(t, func(t *rapid.T) {
		defer catchAbort()
		h := &hist{t: t}
		h.e = newEnv(t, recHistory, "hist", genMaxFile(t))
		e := h.e
		defer func() {
			cl := "plain"
			nt := false
			for _, c := range []string{"rollback-after-writes", "cursor-over-pending", "file-rollover", "prune", "reader-outlives-commit"} {
				if e.classes[c] {
					nt = true
					cl = c
					recHistory.Count(c, 1)
				}
			}
			for _, c := range []string{"reopen", "managed-panic"} {
				if e.classes[c] {
					recHistory.Count(c, 1)
				}
			}
			if !nt {
				recHistory.Count("plain", 1)
			}
			recHistory.Case(nt, "", ev.HashS(strings.Join(e.log, "\n")), func() any {
				l := e.log
				if len(l) > 40 {
					l = l[:40]
				}
				return map[string]any{"class": cl, "max_file": e.maxFile, "flush": h.mode, "ops": l}
			})
			// leave no transaction open so that Close cannot block
			if h.writer != nil && !h.writer.m.Closed {
				_ = h.writer.real.Rollback()
			}
			for _, r := range h.readers {
				_ = r.real.Rollback()
			}
			e.cleanup()
		}()
		h.mode = rapid.SampledFrom([]string{"never", "never", "always", "size"}).Draw(t, "flushmode")
		h.applyMode()
		h.g = &opGen{e: e, maxDepth: 3}
		e.logf("maxfile=%d flush=%s", e.maxFile, h.mode)
		// two blocks that are never stored unless drawn later
		h.g.newBlock(t)
		h.g.newBlock(t)

		txop := func(t *rapid.T) {
			var cands []*txPair
			if h.writer != nil {
				cands = append(cands, h.writer, h.writer, h.writer)
			}
			cands = append(cands, h.readers...)
			if len(cands) == 0 {
				t.Skip("no open transaction")
			}
			p := cands[rapid.IntRange(0, len(cands)-1).Draw(t, "tx")]
			done := 0
			for i, n := 0, rapid.IntRange(1, 4).Draw(t, "nsteps"); i < n; i++ {
				done += h.g.step(t, p, h.noteOp)
			}
			if done == 0 {
				t.Skip("excluded ops only")
			}
		}
		// blocks: a committed batch of new blocks, so that files roll over and PruneBlocks has something to remove
		blocks := func(t *rapid.T) {
			if h.writer != nil {
				t.Skip()
			}
			n := rapid.IntRange(1, 5).Draw(t, "nblocks")
			cacheOK := e.cacheEmpty()
			mt, _ := e.m.Begin(true)
			e.nextTxID++
			p := &txPair{m: mt, lost: map[kvmodel.Hash]bool{}, cacheOK: cacheOK, id: e.nextTxID, managed: true}
			e.logf("tx#%d Update{ (block batch)", p.id)
			var err error
			e.withMax(func() {
				err = e.db.Update(func(tx database.Tx) error {
					p.real = tx
					for i := 0; i < n; i++ {
						e.apply(p, Op{K: "store", B: []int{h.g.newBlock(t)}})
					}
					return nil
				})
			})
			if err != nil {
				e.failf("", "Update storing %d blocks: %v", n, err)
			}
			p.m.Commit()
			h.commitEffects(p)
			e.logf("tx#%d }", p.id)
		}
		actions := map[string]func(*rapid.T){
			"beginW": func(t *rapid.T) {
				if h.writer != nil {
					t.Skip()
				}
				h.writer = h.begin(true)
			},
			"beginR": func(t *rapid.T) {
				if len(h.readers) >= 3 {
					t.Skip()
				}
				h.readers = append(h.readers, h.begin(false))
			},
			"endW": func(t *rapid.T) {
				if h.writer == nil {
					t.Skip()
				}
				h.endTx(h.writer, rapid.IntRange(0, 3).Draw(t, "commit") > 0)
			},
			"endR": func(t *rapid.T) {
				if len(h.readers) == 0 {
					t.Skip()
				}
				p := h.readers[rapid.IntRange(0, len(h.readers)-1).Draw(t, "reader")]
				// Commit on a read-only tx returns ErrTxNotWritable and closes it
				h.endTx(p, rapid.IntRange(0, 3).Draw(t, "commitRO") == 0)
			},
			"txop1": txop, "txop2": txop, "txop3": txop, "txop4": txop, "txop5": txop, "txop6": txop, "txop7": txop, "txop8": txop,
			"blocks": blocks,
			"closedOp": func(t *rapid.T) {
				p := h.closedTx
				if p == nil || p.real == nil {
					t.Skip()
				}
				k := rapid.SampledFrom([]string{"put", "del", "mkb", "mkbx", "rmb", "foreach", "foreachb", "store", "has", "hasn", "fetch", "hdr", "fetchn", "region", "regionn", "prune", "cursor"}).Draw(t, "closedop")
				bi := rapid.IntRange(0, len(e.pool)-1).Draw(t, "blk")
				if k == "cursor" {
					c := p.real.Metadata().Cursor()
					if c.First() || c.Last() || c.Next() || c.Prev() || c.Seek([]byte("a")) || c.Key() != nil || c.Value() != nil {
						e.failf("", "cursor of a closed transaction moved / returned data")
					}
					if err := c.Delete(); codeOf(err) != kvmodel.TxClosed {
						e.failf("", "Cursor.Delete on a closed transaction: %v, want ErrTxClosed", err)
					}
					return
				}
				op := Op{K: k, Name: "a", Val: []byte("v"), B: []int{bi}, Regs: []RegSpec{{B: bi, Off: 0, Len: 1}}, N: -1, Target: 1 << 30}
				e.apply(p, op)
			},
			"update": func(t *rapid.T) {
				if h.writer != nil {
					t.Skip() // a second writer would block
				}
				h.managed(t, true)
			},
			"view": func(t *rapid.T) { h.managed(t, false) },
			"flush": func(t *rapid.T) {
				if h.writer != nil {
					t.Skip() // the flush hook takes the writer lock
				}
				e.logf("flush cache")
				if err := ffldb.VerifFlushCache(e.db); err != nil {
					e.failf("", "flush: %v", err)
				}
				e.flushed = true
				h.snapDue = true
			},
			"reopen": func(t *rapid.T) {
				if h.steps < 4 || rapid.IntRange(0, 2).Draw(t, "doReopen") != 0 {
					t.Skip()
				}
				// Close blocks until every transaction is finished
				if h.writer != nil {
					h.endTx(h.writer, rapid.Bool().Draw(t, "commitBeforeClose"))
				}
				for len(h.readers) > 0 {
					h.endTx(h.readers[0], false)
				}
				h.reopen()
			},
			"": func(t *rapid.T) {
				h.steps++
				// the committed state can only move at a commit / flush / reopen: whole-state
				// comparison after those and every 5th step, a cheap probe otherwise
				if h.snapDue || h.steps%5 == 0 {
					e.checkCommitted(fmt.Sprintf("invariant after step %d", h.steps))
				} else {
					e.probeCommitted(t, fmt.Sprintf("invariant (probe) after step %d", h.steps))
				}
				if h.snapDue || h.steps%10 == 0 {
					h.snapDue = false
					if h.writer != nil {
						e.checkSnapshot(h.writer, "open writer")
					}
					for _, r := range h.readers {
						if r.m.Outlived() > 0 {
							e.classes["reader-outlives-commit"] = true
						}
						e.checkSnapshot(r, "open reader")
					}
				}
			},
		}
		t.Repeat(actions)
	})
}
