package c05

import (
	"errors"
	"fmt"
	"os"
	"strings"
	"testing"
	"time"

	"github.com/btcsuite/btcd/database"
	"github.com/btcsuite/btcd/database/ffldb"
	"github.com/btcsuite/btcd/wire/v2"
	"pgregory.net/rapid"

	"verif/internal/ev"
	"verif/internal/model/kvmodel"
	"verif/internal/scratch"
)

// ---------------------------------------------------------------------------
// recorded transactions (shared by fault enumeration, crash images, isolation)

// recTx is a managed write transaction recorded as data.
type recTx struct {
	Ops    []Op
	Commit bool // false: the closure returns an error (rollback)
	pruned map[kvmodel.Hash]bool
}

var errRollback = errors.New("closure error (harness rollback)")

// recordTx generates a transaction while applying it (clean run).
func recordTx(t *rapid.T, e *env, g *opGen, nops, nblocks int, commit bool) recTx {
	rt := recTx{Commit: commit}
	mt, _ := e.m.Begin(true)
	e.nextTxID++
	p := &txPair{m: mt, lost: map[kvmodel.Hash]bool{}, cacheOK: e.cacheEmpty(), id: e.nextTxID, managed: true}
	e.logf("tx#%d Update{ commit=%v", p.id, commit)
	var err error
	e.withMax(func() {
		err = e.db.Update(func(tx database.Tx) error {
			p.real = tx
			for i := 0; i < nops; i++ {
				g.step(t, p, func(_ *txPair, op Op) { rt.Ops = append(rt.Ops, op) })
			}
			for i := 0; i < nblocks; i++ {
				op := Op{K: "store", B: []int{g.newBlock(t)}}
				rt.Ops = append(rt.Ops, op)
				e.apply(p, op)
			}
			if !commit {
				return errRollback
			}
			return nil
		})
	})
	if commit {
		if err != nil {
			sig := ""
			e.failf(sig, "Update returned %v for a closure that returned nil", err)
		}
		p.m.Commit()
	} else {
		if err != errRollback {
			e.failf("", "Update returned %v, want the closure's error", err)
		}
		p.m.Rollback()
	}
	e.logf("tx#%d }", p.id)
	rt.pruned = p.pruned
	return rt
}

// replayTx applies a recorded transaction.  In lenient mode (fault injection)
// an unexpected error of a real operation becomes the closure's error.
func replayTx(e *env, rt recTx) (err error, mt *kvmodel.Tx) {
	mt, _ = e.m.Begin(true)
	e.nextTxID++
	p := &txPair{m: mt, lost: map[kvmodel.Hash]bool{}, cacheOK: e.cacheEmpty(), id: e.nextTxID, managed: true}
	e.logf("tx#%d Update{ (replay)", p.id)
	e.withMax(func() {
		err = e.db.Update(func(tx database.Tx) (rerr error) {
			p.real = tx
			defer func() {
				if r := recover(); r != nil {
					if le, ok := r.(lenientErr); ok {
						rerr = le
						return
					}
					panic(r)
				}
			}()
			for _, op := range rt.Ops {
				e.apply(p, op)
			}
			if !rt.Commit {
				return errRollback
			}
			return nil
		})
	})
	e.logf("tx#%d } -> %v", p.id, err)
	return err, mt
}

// openEnv opens an existing database directory with a given model state.
func openEnv(t failer, rec *ev.Rec, dir string, st *kvmodel.State, pool []*blk, maxFile uint32) (*env, error) {
	db, err := database.Open("ffldb", dir, wire.MainNet)
	if err != nil {
		return nil, err
	}
	m := kvmodel.NewDB()
	m.Committed = st.Clone()
	return &env{t: t, rec: rec, dir: dir, db: db, m: m, maxFile: maxFile, pool: pool, classes: map[string]bool{}, flushed: true}, nil
}

// ---------------------------------------------------------------------------
// sub-check 3: fault enumeration

var recFault = ev.New("C05", "fault-enumeration",
	"a generated setup (2-5 committed transactions with keys, nested buckets and blocks over 1-16 KiB files, closed cleanly = base image) and one generated target "+
		"transaction (puts/deletes/bucket ops/cursor deletes/block reads/1-4 StoreBlock, sometimes PruneBlocks) are recorded on a clean run that counts the block-file operations n "+
		"issued during db.Update; the run is then repeated n times on a copy of the base image with the k-th operation failing (k=1..n, every k: exhaustive per workload) through "+
		"ffldb.VerifInterposeFiles; flush policy never / every commit (adds sync); oracle: Update error => whole visible state (bucket tree, every block byte-identical, absent blocks absent) "+
		"equals the model BEFORE the transaction, nil => equals the model AFTER it; a following write transaction and a close/reopen must succeed and agree with the model; "+
		"non-trivial = the failed operation is a write/open/sync/delete of the commit path; distinct by (workload hash, k)",
	"fault:write", "fault:openw", "rolled-back", "with-rollover")

var errInjected = errors.New("injected I/O fault (harness)")

func TestFaultEnumeration(t *testing.T) {
	rapid.Check(t, func(t *rapid.T) {
		defer catchAbort()
		maxFile := genMaxFile(t)
		withPrune := rapid.IntRange(0, 3).Draw(t, "withPrune") == 0
		if withPrune && !known(sigPruneFault) {
			maxFile = rapid.SampledFrom([]uint32{1024, 1536, 2048}).Draw(t, "maxfilePrune")
		}
		mode := rapid.SampledFrom([]string{"never", "always"}).Draw(t, "flushmode")
		setMode := func(db database.DB) {
			if mode == "always" {
				ffldb.VerifSetCacheLimits(db, 1<<40, 0)
			} else {
				ffldb.VerifSetCacheLimits(db, 1<<40, 1000*time.Hour)
			}
		}
		// ---- setup on a fresh database
		e := newEnv(t, recFault, "fbase", maxFile)
		var dirs []string
		dirs = append(dirs, e.dir)
		defer func() {
			e.cleanup()
			for _, d := range dirs {
				os.RemoveAll(d)
			}
		}()
		setMode(e.db)
		g := &opGen{e: e, maxDepth: 3, noPrune: true}
		g.newBlock(t)
		nsetup := rapid.IntRange(2, 5).Draw(t, "nsetup")
		for i := 0; i < nsetup; i++ {
			recordTx(t, e, g, rapid.IntRange(2, 8).Draw(t, "nops"), rapid.IntRange(0, 3).Draw(t, "nsetupblocks"), true)
		}
		e.checkCommitted("after setup")
		if err := e.db.Close(); err != nil {
			e.failf("", "Close after setup: %v", err)
		}
		e.db = nil
		base := e.dir
		m0 := e.m.Committed.Clone()

		// ---- recording run of the target transaction
		rdir := scratch.Dir("frec")
		dirs = append(dirs, rdir)
		if err := copyDir(base, rdir); err != nil {
			infra(t, "copy base image: %v", err)
		}
		re, err := openEnv(t, recFault, rdir, m0, e.pool, maxFile)
		if err != nil {
			e.failf("", "database.Open of the cleanly closed base image: %v", err)
		}
		re.log = append(re.log, e.log...)
		setMode(re.db)
		var recorded []ffldb.VerifFileOp
		fStart, _ := ffldb.VerifWriteCursor(re.db)
		ffldb.VerifInterposeFiles(re.db, func(op ffldb.VerifFileOp) error {
			recorded = append(recorded, op)
			return nil
		})
		rg := &opGen{e: re, maxDepth: 3, uniq: g.uniq}
		rg.noPrune = !withPrune || known(sigPruneFault)
		if withPrune && known(sigPruneFault) {
			recFault.Excluded() // known finding: PruneBlocks in a transaction whose commit fails
			recFault.Count("excluded:prune-in-target", 1)
		}
		target := recTx{Commit: true}
		{
			// the target always stores blocks (so that the commit writes files), around generated ops
			mt, _ := re.m.Begin(true)
			re.nextTxID++
			p := &txPair{m: mt, lost: map[kvmodel.Hash]bool{}, cacheOK: re.cacheEmpty(), id: re.nextTxID, managed: true}
			nops := rapid.IntRange(1, 8).Draw(t, "tnops")
			nblk := rapid.IntRange(1, 4).Draw(t, "tblocks")
			re.logf("tx#%d Update{ (target, recording)", p.id)
			var uerr error
			re.withMax(func() {
				uerr = re.db.Update(func(tx database.Tx) error {
					p.real = tx
					note := func(_ *txPair, op Op) { target.Ops = append(target.Ops, op) }
					for i := 0; i < nops; i++ {
						rg.step(t, p, note)
					}
					for i := 0; i < nblk; i++ {
						op := Op{K: "store", B: []int{rg.newBlock(t)}}
						note(p, op)
						re.apply(p, op)
					}
					if !rg.noPrune && p.prunes == 0 {
						op := Op{K: "prune", Target: uint64(maxFile) * uint64(rapid.IntRange(1, 2).Draw(t, "prunefiles"))}
						note(p, op)
						re.apply(p, op)
					}
					if rapid.Bool().Draw(t, "moreops") {
						rg.step(t, p, note)
					}
					return nil
				})
			})
			if uerr != nil {
				sig := ""
				re.failf(sig, "clean run of the target transaction failed: %v", uerr)
			}
			p.m.Commit()
			re.logf("tx#%d }", p.id)
		}
		n := len(recorded)
		ffldb.VerifInterposeFiles(re.db, nil)
		re.checkCommitted("clean run of the target transaction")
		m1 := re.m.Committed.Clone()
		pool := re.pool
		re.cleanup()
		rollover := false
		for _, op := range recorded[:n] {
			if op.Op == "openw" && op.FileNum > fStart {
				rollover = true
			}
		}
		pruned := len(m1.Blocks) < len(m0.Blocks) || m1.Pruned && !m0.Pruned
		// a follow-up block for the transaction after the fault
		g2 := &opGen{e: &env{pool: pool, rec: recFault, maxFile: maxFile}, uniq: rg.uniq}
		fi := g2.newBlock(t)
		pool = g2.e.pool
		followUp := recTx{Commit: true, Ops: []Op{{K: "store", B: []int{fi}}, {K: "put", Name: "after-fault", Val: []byte("x")}}}

		var hb strings.Builder
		for _, l := range re.log {
			hb.WriteString(l)
			hb.WriteByte('\n')
		}
		whash := ev.HashS(hb.String())
		kinds := map[string]int{}
		for _, op := range recorded {
			kinds[op.Op]++
		}
		recFault.Count("workloads", 1)
		if rollover {
			recFault.Count("with-rollover", 1)
		}
		if pruned {
			recFault.Count("with-prune", 1)
		}
		if n == 0 {
			infra(t, "target transaction issued no file operation")
		}

		// ---- one run per fault point
		for k := 1; k <= n; k++ {
			fop := recorded[k-1]
			nt := fop.Op == "write" || fop.Op == "openw" || fop.Op == "sync" || fop.Op == "delete" || fop.Op == "truncate"
			recFault.Case(nt, "fault:"+fop.Op, ev.Hash([]byte(fmt.Sprintf("%x/%d", whash, k))), func() any {
				return map[string]any{"max_file": maxFile, "flush": mode, "fault_point": k, "of": n, "op": fmt.Sprintf("%+v", fop), "target_tx": fmt.Sprint(target.Ops)}
			})
			fdir := scratch.Dir("fk")
			if err := copyDir(base, fdir); err != nil {
				infra(t, "copy base image: %v", err)
			}
			fe, err := openEnv(t, recFault, fdir, m0, pool, maxFile)
			if err != nil {
				os.RemoveAll(fdir)
				e.failf("", "database.Open of the base image: %v", err)
			}
			func() {
				defer fe.cleanup()
				fe.logf("=== fault point %d/%d: %+v  (maxfile=%d flush=%s)", k, n, fop, maxFile, mode)
				setMode(fe.db)
				cnt := 0
				var seen []string
				ffldb.VerifInterposeFiles(fe.db, func(op ffldb.VerifFileOp) error {
					cnt++
					if cnt == k {
						seen = append(seen, fmt.Sprintf("FAIL %+v", op))
						return errInjected
					}
					return nil
				})
				fe.lenient = true
				uerr, _ := replayTx(fe, target)
				fe.lenient = false
				if cnt < k {
					infra(t, "replay issued %d file operations, recorded run had %d (non-deterministic workload)", cnt, n)
				}
				sig := ""
				if pruned {
					sig = sigPruneFault
				}
				if uerr != nil {
					recFault.Count("rolled-back", 1)
					fe.m.Committed = m0.Clone()
					fe.checkCommittedSig(fmt.Sprintf("after Update failed with %q at fault point %d (%+v): state must equal the model BEFORE the transaction", uerr, k, fop), sig)
				} else {
					recFault.Count("committed-despite-fault:"+fop.Op, 1)
					if fop.Op == "write" || fop.Op == "openw" || fop.Op == "sync" || fop.Op == "delete" {
						fe.failf(sig, "Update returned nil although %+v (fault point %d) failed", fop, k)
					}
					fe.m.Committed = m1.Clone()
					fe.m.Commits++
					fe.checkCommittedSig(fmt.Sprintf("after Update succeeded despite fault point %d (%+v): state must equal the model AFTER the transaction", k, fop), sig)
				}
				// later transactions work
				if ferr, _ := replayTxCommit(fe, followUp); ferr != nil {
					fe.failf(sig, "transaction after fault point %d (%+v) failed: %v", k, fop, ferr)
				}
				fe.checkCommittedSig(fmt.Sprintf("after the follow-up transaction (fault point %d %+v)", k, fop), sig)
				// and a reopen
				if err := fe.db.Close(); err != nil {
					fe.failf(sig, "Close after fault point %d: %v", k, err)
				}
				db, err := database.Open("ffldb", fe.dir, wire.MainNet)
				if err != nil {
					fe.db = nil
					fe.failf(sig, "database.Open after fault point %d (%+v): %v", k, fop, err)
				}
				fe.db = db
				fe.checkCommittedSig(fmt.Sprintf("after reopen (fault point %d %+v)", k, fop), sig)
			}()
		}
		recFault.Exhaustive()
		recFault.Count("fault-points", int64(n))
	})
}

// replayTxCommit replays a transaction and applies the model commit.
func replayTxCommit(e *env, rt recTx) (error, *kvmodel.Tx) {
	err, mt := replayTx(e, rt)
	if err == nil {
		mt.Commit()
	} else {
		mt.Rollback()
	}
	return err, mt
}

// checkCommittedSig is checkCommitted with a known-finding signature attached
// to any mismatch (used when the workload is in a known-finding input class).
func (e *env) checkCommittedSig(what, sig string) {
	if sig == "" {
		e.checkCommitted(what)
		return
	}
	var got *kvmodel.State
	var derr error
	err := e.db.View(func(tx database.Tx) error {
		got, derr = e.dump(tx, nil)
		return nil
	})
	if err != nil {
		e.failf(sig, "%s: View failed: %v", what, err)
	}
	if derr != nil {
		e.failf(sig, "%s: reading the committed state: %v", what, derr)
	}
	if !got.Equal(e.m.Committed) {
		e.failf(sig, "%s: committed state differs from the model:\n    %s", what, diffState(got, e.m.Committed, e.pool))
	}
}
